import Crv.Repo
/-!
Lemmas about the repository model: the lookup walk, association-list updates, staging, and the
invariant "every store that holds a document holds one that was accepted under the configured policy".
-/
namespace Crv.Repo
open Crv Crv.Generated

/-! ### The lookup walk -/

theorem walk_listed (c : Cert) (order : List (Loc × Entry))
    (h : ∃ p ∈ order, p.2.loaded = true ∧ listed p.2.store c = true) : walk c order ≠ .notRevoked := by
  induction order with
  | nil => obtain ⟨p, hp, _⟩ := h; cases hp
  | cons q t ih =>
    obtain ⟨loc, e⟩ := q
    unfold walk
    by_cases hc : e.closed = true
    · simp [hc]
    · simp only [hc, Bool.false_eq_true, ↓reduceIte]
      by_cases hl : (e.loaded && listed e.store c) = true
      · simp [hl]
      · simp only [hl, Bool.false_eq_true, ↓reduceIte]
        apply ih
        obtain ⟨p, hp, h1, h2⟩ := h
        rcases List.mem_cons.mp hp with rfl | hmem
        · simp only at h1 h2
          simp [h1, h2] at hl
        · exact ⟨p, hmem, h1, h2⟩

theorem walk_revoked_sound (c : Cert) (order : List (Loc × Entry)) (h : walk c order = .revoked) :
    ∃ p ∈ order, p.2.loaded = true ∧ p.2.closed = false ∧ listed p.2.store c = true := by
  induction order with
  | nil => simp [walk] at h
  | cons q t ih =>
    obtain ⟨loc, e⟩ := q
    unfold walk at h
    by_cases hc : e.closed = true
    · simp [hc] at h
    · simp only [hc, Bool.false_eq_true, ↓reduceIte] at h
      by_cases hl : (e.loaded && listed e.store c) = true
      · simp only [Bool.and_eq_true] at hl
        exact ⟨(loc, e), List.mem_cons_self, hl.1, by simpa using hc, hl.2⟩
      · simp only [hl, Bool.false_eq_true, ↓reduceIte] at h
        obtain ⟨p, hp, hrest⟩ := ih h
        exact ⟨p, List.mem_cons_of_mem _ hp, hrest⟩

theorem walk_error_closed (c : Cert) (order : List (Loc × Entry)) (h : walk c order = .error) :
    ∃ p ∈ order, p.2.closed = true := by
  induction order with
  | nil => simp [walk] at h
  | cons q t ih =>
    obtain ⟨loc, e⟩ := q
    unfold walk at h
    by_cases hc : e.closed = true
    · exact ⟨(loc, e), List.mem_cons_self, hc⟩
    · simp only [hc, Bool.false_eq_true, ↓reduceIte] at h
      by_cases hl : (e.loaded && listed e.store c) = true
      · simp [hl] at h
      · simp only [hl, Bool.false_eq_true, ↓reduceIte] at h
        obtain ⟨p, hp, hcl⟩ := ih h
        exact ⟨p, List.mem_cons_of_mem _ hp, hcl⟩

theorem walk_notRevoked_none_closed (c : Cert) (order : List (Loc × Entry)) (h : walk c order = .notRevoked) :
    ∀ p ∈ order, p.2.closed = false := by
  induction order with
  | nil => intro p hp; cases hp
  | cons q t ih =>
    obtain ⟨loc, e⟩ := q
    unfold walk at h
    by_cases hc : e.closed = true
    · simp [hc] at h
    · simp only [hc, Bool.false_eq_true, ↓reduceIte] at h
      by_cases hl : (e.loaded && listed e.store c) = true
      · simp [hl] at h
      · simp only [hl, Bool.false_eq_true, ↓reduceIte] at h
        intro p hp
        rcases List.mem_cons.mp hp with rfl | hmem
        · simpa using hc
        · exact ih h p hmem

/-! ### Association lists -/

theorem mem_upsert {α : Type} (l : List (Loc × α)) (k : Loc) (v : α) (p : Loc × α) (h : p ∈ upsert l k v) :
    p = (k, v) ∨ p ∈ l := by
  induction l with
  | nil => simp [upsert] at h; exact Or.inl h
  | cons q t ih =>
    obtain ⟨k', v'⟩ := q
    unfold upsert at h
    by_cases hk : (k' == k) = true
    · simp only [hk, ↓reduceIte] at h
      rcases List.mem_cons.mp h with rfl | hm
      · exact Or.inl rfl
      · exact Or.inr (List.mem_cons_of_mem _ hm)
    · simp only [hk, Bool.false_eq_true, ↓reduceIte] at h
      rcases List.mem_cons.mp h with rfl | hm
      · exact Or.inr List.mem_cons_self
      · rcases ih hm with h1 | h2
        · exact Or.inl h1
        · exact Or.inr (List.mem_cons_of_mem _ h2)

theorem lookup_mem {α : Type} (l : List (Loc × α)) (k : Loc) (v : α) (h : lookup l k = some v) : (k, v) ∈ l := by
  unfold lookup at h
  cases hf : l.find? (fun p => p.1 == k) with
  | none => simp [hf] at h
  | some p =>
    simp only [hf, Option.map_some, Option.some.injEq] at h
    have hm := List.mem_of_find?_eq_some hf
    have hk := List.find?_some hf
    simp only [beq_iff_eq] at hk
    obtain ⟨a, b⟩ := p
    simp only at hk h
    subst hk; subst h
    exact hm

/-! ### Staging -/

/-- A staged store is a complete image of the served document, and the document is acceptable under the policy
(whatever the `honourMode` flag: verifying regardless of the mode only accepts less). -/
theorem stage_ok (m : SigMode) (hm : Bool) (sv : Served) (cands : List Signer) (st : Store) (d : DocA) (v : Bool)
    (h : stage m hm sv cands = .ok st d v) :
    sv = .doc d ∧ st.doc = some d ∧ st.hasLocs = true ∧ acceptable m d cands = true ∧ (v = true → verifies d cands = true) := by
  unfold stage at h
  cases sv with
  | down => simp at h
  | garbage => simp at h
  | doc d' =>
    simp only at h
    by_cases h1 : (hm && m == .none) = true
    · simp only [h1, ↓reduceIte, StageRes.ok.injEq] at h
      obtain ⟨rfl, rfl, rfl⟩ := h
      simp only [Bool.and_eq_true, beq_iff_eq] at h1
      refine ⟨rfl, rfl, rfl, ?_, by intro hv; cases hv⟩
      rw [h1.2]; rfl
    · simp only [h1, Bool.false_eq_true, ↓reduceIte] at h
      by_cases h2 : verifies d' cands = true
      · simp only [h2, ↓reduceIte, StageRes.ok.injEq] at h
        obtain ⟨rfl, rfl, rfl⟩ := h
        refine ⟨rfl, rfl, rfl, ?_, fun _ => h2⟩
        cases m <;> simp [acceptable, h2]
      · simp only [h2, Bool.false_eq_true, ↓reduceIte] at h
        by_cases h3 : (hm && m == .verifyLog) = true
        · simp only [h3, ↓reduceIte, StageRes.ok.injEq] at h
          obtain ⟨rfl, rfl, rfl⟩ := h
          simp only [Bool.and_eq_true, beq_iff_eq] at h3
          refine ⟨rfl, rfl, rfl, ?_, by intro hv; cases hv⟩
          rw [h3.2]; rfl
        · simp [h3] at h

/-- With the mode honoured, staging succeeds exactly for parseable documents acceptable under the policy. -/
theorem stage_honour_iff (m : SigMode) (d : DocA) (cands : List Signer) :
    (∃ st v, stage m true (.doc d) cands = .ok st d v) ↔ acceptable m d cands = true := by
  unfold stage acceptable
  cases m <;> by_cases hv : verifies d cands = true <;> simp [hv]

theorem stage_fail_not_doc (m : SigMode) (hm : Bool) (cands : List Signer) :
    stage m hm .down cands = .fetchFail ∧ stage m hm .garbage cands = .parseFail := ⟨rfl, rfl⟩

end Crv.Repo

namespace Crv.Repo
open Crv Crv.Generated

/-! ### Invariant: stored documents were accepted under the configured policy -/

/-- `d` came into force at `loc` at some point, accepted under the configured signature policy against the
candidate signers available at that intake. -/
def Accepted (s : State) (loc : Loc) (d : DocA) : Prop :=
  ∃ a ∈ s.log, a.loc = loc ∧ a.doc = d ∧ acceptable s.cfg.sigMode d a.cands = true

def StoreOK (s : State) (loc : Loc) (st : Store) : Prop := ∀ d, st.doc = some d → Accepted s loc d

def Inv (s : State) : Prop :=
  (∀ p ∈ s.entries, StoreOK s p.1 p.2.store ∧ (p.2.loaded = true → p.2.store.doc.isSome = true)) ∧
  (∀ p ∈ s.disk, StoreOK s p.1 p.2)

theorem accepted_mono {s s' : State} (hc : s'.cfg = s.cfg) (hl : ∀ a ∈ s.log, a ∈ s'.log) {loc : Loc} {d : DocA}
    (h : Accepted s loc d) : Accepted s' loc d := by
  obtain ⟨a, ha, h1, h2, h3⟩ := h
  exact ⟨a, hl a ha, h1, h2, by rw [hc]; exact h3⟩

theorem storeOK_mono {s s' : State} (hc : s'.cfg = s.cfg) (hl : ∀ a ∈ s.log, a ∈ s'.log) {loc : Loc} {st : Store}
    (h : StoreOK s loc st) : StoreOK s' loc st := fun d hd => accepted_mono hc hl (h d hd)

/-- Transport of the invariant to a state with the same configuration and a longer log, given the new lists. -/
theorem inv_of (s s' : State) (hc : s'.cfg = s.cfg) (hl : ∀ a ∈ s.log, a ∈ s'.log)
    (he : ∀ p ∈ s'.entries, p ∈ s.entries ∨ (StoreOK s' p.1 p.2.store ∧ (p.2.loaded = true → p.2.store.doc.isSome = true)))
    (hd : ∀ p ∈ s'.disk, p ∈ s.disk ∨ StoreOK s' p.1 p.2)
    (h : Inv s) : Inv s' := by
  refine ⟨?_, ?_⟩
  · intro p hp
    rcases he p hp with hold | hnew
    · exact ⟨storeOK_mono hc hl (h.1 p hold).1, (h.1 p hold).2⟩
    · exact hnew
  · intro p hp
    rcases hd p hp with hold | hnew
    · exact storeOK_mono hc hl (h.2 p hold)
    · exact hnew

theorem inv_setEntry (s : State) (loc : Loc) (e : Entry) (h : Inv s)
    (hs : StoreOK s loc e.store) (hl : e.loaded = true → e.store.doc.isSome = true) : Inv (setEntry s loc e) := by
  refine inv_of s (setEntry s loc e) rfl (fun a ha => ha) ?_ ?_ h
  · intro p hp
    rcases mem_upsert _ _ _ _ hp with rfl | hold
    · exact Or.inr ⟨hs, hl⟩
    · exact Or.inl hold
  · intro p hp
    simp only [setEntry] at hp
    by_cases hdk : s.cfg.disk = true
    · simp only [hdk, ↓reduceIte] at hp
      rcases mem_upsert _ _ _ _ hp with rfl | hold
      · exact Or.inr hs
      · exact Or.inl hold
    · simp only [hdk, Bool.false_eq_true, ↓reduceIte] at hp
      exact Or.inl hp

theorem setEntry_cfg (s : State) (loc : Loc) (e : Entry) : (setEntry s loc e).cfg = s.cfg := rfl
theorem setEntry_log (s : State) (loc : Loc) (e : Entry) : (setEntry s loc e).log = s.log := rfl

/-- Installing a freshly accepted document (and logging the acceptance) keeps the invariant. -/
theorem inv_install (s : State) (loc : Loc) (e : Entry) (d : DocA) (cands : List Signer) (h : Inv s)
    (hdoc : e.store.doc = some d) (hacc : acceptable s.cfg.sigMode d cands = true) :
    Inv { setEntry s loc e with log := s.log ++ [⟨loc, d, cands⟩] } := by
  have hA : Accepted { setEntry s loc e with log := s.log ++ [⟨loc, d, cands⟩] } loc d :=
    ⟨⟨loc, d, cands⟩, by simp, rfl, rfl, hacc⟩
  have hS : StoreOK { setEntry s loc e with log := s.log ++ [⟨loc, d, cands⟩] } loc e.store := by
    intro d' hd'
    rw [hdoc] at hd'
    cases hd'
    exact hA
  refine inv_of s { setEntry s loc e with log := s.log ++ [⟨loc, d, cands⟩] } rfl (fun a ha => by simp [ha]) ?_ ?_ h
  · intro p hp
    rcases mem_upsert _ _ _ _ hp with rfl | hold
    · exact Or.inr ⟨hS, fun _ => by rw [hdoc]; rfl⟩
    · exact Or.inl hold
  · intro p hp
    simp only [setEntry] at hp
    by_cases hdk : s.cfg.disk = true
    · simp only [hdk, ↓reduceIte] at hp
      rcases mem_upsert _ _ _ _ hp with rfl | hold
      · exact Or.inr hS
      · exact Or.inl hold
    · simp only [hdk, Bool.false_eq_true, ↓reduceIte] at hp
      exact Or.inl hp

theorem inv_loadCRL (s : State) (loc : Loc) (e : Entry) (cands : List Signer) (h : Inv s) :
    Inv (loadCRL s loc e cands).1 := by
  unfold loadCRL
  by_cases hc : loadRefused s e = true
  · simp only [hc, ↓reduceIte]; exact h
  · simp only [hc, Bool.false_eq_true, ↓reduceIte]
    cases hst : stage s.cfg.sigMode firstLoadHonoursMode (servedAt s loc) cands with
    | ok st d v =>
      obtain ⟨_, hdoc, _, hacc, _⟩ := stage_ok _ _ _ _ _ _ _ hst
      exact inv_install s loc _ d cands h hdoc hacc
    | fetchFail => exact h
    | parseFail => exact h
    | sigFail d => exact h

theorem inv_updateCrlEntry (s : State) (loc : Loc) (e : Entry) (nc : Option (List Signer)) (h : Inv s)
    (he : StoreOK s loc e.store ∧ (e.loaded = true → e.store.doc.isSome = true)) :
    Inv (updateCrlEntry s loc e nc).1 := by
  unfold updateCrlEntry
  by_cases hc : refreshRefused s e = true
  · simp only [hc, ↓reduceIte]; exact h
  · simp only [hc, Bool.false_eq_true, ↓reduceIte]
    by_cases hl : (!e.store.hasLocs) = true
    · simp only [hl, ↓reduceIte]; exact h
    · simp only [hl, Bool.false_eq_true, ↓reduceIte]
      cases hst : stage s.cfg.sigMode refreshHonoursMode (servedAt s loc) (refreshCands e nc) with
      | ok st d v =>
        obtain ⟨_, hdoc, _, hacc, _⟩ := stage_ok _ _ _ _ _ _ _ hst
        exact inv_install s loc _ d _ h hdoc hacc
      | fetchFail => exact h
      | parseFail => exact h
      | sigFail d => exact inv_setEntry s loc _ h he.1 he.2

end Crv.Repo

namespace Crv.Repo
open Crv Crv.Generated

def EntryOK (s : State) (loc : Loc) (e : Entry) : Prop :=
  StoreOK s loc e.store ∧ (e.loaded = true → e.store.doc.isSome = true)

theorem entryOK_of_mem (s : State) (h : Inv s) (loc : Loc) (e : Entry) (hm : lookup s.entries loc = some e) :
    EntryOK s loc e :=
  h.1 (loc, e) (lookup_mem _ _ _ hm)

theorem entryOK_new (s : State) (h : Inv s) (loc : Loc) (cands : List Signer) : EntryOK s loc (newEntry s loc cands) := by
  unfold newEntry EntryOK
  by_cases hd : s.cfg.disk = true
  · simp only [hd, ↓reduceIte]
    cases hl : lookup s.disk loc with
    | none =>
      simp only [Option.getD_none]
      exact ⟨(fun d hd' => by cases hd'), (fun hx => by cases hx)⟩
    | some st =>
      simp only [Option.getD_some]
      exact ⟨h.2 (loc, st) (lookup_mem _ _ _ hl), fun hx => hx⟩
  · simp only [hd, Bool.false_eq_true, ↓reduceIte]
    exact ⟨(fun d hd' => by cases hd'), (fun hx => by cases hx)⟩

theorem entryOK_setEntry (s : State) (loc loc' : Loc) (e e' : Entry) (h : EntryOK s loc e) : EntryOK (setEntry s loc' e') loc e :=
  ⟨storeOK_mono rfl (fun a ha => ha) h.1, h.2⟩

theorem inv_loadActively (s : State) (loc : Loc) (e : Entry) (cands : List Signer) (h : Inv s) (he : EntryOK s loc e) :
    Inv (loadActively s loc e cands).1 := by
  unfold loadActively
  by_cases hc : (e.closed && closedEntriesSkipped) = true
  · simp only [hc, ↓reduceIte]; exact h
  · simp only [hc, Bool.false_eq_true, ↓reduceIte]
    exact inv_loadCRL _ loc _ cands (inv_setEntry s loc _ h he.1 he.2)

theorem inv_addCRL (s : State) (loc : Loc) (cands : List Signer) (h : Inv s) : Inv (addCRL s loc cands).1 := by
  unfold addCRL
  by_cases hu : s.unsupported.contains loc = true
  · simp only [hu, ↓reduceIte]; exact h
  · simp only [hu, Bool.false_eq_true, ↓reduceIte]
    -- the entry looked up or created, and the state after registering it
    cases hl : lookup s.entries loc with
    | some e =>
      simp only
      have he : EntryOK s loc e := entryOK_of_mem s h loc e hl
      -- `added = false`: no location write
      simp only [Bool.false_and, Bool.false_eq_true, ↓reduceIte]
      by_cases hact : (s.cfg.fetch == FetchMode.actively && !e.loaded) = true
      · simp only [hact, ↓reduceIte]
        exact inv_loadActively s loc e cands h he
      · simp only [hact, Bool.false_eq_true, ↓reduceIte]
        by_cases hsf : e.sigFailed = true
        · simp only [hsf, ↓reduceIte]
          cases hld : e.lastDoc with
          | none => exact h
          | some d =>
            simp only
            by_cases hv : verifies d cands = true
            · simp only [hv, ↓reduceIte]
              exact inv_setEntry s loc _ h he.1 he.2
            · simp only [hv, Bool.false_eq_true, ↓reduceIte]; exact h
        · simp only [hsf, Bool.false_eq_true, ↓reduceIte]; exact h
    | none =>
      simp only
      have he : EntryOK s loc (newEntry s loc cands) := entryOK_new s h loc cands
      have h1 : Inv (setEntry s loc (newEntry s loc cands)) := inv_setEntry s loc _ h he.1 he.2
      have he1 : EntryOK (setEntry s loc (newEntry s loc cands)) loc (newEntry s loc cands) := entryOK_setEntry s loc loc _ _ he
      by_cases hst : (true && !(newEntry s loc cands).loaded && locationsStoredOnAdd) = true
      · simp only [hst, ↓reduceIte]
        have h2 : Inv (setEntry (setEntry s loc (newEntry s loc cands)) loc
            { newEntry s loc cands with store := { (newEntry s loc cands).store with hasLocs := true } }) :=
          inv_setEntry _ loc _ h1 he1.1 he1.2
        by_cases hact : ((setEntry (setEntry s loc (newEntry s loc cands)) loc
            { newEntry s loc cands with store := { (newEntry s loc cands).store with hasLocs := true } }).cfg.fetch == FetchMode.actively &&
            !(newEntry s loc cands).loaded) = true
        · simp only [hact, ↓reduceIte]
          have he2 := entryOK_setEntry (setEntry s loc (newEntry s loc cands)) loc loc
            { newEntry s loc cands with store := { (newEntry s loc cands).store with hasLocs := true } }
            { newEntry s loc cands with store := { (newEntry s loc cands).store with hasLocs := true } } he1
          exact inv_loadActively _ loc _ cands h2 he2
        · simp only [hact, Bool.false_eq_true, ↓reduceIte]
          -- a new entry never has sigFailed set
          have : (newEntry s loc cands).sigFailed = false := rfl
          simp only [this, Bool.false_eq_true, ↓reduceIte]
          exact h2
      · simp only [hst, Bool.false_eq_true, ↓reduceIte]
        by_cases hact : ((setEntry s loc (newEntry s loc cands)).cfg.fetch == FetchMode.actively &&
            !(newEntry s loc cands).loaded) = true
        · simp only [hact, ↓reduceIte]
          exact inv_loadActively _ loc _ cands h1 he1
        · simp only [hact, Bool.false_eq_true, ↓reduceIte]
          have : (newEntry s loc cands).sigFailed = false := rfl
          simp only [this, Bool.false_eq_true, ↓reduceIte]
          exact h1

end Crv.Repo

namespace Crv.Repo
open Crv Crv.Generated

theorem inv_updateOne (s : State) (loc : Loc) (h : Inv s) : Inv (updateOne s loc) := by
  unfold updateOne
  cases hl : lookup s.entries loc with
  | none => exact h
  | some e =>
    simp only
    have he := entryOK_of_mem s h loc e hl
    by_cases hcl : (e.closed && closedEntriesSkipped) = true
    · simp only [hcl, ↓reduceIte]; exact h
    · simp only [hcl, Bool.false_eq_true, ↓reduceIte]
      by_cases hld : (!e.loaded) = true
      · simp only [hld, ↓reduceIte]; exact inv_loadCRL s loc e _ h
      · simp only [hld, Bool.false_eq_true, ↓reduceIte]; exact inv_updateCrlEntry s loc e none h he

theorem inv_updateAll (order : List Loc) : ∀ s, Inv s → Inv (updateAll s order) := by
  induction order with
  | nil => intro s h; exact h
  | cons l t ih => intro s h; exact ih _ (inv_updateOne s l h)

theorem inv_provisionOne (s : State) (loc : Loc) (trusted : List Signer) (h : Inv s) : Inv (provisionOne s loc trusted).1 := by
  unfold provisionOne
  have h1 := inv_addCRL s loc trusted h
  cases hadd : addCRL s loc trusted with
  | mk s1 rest =>
    obtain ⟨added, o1⟩ := rest
    rw [hadd] at h1
    simp only at h1 ⊢
    by_cases ho : (o1 == Outcome.err) = true
    · simp only [ho, ↓reduceIte]; exact h1
    · simp only [ho, Bool.false_eq_true, ↓reduceIte]
      cases hl : lookup s1.entries loc with
      | none => exact h1
      | some e => exact inv_updateCrlEntry s1 loc e _ h1 (entryOK_of_mem s1 h1 loc e hl)

theorem inv_handshake (s : State) (c : Cert) (cands : List Signer) (h : Inv s) : Inv (handshake s c cands).1 := by
  unfold handshake
  cases hc : c.cdp with
  | none => exact h
  | some loc =>
    simp only
    have h1 := inv_addCRL s loc cands h
    cases hadd : addCRL s loc cands with
    | mk s1 rest =>
      obtain ⟨added, o⟩ := rest
      rw [hadd] at h1
      exact h1

theorem inv_restart (s : State) (h : Inv s) : Inv (restart s) :=
  ⟨(fun p hp => by cases hp), h.2⟩

theorem inv_close (s : State) (h : Inv s) : Inv (close s) := by
  unfold close
  by_cases hc : closeMarksEntries = true
  · simp only [hc, ↓reduceIte]
    refine ⟨?_, h.2⟩
    intro p hp
    simp only [List.mem_map] at hp
    obtain ⟨q, hq, rfl⟩ := hp
    exact h.1 q hq
  · simp only [hc, Bool.false_eq_true, ↓reduceIte]
    exact ⟨(fun p hp => by cases hp), h.2⟩

theorem inv_serve (s : State) (loc : Loc) (sv : Served) (h : Inv s) : Inv (serve s loc sv) := h

/-- The operations of a history. -/
inductive Op
  | serve (loc : Loc) (sv : Served)
  | handshake (c : Cert) (cands : List Signer)
  | tick (order : List Loc)              -- `UpdateCRLs` over the identifiers in some enumeration order
  | provision (loc : Loc) (trusted : List Signer)
  | restart
  | close
  | markUnsupported (loc : Loc)

def step (s : State) : Op → State
  | .serve loc sv => serve s loc sv
  | .handshake c cands => (handshake s c cands).1
  | .tick order => updateAll s order
  | .provision loc trusted => (provisionOne s loc trusted).1
  | .restart => restart s
  | .close => close s
  | .markUnsupported loc => { s with unsupported := loc :: s.unsupported }

def run (cfg : Cfg) (ops : List Op) : State := ops.foldl step { cfg := cfg }

theorem inv_step (s : State) (op : Op) (h : Inv s) : Inv (step s op) := by
  cases op with
  | serve loc sv => exact inv_serve s loc sv h
  | handshake c cands => exact inv_handshake s c cands h
  | tick order => exact inv_updateAll order s h
  | provision loc trusted => exact inv_provisionOne s loc trusted h
  | restart => exact inv_restart s h
  | close => exact inv_close s h
  | markUnsupported loc => exact h

theorem inv_init (cfg : Cfg) : Inv { cfg := cfg } :=
  ⟨(fun p hp => by cases hp), (fun p hp => by cases hp)⟩

theorem inv_foldl (ops : List Op) : ∀ s, Inv s → Inv (ops.foldl step s) := by
  induction ops with
  | nil => intro s h; exact h
  | cons o t ih => intro s h; exact ih _ (inv_step s o h)

/-- Every state reachable by any history satisfies the invariant. -/
theorem inv_run (cfg : Cfg) (ops : List Op) : Inv (run cfg ops) := inv_foldl ops _ (inv_init cfg)

theorem loadCRL_cfg (s : State) (loc : Loc) (e : Entry) (cands : List Signer) : (loadCRL s loc e cands).1.cfg = s.cfg := by
  unfold loadCRL
  by_cases hc : loadRefused s e = true
  · simp only [hc, ↓reduceIte]
  · simp only [hc, Bool.false_eq_true, ↓reduceIte]
    cases hst : stage s.cfg.sigMode firstLoadHonoursMode (servedAt s loc) cands <;> rfl

theorem updateCrlEntry_cfg (s : State) (loc : Loc) (e : Entry) (nc : Option (List Signer)) :
    (updateCrlEntry s loc e nc).1.cfg = s.cfg := by
  unfold updateCrlEntry
  by_cases hc : refreshRefused s e = true
  · simp only [hc, ↓reduceIte]
  · simp only [hc, Bool.false_eq_true, ↓reduceIte]
    by_cases hl : (!e.store.hasLocs) = true
    · simp only [hl, ↓reduceIte]
    · simp only [hl, Bool.false_eq_true, ↓reduceIte]
      cases hst : stage s.cfg.sigMode refreshHonoursMode (servedAt s loc) (refreshCands e nc) <;> rfl

theorem loadActively_cfg (s : State) (loc : Loc) (e : Entry) (cands : List Signer) : (loadActively s loc e cands).1.cfg = s.cfg := by
  unfold loadActively
  split
  · rfl
  · rw [loadCRL_cfg]; rfl

theorem addCRL_cfg (s : State) (loc : Loc) (cands : List Signer) : (addCRL s loc cands).1.cfg = s.cfg := by
  unfold addCRL
  split
  · rfl
  · cases hl : lookup s.entries loc with
    | some e =>
      simp only [Bool.false_and, Bool.false_eq_true, ↓reduceIte]
      split
      · rw [loadActively_cfg]
      · split
        · split
          · split <;> rfl
          · rfl
        · rfl
    | none =>
      simp only
      split
      · split
        · rw [loadActively_cfg]; rfl
        · rfl
      · split
        · rw [loadActively_cfg]; rfl
        · rfl

theorem updateOne_cfg (s : State) (loc : Loc) : (updateOne s loc).cfg = s.cfg := by
  unfold updateOne
  split
  · rfl
  · split
    · rfl
    · split
      · exact loadCRL_cfg _ _ _ _
      · exact updateCrlEntry_cfg _ _ _ _

theorem updateAll_cfg (order : List Loc) : ∀ s, (updateAll s order).cfg = s.cfg := by
  induction order with
  | nil => intro s; rfl
  | cons l t ih => intro s; exact (ih _).trans (updateOne_cfg s l)

theorem provisionOne_cfg (s : State) (loc : Loc) (trusted : List Signer) : (provisionOne s loc trusted).1.cfg = s.cfg := by
  unfold provisionOne
  have h1 := addCRL_cfg s loc trusted
  cases hadd : addCRL s loc trusted with
  | mk s1 rest =>
    obtain ⟨added, o1⟩ := rest
    rw [hadd] at h1
    simp only at h1 ⊢
    split
    · exact h1
    · split
      · exact h1
      · rw [updateCrlEntry_cfg]; exact h1

theorem handshake_cfg (s : State) (c : Cert) (cands : List Signer) : (handshake s c cands).1.cfg = s.cfg := by
  unfold handshake
  cases hc : c.cdp with
  | none => rfl
  | some loc =>
    simp only
    have h1 := addCRL_cfg s loc cands
    cases hadd : addCRL s loc cands with
    | mk s1 rest =>
      obtain ⟨added, o⟩ := rest
      rw [hadd] at h1
      exact h1

theorem close_cfg (s : State) : (close s).cfg = s.cfg := by
  unfold close; split <;> rfl

theorem cfg_step (s : State) (op : Op) : (step s op).cfg = s.cfg := by
  cases op with
  | serve loc sv => rfl
  | handshake c cands => exact handshake_cfg s c cands
  | tick order => exact updateAll_cfg order s
  | provision loc trusted => exact provisionOne_cfg s loc trusted
  | restart => rfl
  | close => exact close_cfg s
  | markUnsupported loc => rfl

theorem cfg_run (cfg : Cfg) (ops : List Op) : (run cfg ops).cfg = cfg := by
  unfold run
  have : ∀ (ops : List Op) (s : State), (ops.foldl step s).cfg = s.cfg := by
    intro ops
    induction ops with
    | nil => intro s; rfl
    | cons o t ih => intro s; exact (ih _).trans (cfg_step s o)
  exact this ops _

end Crv.Repo

namespace Crv.Repo

theorem lookup_upsert {α : Type} (l : List (Loc × α)) (k : Loc) (v : α) : lookup (upsert l k v) k = some v := by
  induction l with
  | nil => simp [upsert, lookup]
  | cons q t ih =>
    obtain ⟨k', v'⟩ := q
    unfold upsert
    by_cases hk : (k' == k) = true
    · simp [hk, lookup]
    · simp only [hk, Bool.false_eq_true, ↓reduceIte]
      unfold lookup at ih ⊢
      simp only [List.find?_cons, hk]
      exact ih

end Crv.Repo
