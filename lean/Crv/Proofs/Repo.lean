import Crv.Repo
/-!
Lemmas about the repository model: the lookup walk, association-list updates, staging, what one
lock-protected section may do to configuration and ghost log (`Ext`), and the invariant `Inv` over all
histories (`Op`, `step`, `run`; histories may restart the process with another signature mode):
every store that holds a document holds one that was accepted under the policy configured at its intake;
every stored signer certificate verified a list of that location; under `verify` whatever is loaded carries
a signer certificate; and a store with a signer certificate holds a verified list (the signature-certificate
retry of `AddCRL` only touches loaded entries, regenerated fact `retryOnlyWhenLoaded`).
-/
namespace Crv.Repo
open Crv Crv.Generated

/-! ### The lookup walk -/

theorem walk_listed (c : Cert) (order : List (Loc × Entry))
    (h : ∃ p ∈ order, p.2.loaded = true ∧ listed p.2.store c = true) : walk c order ≠ .notRevoked := by
  induction order with
  | nil => obtain ⟨p, hp, _⟩ := h; cases hp
  | cons q t ih =>
    obtain ⟨loc, e⟩ := q
    unfold walk
    by_cases hc : e.closed = true
    · simp [hc]
    · simp only [hc, Bool.false_eq_true, ↓reduceIte]
      by_cases hl : (e.loaded && listed e.store c) = true
      · simp [hl]
      · simp only [hl, Bool.false_eq_true, ↓reduceIte]
        apply ih
        obtain ⟨p, hp, h1, h2⟩ := h
        rcases List.mem_cons.mp hp with rfl | hmem
        · simp only at h1 h2
          simp [h1, h2] at hl
        · exact ⟨p, hmem, h1, h2⟩

theorem walk_revoked_sound (c : Cert) (order : List (Loc × Entry)) (h : walk c order = .revoked) :
    ∃ p ∈ order, p.2.loaded = true ∧ p.2.closed = false ∧ listed p.2.store c = true := by
  induction order with
  | nil => simp [walk] at h
  | cons q t ih =>
    obtain ⟨loc, e⟩ := q
    unfold walk at h
    by_cases hc : e.closed = true
    · simp [hc] at h
    · simp only [hc, Bool.false_eq_true, ↓reduceIte] at h
      by_cases hl : (e.loaded && listed e.store c) = true
      · simp only [Bool.and_eq_true] at hl
        exact ⟨(loc, e), List.mem_cons_self, hl.1, by simpa using hc, hl.2⟩
      · simp only [hl, Bool.false_eq_true, ↓reduceIte] at h
        obtain ⟨p, hp, hrest⟩ := ih h
        exact ⟨p, List.mem_cons_of_mem _ hp, hrest⟩

theorem walk_error_closed (c : Cert) (order : List (Loc × Entry)) (h : walk c order = .error) :
    ∃ p ∈ order, p.2.closed = true := by
  induction order with
  | nil => simp [walk] at h
  | cons q t ih =>
    obtain ⟨loc, e⟩ := q
    unfold walk at h
    by_cases hc : e.closed = true
    · exact ⟨(loc, e), List.mem_cons_self, hc⟩
    · simp only [hc, Bool.false_eq_true, ↓reduceIte] at h
      by_cases hl : (e.loaded && listed e.store c) = true
      · simp [hl] at h
      · simp only [hl, Bool.false_eq_true, ↓reduceIte] at h
        obtain ⟨p, hp, hcl⟩ := ih h
        exact ⟨p, List.mem_cons_of_mem _ hp, hcl⟩

theorem walk_notRevoked_none_closed (c : Cert) (order : List (Loc × Entry)) (h : walk c order = .notRevoked) :
    ∀ p ∈ order, p.2.closed = false := by
  induction order with
  | nil => intro p hp; cases hp
  | cons q t ih =>
    obtain ⟨loc, e⟩ := q
    unfold walk at h
    by_cases hc : e.closed = true
    · simp [hc] at h
    · simp only [hc, Bool.false_eq_true, ↓reduceIte] at h
      by_cases hl : (e.loaded && listed e.store c) = true
      · simp [hl] at h
      · simp only [hl, Bool.false_eq_true, ↓reduceIte] at h
        intro p hp
        rcases List.mem_cons.mp hp with rfl | hmem
        · simpa using hc
        · exact ih h p hmem

/-! ### Association lists -/

theorem mem_upsert {α : Type} (l : List (Loc × α)) (k : Loc) (v : α) (p : Loc × α) (h : p ∈ upsert l k v) :
    p = (k, v) ∨ p ∈ l := by
  induction l with
  | nil => simp [upsert] at h; exact Or.inl h
  | cons q t ih =>
    obtain ⟨k', v'⟩ := q
    unfold upsert at h
    by_cases hk : (k' == k) = true
    · simp only [hk, ↓reduceIte] at h
      rcases List.mem_cons.mp h with rfl | hm
      · exact Or.inl rfl
      · exact Or.inr (List.mem_cons_of_mem _ hm)
    · simp only [hk, Bool.false_eq_true, ↓reduceIte] at h
      rcases List.mem_cons.mp h with rfl | hm
      · exact Or.inr List.mem_cons_self
      · rcases ih hm with h1 | h2
        · exact Or.inl h1
        · exact Or.inr (List.mem_cons_of_mem _ h2)

theorem lookup_mem {α : Type} (l : List (Loc × α)) (k : Loc) (v : α) (h : lookup l k = some v) : (k, v) ∈ l := by
  unfold lookup at h
  cases hf : l.find? (fun p => p.1 == k) with
  | none => simp [hf] at h
  | some p =>
    simp only [hf, Option.map_some, Option.some.injEq] at h
    have hm := List.mem_of_find?_eq_some hf
    have hk := List.find?_some hf
    simp only [beq_iff_eq] at hk
    obtain ⟨a, b⟩ := p
    simp only at hk h
    subst hk; subst h
    exact hm

/-! ### Staging -/

/-- A staged store is a complete image of the served document, and the document is acceptable under the policy
(whatever the `honourMode` flag: verifying regardless of the mode only accepts less). -/
theorem stage_ok (m : SigMode) (hm : Bool) (sv : Served) (cands : List Signer) (st : Store) (d : DocA) (v : Bool)
    (h : stage m hm sv cands = .ok st d v) :
    sv = .doc d ∧ st.doc = some d ∧ st.hasLocs = true ∧ acceptable m d cands = true ∧ (v = true → verifies d cands = true) := by
  unfold stage at h
  cases sv with
  | down => simp at h
  | garbage => simp at h
  | doc d' =>
    simp only at h
    by_cases h1 : (hm && m == .none) = true
    · simp only [h1, ↓reduceIte, StageRes.ok.injEq] at h
      obtain ⟨rfl, rfl, rfl⟩ := h
      simp only [Bool.and_eq_true, beq_iff_eq] at h1
      refine ⟨rfl, rfl, rfl, ?_, by intro hv; cases hv⟩
      rw [h1.2]; rfl
    · simp only [h1, Bool.false_eq_true, ↓reduceIte] at h
      by_cases h2 : verifies d' cands = true
      · simp only [h2, ↓reduceIte, StageRes.ok.injEq] at h
        obtain ⟨rfl, rfl, rfl⟩ := h
        refine ⟨rfl, rfl, rfl, ?_, fun _ => h2⟩
        cases m <;> simp [acceptable, h2]
      · simp only [h2, Bool.false_eq_true, ↓reduceIte] at h
        by_cases h3 : (hm && m == .verifyLog) = true
        · simp only [h3, ↓reduceIte, StageRes.ok.injEq] at h
          obtain ⟨rfl, rfl, rfl⟩ := h
          simp only [Bool.and_eq_true, beq_iff_eq] at h3
          refine ⟨rfl, rfl, rfl, ?_, by intro hv; cases hv⟩
          rw [h3.2]; rfl
        · simp [h3] at h

/-- With the mode honoured, staging succeeds exactly for parseable documents acceptable under the policy. -/
theorem stage_honour_iff (m : SigMode) (d : DocA) (cands : List Signer) :
    (∃ st v, stage m true (.doc d) cands = .ok st d v) ↔ acceptable m d cands = true := by
  unfold stage acceptable
  cases m <;> by_cases hv : verifies d cands = true <;> simp [hv]

theorem stage_fail_not_doc (m : SigMode) (hm : Bool) (cands : List Signer) :
    stage m hm .down cands = .fetchFail ∧ stage m hm .garbage cands = .parseFail := ⟨rfl, rfl⟩


/-- What a successful staging stored as signer certificate: the verifying signer, or nothing — and nothing only when the mode
does not enforce signatures. -/
theorem stage_ok_signer (m : SigMode) (hm : Bool) (sv : Served) (cands : List Signer) (st : Store) (d : DocA) (v : Bool)
    (h : stage m hm sv cands = .ok st d v) :
    (v = true ∧ st.signer = some d.signer ∧ verifies d cands = true) ∨ (v = false ∧ st.signer = none ∧ m ≠ .verify) := by
  unfold stage at h
  cases sv with
  | down => simp at h
  | garbage => simp at h
  | doc d' =>
    simp only at h
    by_cases h1 : (hm && m == .none) = true
    · simp only [h1, ↓reduceIte, StageRes.ok.injEq] at h
      obtain ⟨rfl, rfl, rfl⟩ := h
      simp only [Bool.and_eq_true, beq_iff_eq] at h1
      exact Or.inr ⟨rfl, rfl, by rw [h1.2]; intro hx; cases hx⟩
    · simp only [h1, Bool.false_eq_true, ↓reduceIte] at h
      by_cases h2 : verifies d' cands = true
      · simp only [h2, ↓reduceIte, StageRes.ok.injEq] at h
        obtain ⟨rfl, rfl, rfl⟩ := h
        exact Or.inl ⟨rfl, rfl, h2⟩
      · simp only [h2, Bool.false_eq_true, ↓reduceIte] at h
        by_cases h3 : (hm && m == .verifyLog) = true
        · simp only [h3, ↓reduceIte, StageRes.ok.injEq] at h
          obtain ⟨rfl, rfl, rfl⟩ := h
          simp only [Bool.and_eq_true, beq_iff_eq] at h3
          exact Or.inr ⟨rfl, rfl, by rw [h3.2]; intro hx; cases hx⟩
        · simp [h3] at h

/-- With the mode honoured, a signature failure is only reported under `verify`. -/
theorem stage_sigFail (m : SigMode) (sv : Served) (cands : List Signer) (d : DocA)
    (h : stage m true sv cands = .sigFail d) : m = .verify ∧ sv = .doc d ∧ verifies d cands = false := by
  unfold stage at h
  cases sv with
  | down => simp at h
  | garbage => simp at h
  | doc d' =>
    cases m <;> by_cases hv : verifies d' cands = true <;> simp [hv] at h
    subst h
    exact ⟨rfl, rfl, by simpa using hv⟩

theorem lookup_upsert {α : Type} (l : List (Loc × α)) (k : Loc) (v : α) : lookup (upsert l k v) k = some v := by
  induction l with
  | nil => simp [upsert, lookup]
  | cons q t ih =>
    obtain ⟨k', v'⟩ := q
    unfold upsert
    by_cases hk : (k' == k) = true
    · simp [hk, lookup]
    · simp only [hk, Bool.false_eq_true, ↓reduceIte]
      unfold lookup at ih ⊢
      simp only [List.find?_cons, hk]
      exact ih

end Crv.Repo

namespace Crv.Repo
open Crv Crv.Generated

/-! ### What one lock-protected section may do to configuration and ghost log -/

/-- `s'` has the configuration of `s`, all of its log, and every new log record carries the mode configured in `s`. -/
structure Ext (s s' : State) : Prop where
  cfg : s'.cfg = s.cfg
  mono : ∀ a ∈ s.log, a ∈ s'.log
  fresh : ∀ a ∈ s'.log, a ∈ s.log ∨ a.mode = s.cfg.sigMode

theorem Ext.refl (s : State) : Ext s s := ⟨rfl, fun _ h => h, fun _ h => Or.inl h⟩

theorem Ext.trans {s s1 s2 : State} (h1 : Ext s s1) (h2 : Ext s1 s2) : Ext s s2 := by
  refine ⟨h2.cfg.trans h1.cfg, fun a ha => h2.mono a (h1.mono a ha), ?_⟩
  intro a ha
  rcases h2.fresh a ha with h | h
  · exact h1.fresh a h
  · exact Or.inr (by rw [h, h1.cfg])

theorem ext_setEntry (s : State) (loc : Loc) (e : Entry) : Ext s (setEntry s loc e) :=
  ⟨rfl, fun _ h => h, fun _ h => Or.inl h⟩

theorem ext_setEntry_log (s : State) (loc : Loc) (e : Entry) (loc' : Loc) (d : DocA) (cands : List Signer) :
    Ext s { setEntry s loc e with log := s.log ++ [⟨loc', d, cands, s.cfg.sigMode⟩] } := by
  refine ⟨rfl, fun a h => by simp [h], ?_⟩
  intro a ha
  simp only [List.mem_append, List.mem_singleton] at ha
  rcases ha with h | h
  · exact Or.inl h
  · exact Or.inr (by rw [h])

theorem ext_loadCRL (s : State) (loc : Loc) (e : Entry) (cands : List Signer) : Ext s (loadCRL s loc e cands).1 := by
  unfold loadCRL
  by_cases hc : loadRefused s e = true
  · simp only [hc, ↓reduceIte]; exact Ext.refl s
  · simp only [hc, Bool.false_eq_true, ↓reduceIte]
    cases hst : stage s.cfg.sigMode firstLoadHonoursMode (servedAt s loc) cands with
    | ok st d v => exact ext_setEntry_log s loc _ loc d cands
    | fetchFail => exact Ext.refl s
    | parseFail => exact Ext.refl s
    | sigFail d => exact Ext.refl s

theorem ext_updateCrlEntry (s : State) (loc : Loc) (e : Entry) (nc : Option (List Signer)) :
    Ext s (updateCrlEntry s loc e nc).1 := by
  unfold updateCrlEntry
  by_cases hc : refreshRefused s e = true
  · simp only [hc, ↓reduceIte]; exact Ext.refl s
  · simp only [hc, Bool.false_eq_true, ↓reduceIte]
    by_cases hl : (!e.store.hasLocs) = true
    · simp only [hl, ↓reduceIte]; exact Ext.refl s
    · simp only [hl, Bool.false_eq_true, ↓reduceIte]
      cases hst : stage s.cfg.sigMode refreshHonoursMode (servedAt s loc) (refreshCands e nc) with
      | ok st d v => exact ext_setEntry_log s loc _ loc d _
      | fetchFail => exact Ext.refl s
      | parseFail => exact Ext.refl s
      | sigFail d => exact ext_setEntry s loc _

theorem ext_loadActively (s : State) (loc : Loc) (e : Entry) (cands : List Signer) : Ext s (loadActively s loc e cands).1 := by
  unfold loadActively
  split
  · exact Ext.refl s
  · exact (ext_setEntry s loc _).trans (ext_loadCRL _ loc _ cands)

theorem ext_addCRL (s : State) (loc : Loc) (cands : List Signer) : Ext s (addCRL s loc cands).1 := by
  unfold addCRL
  split
  · exact Ext.refl s
  · cases hl : lookup s.entries loc with
    | some e =>
      simp only [Bool.false_and, Bool.false_eq_true, ↓reduceIte]
      split
      · exact ext_loadActively s loc e cands
      · split
        · split
          · split
            · exact ext_setEntry_log s loc _ loc _ cands
            · exact Ext.refl s
          · exact Ext.refl s
        · exact Ext.refl s
    | none =>
      simp only
      have hnf : (newEntry s loc cands).sigFailed = false := rfl
      split
      · split
        · exact ((ext_setEntry s loc _).trans (ext_setEntry _ loc _)).trans (ext_loadActively _ loc _ cands)
        · simp only [hnf, Bool.false_and, Bool.false_eq_true, ↓reduceIte]
          exact (ext_setEntry s loc _).trans (ext_setEntry _ loc _)
      · split
        · exact (ext_setEntry s loc _).trans (ext_loadActively _ loc _ cands)
        · simp only [hnf, Bool.false_and, Bool.false_eq_true, ↓reduceIte]
          exact ext_setEntry s loc _

theorem ext_updateOne (s : State) (loc : Loc) : Ext s (updateOne s loc) := by
  unfold updateOne
  split
  · exact Ext.refl s
  · split
    · exact Ext.refl s
    · split
      · exact ext_loadCRL _ _ _ _
      · exact ext_updateCrlEntry _ _ _ _

theorem ext_updateAll (order : List Loc) : ∀ s, Ext s (updateAll s order) := by
  induction order with
  | nil => intro s; exact Ext.refl s
  | cons l t ih => intro s; exact (ext_updateOne s l).trans (ih _)

theorem ext_provisionOne (s : State) (loc : Loc) (trusted : List Signer) : Ext s (provisionOne s loc trusted).1 := by
  unfold provisionOne
  have h1 := ext_addCRL s loc trusted
  cases hadd : addCRL s loc trusted with
  | mk s1 rest =>
    obtain ⟨added, o1⟩ := rest
    rw [hadd] at h1
    simp only at h1 ⊢
    split
    · exact h1
    · split
      · exact h1
      · exact h1.trans (ext_updateCrlEntry _ _ _ _)

theorem ext_handshake (s : State) (c : Cert) (cands : List Signer) : Ext s (handshake s c cands).1 := by
  unfold handshake
  cases hc : c.cdp with
  | none => exact Ext.refl s
  | some loc =>
    simp only
    have h1 := ext_addCRL s loc cands
    cases hadd : addCRL s loc cands with
    | mk s1 rest =>
      obtain ⟨added, o⟩ := rest
      rw [hadd] at h1
      exact h1

theorem ext_close (s : State) : Ext s (close s) := by
  unfold close; split
  · exact ⟨rfl, fun _ h => h, fun _ h => Or.inl h⟩
  · exact ⟨rfl, fun _ h => h, fun _ h => Or.inl h⟩

theorem loadCRL_cfg (s : State) (loc : Loc) (e : Entry) (cands : List Signer) : (loadCRL s loc e cands).1.cfg = s.cfg :=
  (ext_loadCRL s loc e cands).cfg
theorem updateCrlEntry_cfg (s : State) (loc : Loc) (e : Entry) (nc : Option (List Signer)) :
    (updateCrlEntry s loc e nc).1.cfg = s.cfg := (ext_updateCrlEntry s loc e nc).cfg
theorem loadActively_cfg (s : State) (loc : Loc) (e : Entry) (cands : List Signer) : (loadActively s loc e cands).1.cfg = s.cfg :=
  (ext_loadActively s loc e cands).cfg
theorem addCRL_cfg (s : State) (loc : Loc) (cands : List Signer) : (addCRL s loc cands).1.cfg = s.cfg := (ext_addCRL s loc cands).cfg
theorem updateOne_cfg (s : State) (loc : Loc) : (updateOne s loc).cfg = s.cfg := (ext_updateOne s loc).cfg
theorem updateAll_cfg (order : List Loc) (s : State) : (updateAll s order).cfg = s.cfg := (ext_updateAll order s).cfg
theorem provisionOne_cfg (s : State) (loc : Loc) (trusted : List Signer) : (provisionOne s loc trusted).1.cfg = s.cfg :=
  (ext_provisionOne s loc trusted).cfg
theorem handshake_cfg (s : State) (c : Cert) (cands : List Signer) : (handshake s c cands).1.cfg = s.cfg := (ext_handshake s c cands).cfg
theorem close_cfg (s : State) : (close s).cfg = s.cfg := (ext_close s).cfg

end Crv.Repo

namespace Crv.Repo
open Crv Crv.Generated

/-! ### Invariant: stored documents were accepted under the policy configured at their intake; stored signer
certificates verified a list of that location; under `verify` what is loaded carries a signer certificate -/

/-- `d` came into force at `loc` at some point, accepted under the signature mode configured *at that intake*
(`a.mode`, see `log_mode_at_intake`) against the candidate signers available at that intake. -/
def Accepted (s : State) (loc : Loc) (d : DocA) : Prop :=
  ∃ a ∈ s.log, a.loc = loc ∧ a.doc = d ∧ acceptable a.mode d a.cands = true

/-- `d` was verified at `loc` against the candidate signers presented at some intake (or signature-certificate retry). -/
def Verified (s : State) (loc : Loc) (d : DocA) : Prop :=
  ∃ a ∈ s.log, a.loc = loc ∧ a.doc = d ∧ verifies d a.cands = true

/-- The signer `sg` verified some list of `loc` against presented candidates. -/
def SignerSeen (s : State) (loc : Loc) (sg : Signer) : Prop :=
  ∃ a ∈ s.log, a.loc = loc ∧ a.doc.signer = sg ∧ verifies a.doc a.cands = true

structure StoreOK (s : State) (loc : Loc) (st : Store) : Prop where
  accepted : ∀ d, st.doc = some d → Accepted s loc d
  signer : ∀ sg, st.signer = some sg → SignerSeen s loc sg
  verified : ∀ d, st.doc = some d → st.signer.isSome = true → Verified s loc d

structure EntryOK (s : State) (loc : Loc) (e : Entry) : Prop where
  store : StoreOK s loc e.store
  loadedDoc : e.loaded = true → e.store.doc.isSome = true
  verifySigner : s.cfg.sigMode = .verify → e.loaded = true → e.store.signer.isSome = true
  failed : e.sigFailed = true → s.cfg.sigMode = .verify ∨
    (s.cfg.sigMode = .verifyLog ∧ e.loaded = true ∧ ∀ d, e.lastDoc = some d → e.store.doc = some d)

def Inv (s : State) : Prop :=
  (∀ p ∈ s.entries, EntryOK s p.1 p.2) ∧ (∀ p ∈ s.disk, StoreOK s p.1 p.2)

theorem accepted_mono {s s' : State} (hl : ∀ a ∈ s.log, a ∈ s'.log) {loc : Loc} {d : DocA}
    (h : Accepted s loc d) : Accepted s' loc d := by
  obtain ⟨a, ha, h1, h2, h3⟩ := h
  exact ⟨a, hl a ha, h1, h2, h3⟩

theorem verified_mono {s s' : State} (hl : ∀ a ∈ s.log, a ∈ s'.log) {loc : Loc} {d : DocA}
    (h : Verified s loc d) : Verified s' loc d := by
  obtain ⟨a, ha, h1, h2, h3⟩ := h
  exact ⟨a, hl a ha, h1, h2, h3⟩

theorem signerSeen_mono {s s' : State} (hl : ∀ a ∈ s.log, a ∈ s'.log) {loc : Loc} {sg : Signer}
    (h : SignerSeen s loc sg) : SignerSeen s' loc sg := by
  obtain ⟨a, ha, h1, h2, h3⟩ := h
  exact ⟨a, hl a ha, h1, h2, h3⟩

theorem storeOK_mono {s s' : State} (hl : ∀ a ∈ s.log, a ∈ s'.log) {loc : Loc} {st : Store}
    (h : StoreOK s loc st) : StoreOK s' loc st :=
  ⟨fun d hd => accepted_mono hl (h.accepted d hd), fun sg hs => signerSeen_mono hl (h.signer sg hs),
   fun d hd hs => verified_mono hl (h.verified d hd hs)⟩

theorem entryOK_mono {s s' : State} (hm : s'.cfg.sigMode = s.cfg.sigMode) (hl : ∀ a ∈ s.log, a ∈ s'.log)
    {loc : Loc} {e : Entry} (h : EntryOK s loc e) : EntryOK s' loc e :=
  ⟨storeOK_mono hl h.store, h.loadedDoc, by rw [hm]; exact h.verifySigner, by rw [hm]; exact h.failed⟩

theorem storeOK_empty (s : State) (loc : Loc) : StoreOK s loc {} :=
  ⟨fun d hd => (by cases hd), fun sg hs => (by cases hs), fun d hd => (by cases hd)⟩

/-- Transport of the invariant to a state with the same signature mode and a longer log, given the new lists. -/
theorem inv_of (s s' : State) (hm : s'.cfg.sigMode = s.cfg.sigMode) (hl : ∀ a ∈ s.log, a ∈ s'.log)
    (he : ∀ p ∈ s'.entries, p ∈ s.entries ∨ EntryOK s' p.1 p.2)
    (hd : ∀ p ∈ s'.disk, p ∈ s.disk ∨ StoreOK s' p.1 p.2)
    (h : Inv s) : Inv s' := by
  refine ⟨?_, ?_⟩
  · intro p hp
    rcases he p hp with hold | hnew
    · exact entryOK_mono hm hl (h.1 p hold)
    · exact hnew
  · intro p hp
    rcases hd p hp with hold | hnew
    · exact storeOK_mono hl (h.2 p hold)
    · exact hnew

theorem setEntry_cfg (s : State) (loc : Loc) (e : Entry) : (setEntry s loc e).cfg = s.cfg := rfl
theorem setEntry_log (s : State) (loc : Loc) (e : Entry) : (setEntry s loc e).log = s.log := rfl

/-- Writing an entry (and, with the disk backend, its store) and appending to the ghost log keeps the invariant when the
entry written is fine in the new state. -/
theorem inv_setEntry_log (s : State) (loc : Loc) (e : Entry) (l : List Accept) (h : Inv s)
    (he : EntryOK { setEntry s loc e with log := s.log ++ l } loc e) :
    Inv { setEntry s loc e with log := s.log ++ l } := by
  refine inv_of s { setEntry s loc e with log := s.log ++ l } rfl (fun a ha => by simp [ha]) ?_ ?_ h
  · intro p hp
    rcases mem_upsert _ _ _ _ hp with rfl | hold
    · exact Or.inr he
    · exact Or.inl hold
  · intro p hp
    simp only [setEntry] at hp
    by_cases hdk : s.cfg.disk = true
    · simp only [hdk, ↓reduceIte] at hp
      rcases mem_upsert _ _ _ _ hp with rfl | hold
      · exact Or.inr he.store
      · exact Or.inl hold
    · simp only [hdk, Bool.false_eq_true, ↓reduceIte] at hp
      exact Or.inl hp

theorem inv_setEntry (s : State) (loc : Loc) (e : Entry) (h : Inv s) (he : EntryOK s loc e) :
    Inv (setEntry s loc e) := by
  refine inv_of s (setEntry s loc e) rfl (fun a ha => ha) ?_ ?_ h
  · intro p hp
    rcases mem_upsert _ _ _ _ hp with rfl | hold
    · exact Or.inr (entryOK_mono (s := s) (s' := setEntry s loc e) rfl (fun a ha => ha) he)
    · exact Or.inl hold
  · intro p hp
    simp only [setEntry] at hp
    by_cases hdk : s.cfg.disk = true
    · simp only [hdk, ↓reduceIte] at hp
      rcases mem_upsert _ _ _ _ hp with rfl | hold
      · exact Or.inr (storeOK_mono (s := s) (s' := setEntry s loc e) (fun a ha => ha) he.store)
      · exact Or.inl hold
    · simp only [hdk, Bool.false_eq_true, ↓reduceIte] at hp
      exact Or.inl hp

/-- The store a successful staging produced is fine wherever the acceptance is in the log. -/
theorem storeOK_staged (s' : State) (loc : Loc) (m : SigMode) (hm : Bool) (sv : Served) (cands : List Signer)
    (st : Store) (d : DocA) (v : Bool) (hst : stage m hm sv cands = .ok st d v)
    (hlog : (⟨loc, d, cands, m⟩ : Accept) ∈ s'.log) : StoreOK s' loc st := by
  obtain ⟨_, hdoc, _, hacc, _⟩ := stage_ok _ _ _ _ _ _ _ hst
  have hsg := stage_ok_signer _ _ _ _ _ _ _ hst
  refine ⟨?_, ?_, ?_⟩
  · intro d' hd'
    rw [hdoc] at hd'; cases hd'
    exact ⟨_, hlog, rfl, rfl, hacc⟩
  · intro sg hs
    rcases hsg with ⟨_, h2, h3⟩ | ⟨_, h2, _⟩
    · rw [h2] at hs; cases hs
      exact ⟨_, hlog, rfl, rfl, h3⟩
    · rw [h2] at hs; cases hs
  · intro d' hd' hs
    rw [hdoc] at hd'; cases hd'
    rcases hsg with ⟨_, _, h3⟩ | ⟨_, h2, _⟩
    · exact ⟨_, hlog, rfl, rfl, h3⟩
    · rw [h2] at hs; cases hs

/-- First load of a not yet loaded entry. -/
theorem inv_loadCRL (s : State) (loc : Loc) (e : Entry) (cands : List Signer) (h : Inv s)
    (he : EntryOK s loc e) (hnl : e.loaded = false) : Inv (loadCRL s loc e cands).1 := by
  unfold loadCRL
  by_cases hc : loadRefused s e = true
  · simp only [hc, ↓reduceIte]; exact h
  · simp only [hc, Bool.false_eq_true, ↓reduceIte]
    cases hst : stage s.cfg.sigMode firstLoadHonoursMode (servedAt s loc) cands with
    | ok st d v =>
      obtain ⟨_, hdoc, _, _, _⟩ := stage_ok _ _ _ _ _ _ _ hst
      have hsg := stage_ok_signer _ _ _ _ _ _ _ hst
      apply inv_setEntry_log s loc _ [⟨loc, d, cands, s.cfg.sigMode⟩] h
      refine ⟨storeOK_staged _ loc _ _ _ _ _ _ _ hst (by simp), ?_, ?_, ?_⟩
      · intro _; show st.doc.isSome = true; rw [hdoc]; rfl
      · intro hmv _
        show st.signer.isSome = true
        rcases hsg with ⟨_, h2, _⟩ | ⟨_, _, h3⟩
        · rw [h2]; rfl
        · exact absurd hmv h3
      · intro hsf
        rcases he.failed hsf with h1 | ⟨_, h2, _⟩
        · exact Or.inl h1
        · rw [hnl] at h2; cases h2
    | fetchFail => exact h
    | parseFail => exact h
    | sigFail d => exact h

/-- Refresh, whatever the loaded flag (`UpdateCRL` of provisioning refreshes not loaded entries too): a refresh of a *not loaded*
entry that fails verification under `verify` leaves the failure flag on an entry whose (persisted, possibly never verified)
list is not in force — the signature-certificate retry does not touch such an entry (`retryOnlyWhenLoaded`). -/
theorem inv_updateCrlEntry (s : State) (loc : Loc) (e : Entry) (nc : Option (List Signer)) (h : Inv s)
    (he : EntryOK s loc e) : Inv (updateCrlEntry s loc e nc).1 := by
  unfold updateCrlEntry
  by_cases hc : refreshRefused s e = true
  · simp only [hc, ↓reduceIte]; exact h
  · simp only [hc, Bool.false_eq_true, ↓reduceIte]
    by_cases hl : (!e.store.hasLocs) = true
    · simp only [hl, ↓reduceIte]; exact h
    · simp only [hl, Bool.false_eq_true, ↓reduceIte]
      cases hst : stage s.cfg.sigMode refreshHonoursMode (servedAt s loc) (refreshCands e nc) with
      | ok st d v =>
        obtain ⟨_, hdoc, _, _, _⟩ := stage_ok _ _ _ _ _ _ _ hst
        have hsg := stage_ok_signer _ _ _ _ _ _ _ hst
        apply inv_setEntry_log s loc _ [⟨loc, d, refreshCands e nc, s.cfg.sigMode⟩] h
        have hloaded : (e.loaded || updateMarksLoaded) = true := by simp [updateMarksLoaded]
        refine ⟨storeOK_staged _ loc _ _ _ _ _ _ _ hst (by simp), ?_, ?_, ?_⟩
        · intro _; show st.doc.isSome = true; rw [hdoc]; rfl
        · intro hmv _
          show st.signer.isSome = true
          rcases hsg with ⟨_, h2, _⟩ | ⟨_, _, h3⟩
          · rw [h2]; rfl
          · exact absurd hmv h3
        · intro hsf
          rcases hsg with ⟨hv, _, _⟩ | ⟨hv, _, hne⟩
          · subst hv; simp at hsf
          · subst hv
            cases hmode : s.cfg.sigMode with
            | none =>
              simp [hmode] at hsf
              rcases he.failed hsf with h1 | ⟨h1, _⟩
              · rw [hmode] at h1; cases h1
              · rw [hmode] at h1; cases h1
            | verifyLog =>
              refine Or.inr ⟨hmode, hloaded, ?_⟩
              intro d' hd'
              simp at hd'
              show st.doc = some d'
              rw [hdoc, hd']
            | verify => exact absurd hmode hne
      | fetchFail => exact h
      | parseFail => exact h
      | sigFail d =>
        have hmv := (stage_sigFail _ _ _ _ hst).1
        apply inv_setEntry s loc _ h
        exact ⟨he.store, he.loadedDoc, he.verifySigner, fun _ => Or.inl hmv⟩

end Crv.Repo

namespace Crv.Repo
open Crv Crv.Generated

theorem entryOK_of_mem (s : State) (h : Inv s) (loc : Loc) (e : Entry) (hm : lookup s.entries loc = some e) :
    EntryOK s loc e :=
  h.1 (loc, e) (lookup_mem _ _ _ hm)

/-- `addNewEmptyEntry`: the entry opened over the persisted directory. Under `verify` it only counts as loaded when a signer
certificate is stored with the list (regenerated fact `persistedNeedsSignerUnderVerify`). -/
theorem entryOK_new (s : State) (h : Inv s) (loc : Loc) (cands : List Signer) :
    EntryOK s loc (newEntry s loc cands) := by
  have key : ∀ st : Store, StoreOK s loc st →
      EntryOK s loc { store := st, loaded := st.doc.isSome &&
        (!(persistedNeedsSignerUnderVerify && s.cfg.sigMode == .verify) || st.signer.isSome), chains := cands } := by
    intro st hst
    refine ⟨hst, ?_, ?_, ?_⟩
    · intro hx
      simp only [Bool.and_eq_true] at hx
      exact hx.1
    · intro hmv hx
      simp only [hmv, persistedNeedsSignerUnderVerify, beq_self_eq_true, Bool.and_self, Bool.not_true, Bool.false_or,
        Bool.and_eq_true] at hx
      exact hx.2
    · intro hx; cases hx
  unfold newEntry
  by_cases hd : s.cfg.disk = true
  · simp only [hd, ↓reduceIte]
    cases hl : lookup s.disk loc with
    | none =>
      simp only [Option.getD_none]
      exact key {} (storeOK_empty s loc)
    | some st =>
      simp only [Option.getD_some]
      exact key st (h.2 (loc, st) (lookup_mem _ _ _ hl))
  · simp only [hd, Bool.false_eq_true, ↓reduceIte]
    exact key {} (storeOK_empty s loc)

theorem entryOK_hasLocs (s : State) (loc : Loc) (e : Entry) (he : EntryOK s loc e) :
    EntryOK s loc { e with store := { e.store with hasLocs := true } } :=
  ⟨⟨he.store.accepted, he.store.signer, he.store.verified⟩, he.loadedDoc, he.verifySigner, he.failed⟩

/-- The signature-certificate retry of `AddCRL`: the candidates presented now verify the list whose verification failed at the
last refresh; its signer certificate is stored with the entry's current store. Only for loaded entries. -/
theorem entryOK_retry (s : State) (loc : Loc) (e : Entry) (d : DocA) (cands : List Signer)
    (he : EntryOK s loc e) (hsf : e.sigFailed = true) (hloaded : e.loaded = true) (hld : e.lastDoc = some d)
    (hv : verifies d cands = true) :
    EntryOK { setEntry s loc { e with sigFailed := false, store := { e.store with signer := some d.signer } } with
        log := s.log ++ [⟨loc, d, cands, s.cfg.sigMode⟩] } loc
      { e with sigFailed := false, store := { e.store with signer := some d.signer } } := by
  have hl : ∀ a ∈ s.log, a ∈ ({ setEntry s loc { e with sigFailed := false, store := { e.store with signer := some d.signer } } with
        log := s.log ++ [⟨loc, d, cands, s.cfg.sigMode⟩] } : State).log := fun a ha => by simp [ha]
  have hnew : (⟨loc, d, cands, s.cfg.sigMode⟩ : Accept) ∈ ({ setEntry s loc { e with sigFailed := false, store := { e.store with signer := some d.signer } } with
        log := s.log ++ [⟨loc, d, cands, s.cfg.sigMode⟩] } : State).log := by simp
  refine ⟨⟨?_, ?_, ?_⟩, he.loadedDoc, fun _ _ => rfl, ?_⟩
  · intro d' hd'
    exact accepted_mono hl (he.store.accepted d' hd')
  · intro sg hs
    cases hs
    exact ⟨_, hnew, rfl, rfl, hv⟩
  · intro d' hd' _
    rcases he.failed hsf with hmv | ⟨_, _, hsame⟩
    · -- under `verify` the entry is loaded (the retry only runs for loaded entries), so its store already carried a signer certificate
      exact verified_mono hl (he.store.verified d' hd' (he.verifySigner hmv hloaded))
    · -- under `verify_log` the store holds exactly the list whose verification failed
      have := hsame d hld
      have hdd : d' = d := by
        have h2 : e.store.doc = some d' := hd'
        rw [this] at h2; cases h2; rfl
      subst hdd
      exact ⟨_, hnew, rfl, rfl, hv⟩
  · intro hx; cases hx

theorem inv_loadActively (s : State) (loc : Loc) (e : Entry) (cands : List Signer) (h : Inv s)
    (he : EntryOK s loc e) (hnl : e.loaded = false) : Inv (loadActively s loc e cands).1 := by
  unfold loadActively
  by_cases hc : (e.closed && closedEntriesSkipped) = true
  · simp only [hc, ↓reduceIte]; exact h
  · simp only [hc, Bool.false_eq_true, ↓reduceIte]
    have he3 := entryOK_hasLocs s loc e he
    exact inv_loadCRL _ loc _ cands (inv_setEntry s loc _ h he3)
      (entryOK_mono (s := s) (s' := setEntry s loc _) rfl (fun a ha => ha) he3) hnl

theorem inv_addCRL (s : State) (loc : Loc) (cands : List Signer) (h : Inv s) : Inv (addCRL s loc cands).1 := by
  unfold addCRL
  by_cases hu : s.unsupported.contains loc = true
  · simp only [hu, ↓reduceIte]; exact h
  · simp only [hu, Bool.false_eq_true, ↓reduceIte]
    -- the entry looked up or created, and the state after registering it
    cases hl : lookup s.entries loc with
    | some e =>
      simp only
      have he : EntryOK s loc e := entryOK_of_mem s h loc e hl
      -- `added = false`: no location write
      simp only [Bool.false_and, Bool.false_eq_true, ↓reduceIte]
      by_cases hact : (s.cfg.fetch == FetchMode.actively && !e.loaded) = true
      · simp only [hact, ↓reduceIte]
        have hnl : e.loaded = false := by
          simp only [Bool.and_eq_true, Bool.not_eq_true'] at hact
          exact hact.2
        exact inv_loadActively s loc e cands h he hnl
      · simp only [hact, Bool.false_eq_true, ↓reduceIte]
        by_cases hsf : (e.sigFailed && (e.loaded || !retryOnlyWhenLoaded)) = true
        · simp only [hsf, ↓reduceIte]
          have hsf' : e.sigFailed = true ∧ e.loaded = true := by
            simpa [retryOnlyWhenLoaded] using hsf
          cases hld : e.lastDoc with
          | none => exact h
          | some d =>
            simp only
            by_cases hv : verifies d cands = true
            · simp only [hv, ↓reduceIte]
              have hr := entryOK_retry s loc e d cands he hsf'.1 hsf'.2 hld hv
              rw [hld] at hr
              exact inv_setEntry_log s loc _ _ h hr
            · simp only [hv, Bool.false_eq_true, ↓reduceIte]; exact h
        · simp only [hsf, Bool.false_eq_true, ↓reduceIte]; exact h
    | none =>
      simp only
      have he : EntryOK s loc (newEntry s loc cands) := entryOK_new s h loc cands
      have h1 : Inv (setEntry s loc (newEntry s loc cands)) := inv_setEntry s loc _ h he
      have he1 : EntryOK (setEntry s loc (newEntry s loc cands)) loc (newEntry s loc cands) :=
        entryOK_mono (s := s) (s' := setEntry s loc _) rfl (fun a ha => ha) he
      by_cases hst : (true && !(newEntry s loc cands).loaded && locationsStoredOnAdd) = true
      · simp only [hst, ↓reduceIte]
        have he1' := entryOK_hasLocs _ loc _ he1
        have h2 : Inv (setEntry (setEntry s loc (newEntry s loc cands)) loc
            { newEntry s loc cands with store := { (newEntry s loc cands).store with hasLocs := true } }) :=
          inv_setEntry _ loc _ h1 he1'
        by_cases hact : ((setEntry (setEntry s loc (newEntry s loc cands)) loc
            { newEntry s loc cands with store := { (newEntry s loc cands).store with hasLocs := true } }).cfg.fetch == FetchMode.actively &&
            !(newEntry s loc cands).loaded) = true
        · simp only [hact, ↓reduceIte]
          have hnl : (newEntry s loc cands).loaded = false := by
            simp only [Bool.and_eq_true, Bool.not_eq_true'] at hact
            exact hact.2
          have he2 := entryOK_mono (s := setEntry s loc (newEntry s loc cands))
            (s' := setEntry (setEntry s loc (newEntry s loc cands)) loc
              { newEntry s loc cands with store := { (newEntry s loc cands).store with hasLocs := true } })
            rfl (fun a ha => ha) he1'
          exact inv_loadActively _ loc _ cands h2 he2 hnl
        · simp only [hact, Bool.false_eq_true, ↓reduceIte]
          -- a new entry never has sigFailed set
          have : (newEntry s loc cands).sigFailed = false := rfl
          simp only [this, Bool.false_and, Bool.false_eq_true, ↓reduceIte]
          exact h2
      · simp only [hst, Bool.false_eq_true, ↓reduceIte]
        by_cases hact : ((setEntry s loc (newEntry s loc cands)).cfg.fetch == FetchMode.actively &&
            !(newEntry s loc cands).loaded) = true
        · simp only [hact, ↓reduceIte]
          have hnl : (newEntry s loc cands).loaded = false := by
            simp only [Bool.and_eq_true, Bool.not_eq_true'] at hact
            exact hact.2
          exact inv_loadActively _ loc _ cands h1 he1 hnl
        · simp only [hact, Bool.false_eq_true, ↓reduceIte]
          have : (newEntry s loc cands).sigFailed = false := rfl
          simp only [this, Bool.false_and, Bool.false_eq_true, ↓reduceIte]
          exact h1

end Crv.Repo

namespace Crv.Repo
open Crv Crv.Generated

/-! ### The signature-certificate retry needs a loaded entry -/

/-- `AddCRL` for an entry that exists and is not loaded, without the active load (fetch mode `background`): nothing happens —
in particular the signature-certificate retry does not run, whatever the failure flag, `LastUpdateSignature` and the presented
candidates (`retryOnlyWhenLoaded`; before the repair it stored a signer certificate with a store it did not belong to). -/
theorem retry_needs_loaded (s : State) (loc : Loc) (cands : List Signer) (e : Entry)
    (hl : lookup s.entries loc = some e) (hnl : e.loaded = false) (hf : s.cfg.fetch ≠ .actively) :
    (addCRL s loc cands).1 = s := by
  unfold addCRL
  by_cases hu : s.unsupported.contains loc = true
  · simp only [hu, ↓reduceIte]
  · have hfb : (s.cfg.fetch == FetchMode.actively) = false := by
      cases hfm : s.cfg.fetch with
      | actively => exact absurd hfm hf
      | background => rfl
    simp only [hu, Bool.false_eq_true, ↓reduceIte, hl, Bool.false_and, hfb, hnl, retryOnlyWhenLoaded, Bool.not_true,
      Bool.or_self, Bool.and_false]

theorem retry_needs_loaded_signer (s : State) (loc : Loc) (cands : List Signer) (e : Entry)
    (hl : lookup s.entries loc = some e) (hnl : e.loaded = false) (hf : s.cfg.fetch ≠ .actively) :
    ∀ e', lookup (addCRL s loc cands).1.entries loc = some e' → e'.store.signer = e.store.signer := by
  rw [retry_needs_loaded s loc cands e hl hnl hf]
  intro e' he'
  rw [hl] at he'; cases he'; rfl

/-! ### With fetch mode `actively`, a successful `AddCRL` leaves a loaded entry -/

theorem loadCRL_ok_loaded (s : State) (loc : Loc) (e : Entry) (cands : List Signer) (hok : (loadCRL s loc e cands).2 = .ok) :
    ∀ e', lookup (loadCRL s loc e cands).1.entries loc = some e' → e'.loaded = true := by
  unfold loadCRL at hok ⊢
  by_cases hc : loadRefused s e = true
  · simp only [hc, ↓reduceIte] at hok; cases hok
  · simp only [hc, Bool.false_eq_true, ↓reduceIte] at hok ⊢
    cases hst : stage s.cfg.sigMode firstLoadHonoursMode (servedAt s loc) cands with
    | ok st d v =>
      intro e' he'
      simp only [setEntry] at he'
      rw [lookup_upsert] at he'
      cases he'
      rfl
    | fetchFail => rw [hst] at hok; cases hok
    | parseFail => rw [hst] at hok; cases hok
    | sigFail d => rw [hst] at hok; cases hok

theorem loadActively_ok_loaded (s : State) (loc : Loc) (e : Entry) (cands : List Signer)
    (hok : (loadActively s loc e cands).2 = .ok) :
    ∀ e', lookup (loadActively s loc e cands).1.entries loc = some e' → e'.loaded = true := by
  unfold loadActively at hok ⊢
  by_cases hc : (e.closed && closedEntriesSkipped) = true
  · simp only [hc, ↓reduceIte] at hok; cases hok
  · simp only [hc, Bool.false_eq_true, ↓reduceIte] at hok ⊢
    exact loadCRL_ok_loaded _ loc _ cands hok

theorem addCRL_actively_loaded (s : State) (loc : Loc) (cands : List Signer) (hf : s.cfg.fetch = .actively)
    (hok : (addCRL s loc cands).2.2 = .ok) :
    ∀ e', lookup (addCRL s loc cands).1.entries loc = some e' → e'.loaded = true := by
  unfold addCRL at hok ⊢
  by_cases hu : s.unsupported.contains loc = true
  · simp only [hu, ↓reduceIte] at hok; cases hok
  · simp only [hu, Bool.false_eq_true, ↓reduceIte] at hok ⊢
    cases hl : lookup s.entries loc with
    | some e =>
      simp only [hl, Bool.false_and, Bool.false_eq_true, ↓reduceIte] at hok ⊢
      by_cases hact : (s.cfg.fetch == FetchMode.actively && !e.loaded) = true
      · simp only [hact, ↓reduceIte] at hok ⊢
        exact loadActively_ok_loaded s loc e cands hok
      · simp only [hact, Bool.false_eq_true, ↓reduceIte]
        have hld : e.loaded = true := by
          simp only [hf, beq_self_eq_true, Bool.true_and, Bool.not_eq_true', Bool.not_eq_false] at hact
          exact hact
        by_cases hsf : (e.sigFailed && (e.loaded || !retryOnlyWhenLoaded)) = true
        · simp only [hsf, ↓reduceIte]
          cases hlast : e.lastDoc with
          | none => intro e' he'; simp only at he'; rw [hl] at he'; cases he'; exact hld
          | some d =>
            simp only
            by_cases hv : verifies d cands = true
            · simp only [hv, ↓reduceIte]
              intro e' he'
              simp only [setEntry] at he'
              rw [lookup_upsert] at he'
              cases he'
              exact hld
            · simp only [hv, Bool.false_eq_true, ↓reduceIte]
              intro e' he'; rw [hl] at he'; cases he'; exact hld
        · simp only [hsf, Bool.false_eq_true, ↓reduceIte]
          intro e' he'; rw [hl] at he'; cases he'; exact hld
    | none =>
      simp only [hl] at hok ⊢
      have hnf : (newEntry s loc cands).sigFailed = false := rfl
      by_cases hst : (true && !(newEntry s loc cands).loaded && locationsStoredOnAdd) = true
      · simp only [hst, ↓reduceIte] at hok ⊢
        by_cases hact : ((setEntry (setEntry s loc (newEntry s loc cands)) loc
            { newEntry s loc cands with store := { (newEntry s loc cands).store with hasLocs := true } }).cfg.fetch == FetchMode.actively &&
            !(newEntry s loc cands).loaded) = true
        · simp only [hact, ↓reduceIte] at hok ⊢
          exact loadActively_ok_loaded _ loc _ cands hok
        · exfalso
          simp only [setEntry_cfg, hf, beq_self_eq_true, Bool.true_and, Bool.not_eq_true', Bool.not_eq_false] at hact
          simp [hact] at hst
      · simp only [hst, Bool.false_eq_true, ↓reduceIte] at hok ⊢
        by_cases hact : ((setEntry s loc (newEntry s loc cands)).cfg.fetch == FetchMode.actively &&
            !(newEntry s loc cands).loaded) = true
        · simp only [hact, ↓reduceIte] at hok ⊢
          exact loadActively_ok_loaded _ loc _ cands hok
        · simp only [hact, Bool.false_eq_true, ↓reduceIte, hnf, Bool.false_and]
          have hld : (newEntry s loc cands).loaded = true := by
            simp only [setEntry_cfg, hf, beq_self_eq_true, Bool.true_and, Bool.not_eq_true', Bool.not_eq_false] at hact
            exact hact
          intro e' he'
          simp only [setEntry] at he'
          rw [lookup_upsert] at he'
          cases he'
          exact hld

end Crv.Repo

namespace Crv.Repo
open Crv Crv.Generated

theorem inv_updateOne (s : State) (loc : Loc) (h : Inv s) : Inv (updateOne s loc) := by
  unfold updateOne
  cases hl : lookup s.entries loc with
  | none => exact h
  | some e =>
    simp only
    have he := entryOK_of_mem s h loc e hl
    by_cases hcl : (e.closed && closedEntriesSkipped) = true
    · simp only [hcl, ↓reduceIte]; exact h
    · simp only [hcl, Bool.false_eq_true, ↓reduceIte]
      by_cases hld : (!e.loaded) = true
      · simp only [hld, ↓reduceIte]
        exact inv_loadCRL s loc e _ h he (by simpa using hld)
      · simp only [hld, Bool.false_eq_true, ↓reduceIte]
        exact inv_updateCrlEntry s loc e none h he

theorem inv_updateAll (order : List Loc) : ∀ s, Inv s → Inv (updateAll s order) := by
  induction order with
  | nil => intro s h; exact h
  | cons l t ih => intro s h; exact ih _ (inv_updateOne s l h)

/-- Provisioning of one configured CRL: `AddCRL`, then `UpdateCRL` — a refresh whatever the loaded flag. -/
theorem inv_provisionOne (s : State) (loc : Loc) (trusted : List Signer) (h : Inv s) : Inv (provisionOne s loc trusted).1 := by
  unfold provisionOne
  have h1 := inv_addCRL s loc trusted h
  cases hadd : addCRL s loc trusted with
  | mk s1 rest =>
    obtain ⟨added, o1⟩ := rest
    rw [hadd] at h1
    simp only at h1 ⊢
    by_cases ho : (o1 == Outcome.err) = true
    · simp only [ho, ↓reduceIte]; exact h1
    · simp only [ho, Bool.false_eq_true, ↓reduceIte]
      cases hl : lookup s1.entries loc with
      | none => exact h1
      | some e => exact inv_updateCrlEntry s1 loc e _ h1 (entryOK_of_mem s1 h1 loc e hl)

theorem inv_handshake (s : State) (c : Cert) (cands : List Signer) (h : Inv s) : Inv (handshake s c cands).1 := by
  unfold handshake
  cases hc : c.cdp with
  | none => exact h
  | some loc =>
    simp only
    have h1 := inv_addCRL s loc cands h
    cases hadd : addCRL s loc cands with
    | mk s1 rest =>
      obtain ⟨added, o⟩ := rest
      rw [hadd] at h1
      exact h1

/-- A restart drops the entries; what is on disk stays as it was taken in (whatever the mode afterwards). -/
theorem inv_drop (s s' : State) (hl : ∀ a ∈ s.log, a ∈ s'.log) (he : s'.entries = [])
    (hd : ∀ p ∈ s'.disk, p ∈ s.disk) (h : Inv s) : Inv s' := by
  refine ⟨?_, ?_⟩
  · intro p hp; rw [he] at hp; cases hp
  · intro p hp; exact storeOK_mono hl (h.2 p (hd p hp))

theorem inv_restart (s : State) (h : Inv s) : Inv (restart s) :=
  inv_drop s (restart s) (fun _ ha => ha) rfl (fun _ hp => hp) h

/-- Restart with another signature mode: the entries are gone, what is on disk stays as it was taken in. -/
theorem inv_reconfigure (s : State) (m : SigMode) (h : Inv s) : Inv (reconfigure s m) :=
  inv_drop s (reconfigure s m) (fun _ ha => ha) rfl (fun _ hp => hp) h

theorem entryOK_closed (s s' : State) (hm : s'.cfg.sigMode = s.cfg.sigMode) (hl : ∀ a ∈ s.log, a ∈ s'.log)
    (loc : Loc) (e : Entry) (he : EntryOK s loc e) : EntryOK s' loc { e with closed := true } :=
  have h := entryOK_mono (s := s) (s' := s') hm hl he
  ⟨⟨h.store.accepted, h.store.signer, h.store.verified⟩, h.loadedDoc, h.verifySigner, h.failed⟩

theorem inv_close (s : State) (h : Inv s) : Inv (close s) := by
  unfold close
  by_cases hc : closeMarksEntries = true
  · simp only [hc, ↓reduceIte]
    refine inv_of s _ rfl (fun _ ha => ha) ?_ (fun _ hp => Or.inl hp) h
    intro p hp
    simp only [List.mem_map] at hp
    obtain ⟨q, hq, rfl⟩ := hp
    refine Or.inr ?_
    apply entryOK_closed s
    · rfl
    · exact fun _ ha => ha
    · exact h.1 q hq
  · simp only [hc, Bool.false_eq_true, ↓reduceIte]
    exact inv_drop s _ (fun _ ha => ha) rfl (fun _ hp => hp) h

theorem inv_serve (s : State) (loc : Loc) (sv : Served) (h : Inv s) : Inv (serve s loc sv) :=
  inv_of s (serve s loc sv) rfl (fun _ ha => ha) (fun _ hp => Or.inl hp) (fun _ hp => Or.inl hp) h

/-- The operations of a history. -/
inductive Op
  | serve (loc : Loc) (sv : Served)
  | handshake (c : Cert) (cands : List Signer)
  | tick (order : List Loc)              -- `UpdateCRLs` over the identifiers in some enumeration order
  | provision (loc : Loc) (trusted : List Signer)
  | restart
  | reconfigure (m : SigMode)            -- restart with another `signature_validation_mode` in the configuration
  | close
  | markUnsupported (loc : Loc)

def Op.isProvision : Op → Bool
  | .provision _ _ => true
  | _ => false

def step (s : State) : Op → State
  | .serve loc sv => serve s loc sv
  | .handshake c cands => (handshake s c cands).1
  | .tick order => updateAll s order
  | .provision loc trusted => (provisionOne s loc trusted).1
  | .restart => restart s
  | .reconfigure m => reconfigure s m
  | .close => close s
  | .markUnsupported loc => { s with unsupported := loc :: s.unsupported }

def run (cfg : Cfg) (ops : List Op) : State := ops.foldl step { cfg := cfg }

theorem run_append (cfg : Cfg) (pre suf : List Op) : run cfg (pre ++ suf) = suf.foldl step (run cfg pre) := by
  unfold run; rw [List.foldl_append]

/-! ### Configuration along a run -/

/-- The mode after a history: the mode of the last `reconfigure`, or the initial one. -/
def modeAfter (m : SigMode) (ops : List Op) : SigMode :=
  ops.foldl (fun m op => match op with | .reconfigure m' => m' | _ => m) m

theorem cfg_step (s : State) (op : Op) :
    (step s op).cfg = match op with | .reconfigure m => { s.cfg with sigMode := m } | _ => s.cfg := by
  cases op with
  | serve loc sv => rfl
  | handshake c cands => exact handshake_cfg s c cands
  | tick order => exact updateAll_cfg order s
  | provision loc trusted => exact provisionOne_cfg s loc trusted
  | restart => rfl
  | reconfigure m => rfl
  | close => exact close_cfg s
  | markUnsupported loc => rfl

/-- No step but `reconfigure` changes the configuration. -/
theorem cfg_step_of_not_reconfigure (s : State) (op : Op) (h : ∀ m, op ≠ .reconfigure m) : (step s op).cfg = s.cfg := by
  have := cfg_step s op
  cases op with
  | reconfigure m => exact absurd rfl (h m)
  | _ => exact this

theorem cfg_foldl (ops : List Op) : ∀ s : State,
    (ops.foldl step s).cfg = { s.cfg with sigMode := modeAfter s.cfg.sigMode ops } := by
  induction ops with
  | nil => intro s; rfl
  | cons o t ih =>
    intro s
    rw [List.foldl_cons, ih, cfg_step]
    cases o <;> rfl

/-- **The configuration along a run** (replaces "the configuration never changes"): every field but the signature mode is
the initial one; the signature mode is the one of the last `reconfigure`, or the initial one. -/
theorem cfg_run (cfg : Cfg) (ops : List Op) : (run cfg ops).cfg = { cfg with sigMode := modeAfter cfg.sigMode ops } :=
  cfg_foldl ops _

theorem fetch_run (cfg : Cfg) (ops : List Op) : (run cfg ops).cfg.fetch = cfg.fetch := by rw [cfg_run]
theorem strict_run (cfg : Cfg) (ops : List Op) : (run cfg ops).cfg.strict = cfg.strict := by rw [cfg_run]
theorem disk_run (cfg : Cfg) (ops : List Op) : (run cfg ops).cfg.disk = cfg.disk := by rw [cfg_run]
theorem sigMode_run (cfg : Cfg) (ops : List Op) : (run cfg ops).cfg.sigMode = modeAfter cfg.sigMode ops := by rw [cfg_run]

theorem modeAfter_of_no_reconfigure (m : SigMode) (ops : List Op) (h : ∀ op ∈ ops, ∀ m', op ≠ .reconfigure m') :
    modeAfter m ops = m := by
  induction ops generalizing m with
  | nil => rfl
  | cons o t ih =>
    have ho := h o List.mem_cons_self
    have ht : ∀ op ∈ t, ∀ m', op ≠ .reconfigure m' := fun op hop => h op (List.mem_cons_of_mem _ hop)
    unfold modeAfter
    rw [List.foldl_cons]
    cases o with
    | reconfigure m' => exact absurd rfl (ho m')
    | _ => exact ih _ ht

/-- Histories without `reconfigure` (the old history type): the configuration never changes. -/
theorem cfg_run_of_no_reconfigure (cfg : Cfg) (ops : List Op) (h : ∀ op ∈ ops, ∀ m', op ≠ .reconfigure m') :
    (run cfg ops).cfg = cfg := by
  rw [cfg_run, modeAfter_of_no_reconfigure _ _ h]

theorem modeAfter_append_reconfigure (m0 : SigMode) (pre : List Op) (m : SigMode) (suf : List Op)
    (h : ∀ op ∈ suf, ∀ m', op ≠ .reconfigure m') : modeAfter m0 (pre ++ .reconfigure m :: suf) = m := by
  unfold modeAfter
  rw [List.foldl_append, List.foldl_cons]
  exact modeAfter_of_no_reconfigure m suf h

end Crv.Repo

namespace Crv.Repo
open Crv Crv.Generated

/-! ### The invariant along every history -/

theorem inv_step (s : State) (op : Op) (h : Inv s) : Inv (step s op) := by
  cases op with
  | serve loc sv => exact inv_serve s loc sv h
  | handshake c cands => exact inv_handshake s c cands h
  | tick order => exact inv_updateAll order s h
  | provision loc trusted => exact inv_provisionOne s loc trusted h
  | restart => exact inv_restart s h
  | reconfigure m => exact inv_reconfigure s m h
  | close => exact inv_close s h
  | markUnsupported loc =>
    exact inv_of s _ rfl (fun _ ha => ha) (fun _ hp => Or.inl hp) (fun _ hp => Or.inl hp) h

theorem inv_init (cfg : Cfg) : Inv { cfg := cfg } :=
  ⟨(fun p hp => by cases hp), (fun p hp => by cases hp)⟩

theorem fetch_step (s : State) (op : Op) : (step s op).cfg.fetch = s.cfg.fetch := by
  rw [cfg_step]; cases op <;> rfl

theorem inv_foldl (ops : List Op) : ∀ s, Inv s → Inv (ops.foldl step s) := by
  induction ops with
  | nil => intro s h; exact h
  | cons o t ih => intro s h; exact ih _ (inv_step s o h)

/-- Every state reachable by any history satisfies the invariant. -/
theorem inv_run (cfg : Cfg) (ops : List Op) : Inv (run cfg ops) := inv_foldl ops _ (inv_init cfg)

/-! ### The ghost log along a run: it only grows, and every record carries the mode configured at its intake -/

theorem log_step (s : State) (op : Op) :
    (∀ a ∈ s.log, a ∈ (step s op).log) ∧ (∀ a ∈ (step s op).log, a ∈ s.log ∨ a.mode = s.cfg.sigMode) := by
  have key : ∀ s' : State, Ext s s' → (∀ a ∈ s.log, a ∈ s'.log) ∧ (∀ a ∈ s'.log, a ∈ s.log ∨ a.mode = s.cfg.sigMode) :=
    fun s' h => ⟨h.mono, h.fresh⟩
  cases op with
  | serve loc sv => exact ⟨fun _ h => h, fun _ h => Or.inl h⟩
  | handshake c cands => exact key _ (ext_handshake s c cands)
  | tick order => exact key _ (ext_updateAll order s)
  | provision loc trusted => exact key _ (ext_provisionOne s loc trusted)
  | restart => exact ⟨fun _ h => h, fun _ h => Or.inl h⟩
  | reconfigure m => exact ⟨fun _ h => h, fun _ h => Or.inl h⟩
  | close => exact key _ (ext_close s)
  | markUnsupported loc => exact ⟨fun _ h => h, fun _ h => Or.inl h⟩

theorem log_foldl_mono (ops : List Op) : ∀ s : State, ∀ a ∈ s.log, a ∈ (ops.foldl step s).log := by
  induction ops with
  | nil => intro s a h; exact h
  | cons o t ih => intro s a h; exact ih _ a ((log_step s o).1 a h)

/-- The log only grows: an acceptance recorded after a prefix of the history is still recorded at its end. -/
theorem log_run_mono (cfg : Cfg) (pre suf : List Op) : ∀ a ∈ (run cfg pre).log, a ∈ (run cfg (pre ++ suf)).log := by
  rw [run_append]; exact log_foldl_mono suf _

theorem log_foldl_mode (ops : List Op) : ∀ s : State, ∀ a ∈ (ops.foldl step s).log,
    a ∈ s.log ∨ ∃ pre suf, ops = pre ++ suf ∧ (pre.foldl step s).cfg.sigMode = a.mode := by
  induction ops with
  | nil => intro s a h; exact Or.inl h
  | cons o t ih =>
    intro s a h
    rcases ih _ a h with h1 | ⟨pre, suf, heq, hm⟩
    · rcases (log_step s o).2 a h1 with h2 | h2
      · exact Or.inl h2
      · exact Or.inr ⟨[], o :: t, rfl, h2.symm⟩
    · exact Or.inr ⟨o :: pre, suf, by rw [heq]; rfl, hm⟩

/-- **Mode at the time of intake:** the mode a log record carries is the mode that was configured when it was written —
the mode of the run after some prefix of the history. -/
theorem log_mode_at_intake (cfg : Cfg) (ops : List Op) : ∀ a ∈ (run cfg ops).log,
    ∃ pre suf, ops = pre ++ suf ∧ (run cfg pre).cfg.sigMode = a.mode := by
  intro a h
  rcases log_foldl_mode ops _ a h with h1 | h1
  · cases h1
  · exact h1

/-- `Accepted`, spelled out over the history: the document was taken in at `loc` after some prefix of the history,
acceptable under the mode configured then, against the candidates of that intake. -/
theorem accepted_at_intake (cfg : Cfg) (ops : List Op) (loc : Loc) (d : DocA) (h : Accepted (run cfg ops) loc d) :
    ∃ pre suf cands, ops = pre ++ suf ∧ acceptable (run cfg pre).cfg.sigMode d cands = true := by
  obtain ⟨a, ha, _, _, hacc⟩ := h
  obtain ⟨pre, suf, heq, hm⟩ := log_mode_at_intake cfg ops a ha
  exact ⟨pre, suf, a.cands, heq, by rw [hm]; exact hacc⟩

end Crv.Repo

namespace Crv.Repo

/-- `inForce` as a computation (for `decide` on concrete histories). -/
def inForceB (s : State) (loc : Loc) (d : DocA) : Bool :=
  s.entries.any (fun p => p.1 == loc && p.2.loaded && !p.2.closed && p.2.store.doc == some d)

theorem inForce_iff (s : State) (loc : Loc) (d : DocA) : inForce s loc d ↔ inForceB s loc d = true := by
  unfold inForce inForceB
  rw [List.any_eq_true]
  constructor
  · rintro ⟨e, hmem, hl, hc, hd⟩
    exact ⟨(loc, e), hmem, by simp [hl, hc, hd]⟩
  · rintro ⟨⟨l, e⟩, hmem, hp⟩
    simp only [Bool.and_eq_true, beq_iff_eq, Bool.not_eq_true'] at hp
    obtain ⟨⟨⟨rfl, hl⟩, hc⟩, hd⟩ := hp
    exact ⟨e, hmem, hl, hc, hd⟩

instance (s : State) (loc : Loc) (d : DocA) : Decidable (inForce s loc d) :=
  decidable_of_iff _ (inForce_iff s loc d).symm

end Crv.Repo
