import Crv.Config
/-! Helper lemmas for C19: the block interpreter on rendered lines (independent of the regenerated facts). -/
namespace Crv.Config

namespace Res
@[simp] theorem bind_ok {α β : Type} (a : α) (f : α → Res β) : (Res.ok a).bind f = f a := rfl
@[simp] theorem bind_error {α β : Type} (f : α → Res β) : (Res.error : Res α).bind f = .error := rfl
@[simp] theorem bind_panic {α β : Type} (f : α → Res β) : (Res.panic : Res α).bind f = .panic := rfl
@[simp] theorem map_ok {α β : Type} (a : α) (f : α → β) : (Res.ok a).map f = .ok (f a) := rfl
@[simp] theorem map_error {α β : Type} (f : α → β) : (Res.error : Res α).map f = .error := rfl
@[simp] theorem map_panic {α β : Type} (f : α → β) : (Res.panic : Res α).map f = .panic := rfl
theorem map_map {α β γ : Type} (r : Res α) (f : α → β) (g : β → γ) : (r.map f).map g = r.map (g ∘ f) := by
  cases r <;> rfl
theorem bind_eq_ok {α β : Type} (r : Res α) (f : α → Res β) (b : β) :
    r.bind f = .ok b ↔ ∃ a, r = .ok a ∧ f a = .ok b := by
  cases r <;> simp [bind]
theorem map_eq_ok {α β : Type} (r : Res α) (f : α → β) (b : β) :
    r.map f = .ok b ↔ ∃ a, r = .ok a ∧ f a = b := by
  cases r <;> simp [map]
theorem bind_ne_panic {α β : Type} (r : Res α) (f : α → Res β) (h : r ≠ .panic)
    (hf : ∀ a, r = .ok a → f a ≠ .panic) : r.bind f ≠ .panic := by
  cases r with
  | ok a => exact hf a rfl
  | error => simp [bind]
  | panic => exact absurd rfl h
theorem map_ne_panic {α β : Type} (r : Res α) (f : α → β) (h : r ≠ .panic) : r.map f ≠ .panic := by
  cases r <;> simp_all [map]
theorem isOk_iff {α : Type} (r : Res α) : r.isOk = true ↔ ∃ a, r = .ok a := by
  cases r <;> simp [isOk]
theorem not_isOk_map {α β : Type} (r : Res α) (f : α → β) (h : ¬ r.isOk) : ¬ (r.map f).isOk := by
  cases r <;> simp_all [isOk, map]
theorem not_isOk_bind {α β : Type} (r : Res α) (f : α → Res β) (h : ¬ r.isOk) : ¬ (r.bind f).isOk := by
  cases r <;> simp_all [isOk, bind]
end Res

section
variable {F σ : Type} (B : BlockFacts F) (S : Setters F σ)

theorem parseBlock_cons (t : Tok) (ts : List Tok) (s : σ) :
    parseBlock B S (t :: ts) s = (procEntry B S t s).bind (parseBlock B S ts) := by
  simp only [parseBlock]; cases procEntry B S t s <;> rfl

theorem parseBlock_append (xs ys : List Tok) (s : σ) :
    parseBlock B S (xs ++ ys) s = (parseBlock B S xs s).bind (parseBlock B S ys) := by
  induction xs generalizing s with
  | nil => rfl
  | cons t ts ih =>
    simp only [List.cons_append, parseBlock_cons]
    cases procEntry B S t s <;> simp [ih]

/-- An entry on which the block parser fails makes the whole block fail, wherever it stands,
unless an earlier line already failed or panicked — the result is never `ok`. -/
theorem parseBlock_not_ok_of_entry (pre post : List Tok) (t : Tok)
    (h : ∀ s, ¬ (procEntry B S t s).isOk) (s : σ) : ¬ (parseBlock B S (pre ++ t :: post) s).isOk := by
  rw [parseBlock_append]
  cases hp : parseBlock B S pre s with
  | ok s' =>
    simp only [Res.bind_ok, parseBlock_cons]
    have := h s'
    cases he : procEntry B S t s' <;> simp_all [Res.isOk]
  | error => simp [Res.isOk]
  | panic => simp [Res.isOk]

theorem lookupKey_none (k : String) (keys : List (String × Act F)) (h : k ∉ keys.map Prod.fst) :
    lookupKey k keys = none := by
  induction keys with
  | nil => rfl
  | cons p ps ih =>
    rcases p with ⟨k', a⟩
    simp only [List.map_cons, List.mem_cons, not_or] at h
    simp [lookupKey, h.1, ih h.2]

/-- A key outside the table, in a block parser whose switch has a `default:` error branch. -/
theorem procEntry_unknown {key : String} (h : lookupKey key B.keys = none) (hd : B.hasDefault = true)
    (args : List String) (blk : Option (List Tok)) (s : σ) :
    procEntry B S (.entry key args blk) s = .error := by
  simp [procEntry, procWords, h, hd]

theorem procEntry_line_str {k : String} {f : F} (h : lookupKey k B.keys = some (.str f)) (v : String) (s : σ) :
    procEntry B S (line k v) s = .ok (assign B (S.setStr f v) s) := by
  simp [procEntry, line, procWords, h]

theorem procEntry_line_append {k : String} {f : F} (h : lookupKey k B.keys = some (.append f)) (v : String) (s : σ) :
    procEntry B S (line k v) s = .ok (assign B (S.append f v) s) := by
  simp [procEntry, line, procWords, h]

theorem procEntry_line_bool {k : String} {f : F} (h : lookupKey k B.keys = some (.parsedBool f)) (v : String) (s : σ) :
    procEntry B S (line k v) s = match parseBoolGo v with
      | some b => .ok (assign B (S.setBool f b) s)
      | none => .error := by
  simp only [procEntry, line, procWords, h]
  cases parseBoolGo v <;> simp

theorem procEntry_block {k : String} {f : F} (h : lookupKey k B.keys = some (.sub f)) (blk : List Tok) (s : σ) :
    procEntry B S (.entry k [] (some blk)) s = (S.sub f blk).map (fun g => assign B g s) := by
  simp only [procEntry, procWords, h, Option.getD_some]
  cases S.sub f blk <;> rfl

theorem procEntry_block_not_ok {k : String} {f : F} (h : lookupKey k B.keys = some (.sub f)) (blk : List Tok)
    (hs : ¬ (S.sub f blk).isOk) (s : σ) : ¬ (procEntry B S (.entry k [] (some blk)) s).isOk := by
  rw [procEntry_block B S h]
  exact Res.not_isOk_map _ _ hs

theorem parseBoolGo_boolStr (b : Bool) : parseBoolGo (boolStr b) = some b := by
  cases b <;> decide

theorem parseBlock_optLine_str {k : String} {f : F} (h : lookupKey k B.keys = some (.str f))
    (o : Option String) (rest : List Tok) (s : σ) :
    parseBlock B S (optLine k o ++ rest) s =
      parseBlock B S rest (match o with | none => s | some v => assign B (S.setStr f v) s) := by
  cases o with
  | none => rfl
  | some v => simp [optLine, parseBlock_cons, procEntry_line_str B S h]

theorem parseBlock_optLine_bool {k : String} {f : F} (h : lookupKey k B.keys = some (.parsedBool f))
    (o : Option Bool) (rest : List Tok) (s : σ) :
    parseBlock B S (optLine k (o.map boolStr) ++ rest) s =
      parseBlock B S rest (match o with | none => s | some b => assign B (S.setBool f b) s) := by
  cases o with
  | none => rfl
  | some b => simp [optLine, parseBlock_cons, procEntry_line_bool B S h, parseBoolGo_boolStr]

theorem parseBlock_lines_append {k : String} {f : F} (h : lookupKey k B.keys = some (.append f))
    (l : List String) (rest : List Tok) (s : σ) :
    parseBlock B S (l.map (line k) ++ rest) s =
      parseBlock B S rest (l.foldl (fun s v => assign B (S.append f v) s) s) := by
  induction l generalizing s with
  | nil => rfl
  | cons v vs ih => simp [parseBlock_cons, procEntry_line_append B S h, ih]

end

end Crv.Config
