import Crv.Proofs.ReaderSafe
/-!
The unsigned envelope of an accepted CRL (C04): facts that hold for **every** byte string and **every** oracle
whenever `readCRL` succeeds. The proofs follow the reader through the file with two invariants:

* `Sync file r`: the unread input is the file from the current position on, the position is inside the file, and
  while hashing is on the hash input is exactly the file slice from `hashFrom` to the position;
* `Step file A r r'`: `r'` is again in sync, the position did not move back, the hashing flag and `hashFrom` are
  untouched, and the query log grew only by queries satisfying `A`.

`Tr file A m` says that `m` makes a `Step` from every state in sync (whether it succeeds or fails);
`Quiet m` says that `m` touches nothing but the ghost allocation/event logs.
-/
namespace Crv
open Crv.Generated

/-! ### Inversion of successful runs -/

theorem bind_ok {m : RdM α} {f : α → RdM β} {r : Rd} {b : β} {r'' : Rd}
    (h : (m >>= f) r = .ok b r'') : ∃ a r', m r = .ok a r' ∧ f a r' = .ok b r'' := by
  simp only [Bind.bind, RdM.bind] at h
  cases hm : m r with
  | ok a r' => simp only [hm] at h; exact ⟨a, r', rfl, h⟩
  | err e r' => simp only [hm] at h; cases h
  | panic r' => simp only [hm] at h; cases h

theorem pure_ok {a b : α} {r r' : Rd} (h : (pure a : RdM α) r = .ok b r') : b = a ∧ r' = r := by
  simp only [Pure.pure, RdM.pure, Res.ok.injEq] at h
  exact ⟨h.1.symm, h.2.symm⟩

theorem fail_ok {e : Err} {b : α} {r r' : Rd} (h : (fail e : RdM α) r = .ok b r') : False := by
  simp only [Crv.fail] at h; cases h

/-- The bytes of `file` a query refers to. -/
def frameAt (file : Bytes) (q : Query) : Bytes := (file.drop q.off).take q.len

/-! ### The invariants -/

structure Sync (file : Bytes) (r : Rd) : Prop where
  rest : r.rest = file.drop r.pos
  le : r.pos ≤ file.length
  hash : r.hashing = true → r.hashFrom ≤ r.pos ∧ r.hashed = (file.drop r.hashFrom).take (r.pos - r.hashFrom)

structure Step (file : Bytes) (A : Query → Prop) (r r' : Rd) : Prop where
  sync : Sync file r'
  mono : r.pos ≤ r'.pos
  hashing : r'.hashing = r.hashing
  hashFrom : r'.hashFrom = r.hashFrom
  log : ∃ l, r'.queries = r.queries ++ l ∧ ∀ q ∈ l, A q

/-- Nothing but the ghost allocation and event logs changed. -/
structure SameCore (r r' : Rd) : Prop where
  rest : r'.rest = r.rest
  pos : r'.pos = r.pos
  hashing : r'.hashing = r.hashing
  hashed : r'.hashed = r.hashed
  hashFrom : r'.hashFrom = r.hashFrom
  queries : r'.queries = r.queries

theorem SameCore.refl (r : Rd) : SameCore r r := ⟨rfl, rfl, rfl, rfl, rfl, rfl⟩

theorem SameCore.trans {r r' r'' : Rd} (h1 : SameCore r r') (h2 : SameCore r' r'') : SameCore r r'' :=
  ⟨h2.rest.trans h1.rest, h2.pos.trans h1.pos, h2.hashing.trans h1.hashing, h2.hashed.trans h1.hashed,
   h2.hashFrom.trans h1.hashFrom, h2.queries.trans h1.queries⟩

theorem Sync.of_same {file : Bytes} {r r' : Rd} (hs : Sync file r) (h : SameCore r r') : Sync file r' := by
  refine ⟨?_, ?_, ?_⟩
  · rw [h.rest, h.pos]; exact hs.rest
  · rw [h.pos]; exact hs.le
  · rw [h.hashing, h.hashFrom, h.pos, h.hashed]; exact hs.hash

theorem step_of_same {file : Bytes} {A : Query → Prop} {r r' : Rd} (hs : Sync file r) (h : SameCore r r') :
    Step file A r r' :=
  ⟨hs.of_same h, by rw [h.pos]; exact Nat.le_refl _, h.hashing, h.hashFrom, [], by rw [h.queries, List.append_nil],
   by intro q hq; cases hq⟩

theorem step_refl {file : Bytes} {A : Query → Prop} {r : Rd} (hs : Sync file r) : Step file A r r :=
  step_of_same hs (SameCore.refl r)

theorem Step.trans {file : Bytes} {A : Query → Prop} {r r' r'' : Rd} (h1 : Step file A r r') (h2 : Step file A r' r'') :
    Step file A r r'' := by
  obtain ⟨l1, hl1, ha1⟩ := h1.log
  obtain ⟨l2, hl2, ha2⟩ := h2.log
  refine ⟨h2.sync, Nat.le_trans h1.mono h2.mono, h2.hashing.trans h1.hashing, h2.hashFrom.trans h1.hashFrom,
    l1 ++ l2, by rw [hl2, hl1, List.append_assoc], ?_⟩
  intro q hq
  rcases List.mem_append.mp hq with hq | hq
  · exact ha1 q hq
  · exact ha2 q hq

theorem Step.weaken {file : Bytes} {A A' : Query → Prop} {r r' : Rd} (h : Step file A r r') (hA : ∀ q, A q → A' q) :
    Step file A' r r' := by
  obtain ⟨l, hl, ha⟩ := h.log
  exact ⟨h.sync, h.mono, h.hashing, h.hashFrom, l, hl, fun q hq => hA q (ha q hq)⟩

/-- A step that logs nothing. -/
theorem Step.queries_eq {file : Bytes} {r r' : Rd} (h : Step file (fun _ => False) r r') : r'.queries = r.queries := by
  obtain ⟨l, hl, ha⟩ := h.log
  cases l with
  | nil => rw [hl, List.append_nil]
  | cons q t => exact (ha q List.mem_cons_self).elim

def Tr (file : Bytes) (A : Query → Prop) (m : RdM α) : Prop :=
  ∀ r, Sync file r →
    match m r with
    | .ok _ r' => Step file A r r'
    | .err _ r' => Step file A r r'
    | .panic _ => True

def Quiet (m : RdM α) : Prop :=
  ∀ r, match m r with
    | .ok _ r' => SameCore r r'
    | .err _ r' => SameCore r r'
    | .panic _ => True

theorem tr_ok {file : Bytes} {A : Query → Prop} {m : RdM α} (h : Tr file A m) {r r' : Rd} {a : α}
    (hs : Sync file r) (he : m r = .ok a r') : Step file A r r' := by
  have := h r hs; rw [he] at this; exact this

theorem quiet_ok {m : RdM α} (h : Quiet m) {r r' : Rd} {a : α} (he : m r = .ok a r') : SameCore r r' := by
  have := h r; rw [he] at this; exact this

theorem tr_of_quiet {file : Bytes} {A : Query → Prop} {m : RdM α} (h : Quiet m) : Tr file A m := by
  intro r hs
  have := h r
  cases hres : m r with
  | ok a r' => simp only [hres] at this ⊢; exact step_of_same hs this
  | err e r' => simp only [hres] at this ⊢; exact step_of_same hs this
  | panic r' => trivial

theorem tr_weaken {file : Bytes} {A A' : Query → Prop} {m : RdM α} (h : Tr file A m) (hA : ∀ q, A q → A' q) :
    Tr file A' m := by
  intro r hs
  have := h r hs
  cases hres : m r with
  | ok a r' => simp only [hres] at this ⊢; exact this.weaken hA
  | err e r' => simp only [hres] at this ⊢; exact this.weaken hA
  | panic r' => trivial

/-! ### Combinators -/

theorem quiet_pure (a : α) : Quiet (pure a : RdM α) := fun r => SameCore.refl r

theorem quiet_fail (e : Err) : Quiet (fail e : RdM α) := fun r => SameCore.refl r

theorem quiet_bind {m : RdM α} {f : α → RdM β} (hm : Quiet m) (hf : ∀ a, Quiet (f a)) : Quiet (m >>= f) := by
  intro r
  have h1 := hm r
  simp only [Bind.bind, RdM.bind]
  cases hres : m r with
  | ok a r' =>
    simp only [hres] at h1 ⊢
    have h2 := hf a r'
    cases hres2 : f a r' with
    | ok b r'' => simp only [hres2] at h2 ⊢; exact h1.trans h2
    | err e r'' => simp only [hres2] at h2 ⊢; exact h1.trans h2
    | panic r'' => trivial
  | err e r' => simp only [hres] at h1 ⊢; exact h1
  | panic r' => trivial

theorem quiet_ite {c : Prop} [Decidable c] {m₁ m₂ : RdM α} (h₁ : Quiet m₁) (h₂ : Quiet m₂) :
    Quiet (if c then m₁ else m₂) := by
  split <;> assumption

theorem tr_pure {file : Bytes} {A : Query → Prop} (a : α) : Tr file A (pure a : RdM α) := tr_of_quiet (quiet_pure a)

theorem tr_fail {file : Bytes} {A : Query → Prop} (e : Err) : Tr file A (fail e : RdM α) := tr_of_quiet (quiet_fail e)

theorem tr_bind {file : Bytes} {A : Query → Prop} {m : RdM α} {f : α → RdM β}
    (hm : Tr file A m) (hf : ∀ a, Tr file A (f a)) : Tr file A (m >>= f) := by
  intro r hs
  have h1 := hm r hs
  simp only [Bind.bind, RdM.bind]
  cases hres : m r with
  | ok a r' =>
    simp only [hres] at h1 ⊢
    have h2 := hf a r' h1.sync
    cases hres2 : f a r' with
    | ok b r'' => simp only [hres2] at h2 ⊢; exact h1.trans h2
    | err e r'' => simp only [hres2] at h2 ⊢; exact h1.trans h2
    | panic r'' => trivial
  | err e r' => simp only [hres] at h1 ⊢; exact h1
  | panic r' => trivial

theorem tr_ite {file : Bytes} {A : Query → Prop} {c : Prop} [Decidable c] {m₁ m₂ : RdM α}
    (h₁ : Tr file A m₁) (h₂ : Tr file A m₂) : Tr file A (if c then m₁ else m₂) := by
  split <;> assumption

theorem tr_ignoreErr {file : Bytes} {A : Query → Prop} {m : RdM α} (hm : Tr file A m) : Tr file A (ignoreErr m) := by
  intro r hs
  have h1 := hm r hs
  simp only [Crv.ignoreErr]
  cases hres : m r with
  | ok a r' => simp only [hres] at h1 ⊢; exact h1
  | err e r' => simp only [hres] at h1 ⊢; exact h1
  | panic r' => trivial

/-! ### Primitives -/

theorem drop_drop_file (file : Bytes) (p n : Nat) : (file.drop p).drop n = file.drop (p + n) := by
  rw [List.drop_drop]

/-- Consuming `n ≤ |rest|` bytes (fed to the hash when hashing is on) is a step. -/
theorem step_consume {file : Bytes} {A : Query → Prop} {r r' : Rd} (hs : Sync file r) (n : Nat) (hn : n ≤ r.rest.length)
    (h1 : r'.rest = r.rest.drop n) (h2 : r'.pos = r.pos + n) (h3 : r'.hashing = r.hashing)
    (h4 : r'.hashed = if r.hashing then r.hashed ++ r.rest.take n else r.hashed)
    (h5 : r'.hashFrom = r.hashFrom) (h6 : r'.queries = r.queries) : Step file A r r' := by
  have hlen : r.rest.length = file.length - r.pos := by rw [hs.rest, List.length_drop]
  have hle := hs.le
  refine ⟨⟨?_, ?_, ?_⟩, by omega, h3, h5, [], by rw [h6, List.append_nil], by intro q hq; cases hq⟩
  · rw [h1, h2, hs.rest, drop_drop_file]
  · omega
  · intro hh
    rw [h3] at hh
    obtain ⟨hf, hd⟩ := hs.hash hh
    rw [h5, h2, h4]
    refine ⟨by omega, ?_⟩
    simp only [hh, ↓reduceIte]
    have hsplit : r.pos + n - r.hashFrom = (r.pos - r.hashFrom) + n := by omega
    rw [hsplit, List.take_add, ← hd, drop_drop_file]
    have : r.hashFrom + (r.pos - r.hashFrom) = r.pos := by omega
    rw [this, ← hs.rest]

theorem tr_readN {file : Bytes} {A : Query → Prop} (k : Int) : Tr file A (readN k) := by
  intro r hs
  unfold Crv.readN
  by_cases hk : k < 0
  · simp only [hk, ↓reduceIte]
  · simp only [hk, ↓reduceIte]
    by_cases hlen : r.rest.length < k.toNat
    · simp only [hlen, ↓reduceIte]
      refine step_consume hs r.rest.length (Nat.le_refl _) ?_ rfl rfl ?_ rfl rfl
      · simp only [List.drop_length]
      · simp only [List.take_length]
    · simp only [hlen, ↓reduceIte]
      exact step_consume hs k.toNat (by omega) rfl rfl rfl rfl rfl rfl

theorem readN_ok {k : Int} {r r' : Rd} {bs : Bytes} (h : readN k r = .ok bs r') :
    0 ≤ k ∧ k.toNat ≤ r.rest.length ∧ bs = r.rest.take k.toNat ∧ r'.rest = r.rest.drop k.toNat ∧
      r'.pos = r.pos + k.toNat ∧ r'.queries = r.queries := by
  unfold Crv.readN at h
  by_cases hk : k < 0
  · simp only [hk, ↓reduceIte] at h; cases h
  · simp only [hk, ↓reduceIte] at h
    by_cases hlen : r.rest.length < k.toNat
    · simp only [hlen, ↓reduceIte] at h; cases h
    · simp only [hlen, ↓reduceIte, Res.ok.injEq] at h
      obtain ⟨h1, h2⟩ := h
      subst h1 h2
      exact ⟨by omega, by omega, rfl, rfl, rfl, rfl⟩

theorem quiet_peekN (n off : Nat) : Quiet (peekN n off) := by
  intro r
  unfold Crv.peekN
  by_cases hlen : r.rest.length < n + off
  · simp only [hlen, ↓reduceIte]; exact SameCore.refl r
  · simp only [hlen, ↓reduceIte]; exact ⟨rfl, rfl, rfl, rfl, rfl, rfl⟩

theorem quiet_state {f : Rd → Rd} {g : Rd → α} (h : ∀ r, SameCore r (f r)) : Quiet (fun r => Res.ok (g r) (f r)) :=
  fun r => h r

theorem quiet_emit (e : Event) : Quiet (emit e) := fun _ => ⟨rfl, rfl, rfl, rfl, rfl, rfl⟩
theorem quiet_getPos : Quiet getPos := fun r => SameCore.refl r
theorem quiet_getHashed : Quiet getHashed := fun r => SameCore.refl r
theorem quiet_getHashFrom : Quiet getHashFrom := fun r => SameCore.refl r

theorem quiet_endPosition (len : Nat) : Quiet (endPosition len) := by
  intro r
  unfold Crv.endPosition
  by_cases hc : len < 2 ^ 63 ∧ len ≤ 2 ^ 63 - 1 - r.pos
  · simp only [hc, and_self, ↓reduceIte]; exact SameCore.refl r
  · simp only [hc, ↓reduceIte]; exact SameCore.refl r

theorem quiet_expectTag (a b : UInt8) : Quiet (expectTag a b) := by
  unfold Crv.expectTag
  exact quiet_ite (quiet_pure _) (quiet_fail _)

theorem quiet_lookupHashM (oid : List Nat) : Quiet (lookupHashM oid) := by
  unfold Crv.lookupHashM
  cases lookupHash oid with
  | none => exact quiet_fail _
  | some h => exact quiet_pure _

theorem quiet_checkGate (e : Option (List Ext)) : Quiet (checkGate e) := by
  cases e with
  | none => exact quiet_pure _
  | some es =>
    unfold Crv.checkGate
    exact quiet_ite (quiet_pure _) (quiet_fail _)

theorem quiet_onBytes (bs : Bytes) (m : RdM α) : Quiet (onBytes bs m) := by
  intro r
  unfold Crv.onBytes
  cases m { rest := bs } with
  | ok a r' => exact ⟨rfl, rfl, rfl, rfl, rfl, rfl⟩
  | err e r' => exact ⟨rfl, rfl, rfl, rfl, rfl, rfl⟩
  | panic r' => trivial

theorem quiet_peekU8 (off : Nat) : Quiet (peekU8 off) := by
  unfold Crv.peekU8
  apply quiet_bind (quiet_peekN 1 off)
  intro bs
  cases bs with
  | nil => exact quiet_fail _
  | cons b t => exact quiet_pure _

theorem quiet_peekLen (off : Nat) : Quiet (peekLen off) := by
  unfold Crv.peekLen
  apply quiet_bind (quiet_peekU8 off)
  intro b
  apply quiet_ite (quiet_pure _)
  apply quiet_ite (quiet_fail _)
  apply quiet_bind (quiet_peekN _ _)
  intro bs
  exact quiet_pure _

theorem quiet_peekTL (off : Nat) : Quiet (peekTL off) := by
  unfold Crv.peekTL
  apply quiet_bind (quiet_peekU8 off)
  intro t
  apply quiet_bind (quiet_peekLen _)
  intro p
  obtain ⟨l, s⟩ := p
  exact quiet_pure _

theorem quiet_tryPeekTL : Quiet tryPeekTL := by
  intro r
  unfold Crv.tryPeekTL
  cases peekTL 0 r with
  | ok t r' => exact SameCore.refl r
  | err e r' => exact SameCore.refl r
  | panic r' => exact SameCore.refl r

theorem quiet_readCrlNumber (es : List Ext) : Quiet (readCrlNumber es) := by
  unfold Crv.readCrlNumber
  cases findExt oidCrlNumber es with
  | none => exact quiet_pure _
  | some e =>
    simp only
    apply quiet_bind (quiet_onBytes _ _)
    intro n
    exact quiet_pure _

section
variable {file : Bytes} {A : Query → Prop}

theorem tr_readU8 : Tr file A readU8 := by
  unfold Crv.readU8
  apply tr_bind (tr_readN 1)
  intro bs
  cases bs with
  | nil => exact tr_fail _
  | cons b t => exact tr_pure _

theorem tr_readLen : Tr file A readLen := by
  unfold Crv.readLen
  apply tr_bind tr_readU8
  intro b
  apply tr_ite (tr_pure _)
  apply tr_ite (tr_fail _)
  apply tr_bind (tr_readN _)
  intro bs
  exact tr_pure _

theorem tr_readTL : Tr file A readTL := by
  unfold Crv.readTL
  apply tr_bind tr_readU8
  intro t
  apply tr_bind tr_readLen
  intro p
  obtain ⟨l, s⟩ := p
  exact tr_pure _

theorem tr_readValue (cap : Option Nat) (len : Nat) : Tr file A (readValue cap len) := by
  unfold Crv.readValue
  cases cap with
  | none => exact tr_readN _
  | some c => exact tr_ite (tr_fail _) (tr_readN _)

theorem tr_readStructFrame : Tr file A readStructFrame := by
  unfold Crv.readStructFrame
  apply tr_bind (tr_of_quiet (quiet_peekTL 0))
  intro tl
  apply tr_bind (tr_of_quiet (quiet_expectTag _ _))
  intro _
  cases structCap with
  | none => exact tr_readN _
  | some c => exact tr_ite (tr_fail _) (tr_readN _)

theorem tr_logQuery (k : QKind) (n : Nat) (hA : ∀ off, A ⟨k, off, n⟩) : Tr file A (logQuery k n) := by
  intro r hs
  simp only [Crv.logQuery]
  exact ⟨⟨hs.rest, hs.le, hs.hash⟩, Nat.le_refl _, rfl, rfl, [⟨k, r.pos - n, n⟩], rfl,
    by intro q hq; rw [List.mem_singleton.mp hq]; exact hA _⟩

theorem tr_readStruct (k : QKind) (ok : Bytes → Bool) (hA : ∀ off len, A ⟨k, off, len⟩) : Tr file A (readStruct k ok) := by
  unfold Crv.readStruct
  apply tr_bind tr_readStructFrame
  intro f
  apply tr_bind (tr_logQuery _ _ (fun off => hA off _))
  intro _
  exact tr_ite (tr_pure _) (tr_fail _)

theorem tr_readUtcTime (O : Oracle) (hA : ∀ off len, A ⟨.utc, off, len⟩) : Tr file A (readUtcTime O) := by
  unfold Crv.readUtcTime
  apply tr_bind tr_readTL
  intro tl
  apply tr_bind (tr_of_quiet (quiet_expectTag _ _))
  intro _
  apply tr_bind (tr_readValue _ _)
  intro v
  apply tr_bind (tr_logQuery _ _ (fun off => hA off _))
  intro _
  exact tr_ite (tr_pure _) (tr_fail _)

theorem tr_parseBitString : Tr file A parseBitString := by
  unfold Crv.parseBitString
  apply tr_bind tr_readTL
  intro tl
  apply tr_bind (tr_of_quiet (quiet_expectTag _ _))
  intro _
  apply tr_bind (tr_readValue _ _)
  intro v
  cases v with
  | nil => exact tr_fail _
  | cons p body => exact tr_ite (tr_fail _) (tr_pure _)

theorem tr_readVersion : Tr file A readVersion := by
  unfold Crv.readVersion
  apply tr_bind (tr_of_quiet quiet_tryPeekTL)
  intro vtl
  apply tr_ite
  · apply tr_bind (tr_ignoreErr tr_readTL)
    intro _
    apply tr_bind tr_readU8
    intro b
    exact tr_pure _
  · exact tr_pure _

theorem tr_readNextUpdate (O : Oracle) (hA : ∀ off len, A ⟨.utc, off, len⟩) : Tr file A (readNextUpdate O) := by
  unfold Crv.readNextUpdate
  apply tr_bind (tr_of_quiet quiet_tryPeekTL)
  intro ntl
  apply tr_ite
  · apply tr_bind (tr_readUtcTime O hA)
    intro v
    exact tr_pure _
  · exact tr_pure _

theorem tr_entryBody (O : Oracle) (hA : ∀ off len, A ⟨.entry, off, len⟩) : Tr file A (entryBody O) := by
  unfold entryBody
  apply tr_bind (tr_readStruct _ _ hA)
  intro f
  exact tr_of_quiet (quiet_emit _)

theorem tr_entryLoop (O : Oracle) (listEnd : Nat) (hA : ∀ off len, A ⟨.entry, off, len⟩) :
    Tr file A (entryLoop O listEnd) := by
  intro r
  induction hn : r.rest.length using Nat.strongRecOn generalizing r with
  | _ n ih =>
    intro hs
    rw [entryLoop]
    by_cases hpos : r.pos < listEnd
    · simp only [hpos, ↓reduceIte]
      have hb := tr_entryBody (file := file) (A := A) O hA r hs
      unfold entryBody at hb
      cases hres : (do let f ← readStruct .entry O.entryOk; emit (.insert f) : RdM Unit) r with
      | ok a r' =>
        simp only [hres] at hb ⊢
        by_cases hlt : r'.rest.length < r.rest.length
        · simp only [hlt, ↓reduceIte]
          have h2 := ih r'.rest.length (by omega) r' rfl hb.sync
          cases hres2 : entryLoop O listEnd r' with
          | ok b r'' => simp only [hres2] at h2 ⊢; exact hb.trans h2
          | err e r'' => simp only [hres2] at h2 ⊢; exact hb.trans h2
          | panic r'' => trivial
        · simp only [hlt, ↓reduceIte]
          exact hb
      | err e r' =>
        simp only [hres] at hb ⊢
        exact hb
      | panic r' => trivial
    · simp only [hpos, ↓reduceIte]
      exact step_refl hs

theorem tr_readEntryList (O : Oracle) (tbsEnd : Nat) (hA : ∀ off len, A ⟨.entry, off, len⟩) :
    Tr file A (readEntryList O tbsEnd) := by
  unfold Crv.readEntryList
  apply tr_bind (tr_of_quiet quiet_getPos)
  intro p1
  apply tr_bind (tr_of_quiet quiet_tryPeekTL)
  intro ltl
  apply tr_ite
  · apply tr_bind tr_readTL
    intro l
    apply tr_bind (tr_of_quiet (quiet_expectTag _ _))
    intro _
    apply tr_bind (tr_of_quiet (quiet_endPosition _))
    intro listEnd
    exact tr_entryLoop O listEnd hA
  · exact tr_pure _

theorem tr_readExtensions (O : Oracle) (tbsEnd version : Nat) (hA : ∀ off len, A ⟨.exts, off, len⟩) :
    Tr file A (readExtensions O tbsEnd version) := by
  unfold Crv.readExtensions
  apply tr_bind (tr_of_quiet quiet_getPos)
  intro p2
  apply tr_bind (tr_of_quiet quiet_tryPeekTL)
  intro etl
  apply tr_ite
  · apply tr_bind (tr_ignoreErr tr_readTL)
    intro _
    apply tr_bind tr_readStructFrame
    intro f
    apply tr_bind (tr_logQuery _ _ (fun off => hA off _))
    intro _
    cases O.exts f with
    | none => exact tr_fail _
    | some es =>
      simp only
      apply tr_bind (tr_of_quiet (quiet_readCrlNumber es))
      intro n
      exact tr_pure _
  · exact tr_pure _

end

end Crv

namespace Crv
open Crv.Generated

/-! ### What a successful primitive tells -/

theorem expectTag_ok {a b : UInt8} {r r' : Rd} {u : Unit} (h : expectTag a b r = .ok u r') : a = b ∧ r' = r := by
  unfold Crv.expectTag at h
  by_cases hab : a = b
  · simp only [hab, ↓reduceIte] at h; exact ⟨hab, (pure_ok h).2⟩
  · simp only [hab, ↓reduceIte] at h; exact (fail_ok h).elim

theorem endPosition_ok {len e : Nat} {r r' : Rd} (h : endPosition len r = .ok e r') : e = r.pos + len ∧ r' = r := by
  unfold Crv.endPosition at h
  by_cases hc : len < 2 ^ 63 ∧ len ≤ 2 ^ 63 - 1 - r.pos
  · simp only [hc, and_self, ↓reduceIte, Res.ok.injEq] at h; exact ⟨h.1.symm, h.2.symm⟩
  · simp only [hc, ↓reduceIte] at h; cases h

theorem lookupHashM_ok {oid : List Nat} {ha : HashAlg} {r r' : Rd} (h : lookupHashM oid r = .ok ha r') :
    lookupHash oid = some ha ∧ r' = r := by
  unfold Crv.lookupHashM at h
  cases hl : lookupHash oid with
  | none => simp only [hl] at h; exact (fail_ok h).elim
  | some x =>
    simp only [hl] at h
    obtain ⟨h1, h2⟩ := pure_ok h
    exact ⟨by rw [h1], h2⟩

theorem readU8_ok {b : UInt8} {r r' : Rd} (h : readU8 r = .ok b r') :
    ∃ t, r.rest = b :: t ∧ r'.rest = t ∧ r'.pos = r.pos + 1 := by
  unfold Crv.readU8 at h
  obtain ⟨bs, r1, h1, h2⟩ := bind_ok h
  obtain ⟨_, hlen, hbs, hrest, hpos, _⟩ := readN_ok h1
  have h1' : (1 : Int).toNat = 1 := rfl
  rw [h1'] at hlen hbs hrest hpos
  cases bs with
  | nil => exact (fail_ok h2).elim
  | cons b' t' =>
    obtain ⟨hb, hr'⟩ := pure_ok h2
    subst hb hr'
    cases hr : r.rest with
    | nil => rw [hr] at hlen; simp at hlen
    | cons x xs =>
      rw [hr] at hbs hrest
      simp only [List.take_succ_cons, List.take_zero, List.cons.injEq] at hbs
      refine ⟨xs, by rw [hbs.1], ?_, hpos⟩
      rw [hrest]; rfl

theorem lenFormOk_iff (b : UInt8) : lenFormOk b = true ↔ b &&& 0x70 = 0 ∧ b &&& 0x0f ≠ 0 := by
  simp [lenFormOk, lengthFormStrict, lengthCountMask]

theorem and15_pos {b : UInt8} (h : b &&& 0x0f ≠ 0) : 1 ≤ (b &&& 0x0f).toNat := by
  have : (b &&& 0x0f).toNat ≠ 0 := by
    intro h0
    apply h
    exact UInt8.toNat_inj.mp h0
  omega

/-- A successful `ReadLength`: the position advances by the size of the length field; a long-form first byte is canonical. -/
theorem readLen_ok {l s : Nat} {r r' : Rd} (h : readLen r = .ok (l, s) r') :
    r'.pos = r.pos + s ∧ ∃ b t, r.rest = b :: t ∧
      (b &&& 0x80 = 0 → s = 1 ∧ l = b.toNat) ∧
      (b &&& 0x80 ≠ 0 → b &&& 0x70 = 0 ∧ b &&& 0x0f ≠ 0 ∧ s = (b &&& 0x0f).toNat + 1) := by
  unfold Crv.readLen at h
  obtain ⟨b, r1, h1, h2⟩ := bind_ok h
  obtain ⟨t, hrest, _, hpos⟩ := readU8_ok h1
  by_cases hb : b &&& 0x80 = 0
  · simp only [hb, ↓reduceIte] at h2
    obtain ⟨hv, hr'⟩ := pure_ok h2
    simp only [Prod.mk.injEq] at hv
    refine ⟨by rw [hr', hpos, hv.2], b, t, hrest, fun _ => ⟨hv.2, hv.1⟩, fun hn => (hn hb).elim⟩
  · simp only [hb, ↓reduceIte] at h2
    by_cases hf : lenFormOk b = true
    · simp only [hf, Bool.not_true, Bool.false_eq_true, ↓reduceIte] at h2
      obtain ⟨bs, r2, h3, h4⟩ := bind_ok h2
      obtain ⟨_, _, _, _, hpos2, _⟩ := readN_ok h3
      obtain ⟨hv, hr'⟩ := pure_ok h4
      simp only [Prod.mk.injEq] at hv
      have hk : (((b &&& lengthCountMask).toNat : Nat) : Int).toNat = (b &&& 0x0f).toNat := by
        simp only [Int.toNat_natCast]; rfl
      rw [hk] at hpos2
      have hform := (lenFormOk_iff b).mp hf
      refine ⟨?_, b, t, hrest, fun h0 => (hb h0).elim, fun _ => ⟨hform.1, hform.2, ?_⟩⟩
      · rw [hr', hpos2, hpos, hv.2]
        show r.pos + 1 + (b &&& 0x0f).toNat = r.pos + ((b &&& lengthCountMask).toNat + 1)
        have : (b &&& lengthCountMask) = (b &&& 0x0f) := rfl
        rw [this]; omega
      · rw [hv.2]; rfl
    · have hf' : lenFormOk b = false := by simpa using hf
      simp only [hf', Bool.not_false, ↓reduceIte] at h2
      exact (fail_ok h2).elim

theorem readTL_ok {tl : TL} {r r' : Rd} (h : readTL r = .ok tl r') :
    r'.pos = r.pos + 1 + tl.lenSize ∧ ∃ t, r.rest = tl.tag :: t := by
  unfold Crv.readTL at h
  obtain ⟨b, r1, h1, h2⟩ := bind_ok h
  obtain ⟨t, hrest, _, hpos⟩ := readU8_ok h1
  obtain ⟨p, r2, h3, h4⟩ := bind_ok h2
  obtain ⟨l, s⟩ := p
  obtain ⟨hpos2, _⟩ := readLen_ok h3
  obtain ⟨hv, hr'⟩ := pure_ok h4
  subst hv hr'
  exact ⟨by rw [hpos2, hpos], t, hrest⟩

theorem getPos_ok {p : Nat} {r r' : Rd} (h : getPos r = .ok p r') : p = r.pos ∧ r' = r := by
  simp only [Crv.getPos, Res.ok.injEq] at h; exact ⟨h.1.symm, h.2.symm⟩

/-- A successful envelope check: whole-octet signature, and the reader stands at the declared outer end. -/
theorem checkEnvelope_ok {sig : BitStr} {e : Nat} {r r' : Rd} {u : Unit} (h : checkEnvelope sig e r = .ok u r') :
    r' = r ∧ r.pos = e ∧ sig.bitLen % 8 = 0 := by
  unfold Crv.checkEnvelope at h
  by_cases hc : (sigUnusedBitsRejected && sig.bitLen % 8 != 0) = true
  · simp only [hc, ↓reduceIte] at h
    obtain ⟨_, _, h1, _⟩ := bind_ok h
    exact (fail_ok h1).elim
  · simp only [hc, Bool.false_eq_true, ↓reduceIte, outerLengthChecked] at h
    have h8 : sig.bitLen % 8 = 0 := by
      simp only [sigUnusedBitsRejected, Bool.true_and, bne_iff_ne, ne_eq, Decidable.not_not] at hc
      exact hc
    obtain ⟨p, r1, h1, h2⟩ := bind_ok h
    obtain ⟨hp, hr1⟩ := getPos_ok h1
    rw [hp, hr1] at h2
    by_cases hpe : r.pos = e
    · simp only [hpe, ↓reduceIte] at h2
      exact ⟨(pure_ok h2).2, hpe, h8⟩
    · simp only [hpe, ↓reduceIte] at h2
      exact (fail_ok h2).elim

/-- A successfully read frame: it is the file slice at the old position, and the position moved past it. -/
theorem readStructFrame_ok {file : Bytes} {f : Bytes} {r r' : Rd} (hs : Sync file r) (h : readStructFrame r = .ok f r') :
    r'.pos = r.pos + f.length ∧ (file.drop r.pos).take f.length = f ∧ r'.queries = r.queries := by
  unfold Crv.readStructFrame at h
  obtain ⟨tl, r1, h1, h2⟩ := bind_ok h
  have s1 := quiet_ok (quiet_peekTL 0) h1
  obtain ⟨u, r2, h3, h4⟩ := bind_ok h2
  obtain ⟨_, hr2⟩ := expectTag_ok h3
  rw [hr2] at h4
  have key : ∀ k : Int, readN k r1 = .ok f r' →
      r'.pos = r.pos + f.length ∧ (file.drop r.pos).take f.length = f ∧ r'.queries = r.queries := by
    intro k hk
    obtain ⟨_, hlen, hbs, _, hpos, hq⟩ := readN_ok hk
    have hfl : f.length = k.toNat := by rw [hbs, List.length_take]; omega
    refine ⟨by rw [hpos, s1.pos, hfl], ?_, by rw [hq, s1.queries]⟩
    rw [hfl, hbs, s1.rest, hs.rest]
  cases hcap : structCap with
  | none => simp only [hcap] at h4; exact key _ h4
  | some c =>
    simp only [hcap] at h4
    by_cases hgt : tl.len > c
    · simp only [hgt, ↓reduceIte] at h4; exact (fail_ok h4).elim
    · simp only [hgt, ↓reduceIte] at h4; exact key _ h4

theorem logQuery_ok {k : QKind} {n : Nat} {r r' : Rd} {u : Unit} (h : logQuery k n r = .ok u r') :
    r' = { r with queries := r.queries ++ [⟨k, r.pos - n, n⟩] } := by
  simp only [Crv.logQuery, Res.ok.injEq] at h; exact h.2.symm

/-- A successful `readStruct`: one query, about exactly the returned frame, which is the file slice at the old position. -/
theorem readStruct_ok {file : Bytes} {k : QKind} {ok : Bytes → Bool} {f : Bytes} {r r' : Rd} (hs : Sync file r)
    (h : readStruct k ok r = .ok f r') :
    r'.pos = r.pos + f.length ∧ frameAt file ⟨k, r.pos, f.length⟩ = f ∧
      r'.queries = r.queries ++ [⟨k, r.pos, f.length⟩] ∧ ok f = true := by
  unfold Crv.readStruct at h
  obtain ⟨f', r1, h1, h2⟩ := bind_ok h
  obtain ⟨hpos, hfr, hq⟩ := readStructFrame_ok hs h1
  obtain ⟨u, r2, h3, h4⟩ := bind_ok h2
  have hr2 := logQuery_ok h3
  by_cases hok : ok f' = true
  · simp only [hok, ↓reduceIte] at h4
    obtain ⟨hf, hr'⟩ := pure_ok h4
    rw [hf]
    refine ⟨by rw [hr', hr2]; exact hpos, hfr, ?_, hok⟩
    rw [hr', hr2]
    show r1.queries ++ [⟨k, r1.pos - f'.length, f'.length⟩] = _
    rw [hq, hpos, Nat.add_sub_cancel]
  · simp only [hok] at h4
    exact (fail_ok h4).elim

end Crv

namespace Crv
open Crv.Generated

/-! ### The two passes -/

theorem discard_step {file : Bytes} {A : Query → Prop} {k : Int} {r r' : Rd} {u : Unit} (hs : Sync file r)
    (hh : r.hashing = false) (h : discard k r = .ok u r') : Step file A r r' := by
  unfold Crv.discard at h
  by_cases hk : k < 0
  · simp only [hk, ↓reduceIte] at h; cases h
  · simp only [hk, ↓reduceIte] at h
    by_cases hlen : r.rest.length < k.toNat
    · simp only [hlen, ↓reduceIte] at h; cases h
    · simp only [hlen, ↓reduceIte, Res.ok.injEq] at h
      rw [← h.2]
      exact step_consume hs k.toNat (by omega) rfl rfl rfl (by simp only [hh]; rfl) rfl rfl

/-- First pass: exactly one query, of kind `alg`, about exactly the returned frame; its decoding is the returned OID. -/
theorem prescan_ok {O : Oracle} {file : Bytes} {oid : List Nat} {f : Bytes} {r r' : Rd} (hs : Sync file r)
    (hh : r.hashing = false) (h : prescan O r = .ok (oid, f) r') :
    ∃ q, r'.queries = r.queries ++ [q] ∧ q.kind = .alg ∧ frameAt file q = f ∧ O.algOid f = some oid := by
  unfold Crv.prescan at h
  obtain ⟨outer, r1, h1, h⟩ := bind_ok h
  have s1 := tr_ok (tr_readTL (A := fun _ => False)) hs h1
  obtain ⟨_, r2, h2, h⟩ := bind_ok h
  rw [(expectTag_ok h2).2] at h
  obtain ⟨tbs, r3, h3, h⟩ := bind_ok h
  have q3 := quiet_ok (quiet_peekTL 0) h3
  have s3 : Sync file r3 := s1.sync.of_same q3
  obtain ⟨_, r4, h4, h⟩ := bind_ok h
  have s4 := discard_step (A := fun _ => False) s3 (by rw [q3.hashing, s1.hashing, hh]) h4
  obtain ⟨f', r5, h5, h⟩ := bind_ok h
  obtain ⟨hpos, hfr, hq⟩ := readStructFrame_ok s4.sync h5
  obtain ⟨_, r6, h6, h⟩ := bind_ok h
  have hr6 := logQuery_ok h6
  cases ho : O.algOid f' with
  | none => simp only [ho] at h; exact (fail_ok h).elim
  | some oid' =>
    simp only [ho] at h
    obtain ⟨hv, hr'⟩ := pure_ok h
    simp only [Prod.mk.injEq] at hv
    rw [hv.1, hv.2]
    refine ⟨⟨.alg, r4.pos, f'.length⟩, ?_, rfl, hfr, ho⟩
    rw [hr', hr6]
    show r5.queries ++ [⟨.alg, r5.pos - f'.length, f'.length⟩] = _
    rw [hq, hpos, Nat.add_sub_cancel, s4.queries_eq, q3.queries, s1.queries_eq]

/-- The queries of the second pass after the inner AlgorithmIdentifier are about other things. -/
def NotAlg (q : Query) : Prop := q.kind ≠ .alg

/-- Everything the second pass establishes about the envelope on success. -/
structure BodyEnvelope (file outerFrame : Bytes) (oid : List Nat) (r0 r2 : Rd) (res : ReadResult) : Prop where
  algOid : res.algOid = oid
  hashOk : lookupHash oid = some res.hashAlg
  header : ∃ outer ra, readTL r0 = .ok outer ra ∧ outer.tag = 0x30 ∧
    r2.pos = r0.pos + 1 + outer.lenSize + outer.len ∧ res.hashFrom = r0.pos + 1 + outer.lenSize
  inFile : r2.pos ≤ file.length
  queries : ∃ qi l, r2.queries = r0.queries ++ qi :: l ∧ qi.kind = .alg ∧ frameAt file qi = outerFrame ∧
    (∀ q ∈ l, q.kind ≠ .alg) ∧ res.hashFrom ≤ qi.off ∧ qi.off + qi.len ≤ res.hashFrom + res.hashRegion.length
  region : res.hashRegion = (file.drop res.hashFrom).take res.hashRegion.length
  regionEnd : res.hashFrom + res.hashRegion.length ≤ r2.pos
  sigWhole : res.sig.bitLen % 8 = 0

theorem readInnerAlg_ok {O : Oracle} {file outerFrame : Bytes} {r r' : Rd} {u : Unit} (hs : Sync file r)
    (h : readInnerAlg O outerFrame r = .ok u r') :
    Step file (fun q => q.kind = .alg) r r' ∧ r'.pos = r.pos + outerFrame.length ∧
      frameAt file ⟨.alg, r.pos, outerFrame.length⟩ = outerFrame ∧
      r'.queries = r.queries ++ [⟨.alg, r.pos, outerFrame.length⟩] := by
  unfold Crv.readInnerAlg at h
  simp only [algIdsCompared, ↓reduceIte] at h
  obtain ⟨f, r1, h1, h2⟩ := bind_ok h
  have s1 := tr_ok (tr_readStruct (A := fun q => q.kind = .alg) .alg _ (fun _ _ => rfl)) hs h1
  obtain ⟨hpos, hfr, hq, _⟩ := readStruct_ok hs h1
  by_cases hf : f = outerFrame
  · simp only [hf, ↓reduceIte] at h2
    rw [(pure_ok h2).2]
    rw [hf] at hpos hfr hq
    exact ⟨s1, hpos, hfr, hq⟩
  · simp only [hf, ↓reduceIte] at h2
    exact (fail_ok h2).elim

theorem setHashing_true_ok {file : Bytes} {r r' : Rd} {u : Unit} (hs : Sync file r) (h : setHashing true r = .ok u r') :
    Sync file r' ∧ r'.pos = r.pos ∧ r'.hashing = true ∧ r'.hashFrom = r.pos ∧ r'.queries = r.queries := by
  simp only [Crv.setHashing, ↓reduceIte, Res.ok.injEq] at h
  rw [← h.2]
  refine ⟨⟨hs.rest, hs.le, fun _ => ⟨Nat.le_refl _, ?_⟩⟩, rfl, rfl, rfl, rfl⟩
  simp only [Nat.sub_self, List.take_zero]

theorem setHashing_false_ok {file : Bytes} {r r' : Rd} {u : Unit} (hs : Sync file r) (h : setHashing false r = .ok u r') :
    Sync file r' ∧ r'.pos = r.pos ∧ r'.queries = r.queries := by
  simp only [Crv.setHashing, Bool.false_eq_true, ↓reduceIte, Res.ok.injEq] at h
  rw [← h.2]
  exact ⟨⟨hs.rest, hs.le, fun hh => by cases hh⟩, rfl, rfl⟩

theorem readBody_envelope {O : Oracle} {file outerFrame : Bytes} {oid : List Nat} {r0 r2 : Rd} {res : ReadResult}
    (hs : Sync file r0) (h : readBody O oid outerFrame r0 = .ok res r2) :
    BodyEnvelope file outerFrame oid r0 r2 res := by
  unfold Crv.readBody at h
  obtain ⟨outer, r1, h1, h⟩ := bind_ok h
  have s1 := tr_ok (tr_readTL (A := fun _ => False)) hs h1
  obtain ⟨hpos1, _⟩ := readTL_ok h1
  obtain ⟨_, r1', h2, h⟩ := bind_ok h
  obtain ⟨htag, hr⟩ := expectTag_ok h2
  rw [hr] at h
  simp only [outerLengthChecked, ↓reduceIte] at h
  obtain ⟨outerEnd, r1', h3, h⟩ := bind_ok h
  obtain ⟨hend, hr⟩ := endPosition_ok h3
  rw [hr] at h
  obtain ⟨hashAlg, r1', h4, h⟩ := bind_ok h
  rw [(lookupHashM_ok h4).2] at h
  obtain ⟨_, ra, h5, h⟩ := bind_ok h
  obtain ⟨sa, hposa, hha, hfa, hqa⟩ := setHashing_true_ok s1.sync h5
  obtain ⟨tbs, rb, h6, h⟩ := bind_ok h
  have sb := tr_ok (tr_readTL (A := fun _ => False)) sa h6
  obtain ⟨_, rb', h7, h⟩ := bind_ok h
  rw [(expectTag_ok h7).2] at h
  obtain ⟨tbsEnd, rb', h8, h⟩ := bind_ok h
  rw [(endPosition_ok h8).2] at h
  obtain ⟨version, rc, h9, h⟩ := bind_ok h
  have sc := tr_ok (tr_readVersion (A := fun _ => False)) sb.sync h9
  by_cases hv : version > maxVersion
  · simp only [hv, ↓reduceIte] at h
    obtain ⟨_, _, hf, _⟩ := bind_ok h
    exact (fail_ok hf).elim
  simp only [hv, ↓reduceIte] at h
  obtain ⟨_, rd, h10, h⟩ := bind_ok h
  obtain ⟨sd, hposd, hfrd, hqd⟩ := readInnerAlg_ok sc.sync h10
  -- the rest of tbsCertList: queries of other kinds only
  obtain ⟨issuer, re, h11, h⟩ := bind_ok h
  have se := tr_ok (tr_readStruct (A := NotAlg) .rdn _ (fun _ _ => by intro hk; cases hk)) sd.sync h11
  obtain ⟨thisUpdate, rf, h12, h⟩ := bind_ok h
  have sf := se.trans (tr_ok (tr_readUtcTime (A := NotAlg) O (fun _ _ => by intro hk; cases hk)) se.sync h12)
  obtain ⟨nextUpdate, rg, h13, h⟩ := bind_ok h
  have sg := sf.trans (tr_ok (tr_readNextUpdate (A := NotAlg) O (fun _ _ => by intro hk; cases hk)) sf.sync h13)
  obtain ⟨_, rh, h14, h⟩ := bind_ok h
  have sh := sg.trans (tr_ok (tr_of_quiet (A := NotAlg) (quiet_emit _)) sg.sync h14)
  obtain ⟨_, ri, h15, h⟩ := bind_ok h
  have si := sh.trans (tr_ok (tr_readEntryList (A := NotAlg) O tbsEnd (fun _ _ => by intro hk; cases hk)) sh.sync h15)
  obtain ⟨p, rj, h16, h⟩ := bind_ok h
  have sj := si.trans (tr_ok (tr_readExtensions (A := NotAlg) O tbsEnd version (fun _ _ => by intro hk; cases hk)) si.sync h16)
  obtain ⟨exts, crlNumber⟩ := p
  simp only at h
  obtain ⟨_, rk, h17, h⟩ := bind_ok h
  have sk := sj.trans (tr_ok (tr_of_quiet (A := NotAlg) (quiet_emit _)) sj.sync h17)
  obtain ⟨_, rl, h18, h⟩ := bind_ok h
  have sl := sk.trans (tr_ok (tr_of_quiet (A := NotAlg) (quiet_checkGate _)) sk.sync h18)
  obtain ⟨region, rl', h19, h⟩ := bind_ok h
  have hregion : region = rl.hashed ∧ rl' = rl := by
    simp only [Crv.getHashed, Res.ok.injEq] at h19; exact ⟨h19.1.symm, h19.2.symm⟩
  rw [hregion.2] at h
  obtain ⟨hashFrom, rl', h20, h⟩ := bind_ok h
  have hfrom : hashFrom = rl.hashFrom ∧ rl' = rl := by
    simp only [Crv.getHashFrom, Res.ok.injEq] at h20; exact ⟨h20.1.symm, h20.2.symm⟩
  rw [hfrom.2] at h
  obtain ⟨_, rm, h21, h⟩ := bind_ok h
  obtain ⟨sm, hposm, hqm⟩ := setHashing_false_ok sl.sync h21
  obtain ⟨_, rn, h22, h⟩ := bind_ok h
  have sn := tr_ok (tr_ignoreErr (tr_readStructFrame (A := NotAlg))) sm h22
  obtain ⟨sig, ro, h23, h⟩ := bind_ok h
  have so := sn.trans (tr_ok (tr_parseBitString (A := NotAlg)) sn.sync h23)
  obtain ⟨_, ro', h24, h⟩ := bind_ok h
  obtain ⟨hr, hpose, h8⟩ := checkEnvelope_ok h24
  rw [hr] at h
  obtain ⟨hres, hr2⟩ := pure_ok h
  -- collect
  have hl_hashing : rl.hashing = true := by
    rw [sl.hashing, sd.hashing, sc.hashing, sb.hashing]; exact hha
  have hl_from : rl.hashFrom = r1.pos := by
    rw [sl.hashFrom, sd.hashFrom, sc.hashFrom, sb.hashFrom]; exact hfa
  obtain ⟨hfle, hhashed⟩ := sl.sync.hash hl_hashing
  have hlle := sl.sync.le
  have hreglen : region.length = rl.pos - rl.hashFrom := by
    rw [hregion.1, hhashed, List.length_take, List.length_drop]; omega
  obtain ⟨l1, hl1, ha1⟩ := sl.log
  obtain ⟨l2, hl2, ha2⟩ := so.log
  have hmono_cd : ra.pos ≤ rc.pos := Nat.le_trans sb.mono sc.mono
  have hmono_dl := sl.mono
  have hmono_mo := so.mono
  rw [hres, hr2]
  refine ⟨rfl, (lookupHashM_ok h4).1, ⟨outer, r1, h1, htag.symm, ?_, ?_⟩, so.sync.le, ⟨⟨.alg, rc.pos, outerFrame.length⟩, l1 ++ l2, ?_, rfl, hfrd, ?_, ?_, ?_⟩, ?_, ?_, h8⟩
  · rw [hpose, hend, hpos1]
  · show hashFrom = _
    rw [hfrom.1, hl_from, hpos1]
  · rw [hl2, hqm, hl1, hqd, sc.queries_eq, sb.queries_eq, hqa, s1.queries_eq]
    simp only [List.append_assoc, List.cons_append, List.nil_append]
  · intro q hq
    rcases List.mem_append.mp hq with hq | hq
    · exact ha1 q hq
    · exact ha2 q hq
  · show hashFrom ≤ rc.pos
    rw [hfrom.1, hl_from, ← hposa]; exact hmono_cd
  · show rc.pos + outerFrame.length ≤ hashFrom + region.length
    rw [hreglen, hfrom.1, ← hposd]; omega
  · show region = (file.drop hashFrom).take region.length
    rw [hreglen, hfrom.1, hregion.1]; exact hhashed
  · show hashFrom + region.length ≤ ro.pos
    rw [hreglen, hfrom.1]; omega

end Crv

namespace Crv
open Crv.Generated

/-! ### Peeked lengths, the whole run -/

theorem peekN_ok {n off : Nat} {r r' : Rd} {bs : Bytes} (h : peekN n off r = .ok bs r') :
    bs = (r.rest.drop off).take n ∧ n + off ≤ r.rest.length := by
  unfold Crv.peekN at h
  by_cases hlen : r.rest.length < n + off
  · simp only [hlen, ↓reduceIte] at h; cases h
  · simp only [hlen, ↓reduceIte, Res.ok.injEq] at h
    exact ⟨h.1.symm, by omega⟩

theorem peekU8_ok {off : Nat} {b : UInt8} {r r' : Rd} (h : peekU8 off r = .ok b r') : ∃ t, r.rest.drop off = b :: t := by
  unfold Crv.peekU8 at h
  obtain ⟨bs, r1, h1, h2⟩ := bind_ok h
  obtain ⟨hbs, hlen⟩ := peekN_ok h1
  cases bs with
  | nil => exact (fail_ok h2).elim
  | cons b' t' =>
    obtain ⟨hb, _⟩ := pure_ok h2
    cases hd : r.rest.drop off with
    | nil =>
      have := congrArg List.length hd
      simp only [List.length_drop, List.length_nil] at this
      omega
    | cons x xs =>
      rw [hd] at hbs
      simp only [List.take_succ_cons, List.take_zero, List.cons.injEq] at hbs
      exact ⟨xs, by rw [hb, hbs.1]⟩

/-- A successful `PeekLength`: a long-form first byte is canonical. -/
theorem peekLen_ok {off l s : Nat} {r r' : Rd} (h : peekLen off r = .ok (l, s) r') :
    ∃ b t, r.rest.drop off = b :: t ∧
      (b &&& 0x80 = 0 → s = 1 ∧ l = b.toNat) ∧
      (b &&& 0x80 ≠ 0 → b &&& 0x70 = 0 ∧ b &&& 0x0f ≠ 0 ∧ s = (b &&& 0x0f).toNat + 1) := by
  unfold Crv.peekLen at h
  obtain ⟨b, r1, h1, h2⟩ := bind_ok h
  obtain ⟨t, hrest⟩ := peekU8_ok h1
  by_cases hb : b &&& 0x80 = 0
  · simp only [hb, ↓reduceIte] at h2
    obtain ⟨hv, _⟩ := pure_ok h2
    simp only [Prod.mk.injEq] at hv
    exact ⟨b, t, hrest, fun _ => ⟨hv.2, hv.1⟩, fun hn => (hn hb).elim⟩
  · simp only [hb, ↓reduceIte] at h2
    by_cases hf : lenFormOk b = true
    · simp only [hf, Bool.not_true, Bool.false_eq_true, ↓reduceIte] at h2
      obtain ⟨bs, r2, _, h4⟩ := bind_ok h2
      obtain ⟨hv, _⟩ := pure_ok h4
      simp only [Prod.mk.injEq] at hv
      have hform := (lenFormOk_iff b).mp hf
      exact ⟨b, t, hrest, fun h0 => (hb h0).elim, fun _ => ⟨hform.1, hform.2, by rw [hv.2]; rfl⟩⟩
    · have hf' : lenFormOk b = false := by simpa using hf
      simp only [hf', Bool.not_false, ↓reduceIte] at h2
      exact (fail_ok h2).elim

set_option maxRecDepth 100000 in
/-- The canonical long-form first bytes are exactly `0x81 … 0x8f`. -/
theorem long_form_range : ∀ n, n < 256 → (UInt8.ofNat n) &&& 0x80 ≠ 0 → (UInt8.ofNat n) &&& 0x70 = 0 →
    (UInt8.ofNat n) &&& 0x0f ≠ 0 → 0x81 ≤ n ∧ n ≤ 0x8f := by decide

theorem sync_init (file : Bytes) : Sync file { rest := file } :=
  ⟨rfl, Nat.zero_le _, fun h => by cases h⟩

/-- A successful run consists of a successful first and a successful second pass over the same bytes. -/
theorem readCRL_ok_inv {O : Oracle} {file : Bytes} {res : ReadResult} (hok : (readCRL O file).outcome = .ok res) :
    ∃ oid f r1 r2, prescan O { rest := file } = .ok (oid, f) r1 ∧ readBody O oid f { rest := file } = .ok res r2 ∧
      (readCRL O file).queries = r1.queries ++ r2.queries ∧ (readCRL O file).finalPos = r2.pos := by
  unfold Crv.readCRL at hok ⊢
  cases hp : prescan O { rest := file } with
  | err e r => simp only [hp] at hok; cases hok
  | panic r => simp only [hp] at hok; cases hok
  | ok p r1 =>
    obtain ⟨oid, f⟩ := p
    simp only [hp] at hok ⊢
    cases hb : readBody O oid f { rest := file } with
    | ok res' r2 =>
      simp only [hb, Outcome.ok.injEq] at hok ⊢
      exact ⟨oid, f, r1, r2, rfl, by rw [← hok]; exact hb, rfl, rfl⟩
    | err e r2 => simp only [hb] at hok; cases hok
    | panic r2 => simp only [hb] at hok; cases hok

/-- A slice of a slice of the file is a slice of the file. -/
theorem slice_of_slice (file : Bytes) (a L off n : Nat) (h1 : a ≤ off) (h2 : off + n ≤ a + L) :
    (((file.drop a).take L).drop (off - a)).take n = (file.drop off).take n := by
  rw [List.drop_take, List.take_take, drop_drop_file]
  have h3 : a + (off - a) = off := by omega
  have h4 : min n (L - (off - a)) = n := by omega
  rw [h3, h4]

end Crv
