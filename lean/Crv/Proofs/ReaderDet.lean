import Crv.Enc
import Crv.Proofs.ReaderSafe
/-!
Deterministic big-step judgments on the *core* of the reader state (everything except the ghost
allocation and query logs), used for the round-trip theorem of C06.
`Det m c a c'`: from any state whose core is `c`, `m` succeeds with value `a` in a state whose core is `c'`.
-/
namespace Crv
open Crv.Generated

structure Core where
  rest : Bytes
  pos : Nat
  hashing : Bool
  hashed : Bytes
  hashFrom : Nat
  events : List Event

def Rd.core (r : Rd) : Core := ⟨r.rest, r.pos, r.hashing, r.hashed, r.hashFrom, r.events⟩

def Det (m : RdM α) (c : Core) (a : α) (c' : Core) : Prop :=
  ∀ r : Rd, r.core = c → ∃ r', m r = .ok a r' ∧ r'.core = c'

/-- Consuming the first `n` unread bytes (read, hashed when hashing is on). -/
def Core.consume (c : Core) (n : Nat) : Core :=
  { c with rest := c.rest.drop n, pos := c.pos + n,
           hashed := if c.hashing then c.hashed ++ c.rest.take n else c.hashed }

theorem det_pure (a : α) (c : Core) : Det (pure a : RdM α) c a c := by
  intro r hr; exact ⟨r, rfl, hr⟩

theorem det_bind {m : RdM α} {f : α → RdM β} {c c' c'' : Core} {a : α} {b : β}
    (hm : Det m c a c') (hf : Det (f a) c' b c'') : Det (m >>= f) c b c'' := by
  intro r hr
  obtain ⟨r', h1, h2⟩ := hm r hr
  obtain ⟨r'', h3, h4⟩ := hf r' h2
  refine ⟨r'', ?_, h4⟩
  simp only [Bind.bind, RdM.bind, h1, h3]

theorem det_ignoreErr {m : RdM α} {c c' : Core} {a : α} (hm : Det m c a c') : Det (ignoreErr m) c () c' := by
  intro r hr
  obtain ⟨r', h1, h2⟩ := hm r hr
  exact ⟨r', by simp only [Crv.ignoreErr, h1], h2⟩

theorem consume_zero (c : Core) : c.consume 0 = c := by
  cases c with
  | mk rest pos hashing hashed hashFrom events =>
    simp only [Core.consume, List.drop_zero, Nat.add_zero, List.take_zero, List.append_nil, ite_self]

theorem consume_consume (c : Core) (a b : Nat) : (c.consume a).consume b = c.consume (a + b) := by
  cases c with
  | mk rest pos hashing hashed hashFrom events =>
    simp only [Core.consume, List.drop_drop, Nat.add_assoc]
    cases hashing with
    | false => simp
    | true =>
      simp only [↓reduceIte, List.append_assoc, Core.mk.injEq, List.append_cancel_left_eq, true_and, and_true]
      rw [List.take_add]

theorem det_readN (c : Core) (n : Nat) (h : n ≤ c.rest.length) :
    Det (readN (n : Int)) c (c.rest.take n) (c.consume n) := by
  intro r hr
  have hrest : r.rest = c.rest := by rw [← hr]; rfl
  unfold Crv.readN
  have hneg : ¬ ((n : Int) < 0) := by omega
  simp only [hneg, ↓reduceIte, Int.toNat_natCast]
  have hlen : ¬ r.rest.length < n := by rw [hrest]; omega
  simp only [hlen, ↓reduceIte]
  rw [hrest]
  refine ⟨_, rfl, ?_⟩
  rw [← hr]
  rfl

theorem det_peekN (c : Core) (n off : Nat) (h : n + off ≤ c.rest.length) :
    Det (peekN n off) c ((c.rest.drop off).take n) c := by
  intro r hr
  have hrest : r.rest = c.rest := by rw [← hr]; rfl
  unfold Crv.peekN
  have hlen : ¬ r.rest.length < n + off := by rw [hrest]; omega
  simp only [hlen, ↓reduceIte]
  rw [hrest]
  refine ⟨_, rfl, ?_⟩
  rw [← hr]; rfl

theorem det_fn (f : Rd → Rd) (g : Rd → α) (c c' : Core) (a : α)
    (h : ∀ r, r.core = c → (f r).core = c' ∧ g r = a) : Det (fun r => Res.ok (g r) (f r)) c a c' := by
  intro r hr
  obtain ⟨h1, h2⟩ := h r hr
  exact ⟨f r, by simp only [h2], h1⟩

theorem det_emit (c : Core) (e : Event) : Det (emit e) c () { c with events := c.events ++ [e] } := by
  intro r hr
  refine ⟨_, rfl, ?_⟩
  rw [← hr]; rfl

theorem det_logQuery (c : Core) (k : QKind) (n : Nat) : Det (logQuery k n) c () c := by
  intro r hr
  refine ⟨_, rfl, ?_⟩
  rw [← hr]; rfl

theorem det_getPos (c : Core) : Det getPos c c.pos c := by
  intro r hr
  refine ⟨r, ?_, hr⟩
  simp only [Crv.getPos]; rw [← hr]; rfl

theorem det_getHashed (c : Core) : Det getHashed c c.hashed c := by
  intro r hr
  refine ⟨r, ?_, hr⟩
  simp only [Crv.getHashed]; rw [← hr]; rfl

theorem det_getHashFrom (c : Core) : Det getHashFrom c c.hashFrom c := by
  intro r hr
  refine ⟨r, ?_, hr⟩
  simp only [Crv.getHashFrom]; rw [← hr]; rfl

theorem det_setHashing (c : Core) (b : Bool) :
    Det (setHashing b) c () { c with hashing := b, hashed := if b then [] else c.hashed,
                                      hashFrom := if b then c.pos else c.hashFrom } := by
  intro r hr
  refine ⟨_, rfl, ?_⟩
  rw [← hr]; rfl

theorem det_expectTag (c : Core) (t : UInt8) : Det (expectTag t t) c () c := by
  intro r hr
  refine ⟨r, ?_, hr⟩
  simp only [Crv.expectTag, ↓reduceIte, Pure.pure, RdM.pure]

theorem det_endPosition (c : Core) (len : Nat) (h : c.pos + len < 2 ^ 63) :
    Det (endPosition len) c (c.pos + len) c := by
  intro r hr
  have hp : r.pos = c.pos := by rw [← hr]; rfl
  refine ⟨r, ?_, hr⟩
  unfold Crv.endPosition
  have h1 : len < 2 ^ 63 := by omega
  have h2 : len ≤ 2 ^ 63 - 1 - c.pos := by omega
  simp only [hp, h1, h2, and_self, ↓reduceIte]

end Crv

namespace Crv
open Crv.Generated

/-! ### Length encoding round trip (all four size classes) -/

theorem b8_toNat (n : Nat) : (b8 n).toNat = n % 256 := by
  simp [b8, UInt8.toNat_ofNat']

theorem and128_small : ∀ n, n < 128 → n &&& 128 = 0 := by decide

theorem b8_short (n : Nat) (h : n < 128) : b8 n &&& 0x80 = 0 := by
  apply UInt8.toNat_inj.mp
  rw [UInt8.toNat_and, b8_toNat]
  have : n % 256 = n := Nat.mod_eq_of_lt (by omega)
  rw [this]
  exact and128_small n h

theorem encLen_length_pos (n : Nat) : 1 ≤ (encLen n).length := by
  unfold encLen; split <;> (try split) <;> (try split) <;> (try split) <;> simp

theorem encLen_length_le (n : Nat) : (encLen n).length ≤ 5 := by
  unfold encLen; split <;> (try split) <;> (try split) <;> (try split) <;> simp

theorem beNat_cons (b : UInt8) (bs : Bytes) (acc : Nat) :
    List.foldl (fun acc b => acc * 256 + b.toNat) acc (b :: bs) =
    List.foldl (fun acc b => acc * 256 + b.toNat) (acc * 256 + b.toNat) bs := rfl

/-- What `ReadLength` computes from the bytes of `encLen n`: first byte test, count, big-endian value. -/
theorem encLen_cases (n : Nat) (h : n < 2 ^ 32) :
    (∃ b, encLen n = [b] ∧ b &&& 0x80 = 0 ∧ b.toNat = n) ∨
    (∃ b bs, encLen n = b :: bs ∧ ¬ (b &&& 0x80 = 0) ∧ lenFormOk b = true ∧
      (b &&& lengthCountMask).toNat = bs.length ∧ beNat bs = n) := by
  unfold encLen
  by_cases h1 : n < 128
  · left
    simp only [h1, ↓reduceIte]
    exact ⟨b8 n, rfl, b8_short n h1, by rw [b8_toNat]; omega⟩
  · right
    simp only [h1, ↓reduceIte]
    by_cases h2 : n < 256
    · simp only [h2, ↓reduceIte]
      refine ⟨0x81, [b8 n], rfl, by decide, by decide, by simp only [List.length]; decide, ?_⟩
      simp only [beNat, List.foldl, b8_toNat]; omega
    · simp only [h2, ↓reduceIte]
      by_cases h3 : n < 65536
      · simp only [h3, ↓reduceIte]
        refine ⟨0x82, [b8 (n / 256), b8 (n % 256)], rfl, by decide, by decide, by simp only [List.length]; decide, ?_⟩
        simp only [beNat, List.foldl, b8_toNat]; omega
      · simp only [h3, ↓reduceIte]
        by_cases h4 : n < 16777216
        · simp only [h4, ↓reduceIte]
          refine ⟨0x83, [b8 (n / 65536), b8 (n / 256 % 256), b8 (n % 256)], rfl, by decide, by decide, by simp only [List.length]; decide, ?_⟩
          simp only [beNat, List.foldl, b8_toNat]; omega
        · simp only [h4, ↓reduceIte]
          refine ⟨0x84, [b8 (n / 16777216), b8 (n / 65536 % 256), b8 (n / 256 % 256), b8 (n % 256)], rfl, by decide, by decide, by simp only [List.length]; decide, ?_⟩
          simp only [beNat, List.foldl, b8_toNat]
          have : n < 4294967296 := h
          omega

end Crv

namespace Crv
open Crv.Generated

/-! ### Reading and peeking an encoded tag/length header -/

theorem det_readU8 (c : Core) (b : UInt8) (t : Bytes) (h : c.rest = b :: t) :
    Det readU8 c b (c.consume 1) := by
  unfold Crv.readU8
  have h1 := det_readN c 1 (by rw [h]; simp)
  have ht : c.rest.take 1 = [b] := by rw [h]; rfl
  rw [ht] at h1
  exact det_bind h1 (det_pure b _)

theorem det_peekU8 (c : Core) (off : Nat) (b : UInt8) (t : Bytes) (h : c.rest.drop off = b :: t) :
    Det (peekU8 off) c b c := by
  unfold Crv.peekU8
  have hl : 1 + off ≤ c.rest.length := by
    have : (c.rest.drop off).length = (b :: t).length := by rw [h]
    simp only [List.length_drop, List.length_cons] at this
    omega
  have h1 := det_peekN c 1 off hl
  have ht : (c.rest.drop off).take 1 = [b] := by rw [h]; rfl
  rw [ht] at h1
  exact det_bind h1 (det_pure b _)

theorem consume_rest (c : Core) (n : Nat) : (c.consume n).rest = c.rest.drop n := rfl

theorem det_readLen (c : Core) (n : Nat) (t : Bytes) (hn : n < 2 ^ 32) (h : c.rest = encLen n ++ t) :
    Det readLen c (n, (encLen n).length) (c.consume (encLen n).length) := by
  unfold Crv.readLen
  rcases encLen_cases n hn with ⟨b, he, hb, hv⟩ | ⟨b, bs, he, hb, hf, hk, hv⟩
  · rw [he] at h ⊢
    have h1 := det_readU8 c b t (by simpa using h)
    refine det_bind h1 ?_
    simp only [hb, ↓reduceIte, hv, List.length_singleton]
    exact det_pure _ _
  · rw [he] at h ⊢
    have h1 := det_readU8 c b (bs ++ t) (by simpa using h)
    refine det_bind h1 ?_
    simp only [hb, hf, Bool.not_true, Bool.false_eq_true, ↓reduceIte]
    have hrest : (c.consume 1).rest = bs ++ t := by
      rw [consume_rest, h]; rfl
    have h2 := det_readN (c.consume 1) bs.length (by rw [hrest]; simp)
    have ht : (c.consume 1).rest.take bs.length = bs := by rw [hrest]; simp
    rw [ht, consume_consume] at h2
    rw [hk]
    refine det_bind h2 ?_
    have : (b :: bs).length = 1 + bs.length := by simp; omega
    rw [hv, this, Nat.add_comm bs.length 1]
    exact det_pure _ _

theorem det_readTL (c : Core) (tag : UInt8) (n : Nat) (t : Bytes) (hn : n < 2 ^ 32)
    (h : c.rest = tag :: (encLen n ++ t)) :
    Det readTL c ⟨tag, n, (encLen n).length⟩ (c.consume (1 + (encLen n).length)) := by
  unfold Crv.readTL
  have h1 := det_readU8 c tag (encLen n ++ t) h
  refine det_bind h1 ?_
  have hrest : (c.consume 1).rest = encLen n ++ t := by rw [consume_rest, h]; rfl
  have h2 := det_readLen (c.consume 1) n t hn hrest
  rw [consume_consume] at h2
  refine det_bind h2 ?_
  exact det_pure _ _

theorem det_peekLen (c : Core) (off n : Nat) (t : Bytes) (hn : n < 2 ^ 32) (h : c.rest.drop off = encLen n ++ t) :
    Det (peekLen off) c (n, (encLen n).length) c := by
  unfold Crv.peekLen
  rcases encLen_cases n hn with ⟨b, he, hb, hv⟩ | ⟨b, bs, he, hb, hf, hk, hv⟩
  · rw [he] at h ⊢
    have h1 := det_peekU8 c off b t (by simpa using h)
    refine det_bind h1 ?_
    simp only [hb, ↓reduceIte, hv, List.length_singleton]
    exact det_pure _ _
  · rw [he] at h ⊢
    have h1 := det_peekU8 c off b (bs ++ t) (by simpa using h)
    refine det_bind h1 ?_
    simp only [hb, hf, Bool.not_true, Bool.false_eq_true, ↓reduceIte]
    have hd : c.rest.drop (off + 1) = bs ++ t := by
      have : c.rest.drop (off + 1) = (c.rest.drop off).drop 1 := by rw [List.drop_drop]
      rw [this, h]; rfl
    have hl : bs.length + (off + 1) ≤ c.rest.length := by
      have h3 := congrArg List.length h
      simp only [List.length_drop, List.length_append, List.length_cons] at h3
      omega
    have h2 := det_peekN c bs.length (off + 1) hl
    have ht : (c.rest.drop (off + 1)).take bs.length = bs := by rw [hd]; simp
    rw [ht] at h2
    rw [hk]
    refine det_bind h2 ?_
    have : (b :: bs).length = bs.length + 1 := by simp
    rw [hv, this]
    exact det_pure _ _

theorem det_peekTL (c : Core) (tag : UInt8) (n : Nat) (t : Bytes) (hn : n < 2 ^ 32)
    (h : c.rest = tag :: (encLen n ++ t)) :
    Det (peekTL 0) c ⟨tag, n, (encLen n).length⟩ c := by
  unfold Crv.peekTL
  have h1 := det_peekU8 c 0 tag (encLen n ++ t) (by simpa using h)
  refine det_bind h1 ?_
  have h2 := det_peekLen c (0 + 1) n t hn (by rw [h]; rfl)
  refine det_bind h2 ?_
  exact det_pure _ _

theorem det_tryPeekTL (c : Core) (tag : UInt8) (n : Nat) (t : Bytes) (hn : n < 2 ^ 32)
    (h : c.rest = tag :: (encLen n ++ t)) :
    Det tryPeekTL c (some ⟨tag, n, (encLen n).length⟩) c := by
  intro r hr
  obtain ⟨r', h1, _⟩ := det_peekTL c tag n t hn h r hr
  exact ⟨r, by simp only [Crv.tryPeekTL, h1], hr⟩

end Crv

namespace Crv
open Crv.Generated

/-! ### Whole TLV elements -/

theorem tlv_length (tag : UInt8) (x : Bytes) : (tlv tag x).length = 1 + (encLen x.length).length + x.length := by
  simp only [tlv, List.length_cons, List.length_append]; omega

theorem tlv_append (tag : UInt8) (x t : Bytes) : tlv tag x ++ t = tag :: (encLen x.length ++ (x ++ t)) := by
  simp only [tlv, List.cons_append, List.append_assoc]

theorem det_readStructFrame (c : Core) (x t : Bytes) (hx : x.length ≤ 81920) (h : c.rest = seqOf x ++ t) :
    Det readStructFrame c (seqOf x) (c.consume (seqOf x).length) := by
  unfold Crv.readStructFrame
  have h' : c.rest = (0x30 : UInt8) :: (encLen x.length ++ (x ++ t)) := by rw [h, seqOf, tlv_append]
  have h1 := det_peekTL c 0x30 x.length (x ++ t) (by omega) h'
  refine det_bind h1 ?_
  refine det_bind (det_expectTag c 0x30) ?_
  simp only [structCap]
  have hgt : ¬ x.length > 81920 := by omega
  simp only [hgt, ↓reduceIte]
  rw [narrow64_small (by omega)]
  have hcast : (x.length : Int) + ((encLen x.length).length + 1 : Nat) = (((seqOf x).length : Nat) : Int) := by
    rw [seqOf, tlv_length]; omega
  rw [hcast]
  have h2 := det_readN c (seqOf x).length (by rw [h]; simp)
  have ht : c.rest.take (seqOf x).length = seqOf x := by rw [h]; simp
  rw [ht] at h2
  exact h2

theorem det_readStruct (c : Core) (k : QKind) (ok : Bytes → Bool) (x t : Bytes) (hx : x.length ≤ 81920)
    (h : c.rest = seqOf x ++ t) (hok : ok (seqOf x) = true) :
    Det (readStruct k ok) c (seqOf x) (c.consume (seqOf x).length) := by
  unfold Crv.readStruct
  refine det_bind (det_readStructFrame c x t hx h) ?_
  refine det_bind (det_logQuery _ _ _) ?_
  simp only [hok, ↓reduceIte]
  exact det_pure _ _

theorem det_readValue (c : Core) (v t : Bytes) (hv : v.length ≤ 81920) (h : c.rest = v ++ t) :
    Det (readValue (some 81920) v.length) c v (c.consume v.length) := by
  unfold Crv.readValue
  have hgt : ¬ v.length > 81920 := by omega
  simp only [hgt, ↓reduceIte]
  rw [narrow64_small (by omega)]
  have h2 := det_readN c v.length (by rw [h]; simp)
  have ht : c.rest.take v.length = v := by rw [h]; simp
  rw [ht] at h2
  exact h2

theorem det_readUtcTime (O : Oracle) (c : Core) (v t : Bytes) (hv : v.length ≤ 81920)
    (h : c.rest = tlv 23 v ++ t) (hok : O.utcOk v = true) :
    Det (readUtcTime O) c v (c.consume (tlv 23 v).length) := by
  unfold Crv.readUtcTime
  have h' : c.rest = (23 : UInt8) :: (encLen v.length ++ (v ++ t)) := by rw [h, tlv_append]
  refine det_bind (det_readTL c 23 v.length (v ++ t) (by omega) h') ?_
  refine det_bind (det_expectTag _ 23) ?_
  simp only [utcTimeCap]
  have hrest : (c.consume (1 + (encLen v.length).length)).rest = v ++ t := by
    rw [consume_rest, h']
    have : (23 : UInt8) :: (encLen v.length ++ (v ++ t)) = ((23 : UInt8) :: encLen v.length) ++ (v ++ t) := rfl
    rw [this]
    have hl : 1 + (encLen v.length).length = ((23 : UInt8) :: encLen v.length).length := by simp; omega
    rw [hl, List.drop_left]
  have h2 := det_readValue _ v t hv hrest
  rw [consume_consume] at h2
  refine det_bind h2 ?_
  refine det_bind (det_logQuery _ _ _) ?_
  simp only [hok, ↓reduceIte]
  rw [tlv_length]
  exact det_pure _ _

end Crv

namespace Crv
open Crv.Generated

/-! ### Segment view: a state whose unread input is `seg ++ t`, after `seg` was consumed -/

def Core.after (c : Core) (seg t : Bytes) : Core :=
  ⟨t, c.pos + seg.length, c.hashing, if c.hashing then c.hashed ++ seg else c.hashed, c.hashFrom, c.events⟩

theorem consume_seg (c : Core) (seg t : Bytes) (h : c.rest = seg ++ t) : c.consume seg.length = c.after seg t := by
  cases c with
  | mk rest pos hashing hashed hashFrom events =>
    simp only at h
    subst h
    simp only [Core.consume, Core.after, List.drop_left, List.take_left]

theorem after_after (c : Core) (s₁ t₁ s₂ t₂ : Bytes) :
    (c.after s₁ t₁).after s₂ t₂ = c.after (s₁ ++ s₂) t₂ := by
  cases c with
  | mk rest pos hashing hashed hashFrom events =>
    simp only [Core.after, List.length_append, Nat.add_assoc]
    cases hashing <;> simp

theorem after_nil (c : Core) : c.after [] c.rest = c := by
  cases c with
  | mk rest pos hashing hashed hashFrom events =>
    simp only [Core.after, List.length_nil, Nat.add_zero, List.append_nil, ite_self]

theorem det_seqFrame (c : Core) (x t : Bytes) (hx : x.length ≤ 81920) (h : c.rest = seqOf x ++ t) :
    Det readStructFrame c (seqOf x) (c.after (seqOf x) t) := by
  rw [← consume_seg c _ t h]; exact det_readStructFrame c x t hx h

theorem det_seqStruct (c : Core) (k : QKind) (ok : Bytes → Bool) (x t : Bytes) (hx : x.length ≤ 81920)
    (h : c.rest = seqOf x ++ t) (hok : ok (seqOf x) = true) :
    Det (readStruct k ok) c (seqOf x) (c.after (seqOf x) t) := by
  rw [← consume_seg c _ t h]; exact det_readStruct c k ok x t hx h hok

theorem det_utc (O : Oracle) (c : Core) (v t : Bytes) (hv : v.length ≤ 81920)
    (h : c.rest = tlv 23 v ++ t) (hok : O.utcOk v = true) :
    Det (readUtcTime O) c v (c.after (tlv 23 v) t) := by
  rw [← consume_seg c _ t h]; exact det_readUtcTime O c v t hv h hok

/-- Reading the header of a TLV whose content is `x`: consumes `tag :: encLen x.length`. -/
theorem det_header (c : Core) (tag : UInt8) (x t : Bytes) (hx : x.length < 2 ^ 32)
    (h : c.rest = tlv tag x ++ t) :
    Det readTL c ⟨tag, x.length, (encLen x.length).length⟩ (c.after (tag :: encLen x.length) (x ++ t)) := by
  have h' : c.rest = tag :: (encLen x.length ++ (x ++ t)) := by rw [h, tlv_append]
  have h1 := det_readTL c tag x.length (x ++ t) hx h'
  have hs : c.rest = (tag :: encLen x.length) ++ (x ++ t) := by rw [h']; rfl
  have := consume_seg c (tag :: encLen x.length) (x ++ t) hs
  have hl : (tag :: encLen x.length).length = 1 + (encLen x.length).length := by simp; omega
  rw [hl] at this
  rw [← this]; exact h1

theorem det_tryPeekHeader (c : Core) (tag : UInt8) (x t : Bytes) (hx : x.length < 2 ^ 32)
    (h : c.rest = tlv tag x ++ t) :
    Det tryPeekTL c (some ⟨tag, x.length, (encLen x.length).length⟩) c := by
  have h' : c.rest = tag :: (encLen x.length ++ (x ++ t)) := by rw [h, tlv_append]
  exact det_tryPeekTL c tag x.length (x ++ t) hx h'

/-- `tryPeekTL` never fails and leaves the state unchanged; a reported tag is the first unread byte. -/
theorem tryPeekTL_spec (r : Rd) :
    ∃ o, tryPeekTL r = .ok o r ∧ ∀ tl, o = some tl → r.rest.head? = some tl.tag := by
  unfold Crv.tryPeekTL
  cases hres : peekTL 0 r with
  | err e r' => exact ⟨none, rfl, by intro tl h; cases h⟩
  | panic r' => exact ⟨none, rfl, by intro tl h; cases h⟩
  | ok tl r' =>
    refine ⟨some tl, rfl, ?_⟩
    intro tl' htl
    cases htl
    -- unfold the peek to see where the tag comes from
    unfold Crv.peekTL at hres
    simp only [Bind.bind, RdM.bind] at hres
    cases hu : peekU8 0 r with
    | err e r1 => simp [hu] at hres
    | panic r1 => simp [hu] at hres
    | ok b r1 =>
      simp only [hu] at hres
      have htag : tl.tag = b := by
        cases hl : peekLen (0 + 1) r1 with
        | err e r2 => simp [hl] at hres
        | panic r2 => simp [hl] at hres
        | ok p r2 =>
          simp only [hl, Pure.pure, RdM.pure, Res.ok.injEq] at hres
          rw [← hres.1]
      rw [htag]
      -- peekU8 0 returns the head of the unread input
      unfold Crv.peekU8 at hu
      simp only [Bind.bind, RdM.bind] at hu
      unfold Crv.peekN at hu
      by_cases hlen : r.rest.length < 1 + 0
      · simp [hlen] at hu
      · simp only [hlen, ↓reduceIte, List.drop_zero] at hu
        cases hr : r.rest with
        | nil => simp [hr] at hlen
        | cons x xs =>
          simp only [hr, List.take_succ_cons, List.take_zero, Pure.pure, RdM.pure, Res.ok.injEq] at hu
          simp only [List.head?_cons, Option.some.injEq]
          exact hu.1

theorem det_discard (c : Core) (n : Nat) (hh : c.hashing = false) (h : n ≤ c.rest.length) :
    Det (discard (n : Int)) c () (c.consume n) := by
  intro r hr
  have hrest : r.rest = c.rest := by rw [← hr]; rfl
  unfold Crv.discard
  have hneg : ¬ ((n : Int) < 0) := by omega
  simp only [hneg, ↓reduceIte, Int.toNat_natCast]
  have hlen : ¬ r.rest.length < n := by rw [hrest]; omega
  simp only [hlen, ↓reduceIte]
  refine ⟨_, rfl, ?_⟩
  rw [← hr] at hh ⊢
  simp only [Rd.core] at hh
  simp only [Rd.core, Core.consume, hh]
  rfl

end Crv

namespace Crv
open Crv.Generated

theorem det_parseBitString (c : Core) (s t : Bytes) (hs : s.length < 81920)
    (h : c.rest = tlv 3 (0 :: s) ++ t) :
    Det parseBitString c ⟨s, s.length * 8⟩ (c.after (tlv 3 (0 :: s)) t) := by
  unfold Crv.parseBitString
  have hlen : ((0 : UInt8) :: s).length < 2 ^ 32 := by simp; omega
  refine det_bind (det_header c 3 (0 :: s) t hlen h) ?_
  refine det_bind (det_expectTag _ 3) ?_
  simp only [bitStringCap]
  have hv := det_readValue (c.after (3 :: encLen ((0 : UInt8) :: s).length) ((0 :: s) ++ t)) (0 :: s) t
    (by simp; omega) rfl
  rw [consume_seg _ (0 :: s) t rfl, after_after] at hv
  refine det_bind hv ?_
  simp only
  have hcond : ¬ ((0 : UInt8).toNat > 7 ∨ (s.isEmpty = true ∧ (0 : UInt8).toNat > 0) ∨
      (lastByte ((0 : UInt8) :: s)).toNat % 2 ^ (0 : UInt8).toNat ≠ 0) := by
    simp [Nat.mod_one]
  simp only [hcond, ↓reduceIte]
  have : tlv 3 ((0 : UInt8) :: s) = (3 :: encLen ((0 : UInt8) :: s).length) ++ (0 :: s) := rfl
  rw [this]
  exact det_pure _ _

/-- The inner `signature` AlgorithmIdentifier: decodable and byte-identical to the outer frame. -/
theorem det_readInnerAlg (O : Oracle) (c : Core) (outerFrame x t : Bytes) (hx : x.length ≤ 81920)
    (h : c.rest = seqOf x ++ t) (hok : (O.algOid (seqOf x)).isSome = true) (hsame : seqOf x = outerFrame) :
    Det (readInnerAlg O outerFrame) c () (c.after (seqOf x) t) := by
  unfold Crv.readInnerAlg
  simp only [algIdsCompared, ↓reduceIte]
  refine det_bind (det_seqStruct c .alg _ x t hx h hok) ?_
  simp only [hsame, ↓reduceIte]
  exact det_pure _ _

/-- The envelope check passes on a whole-octet signature when the position is the declared outer end. -/
theorem det_checkEnvelope (c : Core) (sig : BitStr) (outerEnd : Nat) (h8 : sig.bitLen % 8 = 0) (hp : c.pos = outerEnd) :
    Det (checkEnvelope sig outerEnd) c () c := by
  intro r hr
  have hp' : r.pos = outerEnd := by rw [← hp, ← hr]; rfl
  refine ⟨r, ?_, hr⟩
  unfold Crv.checkEnvelope
  simp only [sigUnusedBitsRejected, outerLengthChecked, h8, bne_self_eq_false, Bool.and_false, Bool.false_eq_true,
    ↓reduceIte, Bind.bind, RdM.bind, Crv.getPos, hp', Pure.pure, RdM.pure]

theorem seqOf_length_pos (x : Bytes) : 1 ≤ (seqOf x).length := by
  rw [seqOf, tlv_length]; omega

theorem det_entryLoop (O : Oracle) (l : List Bytes)
    (hl : ∀ e ∈ l, e.length ≤ 81920 ∧ O.entryOk (seqOf e) = true) :
    ∀ (c : Core) (t : Bytes), c.rest = encEntries l ++ t →
      Det (entryLoop O (c.pos + (encEntries l).length)) c ()
        { (c.after (encEntries l) t) with events := c.events ++ entryEvents l } := by
  induction l with
  | nil =>
    intro c t h r hr
    rw [entryLoop]
    have hp : r.pos = c.pos := by rw [← hr]; rfl
    have : ¬ r.pos < c.pos + (encEntries []).length := by simp [encEntries, hp]
    simp only [this, ↓reduceIte]
    refine ⟨r, rfl, ?_⟩
    rw [hr]
    simp only [encEntries, List.map_nil, List.flatten_nil, List.nil_append] at h
    cases c with
    | mk rest pos hashing hashed hashFrom events =>
      simp only at h
      subst h
      simp [Core.after, encEntries, entryEvents]
  | cons e l ih =>
    intro c t h r hr
    have he := hl e (List.mem_cons_self)
    have hrest : c.rest = seqOf e ++ (encEntries l ++ t) := by
      rw [h]; simp [encEntries]
    rw [entryLoop]
    have hp : r.pos = c.pos := by rw [← hr]; rfl
    have hpos : r.pos < c.pos + (encEntries (e :: l)).length := by
      have := seqOf_length_pos e
      simp only [encEntries, List.map_cons, List.flatten_cons, List.length_append, hp]
      omega
    simp only [hpos, ↓reduceIte]
    -- the body: read one entry, emit it
    have hbody : Det (do let f ← readStruct .entry O.entryOk; emit (.insert f) : RdM Unit) c ()
        { (c.after (seqOf e) (encEntries l ++ t)) with events := c.events ++ [.insert (seqOf e)] } := by
      refine det_bind (det_seqStruct c .entry O.entryOk e _ he.1 hrest he.2) ?_
      exact det_emit _ _
    obtain ⟨r', hb, hc'⟩ := hbody r hr
    simp only [hb]
    have hlt : r'.rest.length < r.rest.length := by
      have h1 : r'.rest = encEntries l ++ t := by
        have := congrArg Core.rest hc'
        simpa [Rd.core, Core.after] using this
      have h2 : r.rest = seqOf e ++ (encEntries l ++ t) := by
        have := congrArg Core.rest hr
        simp only [Rd.core] at this
        rw [this, hrest]
      have := seqOf_length_pos e
      rw [h1, h2]; simp only [List.length_append]; omega
    simp only [hlt, ↓reduceIte]
    -- the remaining iterations by induction
    let c1 : Core := { (c.after (seqOf e) (encEntries l ++ t)) with events := c.events ++ [.insert (seqOf e)] }
    have hih := ih (fun x hx => hl x (List.mem_cons_of_mem _ hx)) c1 t rfl
    have hend : c1.pos + (encEntries l).length = c.pos + (encEntries (e :: l)).length := by
      simp only [c1, Core.after, encEntries, List.map_cons, List.flatten_cons, List.length_append]
      omega
    rw [hend] at hih
    obtain ⟨r'', h3, h4⟩ := hih r' hc'
    refine ⟨r'', h3, ?_⟩
    rw [h4]
    cases c with
    | mk rest pos hashing hashed hashFrom events =>
      cases hashing <;>
        simp [c1, Core.after, encEntries, entryEvents, List.append_assoc, Nat.add_assoc]

end Crv

namespace Crv
open Crv.Generated

/-! ### The optional fields of tbsCertList -/

theorem det_onBytes_ok {m : RdM α} (bs : Bytes) (a : α) (r0 : Rd) (h : m { rest := bs } = .ok a r0) (c : Core) :
    Det (onBytes bs m) c a c := by
  intro r hr
  refine ⟨{ r with allocs := r.allocs ++ r0.allocs }, ?_, ?_⟩
  · simp only [Crv.onBytes, h]
  · rw [← hr]; rfl

theorem det_readCrlNumber (l : List Ext) (num : Option Nat) (h : crlNumberPure l = some num) (c : Core) :
    Det (readCrlNumber l) c num c := by
  unfold Crv.readCrlNumber
  unfold crlNumberPure at h
  cases hf : findExt oidCrlNumber l with
  | none =>
    simp only [hf, Option.some.injEq] at h
    simp only
    rw [← h]
    exact det_pure _ _
  | some e =>
    simp only [hf] at h
    simp only
    cases hb : readBigInt { rest := e.value } with
    | ok n r0 =>
      simp only [hb, Option.some.injEq] at h
      refine det_bind (det_onBytes_ok e.value n r0 hb c) ?_
      rw [← h]
      exact det_pure _ _
    | err e' r0 => simp [hb] at h
    | panic r0 => simp [hb] at h

theorem det_checkGate_some (l : List Ext) (h : criticalGate l = true) (c : Core) : Det (checkGate (some l)) c () c := by
  unfold Crv.checkGate
  simp only [h, ↓reduceIte]
  exact det_pure _ _

theorem det_checkGate_none (c : Core) : Det (checkGate none) c () c := det_pure _ _

theorem det_lookupHashM (oid : List Nat) (h : HashAlg) (hh : lookupHash oid = some h) (c : Core) :
    Det (lookupHashM oid) c h c := by
  unfold Crv.lookupHashM
  simp only [hh]
  exact det_pure _ _

theorem encLen_one : encLen 1 = [1] := by decide

theorem det_readVersion_none (c : Core) (x t : Bytes) (hx : x.length < 2 ^ 32) (h : c.rest = seqOf x ++ t) :
    Det readVersion c 1 c := by
  unfold Crv.readVersion
  refine det_bind (det_tryPeekHeader c 0x30 x t hx h) ?_
  simp only
  have : ((0x30 : UInt8) == 2 && x.length == 1) = false := by
    have : ((0x30 : UInt8) == 2) = false := by decide
    simp [this]
  simp only [this, Bool.false_eq_true, ↓reduceIte]
  exact det_pure _ _

theorem det_readVersion_some (c : Core) (b : UInt8) (t : Bytes) (h : c.rest = [0x02, 0x01, b] ++ t) :
    Det readVersion c (versionOf b) (c.after [0x02, 0x01, b] t) := by
  unfold Crv.readVersion
  have h' : c.rest = tlv 2 [b] ++ t := by rw [h]; simp [tlv, encLen_one]
  refine det_bind (det_tryPeekHeader c 2 [b] t (by simp) h') ?_
  simp only [List.length_singleton, beq_self_eq_true, Bool.and_self, ↓reduceIte]
  have hh := det_header c 2 [b] t (by simp) h'
  simp only [List.length_singleton, encLen_one] at hh
  refine det_bind (det_ignoreErr hh) ?_
  have hu := det_readU8 (c.after [2, 1] ([b] ++ t)) b t rfl
  have hcs := consume_seg (c.after [2, 1] ([b] ++ t)) [b] t rfl
  simp only [List.length_singleton] at hcs
  rw [hcs, after_after] at hu
  refine det_bind hu ?_
  exact det_pure _ _

theorem det_readNextUpdate_some (O : Oracle) (c : Core) (v t : Bytes) (hv : v.length ≤ 81920)
    (h : c.rest = tlv 23 v ++ t) (hok : O.utcOk v = true) :
    Det (readNextUpdate O) c (some v) (c.after (tlv 23 v) t) := by
  unfold Crv.readNextUpdate
  refine det_bind (det_tryPeekHeader c 23 v t (by omega) h) ?_
  simp only [beq_self_eq_true, ↓reduceIte]
  refine det_bind (det_utc O c v t hv h hok) ?_
  exact det_pure _ _

/-- nextUpdate absent: whatever follows starts with a tag other than UTCTime. -/
theorem det_readNextUpdate_none (O : Oracle) (c : Core) (tag : UInt8) (t : Bytes) (h : c.rest = tag :: t)
    (htag : (tag == 23) = false) : Det (readNextUpdate O) c none c := by
  intro r hr
  obtain ⟨o, ho, hspec⟩ := tryPeekTL_spec r
  have hrest : r.rest = tag :: t := by rw [← h, ← hr]; rfl
  refine ⟨r, ?_, hr⟩
  unfold Crv.readNextUpdate
  simp only [Bind.bind, RdM.bind, ho]
  cases o with
  | none => simp [Pure.pure, RdM.pure]
  | some tl =>
    have := hspec tl rfl
    rw [hrest] at this
    simp only [List.head?_cons, Option.some.injEq] at this
    simp only [← this, htag, Bool.false_eq_true, ↓reduceIte, Pure.pure, RdM.pure]

end Crv

namespace Crv
open Crv.Generated

theorem encEntries_length_lt (l : List Bytes) (h : (seqOf (encEntries l)).length < 2 ^ 32) :
    (encEntries l).length < 2 ^ 32 := by
  rw [seqOf, tlv_length] at h; omega

/-- revokedCertificates present. -/
theorem det_readEntryList_some (O : Oracle) (c : Core) (l : List Bytes) (t : Bytes) (tbsEnd : Nat)
    (hl : ∀ e ∈ l, e.length ≤ 81920 ∧ O.entryOk (seqOf e) = true)
    (hsz : (seqOf (encEntries l)).length < 2 ^ 32) (hp63 : c.pos + (seqOf (encEntries l)).length < 2 ^ 63)
    (h : c.rest = seqOf (encEntries l) ++ t) (hpos : c.pos < tbsEnd) :
    Det (readEntryList O tbsEnd) c ()
      { (c.after (seqOf (encEntries l)) t) with events := c.events ++ entryEvents l } := by
  unfold Crv.readEntryList
  have hlen := encEntries_length_lt l hsz
  refine det_bind (det_getPos c) ?_
  refine det_bind (det_tryPeekHeader c 0x30 (encEntries l) t hlen h) ?_
  simp only [listGuardedByTbsEnd, Bool.not_true, Bool.false_or, hpos, decide_true, beq_self_eq_true, Bool.and_self,
    ↓reduceIte]
  refine det_bind (det_header c 0x30 (encEntries l) t hlen h) ?_
  refine det_bind (det_expectTag _ 0x30) ?_
  let c1 := c.after (0x30 :: encLen (encEntries l).length) (encEntries l ++ t)
  have hc1 : c1.pos + (encEntries l).length < 2 ^ 63 := by
    simp only [c1, Core.after]
    rw [seqOf, tlv_length] at hp63
    simp only [List.length_cons]
    omega
  refine det_bind (det_endPosition c1 _ hc1) ?_
  have hloop := det_entryLoop O l hl c1 t rfl
  have : ({ (c1.after (encEntries l) t) with events := c1.events ++ entryEvents l } : Core) =
      { (c.after (seqOf (encEntries l)) t) with events := c.events ++ entryEvents l } := by
    simp only [c1, after_after]
    rfl
  rw [this] at hloop
  exact hloop

/-- revokedCertificates absent: either tbsCertList has ended, or the next element is not a SEQUENCE. -/
theorem det_readEntryList_none (O : Oracle) (c : Core) (tag : UInt8) (x t : Bytes) (tbsEnd : Nat)
    (hx : x.length < 2 ^ 32) (h : c.rest = tlv tag x ++ t)
    (hno : ¬ c.pos < tbsEnd ∨ (tag == 0x30) = false) :
    Det (readEntryList O tbsEnd) c () c := by
  unfold Crv.readEntryList
  refine det_bind (det_getPos c) ?_
  refine det_bind (det_tryPeekHeader c tag x t hx h) ?_
  have : ((!listGuardedByTbsEnd || decide (c.pos < tbsEnd)) && (tag == 0x30)) = false := by
    rcases hno with hno | hno
    · simp [listGuardedByTbsEnd, hno]
    · simp [hno]
  simp only [this, Bool.false_eq_true, ↓reduceIte]
  exact det_pure _ _

theorem isCtx0_A0 : isCtx0 0xA0 = true := by decide

/-- crlExtensions present (v2, before the end of tbsCertList). -/
theorem det_readExtensions_some (O : Oracle) (c : Core) (x t : Bytes) (tbsEnd version : Nat)
    (l : List Ext) (num : Option Nat)
    (hx : x.length ≤ 81920) (h : c.rest = tlv 0xA0 (seqOf x) ++ t) (hpos : c.pos < tbsEnd) (hv : version > 1)
    (hO : O.exts (seqOf x) = some l) (hnum : crlNumberPure l = some num) :
    Det (readExtensions O tbsEnd version) c (some l, num) (c.after (tlv 0xA0 (seqOf x)) t) := by
  unfold Crv.readExtensions
  have hsz : (seqOf x).length < 2 ^ 32 := by
    rw [seqOf, tlv_length]
    have := encLen_length_le x.length
    omega
  refine det_bind (det_getPos c) ?_
  refine det_bind (det_tryPeekHeader c 0xA0 (seqOf x) t hsz h) ?_
  simp only [extsGuardedByTbsEnd, Bool.not_true, Bool.false_or, hpos, decide_true, hv, isCtx0_A0, Bool.and_self,
    ↓reduceIte]
  refine det_bind (det_ignoreErr (det_header c 0xA0 (seqOf x) t hsz h)) ?_
  let c1 := c.after (0xA0 :: encLen (seqOf x).length) (seqOf x ++ t)
  refine det_bind (det_seqFrame c1 x t hx rfl) ?_
  refine det_bind (det_logQuery _ _ _) ?_
  simp only [hO]
  refine det_bind (det_readCrlNumber l num hnum _) ?_
  have : c1.after (seqOf x) t = c.after (tlv 0xA0 (seqOf x)) t := by
    simp only [c1, after_after]
    rfl
  rw [this]
  exact det_pure _ _

/-- crlExtensions absent: tbsCertList has ended (the position guard decides, not the tag). -/
theorem det_readExtensions_none (O : Oracle) (c : Core) (tag : UInt8) (x t : Bytes) (tbsEnd version : Nat)
    (hx : x.length < 2 ^ 32) (h : c.rest = tlv tag x ++ t) (hend : ¬ c.pos < tbsEnd) :
    Det (readExtensions O tbsEnd version) c (none, none) c := by
  unfold Crv.readExtensions
  refine det_bind (det_getPos c) ?_
  refine det_bind (det_tryPeekHeader c tag x t hx h) ?_
  have : ((!extsGuardedByTbsEnd || decide (c.pos < tbsEnd)) && (decide (version > 1) && isCtx0 tag)) = false := by
    simp [extsGuardedByTbsEnd, hend]
  simp only [this, Bool.false_eq_true, ↓reduceIte]
  exact det_pure _ _

end Crv

namespace Crv
open Crv.Generated

/-! ### Option-level steps (case split on the document inside) -/

theorem after_nil' (c : Core) (t : Bytes) (h : c.rest = t) : c.after [] t = c := by
  rw [← h]; exact after_nil c

theorem det_version (c : Core) (v : Option UInt8) (x t : Bytes) (hx : x.length < 2 ^ 32)
    (h : c.rest = encVersion v ++ (seqOf x ++ t)) :
    Det readVersion c (verOf v) (c.after (encVersion v) (seqOf x ++ t)) := by
  cases v with
  | none =>
    simp only [encVersion, List.nil_append, verOf] at h ⊢
    rw [after_nil' c _ h]
    exact det_readVersion_none c x t hx h
  | some b =>
    simp only [encVersion, verOf] at h ⊢
    exact det_readVersion_some c b (seqOf x ++ t) h

theorem det_nextUpdate (O : Oracle) (c : Core) (nu : Option Bytes) (tag : UInt8) (t : Bytes)
    (hlen : ∀ v, nu = some v → v.length ≤ 81920) (hok : ∀ v, nu = some v → O.utcOk v = true)
    (htag : (tag == 23) = false) (h : c.rest = encOptTime nu ++ (tag :: t)) :
    Det (readNextUpdate O) c nu (c.after (encOptTime nu) (tag :: t)) := by
  cases nu with
  | none =>
    simp only [encOptTime, List.nil_append] at h ⊢
    rw [after_nil' c _ h]
    exact det_readNextUpdate_none O c tag t h htag
  | some v =>
    simp only [encOptTime] at h ⊢
    exact det_readNextUpdate_some O c v (tag :: t) (hlen v rfl) h (hok v rfl)

theorem encList_some_length_pos (l : List Bytes) : 1 ≤ (encList (some l)).length := seqOf_length_pos _

theorem det_entryList (O : Oracle) (c : Core) (en : Option (List Bytes)) (ex : Option Bytes) (y t : Bytes)
    (hl : ∀ l, en = some l → ∀ e ∈ l, e.length ≤ 81920 ∧ O.entryOk (seqOf e) = true)
    (hsz : (encList en).length < 2 ^ 32) (hexsz : ∀ x, ex = some x → (seqOf x).length < 2 ^ 32)
    (hy : y.length < 2 ^ 32)
    (hp63 : c.pos + (encList en).length < 2 ^ 63)
    (h : c.rest = encList en ++ (encExts ex ++ (seqOf y ++ t))) :
    Det (readEntryList O (c.pos + (encList en ++ encExts ex).length)) c ()
      { (c.after (encList en) (encExts ex ++ (seqOf y ++ t))) with
        events := c.events ++ (match en with | none => [] | some l => entryEvents l) } := by
  cases en with
  | some l =>
    simp only [encList] at h hsz hp63 ⊢
    have hpos : c.pos < c.pos + (seqOf (encEntries l) ++ encExts ex).length := by
      have := seqOf_length_pos (encEntries l)
      simp only [List.length_append]; omega
    exact det_readEntryList_some O c l _ _ (hl l rfl) hsz hp63 h hpos
  | none =>
    simp only [encList, List.nil_append, List.append_nil] at h ⊢
    rw [after_nil' c _ h]
    show Det (readEntryList O (c.pos + (encExts ex).length)) c () c
    cases ex with
    | some x =>
      simp only [encExts] at h ⊢
      exact det_readEntryList_none O c 0xA0 (seqOf x) _ _ (hexsz x rfl) h (Or.inr (by decide))
    | none =>
      simp only [encExts, List.nil_append, List.length_nil, Nat.add_zero] at h ⊢
      exact det_readEntryList_none O c 0x30 y t _ hy h (Or.inl (by omega))

theorem det_extensions (O : Oracle) (c : Core) (ex : Option Bytes) (y t : Bytes) (version : Nat)
    (es : Option (List Ext)) (num : Option Nat)
    (hlen : ∀ x, ex = some x → x.length ≤ 81920) (hv : ex.isSome → version > 1) (hy : y.length < 2 ^ 32)
    (hO : match ex with
      | none => es = none ∧ num = none
      | some x => ∃ l, O.exts (seqOf x) = some l ∧ es = some l ∧ criticalGate l = true ∧ crlNumberPure l = some num)
    (h : c.rest = encExts ex ++ (seqOf y ++ t)) :
    Det (readExtensions O (c.pos + (encExts ex).length) version) c (es, num) (c.after (encExts ex) (seqOf y ++ t)) := by
  cases ex with
  | some x =>
    simp only [encExts] at h ⊢
    obtain ⟨l, h1, h2, _, h4⟩ := hO
    rw [h2]
    have hpos : c.pos < c.pos + (tlv 0xA0 (seqOf x)).length := by
      rw [tlv_length]; omega
    exact det_readExtensions_some O c x _ _ version l num (hlen x rfl) h hpos (hv rfl) h1 h4
  | none =>
    simp only [encExts, List.nil_append, List.length_nil, Nat.add_zero] at h ⊢
    obtain ⟨h1, h2⟩ := hO
    rw [h1, h2, after_nil' c _ h]
    exact det_readExtensions_none O c 0x30 y t _ version hy h (by omega)

end Crv
