import Crv.Proofs.Locks
/-!
`progress` and `race_free` for every system of lock programs (see `Crv.Locks`).
-/
namespace Crv.Locks

/-! ### progress -/

theorem rank_le_max (S : Sys) (l : Nat) : S.rank l ≤ S.lockRank.foldr max 0 := by
  unfold Sys.rank
  generalize S.lockRank = L
  induction L generalizing l with
  | nil => simp
  | cons a L ih =>
    cases l with
    | zero => simp [List.getD]; exact Nat.le_max_left ..
    | succ k =>
      have := ih k
      simp [List.getD] at this ⊢
      exact Nat.le_trans this (Nat.le_max_right ..)

theorem free_w_false {c : Config} {lid : Inst} (h : free c lid .w = false) :
    ∃ t ∈ c, ∃ x ∈ t.held, x.1 = lid := by
  false_or_by_contra
  rename_i hne
  have : free c lid .w = true := by
    simp only [free, List.all_eq_true]
    intro t ht x hx
    simp only [bne_iff_ne, ne_eq]
    intro he
    exact hne ⟨t, ht, x, hx, he⟩
  rw [this] at h; cases h

theorem free_r_false {c : Config} {lid : Inst} (h : free c lid .r = false) :
    ∃ t ∈ c, ∃ x ∈ t.held, x.1 = lid := by
  false_or_by_contra
  rename_i hne
  have : free c lid .r = true := by
    simp only [free, List.all_eq_true]
    intro t ht x hx
    simp only [Bool.not_eq_true', Bool.and_eq_false_imp, beq_iff_eq]
    intro he
    exact absurd ⟨t, ht, x, hx, he⟩ hne
  rw [this] at h; cases h

theorem pendingFrom_true {S : Sys} {lid : Inst} {i : Nat} :
    ∀ (j : Nat) (ts : List Thread), pendingFrom S lid i j ts = true →
      ∃ t ∈ ts, wantsW S t lid = true
  | _, [], h => by cases h
  | j, t :: ts, h => by
    simp only [pendingFrom, Bool.or_eq_true, Bool.and_eq_true] at h
    rcases h with h | h
    · exact ⟨t, List.mem_cons_self .., h.2⟩
    · obtain ⟨t', ht', hw⟩ := pendingFrom_true (j + 1) ts h
      exact ⟨t', List.mem_cons_of_mem _ ht', hw⟩

/-- The thread is at an acquisition of class `l` that it cannot perform even though … (it is blocked). -/
def BlockedOn (S : Sys) (_c : Config) (t : Thread) (l : Nat) : Prop :=
  ∃ n m, S.node t.prog t.pc = some n ∧ n.instr = .acq l m

/-- A thread that holds a lock of class `l` and, like everybody, is not enabled, is itself waiting
for a class of strictly higher rank. -/
theorem holder_higher {S : Sys} (hc : S.consistent = true) (ho : S.ordered = true) {c : Config}
    (hinv : Inv S c) (hno : ∀ i, strictEnabled S c i = false)
    {t : Thread} (ht : t ∈ c) {x : Inst × Mode} (hx : x ∈ t.held) :
    ∃ t' ∈ c, ∃ l', BlockedOn S c t' l' ∧ S.rank x.1.cls < S.rank l' := by
  obtain ⟨n, hn, hm, _⟩ := hinv t ht
  obtain ⟨i, hi⟩ := List.mem_iff_getElem?.mp ht
  have hann := ann_of_mem_held hm hx
  have hdis := hno i
  unfold strictEnabled at hdis
  rw [hi] at hdis; simp only at hdis
  rw [hn] at hdis; simp only at hdis
  obtain ⟨P, hP, hn'⟩ := node_some hn
  cases hins : n.instr with
  | acq l m =>
    refine ⟨t, ht, l, ⟨n, m, hn, hins⟩, ?_⟩
    unfold Sys.ordered at ho
    rw [List.all_eq_true] at ho
    have h1 := ho P (List.mem_of_getElem? hP)
    rw [List.all_eq_true] at h1
    have h2 := h1 n (List.mem_of_getElem? hn')
    rw [hins] at h2; simp only [List.all_eq_true] at h2
    have h3 := h2 _ hann
    simpa using h3
  | ret =>
    -- a finished thread holds nothing
    obtain ⟨h', htr, _⟩ := cons_node hc hn
    rw [hins] at htr
    simp only [transfer] at htr
    split at htr
    · rename_i he
      have : n.held = [] := by simpa using he
      rw [this] at hann; cases hann
    · cases htr
  | rel l m => rw [hins] at hdis; cases hdis
  | rd f => rw [hins] at hdis; cases hdis
  | wr f => rw [hins] at hdis; cases hdis
  | spawn q => rw [hins] at hdis; cases hdis
  | pick => rw [hins] at hdis; cases hdis
  | nop => rw [hins] at hdis; cases hdis

/-- If nobody is enabled, every unfinished thread waits for a lock class, and somebody waits for a
class of strictly higher rank. -/
theorem blocked_higher {S : Sys} (hc : S.consistent = true) (ho : S.ordered = true) {c : Config}
    (hinv : Inv S c) (hno : ∀ i, strictEnabled S c i = false)
    {t : Thread} (ht : t ∈ c) {l : Nat} (hb : BlockedOn S c t l) :
    ∃ t' ∈ c, ∃ l', BlockedOn S c t' l' ∧ S.rank l < S.rank l' := by
  obtain ⟨n, m, hn, hins⟩ := hb
  obtain ⟨i, hi⟩ := List.mem_iff_getElem?.mp ht
  have hdis := hno i
  unfold strictEnabled at hdis
  rw [hi] at hdis; simp only at hdis
  rw [hn] at hdis; simp only at hdis
  rw [hins] at hdis
  have fromHolder : ∀ t2 ∈ c, ∀ x ∈ t2.held, x.1 = S.lockInst l t.chk t.cur →
      ∃ t' ∈ c, ∃ l', BlockedOn S c t' l' ∧ S.rank l < S.rank l' := by
    intro t2 ht2 x hx hxe
    obtain ⟨t', ht', l', hb', hr⟩ := holder_higher hc ho hinv hno ht2 hx
    rw [hxe, lockInst_cls] at hr
    exact ⟨t', ht', l', hb', hr⟩
  cases m with
  | w =>
    simp only at hdis
    obtain ⟨t2, ht2, x, hx, hxe⟩ := free_w_false hdis
    exact fromHolder t2 ht2 x hx hxe
  | r =>
    simp only [Bool.and_eq_false_iff, Bool.not_eq_false'] at hdis
    rcases hdis with hf | hp
    · obtain ⟨t2, ht2, x, hx, hxe⟩ := free_r_false hf
      exact fromHolder t2 ht2 x hx hxe
    · -- a pending writer: it is not enabled either, so somebody holds the lock
      obtain ⟨tw, htw, hw⟩ := pendingFrom_true 0 c hp
      obtain ⟨j, hj⟩ := List.mem_iff_getElem?.mp htw
      unfold wantsW at hw
      cases hnw : S.node tw.prog tw.pc with
      | none => rw [hnw] at hw; cases hw
      | some nw =>
        rw [hnw] at hw; simp only at hw
        cases hiw : nw.instr with
        | acq l2 m2 =>
          rw [hiw] at hw
          cases m2 with
          | r => cases hw
          | w =>
            simp only [beq_iff_eq] at hw
            have hdj := hno j
            unfold strictEnabled at hdj
            rw [hj] at hdj; simp only at hdj
            rw [hnw] at hdj; simp only at hdj
            rw [hiw] at hdj; simp only at hdj
            rw [hw] at hdj
            obtain ⟨t2, ht2, x, hx, hxe⟩ := free_w_false hdj
            exact fromHolder t2 ht2 x hx hxe
        | rel _ _ => rw [hiw] at hw; cases hw
        | rd _ => rw [hiw] at hw; cases hw
        | wr _ => rw [hiw] at hw; cases hw
        | spawn _ => rw [hiw] at hw; cases hw
        | pick => rw [hiw] at hw; cases hw
        | nop => rw [hiw] at hw; cases hw
        | ret => rw [hiw] at hw; cases hw

theorem no_blocked_chain {S : Sys} (hc : S.consistent = true) (ho : S.ordered = true) {c : Config}
    (hinv : Inv S c) (hno : ∀ i, strictEnabled S c i = false) :
    ∀ (d : Nat) (t : Thread), t ∈ c → ∀ l, BlockedOn S c t l → S.lockRank.foldr max 0 - S.rank l ≤ d → False := by
  intro d
  induction d with
  | zero =>
    intro t ht l hb hd
    obtain ⟨t', _, l', _, hr⟩ := blocked_higher hc ho hinv hno ht hb
    have := rank_le_max S l'
    omega
  | succ d ih =>
    intro t ht l hb hd
    obtain ⟨t', ht', l', hb', hr⟩ := blocked_higher hc ho hinv hno ht hb
    have := rank_le_max S l'
    exact ih t' ht' l' hb' (by omega)

/-- **progress.** If the `held` annotations are consistent (in particular every path releases what
it acquires) and all nested acquisitions respect one strict order of lock classes, then in every
reachable configuration in which some thread is not finished some thread is enabled, even under the
strictest reading of Go's RWMutex (readers held back by pending writers): no deadlock, for any
number of threads, any number of checker instances and entries, and any schedule. -/
theorem progress {S : Sys} (hc : S.consistent = true) (ho : S.ordered = true) {c : Config}
    (hr : Reachable S c) (hu : Unfinished S c) : ∃ i, strictEnabled S c i = true := by
  false_or_by_contra
  rename_i hne
  have hno : ∀ i, strictEnabled S c i = false := by
    intro i
    cases h : strictEnabled S c i with
    | false => rfl
    | true => exact absurd ⟨i, h⟩ hne
  have hinv := reachable_inv hc hr
  obtain ⟨t, ht, hfin⟩ := hu
  obtain ⟨n, hn, _, _⟩ := hinv t ht
  obtain ⟨i, hi⟩ := List.mem_iff_getElem?.mp ht
  have hdis := hno i
  unfold strictEnabled at hdis
  rw [hi] at hdis; simp only at hdis
  rw [hn] at hdis; simp only at hdis
  unfold Thread.finished at hfin
  rw [hn] at hfin; simp only at hfin
  cases hins : n.instr with
  | acq l m => exact no_blocked_chain hc ho hinv hno _ t ht l ⟨n, m, hn, hins⟩ (Nat.le_refl _)
  | ret => rw [hins] at hfin; simp at hfin
  | rel l m => rw [hins] at hdis; cases hdis
  | rd f => rw [hins] at hdis; cases hdis
  | wr f => rw [hins] at hdis; cases hdis
  | spawn q => rw [hins] at hdis; cases hdis
  | pick => rw [hins] at hdis; cases hdis
  | nop => rw [hins] at hdis; cases hdis

/-- A strictly enabled thread can take a step of the semantics. -/
theorem strictEnabled_step {S : Sys} (hw : S.wf = true) (hc : S.consistent = true) {c : Config}
    (hr : Reachable S c) {i : Nat} (he : strictEnabled S c i = true) : ∃ c', Step S c c' := by
  have hinv := reachable_inv hc hr
  unfold strictEnabled at he
  cases hi : c[i]? with
  | none => rw [hi] at he; cases he
  | some t =>
    rw [hi] at he; simp only at he
    cases hn : S.node t.prog t.pc with
    | none => rw [hn] at he; cases he
    | some n =>
      rw [hn] at he; simp only at he
      obtain ⟨n0, hn0, hm, hres⟩ := hinv t (List.mem_of_getElem? hi)
      rw [hn] at hn0; cases hn0
      have hstep : ∀ s, n.succ[0]? = some s → (∃ r, stepThread S c t n s 0 = some r) → ∃ c', Step S c c' := by
        intro s hs ⟨r, hr'⟩
        obtain ⟨t', u⟩ := r
        cases u with
        | none => exact ⟨c.set i t', i, 0, 0, by unfold exec; simp [hi, hn, hs, hr']⟩
        | some u' => exact ⟨c.set i t' ++ [u'], i, 0, 0, by unfold exec; simp [hi, hn, hs, hr']⟩
      cases hins : n.instr with
      | ret => rw [hins] at he; cases he
      | acq l m =>
        obtain ⟨s, hs⟩ := wf_succ_ne hw hn (by rw [hins]; intro h; cases h)
        apply hstep s hs
        rw [hins] at he
        have hf : free c (S.lockInst l t.chk t.cur) m = true := by
          cases m with
          | w => simpa using he
          | r => simp only [Bool.and_eq_true] at he; exact he.1
        exact ⟨_, by unfold stepThread; rw [hins]; simp only; rw [if_pos hf]⟩
      | rel l m =>
        obtain ⟨s, hs⟩ := wf_succ_ne hw hn (by rw [hins]; intro h; cases h)
        apply hstep s hs
        obtain ⟨h', htr, _⟩ := cons_node hc hn
        rw [hins] at htr
        simp only [transfer] at htr
        split at htr
        · rename_i hmem
          have := mem_held_of_ann hm hres hmem
          exact ⟨_, by unfold stepThread; rw [hins]; simp only; rw [if_pos this]⟩
        · cases htr
      | rd f =>
        obtain ⟨s, hs⟩ := wf_succ_ne hw hn (by rw [hins]; intro h; cases h)
        exact hstep s hs ⟨_, by unfold stepThread; rw [hins]⟩
      | wr f =>
        obtain ⟨s, hs⟩ := wf_succ_ne hw hn (by rw [hins]; intro h; cases h)
        exact hstep s hs ⟨_, by unfold stepThread; rw [hins]⟩
      | nop =>
        obtain ⟨s, hs⟩ := wf_succ_ne hw hn (by rw [hins]; intro h; cases h)
        exact hstep s hs ⟨_, by unfold stepThread; rw [hins]⟩
      | pick =>
        obtain ⟨s, hs⟩ := wf_succ_ne hw hn (by rw [hins]; intro h; cases h)
        exact hstep s hs ⟨_, by unfold stepThread; rw [hins]⟩
      | spawn q =>
        obtain ⟨s, hs⟩ := wf_succ_ne hw hn (by rw [hins]; intro h; cases h)
        obtain ⟨P, hP⟩ := wf_spawn hw hn hins
        exact hstep s hs ⟨_, by unfold stepThread; rw [hins]; simp only; rw [hP]⟩

/-- No deadlock: a reachable configuration with an unfinished thread has a successor. -/
theorem no_deadlock {S : Sys} (hw : S.wf = true) (hc : S.consistent = true) (ho : S.ordered = true)
    {c : Config} (hr : Reachable S c) (hu : Unfinished S c) : ∃ c', Step S c c' := by
  obtain ⟨i, he⟩ := progress hc ho hr hu
  exact strictEnabled_step hw hc hr he

/-! ### race freedom -/

theorem lockset_access {S : Sys} {g f : Nat} (hl : S.locksetField g f = true)
    (hwr : S.hasWrite f = true) {p pc : Nat} {n : Node} (hn : S.node p pc = some n) :
    (n.instr = .rd f → ∃ m, (g, m) ∈ n.held) ∧ (n.instr = .wr f → (g, .w) ∈ n.held) := by
  unfold Sys.locksetField at hl
  rw [Bool.and_eq_true, Bool.or_eq_true] at hl
  obtain ⟨_, hl⟩ := hl
  rcases hl with hl | hl
  · rw [hwr] at hl; cases hl
  · obtain ⟨P, hP, hn'⟩ := node_some hn
    rw [List.all_eq_true] at hl
    have h1 := hl P (List.mem_of_getElem? hP)
    rw [List.all_eq_true] at h1
    have h2 := h1 n (List.mem_of_getElem? hn')
    constructor
    · intro hi
      rw [hi] at h2
      simp only [bne_self_eq_false, Bool.false_or, List.any_eq_true, beq_iff_eq] at h2
      obtain ⟨x, hx, hxe⟩ := h2
      exact ⟨x.2, by rw [← hxe]; exact hx⟩
    · intro hi
      rw [hi] at h2
      simp only [bne_self_eq_false, Bool.false_or, List.any_eq_true, Bool.and_eq_true, beq_iff_eq] at h2
      obtain ⟨x, hx, hxe, hxm⟩ := h2
      have : x = (g, Mode.w) := Prod.ext hxe hxm
      rw [← this]; exact hx

theorem hasWrite_of_node {S : Sys} {p pc f : Nat} {n : Node} (hn : S.node p pc = some n)
    (hi : n.instr = .wr f) : S.hasWrite f = true := by
  obtain ⟨P, hP, hn'⟩ := node_some hn
  unfold Sys.hasWrite
  rw [List.any_eq_true]
  refine ⟨P, List.mem_of_getElem? hP, ?_⟩
  rw [List.any_eq_true]
  exact ⟨n, List.mem_of_getElem? hn', by simp [hi]⟩

/-- What a thread about to access field class `f` holds, given the lockset discipline. -/
theorem access_holds {S : Sys} {g f : Nat} (hl : S.locksetField g f = true) (hwr : S.hasWrite f = true)
    {t : Thread} (hok : ThreadOk S t) {x : Inst} {w : Bool} (ha : access S t = some (x, w)) (hx : x.cls = f) :
    x = S.fieldInst f t.chk t.cur ∧
      ∃ m, (S.lockInst g t.chk t.cur, m) ∈ t.held ∧ (w = true → m = .w) := by
  obtain ⟨n, hn, hm, hres⟩ := hok
  unfold access at ha
  rw [hn] at ha; simp only at ha
  cases hi : n.instr with
  | rd f' =>
    rw [hi] at ha; simp only [Option.some.injEq, Prod.mk.injEq] at ha
    obtain ⟨hxe, hwe⟩ := ha
    have hf : f' = f := by rw [← hx, ← hxe, fieldInst_cls]
    subst hf
    obtain ⟨m, hmem⟩ := (lockset_access hl hwr hn).1 hi
    exact ⟨hxe.symm, m, mem_held_of_ann hm hres hmem, by intro hw; rw [← hwe] at hw; cases hw⟩
  | wr f' =>
    rw [hi] at ha; simp only [Option.some.injEq, Prod.mk.injEq] at ha
    obtain ⟨hxe, _⟩ := ha
    have hf : f' = f := by rw [← hx, ← hxe, fieldInst_cls]
    subst hf
    have hmem := (lockset_access hl hwr hn).2 hi
    exact ⟨hxe.symm, .w, mem_held_of_ann hm hres hmem, fun _ => rfl⟩
  | acq _ _ => rw [hi] at ha; cases ha
  | rel _ _ => rw [hi] at ha; cases ha
  | spawn _ => rw [hi] at ha; cases ha
  | pick => rw [hi] at ha; cases ha
  | nop => rw [hi] at ha; cases ha
  | ret => rw [hi] at ha; cases ha

theorem access_write_node {S : Sys} {t : Thread} {x : Inst} (ha : access S t = some (x, true)) :
    S.hasWrite x.cls = true := by
  unfold access at ha
  cases hn : S.node t.prog t.pc with
  | none => rw [hn] at ha; cases ha
  | some n =>
    rw [hn] at ha; simp only at ha
    cases hi : n.instr with
    | wr f =>
      rw [hi] at ha; simp only [Option.some.injEq, Prod.mk.injEq] at ha
      rw [← ha.1, fieldInst_cls]
      exact hasWrite_of_node hn hi
    | rd f => rw [hi] at ha; simp at ha
    | acq _ _ => rw [hi] at ha; cases ha
    | rel _ _ => rw [hi] at ha; cases ha
    | spawn _ => rw [hi] at ha; cases ha
    | pick => rw [hi] at ha; cases ha
    | nop => rw [hi] at ha; cases ha
    | ret => rw [hi] at ha; cases ha

/-- **race_free.** If field class `f` obeys the lockset discipline with guard class `g` (every
access of a written field holds the guard, writes hold it exclusively, and the guard instance is
determined by the field instance), then no reachable configuration has two distinct threads both
about to perform conflicting accesses to the same instance of `f`. -/
theorem race_free {S : Sys} (hc : S.consistent = true) {g f : Nat} (hl : S.locksetField g f = true)
    {c : Config} (hr : Reachable S c) : ¬ ConflictEnabled S c f := by
  intro ⟨i, j, ti, tj, x, wi, wj, hij, hi, hj, hai, haj, hxf, hw⟩
  have hinv := reachable_inv hc hr
  have hex := reachable_excl hr
  have hoki := hinv ti (List.mem_of_getElem? hi)
  have hokj := hinv tj (List.mem_of_getElem? hj)
  have hwr : S.hasWrite f = true := by
    rcases hw with rfl | rfl
    · rw [← hxf]; exact access_write_node hai
    · rw [← hxf]; exact access_write_node haj
  obtain ⟨hxi, mi, hmi, hwi⟩ := access_holds hl hwr hoki hai hxf
  obtain ⟨hxj, mj, hmj, hwj⟩ := access_holds hl hwr hokj haj hxf
  have hsc : scopeLe (S.lscope g) (S.fscope f) = true := by
    unfold Sys.locksetField at hl
    rw [Bool.and_eq_true] at hl
    exact hl.1
  have hlid : S.lockInst g ti.chk ti.cur = S.lockInst g tj.chk tj.cur :=
    inst_scopeLe hsc (by rw [← hxi, ← hxj] : S.fieldInst f ti.chk ti.cur = S.fieldInst f tj.chk tj.cur)
  have h1 : (S.lockInst g ti.chk ti.cur, mi) ∈ heldOf c i := by unfold heldOf; rw [hi]; exact hmi
  have h2 : (S.lockInst g tj.chk tj.cur, mj) ∈ heldOf c j := by unfold heldOf; rw [hj]; exact hmj
  have := hex i j hij _ h1 _ h2 hlid
  rcases hw with rfl | rfl
  · have := hwi rfl; simp_all
  · have := hwj rfl; simp_all

/-! ### replaying a schedule -/

theorem runSched_reachable {S : Sys} : ∀ (sched : List (Nat × Nat × Nat)) (c c' : Config),
    Reachable S c → runSched S c sched = some c' → Reachable S c'
  | [], c, c', hr, h => by simp [runSched] at h; subst h; exact hr
  | (i, ch, pv) :: rest, c, c', hr, h => by
    simp only [runSched] at h
    cases he : exec S c i ch pv with
    | none => rw [he] at h; cases h
    | some c1 =>
      rw [he] at h
      exact runSched_reachable rest c1 c' (Reachable.step hr ⟨i, ch, pv, he⟩) h

theorem init_start {S : Sys} (ps : List (Nat × Nat × Nat)) (h : ∀ p ∈ ps, p.1 < S.progs.length) :
    Init S (ps.map fun p => startThread S p.1 p.2.1 p.2.2) := by
  intro t ht
  obtain ⟨p, hp, rfl⟩ := List.mem_map.mp ht
  have hlt := h p hp
  refine ⟨rfl, S.progs[p.1], by simp [startThread, hlt], ?_⟩
  simp [startThread, List.getD, hlt]

theorem conflictNow_sound {S : Sys} {c : Config} {i j f : Nat} (h : conflictNow S c i j f = true) :
    ConflictEnabled S c f := by
  unfold conflictNow at h
  rw [Bool.and_eq_true] at h
  obtain ⟨hij, h⟩ := h
  cases hi : c[i]? with
  | none => rw [hi] at h; simp at h
  | some ti =>
    cases hj : c[j]? with
    | none => rw [hi, hj] at h; simp at h
    | some tj =>
      rw [hi, hj] at h; simp only at h
      cases hai : access S ti with
      | none => rw [hai] at h; simp at h
      | some a =>
        cases haj : access S tj with
        | none => rw [hai, haj] at h; simp at h
        | some b =>
          obtain ⟨x, wi⟩ := a
          obtain ⟨y, wj⟩ := b
          rw [hai, haj] at h
          simp only [Bool.and_eq_true, beq_iff_eq, Bool.or_eq_true] at h
          obtain ⟨⟨hxy, hf⟩, hw⟩ := h
          subst hxy
          exact ⟨i, j, ti, tj, x, wi, wj, by simpa using hij, hi, hj, hai, haj, hf, hw⟩

end Crv.Locks
