import Crv.Disk
import Crv.Proofs.PathsOps
/-! Lemmas for C12: database images, restart on the extensional view. -/
namespace Crv.Disk
open Crv.Paths Crv.Generated

theorem get_filter_ne (img : DbImage) (k k' : DbKey) (h : k' ≠ k) :
    DbImage.get (img.filter (fun e => e.1 ≠ k)) k' = DbImage.get img k' := by
  induction img with
  | nil => rfl
  | cons e rest ih =>
    obtain ⟨a, b⟩ := e
    by_cases ha : a = k
    · have e1 : List.filter (fun e => decide (e.1 ≠ k)) ((a, b) :: rest) = List.filter (fun e => decide (e.1 ≠ k)) rest := by
        simp [ha]
      rw [e1, ih]
      have : ¬ a = k' := fun e => h (e ▸ ha)
      simp [DbImage.get, this]
    · have e1 : List.filter (fun e => decide (e.1 ≠ k)) ((a, b) :: rest) = (a, b) :: List.filter (fun e => decide (e.1 ≠ k)) rest := by
        simp [ha]
      rw [e1]
      simp only [DbImage.get]
      split
      · rfl
      · exact ih

theorem get_put (img : DbImage) (k k' : DbKey) (v : Nat) :
    (img.put k v).get k' = if k' = k then some v else img.get k' := by
  simp only [DbImage.put, DbImage.get]
  by_cases h : k = k'
  · subst h; simp
  · have h' : ¬ k' = k := fun e => h e.symm
    simp only [h, ↓reduceIte, h']
    exact get_filter_ne img k k' h'

theorem get_writeAll_not_mem (img : DbImage) (ws : List (DbKey × Nat)) (k : DbKey) (h : k ∉ ws.map (·.1)) :
    (writeAll img ws).get k = img.get k := by
  induction ws generalizing img with
  | nil => rfl
  | cons w ws ih =>
    simp only [List.map_cons, List.mem_cons, not_or] at h
    simp only [writeAll, List.foldl_cons] at ih ⊢
    rw [ih _ h.2, get_put, if_neg h.1]

theorem get_writeAll_mem (img : DbImage) (ws : List (DbKey × Nat)) (k : DbKey) (h : k ∈ ws.map (·.1)) :
    ((writeAll img ws).get k).isSome = true := by
  induction ws generalizing img with
  | nil => cases h
  | cons w ws ih =>
    simp only [writeAll, List.foldl_cons] at ih ⊢
    by_cases hk : k ∈ ws.map (·.1)
    · exact ih _ hk
    · have : (writeAll (img.put w.1 w.2) ws).get k = (img.put w.1 w.2).get k := get_writeAll_not_mem _ _ _ hk
      simp only [writeAll] at this
      rw [this, get_put]
      simp only [List.map_cons, List.mem_cons] at h
      rcases h with h | h
      · simp [h]
      · exact absurd h hk

theorem readWrites_keys (d : Doc) :
    (readWrites d).map (·.1) = DbKey.metaInfo :: d.serials.map DbKey.entry ++ [DbKey.extMeta] := by
  simp [readWrites, headWrites, List.map_map, Function.comp_def]

/-- A complete image carries the meta record … -/
theorem stagedImage_loaded (sc : Scn) (d : Doc) (wl sg : Bool) : ((stagedImage sc d wl sg).get .metaInfo).isSome = true := by
  have h : ∀ i0, ((writeAll i0 (readWrites d)).get .metaInfo).isSome = true :=
    fun i0 => get_writeAll_mem i0 _ _ (by rw [readWrites_keys]; simp)
  unfold stagedImage
  cases sg
  · exact h _
  · simp only [↓reduceIte]; rw [get_put]; simpa [writeAll] using h _

/-- … and lists exactly the serials of its document. -/
theorem stagedImage_listed (sc : Scn) (d : Doc) (wl sg : Bool) (x : Nat) :
    listed (stagedImage sc d wl sg) x = true ↔ x ∈ d.serials := by
  have hmem : DbKey.entry x ∈ (readWrites d).map (·.1) ↔ x ∈ d.serials := by
    rw [readWrites_keys]; simp
  have h : ∀ i0 : DbImage, i0.get (.entry x) = none → (((writeAll i0 (readWrites d)).get (.entry x)).isSome = true ↔ x ∈ d.serials) := by
    intro i0 hi
    by_cases hx : x ∈ d.serials
    · simp [hx, get_writeAll_mem i0 _ _ (hmem.mpr hx)]
    · rw [get_writeAll_not_mem i0 _ _ (fun e => hx (hmem.mp e)), hi]; simp [hx]
  have h0 : ∀ wl : Bool, DbImage.get (if wl then DbImage.put [] DbKey.locations sc.loc else []) (.entry x) = none := by
    intro wl; cases wl <;> simp [DbImage.get, DbImage.put]
  unfold listed stagedImage
  cases sg
  · exact h _ (h0 wl)
  · simp only [↓reduceIte]; rw [get_put]; simpa [writeAll] using h _ (h0 wl)

theorem fullImage_eq (sc : Scn) (d : Doc) (sg : Bool) : stagedImage sc d true sg = fullImage sc.loc d sg := rfl

/-! ### restart -/

theorem get_restart (F : Facts) (id : Name) (fs : Fs) :
    Fs.get (restart F id fs) = (Step.openStore id).applyF (sweepF F (Fs.get fs)) := by
  simp [restart, get_apply, get_sweep]

theorem restart_temp (F : Facts) (id : Name) (fs : Fs) (n : Name) (hn : matchesTemp F n = true) (hid : matchesTemp F id = false) :
    Fs.get (restart F id fs) n = none := by
  have hne : n ≠ id := fun e => by rw [e, hid] at hn; cases hn
  rw [get_restart, applyF_frame _ _ _ (by simpa [Step.names] using hne)]
  simp [sweepF, hn]

theorem restart_other (F : Facts) (id : Name) (fs : Fs) (n : Name) (hn : matchesTemp F n = false) (hne : n ≠ id) :
    Fs.get (restart F id fs) n = Fs.get fs n := by
  rw [get_restart, applyF_frame _ _ _ (by simpa [Step.names] using hne)]
  simp [sweepF, hn]

theorem restart_live (F : Facts) (id : Name) (fs : Fs) (hid : matchesTemp F id = false) :
    Fs.get (restart F id fs) id = match Fs.get fs id with | none => some (.dir []) | some x => some x := by
  rw [get_restart]
  have hs : sweepF F (Fs.get fs) id = Fs.get fs id := by simp [sweepF, hid]
  simp only [Step.applyF, hs]
  cases h : Fs.get fs id with
  | none => simp
  | some x => simp only []; exact hs.trans h

theorem image_restart (F : Facts) (id : Name) (fs : Fs) (hid : matchesTemp F id = false) :
    image (restart F id fs) id = match Fs.get fs id with | none => some [] | some (.dir img) => some img | some .file => none := by
  unfold image
  rw [restart_live F id fs hid]
  cases h : Fs.get fs id with
  | none => rfl
  | some x => cases x <;> rfl

end Crv.Disk
