import Crv.Chunk
/-!
Lemmas about the chunked reader model (`Crv/Chunk.lean`): one-step specifications of the underlying read,
`fill`, `bufio.Reader.Read`, the wrapper's `Read`, and the loop invariants of `ReadExpectedBytesRecursive`,
`Peek` and `Discard`, including the sufficiency of the fuel each loop is given.
-/
namespace Crv.Chunk

/-! ### the underlying reader -/

theorem srcRead_spec (m : Nat) (src : List Bytes) (hne : ∀ c ∈ src, c ≠ []) (hm : 0 < m) :
    (srcRead m src).1 ++ (srcRead m src).2.1.flatten = src.flatten ∧
    (∀ c ∈ (srcRead m src).2.1, c ≠ []) ∧
    (srcRead m src).1.length ≤ m ∧
    ((srcRead m src).2.2 = true → src = [] ∧ (srcRead m src).1 = [] ∧ (srcRead m src).2.1 = []) ∧
    ((srcRead m src).2.2 = false → (srcRead m src).1 ≠ []) := by
  cases src with
  | nil => simp [srcRead]
  | cons c rest =>
    have hc : c ≠ [] := hne c (by simp)
    have hrest : ∀ c ∈ rest, c ≠ [] := fun x hx => hne x (by simp [hx])
    have hlen : 0 < c.length := List.ne_nil_iff_length_pos.mp hc
    by_cases h : c.length ≤ m
    · have e : srcRead m (c :: rest) = (c, rest, false) := by simp [srcRead, h]
      rw [e]
      refine ⟨by simp, hrest, h, by simp, fun _ => hc⟩
    · have e : srcRead m (c :: rest) = (c.take m, c.drop m :: rest, false) := by simp [srcRead, h]
      rw [e]
      refine ⟨?_, ?_, ?_, by simp, ?_⟩
      · simp [List.flatten_cons, ← List.append_assoc, List.take_append_drop]
      · intro x hx
        simp only [List.mem_cons] at hx
        rcases hx with hx | hx
        · subst hx
          apply List.ne_nil_iff_length_pos.mpr
          simp only [List.length_drop]; omega
        · exact hrest x hx
      · simp only [List.length_take]; omega
      · intro _
        apply List.ne_nil_iff_length_pos.mpr
        simp only [List.length_take]; omega

theorem srcRead_eof_iff (m : Nat) (src : List Bytes) : (srcRead m src).2.2 = true ↔ src = [] := by
  cases src with
  | nil => simp [srcRead]
  | cons c rest => unfold srcRead; by_cases h : c.length ≤ m <;> simp [h]

/-! ### `fill` -/

/-- Fields no operation on the byte source touches. -/
def SameW (s s' : St) : Prop :=
  s'.cap = s.cap ∧ s'.pos = s.pos ∧ s'.hashing = s.hashing ∧ s'.hashed = s.hashed ∧
  s'.allocs = s.allocs ∧ s'.parts = s.parts

theorem SameW.refl (s : St) : SameW s s := ⟨rfl, rfl, rfl, rfl, rfl, rfl⟩

theorem SameW.trans {a b c : St} (h1 : SameW a b) (h2 : SameW b c) : SameW a c := by
  obtain ⟨a1, a2, a3, a4, a5, a6⟩ := h1
  obtain ⟨b1, b2, b3, b4, b5, b6⟩ := h2
  exact ⟨b1.trans a1, b2.trans a2, b3.trans a3, b4.trans a4, b5.trans a5, b6.trans a6⟩

theorem fill_spec (s : St) (wf : WF s) (hroom : s.buf.length < s.cap) :
    flat (fill s) = flat s ∧ WF (fill s) ∧ SameW s (fill s) ∧
    (fill s).srcReads = s.srcReads + 1 ∧
    (((fill s).err = true ∧ (fill s).buf = s.buf) ∨
     ((fill s).err = s.err ∧ s.buf.length < (fill s).buf.length)) ∧
    (s.src = [] → (fill s).err = true) := by
  obtain ⟨hne, hst, hcap⟩ := wf
  have hm : 0 < s.cap - s.buf.length := by omega
  obtain ⟨h1, h2, _, h4, h5⟩ := srcRead_spec (s.cap - s.buf.length) s.src hne hm
  refine ⟨?_, ⟨?_, ?_, ?_⟩, ⟨rfl, rfl, rfl, rfl, rfl, rfl⟩, rfl, ?_, ?_⟩
  · simp only [flat, fill, List.append_assoc, h1]
  · exact h2
  · intro he
    simp only [fill, Bool.or_eq_true] at he
    rcases he with he | he
    · exact (h4 he).2.2
    · have := hst he
      simp only [fill]
      have he' := (srcRead_eof_iff (s.cap - s.buf.length) s.src).mpr this
      exact (h4 he').2.2
  · exact hcap
  · cases he : (srcRead (s.cap - s.buf.length) s.src).2.2
    · right
      have hd := List.ne_nil_iff_length_pos.mp (h5 he)
      simp only [fill, he, Bool.false_or, List.length_append, true_and]
      omega
    · left
      simp only [fill, he, Bool.true_or, true_and, (h4 he).2.1, List.append_nil]
  · intro hs
    have he' := (srcRead_eof_iff (s.cap - s.buf.length) s.src).mpr hs
    simp [fill, he']

/-! ### `bufio.Reader.Read` -/

/-- Fields `bufio.Reader.Read` does not touch. -/
theorem bRead_sameW (m : Nat) (s : St) : SameW s (bRead m s).2 := by
  unfold bRead
  dsimp only
  repeat' split
  all_goals exact ⟨rfl, rfl, rfl, rfl, rfl, rfl⟩

/-- `Read(p)` with `len p = 0`: no byte, no underlying read; the pending error is returned (and cleared) when the
buffer is empty. -/
theorem bRead_zero (s : St) (wf : WF s) :
    (bRead 0 s).1 = ([], s.buf = [] && s.err) ∧ flat (bRead 0 s).2 = flat s ∧ WF (bRead 0 s).2 ∧
    (bRead 0 s).2.srcReads = s.srcReads ∧ ((bRead 0 s).2.err = true → s.err = true) := by
  obtain ⟨hne, hst, hcap⟩ := wf
  by_cases hb : s.buf = []
  · have e : bRead 0 s = (([], s.err), { s with err := false }) := by
      unfold bRead; rw [if_pos rfl, if_neg (by simp [hb])]
    rw [e]
    refine ⟨by simp [hb], rfl, ⟨hne, fun h => by simp at h, hcap⟩, rfl, fun h => by simp at h⟩
  · have e : bRead 0 s = (([], false), s) := by
      unfold bRead; rw [if_pos rfl, if_pos hb]
    rw [e]
    refine ⟨by simp [hb], rfl, ⟨hne, hst, hcap⟩, rfl, fun h => h⟩

/-- `Read(p)` with `len p = m > 0` under `WF`: either `(0, io.EOF)` and there is no input left at all, or a
non-empty prefix of the unread input of at most `m` bytes; at most one underlying `Read`. -/
theorem bRead_pos (m : Nat) (s : St) (wf : WF s) (hm : 0 < m) :
    WF (bRead m s).2 ∧
    ((bRead m s).1.2 = true → flat s = [] ∧ flat (bRead m s).2 = [] ∧ (bRead m s).1.1 = []) ∧
    ((bRead m s).1.2 = false →
      (bRead m s).1.1 ≠ [] ∧ (bRead m s).1.1.length ≤ m ∧ (bRead m s).1.1 ++ flat (bRead m s).2 = flat s) ∧
    (bRead m s).2.srcReads ≤ s.srcReads + 1 ∧
    ((bRead m s).2.err = true → s.err = true) := by
  obtain ⟨hne, hst, hcap⟩ := wf
  have hm0 : ¬ m = 0 := by omega
  by_cases hb : s.buf = []
  · cases he : s.err
    · by_cases hc : s.cap ≤ m
      · have e : bRead m s = (((srcRead m s.src).1, (srcRead m s.src).2.2),
            { s with src := (srcRead m s.src).2.1, srcReads := s.srcReads + 1 }) := by
          unfold bRead; rw [if_neg hm0, if_pos hb, if_neg (by simp [he]), if_pos hc]
        rw [e]
        obtain ⟨h1, h2, h3, h4, h5⟩ := srcRead_spec m s.src hne hm
        refine ⟨⟨h2, fun h => by simp [he] at h, hcap⟩, ?_, ?_, Nat.le_refl _, fun h => by simp [he] at h⟩
        · intro h
          obtain ⟨a, b, c⟩ := h4 h
          exact ⟨by simp [flat, hb, a], by simp [flat, hb, c], b⟩
        · intro h
          exact ⟨h5 h, h3, by simp [flat, hb, h1]⟩
      · have hcp : 0 < s.cap := by omega
        obtain ⟨h1, h2, h3, h4, h5⟩ := srcRead_spec s.cap s.src hne hcp
        by_cases hd : (srcRead s.cap s.src).1 = []
        · have e : bRead m s = (([], (srcRead s.cap s.src).2.2),
              { s with src := (srcRead s.cap s.src).2.1, srcReads := s.srcReads + 1 }) := by
            unfold bRead; rw [if_neg hm0, if_pos hb, if_neg (by simp [he]), if_neg hc]; dsimp only; rw [if_pos hd]
          rw [e]
          have heof : (srcRead s.cap s.src).2.2 = true := by
            cases hx : (srcRead s.cap s.src).2.2
            · exact absurd hd (h5 hx)
            · rfl
          obtain ⟨a, _, c⟩ := h4 heof
          refine ⟨⟨h2, fun h => by simp [he] at h, hcap⟩, ?_, ?_, Nat.le_refl _, fun h => by simp [he] at h⟩
          · intro _; exact ⟨by simp [flat, hb, a], by simp [flat, hb, c], rfl⟩
          · intro h; rw [heof] at h; exact absurd h (by simp)
        · have e : bRead m s = (((srcRead s.cap s.src).1.take m, false),
              { s with buf := (srcRead s.cap s.src).1.drop m, src := (srcRead s.cap s.src).2.1,
                       srcReads := s.srcReads + 1 }) := by
            unfold bRead; rw [if_neg hm0, if_pos hb, if_neg (by simp [he]), if_neg hc]; dsimp only; rw [if_neg hd]
          rw [e]
          have hdl := List.ne_nil_iff_length_pos.mp hd
          refine ⟨⟨h2, fun h => by simp [he] at h, hcap⟩, fun h => by simp at h, ?_, Nat.le_refl _,
            fun h => by simp [he] at h⟩
          intro _
          refine ⟨?_, ?_, ?_⟩
          · apply List.ne_nil_iff_length_pos.mpr
            simp only [List.length_take]; omega
          · simp only [List.length_take]; omega
          · simp only [flat, hb, List.nil_append, ← List.append_assoc, List.take_append_drop, h1]
    · have hsrc := hst he
      have e : bRead m s = (([], true), { s with err := false }) := by
        unfold bRead; rw [if_neg hm0, if_pos hb, if_pos he]
      rw [e]
      refine ⟨⟨hne, fun h => by simp at h, hcap⟩, ?_, fun h => by simp at h, by simp, fun _ => rfl⟩
      intro _; exact ⟨by simp [flat, hb, hsrc], by simp [flat, hb, hsrc], rfl⟩
  · have e : bRead m s = ((s.buf.take m, false), { s with buf := s.buf.drop m }) := by
      unfold bRead; rw [if_neg hm0, if_neg hb]
    rw [e]
    have hbl := List.ne_nil_iff_length_pos.mp hb
    refine ⟨⟨hne, hst, hcap⟩, fun h => by simp at h, ?_, by simp, fun h => h⟩
    intro _
    refine ⟨?_, ?_, ?_⟩
    · apply List.ne_nil_iff_length_pos.mpr
      simp only [List.length_take]; omega
    · simp only [List.length_take]; omega
    · simp only [flat, ← List.append_assoc, List.take_append_drop]

/-! ### the wrapper's `Read` -/

theorem wRead_fst (m : Nat) (s : St) : (wRead m s).1 = (bRead m s).1 := by
  unfold wRead; dsimp only; split <;> rfl

theorem wRead_snd (m : Nat) (s : St) :
    (wRead m s).2 = { (bRead m s).2 with
      pos := (bRead m s).2.pos + (bRead m s).1.1.length
      parts := (bRead m s).2.parts ++ [(bRead m s).1.1.length]
      hashed := if s.hashing && !(bRead m s).1.2 then (bRead m s).2.hashed ++ (bRead m s).1.1
                else (bRead m s).2.hashed } := by
  unfold wRead; dsimp only; split <;> rename_i h <;> simp_all

/-- What one wrapper `Read` does to the fields outside the byte source. -/
theorem wRead_fields (m : Nat) (s : St) :
    (wRead m s).2.cap = s.cap ∧ (wRead m s).2.hashing = s.hashing ∧ (wRead m s).2.allocs = s.allocs ∧
    (wRead m s).2.parts = s.parts ++ [(wRead m s).1.1.length] ∧
    (wRead m s).2.pos = s.pos + (wRead m s).1.1.length ∧
    (wRead m s).2.srcReads = (bRead m s).2.srcReads ∧ (wRead m s).2.err = (bRead m s).2.err ∧
    flat (wRead m s).2 = flat (bRead m s).2 ∧ (WF (wRead m s).2 ↔ WF (bRead m s).2) ∧
    (wRead m s).2.hashed = (if s.hashing && !(wRead m s).1.2 then s.hashed ++ (wRead m s).1.1 else s.hashed) := by
  obtain ⟨a1, a2, a3, a4, a5, a6⟩ := bRead_sameW m s
  rw [wRead_fst, wRead_snd]
  refine ⟨a1, a3, a5, ?_, ?_, rfl, rfl, rfl, Iff.rfl, ?_⟩
  · simp [a6]
  · simp [a2]
  · simp [a4]

theorem wRead_pos (m : Nat) (s : St) (wf : WF s) (hm : 0 < m) :
    WF (wRead m s).2 ∧
    ((wRead m s).1.2 = true →
      flat s = [] ∧ flat (wRead m s).2 = [] ∧ (wRead m s).1.1 = [] ∧ (wRead m s).2.hashed = s.hashed) ∧
    ((wRead m s).1.2 = false →
      (wRead m s).1.1 ≠ [] ∧ (wRead m s).1.1.length ≤ m ∧ (wRead m s).1.1 ++ flat (wRead m s).2 = flat s ∧
      (wRead m s).2.hashed = (if s.hashing then s.hashed ++ (wRead m s).1.1 else s.hashed)) ∧
    (wRead m s).2.srcReads ≤ s.srcReads + 1 ∧
    ((wRead m s).2.err = true → s.err = true) := by
  obtain ⟨b1, b2, b3, b4, b5⟩ := bRead_pos m s wf hm
  obtain ⟨_, _, _, _, _, f6, f7, f8, f9, f10⟩ := wRead_fields m s
  rw [f6, f7, f8, f10]
  rw [wRead_fst] at *
  refine ⟨f9.mpr b1, ?_, ?_, b4, b5⟩
  · intro h
    obtain ⟨x, y, z⟩ := b2 h
    exact ⟨x, y, z, by simp [h]⟩
  · intro h
    obtain ⟨x, y, z⟩ := b3 h
    exact ⟨x, y, z, by simp [h]⟩

theorem wRead_zero (s : St) (wf : WF s) :
    (wRead 0 s).1 = ([], s.buf = [] && s.err) ∧ flat (wRead 0 s).2 = flat s ∧ WF (wRead 0 s).2 ∧
    (wRead 0 s).2.srcReads = s.srcReads ∧ ((wRead 0 s).2.err = true → s.err = true) ∧
    (wRead 0 s).2.hashed = s.hashed := by
  obtain ⟨b1, b2, b3, b4, b5⟩ := bRead_zero s wf
  obtain ⟨_, _, _, _, _, f6, f7, f8, f9, f10⟩ := wRead_fields 0 s
  rw [f6, f7, f8, f10, wRead_fst, b1]
  refine ⟨rfl, b2, f9.mpr b3, b4, b5, ?_⟩
  split <;> simp

/-! ### `ReadExpectedBytesRecursive` -/

theorem readLoop_succ (fuel left : Nat) (acc : Bytes) (s : St) :
    readLoop (fuel + 1) left acc s =
      (if (wRead left { s with allocs := s.allocs ++ [left] }).1.2 then
        (.err .eof, (wRead left { s with allocs := s.allocs ++ [left] }).2)
      else if (wRead left { s with allocs := s.allocs ++ [left] }).1.1.length = left then
        (.ok (acc ++ (wRead left { s with allocs := s.allocs ++ [left] }).1.1),
          (wRead left { s with allocs := s.allocs ++ [left] }).2)
      else readLoop fuel (left - (wRead left { s with allocs := s.allocs ++ [left] }).1.1.length)
        (acc ++ (wRead left { s with allocs := s.allocs ++ [left] }).1.1)
        (wRead left { s with allocs := s.allocs ++ [left] }).2) := rfl

/-- Loop invariant of `ReadExpectedBytesRecursive` for `left > 0`: with fuel `≥ left` the loop never stalls and
returns exactly what the flat model says. -/
theorem readLoop_spec (fuel : Nat) : ∀ (left : Nat) (acc : Bytes) (s : St), WF s → 0 < left → left ≤ fuel →
    WF (readLoop fuel left acc s).2 ∧ (readLoop fuel left acc s).2.cap = s.cap ∧
    (readLoop fuel left acc s).2.hashing = s.hashing ∧
    ((readLoop fuel left acc s).2.err = true → s.err = true) ∧
    (if (flat s).length < left then
      (readLoop fuel left acc s).1 = .err .eof ∧ flat (readLoop fuel left acc s).2 = [] ∧
      (readLoop fuel left acc s).2.pos = s.pos + (flat s).length ∧
      (readLoop fuel left acc s).2.hashed = (if s.hashing then s.hashed ++ flat s else s.hashed)
    else
      (readLoop fuel left acc s).1 = .ok (acc ++ (flat s).take left) ∧
      flat (readLoop fuel left acc s).2 = (flat s).drop left ∧
      (readLoop fuel left acc s).2.pos = s.pos + left ∧
      (readLoop fuel left acc s).2.hashed = (if s.hashing then s.hashed ++ (flat s).take left else s.hashed)) := by
  induction fuel with
  | zero => intro left acc s _ h1 h2; omega
  | succ fuel ih =>
    intro left acc s wf hl hf
    rw [readLoop_succ]
    generalize hs0 : ({ s with allocs := s.allocs ++ [left] } : St) = s0
    have wf0 : WF s0 := by subst hs0; exact wf
    have hflat0 : flat s0 = flat s := by subst hs0; rfl
    have hpos0 : s0.pos = s.pos := by subst hs0; rfl
    have hcap0 : s0.cap = s.cap := by subst hs0; rfl
    have hh0 : s0.hashing = s.hashing := by subst hs0; rfl
    have hhd0 : s0.hashed = s.hashed := by subst hs0; rfl
    have herr0 : s0.err = s.err := by subst hs0; rfl
    obtain ⟨w1, w2, w3, _, w5⟩ := wRead_pos left s0 wf0 hl
    obtain ⟨f1, f2, _, _, f5, _⟩ := wRead_fields left s0
    rw [← hflat0, ← hpos0, ← hcap0, ← hh0, ← hhd0, ← herr0]
    generalize wRead left s0 = r at *
    obtain ⟨⟨d, e⟩, s1⟩ := r
    dsimp only at *
    cases e with
    | true =>
      obtain ⟨x1, x2, x3, x4⟩ := w2 rfl
      rw [if_pos rfl]
      have : (flat s0).length < left := by rw [x1]; exact hl
      rw [if_pos this]
      refine ⟨w1, f1, f2, w5, rfl, x2, ?_, ?_⟩
      · rw [f5, x3, x1]
      · rw [x4, x1]; simp
    | false =>
      obtain ⟨x1, x2, x3, x4⟩ := w3 rfl
      have hdl := List.ne_nil_iff_length_pos.mp x1
      have hlen : (flat s0).length = d.length + (flat s1).length := by rw [← x3]; simp
      rw [if_neg (by simp)]
      by_cases hfull : d.length = left
      · rw [if_pos hfull]
        have : ¬ (flat s0).length < left := by omega
        rw [if_neg this]
        refine ⟨w1, f1, f2, w5, ?_, ?_, ?_, ?_⟩
        · rw [← x3, List.take_left' hfull]
        · rw [← x3, List.drop_left' hfull]
        · rw [f5, hfull]
        · rw [x4, ← x3, List.take_left' hfull]
      · rw [if_neg hfull]
        have hl' : 0 < left - d.length := by omega
        have hf' : left - d.length ≤ fuel := by omega
        obtain ⟨i1, i2, i3, i4, i5⟩ := ih (left - d.length) (acc ++ d) s1 w1 hl' hf'
        refine ⟨i1, i2.trans f1, i3.trans f2, fun h => w5 (i4 h), ?_⟩
        by_cases hshort : (flat s0).length < left
        · have hshort' : (flat s1).length < left - d.length := by omega
          rw [if_pos hshort]
          rw [if_pos hshort'] at i5
          obtain ⟨j1, j2, j3, j4⟩ := i5
          refine ⟨j1, j2, ?_, ?_⟩
          · rw [j3, f5]; omega
          · rw [j4, f2, x4, ← x3]
            cases s0.hashing <;> simp
        · have hshort' : ¬ (flat s1).length < left - d.length := by omega
          rw [if_neg hshort]
          rw [if_neg hshort'] at i5
          obtain ⟨j1, j2, j3, j4⟩ := i5
          have htake : (flat s0).take left = d ++ (flat s1).take (left - d.length) := by
            rw [← x3, List.take_append, List.take_of_length_le (by omega)]
          have hdrop : (flat s0).drop left = (flat s1).drop (left - d.length) := by
            rw [← x3, List.drop_append, List.drop_of_length_le (by omega), List.nil_append]
          refine ⟨?_, ?_, ?_, ?_⟩
          · rw [j1, htake, List.append_assoc]
          · rw [j2, hdrop]
          · rw [j3, f5]; omega
          · rw [j4, f2, x4, htake]
            cases s0.hashing <;> simp

/-- `ReadExpectedBytes(reader, 0)`: one `Read` of an empty slice. It succeeds unless the buffer is empty and an
`io.EOF` is still pending in `b.err` (only a `Peek` beyond the buffer size leaves one). -/
theorem readFull_zero (s : St) (wf : WF s) :
    (readFull 0 s).1 = (if s.buf = [] ∧ s.err = true then .err .eof else .ok []) ∧
    WF (readFull 0 s).2 ∧ flat (readFull 0 s).2 = flat s ∧ (readFull 0 s).2.pos = s.pos ∧
    (readFull 0 s).2.hashed = s.hashed ∧ (readFull 0 s).2.cap = s.cap ∧
    (readFull 0 s).2.hashing = s.hashing ∧ (readFull 0 s).2.srcReads = s.srcReads ∧
    ((readFull 0 s).2.err = true → s.err = true) := by
  unfold readFull
  rw [readLoop_succ]
  generalize hs0 : ({ ({ s with allocs := s.allocs ++ [0] } : St) with
    allocs := ({ s with allocs := s.allocs ++ [0] } : St).allocs ++ [0] } : St) = s0
  have wf0 : WF s0 := by subst hs0; exact wf
  have hflat0 : flat s0 = flat s := by subst hs0; rfl
  have hpos0 : s0.pos = s.pos := by subst hs0; rfl
  have hcap0 : s0.cap = s.cap := by subst hs0; rfl
  have hh0 : s0.hashing = s.hashing := by subst hs0; rfl
  have hhd0 : s0.hashed = s.hashed := by subst hs0; rfl
  have herr0 : s0.err = s.err := by subst hs0; rfl
  have hbuf0 : s0.buf = s.buf := by subst hs0; rfl
  have hsr0 : s0.srcReads = s.srcReads := by subst hs0; rfl
  obtain ⟨z1, z2, z3, z4, z5, z6⟩ := wRead_zero s0 wf0
  obtain ⟨f1, f2, _, _, f5, _⟩ := wRead_fields 0 s0
  rw [← hflat0, ← hpos0, ← hcap0, ← hh0, ← hhd0, ← herr0, ← hbuf0, ← hsr0]
  generalize wRead 0 s0 = r at *
  obtain ⟨⟨d, e⟩, s1⟩ := r
  dsimp only at *
  injection z1 with zd ze
  subst zd
  by_cases hc : s0.buf = [] ∧ s0.err = true
  · have : e = true := by rw [ze]; simp [hc.1, hc.2]
    subst this
    rw [if_pos rfl, if_pos hc]
    exact ⟨rfl, z3, z2, by simpa using f5, z6, f1, f2, z4, z5⟩
  · have : e = false := by
      rw [ze]
      cases hb : decide (s0.buf = []) <;> cases he : s0.err <;> simp_all
    subst this
    rw [if_neg (by simp), if_pos (by simp), if_neg hc]
    exact ⟨rfl, z3, z2, by simpa using f5, z6, f1, f2, z4, z5⟩

/-! ### `Peek` -/

theorem peekLoop_succ (fuel n : Nat) (s : St) :
    peekLoop (fuel + 1) n s =
      if s.buf.length < n ∧ s.buf.length < s.cap ∧ s.err = false then peekLoop fuel n (fill s) else s := rfl

/-- The fill loop of `Peek`: with fuel `≥ n - buffered` it runs to its exit condition; it never changes the
unread input, only moves it from the source into the buffer; a pending error appears only when the buffer
stays short of `n`. -/
theorem peekLoop_spec (fuel : Nat) : ∀ (n : Nat) (s : St), WF s → (n - s.buf.length ≤ fuel ∨ s.err = true) →
    flat (peekLoop fuel n s) = flat s ∧ WF (peekLoop fuel n s) ∧ SameW s (peekLoop fuel n s) ∧
    ¬ ((peekLoop fuel n s).buf.length < n ∧ (peekLoop fuel n s).buf.length < (peekLoop fuel n s).cap ∧
        (peekLoop fuel n s).err = false) ∧
    ((peekLoop fuel n s).err = true → s.err = true ∨ (peekLoop fuel n s).buf.length < n) ∧
    s.srcReads ≤ (peekLoop fuel n s).srcReads ∧ (peekLoop fuel n s).srcReads ≤ s.srcReads + fuel := by
  induction fuel with
  | zero =>
    intro n s wf h
    refine ⟨rfl, wf, SameW.refl s, ?_, fun h => Or.inl h, Nat.le_refl _, Nat.le_refl _⟩
    simp only [peekLoop]
    rcases h with h | h
    · omega
    · simp [h]
  | succ fuel ih =>
    intro n s wf h
    rw [peekLoop_succ]
    by_cases hc : s.buf.length < n ∧ s.buf.length < s.cap ∧ s.err = false
    · rw [if_pos hc]
      obtain ⟨g1, g2, g3, g4, g5, _⟩ := fill_spec s wf hc.2.1
      have hfuel : n - (fill s).buf.length ≤ fuel ∨ (fill s).err = true := by
        rcases g5 with g5 | g5
        · exact Or.inr g5.1
        · rcases h with h | h
          · left; omega
          · rw [hc.2.2] at h; exact absurd h (by simp)
      obtain ⟨i1, i2, i3, i4, i5, i6, i7⟩ := ih n (fill s) g2 hfuel
      refine ⟨i1.trans g1, i2, SameW.trans g3 i3, i4, ?_, by omega, by omega⟩
      intro he
      rcases i5 he with h5 | h5
      · rcases g5 with g5 | g5
        · -- the EOF fill: buffer unchanged and short, and the loop stops right there
          right
          cases fuel with
          | zero => simp only [peekLoop]; rw [g5.2]; exact hc.1
          | succ f =>
            rw [peekLoop_succ, if_neg (by simp [g5.1])]
            rw [g5.2]; exact hc.1
        · rw [g5.1, hc.2.2] at h5; exact absurd h5 (by simp)
      · exact Or.inr h5
    · rw [if_neg hc]
      exact ⟨rfl, wf, SameW.refl s, hc, fun h => Or.inl h, Nat.le_refl _, by omega⟩

/-- `Peek(n)` for `n ≤ len(b.buf)`: the first `n` unread bytes, or `io.EOF` when fewer remain; the unread input,
position and hash are untouched; no error stays pending that was not pending before. -/
theorem bPeek_spec (n : Nat) (s : St) (wf : WF s) (hn : n ≤ s.cap) :
    flat (bPeek n s).2 = flat s ∧ WF (bPeek n s).2 ∧ SameW s (bPeek n s).2 ∧
    ((bPeek n s).2.err = true → s.err = true) ∧
    (if (flat s).length < n then (bPeek n s).1.2 = some .eof
     else (bPeek n s).1 = ((flat s).take n, none)) ∧
    (bPeek n s).2.srcReads ≤ s.srcReads + n := by
  obtain ⟨p1, p2, p3, p4, p5, _, p7⟩ := peekLoop_spec n n s wf (Or.inl (by omega))
  unfold bPeek
  dsimp only
  generalize peekLoop n n s = s1 at *
  have hcap : s1.cap = s.cap := p3.1
  rw [if_neg (by omega)]
  by_cases hlt : s1.buf.length < n
  · rw [if_pos hlt]
    dsimp only
    have herr : s1.err = true := by
      cases he : s1.err
      · exact absurd ⟨hlt, by omega, he⟩ p4
      · rfl
    have hsrc : s1.src = [] := p2.2.1 herr
    have hflat : flat s = s1.buf := by rw [← p1]; simp [flat, hsrc]
    refine ⟨?_, ⟨p2.1, fun h => by simp at h, p2.2.2⟩, p3, fun h => by simp at h, ?_, p7⟩
    · rw [← p1]; rfl
    · rw [hflat, if_pos hlt, herr]; rfl
  · rw [if_neg hlt]
    dsimp only
    have hlen : ¬ (flat s).length < n := by
      rw [← p1]; simp only [flat, List.length_append]; omega
    refine ⟨p1, p2, p3, ?_, ?_, p7⟩
    · intro h
      rcases p5 h with h5 | h5
      · exact h5
      · exact absurd h5 hlt
    · rw [if_neg hlen, ← p1]
      simp only [flat]
      rw [List.take_append_of_le_length (by omega)]

/-- `Peek(n)` for `n > len(b.buf)`: always `ErrBufferFull`; the unread input is untouched (but as much of it as
fits was pulled into the buffer, and an `io.EOF` met on the way stays pending in `b.err`). -/
theorem bPeek_beyond (n : Nat) (s : St) (wf : WF s) (hn : s.cap < n) :
    (bPeek n s).1.2 = some .bufferFull ∧ flat (bPeek n s).2 = flat s ∧ WF (bPeek n s).2 ∧
    SameW s (bPeek n s).2 := by
  obtain ⟨p1, p2, p3, _⟩ := peekLoop_spec n n s wf (Or.inl (by omega))
  unfold bPeek
  dsimp only
  generalize peekLoop n n s = s1 at *
  have hcap : s1.cap = s.cap := p3.1
  rw [if_pos (by omega)]
  exact ⟨rfl, p1, p2, p3⟩

theorem take_drop_window (l : Bytes) (n off : Nat) :
    ((l.take (n + off)).drop off).take n = (l.drop off).take n := by
  rw [List.drop_take, List.take_take]
  congr 1
  omega

/-! ### `Discard` -/

theorem discLoop_succ (fuel n remain : Nat) (s : St) :
    discLoop (fuel + 1) n remain s =
      (if remain - min (if s.buf = [] then fill s else s).buf.length remain = 0 then
        ((n, false), { (if s.buf = [] then fill s else s) with
          buf := (if s.buf = [] then fill s else s).buf.drop (min (if s.buf = [] then fill s else s).buf.length remain) })
      else if (if s.buf = [] then fill s else s).err then
        ((n - (remain - min (if s.buf = [] then fill s else s).buf.length remain), true),
          { (if s.buf = [] then fill s else s) with
            buf := (if s.buf = [] then fill s else s).buf.drop (min (if s.buf = [] then fill s else s).buf.length remain),
            err := false })
      else discLoop fuel n (remain - min (if s.buf = [] then fill s else s).buf.length remain)
        { (if s.buf = [] then fill s else s) with
          buf := (if s.buf = [] then fill s else s).buf.drop (min (if s.buf = [] then fill s else s).buf.length remain) }) := rfl

/-- Loop invariant of `Discard`: with fuel `≥ remain` the loop terminates by itself; it skips `remain` bytes of the
unread input, or everything and reports `io.EOF` with the exact count when fewer remain. -/
theorem discLoop_spec (fuel : Nat) : ∀ (n remain : Nat) (s : St), WF s → 0 < remain → remain ≤ fuel → remain ≤ n →
    WF (discLoop fuel n remain s).2 ∧ SameW s (discLoop fuel n remain s).2 ∧
    ((discLoop fuel n remain s).2.err = true → s.err = true) ∧
    (discLoop fuel n remain s).2.srcReads ≤ s.srcReads + remain ∧
    (if (flat s).length < remain then
      (discLoop fuel n remain s).1 = (n - remain + (flat s).length, true) ∧ flat (discLoop fuel n remain s).2 = []
    else
      (discLoop fuel n remain s).1 = (n, false) ∧ flat (discLoop fuel n remain s).2 = (flat s).drop remain) := by
  induction fuel with
  | zero => intro n remain s _ h1 h2; omega
  | succ fuel ih =>
    intro n remain s wf hr hf hn
    rw [discLoop_succ]
    -- the state after the optional fill
    have hs1 : ∃ s1, (if s.buf = [] then fill s else s) = s1 ∧ flat s1 = flat s ∧ WF s1 ∧ SameW s s1 ∧
        s1.srcReads ≤ s.srcReads + 1 ∧ (s1.err = false → s1.buf ≠ []) ∧ (s1.err = true → s.err = true ∨ s1.buf = []) := by
      by_cases hb : s.buf = []
      · rw [if_pos hb]
        have hroom : s.buf.length < s.cap := by rw [hb]; have := wf.2.2; simp; omega
        obtain ⟨g1, g2, g3, g4, g5, _⟩ := fill_spec s wf hroom
        refine ⟨fill s, rfl, g1, g2, g3, by omega, ?_, ?_⟩
        · intro he
          rcases g5 with g5 | g5
          · rw [g5.1] at he; exact absurd he (by simp)
          · apply List.ne_nil_iff_length_pos.mpr; omega
        · intro he
          rcases g5 with g5 | g5
          · right; rw [g5.2]; exact hb
          · left; rw [← g5.1]; exact he
      · rw [if_neg hb]
        exact ⟨s, rfl, rfl, wf, SameW.refl s, by omega, fun _ => hb, fun h => Or.inl h⟩
    obtain ⟨s1, e1, q1, q2, q3, q4, q5, q6⟩ := hs1
    rw [e1]
    rw [← q1]
    have hflen : (flat s1).length = s1.buf.length + s1.src.flatten.length := by simp [flat]
    by_cases hdone : remain - min s1.buf.length remain = 0
    · rw [if_pos hdone]
      dsimp only
      have hmin : min s1.buf.length remain = remain := by omega
      have hle : remain ≤ s1.buf.length := by omega
      rw [if_neg (by omega)]
      refine ⟨⟨q2.1, q2.2.1, q2.2.2⟩, q3, ?_, by omega, rfl, ?_⟩
      · intro h
        rcases q6 h with h6 | h6
        · exact h6
        · rw [h6] at hle; simp at hle; omega
      · rw [hmin]; simp only [flat]
        rw [List.drop_append_of_le_length hle]
    · rw [if_neg hdone]
      have hmin : min s1.buf.length remain = s1.buf.length := by omega
      have hlt : s1.buf.length < remain := by omega
      rw [hmin]
      have hdrop : s1.buf.drop s1.buf.length = [] := List.drop_of_length_le (Nat.le_refl _)
      rw [hdrop]
      cases he : s1.err with
      | true =>
        rw [if_pos rfl]
        dsimp only
        have hsrc : s1.src = [] := q2.2.1 he
        have hfl : flat s1 = s1.buf := by simp [flat, hsrc]
        rw [hfl, if_pos hlt]
        refine ⟨⟨q2.1, fun h => by simp at h, q2.2.2⟩, q3, fun h => by simp at h, by omega, ?_, ?_⟩
        · congr 1; omega
        · simp [flat, hsrc]
      | false =>
        rw [if_neg (by simp)]
        have hne := List.ne_nil_iff_length_pos.mp (q5 he)
        generalize hs2 : ({ s1 with buf := [] } : St) = s2
        have wf2 : WF s2 := by subst hs2; exact q2
        have hflat2 : flat s2 = s1.src.flatten := by subst hs2; simp [flat]
        have hsame2 : SameW s1 s2 := by subst hs2; exact ⟨rfl, rfl, rfl, rfl, rfl, rfl⟩
        have herr2 : s2.err = s1.err := by subst hs2; rfl
        have hsr2 : s2.srcReads = s1.srcReads := by subst hs2; rfl
        obtain ⟨i1, i2, i3, i4, i5⟩ := ih n (remain - s1.buf.length) s2 wf2 (by omega) (by omega) (by omega)
        refine ⟨i1, SameW.trans q3 (SameW.trans hsame2 i2), ?_, by omega, ?_⟩
        · intro h
          have := i3 h
          rw [herr2, he] at this
          exact absurd this (by simp)
        · have hfl2 : (flat s2).length = s1.src.flatten.length := by rw [hflat2]
          by_cases hshort : (flat s1).length < remain
          · rw [if_pos hshort]
            rw [if_pos (by omega)] at i5
            refine ⟨?_, i5.2⟩
            rw [i5.1]; congr 1; omega
          · rw [if_neg hshort]
            rw [if_neg (by omega)] at i5
            refine ⟨i5.1, ?_⟩
            rw [i5.2, hflat2]
            simp only [flat]
            rw [List.drop_append, List.drop_of_length_le (l := s1.buf) (i := remain) (by omega), List.nil_append]

/-! ### ghost facts: iterations, underlying reads, allocations -/

/-- The `make([]byte, bytesLeftToRead)` sizes of the iterations of `ReadExpectedBytesRecursive(…, left)` whose
wrapper `Read`s returned `ps` bytes: `left, left - p₁, left - p₁ - p₂, …`. -/
def allocsOf : Nat → List Nat → List Nat
  | _, [] => []
  | left, p :: ps => left :: allocsOf (left - p) ps

/-- `Σᵢ pᵢ · (number of iterations after the i-th)`: what the partial reads save against `left` per iteration. -/
def saved : List Nat → Nat
  | [] => 0
  | p :: ps => p * ps.length + saved ps

theorem allocsOf_length (left : Nat) (ps : List Nat) : (allocsOf left ps).length = ps.length := by
  induction ps generalizing left with
  | nil => rfl
  | cons p ps ih => simp [allocsOf, ih]

/-- Exact total of the per-iteration allocations: `left · iterations − saved`. -/
theorem allocsOf_sum (left : Nat) (ps : List Nat) (h : ps.sum ≤ left) :
    (allocsOf left ps).sum + saved ps = left * ps.length := by
  induction ps generalizing left with
  | nil => simp [allocsOf, saved]
  | cons p ps ih =>
    simp only [List.sum_cons] at h
    have hp : p ≤ left := by omega
    have := ih (left - p) (by omega)
    simp only [allocsOf, saved, List.sum_cons, List.length_cons, Nat.mul_succ]
    have e : (left - p) * ps.length + p * ps.length = left * ps.length := by
      rw [← Nat.add_mul, Nat.sub_add_cancel hp]
    omega

theorem allocsOf_sum_le (left : Nat) (ps : List Nat) : (allocsOf left ps).sum ≤ left * ps.length := by
  induction ps generalizing left with
  | nil => simp [allocsOf]
  | cons p ps ih =>
    have h1 := ih (left - p)
    have h2 : (left - p) * ps.length ≤ left * ps.length := Nat.mul_le_mul_right _ (Nat.sub_le _ _)
    simp only [allocsOf, List.sum_cons, List.length_cons, Nat.mul_succ]
    omega

theorem readLoop_ghost (fuel : Nat) : ∀ (left : Nat) (acc : Bytes) (s : St), WF s → 0 < left → left ≤ fuel →
    ∃ ps : List Nat,
      (readLoop fuel left acc s).2.parts = s.parts ++ ps ∧
      (readLoop fuel left acc s).2.allocs = s.allocs ++ allocsOf left ps ∧
      1 ≤ ps.length ∧ ps.length ≤ left ∧
      (readLoop fuel left acc s).2.srcReads ≤ s.srcReads + ps.length ∧
      (readLoop fuel left acc s).2.pos = s.pos + ps.sum ∧ ps.sum ≤ left := by
  induction fuel with
  | zero => intro left acc s _ h1 h2; omega
  | succ fuel ih =>
    intro left acc s wf hl hf
    rw [readLoop_succ]
    generalize hs0 : ({ s with allocs := s.allocs ++ [left] } : St) = s0
    have wf0 : WF s0 := by subst hs0; exact wf
    have hpos0 : s0.pos = s.pos := by subst hs0; rfl
    have hparts0 : s0.parts = s.parts := by subst hs0; rfl
    have hallocs0 : s0.allocs = s.allocs ++ [left] := by subst hs0; rfl
    have hsr0 : s0.srcReads = s.srcReads := by subst hs0; rfl
    obtain ⟨w1, w2, w3, w4, _⟩ := wRead_pos left s0 wf0 hl
    obtain ⟨_, _, f3, f4, f5, _⟩ := wRead_fields left s0
    generalize wRead left s0 = r at *
    obtain ⟨⟨d, e⟩, s1⟩ := r
    dsimp only at *
    cases e with
    | true =>
      obtain ⟨_, _, x3, _⟩ := w2 rfl
      rw [if_pos rfl]
      refine ⟨[0], ?_, ?_, by simp, (by simp only [List.length_cons, List.length_nil]; omega), by simpa using (by omega : s1.srcReads ≤ s.srcReads + 1), ?_, by simp⟩
      · rw [f4, x3, hparts0]; rfl
      · rw [f3, hallocs0]; rfl
      · rw [f5, x3, hpos0]; rfl
    | false =>
      obtain ⟨x1, x2, _, _⟩ := w3 rfl
      have hdl := List.ne_nil_iff_length_pos.mp x1
      rw [if_neg (by simp)]
      by_cases hfull : d.length = left
      · rw [if_pos hfull]
        refine ⟨[left], ?_, ?_, by simp, (by simp only [List.length_cons, List.length_nil]; omega), by simpa using (by omega : s1.srcReads ≤ s.srcReads + 1), ?_, by simp⟩
        · rw [f4, hfull, hparts0]
        · rw [f3, hallocs0]; rfl
        · rw [f5, hfull, hpos0]; simp
      · rw [if_neg hfull]
        obtain ⟨ps, i1, i2, i3, i4, i5, i6, i7⟩ := ih (left - d.length) (acc ++ d) s1 w1 (by omega) (by omega)
        refine ⟨d.length :: ps, ?_, ?_, by simp, by simp only [List.length_cons]; omega,
          by simp only [List.length_cons]; omega, ?_, by simp only [List.sum_cons]; omega⟩
        · rw [i1, f4, hparts0]; simp
        · rw [i2, f3, hallocs0]; simp [allocsOf]
        · rw [i6, f5, hpos0]; simp only [List.sum_cons]; omega

end Crv.Chunk
