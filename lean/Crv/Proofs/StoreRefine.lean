import Crv.Store
import Crv.Proofs.StoreKey
/-! Refinement lemmas shared by both backends, and the memory backend's refinement (C18). -/
namespace Crv.Store
open Crv

/-- Distinct abstract keys have distinct key strings (key injectivity + reserved keys are no entry keys). -/
theorem AKey.str_inj {a b : AKey} (h : a.str = b.str) : a = b := by
  cases a <;> cases b <;> simp only [AKey.str] at h
  case ent.ent => obtain ⟨rfl, rfl⟩ := key_inj h; rfl
  case ent.minfo => exact absurd h (key_ne_metaKey _ _)
  case ent.ext => exact absurd h (key_ne_extKey _ _)
  case ent.sig => exact absurd h (key_ne_sigKey _ _)
  case ent.loc => exact absurd h (key_ne_locKey _ _)
  case minfo.ent => exact absurd h.symm (key_ne_metaKey _ _)
  case ext.ent => exact absurd h.symm (key_ne_extKey _ _)
  case sig.ent => exact absurd h.symm (key_ne_sigKey _ _)
  case loc.ent => exact absurd h.symm (key_ne_locKey _ _)
  all_goals first | rfl | exact absurd h (by decide)

theorem AKey.str_reserved_mem (k : AKey) (h : ∀ i s, k ≠ .ent i s) : k.str ∈ reservedKeys := by
  cases k <;> simp [AKey.str, reservedKeys]
  exact absurd rfl (h _ _)

theorem Abs.get_set (a : Abs) (k k' : AKey) (v : Val) :
    (a.set k v).get k' = if k = k' then some v else a.get k' := by
  cases k <;> cases k' <;> simp [Abs.set, Abs.get]

/-- The concrete association `m` (on hashed keys) represents the abstract state `a` on the key strings `K`. -/
def Rel (K : List (List UInt8)) (m : Assoc) (a : Abs) : Prop :=
  ∀ k : AKey, k.str ∈ K → aget m (hkey k.str) = a.get k

theorem rel_empty (K : List (List UInt8)) : Rel K [] Abs.empty := by
  intro k _
  cases k <;> rfl

theorem rel_put {K : List (List UInt8)} (hc : CollisionFree K) {m : Assoc} {a : Abs} (hr : Rel K m a)
    (k : AKey) (hk : k.str ∈ K) (v : Val) : Rel K ((hkey k.str, v) :: m) (a.set k v) := by
  intro k' hk'
  rw [Abs.get_set]
  simp only [aget]
  by_cases h : k = k'
  · subst h; simp
  · have : hkey k.str ≠ hkey k'.str := fun he => h (AKey.str_inj (hc _ hk _ hk' he))
    simp [this, h, hr k' hk']

/-- Content after a list of writes. -/
def afill (m : Assoc) (ws : List (AKey × Val)) : Assoc := ws.foldl (fun m w => (hkey w.1.str, w.2) :: m) m

theorem rel_fill {K : List (List UInt8)} (hc : CollisionFree K) :
    ∀ (ws : List (AKey × Val)) {m : Assoc} {a : Abs}, Rel K m a → (∀ w ∈ ws, w.1.str ∈ K) →
      Rel K (afill m ws) (a.fill ws)
  | [], _, _, hr, _ => hr
  | w :: ws, m, a, hr, hk => by
    have := rel_fill hc ws (rel_put hc hr w.1 (hk w List.mem_cons_self) w.2)
      (fun w' hw' => hk w' (List.mem_cons_of_mem _ hw'))
    simpa [afill, Abs.fill] using this

theorem MapStore.fill_some (m : Assoc) (ws : List (AKey × Val)) :
    MapStore.fill { map := some m } ws = { map := some (afill m ws) } := by
  induction ws generalizing m with
  | nil => rfl
  | cons w ws ih =>
    simp only [MapStore.fill, List.foldl_cons, MapStore.put, afill]
    exact ih _

/-- Reads of the memory backend agree with the specification on represented keys. -/
theorem MapStore.read_eq (dec : Kind → Val → Bool) {K : List (List UInt8)} {m : Assoc} {a : Abs} (hr : Rel K m a)
    (k : AKey) (hk : k.str ∈ K) : MapStore.read dec { map := some m } k = a.read dec k := by
  have h := hr k hk
  cases k with
  | ent i s =>
    simp only [AKey.str, Abs.get] at h
    simp only [MapStore.read, Abs.read, MapStore.lookup, MapStore.rawGet, Abs.lookup, h]
    cases a.ent i s <;> simp [retOf, Generated.Store.mapOnNotFound, Generated.Store.mapOnOk, Generated.Store.mapOnDecodeErr]
  | minfo | ext | sig | loc =>
    simp only [MapStore.read, Abs.read, MapStore.slot, MapStore.rawGet, Abs.slot, h]

theorem map_refines_aux (dec : Kind → Val → Bool) {K : List (List UInt8)} (hc : CollisionFree K) :
    ∀ (ops : List Op) (m : Assoc) (a : Abs), Rel K m a → (∀ k ∈ ops.flatMap opKeys, k ∈ K) →
      (runMap dec { map := some m } ops).2 = (runAbs dec a ops).2
  | [], _, _, _, _ => rfl
  | op :: ops, m, a, hr, hk => by
    have hk0 : ∀ k ∈ opKeys op, k ∈ K := fun k h => hk k (by simp [List.flatMap_cons, h])
    have hk1 : ∀ k ∈ ops.flatMap opKeys, k ∈ K := fun k h => hk k (by simp only [List.flatMap_cons, List.mem_append]; exact Or.inr h)
    cases op with
    | w k v =>
      have := map_refines_aux dec hc ops _ _ (rel_put hc hr k (hk0 _ (by simp [opKeys])) v) hk1
      simp only [runMap, runAbs, MapStore.step, Abs.step, MapStore.put]
      rw [this]
    | rd k =>
      have := map_refines_aux dec hc ops _ _ hr hk1
      simp only [runMap, runAbs, MapStore.step, Abs.step]
      rw [this, MapStore.read_eq dec hr k (hk0 _ (by simp [opKeys]))]
    | replace ws =>
      have hw : ∀ w ∈ ws, w.1.str ∈ K := fun w hw => hk0 _ (by simp only [opKeys, List.mem_map]; exact ⟨w, hw, rfl⟩)
      have := map_refines_aux dec hc ops _ _ (rel_fill hc ws (rel_empty K) hw) hk1
      simp only [runMap, runAbs, MapStore.step, Abs.step, MapStore.new, MapStore.fill_some, MapStore.update, Option.getD_some]
      rw [this]
    | reopen =>
      have := map_refines_aux dec hc ops _ _ hr hk1
      simp only [runMap, runAbs, MapStore.step, Abs.step]
      rw [this]

theorem keysOf_ops_subset (ops : List Op) : ∀ k ∈ ops.flatMap opKeys, k ∈ keysOf ops := by
  intro k h
  simp only [keysOf, List.mem_append]
  exact Or.inr h

end Crv.Store
