import Crv.Paths
/-!
The work_dir listing as a function `Name → Option Node` ("extensional view"): every step and the sweep depend on
the association list only through `Fs.get`, so the theorems are proved on functions and transported by `get_run`.
-/
namespace Crv.Paths

abbrev FsF := Name → Option Node

def upd (f : FsF) (n : Name) (x : Option Node) : FsF := fun m => if m = n then x else f m

@[simp] theorem upd_same (f : FsF) (n : Name) (x : Option Node) : upd f n x n = x := by simp [upd]
theorem upd_ne (f : FsF) (n m : Name) (x : Option Node) (h : m ≠ n) : upd f n x m = f m := by simp [upd, h]
@[simp] theorem upd_upd_same (f : FsF) (n : Name) (x y : Option Node) : upd (upd f n x) n y = upd f n y := by
  funext m; simp only [upd]; split <;> rfl
theorem upd_self (f : FsF) (n : Name) (x : Option Node) (h : f n = x) : upd f n x = f := by
  funext m; simp only [upd]; split
  · next e => rw [e, h]
  · rfl

def Step.applyF (st : Step) (f : FsF) : FsF :=
  match st with
  | .mkFile n => upd f n (some .file)
  | .writeFile _ => f
  | .rmFile n => match f n with
    | some .file => upd f n none
    | _ => f
  | .mkStore n => upd f n (some (.dir []))
  | .openStore n => match f n with
    | none => upd f n (some (.dir []))
    | some _ => f
  | .put n k v => match f n with
    | some (.dir img) => upd f n (some (.dir (img.put k v)))
    | _ => f
  | .closeDb _ => f
  | .rename a b => match f a with
    | none => f
    | some x => upd (upd f a none) b (some x)
  | .rmAll n => upd f n none
  | .hit _ => f

def runF (steps : List Step) (f : FsF) : FsF := steps.foldl (fun f st => st.applyF f) f

def sweepF (F : Facts) (f : FsF) : FsF := fun n => if matchesTemp F n then none else f n

@[simp] theorem runF_nil (f : FsF) : runF [] f = f := rfl
@[simp] theorem runF_cons (st : Step) (l : List Step) (f : FsF) : runF (st :: l) f = runF l (st.applyF f) := rfl
theorem runF_append (a b : List Step) (f : FsF) : runF (a ++ b) f = runF b (runF a f) := by
  simp [runF, List.foldl_append]

/-! ### transport -/

theorem get_erase (fs : Fs) (n : Name) : Fs.get (fs.erase n) = upd (Fs.get fs) n none := by
  funext m
  induction fs with
  | nil => simp [Fs.erase, Fs.get, upd]
  | cons e rest ih =>
    obtain ⟨k, x⟩ := e
    have ih' : Fs.get (Fs.erase rest n) m = if m = n then none else Fs.get rest m := ih
    by_cases hk : k = n
    · have e1 : Fs.erase ((k, x) :: rest) n = Fs.erase rest n := by
        simp [Fs.erase, hk]
      rw [e1, ih']
      simp only [upd, Fs.get]
      by_cases hm : m = n
      · simp [hm]
      · have : ¬ k = m := fun e => hm (e ▸ hk)
        simp [hm, this]
    · have e1 : Fs.erase ((k, x) :: rest) n = (k, x) :: Fs.erase rest n := by
        simp [Fs.erase, hk]
      rw [e1]
      simp only [upd, Fs.get]
      by_cases hkm : k = m
      · have : ¬ m = n := fun e => hk (hkm ▸ e)
        simp [hkm, this]
      · simp only [hkm, ↓reduceIte]; exact ih'

theorem get_set (fs : Fs) (n : Name) (x : Node) : Fs.get (fs.set n x) = upd (Fs.get fs) n (some x) := by
  funext m
  simp only [Fs.set, Fs.get, get_erase, upd]
  by_cases h : n = m
  · subst h; simp
  · have : ¬ m = n := fun e => h e.symm
    simp [h, this]

theorem get_apply (st : Step) (fs : Fs) : Fs.get (st.apply fs) = st.applyF (Fs.get fs) := by
  cases st with
  | mkFile n => simp [Step.apply, Step.applyF, get_set]
  | writeFile n => rfl
  | rmFile n =>
    simp only [Step.apply, Step.applyF]
    cases h : Fs.get fs n with
    | none => rfl
    | some x => cases x <;> simp [get_erase]
  | mkStore n => simp [Step.apply, Step.applyF, get_set]
  | openStore n =>
    simp only [Step.apply, Step.applyF]
    cases h : Fs.get fs n <;> simp [get_set]
  | put n k v =>
    simp only [Step.apply, Step.applyF]
    cases h : Fs.get fs n with
    | none => rfl
    | some x => cases x <;> simp [get_set]
  | closeDb n => rfl
  | rename a b =>
    simp only [Step.apply, Step.applyF]
    cases h : Fs.get fs a <;> simp [get_set, get_erase]
  | rmAll n => simp [Step.apply, Step.applyF, get_erase]
  | hit n => rfl

theorem get_run (l : List Step) (fs : Fs) : Fs.get (run l fs) = runF l (Fs.get fs) := by
  induction l generalizing fs with
  | nil => rfl
  | cons st l ih => simp only [run, List.foldl_cons, runF_cons] at ih ⊢; rw [← get_apply]; exact ih _

theorem get_sweep (F : Facts) (fs : Fs) : Fs.get (sweep F fs) = sweepF F (Fs.get fs) := by
  funext m
  induction fs with
  | nil => simp [sweep, Fs.get, sweepF]
  | cons e rest ih =>
    obtain ⟨k, x⟩ := e
    have ih' : Fs.get (sweep F rest) m = if matchesTemp F m = true then none else Fs.get rest m := ih
    cases hk : matchesTemp F k with
    | true =>
      have e1 : sweep F ((k, x) :: rest) = sweep F rest := by simp [sweep, hk]
      rw [e1, ih']
      simp only [sweepF, Fs.get]
      by_cases hkm : k = m
      · subst hkm; simp [hk]
      · simp [hkm]
    | false =>
      have e1 : sweep F ((k, x) :: rest) = (k, x) :: sweep F rest := by simp [sweep, hk]
      rw [e1]
      simp only [sweepF, Fs.get]
      by_cases hkm : k = m
      · subst hkm; simp [hk]
      · simp only [hkm, ↓reduceIte]; exact ih'

/-! ### frame -/

def Step.names : Step → List Name
  | .mkFile n | .writeFile n | .rmFile n | .mkStore n | .openStore n | .put n _ _ | .closeDb n | .rmAll n => [n]
  | .rename a b => [a, b]
  | .hit _ => []

theorem applyF_frame (st : Step) (f : FsF) (n : Name) (h : n ∉ st.names) : st.applyF f n = f n := by
  cases st with
  | mkFile m => simp [Step.names] at h; simp [Step.applyF, upd_ne _ _ _ _ h]
  | writeFile m => rfl
  | rmFile m =>
    simp [Step.names] at h
    simp only [Step.applyF]
    cases f m with
    | none => rfl
    | some x => cases x <;> simp [upd_ne _ _ _ _ h]
  | mkStore m => simp [Step.names] at h; simp [Step.applyF, upd_ne _ _ _ _ h]
  | openStore m =>
    simp [Step.names] at h
    simp only [Step.applyF]
    cases f m <;> simp [upd_ne _ _ _ _ h]
  | put m k v =>
    simp [Step.names] at h
    simp only [Step.applyF]
    cases f m with
    | none => rfl
    | some x => cases x <;> simp [upd_ne _ _ _ _ h]
  | closeDb m => rfl
  | rename a b =>
    simp [Step.names] at h
    simp only [Step.applyF]
    cases f a <;> simp [upd_ne _ _ _ _ h.1, upd_ne _ _ _ _ h.2]
  | rmAll m => simp [Step.names] at h; simp [Step.applyF, upd_ne _ _ _ _ h]
  | hit m => rfl

theorem runF_frame (l : List Step) (f : FsF) (n : Name) (h : ∀ st ∈ l, n ∉ st.names) : runF l f n = f n := by
  induction l generalizing f with
  | nil => rfl
  | cons st l ih =>
    simp only [runF_cons]
    rw [ih _ (fun s hs => h s (by simp [hs])), applyF_frame _ _ _ (h st (by simp))]

/-! ### store writes -/

theorem mem_writeSteps (F : Facts) (dir : Name) (ws : List (DbKey × Nat)) (st : Step) (h : st ∈ writeSteps F dir ws) :
    st.names ⊆ [dir] := by
  simp only [writeSteps, List.mem_flatMap, List.mem_cons, List.mem_map] at h
  obtain ⟨w, _, h | ⟨x, _, h⟩⟩ := h
  · subst h; simp [Step.names]
  · subst h; simp [Step.names]

theorem runF_hits (hs : List String) (f : FsF) : runF (hs.map Step.hit) f = f := by
  induction hs with
  | nil => rfl
  | cons h t ih => simpa [Step.applyF] using ih

def writeAll (img : DbImage) (ws : List (DbKey × Nat)) : DbImage := ws.foldl (fun img w => img.put w.1 w.2) img

theorem runF_writeSteps (F : Facts) (dir : Name) (ws : List (DbKey × Nat)) (f : FsF) (img : DbImage)
    (h : f dir = some (.dir img)) :
    runF (writeSteps F dir ws) f = upd f dir (some (.dir (writeAll img ws))) := by
  induction ws generalizing f img with
  | nil => simp [writeSteps, writeAll, upd_self _ _ _ h]
  | cons w ws ih =>
    have e : writeSteps F dir (w :: ws) = (Step.put dir w.1 w.2 :: (writeHits F w.1).map Step.hit) ++ writeSteps F dir ws := by
      simp [writeSteps]
    rw [e, runF_append, runF_cons, runF_hits]
    have h1 : (Step.put dir w.1 w.2).applyF f = upd f dir (some (.dir (img.put w.1 w.2))) := by
      simp [Step.applyF, h]
    rw [h1, ih _ (img.put w.1 w.2) (by simp)]
    simp [writeAll]

/-! ### prefixes -/

def inits {α} : List α → List (List α)
  | [] => [[]]
  | x :: l => [] :: (inits l).map (x :: ·)

theorem take_mem_inits {α} (l : List α) (k : Nat) : l.take k ∈ inits l := by
  induction l generalizing k with
  | nil => simp [inits]
  | cons x l ih =>
    cases k with
    | zero => simp [inits]
    | succ k => simp only [List.take_succ_cons, inits, List.mem_cons, List.mem_map]; exact Or.inr ⟨_, ih k, rfl⟩

/-- A prefix of `a ++ b` is a prefix of `a`, or `a` followed by a prefix of `b`. -/
theorem take_append_cases {α} (a b : List α) (k : Nat) :
    (a ++ b).take k = a.take k ∨ ∃ j, (a ++ b).take k = a ++ b.take j := by
  rw [List.take_append]
  by_cases h : k ≤ a.length
  · left; simp [Nat.sub_eq_zero_of_le h]
  · right; exact ⟨k - a.length, by rw [List.take_of_length_le (by omega)]⟩

end Crv.Paths
