-- Root of the `Crv` library: models, generated facts, proofs, property theorems.
import Crv.Mode
import Crv.Generated.Mode
import Crv.Driver.Util
import Crv.Driver.Mode
import Crv.Props.C03
