#!/usr/bin/env python3
"""
Handling of seeded defects (DESIGN.md §9).

  seed.py confirm <srcdir> <name>     confirm a sub-agent's deliverable in a fresh scratch worktree of /repo:
                                      demo passes without the patch; with the patch the baseline suite passes and
                                      the demo fails. On success store it as /verif/seeded/<name>/.
  seed.py run <name> [<Cxx> ...]      apply seeded/<name>/patch.diff to /repo, run ./check <Cxx> quick for the given
                                      properties (default: the property of the seeded defect), undo, record the outcome
                                      in seeded/<name>/result.json.
"""
import json, os, re, shutil, subprocess, sys, tempfile, time

VERIF = os.path.dirname(os.path.dirname(os.path.abspath(__file__)))
REPO = "/repo"
ENV = dict(os.environ, GOFLAGS="-mod=mod", GOPROXY="off", GOSUMDB="off", GOTOOLCHAIN="local")


def sh(cmd, cwd=None, timeout=1800):
    p = subprocess.run(cmd, cwd=cwd, env=ENV, shell=isinstance(cmd, str), stdout=subprocess.PIPE, stderr=subprocess.STDOUT, timeout=timeout)
    return p.returncode, p.stdout.decode("utf-8", "replace")


def demo_dest(meta, src):
    cmd = meta.get("demo_cmd", "")
    m = re.search(r"mut_demo_test\.go\s+(\S+)", cmd)
    dest = m.group(1) if m else "."
    dest = re.sub(r"^(<worktree>|/tmp/mut/C\d+[a-z]?-wt)/?", "", dest)
    if dest.endswith(".go"):
        dest = os.path.dirname(dest)
    dest = dest.strip("/") or "."
    return dest


def run_demo(wt, dest):
    pkg = "./" + dest + "/" if dest != "." else "."
    return sh(["go", "test", "-vet=off", "-count=1", "-run", "TestMutDemo", pkg], cwd=wt, timeout=900)


def confirm(src, name):
    meta = json.load(open(os.path.join(src, "meta.json")))
    patch = os.path.join(src, "patch.diff")
    demo = os.path.join(src, "demo", "mut_demo_test.go")
    assert os.path.exists(patch) and os.path.exists(demo), "patch.diff / demo missing"
    dest = demo_dest(meta, src)
    wt = tempfile.mkdtemp(prefix="seedchk-")
    os.rmdir(wt)
    rc, out = sh(["git", "-C", REPO, "worktree", "add", "-q", "--detach", wt, "HEAD"])
    assert rc == 0, out
    res = {"name": name, "property": meta.get("property"), "demo_dest": dest}
    try:
        shutil.copy(demo, os.path.join(wt, dest, "mut_demo_test.go"))
        rc, out = run_demo(wt, dest)
        res["demo_without_change"] = "pass" if rc == 0 else "FAIL"
        res["demo_without_tail"] = out[-600:]
        os.remove(os.path.join(wt, dest, "mut_demo_test.go"))
        rc, out = sh(["git", "apply", patch], cwd=wt)
        res["patch_applies"] = rc == 0
        if rc != 0:
            res["apply_error"] = out[-500:]
            return res
        rc, out = sh("go build ./... && go test -vet=off -count=1 ./...", cwd=wt)
        res["baseline_with_change"] = "pass" if rc == 0 else "FAIL"
        if rc != 0:
            res["baseline_tail"] = out[-800:]
        shutil.copy(demo, os.path.join(wt, dest, "mut_demo_test.go"))
        rc, out = run_demo(wt, dest)
        res["demo_with_change"] = "fail" if rc != 0 else "PASSES"
        res["demo_with_tail"] = out[-600:]
    finally:
        sh(["git", "-C", REPO, "worktree", "remove", "--force", wt])
        shutil.rmtree(wt, ignore_errors=True)
    ok = (res.get("demo_without_change") == "pass" and res.get("baseline_with_change") == "pass" and res.get("demo_with_change") == "fail")
    res["confirmed"] = ok
    if ok:
        d = os.path.join(VERIF, "seeded", name)
        os.makedirs(os.path.join(d, "demo"), exist_ok=True)
        shutil.copy(patch, os.path.join(d, "patch.diff"))
        for f in os.listdir(os.path.join(src, "demo")):
            shutil.copy(os.path.join(src, "demo", f), os.path.join(d, "demo", f))
        meta_out = {
            "property": meta.get("property"), "summary": meta.get("summary"), "needs_to_manifest": meta.get("needs_to_manifest"),
            "files_changed": meta.get("files_changed"),
            "demo": "copy demo/mut_demo_test.go into %s of a worktree of /repo and run `go test -vet=off -count=1 -run TestMutDemo %s`" % (dest, "./" + dest + "/" if dest != "." else "."),
            "confirmed_by_lead": {"repo_head": sh(["git", "-C", REPO, "rev-parse", "--short", "HEAD"])[1].strip(),
                                  "demo_without_change": "pass", "baseline_suite_with_change": "pass", "demo_with_change": "fail",
                                  "how": "tools/seed.py confirm (fresh scratch worktree, removed afterwards)"},
            "origin": "fresh sub-agent given only the property text and a scratch worktree",
        }
        json.dump(meta_out, open(os.path.join(d, "meta.json"), "w"), indent=1)
    return res


def run(name, props):
    d = os.path.join(VERIF, "seeded", name)
    meta = json.load(open(os.path.join(d, "meta.json")))
    if not props:
        props = [meta["property"]]
    if meta.get("superseded"):
        print("skipped (superseded):", meta["superseded"][:100])
        return {}
    rc, out = sh(["git", "-C", REPO, "status", "--porcelain"])
    assert out.strip() == "", "/repo is not clean: " + out
    rc, out = sh(["git", "-C", REPO, "apply", os.path.join(d, "patch.diff")])
    assert rc == 0, "patch does not apply: " + out
    results = {}
    # evidence/<Cxx>.json and replays describe runs on the unchanged tree; keep the ones a seeded run would overwrite
    keep = tempfile.mkdtemp(prefix="crv-seed-keep-")
    for sub in ("evidence", "replays"):
        if os.path.isdir(os.path.join(VERIF, sub)):
            shutil.copytree(os.path.join(VERIF, sub), os.path.join(keep, sub))
    try:
        for p in props:
            t0 = time.time()
            rc, out = sh([os.path.join(VERIF, "check"), p, "quick"], cwd=VERIF, timeout=3600)
            lines = [l for l in out.splitlines() if l.startswith("VIOLATION") or l.startswith("  violation:") or l.startswith("  broken:")]
            results[p] = {"exit": rc, "lines": lines[:8], "wall_s": round(time.time() - t0, 1)}
    finally:
        sh(["git", "-C", REPO, "checkout", "--", "."])
        for sub in ("evidence",):
            if os.path.isdir(os.path.join(keep, sub)):
                shutil.rmtree(os.path.join(VERIF, sub), ignore_errors=True)
                shutil.copytree(os.path.join(keep, sub), os.path.join(VERIF, sub))
        shutil.rmtree(keep, ignore_errors=True)
    rc, out = sh(["git", "-C", REPO, "status", "--porcelain"])
    assert out.strip() == "", "/repo not restored: " + out
    rp = os.path.join(d, "result.json")
    prev = json.load(open(rp)) if os.path.exists(rp) else {}
    prev.update(results)
    json.dump(prev, open(rp, "w"), indent=1)
    return results


if __name__ == "__main__":
    if sys.argv[1] == "confirm":
        r = confirm(sys.argv[2], sys.argv[3])
        print(json.dumps({k: v for k, v in r.items() if not k.endswith("_tail") or not r.get("confirmed")}, indent=1))
        sys.exit(0 if r.get("confirmed") else 1)
    elif sys.argv[1] == "run":
        r = run(sys.argv[2], sys.argv[3:])
        print(json.dumps(r, indent=1))
