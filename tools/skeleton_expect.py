#!/usr/bin/env python3
"""Rewrites lean/Crv/Proofs/Skeleton.lean (the fingerprints the hand-written models were transcribed from) and
lean/Crv/Proofs/skeleton.expected.txt from the CURRENT generated ones. Run it only after the models have been re-read
against the changed functions: it is the statement "the model transcribes these sources"."""
import os, re, shutil, sys

VERIF = os.path.dirname(os.path.dirname(os.path.abspath(__file__)))
gen = os.path.join(VERIF, "lean", "Crv", "Generated")
src = open(os.path.join(gen, "Skeleton.lean")).read()
groups = re.findall(r"def skeleton(\w+) : List \(String × String\) := \[(.*?)\n\]", src, re.S)
out = ["import Crv.Generated.Skeleton", "/-!", "The sources the hand-written models were transcribed from, by fingerprint (see tools/extract/skeleton.go).",
       "`Generated.skeleton*` is recomputed from /repo on every run; these theorems fail when one of the functions changed,",
       "whatever the change: the models of this directory then have to be re-read against the new source", "(`tools/skeleton_expect.py` rewrites this file; skeleton.expected.txt holds the normalised text for diffing).", "-/",
       "namespace Crv.Skeleton", "open Crv.Generated", ""]
for g, body in groups:
    out.append("def expected%s : List (String × String) := [%s\n]" % (g, body))
    out.append("")
    out.append("theorem %s_sources_as_transcribed : skeleton%s = expected%s := rfl" % (g.lower(), g, g))
    out.append("")
out.append("end Crv.Skeleton")
open(os.path.join(VERIF, "lean", "Crv", "Proofs", "Skeleton.lean"), "w").write("\n".join(out) + "\n")
shutil.copyfile(os.path.join(gen, "skeleton.txt"), os.path.join(VERIF, "lean", "Crv", "Proofs", "skeleton.expected.txt"))
print("wrote Proofs/Skeleton.lean with groups", [g for g, _ in groups])
