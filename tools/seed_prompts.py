#!/usr/bin/env python3
"""Prints the prompt given to a fresh sub-agent for one seeded-defect request (DESIGN.md §9).
usage: seed_prompts.py <Cxx> <round-letter>     e.g. C06 b  -> prompt text on stdout
The agent sees only the property text, its worktree path and the flavour of manifestation asked for."""
import json, os, sys

HERE = os.path.dirname(os.path.abspath(__file__))
FLAVOUR = {
    "b": {
        "C01": "an unusual input or state — a particular position in the list, list size, serial-number width / sign / leading zeros, encoding (PEM vs DER), per-entry extension content or a storage-backend-specific condition — rather than a shortcut in the mode/OCSP logic.",
        "C02": "a multi-step sequence involving the response cache, or a particular order / mix of several responders and answer kinds.",
        "C03": "two cooperating sites that each look fine alone (for example configuration parsing and verification), or a particular combination of mode and mechanism outcomes involving errors rather than plain 'revoked'.",
        "C04": "an unusual input: a particular issuer-name / authority-key-identifier form, key-usage combination, chain shape, trusted-signer configuration or signature algorithm.",
        "C05": "an unusual response: several single responses in one body, particular serial-number shapes, responder-ID forms, order of embedded certificates, or a cooperating change in two places.",
        "C06": "a particular placement of an element boundary relative to the reader's buffer windows, a particular length encoding, PEM line shape or combination of optional fields.",
        "C07": "a particular hostile length field, nesting, truncation point or PEM framing.",
        "C08": "a fault at a particular point of the refresh, or a particular interleaving of lookups with the refresh.",
        "C09": "a storage fault of a particular kind at a particular point (closed database, damaged record, undecodable value, fault on one of several entries).",
        "C10": "a multi-step history (failed loads, a background fetch still pending, restart, several or mixed-scheme distribution points).",
        "C11": "a multi-step history, or two issuers that share serial numbers, or a rejected CRL followed by other operations.",
        "C12": "a crash at a particular instant of a first load or a refresh on disk storage, followed by a restart.",
        "C13": "a particular interleaving of handshakes, first-use downloads, refreshes and shutdown.",
        "C14": "particular values of nextUpdate / default duration / clock, a particular component of the cache key, or a sequence of reads and expiries.",
        "C15": "several validator instances in one process, or a sequence with failed attempts before success, or a particular relation between interval and run time.",
        "C16": "one particular intake path (provisioning, first load, refresh, restart) combined with one particular signature mode.",
        "C17": "a particular processing or storage path that silently accumulates per-entry memory.",
        "C18": "a multi-step operation sequence (including whole-store replacement, close/reopen) or particular value shapes (large serials, many extensions, empty lists).",
        "C19": "a particular combination or spelling of options, or one of the two configuration forms only.",
        "C20": "unusual location strings, a failure path that leaves artefacts behind, a restart, or repeated provision/cleanup cycles.",
    },
    "c": {
        "C01": "a multi-step history (refresh, restart, several CRLs for one certificate, several distribution points) after which a listed certificate slips through.",
        "C02": "a particular combination of responder URL schemes / counts with ocsp_aia_strict, or an answer that arrives from the second or later responder.",
        "C03": "a particular mode spelling / default handling, or an empty / multiple verified chain situation.",
        "C04": "a particular byte region of the CRL (what exactly is hashed or compared), or a refresh versus first-load difference.",
        "C05": "a particular response status / certificate status combination or a cache interaction.",
        "C06": "a particular value shape: serial width, time format, number of entry extensions, absent optional parts, CRL number size.",
        "C07": "input that makes the reader loop or recurse without consuming, or an allocation sized by an unchecked field in a less obvious place (extensions, key identifiers, names).",
        "C08": "a successful refresh after a failed one, or monotonicity (old list observed after the new one).",
        "C09": "the shutdown path or a corrupted on-disk database discovered at lookup time.",
        "C10": "lenient mode (must never deny because of distribution-point trouble) under a particular failure.",
        "C11": "hash-key construction of the stores (issuer and serial must both count) or superseded lists.",
        "C12": "leftover temporary artefacts and what startup does with them, or a not-yet-accepted list treated as loaded.",
        "C13": "a lock-ordering or double-lock situation that only some path takes.",
        "C14": "failed queries being cached, or zero default duration.",
        "C15": "configured CRLs not being in force when provisioning returns, or a CRL that drops out of the refresh set.",
        "C16": "behaviour after restart on disk storage, or the unset-mode default.",
        "C17": "the download or lookup side of the path rather than the parser.",
        "C18": "metadata / signer certificate / locations read-back rather than revoked entries.",
        "C19": "a default value, or an unknown key/value that is silently accepted at one nesting level.",
        "C20": "two different locations mapping to one store, or the same location mapping to different stores across restarts.",
    },
}


_GENERIC = ("a particular interleaving, a crash or fault at a particular point, a multi-step sequence of operations, an unusual input, "
            "or two cooperating sites that each look fine alone - your choice; prefer something a reviewer would wave through and a "
            "routine test run would not touch.")
FLAVOUR["d"] = {("C%02d" % i): _GENERIC for i in range(1, 21)}
FLAVOUR["e"] = {("C%02d" % i): _GENERIC + " Avoid the most obvious spot: look for a second, less travelled place in the code where the property can be broken." for i in range(1, 21)}
FLAVOUR["f"] = {("C%02d" % i): _GENERIC + " Avoid the obvious spots (the central decision function of the property, the parser's main loop, the store's lookup): look at the glue instead - how values are handed from one layer to the next (identifiers, names, serial numbers, locations, configuration plumbing, serialisation, error values that are translated or swallowed, clean-up and shutdown paths, retries, what happens on the second and third use of an object)." for i in range(1, 21)}

FLAVOUR["g"] = {("C%02d" % i): _GENERIC + " Look at the fetch side: how a CRL location becomes a loader (loader factory, scheme detection), how loaders retry and fail over between several distribution points, what the loader object remembers between calls, and how a loader error travels back to the repository - the second, third and later use of the same loader object matters." for i in range(1, 21)}


def main():
    pid, rnd = sys.argv[1], sys.argv[2]
    props = {}
    for l in open(os.path.join(os.path.dirname(HERE), "properties.jsonl")):
        p = json.loads(l)
        props[p["id"]] = p
    p = props[pid]
    t = open(os.path.join(HERE, "seed_prompt.md")).read()
    t = (t.replace("{WT}", "/tmp/mut/%s%s-wt" % (pid, rnd)).replace("{OUT}", "/tmp/mut/%s%s-out" % (pid, rnd))
          .replace("{TITLE}", p["title"]).replace("{STATEMENT}", p["statement"]).replace("{ID}", pid)
          .replace("{FLAVOUR}", FLAVOUR[rnd][pid]).replace("{AVOID}", ""))
    sys.stdout.write(t)


if __name__ == "__main__":
    main()
