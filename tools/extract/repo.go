package main

func genRepo(c *ctx, out string) {
}
