package main

import (
	"fmt"
	"go/ast"
	"go/token"
	"strings"
)

// firstPos returns the position of the first call whose function expression string equals name (or has it as suffix), or NoPos.
func firstCallPos(fd *ast.FuncDecl, name string) token.Pos {
	var p token.Pos
	ast.Inspect(fd.Body, func(n ast.Node) bool {
		if p != token.NoPos {
			return false
		}
		if c, ok := n.(*ast.CallExpr); ok {
			f := exprStr(c.Fun)
			if f == name || strings.HasSuffix(f, "."+name) {
				p = c.Pos()
			}
		}
		return true
	})
	return p
}

func hasCond(fd *ast.FuncDecl, cond string) bool {
	found := false
	ast.Inspect(fd.Body, func(n ast.Node) bool {
		if ifs, ok := n.(*ast.IfStmt); ok && exprStr(ifs.Cond) == cond {
			found = true
		}
		return true
	})
	return found
}

// sigModeStructure recognises, in a load function, the mode-dependent signature handling:
//
//	if R.crlConfig.SignatureValidationModeParsed != config.SignatureValidationModeNone {
//	    … verifyCRLSignature(…) … if <err> != nil { … if R.crlConfig.SignatureValidationModeParsed == config.SignatureValidationModeVerify { return … } } …
//	}
//
// Returns true when present, false when verifyCRLSignature is called unconditionally; anything else is an error.
func (c *ctx) sigModeStructure(fd *ast.FuncDecl) bool {
	const none = "R.crlConfig.SignatureValidationModeParsed!=config.SignatureValidationModeNone"
	const verify = "R.crlConfig.SignatureValidationModeParsed==config.SignatureValidationModeVerify"
	vpos := firstCallPos(fd, "verifyCRLSignature")
	if vpos == token.NoPos {
		fail("%s: %s does not call verifyCRLSignature", c.pos(fd), fd.Name.Name)
	}
	var guard *ast.IfStmt
	ast.Inspect(fd.Body, func(n ast.Node) bool {
		if ifs, ok := n.(*ast.IfStmt); ok && exprStr(ifs.Cond) == none && ifs.Pos() < vpos && vpos < ifs.End() {
			guard = ifs
		}
		return true
	})
	if guard == nil {
		// unconditional verification: every `if err != nil` after it must return
		if hasCond(fd, none) || hasCond(fd, verify) {
			fail("%s: %s: signature mode is consulted in an unrecognised way", c.pos(fd), fd.Name.Name)
		}
		return false
	}
	if guard.Else != nil {
		fail("%s: %s: unexpected else on the signature-mode guard", c.pos(guard), fd.Name.Name)
	}
	// inside: an error branch that returns only under `== Verify`
	okShape := false
	ast.Inspect(guard.Body, func(n ast.Node) bool {
		ifs, ok := n.(*ast.IfStmt)
		if !ok || exprStr(ifs.Cond) != verify {
			return true
		}
		if len(ifs.Body.List) == 1 {
			if _, ok := ifs.Body.List[0].(*ast.ReturnStmt); ok && ifs.Else == nil {
				okShape = true
			}
		}
		return true
	})
	if !okShape {
		fail("%s: %s: no `if mode == Verify { return err }` inside the signature-mode guard", c.pos(guard), fd.Name.Name)
	}
	// no other return of the verification error outside that inner if: every ReturnStmt inside the failure branch must be the one above
	return true
}

func genRepo(c *ctx, out string) {
	const rp = "crl/crlrepository/crlrepository.go"
	const ck = "crl/crlrevocationchecker.go"
	l := newLean("Repo")
	load := c.funcDecl(rp, "Repository", "loadCRL")
	upd := c.funcDecl(rp, "Repository", "updateCrlEntry")

	// staging: first load parses into a temporary store and swaps after verification
	tmp := firstCallPos(load, "CreateStore")
	staged := false
	ast.Inspect(load.Body, func(n ast.Node) bool {
		if call, ok := n.(*ast.CallExpr); ok && strings.HasSuffix(exprStr(call.Fun), ".CreateStore") && len(call.Args) == 2 && exprStr(call.Args[1]) == "true" {
			staged = true
		}
		return true
	})
	swapL := firstCallPos(load, "Update")
	readL := firstCallPos(load, "ReadCRL")
	verL := firstCallPos(load, "verifyCRLSignature")
	if !staged || tmp == token.NoPos || swapL == token.NoPos || readL == token.NoPos {
		fail("%s: loadCRL is not staged (temporary store + swap): the repository model does not apply", c.pos(load))
	}
	if !(tmp < readL && readL < verL && verL < swapL) {
		fail("%s: loadCRL: expected order temporary store < ReadCRL < verifyCRLSignature < swap", c.pos(load))
	}
	// the processor must write into the temporary store, not the live one
	procOK := false
	ast.Inspect(load.Body, func(n ast.Node) bool {
		if cl, ok := n.(*ast.CompositeLit); ok && exprStr(cl.Type) == "crlstore.CRLPersisterProcessor" && len(cl.Elts) == 1 {
			if kv, ok := cl.Elts[0].(*ast.KeyValueExpr); ok && exprStr(kv.Value) == "store" {
				procOK = true
			}
		}
		return true
	})
	if !procOK {
		fail("%s: loadCRL: the persister processor does not write into the temporary store", c.pos(load))
	}
	tmpU := firstCallPos(upd, "CreateStore")
	swapU := firstCallPos(upd, "updateEntry")
	readU := firstCallPos(upd, "ReadCRL")
	verU := firstCallPos(upd, "verifyCRLSignature")
	if !(tmpU != token.NoPos && tmpU < readU && readU < verU && verU < swapU) {
		fail("%s: updateCrlEntry: expected order temporary store < ReadCRL < verifyCRLSignature < updateEntry", c.pos(upd))
	}
	l.p("/-- crlrepository.go:loadCRL / updateCrlEntry — both parse into a temporary store and swap only after the signature step (checked by the translator). -/")
	l.p("def loadsAreStaged : Bool := true")
	l.p("/-- crlrepository.go:loadCRL — signature handling depends on signature_validation_mode. -/")
	l.p("def firstLoadHonoursMode : Bool := %v", c.sigModeStructure(load))
	l.p("/-- crlrepository.go:updateCrlEntry — signature handling depends on signature_validation_mode. -/")
	l.p("def refreshHonoursMode : Bool := %v", c.sigModeStructure(upd))

	// AddCRL stores the locations of a freshly added entry
	add := c.funcDecl(rp, "Repository", "AddCRL")
	stored := false
	ast.Inspect(add.Body, func(n ast.Node) bool {
		if ifs, ok := n.(*ast.IfStmt); ok && exprStr(ifs.Cond) == "crlAdded" {
			ast.Inspect(ifs.Body, func(m ast.Node) bool {
				if call, ok := m.(*ast.CallExpr); ok && strings.HasSuffix(exprStr(call.Fun), "storeCRLLocationsIfNotLoaded") {
					stored = true
				}
				return true
			})
		}
		return true
	})
	l.p("/-- crlrepository.go:AddCRL — the locations of a newly added, not yet loaded entry are written to its store. -/")
	l.p("def locationsStoredOnAdd : Bool := %v", stored)

	// signer-certificate retry of AddCRL / tryUpdateSignatureCertFromChain: only for loaded entries?
	retryA, retryT := "", ""
	ast.Inspect(add.Body, func(n ast.Node) bool {
		if as, ok := n.(*ast.AssignStmt); ok && len(as.Lhs) == 1 && exprStr(as.Lhs[0]) == "lastUpdateSignatureVerifyFailed" {
			retryA = exprStr(as.Rhs[0])
		}
		return true
	})
	tu := c.funcDecl(rp, "Repository", "tryUpdateSignatureCertFromChain")
	ast.Inspect(tu.Body, func(n ast.Node) bool {
		if ifs, ok := n.(*ast.IfStmt); ok && strings.HasPrefix(exprStr(ifs.Cond), "entry.LastUpdateSignatureVerifyFailed") && retryT == "" {
			retryT = exprStr(ifs.Cond)
		}
		return true
	})
	retryLoaded := false
	switch {
	case retryA == "entry.LastUpdateSignatureVerifyFailed" && retryT == "entry.LastUpdateSignatureVerifyFailed==true":
	case retryA == "entry.LastUpdateSignatureVerifyFailed&&entry.Loaded" && retryT == "entry.LastUpdateSignatureVerifyFailed==true&&entry.Loaded":
		retryLoaded = true
	default:
		fail("%s: AddCRL / tryUpdateSignatureCertFromChain: retry conditions not recognised (%q, %q)", c.pos(add), retryA, retryT)
	}
	l.p("/-- crlrepository.go:AddCRL / tryUpdateSignatureCertFromChain — the stored signer certificate is only replaced for an entry whose list is in use (loaded). -/")
	l.p("def retryOnlyWhenLoaded : Bool := %v", retryLoaded)

	l.p("/-- crlrepository.go:addNewEmptyEntry — under 'verify' a list found on disk without a stored signer certificate (it was never verified) is not treated as loaded. -/")
	l.p("def persistedNeedsSignerUnderVerify : Bool := %v", c.loadedInference(c.funcDecl(rp, "Repository", "addNewEmptyEntry")))

	// strict gate shape
	isr := c.funcDecl(rp, "Repository", "IsRevoked")
	gateStrictOnly := false
	gateLegacy := false
	ast.Inspect(isr.Body, func(n ast.Node) bool {
		if ifs, ok := n.(*ast.IfStmt); ok {
			switch exprStr(ifs.Cond) {
			case "locations!=nil&&R.crlConfig.CDPConfig.CRLCDPStrict":
				gateStrictOnly = true
			case "locations!=nil":
				gateLegacy = true
			}
		}
		return true
	})
	if gateStrictOnly == gateLegacy {
		fail("%s: IsRevoked: strict gate not recognised", c.pos(isr))
	}
	if !hasCond(isr, "R.isEntryPresentAndLoaded(identifier)==false") && !hasCond(isr, "R.crlConfig.CDPConfig.CRLCDPStrict&&R.isEntryPresentAndLoaded(identifier)==false") {
		fail("%s: IsRevoked: loaded test of the strict gate not recognised", c.pos(isr))
	}
	l.p("/-- crlrepository.go:IsRevoked — loader creation / identifier errors can only deny in strict mode. -/")
	l.p("def gateOnlyWhenStrict : Bool := %v", gateStrictOnly)

	// updateEntry marks the entry loaded after a successful swap
	ue := c.funcDecl(rp, "Repository", "updateEntry")
	setsLoaded := false
	ast.Inspect(ue.Body, func(n ast.Node) bool {
		if as, ok := n.(*ast.AssignStmt); ok && len(as.Lhs) == 1 && exprStr(as.Lhs[0]) == "entry.Loaded" && exprStr(as.Rhs[0]) == "true" {
			setsLoaded = true
		}
		return true
	})
	l.p("/-- crlrepository.go:updateEntry — a successful swap marks the entry loaded. -/")
	l.p("def updateMarksLoaded : Bool := %v", setsLoaded)

	// Close keeps entries and marks them closed; checkCrl tests the flag
	ce := c.funcDecl(rp, "Repository", "closeRepositoryEntry")
	keeps := true
	marks := false
	ast.Inspect(ce.Body, func(n ast.Node) bool {
		if as, ok := n.(*ast.AssignStmt); ok && len(as.Lhs) == 1 {
			lhs := exprStr(as.Lhs[0])
			if strings.HasPrefix(lhs, "R.crlRepository[") {
				keeps = false
			}
			if lhs == "entry.Closed" && exprStr(as.Rhs[0]) == "true" {
				marks = true
			}
		}
		return true
	})
	cc := c.funcDecl(rp, "Repository", "checkCrl")
	l.p("/-- crlrepository.go:closeRepositoryEntry / checkCrl — shutdown keeps the entries, marks them closed, lookups on closed entries fail. -/")
	l.p("def closeMarksEntries : Bool := %v", keeps && marks && hasCond(cc, "repositoryEntry.Closed"))

	// checkCrl: Loaded test and lookup, revoked short-circuit; IsRevoked walks all identifiers
	if !hasCond(cc, "repositoryEntry.Loaded") || firstCallPos(cc, "GetCertRevocationStatus") == token.NoPos {
		fail("%s: checkCrl: loaded test / lookup not recognised", c.pos(cc))
	}
	if firstCallPos(isr, "getCurrentIdentifiers") == token.NoPos || firstCallPos(isr, "checkCrl") == token.NoPos {
		fail("%s: IsRevoked does not walk all repository entries", c.pos(isr))
	}
	l.p("def lookupWalksAllEntries : Bool := true")

	// CRL signer candidates: end-entity stripped, key usage checked
	chk := c.funcDecl(ck, "CRLRevocationChecker", "IsRevoked")
	strip := false
	ast.Inspect(chk.Body, func(n ast.Node) bool {
		if call, ok := n.(*ast.CallExpr); ok && exprStr(call.Fun) == "core.NewCertificateChains" && len(call.Args) == 2 {
			strip = exprStr(call.Args[0]) == "issuerChains(verifiedChains)"
		}
		return true
	})
	if strip {
		ic := c.funcDecl(ck, "", "issuerChains")
		// body must append verifiedChain[1:] for chains longer than one and nothing else
		s := ""
		ast.Inspect(ic.Body, func(n ast.Node) bool {
			if call, ok := n.(*ast.CallExpr); ok && exprStr(call.Fun) == "append" {
				s += exprStr(call.Args[1]) + ";"
			}
			return true
		})
		if s != "verifiedChain[:];" || !hasCond(ic, "len(verifiedChain)>1") {
			fail("%s: issuerChains: unexpected body (%s)", c.pos(ic), s)
		}
	}
	vs := c.funcDecl(rp, "", "verifyCRLSignature")
	ku := hasCond(vs, "certCandidate.Certificate.KeyUsage!=0&&certCandidate.Certificate.KeyUsage&x509.KeyUsageCRLSign==0")
	l.p("/-- crlrevocationchecker.go:IsRevoked — CRL signer candidates are taken from the chains without their end-entity certificates. -/")
	l.p("def crlCandidatesSkipEndEntity : Bool := %v", strip)
	l.p("/-- crlrepository.go:verifyCRLSignature — candidates whose key usage lacks cRLSign are skipped. -/")
	l.p("def crlSignKeyUsageChecked : Bool := %v", ku)
	// candidate selection rules of FindCertificateIssuerCandidates when the authority key identifier is present
	genCandRules(c, l)
	// background spawn condition
	spawn := hasCond(chk, "added&&c.crlConfig.CDPConfig.CRLFetchModeParsed==config.CRLFetchModeBackground")
	l.p("def backgroundSpawnOnAdd : Bool := %v", spawn)
	// lock discipline around lookup and swap (C08): the lookup reads `Loaded` and the store under the entry read lock,
	// every swap (`Update`) runs under the entry write lock
	lockedBefore := func(fd *ast.FuncDecl, lock, unlock string, target token.Pos) bool {
		var lockPos, deferPos token.Pos
		ast.Inspect(fd.Body, func(n ast.Node) bool {
			switch x := n.(type) {
			case *ast.ExprStmt:
				if call, ok := x.X.(*ast.CallExpr); ok && strings.HasSuffix(exprStr(call.Fun), ".entryLock."+lock) && lockPos == token.NoPos {
					lockPos = x.Pos()
				}
			case *ast.DeferStmt:
				if strings.HasSuffix(exprStr(x.Call.Fun), ".entryLock."+unlock) && deferPos == token.NoPos {
					deferPos = x.Pos()
				}
			}
			return true
		})
		return lockPos != token.NoPos && deferPos != token.NoPos && lockPos < deferPos && deferPos < target
	}
	lookupLocked := lockedBefore(cc, "RLock", "RUnlock", firstCallPos(cc, "GetCertRevocationStatus"))
	// the Loaded / Closed tests must come after the lock as well
	var loadedTest token.Pos
	ast.Inspect(cc.Body, func(n ast.Node) bool {
		if ifs, ok := n.(*ast.IfStmt); ok && (exprStr(ifs.Cond) == "repositoryEntry.Loaded" || exprStr(ifs.Cond) == "repositoryEntry.Closed") && loadedTest == token.NoPos {
			loadedTest = ifs.Pos()
		}
		return true
	})
	lookupLocked = lookupLocked && lockedBefore(cc, "RLock", "RUnlock", loadedTest)
	swapLocked := lockedBefore(ue, "Lock", "Unlock", firstCallPos(ue, "Update"))
	la := c.funcDecl(rp, "Repository", "loadActively")
	firstLoadLocked := lockedBefore(la, "Lock", "Unlock", firstCallPos(la, "loadCRL"))
	uc := c.funcDecl(rp, "Repository", "updateCRL")
	// updateCRL: Lock … if !Loaded { defer Unlock; return loadCRL } Unlock
	ucLock := token.NoPos
	ast.Inspect(uc.Body, func(n ast.Node) bool {
		if es, ok := n.(*ast.ExprStmt); ok {
			if call, ok := es.X.(*ast.CallExpr); ok && exprStr(call.Fun) == "entry.entryLock.Lock" && ucLock == token.NoPos {
				ucLock = es.Pos()
			}
		}
		return true
	})
	bgLoadLocked := ucLock != token.NoPos && ucLock < firstCallPos(uc, "loadCRL")
	// closed entries are skipped by updateCRL and refused by loadActively
	skipU := hasCond(uc, "entry.Closed")
	skipL := hasCond(la, "entry.Closed")
	if skipU != skipL {
		fail("%s: updateCRL and loadActively disagree on closed entries", c.pos(uc))
	}
	l.p("/-- crlrepository.go:updateCRL / loadActively — entries of a closed repository are neither refreshed nor loaded. -/")
	l.p("def closedEntriesSkipped : Bool := %v", skipU)
	l.p("/-- crlrepository.go:checkCrl — Closed/Loaded tests and the store lookup happen under the entry read lock (held until return). -/")
	l.p("def lookupHoldsReadLock : Bool := %v", lookupLocked)
	l.p("/-- crlrepository.go:updateEntry, loadActively, updateCRL — every store swap happens under the entry write lock. -/")
	l.p("def swapHoldsWriteLock : Bool := %v", swapLocked && firstLoadLocked && bgLoadLocked)
	l.write(out)
	c.facts["repo"] = map[string]interface{}{"strictOnly": gateStrictOnly, "stored": stored}
}


// genCandRules reads the if / else-if chain that picks the selection rule from the fields of the authority key identifier:
// which rule is tried in which order and which fields each one requires to be present. A rule that dereferences a field it
// did not require is a nil dereference in Go; the model turns that into its `panic` outcome.
func genCandRules(c *ctx, l *leanFile) {
	const rel = "core/certificatechains.go"
	fd := c.funcDecl(rel, "", "FindCertificateIssuerCandidates")
	var chain *ast.IfStmt
	ast.Inspect(fd.Body, func(n ast.Node) bool {
		if ifs, ok := n.(*ast.IfStmt); ok && chain == nil {
			if _, isCall := ifs.Body.List[len(ifs.Body.List)-1].(*ast.ReturnStmt); isCall && strings.Contains(exprStr(ifs.Cond), "authorityKeyIdentifier.") {
				chain = ifs
			}
		}
		return true
	})
	if chain == nil {
		fail("%s: FindCertificateIssuerCandidates: rule selection chain not found", c.pos(fd))
	}
	type rule struct {
		name  string
		needs []string
	}
	var rules []rule
	noRuleErr := false
	for cur := ast.Stmt(chain); cur != nil; {
		ifs, ok := cur.(*ast.IfStmt)
		if !ok {
			blk, isBlk := cur.(*ast.BlockStmt)
			if !isBlk || len(blk.List) != 1 || !strings.HasPrefix(c.src(blk.List[0]), "return nil, errors.New(") {
				fail("%s: FindCertificateIssuerCandidates: final branch is not `return nil, errors.New(..)`", c.pos(cur))
			}
			noRuleErr = true
			break
		}
		if len(ifs.Body.List) != 1 {
			fail("%s: FindCertificateIssuerCandidates: rule branch is not a single return", c.pos(ifs))
		}
		ret := c.src(ifs.Body.List[0])
		var r rule
		switch {
		case strings.HasPrefix(ret, "return findCertificateBySerialAndIssuer("):
			r.name = "serial+issuer"
		case strings.HasPrefix(ret, "return findCertificateCandidatesFromKeyIdentifier("):
			r.name = "keyid"
		default:
			fail("%s: FindCertificateIssuerCandidates: unrecognised rule: %s", c.pos(ifs), ret)
		}
		for _, cj := range strings.Split(exprStr(ifs.Cond), "&&") {
			switch cj {
			case "authorityKeyIdentifier.AuthorityCertSerialNumber!=nil":
				r.needs = append(r.needs, "serial")
			case "authorityKeyIdentifier.KeyIdentifier!=nil", "len(authorityKeyIdentifier.KeyIdentifier)>0":
				r.needs = append(r.needs, "keyid")
			case "len(authorityKeyIdentifier.AuthorityCertIssuer.DirectoryName.Bytes)>0":
				r.needs = append(r.needs, "issuer")
			case "&authorityKeyIdentifier.AuthorityCertIssuer.Raw!=nil":
				// the address of a field is never nil: no requirement
			default:
				fail("%s: FindCertificateIssuerCandidates: unrecognised condition %s", c.pos(ifs), cj)
			}
		}
		if r.name == "keyid" {
			has := false
			for _, n := range r.needs {
				has = has || n == "keyid"
			}
			if !has {
				fail("%s: FindCertificateIssuerCandidates: the key identifier rule does not require a key identifier", c.pos(ifs))
			}
		}
		rules = append(rules, r)
		cur = ifs.Else
		if cur == nil {
			break
		}
	}
	// inside the serial+issuer rule: the serial is compared first (dereferenced), the name only when present
	bs := c.funcDecl(rel, "", "findCertificateBySerialAndIssuer")
	if !hasCond(bs, "certCandidate.Certificate.SerialNumber.Cmp(identifier.AuthorityCertSerialNumber)==0") || !hasCond(bs, "len(identifier.AuthorityCertIssuer.DirectoryName.Bytes)>0") {
		fail("%s: findCertificateBySerialAndIssuer: serial comparison / name guard not recognised", c.pos(bs))
	}
	var parts []string
	for _, r := range rules {
		qs := make([]string, len(r.needs))
		for i, n := range r.needs {
			qs[i] = leanStr(n)
		}
		parts = append(parts, fmt.Sprintf("(%s, [%s])", leanStr(r.name), strings.Join(qs, ", ")))
	}
	l.p("/-- certificatechains.go:FindCertificateIssuerCandidates — with an authority key identifier present: the selection rules in the")
	l.p("order they are tried, each with the fields its guard requires to be present (`serial`, `issuer`, `keyid`); no rule applies => error. -/")
	l.p("def candRules : List (String × List String) := [%s]", strings.Join(parts, ", "))
	l.p("def candNoRuleIsError : Bool := %v", noRuleErr)
}
