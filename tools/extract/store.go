package main

// Facts for the key/hash/store models (C18, C09, C11): reserved key strings, FNV-1a constants and the shape of
// hashing.Sum64, the key separator, and the decision structure of the two GetCertRevocationStatus
// implementations and of Repository.checkCrl / IsRevoked (what each error condition is turned into).
// Everything is pattern based and fails closed.

import (
	"fmt"
	"go/ast"
	"go/token"
	"strings"
)

func stLeanBytes(s string) string {
	parts := make([]string, 0, len(s))
	for i := 0; i < len(s); i++ {
		parts = append(parts, fmt.Sprintf("%d", s[i]))
	}
	return "[" + strings.Join(parts, ", ") + "]"
}

// stStringConst returns the value of a package-level string constant.
func (c *ctx) stStringConst(rel, name string) string {
	for _, d := range c.file(rel).Decls {
		gd, ok := d.(*ast.GenDecl)
		if !ok || gd.Tok != token.CONST {
			continue
		}
		for _, s := range gd.Specs {
			vs := s.(*ast.ValueSpec)
			for i, n := range vs.Names {
				if n.Name != name {
					continue
				}
				if i >= len(vs.Values) {
					fail("%s: constant %s has no value", c.pos(vs), name)
				}
				bl, ok := vs.Values[i].(*ast.BasicLit)
				if !ok || bl.Kind != token.STRING {
					fail("%s: constant %s is not a string literal", c.pos(vs), name)
				}
				v := unquote(bl.Value)
				if strings.ContainsAny(v, "\\") {
					fail("%s: constant %s contains an escape sequence", c.pos(vs), name)
				}
				return v
			}
		}
	}
	fail("constant %s not found in %s", name, rel)
	return ""
}

func (c *ctx) stIntConst(rel, name string) string {
	for _, d := range c.file(rel).Decls {
		gd, ok := d.(*ast.GenDecl)
		if !ok || gd.Tok != token.CONST {
			continue
		}
		for _, s := range gd.Specs {
			vs := s.(*ast.ValueSpec)
			for i, n := range vs.Names {
				if n.Name != name {
					continue
				}
				if i >= len(vs.Values) {
					fail("%s: constant %s has no value", c.pos(vs), name)
				}
				bl, ok := vs.Values[i].(*ast.BasicLit)
				if !ok || bl.Kind != token.INT {
					fail("%s: constant %s is not an integer literal", c.pos(vs), name)
				}
				for _, ch := range bl.Value {
					if ch < '0' || ch > '9' {
						fail("%s: constant %s is not a decimal literal", c.pos(vs), name)
					}
				}
				return bl.Value
			}
		}
	}
	fail("constant %s not found in %s", name, rel)
	return ""
}

func stStmtStr(s ast.Stmt) string {
	switch x := s.(type) {
	case *ast.AssignStmt:
		var l, r []string
		for _, e := range x.Lhs {
			l = append(l, exprStr(e))
		}
		for _, e := range x.Rhs {
			r = append(r, exprStr(e))
		}
		return strings.Join(l, ",") + x.Tok.String() + strings.Join(r, ",")
	case *ast.ExprStmt:
		return exprStr(x.X)
	case *ast.ReturnStmt:
		var r []string
		for _, e := range x.Results {
			r = append(r, exprStr(e))
		}
		return "return " + strings.Join(r, ",")
	case *ast.IncDecStmt:
		return exprStr(x.X) + x.Tok.String()
	case *ast.DeclStmt:
		gd, ok := x.Decl.(*ast.GenDecl)
		if ok && len(gd.Specs) == 1 {
			if vs, ok := gd.Specs[0].(*ast.ValueSpec); ok && len(vs.Names) == 1 {
				out := "var " + vs.Names[0].Name + " " + exprStr(vs.Type)
				if len(vs.Values) == 1 {
					out += "=" + exprStr(vs.Values[0])
				}
				return out
			}
		}
		return "decl"
	case *ast.DeferStmt:
		return "defer " + exprStr(x.Call)
	case *ast.IfStmt:
		return "if " + exprStr(x.Cond)
	case *ast.ForStmt:
		return "for"
	case *ast.RangeStmt:
		return "range " + exprStr(x.X)
	}
	return fmt.Sprintf("<%T>", s)
}

// stStatusRet classifies a `return <status>, <err>` of a lookup function.
//   error       second result is not nil
//   notRevoked  &core.RevocationStatus{} or {Revoked: false, ...} with nil error
//   revoked     {Revoked: true, ...} with nil error
//   var:<id>    {Revoked: <id>, ...} with nil error
//   status      the identifier `status` (a status obtained from a callee) with nil error
func (c *ctx) stStatusRet(r *ast.ReturnStmt) string {
	if len(r.Results) != 2 {
		fail("%s: lookup return with %d results", c.pos(r), len(r.Results))
	}
	if exprStr(r.Results[1]) != "nil" {
		if exprStr(r.Results[0]) != "nil" {
			fail("%s: error return also carries a status: %s", c.pos(r), stStmtStr(r))
		}
		return "error"
	}
	switch x := r.Results[0].(type) {
	case *ast.Ident:
		if x.Name == "status" {
			return "status"
		}
	case *ast.UnaryExpr:
		cl, ok := x.X.(*ast.CompositeLit)
		if x.Op == token.AND && ok && exprStr(cl.Type) == "core.RevocationStatus" {
			kind := "notRevoked"
			for _, el := range cl.Elts {
				kv, ok := el.(*ast.KeyValueExpr)
				if !ok {
					fail("%s: positional RevocationStatus literal", c.pos(r))
				}
				if exprStr(kv.Key) == "Revoked" {
					switch v := exprStr(kv.Value); v {
					case "false":
						kind = "notRevoked"
					case "true":
						kind = "revoked"
					default:
						if _, ok := kv.Value.(*ast.Ident); !ok {
							fail("%s: unsupported Revoked value %s", c.pos(r), v)
						}
						kind = "var:" + v
					}
				}
			}
			return kind
		}
	}
	fail("%s: unsupported lookup return %s", c.pos(r), stStmtStr(r))
	return ""
}

func (c *ctx) stSingleReturn(b *ast.BlockStmt) *ast.ReturnStmt {
	if len(b.List) != 1 {
		fail("%s: block is not a single return", c.pos(b))
	}
	r, ok := b.List[0].(*ast.ReturnStmt)
	if !ok {
		fail("%s: block is not a single return", c.pos(b))
	}
	return r
}

func stLret(kind string) string {
	switch kind {
	case "error":
		return "LRet.error"
	case "notRevoked":
		return "LRet.notRevoked"
	case "revoked":
		return "LRet.revoked"
	}
	return "unknownLRet_" + strings.ReplaceAll(kind, ":", "_")
}

// keySeparator checks that lookup and insert of a backend build the key as issuer.String() + <sep> + serial.String()
// and returns the separator literal.
func (c *ctx) keySeparator(rel, recv string) string {
	sep := ""
	first := true
	for _, fn := range []struct{ name, l, r string }{
		{"GetCertRevocationStatus", "issuer.String()", "certSerial.String()"},
		{"InsertRevokedCert", "entry.Issuer.String()", "entry.RevokedCertificate.SerialNumber.String()"}} {
		fd := c.funcDecl(rel, recv, fn.name)
		as, ok := fd.Body.List[0].(*ast.AssignStmt)
		if !ok || len(as.Lhs) != 1 || exprStr(as.Lhs[0]) != "s" || len(as.Rhs) != 1 {
			fail("%s: %s.%s does not start with `s := <key>`", c.pos(fd), recv, fn.name)
		}
		outer, ok := as.Rhs[0].(*ast.BinaryExpr)
		if !ok || outer.Op != token.ADD {
			fail("%s: key expression is not a concatenation: %s", c.pos(as), exprStr(as.Rhs[0]))
		}
		inner, ok := outer.X.(*ast.BinaryExpr)
		if !ok || inner.Op != token.ADD {
			fail("%s: key expression is not issuer + sep + serial: %s", c.pos(as), exprStr(as.Rhs[0]))
		}
		lit, ok := inner.Y.(*ast.BasicLit)
		if !ok || lit.Kind != token.STRING || strings.Contains(lit.Value, "\\") {
			fail("%s: key separator is not a plain string literal", c.pos(as))
		}
		if exprStr(inner.X) != fn.l || exprStr(outer.Y) != fn.r {
			fail("%s: %s.%s builds its key as %s, expected %s + sep + %s", c.pos(as), recv, fn.name, exprStr(as.Rhs[0]), fn.l, fn.r)
		}
		if !first && sep != unquote(lit.Value) {
			fail("%s: lookup and insert use different separators", c.pos(as))
		}
		sep, first = unquote(lit.Value), false
	}
	return sep
}

func genStore(c *ctx, out string) {
	l := newLean("Store")
	l.p("namespace Store")
	l.p("")
	facts := map[string]interface{}{}

	l.p("/-- What a lookup function returns on a given condition. -/")
	l.p("inductive LRet | notRevoked | revoked | error")
	l.p("  deriving DecidableEq, Repr")
	l.p("")

	// ---- reserved keys (crl/crlstore/crlstore.go) ----
	const cs = "crl/crlstore/crlstore.go"
	for _, k := range [][2]string{{"MetaInfoKey", "metaKey"}, {"ExtendedMetaInfoKey", "extKey"}, {"SignatureCertKey", "sigKey"}, {"CRLLocationKey", "locKey"}} {
		v := c.stStringConst(cs, k[0])
		l.p("/-- %s: %s = %s -/", cs, k[0], leanStr(v))
		l.p("def %s : List UInt8 := %s", k[1], stLeanBytes(v))
		facts[k[1]] = v
	}
	l.p("")

	// ---- FNV-1a (core/hashing/hashes.go) ----
	const hs = "core/hashing/hashes.go"
	off, prime := c.stIntConst(hs, "offset64"), c.stIntConst(hs, "prime64")
	fd := c.funcDecl(hs, "", "Sum64")
	want := []string{
		"var hash uint64=offset64",
		"for",
		"b:=make([]byte,8)",
		"binary.LittleEndian.PutUint64(b,hash)",
		"return b",
	}
	if len(fd.Body.List) != len(want) {
		fail("%s: Sum64 has %d statements, expected %d", c.pos(fd), len(fd.Body.List), len(want))
	}
	for i, s := range fd.Body.List {
		if stStmtStr(s) != want[i] {
			fail("%s: Sum64 statement %d is `%s`, expected `%s`", c.pos(s), i, stStmtStr(s), want[i])
		}
	}
	loop := fd.Body.List[1].(*ast.ForStmt)
	if loop.Init == nil || stStmtStr(loop.Init) != "i:=0" || exprStr(loop.Cond) != "i<len(key)" || loop.Post == nil || stStmtStr(loop.Post) != "i++" {
		fail("%s: Sum64 loop header is not `for i := 0; i < len(key); i++`", c.pos(loop))
	}
	if len(loop.Body.List) != 2 || stStmtStr(loop.Body.List[0]) != "hash^=uint64(key[i])" || stStmtStr(loop.Body.List[1]) != "hash*=prime64" {
		fail("%s: Sum64 loop body is not `hash ^= uint64(key[i]); hash *= prime64`", c.pos(loop))
	}
	l.p("/-- %s: offset64, prime64; Sum64 = for each byte: xor, then multiply (mod 2^64); output 8 bytes little endian (%s) -/", hs, c.pos(fd))
	l.p("def fnvOffset : Nat := %s", off)
	l.p("def fnvPrime : Nat := %s", prime)
	l.p("")
	facts["fnvOffset"], facts["fnvPrime"] = off, prime

	// ---- key construction ----
	const ldb, mp = "crl/crlstore/leveldb.go", "crl/crlstore/map.go"
	sepL, sepM := c.keySeparator(ldb, "LevelDbStore"), c.keySeparator(mp, "MapStore")
	if sepL != sepM {
		fail("map and leveldb stores use different key separators")
	}
	l.p("/-- key = issuer.String() ++ sep ++ serial.String() in both backends, lookup and insert -/")
	l.p("def keySep : List UInt8 := %s", stLeanBytes(sepL))
	l.p("")
	facts["keySep"] = sepL

	// ---- LevelDbStore.GetCertRevocationStatus ----
	fd = c.funcDecl(ldb, "LevelDbStore", "GetCertRevocationStatus")
	errSrc := ""
	res := map[string]string{}
	for i, s := range fd.Body.List {
		switch x := s.(type) {
		case *ast.AssignStmt:
			rhs := exprStr(x.Rhs[0])
			switch {
			case i == 0: // key, checked above
			case rhs == "hashing.Sum64(s)" && stStmtStr(x) == "hash:=hashing.Sum64(s)":
			case rhs == "S.Db.Get(hash,nil)" && stStmtStr(x) == "revokedCertBytes,err:=S.Db.Get(hash,nil)":
				errSrc = "get"
			case rhs == "S.Serializer.DeserializeRevokedCert(revokedCertBytes)" && len(x.Lhs) == 2 && exprStr(x.Lhs[1]) == "err":
				if errSrc != "get" || res["getErr"] == "" {
					fail("%s: value is decoded before the read error was examined", c.pos(x))
				}
				errSrc = "decode"
			default:
				fail("%s: LevelDbStore.GetCertRevocationStatus: unrecognised statement `%s`", c.pos(x), stStmtStr(x))
			}
		case *ast.IfStmt:
			if x.Init != nil || x.Else != nil {
				fail("%s: LevelDbStore.GetCertRevocationStatus: if with init/else", c.pos(x))
			}
			kind := c.stStatusRet(c.stSingleReturn(x.Body))
			switch cond := exprStr(x.Cond); cond {
			case "errors.Is(err,leveldb.ErrNotFound)", "err==leveldb.ErrNotFound":
				if errSrc != "get" || res["getErr"] != "" {
					fail("%s: ErrNotFound test is not directly after the read", c.pos(x))
				}
				res["notFound"] = kind
			case "err!=nil":
				switch errSrc {
				case "get":
					res["getErr"] = kind
					if res["notFound"] == "" {
						res["notFound"] = kind
					}
				case "decode":
					res["decodeErr"] = kind
				default:
					fail("%s: err tested before any call", c.pos(x))
				}
			default:
				fail("%s: LevelDbStore.GetCertRevocationStatus: unrecognised condition `%s`", c.pos(x), cond)
			}
		case *ast.ReturnStmt:
			if i != len(fd.Body.List)-1 || errSrc != "decode" || res["decodeErr"] == "" {
				fail("%s: LevelDbStore.GetCertRevocationStatus: unexpected return", c.pos(x))
			}
			res["ok"] = c.stStatusRet(x)
		default:
			fail("%s: LevelDbStore.GetCertRevocationStatus: unrecognised statement `%s`", c.pos(s), stStmtStr(s))
		}
	}
	for _, k := range []string{"notFound", "getErr", "decodeErr", "ok"} {
		if res[k] == "" {
			fail("%s: LevelDbStore.GetCertRevocationStatus: no decision found for %s", c.pos(fd), k)
		}
	}
	l.p("/-- %s LevelDbStore.GetCertRevocationStatus: outcome per condition of Db.Get / the deserializer -/", c.pos(fd))
	l.p("def ldbOnNotFound : LRet := %s", stLret(res["notFound"]))
	l.p("def ldbOnGetErr : LRet := %s", stLret(res["getErr"]))
	l.p("def ldbOnDecodeErr : LRet := %s", stLret(res["decodeErr"]))
	l.p("def ldbOnOk : LRet := %s", stLret(res["ok"]))
	l.p("")
	facts["ldbLookup"] = res

	// ---- MapStore.get and MapStore.GetCertRevocationStatus ----
	fd = c.funcDecl(mp, "MapStore", "get")
	wantGet := []string{"bytes:=S.Map[string(hashing.Sum64(key))]", "if bytes==nil", "return bytes,nil"}
	if len(fd.Body.List) != len(wantGet) {
		fail("%s: MapStore.get has an unexpected shape", c.pos(fd))
	}
	for i, s := range fd.Body.List {
		if stStmtStr(s) != wantGet[i] {
			fail("%s: MapStore.get statement %d is `%s`, expected `%s`", c.pos(s), i, stStmtStr(s), wantGet[i])
		}
	}
	gr := c.stSingleReturn(fd.Body.List[1].(*ast.IfStmt).Body)
	if len(gr.Results) != 2 || exprStr(gr.Results[0]) != "nil" || exprStr(gr.Results[1]) == "nil" {
		fail("%s: MapStore.get: a missing key does not yield an error", c.pos(gr))
	}
	fd = c.funcDecl(mp, "MapStore", "set")
	if len(fd.Body.List) != 2 || stStmtStr(fd.Body.List[0]) != "S.Map[string(hashing.Sum64(key))]=bytes" || stStmtStr(fd.Body.List[1]) != "return nil" {
		fail("%s: MapStore.set has an unexpected shape", c.pos(fd))
	}
	fd = c.funcDecl(mp, "MapStore", "GetCertRevocationStatus")
	mres := map[string]string{}
	wantMap := []string{"", "revokedCertBytes,err:=S.get(s)", "revoked:=false", "var revokedCert *pkix.RevokedCertificate", "if err==nil", ""}
	if len(fd.Body.List) != len(wantMap) {
		fail("%s: MapStore.GetCertRevocationStatus has %d statements, expected %d", c.pos(fd), len(fd.Body.List), len(wantMap))
	}
	for i, s := range fd.Body.List {
		if wantMap[i] != "" && stStmtStr(s) != wantMap[i] {
			fail("%s: MapStore.GetCertRevocationStatus statement %d is `%s`, expected `%s`", c.pos(s), i, stStmtStr(s), wantMap[i])
		}
	}
	ifs := fd.Body.List[4].(*ast.IfStmt)
	if ifs.Else != nil || ifs.Init != nil || len(ifs.Body.List) != 3 ||
		stStmtStr(ifs.Body.List[0]) != "revokedCert,err=S.Serializer.DeserializeRevokedCert(revokedCertBytes)" ||
		stStmtStr(ifs.Body.List[1]) != "revoked=true" || stStmtStr(ifs.Body.List[2]) != "if err!=nil" {
		fail("%s: MapStore.GetCertRevocationStatus: unexpected body of `if err == nil`", c.pos(ifs))
	}
	inner := ifs.Body.List[2].(*ast.IfStmt)
	if inner.Else != nil || inner.Init != nil {
		fail("%s: unexpected else", c.pos(inner))
	}
	mres["decodeErr"] = c.stStatusRet(c.stSingleReturn(inner.Body))
	fr, ok := fd.Body.List[5].(*ast.ReturnStmt)
	if !ok || c.stStatusRet(fr) != "var:revoked" {
		fail("%s: MapStore.GetCertRevocationStatus does not end in `return &core.RevocationStatus{Revoked: revoked, …}, nil`", c.pos(fd))
	}
	mres["notFound"] = "notRevoked" // revoked := false, left untouched when get fails
	mres["ok"] = "revoked"          // revoked = true in the err == nil branch
	l.p("/-- %s MapStore.GetCertRevocationStatus (the only error of MapStore.get is a missing/nil value) -/", c.pos(fd))
	l.p("def mapOnNotFound : LRet := %s", stLret(mres["notFound"]))
	l.p("def mapOnDecodeErr : LRet := %s", stLret(mres["decodeErr"]))
	l.p("def mapOnOk : LRet := %s", stLret(mres["ok"]))
	l.p("")
	facts["mapLookup"] = mres

	// ---- Repository.checkCrl / IsRevoked (crl/crlrepository/crlrepository.go) ----
	const rp = "crl/crlrepository/crlrepository.go"
	fd = c.funcDecl(rp, "Repository", "checkCrl")
	b := fd.Body.List
	if len(b) != 5 || stStmtStr(b[0]) != "issuerRDNSequence,err:=asn1parser.ParseIssuerRDNSequence(certificate)" || stStmtStr(b[1]) != "if err!=nil" ||
		stStmtStr(b[2]) != "repositoryEntry:=R.getEntrySync(identifier)" || stStmtStr(b[3]) != "if repositoryEntry!=nil" {
		fail("%s: Repository.checkCrl has an unexpected outline", c.pos(fd))
	}
	cres := map[string]string{}
	cres["issuerParseErr"] = c.stStatusRet(c.stSingleReturn(b[1].(*ast.IfStmt).Body))
	final, ok := b[4].(*ast.ReturnStmt)
	if !ok {
		fail("%s: Repository.checkCrl does not end in a return", c.pos(fd))
	}
	cres["fallthrough"] = c.stStatusRet(final)
	eb := b[3].(*ast.IfStmt)
	if eb.Else != nil || len(eb.Body.List) < 3 || stStmtStr(eb.Body.List[0]) != "repositoryEntry.entryLock.RLock()" ||
		stStmtStr(eb.Body.List[1]) != "defer repositoryEntry.entryLock.RUnlock()" {
		fail("%s: Repository.checkCrl: unexpected body of `if repositoryEntry != nil`", c.pos(eb))
	}
	rest := eb.Body.List[2:]
	cres["closed"] = "skip" // no test of the Closed flag
	if len(rest) == 2 && stStmtStr(rest[0]) == "if repositoryEntry.Closed" {
		ci := rest[0].(*ast.IfStmt)
		if ci.Else != nil || ci.Init != nil {
			fail("%s: unexpected else/init", c.pos(ci))
		}
		cres["closed"] = c.stStatusRet(c.stSingleReturn(ci.Body))
		rest = rest[1:]
	}
	if len(rest) != 1 || stStmtStr(rest[0]) != "if repositoryEntry.Loaded" {
		fail("%s: Repository.checkCrl: unexpected body of `if repositoryEntry != nil`", c.pos(eb))
	}
	lb := rest[0].(*ast.IfStmt)
	if lb.Else != nil {
		fail("%s: unexpected else", c.pos(lb))
	}
	seenLookup := false
	for _, s := range lb.Body.List {
		switch x := s.(type) {
		case *ast.AssignStmt:
			if stStmtStr(x) != "status,err:=repositoryEntry.CRLStore.GetCertRevocationStatus(issuerRDNSequence,certificate.SerialNumber)" {
				fail("%s: Repository.checkCrl: unrecognised statement `%s`", c.pos(x), stStmtStr(x))
			}
			seenLookup = true
		case *ast.IfStmt:
			if x.Else != nil || x.Init != nil {
				fail("%s: unexpected else/init", c.pos(x))
			}
			kind := c.stStatusRet(c.stSingleReturn(x.Body))
			switch cond := exprStr(x.Cond); {
			case cond == "repositoryEntry.CRLStore==nil" && !seenLookup:
				cres["storeNil"] = kind
			case cond == "err!=nil" && seenLookup:
				cres["lookupErr"] = kind
			case cond == "status.Revoked" && seenLookup && cres["lookupErr"] != "":
				cres["revoked"] = kind
			default:
				fail("%s: Repository.checkCrl: unrecognised condition `%s`", c.pos(x), cond)
			}
		default:
			fail("%s: Repository.checkCrl: unrecognised statement `%s`", c.pos(s), stStmtStr(s))
		}
	}
	if cres["storeNil"] == "" {
		cres["storeNil"] = "panic" // CRLStore is dereferenced without a nil test
	}
	for _, k := range []string{"lookupErr", "revoked"} {
		if cres[k] == "" {
			fail("%s: Repository.checkCrl: no decision found for %s", c.pos(fd), k)
		}
	}
	if cres["revoked"] != "status" || cres["fallthrough"] != "notRevoked" {
		fail("%s: Repository.checkCrl: revoked status is not passed on / fall-through is not 'not revoked'", c.pos(fd))
	}
	l.p("/-- Outcome classes of Repository.checkCrl per condition. -/")
	l.p("inductive CRet | notRevoked | passStatus | error | panic | skip")
	l.p("  deriving DecidableEq, Repr")
	cret := func(k string) string {
		switch k {
		case "error":
			return "CRet.error"
		case "notRevoked":
			return "CRet.notRevoked"
		case "status":
			return "CRet.passStatus"
		case "panic":
			return "CRet.panic"
		case "skip":
			return "CRet.skip"
		}
		return "unknownCRet_" + k
	}
	l.p("/-- %s Repository.checkCrl: entry absent or not loaded falls through to 'not revoked'; otherwise: -/", c.pos(fd))
	l.p("def checkOnClosed : CRet := %s  -- `skip`: the Closed flag is not examined", cret(cres["closed"]))
	l.p("def checkOnStoreNil : CRet := %s", cret(cres["storeNil"]))
	l.p("def checkOnLookupErr : CRet := %s", cret(cres["lookupErr"]))
	l.p("def checkOnRevoked : CRet := %s", cret(cres["revoked"]))
	l.p("def checkFallthrough : CRet := %s", cret(cres["fallthrough"]))
	l.p("")
	facts["checkCrl"] = cres

	fd = c.funcDecl(rp, "Repository", "closeRepositoryEntry")
	var cl []string
	for _, st := range fd.Body.List {
		cl = append(cl, stStmtStr(st))
	}
	shape := strings.Join(cl, " ; ")
	closeFacts := map[string]bool{}
	switch shape {
	case "entry.entryLock.Lock() ; defer entry.entryLock.Unlock() ; if entry.Closed ; if entry.CRLStore!=nil ; entry.Closed=true":
		i1, i2 := fd.Body.List[2].(*ast.IfStmt), fd.Body.List[3].(*ast.IfStmt)
		if i1.Else != nil || len(i1.Body.List) != 1 || stStmtStr(i1.Body.List[0]) != "return " ||
			i2.Else != nil || len(i2.Body.List) != 1 || stStmtStr(i2.Body.List[0]) != "entry.CRLStore.Close()" {
			fail("%s: Repository.closeRepositoryEntry: unexpected branch bodies", c.pos(fd))
		}
		closeFacts["marksClosed"], closeFacts["dropsEntry"], closeFacts["nilStoreGuard"], closeFacts["idempotent"] = true, false, true, true
	case "entry.entryLock.Lock() ; defer entry.entryLock.Unlock() ; entry.CRLStore.Close() ; R.crlRepository[id]=nil":
		closeFacts["marksClosed"], closeFacts["dropsEntry"], closeFacts["nilStoreGuard"], closeFacts["idempotent"] = false, true, false, false
	default:
		fail("%s: Repository.closeRepositoryEntry has an unrecognised shape: %s", c.pos(fd), shape)
	}
	l.p("/-- %s Repository.closeRepositoryEntry (per entry, under the entry lock) -/", c.pos(fd))
	l.p("def closeMarksClosed : Bool := %v", closeFacts["marksClosed"])
	l.p("def closeDropsEntry : Bool := %v   -- sets the map slot to nil", closeFacts["dropsEntry"])
	l.p("def closeNilStoreGuard : Bool := %v", closeFacts["nilStoreGuard"])
	l.p("def closeIdempotent : Bool := %v   -- returns early when already closed", closeFacts["idempotent"])
	l.p("")
	facts["closeRepositoryEntry"] = closeFacts

	fd = c.funcDecl(rp, "Repository", "IsRevoked")
	n := len(fd.Body.List)
	if n < 3 {
		fail("%s: Repository.IsRevoked too short", c.pos(fd))
	}
	rng, ok := fd.Body.List[n-2].(*ast.RangeStmt)
	if !ok || stStmtStr(fd.Body.List[n-3]) != "identifiers:=R.getCurrentIdentifiers()" || exprStr(rng.X) != "identifiers" {
		fail("%s: Repository.IsRevoked does not walk R.getCurrentIdentifiers()", c.pos(fd))
	}
	ires := map[string]string{}
	if len(rng.Body.List) != 3 || stStmtStr(rng.Body.List[0]) != "status,err:=R.checkCrl(certificate,identifier)" ||
		stStmtStr(rng.Body.List[1]) != "if err!=nil" || stStmtStr(rng.Body.List[2]) != "if status.Revoked" {
		fail("%s: Repository.IsRevoked: unexpected loop body", c.pos(rng))
	}
	ires["err"] = c.stStatusRet(c.stSingleReturn(rng.Body.List[1].(*ast.IfStmt).Body))
	ires["revoked"] = c.stStatusRet(c.stSingleReturn(rng.Body.List[2].(*ast.IfStmt).Body))
	ires["end"] = c.stStatusRet(fd.Body.List[n-1].(*ast.ReturnStmt))
	l.p("/-- %s Repository.IsRevoked: loop over all identifiers; per entry result: -/", c.pos(fd))
	l.p("def walkOnErr : CRet := %s", cret(ires["err"]))
	l.p("def walkOnRevoked : CRet := %s", cret(ires["revoked"]))
	l.p("def walkEnd : CRet := %s", cret(ires["end"]))
	facts["isRevokedWalk"] = ires

	// ---- serializer: CRLMetaInfo read-back of a NextUpdate written as GeneralizedTime (asn1serializer.go) ----
	const as = "crl/crlstore/asn1serializer.go"
	dm := c.funcDecl(as, "ASN1Serializer", "DeserializeMetaInfo")
	var dms []string
	for _, st := range dm.Body.List {
		dms = append(dms, stStmtStr(st))
	}
	fallback := false
	switch strings.Join(dms, ";") {
	case "metaInfo:=new(crlreader.CRLMetaInfo);_,err:=asn1.Unmarshal(crlMetaBytes,metaInfo);if err!=nil;return metaInfo,nil":
		ifs := dm.Body.List[2].(*ast.IfStmt)
		var inner []string
		for _, st := range ifs.Body.List {
			inner = append(inner, stStmtStr(st))
		}
		switch strings.Join(inner, ";") {
		case "return nil,err":
		case "rawNextUpdate:=new(crlMetaInfoRawNextUpdate);_,errRaw:=asn1.Unmarshal(crlMetaBytes,rawNextUpdate);if errRaw!=nil;" +
			"nextUpdate,errRaw:=time.Parse(\"20060102150405Z0700\",string(rawNextUpdate.NextUpdate.Bytes));if errRaw!=nil;return &{...},nil":
			// the returned value copies issuer and thisUpdate and carries the parsed time
			ret := ifs.Body.List[5].(*ast.ReturnStmt)
			ue, isU := ret.Results[0].(*ast.UnaryExpr)
			var cl *ast.CompositeLit
			if isU {
				cl, _ = ue.X.(*ast.CompositeLit)
			}
			if cl == nil || exprStr(cl.Type) != "crlreader.CRLMetaInfo" || len(cl.Elts) != 3 {
				fail("%s: DeserializeMetaInfo: fallback does not return a CRLMetaInfo built from the three fields", c.pos(dm))
			}
			for i, f := range [][2]string{{"Issuer", "rawNextUpdate.Issuer"}, {"ThisUpdate", "rawNextUpdate.ThisUpdate"}, {"NextUpdate", "nextUpdate"}} {
				kv, isKV := cl.Elts[i].(*ast.KeyValueExpr)
				if !isKV || exprStr(kv.Key) != f[0] || exprStr(kv.Value) != f[1] {
					fail("%s: DeserializeMetaInfo: fallback field %s is not %s", c.pos(dm), f[0], f[1])
				}
			}
			// the fallback type: same fields, NextUpdate left raw (optional)
			ok := false
			for _, d := range c.file(as).Decls {
				gd, isG := d.(*ast.GenDecl)
				if !isG || gd.Tok != token.TYPE {
					continue
				}
				for _, sp := range gd.Specs {
					ts := sp.(*ast.TypeSpec)
					st, isS := ts.Type.(*ast.StructType)
					if ts.Name.Name != "crlMetaInfoRawNextUpdate" || !isS || len(st.Fields.List) != 3 {
						continue
					}
					f := st.Fields.List
					if exprStr(f[0].Type) == "pkix.RDNSequence" && f[0].Names[0].Name == "Issuer" && f[0].Tag == nil &&
						exprStr(f[1].Type) == "time.Time" && f[1].Names[0].Name == "ThisUpdate" && f[1].Tag == nil &&
						exprStr(f[2].Type) == "asn1.RawValue" && f[2].Names[0].Name == "NextUpdate" && f[2].Tag != nil &&
						unquote(f[2].Tag.Value) == `asn1:"optional"` {
						ok = true
					}
				}
			}
			if !ok {
				fail("%s: crlMetaInfoRawNextUpdate is not CRLMetaInfo with a raw optional NextUpdate", c.pos(dm))
			}
			// both error exits of the fallback return the ORIGINAL error (the value stays unreadable, never half-read)
			for _, k := range []int{2, 4} {
				if r := c.stSingleReturn(ifs.Body.List[k].(*ast.IfStmt).Body); len(r.Results) != 2 || exprStr(r.Results[0]) != "nil" || exprStr(r.Results[1]) != "err" {
					fail("%s: DeserializeMetaInfo: fallback error exit %d does not return the original error", c.pos(dm), k)
				}
			}
			fallback = true
		default:
			fail("%s: DeserializeMetaInfo: unexpected error branch %q", c.pos(dm), strings.Join(inner, ";"))
		}
	default:
		fail("%s: DeserializeMetaInfo: unexpected body %q", c.pos(dm), strings.Join(dms, ";"))
	}
	// the tag of the stored type itself (crlreader.CRLMetaInfo.NextUpdate)
	l.p("/-- %s DeserializeMetaInfo: a value asn1.Unmarshal rejects as CRLMetaInfo is read again with NextUpdate left raw and parsed as a four-digit-year (GeneralizedTime) time. -/", c.pos(dm))
	l.p("def metaGeneralizedFallback : Bool := %v", fallback)
	facts["metaGeneralizedFallback"] = fallback

	l.p("")
	l.p("end Store")
	c.facts["store"] = facts
	l.write(out)
}
