package main

func genConfig(c *ctx, out string) {
}
