package main

// Configuration facts (C19): the Caddyfile block parsers of caddyfile.go as key tables,
// UnmarshalCaddyfile / Provision / validateConfig of revocation.go as step lists,
// ParseConfig and the value parsers of configparser.go, struct tags of config/config.go.
// Everything is recognised by shape; an unknown shape is an error (fail closed).

import (
	"bytes"
	"fmt"
	"go/ast"
	"go/printer"
	"go/token"
	"reflect"
	"regexp"
	"strconv"
	"strings"
)

var wsRun = regexp.MustCompile(`\s+`)

// src renders a node as normalised source text (single spaces).
func (c *ctx) src(n ast.Node) string {
	var b bytes.Buffer
	if err := printer.Fprint(&b, c.fset, n); err != nil {
		fail("print: %v", err)
	}
	return strings.TrimSpace(wsRun.ReplaceAllString(b.String(), " "))
}

// ---- Caddyfile block parsers ---------------------------------------------------------------

type keyRule struct {
	Key   string `json:"key"`
	Act   string `json:"act"`
	Field string `json:"field"`
	Const string `json:"const,omitempty"`
	Pos   string `json:"pos"`
}

type blockFacts struct {
	Name       string    `json:"name"`
	Keys       []keyRule `json:"keys"`
	HasDefault bool      `json:"has_default"`
	ByPointer  bool      `json:"by_pointer"`
}

// Go struct field -> (Lean field constructor, kind)
type fieldInfo struct{ lean, kind string }

var blockFields = map[string]map[string]fieldInfo{
	"top": {
		"Mode":       {"TopField.mode", "str"},
		"CRLConfig":  {"TopField.crl", "sub:crl"},
		"OCSPConfig": {"TopField.ocsp", "sub:ocsp"},
	},
	"crl": {
		"WorkDir":                    {"CrlField.workDir", "str"},
		"StorageType":                {"CrlField.storage", "str"},
		"UpdateInterval":             {"CrlField.interval", "str"},
		"SignatureValidationMode":    {"CrlField.sigMode", "str"},
		"CRLUrls":                    {"CrlField.urls", "list"},
		"CRLFiles":                   {"CrlField.files", "list"},
		"TrustedSignatureCertsFiles": {"CrlField.signers", "list"},
		"CDPConfig":                  {"CrlField.cdp", "sub:cdp"},
	},
	"cdp": {
		"CRLFetchMode": {"CdpField.fetchMode", "str"},
		"CRLCDPStrict": {"CdpField.strict", "bool"},
	},
	"ocsp": {
		"DefaultCacheDuration":       {"OcspField.cacheDuration", "str"},
		"TrustedResponderCertsFiles": {"OcspField.responders", "list"},
		"OCSPAIAStrict":              {"OcspField.aiaStrict", "bool"},
	},
}

var subParsers = map[string]string{
	"parseCaddyfileCRLConfig":    "crl",
	"parseCaddyfileOCSPConfig":   "ocsp",
	"parseCaddyfileCRLCDPConfig": "cdp",
}

// isErrReturn: `return nil, <non-nil>[, true]`; nres = number of results expected.
func (c *ctx) isErrReturn(s ast.Stmt, nres int) bool {
	r, ok := s.(*ast.ReturnStmt)
	if !ok || len(r.Results) != nres {
		return false
	}
	if exprStr(r.Results[0]) != "nil" || exprStr(r.Results[1]) == "nil" {
		return false
	}
	if nres == 3 && exprStr(r.Results[2]) != "true" {
		return false
	}
	return true
}

// recogniseCases translates the case clauses of a block parser's switch. recv = name of the struct
// variable/parameter the cases assign to; nres = result arity of the enclosing function.
func (c *ctx) recogniseCases(block string, sw *ast.SwitchStmt, recv string, nres int) ([]keyRule, bool) {
	var rules []keyRule
	hasDefault := false
	fields := blockFields[block]
	for _, cl := range sw.Body.List {
		cc := cl.(*ast.CaseClause)
		if cc.List == nil {
			if len(cc.Body) != 1 || !c.isErrReturn(cc.Body[0], nres) {
				fail("%s: default branch of the %s block parser is not a single error return", c.pos(cc), block)
			}
			hasDefault = true
			continue
		}
		body := cc.Body
		rule := keyRule{Pos: c.pos(cc)}
		fieldOf := func(lhs ast.Expr) fieldInfo {
			sel, ok := lhs.(*ast.SelectorExpr)
			if !ok || exprStr(sel.X) != recv {
				fail("%s: assignment target %s is not a field of %s", c.pos(lhs), exprStr(lhs), recv)
			}
			fi, ok := fields[sel.Sel.Name]
			if !ok {
				fail("%s: unknown field %s of the %s block", c.pos(lhs), sel.Sel.Name, block)
			}
			rule.Field = fi.lean
			return fi
		}
		if len(body) == 0 {
			fail("%s: empty case body", c.pos(cc))
		}
		if c.src(body[0]) != "" && strings.HasPrefix(c.src(body[0]), "if !d.NextArg() {") {
			ifs := body[0].(*ast.IfStmt)
			if ifs.Else != nil || len(ifs.Body.List) != 1 || !c.isErrReturn(ifs.Body.List[0], nres) {
				fail("%s: missing-argument branch is not an error return", c.pos(ifs))
			}
			rest := body[1:]
			switch len(rest) {
			case 1:
				as, ok := rest[0].(*ast.AssignStmt)
				if !ok || as.Tok != token.ASSIGN || len(as.Lhs) != 1 || len(as.Rhs) != 1 {
					fail("%s: unsupported case body", c.pos(rest[0]))
				}
				fi := fieldOf(as.Lhs[0])
				rhs := exprStr(as.Rhs[0])
				switch {
				case rhs == "d.Val()":
					rule.Act = "str"
					if fi.kind != "str" {
						fail("%s: d.Val() assigned to non-string field", c.pos(as))
					}
				case rhs == "append("+exprStr(as.Lhs[0])+",d.Val())":
					rule.Act = "append"
					if fi.kind != "list" {
						fail("%s: append on non-list field", c.pos(as))
					}
				case rhs == "true" || rhs == "false":
					rule.Act = "constBool"
					rule.Const = rhs
					if fi.kind != "bool" {
						fail("%s: bool literal assigned to non-bool field", c.pos(as))
					}
				default:
					fail("%s: unsupported right-hand side %s", c.pos(as), rhs)
				}
			case 3:
				// b, err := strconv.ParseBool(d.Val()); if err != nil { return … }; X.F = b
				as0, ok := rest[0].(*ast.AssignStmt)
				if !ok || as0.Tok != token.DEFINE || len(as0.Lhs) != 2 || exprStr(as0.Lhs[1]) != "err" ||
					len(as0.Rhs) != 1 || exprStr(as0.Rhs[0]) != "strconv.ParseBool(d.Val())" {
					fail("%s: unsupported case body (expected strconv.ParseBool(d.Val()))", c.pos(rest[0]))
				}
				bvar := exprStr(as0.Lhs[0])
				ifs, ok := rest[1].(*ast.IfStmt)
				if !ok || ifs.Init != nil || ifs.Else != nil || exprStr(ifs.Cond) != "err!=nil" ||
					len(ifs.Body.List) != 1 || !c.isErrReturn(ifs.Body.List[0], nres) {
					fail("%s: ParseBool error is not returned", c.pos(rest[1]))
				}
				as2, ok := rest[2].(*ast.AssignStmt)
				if !ok || as2.Tok != token.ASSIGN || len(as2.Lhs) != 1 || len(as2.Rhs) != 1 {
					fail("%s: unsupported case body", c.pos(rest[2]))
				}
				fi := fieldOf(as2.Lhs[0])
				if fi.kind != "bool" {
					fail("%s: bool assigned to non-bool field", c.pos(as2))
				}
				rhs := exprStr(as2.Rhs[0])
				switch rhs {
				case bvar:
					rule.Act = "parsedBool"
				case "true", "false":
					rule.Act = "constBool"
					rule.Const = rhs
				default:
					fail("%s: unsupported right-hand side %s", c.pos(as2), rhs)
				}
			default:
				fail("%s: unsupported case body (%d statements after the argument check)", c.pos(cc), len(rest))
			}
		} else {
			// v, err := parseSub(d); if err != nil { return nil, err[, true] }; X.F = v
			if len(body) != 3 {
				fail("%s: unsupported case body", c.pos(cc))
			}
			as0, ok := body[0].(*ast.AssignStmt)
			if !ok || as0.Tok != token.DEFINE || len(as0.Lhs) != 2 || exprStr(as0.Lhs[1]) != "err" || len(as0.Rhs) != 1 {
				fail("%s: unsupported case body", c.pos(body[0]))
			}
			call, ok := as0.Rhs[0].(*ast.CallExpr)
			if !ok || len(call.Args) != 1 || exprStr(call.Args[0]) != "d" {
				fail("%s: unsupported case body", c.pos(body[0]))
			}
			sub, ok := subParsers[exprStr(call.Fun)]
			if !ok {
				fail("%s: unknown sub-block parser %s", c.pos(call), exprStr(call.Fun))
			}
			ifs, ok := body[1].(*ast.IfStmt)
			if !ok || ifs.Init != nil || ifs.Else != nil || exprStr(ifs.Cond) != "err!=nil" ||
				len(ifs.Body.List) != 1 || !c.isErrReturn(ifs.Body.List[0], nres) {
				fail("%s: sub-block parser error is not returned", c.pos(body[1]))
			}
			as2, ok := body[2].(*ast.AssignStmt)
			if !ok || as2.Tok != token.ASSIGN || len(as2.Lhs) != 1 || len(as2.Rhs) != 1 || exprStr(as2.Rhs[0]) != exprStr(as0.Lhs[0]) {
				fail("%s: sub-block result is not assigned", c.pos(body[2]))
			}
			fi := fieldOf(as2.Lhs[0])
			if fi.kind != "sub:"+sub {
				fail("%s: result of %s assigned to field of kind %s", c.pos(as2), exprStr(call.Fun), fi.kind)
			}
			rule.Act = "sub"
		}
		for _, l := range cc.List {
			bl, ok := l.(*ast.BasicLit)
			if !ok || bl.Kind != token.STRING {
				fail("%s: case label is not a string literal", c.pos(cc))
			}
			r := rule
			r.Key = unquote(bl.Value)
			rules = append(rules, r)
		}
	}
	return rules, hasDefault
}

const blockLoopHead = "for nesting := d.Nesting(); d.NextBlock(nesting); {"

// zeroLiteralLocal: `name := config.T{}`; returns name.
func (c *ctx) zeroLiteralLocal(s ast.Stmt, typ string) string {
	m := regexp.MustCompile(`^(\w+) := ` + regexp.QuoteMeta(typ) + `\{\}$`).FindStringSubmatch(c.src(s))
	if m == nil {
		fail("%s: expected `x := %s{}`, got `%s`", c.pos(s), typ, c.src(s))
	}
	return m[1]
}

// inlineBlockParser: x := T{}; for … NextBlock { switch d.Val() {…} }; return &x, nil
func (c *ctx) inlineBlockParser(fn, block, typ string) blockFacts {
	fd := c.funcDecl("caddyfile.go", "", fn)
	b := fd.Body.List
	if len(b) != 3 {
		fail("%s: %s: expected init, block loop, return", c.pos(fd), fn)
	}
	name := c.zeroLiteralLocal(b[0], typ)
	loop, ok := b[1].(*ast.ForStmt)
	if !ok || !strings.HasPrefix(c.src(loop), blockLoopHead) || len(loop.Body.List) != 1 {
		fail("%s: %s: block loop not recognised", c.pos(b[1]), fn)
	}
	sw, ok := loop.Body.List[0].(*ast.SwitchStmt)
	if !ok || sw.Init != nil || exprStr(sw.Tag) != "d.Val()" {
		fail("%s: %s: loop body is not `switch d.Val()`", c.pos(loop), fn)
	}
	if c.src(b[2]) != "return &"+name+", nil" {
		fail("%s: %s: does not end in `return &%s, nil`", c.pos(b[2]), fn, name)
	}
	rules, hd := c.recogniseCases(block, sw, name, 2)
	return blockFacts{Name: block, Keys: rules, HasDefault: hd, ByPointer: true}
}

// entryHelper: func(d, [key string,] cfg T|*T) (*T, error, bool) { switch <tag> {…}; return nil, nil, false }
func (c *ctx) entryHelper(fn, block, typ, tag string) blockFacts {
	fd := c.funcDecl("caddyfile.go", "", fn)
	params := fd.Type.Params.List
	last := params[len(params)-1]
	if len(last.Names) != 1 {
		fail("%s: %s: unexpected parameter list", c.pos(fd), fn)
	}
	recv := last.Names[0].Name
	byPtr := false
	switch exprStr(last.Type) {
	case "*" + typ:
		byPtr = true
	case typ:
		byPtr = false
	default:
		fail("%s: %s: config parameter has type %s", c.pos(fd), fn, exprStr(last.Type))
	}
	b := fd.Body.List
	if len(b) != 2 || c.src(b[1]) != "return nil, nil, false" {
		fail("%s: %s: expected `switch …; return nil, nil, false`", c.pos(fd), fn)
	}
	sw, ok := b[0].(*ast.SwitchStmt)
	if !ok || sw.Init != nil || exprStr(sw.Tag) != tag {
		fail("%s: %s: first statement is not `switch %s`", c.pos(fd), fn, tag)
	}
	rules, hd := c.recogniseCases(block, sw, recv, 3)
	return blockFacts{Name: block, Keys: rules, HasDefault: hd, ByPointer: byPtr}
}

func (bf blockFacts) emit(l *leanFile, typ string) {
	l.p("def %sBlock : BlockFacts %s :=", bf.Name, typ)
	l.p("  { keys := [")
	for i, k := range bf.Keys {
		sep := ","
		if i == len(bf.Keys)-1 {
			sep = ""
		}
		act := "Act." + k.Act + " " + k.Field
		if k.Act == "constBool" {
			act += " " + k.Const
		}
		l.p("      (%s, %s)%s -- %s", leanStr(k.Key), act, sep, k.Pos)
	}
	l.p("    ]")
	l.p("    hasDefault := %v", bf.HasDefault)
	l.p("    byPointer := %v }\n", bf.ByPointer)
}

// compositeFields returns key -> value source of a composite literal (possibly behind &).
func (c *ctx) compositeFields(e ast.Expr) (typ string, kv map[string]string) {
	if u, ok := e.(*ast.UnaryExpr); ok && u.Op == token.AND {
		e = u.X
	}
	cl, ok := e.(*ast.CompositeLit)
	if !ok {
		fail("%s: composite literal expected, got %s", c.pos(e), c.src(e))
	}
	kv = map[string]string{}
	for _, el := range cl.Elts {
		k, ok := el.(*ast.KeyValueExpr)
		if !ok {
			fail("%s: keyed composite literal expected", c.pos(el))
		}
		kv[exprStr(k.Key)] = c.src(k.Value)
	}
	return exprStr(cl.Type), kv
}

func (c *ctx) genCaddyfile(l *leanFile, facts map[string]interface{}) {
	// parseConfigFromCaddyfile
	fd := c.funcDecl("caddyfile.go", "", "parseConfigFromCaddyfile")
	b := fd.Body.List
	if len(b) != 5 {
		fail("%s: parseConfigFromCaddyfile: expected three initialisations, the token loop and a return", c.pos(fd))
	}
	locals := map[string]map[string]string{} // local name -> literal fields
	localType := map[string]string{}
	for i := 0; i < 3; i++ {
		as, ok := b[i].(*ast.AssignStmt)
		if !ok || as.Tok != token.DEFINE || len(as.Lhs) != 1 || len(as.Rhs) != 1 {
			fail("%s: parseConfigFromCaddyfile: statement %d is not `x := T{…}`", c.pos(b[i]), i)
		}
		t, kv := c.compositeFields(as.Rhs[0])
		locals[exprStr(as.Lhs[0])] = kv
		localType[exprStr(as.Lhs[0])] = t
	}
	var top string
	for n, t := range localType {
		if t == "CertRevocationValidatorConfig" {
			top = n
		}
	}
	if top == "" {
		fail("%s: parseConfigFromCaddyfile: no CertRevocationValidatorConfig literal", c.pos(fd))
	}
	initCrl, initCdp, initOcsp := false, false, false
	if v, ok := locals[top]["CRLConfig"]; ok {
		if !strings.HasPrefix(v, "&") || localType[v[1:]] != "config.CRLConfig" {
			fail("%s: initial CRLConfig is not the address of a local CRLConfig literal: %s", c.pos(fd), v)
		}
		initCrl = true
		if cv, ok := locals[v[1:]]["CDPConfig"]; ok {
			if cv != "&config.CDPConfig{}" {
				fail("%s: initial CDPConfig is %s", c.pos(fd), cv)
			}
			initCdp = true
		}
		for k, lv := range locals[v[1:]] {
			if k != "CDPConfig" && lv != "[]string{}" {
				fail("%s: initial CRLConfig.%s = %s is not an empty list", c.pos(fd), k, lv)
			}
		}
	}
	if v, ok := locals[top]["OCSPConfig"]; ok {
		if !strings.HasPrefix(v, "&") || localType[v[1:]] != "config.OCSPConfig" {
			fail("%s: initial OCSPConfig is not the address of a local OCSPConfig literal: %s", c.pos(fd), v)
		}
		initOcsp = true
		for k, lv := range locals[v[1:]] {
			if lv != "[]string{}" {
				fail("%s: initial OCSPConfig.%s = %s is not an empty list", c.pos(fd), k, lv)
			}
		}
	}
	for k := range locals[top] {
		if k != "CRLConfig" && k != "OCSPConfig" {
			fail("%s: initial validator config sets %s", c.pos(fd), k)
		}
	}
	// token loop
	outer, ok := b[3].(*ast.ForStmt)
	if !ok || outer.Init != nil || outer.Post != nil || exprStr(outer.Cond) != "d.Next()" || len(outer.Body.List) != 1 {
		fail("%s: parseConfigFromCaddyfile: outer loop is not `for d.Next()`", c.pos(b[3]))
	}
	inner, ok := outer.Body.List[0].(*ast.ForStmt)
	if !ok || !strings.HasPrefix(c.src(inner), blockLoopHead) || len(inner.Body.List) != 3 {
		fail("%s: parseConfigFromCaddyfile: block loop not recognised", c.pos(outer))
	}
	if c.src(inner.Body.List[0]) != "key := d.Val()" {
		fail("%s: parseConfigFromCaddyfile: `key := d.Val()` expected", c.pos(inner.Body.List[0]))
	}
	m := regexp.MustCompile(`^(\w+), err, done := parseConfigEntryFromCaddyfile\(d, key, (&?)(\w+)\)$`).FindStringSubmatch(c.src(inner.Body.List[1]))
	if m == nil || m[3] != top {
		fail("%s: parseConfigFromCaddyfile: entry helper call not recognised: %s", c.pos(inner.Body.List[1]), c.src(inner.Body.List[1]))
	}
	if c.src(inner.Body.List[2]) != "if done { return "+m[1]+", err }" {
		fail("%s: parseConfigFromCaddyfile: `if done { return …, err }` expected", c.pos(inner.Body.List[2]))
	}
	if c.src(b[4]) != "return &"+top+", nil" {
		fail("%s: parseConfigFromCaddyfile: does not return &%s", c.pos(b[4]), top)
	}
	topB := c.entryHelper("parseConfigEntryFromCaddyfile", "top", "CertRevocationValidatorConfig", "key")
	if topB.ByPointer != (m[2] == "&") {
		fail("%s: entry helper parameter and call site disagree", c.pos(inner.Body.List[1]))
	}

	// parseCaddyfileCRLConfig
	fd = c.funcDecl("caddyfile.go", "", "parseCaddyfileCRLConfig")
	b = fd.Body.List
	if len(b) != 3 {
		fail("%s: parseCaddyfileCRLConfig: expected init, block loop, return", c.pos(fd))
	}
	name := c.zeroLiteralLocal(b[0], "config.CRLConfig")
	loop, ok := b[1].(*ast.ForStmt)
	if !ok || !strings.HasPrefix(c.src(loop), blockLoopHead) || len(loop.Body.List) != 2 {
		fail("%s: parseCaddyfileCRLConfig: block loop not recognised", c.pos(b[1]))
	}
	m = regexp.MustCompile(`^(\w+), err, done := parseCaddyFileCrlConfigEntry\(d, (&?)(\w+)\)$`).FindStringSubmatch(c.src(loop.Body.List[0]))
	if m == nil || m[3] != name {
		fail("%s: parseCaddyfileCRLConfig: entry helper call not recognised", c.pos(loop.Body.List[0]))
	}
	if c.src(loop.Body.List[1]) != "if done { return "+m[1]+", err }" {
		fail("%s: parseCaddyfileCRLConfig: `if done { return …, err }` expected", c.pos(loop.Body.List[1]))
	}
	if c.src(b[2]) != "return &"+name+", nil" {
		fail("%s: parseCaddyfileCRLConfig: does not return &%s", c.pos(b[2]), name)
	}
	crlB := c.entryHelper("parseCaddyFileCrlConfigEntry", "crl", "config.CRLConfig", "d.Val()")
	if crlB.ByPointer != (m[2] == "&") {
		fail("%s: entry helper parameter and call site disagree", c.pos(loop.Body.List[0]))
	}
	cdpB := c.inlineBlockParser("parseCaddyfileCRLCDPConfig", "cdp", "config.CDPConfig")
	ocspB := c.inlineBlockParser("parseCaddyfileOCSPConfig", "ocsp", "config.OCSPConfig")

	l.p("/-! ## caddyfile.go -/\n")
	topB.emit(l, "TopField")
	crlB.emit(l, "CrlField")
	cdpB.emit(l, "CdpField")
	ocspB.emit(l, "OcspField")
	l.p("def caddyFacts : CaddyFacts :=")
	l.p("  { top := topBlock, crl := crlBlock, cdp := cdpBlock, ocsp := ocspBlock")
	l.p("    initCrl := %v, initCdp := %v, initOcsp := %v }\n", initCrl, initCdp, initOcsp)
	facts["caddyfile"] = map[string]interface{}{"blocks": []blockFacts{topB, crlB, cdpB, ocspB},
		"initCrl": initCrl, "initCdp": initCdp, "initOcsp": initOcsp}
}

// ---- configparser.go -----------------------------------------------------------------------

// durationNs evaluates a constant duration expression: N, N * time.Unit, time.Unit * N, time.Duration(N), named const.
func (c *ctx) durationNs(rel string, e ast.Expr) int64 {
	units := map[string]int64{"time.Nanosecond": 1, "time.Microsecond": 1e3, "time.Millisecond": 1e6,
		"time.Second": 1e9, "time.Minute": 60e9, "time.Hour": 3600e9}
	switch x := e.(type) {
	case *ast.BasicLit:
		if x.Kind == token.INT {
			n, err := strconv.ParseInt(x.Value, 0, 64)
			if err == nil {
				return n
			}
		}
	case *ast.ParenExpr:
		return c.durationNs(rel, x.X)
	case *ast.SelectorExpr:
		if u, ok := units[exprStr(x)]; ok {
			return u
		}
	case *ast.BinaryExpr:
		if x.Op == token.MUL {
			return c.durationNs(rel, x.X) * c.durationNs(rel, x.Y)
		}
	case *ast.CallExpr:
		if exprStr(x.Fun) == "time.Duration" && len(x.Args) == 1 {
			return c.durationNs(rel, x.Args[0])
		}
	case *ast.Ident:
		for _, d := range c.file(rel).Decls {
			gd, ok := d.(*ast.GenDecl)
			if !ok || gd.Tok != token.CONST {
				continue
			}
			for _, s := range gd.Specs {
				vs := s.(*ast.ValueSpec)
				for i, n := range vs.Names {
					if n.Name == x.Name && i < len(vs.Values) {
						return c.durationNs(rel, vs.Values[i])
					}
				}
			}
		}
	}
	fail("%s: cannot evaluate duration constant %s", c.pos(e), c.src(e))
	return 0
}

// recogniseDurationParser:
//
//	if len(X.F) > 0 {
//		duration, err := time.ParseDuration(X.F); if err != nil { return err }
//		[ if duration <= 0 { return <error> } ]            -- optional positivity guard
//		X.FParsed = duration
//	} else { X.FParsed = <const> }
//	return nil
//
// Returns the default (ns) and whether the positivity guard is present.
func (c *ctx) recogniseDurationParser(fn, field string) (int64, bool) {
	fd := c.funcDecl("configparser.go", "", fn)
	if len(fd.Type.Params.List) != 1 || len(fd.Type.Params.List[0].Names) != 1 {
		fail("%s: %s: one parameter expected", c.pos(fd), fn)
	}
	x := fd.Type.Params.List[0].Names[0].Name
	b := fd.Body.List
	if len(b) != 2 || c.src(b[1]) != "return nil" {
		fail("%s: %s: expected `if …; return nil`", c.pos(fd), fn)
	}
	ifs, ok := b[0].(*ast.IfStmt)
	if !ok || ifs.Init != nil || exprStr(ifs.Cond) != "len("+x+"."+field+")>0" || (len(ifs.Body.List) != 3 && len(ifs.Body.List) != 4) {
		fail("%s: %s: condition/then-branch not recognised", c.pos(b[0]), fn)
	}
	then := ifs.Body.List
	m := regexp.MustCompile(`^(\w+), err := time\.ParseDuration\(` + x + `\.` + field + `\)$`).FindStringSubmatch(c.src(then[0]))
	if m == nil {
		fail("%s: %s: time.ParseDuration call not recognised", c.pos(then[0]), fn)
	}
	if c.src(then[1]) != "if err != nil { return err }" {
		fail("%s: %s: ParseDuration error is not returned", c.pos(then[1]), fn)
	}
	positive := false
	if len(then) == 4 {
		g, ok := then[2].(*ast.IfStmt)
		if !ok || g.Init != nil || g.Else != nil || exprStr(g.Cond) != m[1]+"<=0" || len(g.Body.List) != 1 {
			fail("%s: %s: unsupported statement between ParseDuration and the assignment: `%s`", c.pos(then[2]), fn, c.src(then[2]))
		}
		r, ok := g.Body.List[0].(*ast.ReturnStmt)
		if !ok || len(r.Results) != 1 || exprStr(r.Results[0]) == "nil" {
			fail("%s: %s: positivity guard does not return an error", c.pos(g), fn)
		}
		positive = true
	}
	if c.src(then[len(then)-1]) != x+"."+field+"Parsed = "+m[1] {
		fail("%s: %s: parsed duration is not assigned to %sParsed", c.pos(then[len(then)-1]), fn, field)
	}
	eb, ok := ifs.Else.(*ast.BlockStmt)
	if !ok || len(eb.List) != 1 {
		fail("%s: %s: else branch not recognised", c.pos(ifs), fn)
	}
	as, ok := eb.List[0].(*ast.AssignStmt)
	if !ok || as.Tok != token.ASSIGN || len(as.Lhs) != 1 || exprStr(as.Lhs[0]) != x+"."+field+"Parsed" {
		fail("%s: %s: else branch does not assign %sParsed", c.pos(eb), fn, field)
	}
	return c.durationNs("configparser.go", as.Rhs[0]), positive
}

// recogniseCertListParser: X.<parsed> = make(...); for _, f := range X.<files> { cert, err := parseCertFromFile(f); if err != nil { return err }; append }; return nil
func (c *ctx) recogniseCertListParser(fn, filesField, parsedField string) {
	fd := c.funcDecl("configparser.go", "", fn)
	x := fd.Type.Params.List[0].Names[0].Name
	b := fd.Body.List
	if len(b) != 3 || c.src(b[2]) != "return nil" {
		fail("%s: %s: expected init, loop, return nil", c.pos(fd), fn)
	}
	if c.src(b[0]) != x+"."+parsedField+" = make([]*x509.Certificate, 0)" {
		fail("%s: %s: initialisation not recognised", c.pos(b[0]), fn)
	}
	rs, ok := b[1].(*ast.RangeStmt)
	if !ok || exprStr(rs.X) != x+"."+filesField || exprStr(rs.Key) != "_" || len(rs.Body.List) != 3 {
		fail("%s: %s: loop over %s not recognised", c.pos(b[1]), fn, filesField)
	}
	v := exprStr(rs.Value)
	m := regexp.MustCompile(`^(\w+), err := parseCertFromFile\(` + v + `\)$`).FindStringSubmatch(c.src(rs.Body.List[0]))
	if m == nil || c.src(rs.Body.List[1]) != "if err != nil { return err }" ||
		c.src(rs.Body.List[2]) != fmt.Sprintf("%s.%s = append(%s.%s, %s)", x, parsedField, x, parsedField, m[1]) {
		fail("%s: %s: loop body not recognised", c.pos(rs), fn)
	}
}

// errChecked: stmts[i] is `err := f(arg)` or `err = f(arg)` and stmts[i+1] is `if err != nil { return err }`; returns f, arg.
func (c *ctx) errCheckedCall(stmts []ast.Stmt, i int) (string, string, bool) {
	if i+1 >= len(stmts) {
		return "", "", false
	}
	m := regexp.MustCompile(`^err :?= ([\w.]+)\(([\w., ]*)\)$`).FindStringSubmatch(c.src(stmts[i]))
	if m == nil || c.src(stmts[i+1]) != "if err != nil { return err }" {
		return "", "", false
	}
	return m[1], m[2], true
}

var logCall = regexp.MustCompile(`^[\w.]*[lL]ogger\.(Info|Debug|Warn)\(.*\)$`)

func (c *ctx) isLog(s ast.Stmt) bool { return logCall.MatchString(c.src(s)) }

func (c *ctx) stripLogs(stmts []ast.Stmt) []ast.Stmt {
	var out []ast.Stmt
	for _, s := range stmts {
		if !c.isLog(s) {
			out = append(out, s)
		}
	}
	return out
}

func leanBool(s string) string {
	if s == "true" || s == "false" {
		return s
	}
	fail("boolean literal expected, got %s", s)
	return ""
}

func (c *ctx) genLoad(l *leanFile, facts map[string]interface{}) {
	l.p("/-! ## configparser.go -/\n")
	// zero values
	zero := func(typ string) string {
		return leanConst(&ast.Ident{Name: c.iotaConsts("config/config.go", typ)[0]})
	}
	modeZero, sigZero, storageZero, fetchZero := zero("RevocationCheckMode"), zero("SignatureValidationMode"), zero("StorageType"), zero("CRLFetchMode")
	sig := c.recogniseEnumParser(c.funcDecl("configparser.go", "", "parseSignatureValidationMode"), "SignatureValidationMode", "SignatureValidationModeParsed", sigZero)
	sig.emit(l, "parseSignatureValidationMode", "SigMode")
	sto := c.recogniseEnumParser(c.funcDecl("configparser.go", "", "parseStorageType"), "StorageType", "StorageTypeParsed", storageZero)
	sto.emit(l, "parseStorageType", "Storage")
	fet := c.recogniseEnumParser(c.funcDecl("configparser.go", "", "parseCDPConfig"), "CRLFetchMode", "CRLFetchModeParsed", fetchZero)
	fet.emit(l, "parseCRLFetchMode", "FetchMode")
	intervalNs, intervalPos := c.recogniseDurationParser("parseUpdateInterval", "UpdateInterval")
	cacheNs, cachePos := c.recogniseDurationParser("parseDefaultCacheDuration", "DefaultCacheDuration")
	c.recogniseCertListParser("parseTrustedCrlSignerCerts", "TrustedSignatureCertsFiles", "TrustedSignatureCerts")
	c.recogniseCertListParser("parseTrustedOcspResponderCerts", "TrustedResponderCertsFiles", "TrustedResponderCerts")

	// parseCRLConfig
	fd := c.funcDecl("configparser.go", "", "parseCRLConfig")
	x := fd.Type.Params.List[0].Names[0].Name
	stmts := c.stripLogs(fd.Body.List)
	if len(stmts) == 0 || c.src(stmts[len(stmts)-1]) != "return nil" {
		fail("%s: parseCRLConfig does not end in `return nil`", c.pos(fd))
	}
	stmts = stmts[:len(stmts)-1]
	crlStepOf := map[string]string{"parseSignatureValidationMode": "CrlStep.sigMode", "parseStorageType": "CrlStep.storage",
		"parseUpdateInterval": "CrlStep.interval", "parseTrustedCrlSignerCerts": "CrlStep.signers"}
	var crlSteps []string
	nilCdpFetch, nilCdpStrict := fetchZero, "false"
	for i := 0; i < len(stmts); {
		if f, arg, ok := c.errCheckedCall(stmts, i); ok {
			st, known := crlStepOf[f]
			if !known || arg != x {
				fail("%s: parseCRLConfig: unexpected call %s(%s)", c.pos(stmts[i]), f, arg)
			}
			crlSteps = append(crlSteps, st)
			i += 2
			continue
		}
		ifs, ok := stmts[i].(*ast.IfStmt)
		if !ok || ifs.Init != nil || exprStr(ifs.Cond) != x+".CDPConfig!=nil" {
			fail("%s: parseCRLConfig: unsupported statement `%s`", c.pos(stmts[i]), c.src(stmts[i]))
		}
		then := c.stripLogs(ifs.Body.List)
		f, arg, ok := c.errCheckedCall(then, 0)
		if !ok || len(then) != 2 || f != "parseCDPConfig" || arg != x+".CDPConfig" {
			fail("%s: parseCRLConfig: CDP branch not recognised", c.pos(ifs))
		}
		eb, ok := ifs.Else.(*ast.BlockStmt)
		if !ok || len(eb.List) != 1 {
			fail("%s: parseCRLConfig: CDP else branch not recognised", c.pos(ifs))
		}
		as, ok := eb.List[0].(*ast.AssignStmt)
		if !ok || as.Tok != token.ASSIGN || len(as.Lhs) != 1 || exprStr(as.Lhs[0]) != x+".CDPConfig" {
			fail("%s: parseCRLConfig: CDP else branch does not assign CDPConfig", c.pos(eb))
		}
		t, kv := c.compositeFields(as.Rhs[0])
		if t != "config.CDPConfig" || !strings.HasPrefix(c.src(as.Rhs[0]), "&") {
			fail("%s: parseCRLConfig: CDP default is not &config.CDPConfig{…}", c.pos(as))
		}
		for k, v := range kv {
			switch k {
			case "CRLFetchMode":
				if v != `""` {
					fail("%s: default CDPConfig.CRLFetchMode = %s", c.pos(as), v)
				}
			case "CRLFetchModeParsed":
				nilCdpFetch = leanConst(&ast.Ident{Name: strings.TrimPrefix(v, "config.")})
			case "CRLCDPStrict":
				nilCdpStrict = leanBool(v)
			default:
				fail("%s: default CDPConfig sets unknown field %s", c.pos(as), k)
			}
		}
		crlSteps = append(crlSteps, "CrlStep.cdp")
		i++
	}

	// parseOCSPConfig
	fd = c.funcDecl("configparser.go", "", "parseOCSPConfig")
	x = fd.Type.Params.List[0].Names[0].Name
	stmts = c.stripLogs(fd.Body.List)
	if len(stmts) == 0 || c.src(stmts[len(stmts)-1]) != "return nil" {
		fail("%s: parseOCSPConfig does not end in `return nil`", c.pos(fd))
	}
	stmts = stmts[:len(stmts)-1]
	ocspStepOf := map[string]string{"parseDefaultCacheDuration": "OcspStep.cacheDuration", "parseTrustedOcspResponderCerts": "OcspStep.responders"}
	var ocspSteps []string
	for i := 0; i < len(stmts); i += 2 {
		f, arg, ok := c.errCheckedCall(stmts, i)
		st, known := ocspStepOf[f]
		if !ok || !known || arg != x {
			fail("%s: parseOCSPConfig: unsupported statement `%s`", c.pos(stmts[i]), c.src(stmts[i]))
		}
		ocspSteps = append(ocspSteps, st)
	}

	// ParseConfig
	fd = c.funcDecl("configparser.go", "", "ParseConfig")
	x = fd.Type.Params.List[0].Names[0].Name
	stmts = c.stripLogs(fd.Body.List)
	if len(stmts) == 0 || c.src(stmts[len(stmts)-1]) != "return nil" {
		fail("%s: ParseConfig does not end in `return nil`", c.pos(fd))
	}
	stmts = stmts[:len(stmts)-1]
	var parseSteps []string
	nilOcspCache, nilOcspStrict := int64(0), "false"
	for i := 0; i < len(stmts); {
		if f, arg, ok := c.errCheckedCall(stmts, i); ok {
			if f != "parseMode" || arg != x {
				fail("%s: ParseConfig: unexpected call %s(%s)", c.pos(stmts[i]), f, arg)
			}
			parseSteps = append(parseSteps, "ParseStep.mode")
			i += 2
			continue
		}
		ifs, ok := stmts[i].(*ast.IfStmt)
		if !ok || ifs.Init != nil {
			fail("%s: ParseConfig: unsupported statement `%s`", c.pos(stmts[i]), c.src(stmts[i]))
		}
		then := c.stripLogs(ifs.Body.List)
		f, arg, ok := c.errCheckedCall(then, 0)
		if !ok || len(then) != 2 {
			fail("%s: ParseConfig: branch body not recognised", c.pos(ifs))
		}
		switch exprStr(ifs.Cond) {
		case x + ".CRLConfig!=nil":
			if f != "parseCRLConfig" || arg != x+".CRLConfig" || ifs.Else != nil {
				fail("%s: ParseConfig: CRL branch not recognised", c.pos(ifs))
			}
			parseSteps = append(parseSteps, "ParseStep.crl")
		case x + ".OCSPConfig!=nil":
			if f != "parseOCSPConfig" || arg != x+".OCSPConfig" {
				fail("%s: ParseConfig: OCSP branch not recognised", c.pos(ifs))
			}
			if ifs.Else == nil {
				parseSteps = append(parseSteps, "ParseStep.ocsp false")
				break
			}
			eb, ok := ifs.Else.(*ast.BlockStmt)
			if !ok || len(eb.List) != 1 {
				fail("%s: ParseConfig: OCSP else branch not recognised", c.pos(ifs))
			}
			as, ok := eb.List[0].(*ast.AssignStmt)
			if !ok || as.Tok != token.ASSIGN || len(as.Lhs) != 1 || exprStr(as.Lhs[0]) != x+".OCSPConfig" {
				fail("%s: ParseConfig: OCSP else branch does not assign OCSPConfig", c.pos(eb))
			}
			t, kv := c.compositeFields(as.Rhs[0])
			if t != "config.OCSPConfig" || !strings.HasPrefix(c.src(as.Rhs[0]), "&") {
				fail("%s: ParseConfig: OCSP default is not &config.OCSPConfig{…}", c.pos(as))
			}
			for k, v := range kv {
				switch k {
				case "TrustedResponderCertsFiles":
					if v != "make([]string, 0)" && v != "[]string{}" {
						fail("%s: default OCSPConfig.%s = %s", c.pos(as), k, v)
					}
				case "TrustedResponderCerts":
					if v != "make([]*x509.Certificate, 0)" {
						fail("%s: default OCSPConfig.%s = %s", c.pos(as), k, v)
					}
				case "DefaultCacheDuration":
					if v != `""` {
						fail("%s: default OCSPConfig.%s = %s", c.pos(as), k, v)
					}
				case "DefaultCacheDurationParsed":
					for _, el := range as.Rhs[0].(*ast.UnaryExpr).X.(*ast.CompositeLit).Elts {
						if kvx := el.(*ast.KeyValueExpr); exprStr(kvx.Key) == k {
							nilOcspCache = c.durationNs("configparser.go", kvx.Value)
						}
					}
				case "OCSPAIAStrict":
					nilOcspStrict = leanBool(v)
				default:
					fail("%s: default OCSPConfig sets unknown field %s", c.pos(as), k)
				}
			}
			parseSteps = append(parseSteps, "ParseStep.ocsp true")
		default:
			fail("%s: ParseConfig: unsupported condition %s", c.pos(ifs), exprStr(ifs.Cond))
		}
		i++
	}

	l.p("/-! ## revocation.go -/\n")
	// validateConfig
	fd = c.funcDecl("revocation.go", "", "validateConfig")
	stmts = c.stripLogs(fd.Body.List)
	if len(stmts) == 0 || c.src(stmts[len(stmts)-1]) != "return nil" {
		fail("%s: validateConfig does not end in `return nil`", c.pos(fd))
	}
	stmts = stmts[:len(stmts)-1]
	disabledShortcut, guarded := false, false
	var checks []string
	if len(stmts) > 0 && c.src(stmts[0]) == "if c.ModeParsed == config.RevocationCheckModeDisabled { return nil }" {
		disabledShortcut = true
		stmts = stmts[1:]
	}
	if len(stmts) > 1 {
		fail("%s: validateConfig: unexpected statements", c.pos(fd))
	}
	// checks: a chain of `if <cond> { return <error> }` possibly nested in if/else; flattened in evaluation order
	var walk func(list []ast.Stmt)
	walk = func(list []ast.Stmt) {
		for _, s := range list {
			if c.src(s) == "stat, err := os.Stat(c.CRLConfig.WorkDir)" {
				continue
			}
			ifs, ok := s.(*ast.IfStmt)
			if !ok || ifs.Init != nil {
				fail("%s: validateConfig: unsupported statement `%s`", c.pos(s), c.src(s))
			}
			var chk string
			switch exprStr(ifs.Cond) {
			case "c.CRLConfig==nil":
				chk = "VCheck.crlNil"
			case `c.CRLConfig.WorkDir==""`:
				chk = "VCheck.workDirEmpty"
			case "err!=nil":
				chk = "VCheck.statErr"
			case "stat.IsDir()==false", "!stat.IsDir()":
				chk = "VCheck.notDir"
			default:
				fail("%s: validateConfig: unsupported condition %s", c.pos(ifs), exprStr(ifs.Cond))
			}
			if len(ifs.Body.List) != 1 {
				fail("%s: validateConfig: check body is not a single return", c.pos(ifs))
			}
			r, ok := ifs.Body.List[0].(*ast.ReturnStmt)
			if !ok || len(r.Results) != 1 || exprStr(r.Results[0]) == "nil" {
				fail("%s: validateConfig: check does not return an error", c.pos(ifs))
			}
			checks = append(checks, chk)
			if ifs.Else != nil {
				eb, ok := ifs.Else.(*ast.BlockStmt)
				if !ok {
					fail("%s: validateConfig: else-if not supported", c.pos(ifs))
				}
				walk(eb.List)
			}
		}
	}
	if len(stmts) == 1 {
		ifs, ok := stmts[0].(*ast.IfStmt)
		if ok && ifs.Init == nil && ifs.Else == nil && exprStr(ifs.Cond) == "isCRLCheckingEnabled(c)" {
			guarded = true
			walk(ifs.Body.List)
		} else {
			walk(stmts)
		}
	}

	// UnmarshalCaddyfile
	fd = c.funcDecl("revocation.go", "CertRevocationValidator", "UnmarshalCaddyfile")
	stmts = c.stripLogs(fd.Body.List)
	if len(stmts) < 3 || c.src(stmts[0]) != "caddyConfig, err := parseConfigFromCaddyfile(d)" ||
		c.src(stmts[1]) != "if err != nil { return err }" || c.src(stmts[len(stmts)-1]) != "return nil" {
		fail("%s: UnmarshalCaddyfile: frame not recognised", c.pos(fd))
	}
	stmts = stmts[2 : len(stmts)-1]
	var usteps []string
	copyOf := map[string]string{"c.Mode = caddyConfig.Mode": "UStep.copyMode", "c.CRLConfig = caddyConfig.CRLConfig": "UStep.copyCrl",
		"c.OCSPConfig = caddyConfig.OCSPConfig": "UStep.copyOcsp"}
	for i := 0; i < len(stmts); {
		if st, ok := copyOf[c.src(stmts[i])]; ok {
			usteps = append(usteps, st)
			i++
			continue
		}
		f, arg, ok := c.errCheckedCall(stmts, i)
		if !ok || arg != "c" {
			fail("%s: UnmarshalCaddyfile: unsupported statement `%s`", c.pos(stmts[i]), c.src(stmts[i]))
		}
		switch f {
		case "parseMode":
			usteps = append(usteps, "UStep.parseMode")
		case "validateConfig":
			usteps = append(usteps, "UStep.validate")
		default:
			fail("%s: UnmarshalCaddyfile: unexpected call %s", c.pos(stmts[i]), f)
		}
		i += 2
	}

	// Provision
	fd = c.funcDecl("revocation.go", "CertRevocationValidator", "Provision")
	stmts = c.stripLogs(fd.Body.List)
	if len(stmts) == 0 || c.src(stmts[len(stmts)-1]) != "return nil" {
		fail("%s: Provision does not end in `return nil`", c.pos(fd))
	}
	stmts = stmts[:len(stmts)-1]
	var psteps []string
	for i := 0; i < len(stmts); {
		s := c.src(stmts[i])
		switch s {
		case "c.ctx = ctx", "c.logger = ctx.Logger(c)":
			i++
			continue
		case "c.ocspRevocationChecker = &ocsp.OCSPRevocationChecker{}":
			psteps = append(psteps, "PStep.allocOcsp")
			i++
			continue
		case "if isCRLCheckingEnabled(c) { c.crlRevocationChecker = &crl.CRLRevocationChecker{} }":
			psteps = append(psteps, "PStep.allocCrlIfEnabled")
			i++
			continue
		}
		if f, arg, ok := c.errCheckedCall(stmts, i); ok {
			switch {
			case f == "ParseConfig" && arg == "c":
				psteps = append(psteps, "PStep.parseConfig")
			case f == "validateConfig" && arg == "c":
				psteps = append(psteps, "PStep.validate")
			case f == "c.ocspRevocationChecker.Provision" && arg == "c.OCSPConfig, c.logger":
				psteps = append(psteps, "PStep.ocspProvision")
			default:
				fail("%s: Provision: unexpected call %s(%s)", c.pos(stmts[i]), f, arg)
			}
			i += 2
			continue
		}
		ifs, ok := stmts[i].(*ast.IfStmt)
		if !ok || ifs.Init != nil || ifs.Else != nil || exprStr(ifs.Cond) != "isCRLCheckingEnabled(c)" {
			fail("%s: Provision: unsupported statement `%s`", c.pos(stmts[i]), s)
		}
		then := c.stripLogs(ifs.Body.List)
		f, arg, ok := c.errCheckedCall(then, 0)
		if !ok || len(then) != 2 || f != "c.crlRevocationChecker.Provision" || arg != "c.CRLConfig, c.logger" {
			fail("%s: Provision: CRL branch not recognised", c.pos(ifs))
		}
		psteps = append(psteps, "PStep.crlProvisionIfEnabled")
		i++
	}

	l.p("def loadFacts : LoadFacts :=")
	l.p("  { parseMode := parseMode")
	l.p("    parseSigMode := parseSignatureValidationMode")
	l.p("    parseStorage := parseStorageType")
	l.p("    parseFetchMode := parseCRLFetchMode")
	l.p("    modeZero := %s, sigZero := %s, storageZero := %s, fetchZero := %s", modeZero, sigZero, storageZero, fetchZero)
	l.p("    defaultIntervalNs := %d", intervalNs)
	l.p("    defaultCacheNs := %d", cacheNs)
	l.p("    intervalMustBePositive := %v", intervalPos)
	l.p("    cacheMustBePositive := %v", cachePos)
	l.p("    nilCdpDefault := { fetchMode := %s, strict := %s }", nilCdpFetch, nilCdpStrict)
	l.p("    nilOcspDefault := { cacheNs := %d, responders := [], aiaStrict := %s }", nilOcspCache, nilOcspStrict)
	l.p("    crlSteps := [%s]", strings.Join(crlSteps, ", "))
	l.p("    ocspSteps := [%s]", strings.Join(ocspSteps, ", "))
	l.p("    parseSteps := [%s]", strings.Join(parseSteps, ", "))
	l.p("    crlEnabled := crlEnabled")
	l.p("    validateDisabledShortcut := %v", disabledShortcut)
	l.p("    validateGuarded := %v", guarded)
	l.p("    validateChecks := [%s]", strings.Join(checks, ", "))
	l.p("    unmarshalSteps := [%s]", strings.Join(usteps, ", "))
	l.p("    provisionSteps := [%s] }\n", strings.Join(psteps, ", "))
	facts["load"] = map[string]interface{}{
		"sigModeCases": sig.cases, "storageCases": sto.cases, "fetchModeCases": fet.cases,
		"defaultIntervalNs": intervalNs, "defaultCacheNs": cacheNs, "intervalMustBePositive": intervalPos, "cacheMustBePositive": cachePos,
		"crlSteps": crlSteps, "ocspSteps": ocspSteps, "parseSteps": parseSteps,
		"validate":       map[string]interface{}{"disabledShortcut": disabledShortcut, "guarded": guarded, "checks": checks},
		"unmarshalSteps": usteps, "provisionSteps": psteps,
	}
}

// ---- struct tags ---------------------------------------------------------------------------

func (c *ctx) jsonTags(rel, typ string) [][2]string {
	for _, d := range c.file(rel).Decls {
		gd, ok := d.(*ast.GenDecl)
		if !ok || gd.Tok != token.TYPE {
			continue
		}
		for _, s := range gd.Specs {
			ts := s.(*ast.TypeSpec)
			st, ok := ts.Type.(*ast.StructType)
			if !ok || ts.Name.Name != typ {
				continue
			}
			var out [][2]string
			for _, f := range st.Fields.List {
				if f.Tag == nil {
					continue
				}
				tag := reflect.StructTag(unquote(f.Tag.Value)).Get("json")
				name := strings.Split(tag, ",")[0]
				if name == "-" || name == "" {
					continue
				}
				for _, n := range f.Names {
					out = append(out, [2]string{n.Name, name})
				}
			}
			return out
		}
	}
	fail("struct %s not found in %s", typ, rel)
	return nil
}

func genConfig(c *ctx, out string) {
	l := newLean("Config", "Crv.Config", "Crv.Generated.Mode")
	l.p("open Crv Crv.Config\n")
	facts := map[string]interface{}{}
	c.genCaddyfile(l, facts)
	c.genLoad(l, facts)
	l.p("def configFacts : Facts := { caddy := caddyFacts, load := loadFacts }\n")
	l.p("/-! ## JSON member names (struct tags) -/\n")
	tags := map[string][][2]string{}
	for _, t := range []struct{ rel, typ, lean string }{
		{"revocation.go", "CertRevocationValidator", "jsonTop"}, {"config/config.go", "CRLConfig", "jsonCrl"},
		{"config/config.go", "CDPConfig", "jsonCdp"}, {"config/config.go", "OCSPConfig", "jsonOcsp"}} {
		ts := c.jsonTags(t.rel, t.typ)
		tags[t.typ] = ts
		var items []string
		for _, kv := range ts {
			items = append(items, "("+leanStr(kv[0])+", "+leanStr(kv[1])+")")
		}
		l.p("def %s : List (String × String) := [%s]", t.lean, strings.Join(items, ", "))
	}
	facts["jsonTags"] = tags
	l.write(out)
	c.facts["config"] = facts
}
