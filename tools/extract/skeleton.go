package main

import (
	"bytes"
	"crypto/sha256"
	"encoding/hex"
	"go/ast"
	"go/printer"
	"go/token"
	"os"
	"path/filepath"
	"strings"
)

// Skeletons: for the functions whose behaviour is transcribed BY HAND into a Lean model (the reader, the PEM layer, the
// hashing wrapper, the byte-level read loops), the translator emits a fingerprint of the function's source — the body printed
// by go/printer without comments and without logging statements, whitespace-normalised — and the Lean side states, per
// function, which fingerprint the hand-written model was transcribed from (`Crv/Proofs/Skeleton*.lean`, proved by `decide`).
// A change to any of these functions therefore breaks an obligation of every property that rests on the model, even where the
// generators of the correspondence would not reach the changed behaviour. The normalised text itself goes to skeleton.txt
// (next to the generated Lean files) so that the check can show what changed.

type skelItem struct {
	group, rel, recv, name string // name "" with recv "var:<ident>" / "const:<ident>" = package-level declaration
}

var skelItems = []skelItem{
	// core/pemreader
	{"Pem", "core/pemreader/pemreader.go", "const:pemMaxLineLength", ""},
	{"Pem", "core/pemreader/pemreader.go", "var:pemPaddingRegEx", ""},
	{"Pem", "core/pemreader/pemreader.go", "PemReader", "Read"},
	{"Pem", "core/pemreader/pemreader.go", "PemReader", "readNextBase64Line"},
	{"Pem", "core/pemreader/pemreader.go", "", "IsPemFile"},
	{"Pem", "crl/crlreader/crlreader.go", "", "newHashingCRLReader"},
	{"Pem", "crl/crlreader/crlreader.go", "", "newHashingPEMCRLReader"},
	{"Pem", "crl/crlreader/crlreader.go", "", "newHashingDERCRLReader"},
	// hashing wrapper + byte-level loops
	{"Chunk", "core/hashing/hashingreaderwrapper.go", "HashingReaderWrapper", "Read"},
	{"Chunk", "core/hashing/hashingreaderwrapper.go", "HashingReaderWrapper", "Peek"},
	{"Chunk", "core/hashing/hashingreaderwrapper.go", "HashingReaderWrapper", "Discard"},
	{"Chunk", "core/hashing/hashingreaderwrapper.go", "HashingReaderWrapper", "Position"},
	{"Chunk", "core/hashing/hashingreaderwrapper.go", "HashingReaderWrapper", "StartHashCalculation"},
	{"Chunk", "core/hashing/hashingreaderwrapper.go", "HashingReaderWrapper", "FinishHashCalculation"},
	{"Chunk", "core/asn1parser/asn1parser.go", "", "ReadExpectedBytes"},
	{"Chunk", "core/asn1parser/asn1parser.go", "", "ReadExpectedBytesRecursive"},
	{"Chunk", "core/asn1parser/asn1parser.go", "", "copyBytes"},
	{"Chunk", "core/asn1parser/asn1parser.go", "", "PeekExpectedBytes"},
	// asn1parser primitives of the flat reader model
	{"Reader", "core/asn1parser/asn1parser.go", "const:maxPrimitiveValueLength", ""},
	{"Reader", "core/asn1parser/asn1parser.go", "", "ReadTag"},
	{"Reader", "core/asn1parser/asn1parser.go", "", "PeekTag"},
	{"Reader", "core/asn1parser/asn1parser.go", "", "ReadLength"},
	{"Reader", "core/asn1parser/asn1parser.go", "", "PeekLength"},
	{"Reader", "core/asn1parser/asn1parser.go", "", "expectSupportedLengthForm"},
	{"Reader", "core/asn1parser/asn1parser.go", "", "ReadTagLength"},
	{"Reader", "core/asn1parser/asn1parser.go", "", "PeekTagLength"},
	{"Reader", "core/asn1parser/asn1parser.go", "", "ExpectTag"},
	{"Reader", "core/asn1parser/asn1parser.go", "", "ReadUint8"},
	{"Reader", "core/asn1parser/asn1parser.go", "", "PeekUint8"},
	{"Reader", "core/asn1parser/asn1parser.go", "", "ReadExpectedBigInt"},
	{"Reader", "core/asn1parser/asn1parser.go", "", "PeekExpectedBigInt"},
	{"Reader", "core/asn1parser/asn1parser.go", "", "ReadStruct"},
	{"Reader", "core/asn1parser/asn1parser.go", "", "ReadTVLBytesWithLimit"},
	{"Reader", "core/asn1parser/asn1parser.go", "", "ReadValueBytesWithLimit"},
	{"Reader", "core/asn1parser/asn1parser.go", "", "CalculateWholeTLVLength"},
	{"Reader", "core/asn1parser/asn1parser.go", "", "ExpectLengthNotGreater"},
	{"Reader", "core/asn1parser/asn1parser.go", "", "ReadUtcTime"},
	{"Reader", "core/asn1parser/asn1parser.go", "", "ParseUTCTime"},
	{"Reader", "core/asn1parser/asn1parser.go", "", "ParseBitString"},
	{"Reader", "core/asn1parser/asn1parser.go", "", "ParseOctetString"},
	{"Reader", "core/asn1parser/asn1parser.go", "", "ReadBigInt"},
	{"Reader", "core/asn1parser/asn1parser.go", "TagLength", "CalculateTLVLength"},
	{"Reader", "core/asn1parser/asn1parser.go", "", "IsContextSpecificTagWithId"},
	{"Reader", "core/asn1parser/asn1parser.go", "", "IsContextSpecificTag"},
	{"Reader", "core/asn1parser/asn1parser.go", "", "GetContextSpecificTagId"},
	// issuer / subject names as the stores and the OCSP cache key see them
	{"Repo", "core/asn1parser/asn1parser.go", "", "ParseIssuerRDNSequence"},
	{"Repo", "core/asn1parser/asn1parser.go", "", "ParseSubjectRDNSequence"},
	{"Repo", "core/asn1parser/asn1parser.go", "", "ParseRDNSequence"},
	{"Ocsp", "core/asn1parser/asn1parser.go", "", "ParseIssuerRDNSequence"},
	{"Ocsp", "core/asn1parser/asn1parser.go", "", "ParseRDNSequence"},
	{"Cand", "core/asn1parser/asn1parser.go", "", "ParseIssuerRDNSequence"},
	{"Cand", "core/asn1parser/asn1parser.go", "", "ParseSubjectRDNSequence"},
	{"Cand", "core/asn1parser/asn1parser.go", "", "ParseRDNSequence"},
	{"Cand", "crl/crlreader/extensionsupport/extensionsupport.go", "*", ""},
	{"Cand", "crl/crlrepository/crlrepository.go", "", "verifyCRLSignature"},
	{"Cand", "core/signatureverify/hashandverifystrategieslookup.go", "*", ""},
	{"Cand", "core/signatureverify/rsasignatureverifystrategy.go", "*", ""},
	{"Cand", "core/signatureverify/ecdsasignatureverifystrategy.go", "*", ""},
	// the loaders: location identifiers and what is fetched (paths, C20; download, C17)
	{"Loader", "crl/crlloader/urlcrlloader.go", "*", ""},
	{"Loader", "crl/crlloader/filecrlloader.go", "*", ""},
	{"Loader", "crl/crlloader/multischemescrlloader.go", "*", ""},
	{"Loader", "crl/crlloader/crlloaderfactory.go", "*", ""},
	{"Loader", "crl/crlloader/crlloader.go", "*", ""},
	{"Loader", "core/utils/utils.go", "*", ""},
	// crlreader
	{"Reader", "crl/crlreader/crlreader.go", "StreamingCRLFileReader", "ReadCRL"},
	{"Reader", "crl/crlreader/crlreader.go", "", "findAlgorithmIdentifierInCRL"},
	{"Reader", "crl/crlreader/crlreader.go", "", "readAlgorithmIdentifier"},
	{"Reader", "crl/crlreader/crlreader.go", "", "seekToCRLBegin"},
	{"Reader", "crl/crlreader/crlreader.go", "", "parseVersion"},
	{"Reader", "crl/crlreader/crlreader.go", "", "versionExists"},
	{"Reader", "crl/crlreader/crlreader.go", "", "nextUpdateTimeExists"},
	{"Reader", "crl/crlreader/crlreader.go", "", "revokedCertificateListExists"},
	{"Reader", "crl/crlreader/crlreader.go", "", "parseRevokedCertificateList"},
	{"Reader", "crl/crlreader/crlreader.go", "", "extensionsExists"},
	{"Reader", "crl/crlreader/crlreader.go", "", "parseExtensions"},
	{"Reader", "crl/crlreader/crlreader.go", "", "parseCRlNumberIfExists"},
	{"Reader", "crl/crlreader/crlreader.go", "", "calculateEndPosition"},
	{"Reader", "crl/crlreader/extensionsupport/extensionsupport.go", "", "CheckForCriticalUnhandledCRLExtensions"},
	{"Reader", "crl/crlreader/extensionsupport/extensionsupport.go", "", "FindExtension"},
}

// whole files: every function of the file (a new function changes the list as well)
var skelFiles = []struct{ group, rel string }{
	{"Repo", "crl/crlrepository/crlrepository.go"},
	{"Repo", "crl/crlrevocationchecker.go"},
	{"Cand", "core/certificatechains.go"},
	{"Store", "crl/crlstore/map.go"},
	{"Store", "crl/crlstore/leveldb.go"},
	{"Store", "crl/crlstore/crlpesisterprocessor.go"},
	{"Store", "crl/crlstore/asn1serializer.go"},
	{"Store", "core/hashing/hashes.go"},
	{"Ocsp", "ocsp/ocsprevocationchecker.go"},
	{"Mode", "revocation.go"},
}

func (c *ctx) skelFileItems() []skelItem {
	var out []skelItem
	for _, sf := range skelFiles {
		out = append(out, c.fileFuncs(sf.group, sf.rel)...)
	}
	return out
}

func (c *ctx) fileFuncs(group, rel string) []skelItem {
	var out []skelItem
	for _, sf := range []struct{ group, rel string }{{group, rel}} {
		for _, d := range c.file(sf.rel).Decls {
			fd, ok := d.(*ast.FuncDecl)
			if !ok {
				continue
			}
			recv := ""
			if fd.Recv != nil && len(fd.Recv.List) == 1 {
				t := fd.Recv.List[0].Type
				if st, ok := t.(*ast.StarExpr); ok {
					t = st.X
				}
				if id, ok := t.(*ast.Ident); ok {
					recv = id.Name
				}
			}
			out = append(out, skelItem{sf.group, sf.rel, recv, fd.Name.Name})
		}
	}
	return out
}

func isLogStmt(s ast.Stmt) bool {
	es, ok := s.(*ast.ExprStmt)
	if !ok {
		return false
	}
	call, ok := es.X.(*ast.CallExpr)
	if !ok {
		return false
	}
	f := exprStr(call.Fun)
	return strings.Contains(f, ".logger.") || strings.Contains(f, ".Logger.") || strings.HasPrefix(f, "logger.")
}

// stripLogs removes logging statements from every block of the node (on a copy of the block lists).
func stripLogs(n ast.Node) {
	ast.Inspect(n, func(m ast.Node) bool {
		if b, ok := m.(*ast.BlockStmt); ok && b != nil {
			var keep []ast.Stmt
			for _, s := range b.List {
				if !isLogStmt(s) {
					keep = append(keep, s)
				}
			}
			b.List = keep
		}
		return true
	})
}

func (c *ctx) skeletonText(it skelItem) string {
	// parse the file afresh without comments so that the printer emits none and our edits do not touch the shared AST
	fset := token.NewFileSet()
	f, err := parserParseNoComments(fset, filepath.Join(c.repo, it.rel))
	if err != nil {
		fail("skeleton: parse %s: %v", it.rel, err)
	}
	var node ast.Node
	switch {
	case strings.HasPrefix(it.recv, "var:") || strings.HasPrefix(it.recv, "const:"):
		want := it.recv[strings.Index(it.recv, ":")+1:]
		for _, d := range f.Decls {
			gd, ok := d.(*ast.GenDecl)
			if !ok {
				continue
			}
			for _, sp := range gd.Specs {
				if vs, ok := sp.(*ast.ValueSpec); ok {
					for _, n := range vs.Names {
						if n.Name == want {
							node = vs
						}
					}
				}
			}
		}
	default:
		for _, d := range f.Decls {
			fd, ok := d.(*ast.FuncDecl)
			if !ok || fd.Name.Name != it.name {
				continue
			}
			if it.recv == "" && fd.Recv == nil {
				node = fd
			}
			if it.recv != "" && fd.Recv != nil && len(fd.Recv.List) == 1 {
				t := fd.Recv.List[0].Type
				if s, ok := t.(*ast.StarExpr); ok {
					t = s.X
				}
				if id, ok := t.(*ast.Ident); ok && id.Name == it.recv {
					node = fd
				}
			}
		}
	}
	if node == nil {
		fail("skeleton: %s %s.%s not found", it.rel, it.recv, it.name)
	}
	stripLogs(node)
	var buf bytes.Buffer
	if err := (&printer.Config{Mode: printer.RawFormat}).Fprint(&buf, fset, node); err != nil {
		fail("skeleton: print: %v", err)
	}
	return strings.Join(strings.Fields(buf.String()), " ")
}

func skelKey(it skelItem) string {
	n := it.name
	if n == "" {
		n = it.recv
	} else if it.recv != "" {
		n = it.recv + "." + it.name
	}
	return filepath.Base(filepath.Dir(it.rel)) + "/" + n
}

func genSkeleton(c *ctx, out string) {
	l := newLean("Skeleton")
	var txt strings.Builder
	groups := []string{}
	byGroup := map[string][][2]string{}
	var all []skelItem
	for _, it := range skelItems {
		if it.recv == "*" {
			all = append(all, c.fileFuncs(it.group, it.rel)...)
		} else {
			all = append(all, it)
		}
	}
	for _, it := range append(all, c.skelFileItems()...) {
		t := c.skeletonText(it)
		sum := sha256.Sum256([]byte(t))
		h := hex.EncodeToString(sum[:8])
		if _, ok := byGroup[it.group]; !ok {
			groups = append(groups, it.group)
		}
		byGroup[it.group] = append(byGroup[it.group], [2]string{skelKey(it), h})
		txt.WriteString("### " + it.group + " " + skelKey(it) + " " + h + "\n" + t + "\n\n")
	}
	for _, g := range groups {
		l.p("/-- fingerprints (first 8 bytes of SHA-256 of the comment-free, log-free, whitespace-normalised source) of the functions the hand-written `%s` model transcribes -/", g)
		l.p("def skeleton%s : List (String × String) := [", g)
		rows := byGroup[g]
		for i, r := range rows {
			sep := ","
			if i == len(rows)-1 {
				sep = ""
			}
			l.p("  (%s, %s)%s", leanStr(r[0]), leanStr(r[1]), sep)
		}
		l.p("]")
	}
	l.write(out)
	if err := os.WriteFile(filepath.Join(out, "skeleton.txt"), []byte(txt.String()), 0644); err != nil {
		fail("%v", err)
	}
}
