package main

import (
	"encoding/json"
	"os"
	"path/filepath"
)

func writeFacts(c *ctx, out string) {
	b, err := json.MarshalIndent(c.facts, "", " ")
	if err != nil {
		fail("%v", err)
	}
	if err := os.WriteFile(filepath.Join(out, "facts.json"), b, 0644); err != nil {
		fail("%v", err)
	}
}
