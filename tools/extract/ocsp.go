package main

// Translator for ocsp/ocsprevocationchecker.go → Crv/Generated/Ocsp.lean (C02, C05, C14).
//
// The anchored functions are matched statement by statement. What varies in a way the Lean model can interpret
// (loop order, what a failed fetch/parse does, the tail condition, the filter, the cache key, the guard around
// cache.Add, the arguments of the library call, the clauses of isAuthorizedResponder, …) is emitted as a value of
// `Crv.Ocsp.Facts`; every other deviation from the known shape is an error (fail closed).

import (
	"fmt"
	"go/ast"
	"go/token"
	"strconv"
	"strings"
)

const ocspFile = "ocsp/ocsprevocationchecker.go"

func ocspIsLogStmt(s ast.Stmt) bool {
	es, ok := s.(*ast.ExprStmt)
	if !ok {
		return false
	}
	call, ok := es.X.(*ast.CallExpr)
	if !ok {
		return false
	}
	return strings.HasPrefix(exprStr(call.Fun), "c.logger.")
}

func ocspDropLogs(l []ast.Stmt) []ast.Stmt {
	var out []ast.Stmt
	for _, s := range l {
		if !ocspIsLogStmt(s) {
			out = append(out, s)
		}
	}
	return out
}

func (c *ctx) ocspAssignIs(s ast.Stmt, lhs, rhs string) bool {
	as, ok := s.(*ast.AssignStmt)
	if !ok || len(as.Rhs) != 1 {
		return false
	}
	var ls []string
	for _, l := range as.Lhs {
		ls = append(ls, exprStr(l))
	}
	return strings.Join(ls, ",") == lhs && exprStr(as.Rhs[0]) == rhs
}

func ocspCharList(s string) string {
	var parts []string
	for _, r := range s {
		switch {
		case r == '\'':
			parts = append(parts, `'\''`)
		case r == '\\':
			parts = append(parts, `'\\'`)
		case r < 0x20 || r >= 0x7f:
			parts = append(parts, fmt.Sprintf("Char.ofNat %d", r))
		default:
			parts = append(parts, "'"+string(r)+"'")
		}
	}
	return "[" + strings.Join(parts, ", ") + "]"
}

func ocspBool(b bool) string {
	if b {
		return "true"
	}
	return "false"
}

// durationMs evaluates `N * time.Unit` (or `time.Unit * N`, or a bare `time.Unit`) to milliseconds.
func (c *ctx) ocspDurationMs(e ast.Expr) int64 {
	unit := func(x ast.Expr) (int64, bool) {
		switch exprStr(x) {
		case "time.Millisecond":
			return 1, true
		case "time.Second":
			return 1000, true
		case "time.Minute":
			return 60000, true
		case "time.Hour":
			return 3600000, true
		}
		return 0, false
	}
	if u, ok := unit(e); ok {
		return u
	}
	if b, ok := e.(*ast.BinaryExpr); ok && b.Op == token.MUL {
		x, y := b.X, b.Y
		if _, ok := unit(x); ok {
			x, y = y, x
		}
		if u, ok := unit(y); ok {
			if lit, ok := x.(*ast.BasicLit); ok && lit.Kind == token.INT {
				n, err := strconv.ParseInt(lit.Value, 0, 64)
				if err == nil {
					return n * u
				}
			}
		}
	}
	fail("%s: unsupported duration expression %s", c.pos(e), exprStr(e))
	return 0
}

func (c *ctx) ocspConstValue(rel, name string) ast.Expr {
	for _, d := range c.file(rel).Decls {
		gd, ok := d.(*ast.GenDecl)
		if !ok || gd.Tok != token.CONST {
			continue
		}
		for _, s := range gd.Specs {
			vs := s.(*ast.ValueSpec)
			for i, n := range vs.Names {
				if n.Name == name && i < len(vs.Values) {
					return vs.Values[i]
				}
			}
		}
	}
	fail("const %s not found in %s", name, rel)
	return nil
}

type ocspFacts struct {
	httpPrefix                  string
	filterLowercases            bool
	maxClockSkewMs              int64
	keyParts                    []string
	cacheFirst                  bool
	validUntilChecked           bool
	loopOrder                   string
	onFetchErr, onParseErr      string
	revokedIffStatusRevoked     bool
	evictionUsesNextUpdate      bool
	addGuard                    string
	validUntilIsNowPlusEviction bool
	tailLenOf                   string
	tailNeedsStrict             bool
	parseAttempts               []string
	authRules                   []string
	chainTrim                   string
}

// ---- filterHTTPOCSPServers ----------------------------------------------------------------

func (c *ctx) ocspFilter(f *ocspFacts) {
	fd := c.funcDecl(ocspFile, "OCSPRevocationChecker", "filterHTTPOCSPServers")
	b := fd.Body.List
	if len(b) != 3 || !c.ocspAssignIs(b[0], "httpOcspUrls", "make([]string,0)") {
		fail("%s: filterHTTPOCSPServers: unexpected shape", c.pos(fd))
	}
	rs, ok := b[1].(*ast.RangeStmt)
	if !ok || exprStr(rs.X) != "ocspServerList" || exprStr(rs.Value) != "ocspServer" || len(rs.Body.List) != 1 {
		fail("%s: filterHTTPOCSPServers: expected `for _, ocspServer := range ocspServerList` with one statement", c.pos(b[1]))
	}
	ifs, ok := rs.Body.List[0].(*ast.IfStmt)
	if !ok || ifs.Init != nil || ifs.Else != nil || len(ifs.Body.List) != 1 ||
		!c.ocspAssignIs(ifs.Body.List[0], "httpOcspUrls", "append(httpOcspUrls,ocspServer)") {
		fail("%s: filterHTTPOCSPServers: loop body is not `if … { httpOcspUrls = append(httpOcspUrls, ocspServer) }`", c.pos(rs))
	}
	call, ok := ifs.Cond.(*ast.CallExpr)
	if !ok || exprStr(call.Fun) != "strings.HasPrefix" || len(call.Args) != 2 {
		fail("%s: filterHTTPOCSPServers: condition is not strings.HasPrefix(…, literal): %s", c.pos(ifs), exprStr(ifs.Cond))
	}
	switch exprStr(call.Args[0]) {
	case "strings.ToLower(ocspServer)":
		f.filterLowercases = true
	case "ocspServer":
		f.filterLowercases = false
	default:
		fail("%s: filterHTTPOCSPServers: unsupported subject of the prefix test: %s", c.pos(call), exprStr(call.Args[0]))
	}
	lit, ok := call.Args[1].(*ast.BasicLit)
	if !ok || lit.Kind != token.STRING {
		fail("%s: filterHTTPOCSPServers: prefix is not a string literal", c.pos(call))
	}
	p, err := strconv.Unquote(lit.Value)
	if err != nil {
		fail("%s: %v", c.pos(lit), err)
	}
	f.httpPrefix = p
	if r, ok := b[2].(*ast.ReturnStmt); !ok || len(r.Results) != 1 || exprStr(r.Results[0]) != "httpOcspUrls" {
		fail("%s: filterHTTPOCSPServers: does not return httpOcspUrls", c.pos(b[2]))
	}
}

// ---- calculateEvictionTime ----------------------------------------------------------------

func (c *ctx) ocspEviction(f *ocspFacts) {
	fd := c.funcDecl(ocspFile, "OCSPRevocationChecker", "calculateEvictionTime")
	b := fd.Body.List
	const def = "c.ocspConfig.DefaultCacheDurationParsed"
	if len(b) == 1 {
		if r, ok := b[0].(*ast.ReturnStmt); ok && len(r.Results) == 1 && exprStr(r.Results[0]) == def {
			f.evictionUsesNextUpdate = false
			return
		}
	}
	if len(b) != 2 || !c.ocspAssignIs(b[0], "timeTillNextUpdate", "response.NextUpdate.Sub(time.Now())") {
		fail("%s: calculateEvictionTime: unexpected shape", c.pos(fd))
	}
	ifs, ok := b[1].(*ast.IfStmt)
	if !ok || ifs.Init != nil || exprStr(ifs.Cond) != "timeTillNextUpdate>0" || len(ifs.Body.List) != 1 {
		fail("%s: calculateEvictionTime: expected `if timeTillNextUpdate > 0`", c.pos(b[1]))
	}
	r1, ok := ifs.Body.List[0].(*ast.ReturnStmt)
	if !ok || len(r1.Results) != 1 ||
		(exprStr(r1.Results[0]) != "timeTillNextUpdate+maxClockSkew" && exprStr(r1.Results[0]) != "maxClockSkew+timeTillNextUpdate") {
		fail("%s: calculateEvictionTime: then-branch is not `return timeTillNextUpdate + maxClockSkew`", c.pos(ifs))
	}
	eb, ok := ifs.Else.(*ast.BlockStmt)
	if !ok || len(eb.List) != 1 {
		fail("%s: calculateEvictionTime: no else branch", c.pos(ifs))
	}
	r2, ok := eb.List[0].(*ast.ReturnStmt)
	if !ok || len(r2.Results) != 1 || exprStr(r2.Results[0]) != def {
		fail("%s: calculateEvictionTime: else-branch is not `return %s`", c.pos(eb), def)
	}
	f.evictionUsesNextUpdate = true
}

// ---- isAuthorizedResponder ----------------------------------------------------------------

func (c *ctx) ocspAuthRules(f *ocspFacts) {
	fd := c.funcDecl(ocspFile, "", "isAuthorizedResponder")
	ps := fd.Type.Params.List
	if len(ps) != 2 || len(ps[0].Names) != 1 || len(ps[1].Names) != 1 {
		fail("%s: isAuthorizedResponder: unexpected parameters", c.pos(fd))
	}
	resp, iss := ps[0].Names[0].Name, ps[1].Names[0].Name
	retBool := func(s ast.Stmt) (bool, bool) {
		r, ok := s.(*ast.ReturnStmt)
		if !ok || len(r.Results) != 1 {
			return false, false
		}
		switch exprStr(r.Results[0]) {
		case "true":
			return true, true
		case "false":
			return false, true
		}
		return false, false
	}
	for i, s := range fd.Body.List {
		last := i == len(fd.Body.List)-1
		switch x := s.(type) {
		case *ast.IfStmt:
			if x.Init != nil || x.Else != nil || len(x.Body.List) != 1 {
				fail("%s: isAuthorizedResponder: unsupported if", c.pos(x))
			}
			if v, ok := retBool(x.Body.List[0]); !ok || !v {
				fail("%s: isAuthorizedResponder: if body is not `return true`", c.pos(x))
			}
			cond := exprStr(x.Cond)
			if cond == "bytes.Equal("+resp+".Raw,"+iss+".Raw)" || cond == "bytes.Equal("+iss+".Raw,"+resp+".Raw)" {
				f.authRules = append(f.authRules, "AuthRule.isIssuerItself")
			} else {
				fail("%s: isAuthorizedResponder: unsupported condition %s", c.pos(x), cond)
			}
		case *ast.RangeStmt:
			if exprStr(x.X) != resp+".ExtKeyUsage" || x.Value == nil || len(x.Body.List) != 1 {
				fail("%s: isAuthorizedResponder: unsupported loop", c.pos(x))
			}
			v := exprStr(x.Value)
			ifs, ok := x.Body.List[0].(*ast.IfStmt)
			if !ok || ifs.Init != nil || ifs.Else != nil || len(ifs.Body.List) != 1 {
				fail("%s: isAuthorizedResponder: unsupported loop body", c.pos(x))
			}
			if b, ok := retBool(ifs.Body.List[0]); !ok || !b {
				fail("%s: isAuthorizedResponder: loop body does not `return true`", c.pos(ifs))
			}
			cond := exprStr(ifs.Cond)
			if cond == v+"==x509.ExtKeyUsageOCSPSigning" || cond == "x509.ExtKeyUsageOCSPSigning=="+v {
				f.authRules = append(f.authRules, "AuthRule.hasOcspSigningEku")
			} else {
				fail("%s: isAuthorizedResponder: extended key usage test is not `== x509.ExtKeyUsageOCSPSigning`: %s", c.pos(ifs), cond)
			}
		case *ast.ReturnStmt:
			v, ok := retBool(x)
			if !ok || !last {
				fail("%s: isAuthorizedResponder: unsupported return", c.pos(x))
			}
			if v {
				f.authRules = append(f.authRules, "AuthRule.always")
			}
		default:
			fail("%s: isAuthorizedResponder: unsupported statement", c.pos(s))
		}
		if last {
			if _, ok := s.(*ast.ReturnStmt); !ok {
				fail("%s: isAuthorizedResponder: does not end in a return", c.pos(s))
			}
		}
	}
}

// ---- parseOcspResponse --------------------------------------------------------------------

// parseCall recognises `ocspResponse, err := ocsp.ParseResponse[ForCert](output, [clientCertificate,] issuerExpr)`.
func (c *ctx) ocspParseCall(s ast.Stmt, inLoop bool) (passesCert, passesIssuer bool) {
	as, ok := s.(*ast.AssignStmt)
	if !ok || len(as.Lhs) != 2 || len(as.Rhs) != 1 || exprStr(as.Lhs[0]) != "ocspResponse" || exprStr(as.Lhs[1]) != "err" {
		fail("%s: parseOcspResponse: expected `ocspResponse, err := ocsp.ParseResponse…(…)`", c.pos(s))
	}
	call, ok := as.Rhs[0].(*ast.CallExpr)
	if !ok {
		fail("%s: parseOcspResponse: not a call", c.pos(s))
	}
	var issuer ast.Expr
	switch exprStr(call.Fun) {
	case "ocsp.ParseResponseForCert":
		if len(call.Args) != 3 || exprStr(call.Args[0]) != "output" {
			fail("%s: parseOcspResponse: unexpected arguments %s", c.pos(call), exprStr(call))
		}
		switch exprStr(call.Args[1]) {
		case "clientCertificate":
			passesCert = true
		case "nil":
			passesCert = false
		default:
			fail("%s: parseOcspResponse: unsupported certificate argument %s", c.pos(call), exprStr(call.Args[1]))
		}
		issuer = call.Args[2]
	case "ocsp.ParseResponse":
		if len(call.Args) != 2 || exprStr(call.Args[0]) != "output" {
			fail("%s: parseOcspResponse: unexpected arguments %s", c.pos(call), exprStr(call))
		}
		issuer = call.Args[1]
	default:
		fail("%s: parseOcspResponse: unsupported library call %s", c.pos(call), exprStr(call.Fun))
	}
	switch exprStr(issuer) {
	case "nil":
		passesIssuer = false
	case "certCandidate.Certificate":
		if !inLoop {
			fail("%s: parseOcspResponse: certCandidate used outside the candidate loop", c.pos(call))
		}
		passesIssuer = true
	default:
		fail("%s: parseOcspResponse: unsupported issuer argument %s", c.pos(call), exprStr(issuer))
	}
	return
}

func ocspIsContinueBlock(b *ast.BlockStmt) bool {
	l := ocspDropLogs(b.List)
	if len(l) != 1 {
		return false
	}
	br, ok := l[0].(*ast.BranchStmt)
	return ok && br.Tok == token.CONTINUE && br.Label == nil
}

func ocspReturnsRespNil(s ast.Stmt) bool {
	r, ok := s.(*ast.ReturnStmt)
	return ok && len(r.Results) == 2 && exprStr(r.Results[0]) == "ocspResponse" && exprStr(r.Results[1]) == "nil"
}

func (c *ctx) ocspParseAttempts(f *ocspFacts) {
	fd := c.funcDecl(ocspFile, "OCSPRevocationChecker", "parseOcspResponse")
	b := ocspDropLogs(fd.Body.List)
	if len(b) < 1 {
		fail("%s: parseOcspResponse: empty", c.pos(fd))
	}
	fin, ok := b[len(b)-1].(*ast.ReturnStmt)
	if !ok || len(fin.Results) != 2 || exprStr(fin.Results[0]) != "nil" || exprStr(fin.Results[1]) == "nil" {
		fail("%s: parseOcspResponse: does not end in `return nil, <error>`", c.pos(fd))
	}
	b = b[:len(b)-1]
	emit := func(loop, cert, iss, auth bool) {
		f.parseAttempts = append(f.parseAttempts, fmt.Sprintf("{ loopCands := %s, passesCert := %s, passesIssuer := %s, authCheck := %s }",
			ocspBool(loop), ocspBool(cert), ocspBool(iss), ocspBool(auth)))
	}
	for i := 0; i < len(b); i++ {
		switch x := b[i].(type) {
		case *ast.RangeStmt:
			if exprStr(x.X) != "certCandidates" || exprStr(x.Value) != "certCandidate" {
				fail("%s: parseOcspResponse: loop is not `for _, certCandidate := range certCandidates`", c.pos(x))
			}
			body := ocspDropLogs(x.Body.List)
			if len(body) < 3 {
				fail("%s: parseOcspResponse: loop body too short", c.pos(x))
			}
			cert, iss := c.ocspParseCall(body[0], true)
			ifErr, ok := body[1].(*ast.IfStmt)
			if !ok || ifErr.Init != nil || ifErr.Else != nil || exprStr(ifErr.Cond) != "err!=nil" || !ocspIsContinueBlock(ifErr.Body) {
				fail("%s: parseOcspResponse: expected `if err != nil { …; continue }`", c.pos(body[1]))
			}
			auth := false
			rest := body[2:]
			if len(rest) == 2 {
				ifAuth, ok := rest[0].(*ast.IfStmt)
				want := "ocspResponse.Certificate!=nil&&!isAuthorizedResponder(ocspResponse.Certificate,certCandidate.Certificate)"
				if !ok || ifAuth.Init != nil || ifAuth.Else != nil || exprStr(ifAuth.Cond) != want || !ocspIsContinueBlock(ifAuth.Body) {
					fail("%s: parseOcspResponse: unsupported statement between parse and return (expected the isAuthorizedResponder guard)", c.pos(rest[0]))
				}
				auth = true
				rest = rest[1:]
			}
			if len(rest) != 1 || !ocspReturnsRespNil(rest[0]) {
				fail("%s: parseOcspResponse: loop body does not end in `return ocspResponse, nil`", c.pos(x))
			}
			emit(true, cert, iss, auth)
		case *ast.AssignStmt:
			cert, iss := c.ocspParseCall(x, false)
			if i+1 >= len(b) {
				fail("%s: parseOcspResponse: parse call without result test", c.pos(x))
			}
			ifOk, ok := b[i+1].(*ast.IfStmt)
			if !ok || ifOk.Init != nil || ifOk.Else != nil || exprStr(ifOk.Cond) != "err==nil" {
				fail("%s: parseOcspResponse: expected `if err == nil { return ocspResponse, nil }`", c.pos(b[i+1]))
			}
			l := ocspDropLogs(ifOk.Body.List)
			if len(l) != 1 || !ocspReturnsRespNil(l[0]) {
				fail("%s: parseOcspResponse: expected `return ocspResponse, nil`", c.pos(ifOk))
			}
			emit(false, cert, iss, false)
			i++
		default:
			fail("%s: parseOcspResponse: unsupported statement", c.pos(b[i]))
		}
	}
}

// ---- tryGetResponseFromCache --------------------------------------------------------------

func (c *ctx) ocspTryGet(f *ocspFacts) {
	fd := c.funcDecl(ocspFile, "OCSPRevocationChecker", "tryGetResponseFromCache")
	b := ocspDropLogs(fd.Body.List)
	if len(b) != 2 || !c.ocspAssignIs(b[0], "res,err", "c.cache.Value(cacheKey)") {
		fail("%s: tryGetResponseFromCache: unexpected shape", c.pos(fd))
	}
	ifs, ok := b[1].(*ast.IfStmt)
	if !ok || ifs.Init != nil || exprStr(ifs.Cond) != "err==nil" {
		fail("%s: tryGetResponseFromCache: expected `if err == nil`", c.pos(b[1]))
	}
	eb, ok := ifs.Else.(*ast.BlockStmt)
	if !ok {
		fail("%s: tryGetResponseFromCache: no else branch", c.pos(ifs))
	}
	el := ocspDropLogs(eb.List)
	if r, ok := el[0].(*ast.ReturnStmt); len(el) != 1 || !ok || len(r.Results) != 2 || exprStr(r.Results[0]) != "nil" || exprStr(r.Results[1]) != "err" {
		fail("%s: tryGetResponseFromCache: else branch is not `return nil, err`", c.pos(eb))
	}
	tb := ocspDropLogs(ifs.Body.List)
	if len(tb) < 2 || !c.ocspAssignIs(tb[0], "response", "res.Data().(cachedRevocationStatus)") {
		fail("%s: tryGetResponseFromCache: cached value is not read as cachedRevocationStatus", c.pos(ifs))
	}
	rest := tb[1:]
	f.validUntilChecked = false
	if len(rest) == 2 {
		chk, ok := rest[0].(*ast.IfStmt)
		if !ok || chk.Init != nil || chk.Else != nil || exprStr(chk.Cond) != "time.Now().After(response.validUntil)" {
			fail("%s: tryGetResponseFromCache: unsupported statement (expected the validUntil check)", c.pos(rest[0]))
		}
		cb := ocspDropLogs(chk.Body.List)
		if len(cb) != 2 || !c.ocspAssignIs(cb[0], "_,_", "c.cache.Delete(cacheKey)") {
			fail("%s: tryGetResponseFromCache: expired branch does not delete the item", c.pos(chk))
		}
		if r, ok := cb[1].(*ast.ReturnStmt); !ok || len(r.Results) != 2 || exprStr(r.Results[0]) != "nil" || exprStr(r.Results[1]) == "nil" {
			fail("%s: tryGetResponseFromCache: expired branch does not return an error", c.pos(chk))
		}
		f.validUntilChecked = true
		rest = rest[1:]
	}
	if r, ok := rest[0].(*ast.ReturnStmt); len(rest) != 1 || !ok || len(r.Results) != 2 || exprStr(r.Results[0]) != "&response.status" || exprStr(r.Results[1]) != "nil" {
		fail("%s: tryGetResponseFromCache: hit does not `return &response.status, nil`", c.pos(ifs))
	}
}

// ---- IsRevoked ----------------------------------------------------------------------------

func ocspCompositeField(e ast.Expr, name string) (string, bool) {
	if u, ok := e.(*ast.UnaryExpr); ok && u.Op == token.AND {
		e = u.X
	}
	cl, ok := e.(*ast.CompositeLit)
	if !ok {
		return "", false
	}
	for _, el := range cl.Elts {
		if kv, ok := el.(*ast.KeyValueExpr); ok && exprStr(kv.Key) == name {
			return exprStr(kv.Value), true
		}
	}
	return "", false
}

func ocspFlattenBin(e ast.Expr, op token.Token) []ast.Expr {
	if p, ok := e.(*ast.ParenExpr); ok {
		return ocspFlattenBin(p.X, op)
	}
	if b, ok := e.(*ast.BinaryExpr); ok && b.Op == op {
		return append(ocspFlattenBin(b.X, op), ocspFlattenBin(b.Y, op)...)
	}
	return []ast.Expr{e}
}

func (c *ctx) ocspLoopAct(b *ast.BlockStmt) string {
	l := ocspDropLogs(b.List)
	if len(l) != 1 {
		fail("%s: IsRevoked: failure branch has more than one effective statement", c.pos(b))
	}
	switch x := l[0].(type) {
	case *ast.BranchStmt:
		if x.Label == nil && x.Tok == token.CONTINUE {
			return "LoopAct.cont"
		}
		if x.Label == nil && x.Tok == token.BREAK {
			return "LoopAct.brk"
		}
	case *ast.ReturnStmt:
		if len(x.Results) == 2 && exprStr(x.Results[0]) == "nil" && exprStr(x.Results[1]) != "nil" {
			return "LoopAct.fail"
		}
	}
	fail("%s: IsRevoked: unsupported failure branch", c.pos(b))
	return ""
}

func (c *ctx) ocspIsRevoked(f *ocspFacts) {
	fd := c.funcDecl(ocspFile, "OCSPRevocationChecker", "IsRevoked")
	b := ocspDropLogs(fd.Body.List)
	at := 0
	next := func(what string) ast.Stmt {
		if at >= len(b) {
			fail("%s: IsRevoked: missing statement: %s", c.pos(fd), what)
		}
		s := b[at]
		at++
		return s
	}
	// issuer
	if s := next("issuer parse"); !c.ocspAssignIs(s, "issuer,err", "asn1parser.ParseIssuerRDNSequence(clientCertificate)") {
		fail("%s: IsRevoked: expected `issuer, err := asn1parser.ParseIssuerRDNSequence(clientCertificate)`", c.pos(s))
	}
	if ifs, ok := next("issuer error check").(*ast.IfStmt); !ok || exprStr(ifs.Cond) != "err!=nil" || ifs.Else != nil || c.ocspLoopAct(ifs.Body) != "LoopAct.fail" {
		fail("%s: IsRevoked: issuer parse error is not returned", c.pos(fd))
	}
	// cache key
	ks, ok := next("cacheKey").(*ast.AssignStmt)
	if !ok || len(ks.Lhs) != 1 || exprStr(ks.Lhs[0]) != "cacheKey" || len(ks.Rhs) != 1 {
		fail("%s: IsRevoked: expected `cacheKey := …`", c.pos(fd))
	}
	for _, p := range ocspFlattenBin(ks.Rhs[0], token.ADD) {
		switch exprStr(p) {
		case "issuer.String()":
			f.keyParts = append(f.keyParts, "KeyPart.issuer")
		case "clientCertificate.Subject.String()":
			f.keyParts = append(f.keyParts, "KeyPart.subject")
		case "clientCertificate.SerialNumber.String()":
			f.keyParts = append(f.keyParts, "KeyPart.serial")
		default:
			lit, ok := p.(*ast.BasicLit)
			if !ok || lit.Kind != token.STRING {
				fail("%s: IsRevoked: unsupported cache key component %s", c.pos(p), exprStr(p))
			}
			s, err := strconv.Unquote(lit.Value)
			if err != nil {
				fail("%s: %v", c.pos(lit), err)
			}
			f.keyParts = append(f.keyParts, "KeyPart.lit "+ocspCharList(s))
		}
	}
	// cache first
	if s := next("cache lookup"); !c.ocspAssignIs(s, "cache,err", "c.tryGetResponseFromCache(cacheKey)") {
		fail("%s: IsRevoked: expected `cache, err := c.tryGetResponseFromCache(cacheKey)` before anything else", c.pos(s))
	}
	cifs, ok := next("cache hit return").(*ast.IfStmt)
	if !ok || cifs.Init != nil || exprStr(cifs.Cond) != "err==nil" {
		fail("%s: IsRevoked: expected `if err == nil { return cache, nil }`", c.pos(fd))
	}
	cl := ocspDropLogs(cifs.Body.List)
	if r, ok := cl[0].(*ast.ReturnStmt); len(cl) != 1 || !ok || len(r.Results) != 2 || exprStr(r.Results[0]) != "cache" || exprStr(r.Results[1]) != "nil" {
		fail("%s: IsRevoked: cache hit does not `return cache, nil`", c.pos(cifs))
	}
	if eb, ok := cifs.Else.(*ast.BlockStmt); cifs.Else != nil && (!ok || len(ocspDropLogs(eb.List)) != 0) {
		fail("%s: IsRevoked: cache miss branch does more than logging", c.pos(cifs))
	}
	f.cacheFirst = true
	// candidates and servers
	switch s := next("chains"); {
	case c.ocspAssignIs(s, "chains", "core.NewCertificateChains(verifiedChains,c.ocspConfig.TrustedResponderCerts)"):
		f.chainTrim = "ChainTrim.allPositions"
	case c.ocspAssignIs(s, "chains", "core.NewCertificateChains(issuerChains(verifiedChains),c.ocspConfig.TrustedResponderCerts)"):
		f.chainTrim = c.ocspIssuerChains()
	default:
		fail("%s: IsRevoked: expected chains := core.NewCertificateChains([issuerChains(]verifiedChains[)], c.ocspConfig.TrustedResponderCerts)", c.pos(s))
	}
	if s := next("candidates"); !c.ocspAssignIs(s, "certCandidates,err",
		"core.FindCertificateIssuerCandidates(issuer,&clientCertificate.Extensions,clientCertificate.PublicKeyAlgorithm,chains)") {
		fail("%s: IsRevoked: unexpected issuer candidate computation", c.pos(s))
	}
	if s := next("server filter"); !c.ocspAssignIs(s, "ocspServerList", "c.filterHTTPOCSPServers(clientCertificate.OCSPServer)") {
		fail("%s: IsRevoked: expected ocspServerList := c.filterHTTPOCSPServers(clientCertificate.OCSPServer)", c.pos(s))
	}
	if ds, ok := next("var output").(*ast.DeclStmt); !ok {
		fail("%s: IsRevoked: expected `var output []byte = nil`", c.pos(ds))
	}
	// loops
	outerL, ok := next("outer loop").(*ast.RangeStmt)
	if !ok || len(outerL.Body.List) != 1 {
		fail("%s: IsRevoked: expected the outer range loop with a single inner loop", c.pos(fd))
	}
	innerL, ok := outerL.Body.List[0].(*ast.RangeStmt)
	if !ok {
		fail("%s: IsRevoked: outer loop body is not a range loop", c.pos(outerL))
	}
	isSrv := func(r *ast.RangeStmt) bool {
		return exprStr(r.X) == "ocspServerList" && r.Value != nil && exprStr(r.Value) == "ocspServer"
	}
	isCand := func(r *ast.RangeStmt) bool {
		return exprStr(r.X) == "certCandidates" && r.Value != nil && exprStr(r.Value) == "certCandidate"
	}
	switch {
	case isSrv(outerL) && isCand(innerL):
		f.loopOrder = "LoopOrder.serversOuter"
	case isCand(outerL) && isSrv(innerL):
		f.loopOrder = "LoopOrder.candsOuter"
	default:
		fail("%s: IsRevoked: loops do not range over ocspServerList / certCandidates", c.pos(outerL))
	}
	lb := ocspDropLogs(innerL.Body.List)
	li := 0
	lnext := func(what string) ast.Stmt {
		if li >= len(lb) {
			fail("%s: IsRevoked: loop body: missing %s", c.pos(innerL), what)
		}
		s := lb[li]
		li++
		return s
	}
	if s := lnext("request"); !c.ocspAssignIs(s, "output,err", "c.executeHttpRequest(ocspServer,clientCertificate,certCandidate.Certificate)") {
		fail("%s: IsRevoked: expected output, err = c.executeHttpRequest(ocspServer, clientCertificate, certCandidate.Certificate)", c.pos(s))
	}
	fe, ok := lnext("fetch error check").(*ast.IfStmt)
	if !ok || fe.Init != nil || fe.Else != nil || exprStr(fe.Cond) != "err!=nil" {
		fail("%s: IsRevoked: expected `if err != nil` after the request", c.pos(innerL))
	}
	f.onFetchErr = c.ocspLoopAct(fe.Body)
	// optional: if output == nil { continue } (dead: io.ReadAll never returns nil without error)
	if ifs, ok := lb[li].(*ast.IfStmt); ok && exprStr(ifs.Cond) == "output==nil" {
		if ifs.Else != nil || c.ocspLoopAct(ifs.Body) != "LoopAct.cont" {
			fail("%s: IsRevoked: unsupported `output == nil` branch", c.pos(ifs))
		}
		li++
	}
	if s := lnext("parse"); !c.ocspAssignIs(s, "ocspResponse,err", "c.parseOcspResponse(clientCertificate,certCandidates,output,ocspServer)") {
		fail("%s: IsRevoked: expected ocspResponse, err := c.parseOcspResponse(clientCertificate, certCandidates, output, ocspServer)", c.pos(s))
	}
	pe, ok := lnext("parse error check").(*ast.IfStmt)
	if !ok || pe.Init != nil || pe.Else != nil || exprStr(pe.Cond) != "err!=nil" {
		fail("%s: IsRevoked: expected `if err != nil` after parseOcspResponse", c.pos(innerL))
	}
	f.onParseErr = c.ocspLoopAct(pe.Body)
	// status
	st, ok := lnext("revocationStatus").(*ast.AssignStmt)
	if !ok || exprStr(st.Lhs[0]) != "revocationStatus" || len(st.Rhs) != 1 {
		fail("%s: IsRevoked: expected `revocationStatus := core.RevocationStatus{…}`", c.pos(innerL))
	}
	if v, ok := ocspCompositeField(st.Rhs[0], "Revoked"); !ok || v != "false" {
		fail("%s: IsRevoked: initial revocationStatus is not Revoked: false", c.pos(st))
	}
	rs, ok := lnext("revoked test").(*ast.IfStmt)
	if !ok || rs.Init != nil || rs.Else != nil || len(rs.Body.List) != 1 {
		fail("%s: IsRevoked: expected `if ocspResponse.Status == ocsp.Revoked { … }`", c.pos(innerL))
	}
	ra, ok := rs.Body.List[0].(*ast.AssignStmt)
	if !ok || exprStr(ra.Lhs[0]) != "revocationStatus" {
		fail("%s: IsRevoked: revoked branch does not assign revocationStatus", c.pos(rs))
	}
	if v, ok := ocspCompositeField(ra.Rhs[0], "Revoked"); !ok || v != "true" {
		fail("%s: IsRevoked: revoked branch does not set Revoked: true", c.pos(rs))
	}
	switch exprStr(rs.Cond) {
	case "ocspResponse.Status==ocsp.Revoked":
		f.revokedIffStatusRevoked = true
	case "ocspResponse.Status!=ocsp.Good":
		f.revokedIffStatusRevoked = false
	default:
		fail("%s: IsRevoked: unsupported revoked test %s", c.pos(rs), exprStr(rs.Cond))
	}
	if s := lnext("eviction time"); !c.ocspAssignIs(s, "evictionTime", "c.calculateEvictionTime(ocspResponse)") {
		fail("%s: IsRevoked: expected evictionTime := c.calculateEvictionTime(ocspResponse)", c.pos(s))
	}
	addStmt := lnext("cache add")
	var addCall ast.Stmt
	if ifs, ok := addStmt.(*ast.IfStmt); ok {
		if ifs.Init != nil || ifs.Else != nil || exprStr(ifs.Cond) != "evictionTime>0" || len(ifs.Body.List) != 1 {
			fail("%s: IsRevoked: unsupported guard around cache.Add: %s", c.pos(ifs), exprStr(ifs.Cond))
		}
		f.addGuard = "AddGuard.evictionPositive"
		addCall = ifs.Body.List[0]
	} else {
		f.addGuard = "AddGuard.none"
		addCall = addStmt
	}
	es, ok := addCall.(*ast.ExprStmt)
	if !ok {
		fail("%s: IsRevoked: expected c.cache.Add(…)", c.pos(addCall))
	}
	call, ok := es.X.(*ast.CallExpr)
	if !ok || exprStr(call.Fun) != "c.cache.Add" || len(call.Args) != 3 || exprStr(call.Args[0]) != "cacheKey" || exprStr(call.Args[1]) != "evictionTime" {
		fail("%s: IsRevoked: expected c.cache.Add(cacheKey, evictionTime, …)", c.pos(addCall))
	}
	val, ok := call.Args[2].(*ast.CompositeLit)
	if !ok || exprStr(val.Type) != "cachedRevocationStatus" || len(val.Elts) != 2 || exprStr(val.Elts[0]) != "revocationStatus" {
		fail("%s: IsRevoked: cached value is not cachedRevocationStatus{revocationStatus, <validUntil>}", c.pos(call))
	}
	switch exprStr(val.Elts[1]) {
	case "time.Now().Add(evictionTime)":
		f.validUntilIsNowPlusEviction = true
	case "time.Now()":
		f.validUntilIsNowPlusEviction = false
	default:
		fail("%s: IsRevoked: unsupported validUntil expression %s", c.pos(call), exprStr(val.Elts[1]))
	}
	if r, ok := lnext("return").(*ast.ReturnStmt); !ok || len(r.Results) != 2 || exprStr(r.Results[0]) != "&revocationStatus" || exprStr(r.Results[1]) != "nil" {
		fail("%s: IsRevoked: loop body does not end in `return &revocationStatus, nil`", c.pos(innerL))
	}
	if li != len(lb) {
		fail("%s: IsRevoked: unexpected statements at the end of the loop body", c.pos(lb[li]))
	}
	// tail
	tail, ok := next("tail").(*ast.IfStmt)
	if !ok || tail.Init != nil {
		fail("%s: IsRevoked: expected the strict tail `if … { return nil, error } else { return not revoked }`", c.pos(fd))
	}
	if at != len(b) {
		fail("%s: IsRevoked: statements after the tail", c.pos(b[at]))
	}
	f.tailLenOf = "LenOf.notTested"
	f.tailNeedsStrict = false
	for _, cj := range ocspFlattenBin(tail.Cond, token.LAND) {
		switch exprStr(cj) {
		case "len(ocspServerList)>0":
			f.tailLenOf = "LenOf.filtered"
		case "len(clientCertificate.OCSPServer)>0":
			f.tailLenOf = "LenOf.unfiltered"
		case "c.ocspConfig.OCSPAIAStrict":
			f.tailNeedsStrict = true
		default:
			fail("%s: IsRevoked: unsupported conjunct in the tail condition: %s", c.pos(cj), exprStr(cj))
		}
	}
	if c.ocspLoopAct(tail.Body) != "LoopAct.fail" {
		fail("%s: IsRevoked: tail then-branch does not return an error", c.pos(tail))
	}
	eb, ok := tail.Else.(*ast.BlockStmt)
	if !ok {
		fail("%s: IsRevoked: tail has no else branch", c.pos(tail))
	}
	el := ocspDropLogs(eb.List)
	r, ok := el[0].(*ast.ReturnStmt)
	if len(el) != 1 || !ok || len(r.Results) != 2 || exprStr(r.Results[1]) != "nil" {
		fail("%s: IsRevoked: tail else-branch is not a plain return", c.pos(eb))
	}
	if v, ok := ocspCompositeField(r.Results[0], "Revoked"); !ok || v != "false" {
		fail("%s: IsRevoked: tail else-branch does not return Revoked: false", c.pos(eb))
	}
}

// ocspIssuerChains recognises
//
//	result := make([][]*x509.Certificate, 0, len(verifiedChains))
//	for _, verifiedChain := range verifiedChains {
//		if len(verifiedChain) > 1 { result = append(result, verifiedChain[1:]) } [else { result = append(result, verifiedChain) }]
//	}
//	return result
func (c *ctx) ocspIssuerChains() string {
	fd := c.funcDecl(ocspFile, "", "issuerChains")
	b := fd.Body.List
	if len(b) != 3 || !c.ocspAssignIs(b[0], "result", "make([][]*x509.Certificate,0,len(verifiedChains))") {
		fail("%s: issuerChains: unexpected shape", c.pos(fd))
	}
	rs, ok := b[1].(*ast.RangeStmt)
	if !ok || exprStr(rs.X) != "verifiedChains" || rs.Value == nil || exprStr(rs.Value) != "verifiedChain" || len(rs.Body.List) != 1 {
		fail("%s: issuerChains: expected `for _, verifiedChain := range verifiedChains` with one statement", c.pos(b[1]))
	}
	ifs, ok := rs.Body.List[0].(*ast.IfStmt)
	if !ok || ifs.Init != nil || exprStr(ifs.Cond) != "len(verifiedChain)>1" || len(ifs.Body.List) != 1 {
		fail("%s: issuerChains: expected `if len(verifiedChain) > 1`", c.pos(rs))
	}
	// exprStr renders every slice expression as x[:]; check the bounds explicitly
	as, ok := ifs.Body.List[0].(*ast.AssignStmt)
	if !ok || len(as.Lhs) != 1 || exprStr(as.Lhs[0]) != "result" || len(as.Rhs) != 1 {
		fail("%s: issuerChains: then-branch is not `result = append(result, verifiedChain[1:])`", c.pos(ifs))
	}
	call, ok := as.Rhs[0].(*ast.CallExpr)
	if !ok || exprStr(call.Fun) != "append" || len(call.Args) != 2 || exprStr(call.Args[0]) != "result" {
		fail("%s: issuerChains: then-branch is not an append to result", c.pos(ifs))
	}
	sl, ok := call.Args[1].(*ast.SliceExpr)
	if !ok || exprStr(sl.X) != "verifiedChain" || sl.Low == nil || exprStr(sl.Low) != "1" || sl.High != nil || sl.Max != nil {
		fail("%s: issuerChains: then-branch does not append verifiedChain[1:]", c.pos(ifs))
	}
	if r, ok := b[2].(*ast.ReturnStmt); !ok || len(r.Results) != 1 || exprStr(r.Results[0]) != "result" {
		fail("%s: issuerChains: does not return result", c.pos(b[2]))
	}
	if ifs.Else == nil {
		return "ChainTrim.dropFirstAlways"
	}
	eb, ok := ifs.Else.(*ast.BlockStmt)
	if !ok || len(eb.List) != 1 || !c.ocspAssignIs(eb.List[0], "result", "append(result,verifiedChain)") {
		fail("%s: issuerChains: else-branch is not `result = append(result, verifiedChain)`", c.pos(ifs))
	}
	return "ChainTrim.dropFirstKeepSingleton"
}

func (c *ctx) ocspProvision() {
	fd := c.funcDecl(ocspFile, "OCSPRevocationChecker", "Provision")
	found := false
	for _, s := range fd.Body.List {
		if c.ocspAssignIs(s, "c.cache", `cache2go.Cache("ocsp_client")`) {
			found = true
		}
	}
	if !found {
		fail("%s: Provision does not assign c.cache = cache2go.Cache(\"ocsp_client\")", c.pos(fd))
	}
	// the handle must not be assigned anywhere else
	for _, d := range c.file(ocspFile).Decls {
		fn, ok := d.(*ast.FuncDecl)
		if !ok || fn.Body == nil || fn.Name.Name == "Provision" {
			continue
		}
		ast.Inspect(fn.Body, func(n ast.Node) bool {
			if as, ok := n.(*ast.AssignStmt); ok {
				for _, l := range as.Lhs {
					if exprStr(l) == "c.cache" {
						fail("%s: c.cache assigned outside Provision", c.pos(as))
					}
				}
			}
			return true
		})
	}
}

func genOcsp(c *ctx, out string) {
	var f ocspFacts
	f.maxClockSkewMs = c.ocspDurationMs(c.ocspConstValue(ocspFile, "maxClockSkew"))
	c.ocspFilter(&f)
	c.ocspEviction(&f)
	c.ocspAuthRules(&f)
	c.ocspParseAttempts(&f)
	c.ocspTryGet(&f)
	c.ocspIsRevoked(&f)
	c.ocspProvision()

	l := newLean("Ocsp", "Crv.Ocsp")
	l.p("open Crv.Ocsp in")
	l.p("/-- ocsp/ocsprevocationchecker.go as the model's intermediate representation (see Crv/Ocsp.lean `Facts`):")
	l.p("filterHTTPOCSPServers, maxClockSkew (ms), IsRevoked (cache key, cache first, loops, failure branches, revoked test,")
	l.p("cache.Add guard and value, tail condition), calculateEvictionTime, tryGetResponseFromCache, parseOcspResponse,")
	l.p("isAuthorizedResponder. -/")
	l.p("def ocspFacts : Crv.Ocsp.Facts :=")
	l.p("  { httpPrefix := %s", ocspCharList(f.httpPrefix))
	l.p("    filterLowercases := %s", ocspBool(f.filterLowercases))
	l.p("    maxClockSkew := %d", f.maxClockSkewMs)
	l.p("    keyParts := [%s]", strings.Join(f.keyParts, ", "))
	l.p("    cacheFirst := %s", ocspBool(f.cacheFirst))
	l.p("    validUntilChecked := %s", ocspBool(f.validUntilChecked))
	l.p("    loopOrder := %s", f.loopOrder)
	l.p("    onFetchErr := %s", f.onFetchErr)
	l.p("    onParseErr := %s", f.onParseErr)
	l.p("    revokedIffStatusRevoked := %s", ocspBool(f.revokedIffStatusRevoked))
	l.p("    evictionUsesNextUpdate := %s", ocspBool(f.evictionUsesNextUpdate))
	l.p("    addGuard := %s", f.addGuard)
	l.p("    validUntilIsNowPlusEviction := %s", ocspBool(f.validUntilIsNowPlusEviction))
	l.p("    tailLenOf := %s", f.tailLenOf)
	l.p("    tailNeedsStrict := %s", ocspBool(f.tailNeedsStrict))
	l.p("    parseAttempts := [%s]", strings.Join(f.parseAttempts, ", "))
	l.p("    authRules := [%s]", strings.Join(f.authRules, ", "))
	l.p("    chainTrim := %s }", f.chainTrim)
	l.write(out)
	c.facts["ocsp"] = map[string]interface{}{
		"httpPrefix": f.httpPrefix, "filterLowercases": f.filterLowercases, "maxClockSkewMs": f.maxClockSkewMs,
		"keyParts": f.keyParts, "loopOrder": f.loopOrder, "onFetchErr": f.onFetchErr, "onParseErr": f.onParseErr,
		"addGuard": f.addGuard, "tailLenOf": f.tailLenOf, "tailNeedsStrict": f.tailNeedsStrict,
		"parseAttempts": f.parseAttempts, "authRules": f.authRules, "validUntilChecked": f.validUntilChecked, "chainTrim": f.chainTrim,
		"usesParseForCert":    len(f.parseAttempts) > 0 && !strings.Contains(strings.Join(f.parseAttempts, ";"), "passesCert := false"),
		"firstParseIssuerNil": len(f.parseAttempts) > 0 && strings.Contains(f.parseAttempts[0], "passesIssuer := false"),
	}
}
