package main

func genOcsp(c *ctx, out string) {
}
