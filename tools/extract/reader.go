package main

func genReader(c *ctx, out string) {
}
