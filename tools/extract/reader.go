package main

import (
	"go/ast"
	"go/token"
	"sort"
	"strconv"
	"strings"
)

// rdWalkCalls calls f for every call expression in the function body.
func rdWalkCalls(fd *ast.FuncDecl, f func(*ast.CallExpr)) {
	ast.Inspect(fd.Body, func(n ast.Node) bool {
		if c, ok := n.(*ast.CallExpr); ok {
			f(c)
		}
		return true
	})
}

func (c *ctx) rdIntConst(rel, name string) (int64, bool) {
	for _, d := range c.file(rel).Decls {
		gd, ok := d.(*ast.GenDecl)
		if !ok || gd.Tok != token.CONST {
			continue
		}
		for _, s := range gd.Specs {
			vs := s.(*ast.ValueSpec)
			for i, n := range vs.Names {
				if n.Name == name && i < len(vs.Values) {
					if bl, ok := vs.Values[i].(*ast.BasicLit); ok && bl.Kind == token.INT {
						v, err := strconv.ParseInt(bl.Value, 0, 64)
						if err == nil {
							return v, true
						}
					}
				}
			}
		}
	}
	return 0, false
}

func (c *ctx) rdStrConst(rel, name string) (string, bool) {
	for _, d := range c.file(rel).Decls {
		gd, ok := d.(*ast.GenDecl)
		if !ok || gd.Tok != token.CONST {
			continue
		}
		for _, s := range gd.Specs {
			vs := s.(*ast.ValueSpec)
			for i, n := range vs.Names {
				if n.Name == name && i < len(vs.Values) {
					if bl, ok := vs.Values[i].(*ast.BasicLit); ok && bl.Kind == token.STRING {
						return unquote(bl.Value), true
					}
				}
			}
		}
	}
	return "", false
}

// rdIntArg resolves an integer argument: literal or package constant of asn1parser.go.
func (c *ctx) rdIntArg(rel string, e ast.Expr) (int64, bool) {
	switch x := e.(type) {
	case *ast.BasicLit:
		if x.Kind == token.INT {
			v, err := strconv.ParseInt(x.Value, 0, 64)
			return v, err == nil
		}
	case *ast.Ident:
		return c.rdIntConst(rel, x.Name)
	}
	return 0, false
}

// capOf reports how the value bytes are read in fn of asn1parser.go:
// via <limited>(reader, tl, CAP) where limited itself checks ExpectLengthNotGreater first -> "some CAP", via ReadExpectedBytes -> "none".
func (c *ctx) capOf(fn, limited string) string {
	const rel = "core/asn1parser/asn1parser.go"
	fd := c.funcDecl(rel, "", fn)
	res := ""
	rdWalkCalls(fd, func(call *ast.CallExpr) {
		name := exprStr(call.Fun)
		switch name {
		case limited:
			if len(call.Args) != 3 {
				fail("%s: %s: %s with %d args", c.pos(call), fn, limited, len(call.Args))
			}
			v, ok := c.rdIntArg(rel, call.Args[2])
			if !ok {
				fail("%s: %s: cap argument %s is not an integer constant", c.pos(call), fn, exprStr(call.Args[2]))
			}
			if res != "" {
				fail("%s: %s reads value bytes more than once", c.pos(call), fn)
			}
			res = "some " + strconv.FormatInt(v, 10)
		case "ReadExpectedBytes":
			if res != "" {
				fail("%s: %s reads value bytes more than once", c.pos(call), fn)
			}
			res = "none"
		}
	})
	if res == "" {
		fail("%s: %s: no value read found", c.pos(fd), fn)
	}
	return res
}

// limitedChecksFirst verifies that fn = `err := ExpectLengthNotGreater(big.NewInt(maxLength), &tagLength.Length.Length); if err != nil {return nil, err}; ...`
func (c *ctx) limitedChecksFirst(fn string) bool {
	fd := c.funcDecl("core/asn1parser/asn1parser.go", "", fn)
	if len(fd.Body.List) < 2 {
		return false
	}
	as, ok := fd.Body.List[0].(*ast.AssignStmt)
	if !ok || len(as.Rhs) != 1 {
		return false
	}
	if exprStr(as.Rhs[0]) != "ExpectLengthNotGreater(big.NewInt(maxLength),&tagLength.Length.Length)" {
		return false
	}
	ifs, ok := fd.Body.List[1].(*ast.IfStmt)
	if !ok || exprStr(ifs.Cond) != "err!=nil" || len(ifs.Body.List) != 1 {
		return false
	}
	r, ok := ifs.Body.List[0].(*ast.ReturnStmt)
	return ok && len(r.Results) == 2 && exprStr(r.Results[1]) == "err"
}

func rdOidLean(s string) string {
	parts := strings.Split(s, ".")
	for _, p := range parts {
		if _, err := strconv.Atoi(p); err != nil {
			fail("not a dotted OID: %q", s)
		}
	}
	return "[" + strings.Join(parts, ", ") + "]"
}

func genReader(c *ctx, out string) {
	const ap = "core/asn1parser/asn1parser.go"
	const cr = "crl/crlreader/crlreader.go"
	l := newLean("Reader", "Crv.ReaderTypes")

	// --- caps ---------------------------------------------------------------------------
	if !c.limitedChecksFirst("ReadTVLBytesWithLimit") {
		fail("ReadTVLBytesWithLimit does not start with the length check")
	}
	l.p("/-- asn1parser.go:ReadStruct — cap on the declared content length before allocation. -/")
	l.p("def structCap : Option Nat := %s", c.capOf("ReadStruct", "ReadTVLBytesWithLimit"))
	valueLimited := "ReadValueBytesWithLimit"
	hasVL := false
	for _, d := range c.file(ap).Decls {
		if fd, ok := d.(*ast.FuncDecl); ok && fd.Name.Name == valueLimited {
			hasVL = true
		}
	}
	if hasVL && !c.limitedChecksFirst(valueLimited) {
		fail("%s does not start with the length check", valueLimited)
	}
	for _, p := range [][2]string{{"ReadUtcTime", "utcTimeCap"}, {"ParseBitString", "bitStringCap"}, {"ReadBigInt", "bigIntCap"}, {"ParseOctetString", "octetStringCap"}} {
		l.p("/-- asn1parser.go:%s — how the value bytes are read (`none` = `ReadExpectedBytes(int(len.Int64()))` unchecked). -/", p[0])
		l.p("def %s : Option Nat := %s", p[1], c.capOf(p[0], valueLimited))
	}

	// --- length decoding ------------------------------------------------------------------
	masks := map[string]bool{}
	for _, fn := range []string{"ReadLength", "PeekLength"} {
		fd := c.funcDecl(ap, "", fn)
		short := false
		ast.Inspect(fd.Body, func(n ast.Node) bool {
			be, ok := n.(*ast.BinaryExpr)
			if !ok || be.Op != token.AND {
				return true
			}
			if exprStr(be.X) != "lengthOrSizeOfLength" {
				return true
			}
			v, ok := c.rdIntArg(ap, be.Y)
			if !ok {
				fail("%s: %s: mask is not a constant", c.pos(be), fn)
			}
			if v == 0x80 {
				short = true
			} else {
				masks[strconv.FormatInt(v, 10)] = true
			}
			return true
		})
		if !short {
			fail("%s: short-form test `& 0x80` not found", fn)
		}
	}
	if len(masks) != 1 {
		fail("ReadLength/PeekLength use different or no length-count masks: %v", masks)
	}
	for m := range masks {
		l.p("/-- asn1parser.go:ReadLength/PeekLength — mask applied to the first length byte to get the number of length bytes. -/")
		l.p("def lengthCountMask : UInt8 := %s", m)
	}

	// strict long form: both functions call expectSupportedLengthForm(lengthOrSizeOfLength) between taking the count and reading
	// the length bytes, and that function rejects exactly "bits 0x70 set or count 0"
	strict := map[string]bool{}
	for _, fn := range []string{"ReadLength", "PeekLength"} {
		fd := c.funcDecl(ap, "", fn)
		seenCount, seenCheck, seenRead := -1, -1, -1
		idx := 0
		ast.Inspect(fd.Body, func(n ast.Node) bool {
			as, ok := n.(*ast.AssignStmt)
			if !ok || len(as.Rhs) != 1 {
				return true
			}
			idx++
			switch r := exprStr(as.Rhs[0]); {
			case r == "int(lengthOrSizeOfLength&0x0F)":
				seenCount = idx
			case r == "expectSupportedLengthForm(lengthOrSizeOfLength)":
				seenCheck = idx
				// must be followed by `if err != nil { return nil, err }` — checked through the statement list below
			case strings.HasPrefix(r, "ReadExpectedBigInt(") || strings.HasPrefix(r, "PeekExpectedBigInt("):
				seenRead = idx
			}
			return true
		})
		if seenCheck < 0 {
			strict[fn] = false
			continue
		}
		if !(seenCount >= 0 && seenCount < seenCheck && seenCheck < seenRead) {
			fail("%s: %s: expectSupportedLengthForm is not called between taking the count and reading the length bytes", c.pos(fd), fn)
		}
		// the error of the check must be returned
		okRet := false
		ast.Inspect(fd.Body, func(n ast.Node) bool {
			bs, ok := n.(*ast.BlockStmt)
			if !ok {
				return true
			}
			for i, st := range bs.List {
				as, ok := st.(*ast.AssignStmt)
				if !ok || len(as.Rhs) != 1 || exprStr(as.Rhs[0]) != "expectSupportedLengthForm(lengthOrSizeOfLength)" || len(as.Lhs) != 1 || exprStr(as.Lhs[0]) != "err" {
					continue
				}
				if i+1 < len(bs.List) {
					if ifs, ok := bs.List[i+1].(*ast.IfStmt); ok && exprStr(ifs.Cond) == "err!=nil" && len(ifs.Body.List) == 1 {
						if r, ok := ifs.Body.List[0].(*ast.ReturnStmt); ok && len(r.Results) == 2 && exprStr(r.Results[1]) == "err" {
							okRet = true
						}
					}
				}
			}
			return true
		})
		if !okRet {
			fail("%s: %s: the result of expectSupportedLengthForm is not returned", c.pos(fd), fn)
		}
		strict[fn] = true
	}
	if strict["ReadLength"] != strict["PeekLength"] {
		fail("ReadLength and PeekLength disagree about expectSupportedLengthForm")
	}
	if strict["ReadLength"] {
		fd := c.funcDecl(ap, "", "expectSupportedLengthForm")
		if len(fd.Body.List) != 2 {
			fail("%s: expectSupportedLengthForm: unexpected body", c.pos(fd))
		}
		ifs, ok := fd.Body.List[0].(*ast.IfStmt)
		if !ok || exprStr(ifs.Cond) != "(lengthOrSizeOfLength&0x70)!=0||(lengthOrSizeOfLength&0x0F)==0" || len(ifs.Body.List) != 1 {
			fail("%s: expectSupportedLengthForm: condition not recognised", c.pos(fd))
		}
		if r, ok := ifs.Body.List[0].(*ast.ReturnStmt); !ok || len(r.Results) != 1 || exprStr(r.Results[0]) == "nil" {
			fail("%s: expectSupportedLengthForm: the rejected forms do not return an error", c.pos(fd))
		}
		if r, ok := fd.Body.List[1].(*ast.ReturnStmt); !ok || len(r.Results) != 1 || exprStr(r.Results[0]) != "nil" {
			fail("%s: expectSupportedLengthForm: unexpected tail", c.pos(fd))
		}
	}
	l.p("/-- asn1parser.go:ReadLength/PeekLength — a long form whose first byte has one of the bits 0x70 set, or whose count of length bytes is 0 (indefinite form), is rejected. -/")
	l.p("def lengthFormStrict : Bool := %v", strict["ReadLength"])

	// --- version --------------------------------------------------------------------------
	pv := c.funcDecl(cr, "", "parseVersion")
	verExpr := ""
	ast.Inspect(pv.Body, func(n ast.Node) bool {
		as, ok := n.(*ast.AssignStmt)
		if ok && len(as.Lhs) == 1 && exprStr(as.Lhs[0]) == "version" && len(as.Rhs) == 1 {
			verExpr = exprStr(as.Rhs[0])
		}
		return true
	})
	l.p("/-- crlreader.go:parseVersion — `%s`. -/", verExpr)
	switch verExpr {
	case "int(readUint8)+1":
		l.p("def versionOf (b : UInt8) : Nat := b.toNat + 1")
	case "int(readUint8+1)":
		l.p("def versionOf (b : UInt8) : Nat := (b + 1).toNat")
	default:
		fail("%s: parseVersion: unsupported version expression %q", c.pos(pv), verExpr)
	}
	rc := c.funcDecl(cr, "StreamingCRLFileReader", "ReadCRL")
	maxVer := int64(-1)
	flags := map[string]bool{}
	ast.Inspect(rc.Body, func(n ast.Node) bool {
		ifs, ok := n.(*ast.IfStmt)
		if !ok {
			return true
		}
		cond := exprStr(ifs.Cond)
		if strings.HasPrefix(cond, "version>") {
			if be, ok := ifs.Cond.(*ast.BinaryExpr); ok {
				if v, ok := c.rdIntArg(cr, be.Y); ok {
					maxVer = v
				}
			}
		}
		switch cond {
		case "reader.Position()<tbsCertListEnd&&revokedCertificateListExists(reader)":
			flags["list"] = true
		case "revokedCertificateListExists(reader)":
			flags["list"] = false
		case "reader.Position()<tbsCertListEnd&&extensionsExists(reader,version)":
			flags["exts"] = true
		case "extensionsExists(reader,version)":
			flags["exts"] = false
		}
		return true
	})
	// --- envelope checks of ReadCRL (top-level statements, in order) -------------------------------------------
	var top []string
	for _, st := range rc.Body.List {
		switch x := st.(type) {
		case *ast.AssignStmt:
			if len(x.Rhs) == 1 {
				top = append(top, "assign:"+exprStr(x.Rhs[0]))
			}
		case *ast.IfStmt:
			ret := ""
			if len(x.Body.List) >= 1 {
				if r, ok := x.Body.List[len(x.Body.List)-1].(*ast.ReturnStmt); ok && len(r.Results) == 2 && exprStr(r.Results[0]) == "nil" && exprStr(r.Results[1]) != "nil" {
					ret = "!"
				}
			}
			top = append(top, "if"+ret+":"+exprStr(x.Cond))
		}
	}
	find := func(s string) int {
		for i, t := range top {
			if t == s {
				return i
			}
		}
		return -1
	}
	iOuterTL := find("assign:asn1parser.ReadTagLength(&reader)")
	iOuterEnd := find("assign:calculateEndPosition(reader,certificateListTL)")
	iStart := find("assign:signatureverify.LookupHashAndVerifyStrategies(*algorithmIdentifier)")
	iInnerAlg := find("assign:readAlgorithmIdentifier(&reader)")
	iCmp := find("if!:!bytes.Equal(tbsAlgorithmIdentifierEncoding,algorithmIdentifierEncoding)")
	iIssuer := find("assign:asn1parser.ReadStruct(&reader,issuer)")
	iSig := find("assign:asn1parser.ParseBitString(&reader)")
	iBits := find("if!:signatureBitString.BitLength%8!=0")
	iLen := find("if!:reader.Position()!=certificateListEnd")
	if iOuterTL < 0 || iIssuer < 0 || iSig < 0 || iStart < 0 {
		fail("%s: ReadCRL: landmark statements not found (outer header, issuer, signature)", c.pos(rc))
	}
	outerLen := false
	if iOuterEnd >= 0 || iLen >= 0 {
		if !(iOuterTL < iOuterEnd && iOuterEnd < iStart && iSig < iLen) {
			fail("%s: ReadCRL: the outer length check is not `end := calculateEndPosition(reader, certificateListTL)` before hashing starts and `reader.Position() != end` after the signature", c.pos(rc))
		}
		if iOuterEnd+1 >= len(top) || top[iOuterEnd+1] != "if!:err!=nil" {
			fail("%s: ReadCRL: error of calculateEndPosition(certificateListTL) is not returned", c.pos(rc))
		}
		outerLen = true
	}
	algCmp := false
	if iInnerAlg >= 0 && iInnerAlg < iIssuer && iCmp >= 0 {
		if !(iInnerAlg+1 == iCmp-1 && top[iInnerAlg+1] == "if!:err!=nil" && iCmp < iIssuer) {
			fail("%s: ReadCRL: the inner algorithm identifier is not read, its error returned and compared before the issuer is read", c.pos(rc))
		}
		// the two encodings compared are the complete TLVs read by readAlgorithmIdentifier in the two passes
		lhsOf := func(fn *ast.FuncDecl, rhs string) string {
			res := ""
			ast.Inspect(fn.Body, func(n ast.Node) bool {
				if as, ok := n.(*ast.AssignStmt); ok && len(as.Rhs) == 1 && exprStr(as.Rhs[0]) == rhs && res == "" {
					var ls []string
					for _, e := range as.Lhs {
						ls = append(ls, exprStr(e))
					}
					res = strings.Join(ls, ",")
				}
				return true
			})
			return res
		}
		if lhsOf(rc, "findAlgorithmIdentifierInCRL(crlFile)") != "algorithmIdentifier,algorithmIdentifierEncoding,err" {
			fail("%s: ReadCRL: the outer algorithm identifier encoding does not come from findAlgorithmIdentifierInCRL", c.pos(rc))
		}
		if lhsOf(rc, "readAlgorithmIdentifier(&reader)") != "_,tbsAlgorithmIdentifierEncoding,err" {
			fail("%s: ReadCRL: the inner algorithm identifier encoding does not come from readAlgorithmIdentifier", c.pos(rc))
		}
		fa := c.funcDecl(cr, "", "findAlgorithmIdentifierInCRL")
		if r, ok := fa.Body.List[len(fa.Body.List)-1].(*ast.ReturnStmt); !ok || len(r.Results) != 1 || exprStr(r.Results[0]) != "readAlgorithmIdentifier(&reader)" {
			fail("%s: findAlgorithmIdentifierInCRL does not end in `return readAlgorithmIdentifier(&reader)`", c.pos(fa))
		}
		ra := c.funcDecl(cr, "", "readAlgorithmIdentifier")
		var ras []string
		for _, st := range ra.Body.List {
			switch x := st.(type) {
			case *ast.AssignStmt:
				ras = append(ras, exprStr(x.Lhs[0])+"="+exprStr(x.Rhs[0]))
			case *ast.ReturnStmt:
				var rs []string
				for _, e := range x.Results {
					rs = append(rs, exprStr(e))
				}
				ras = append(ras, "return "+strings.Join(rs, ","))
			case *ast.IfStmt:
				ras = append(ras, "if "+exprStr(x.Cond))
			}
		}
		want := "encoding=new(asn1.RawValue);err=asn1parser.ReadStruct(reader,encoding);if err!=nil;value=new(pkix.AlgorithmIdentifier);_=asn1.Unmarshal(encoding.FullBytes,value);if err!=nil;return value,encoding.FullBytes,nil"
		if strings.Join(ras, ";") != want {
			fail("%s: readAlgorithmIdentifier: unexpected body %q", c.pos(ra), strings.Join(ras, ";"))
		}
		algCmp = true
	} else if iCmp >= 0 {
		fail("%s: ReadCRL: algorithm comparison present but not in the recognised place", c.pos(rc))
	}
	bits := false
	if iBits >= 0 {
		if !(iSig < iBits) || (outerLen && !(iBits < iLen)) {
			fail("%s: ReadCRL: unused-bits check not between the signature and the outer length check", c.pos(rc))
		}
		bits = true
	}
	l.p("/-- crlreader.go:ReadCRL — the CertificateList has to end where its (unsigned) length says. -/")
	l.p("def outerLengthChecked : Bool := %v", outerLen)
	l.p("/-- crlreader.go:ReadCRL — the signature field of tbsCertList is decoded (errors returned) and has to equal the outer signatureAlgorithm. -/")
	l.p("def algIdsCompared : Bool := %v", algCmp)
	l.p("/-- crlreader.go:ReadCRL — a signature BIT STRING with unused bits is rejected. -/")
	l.p("def sigUnusedBitsRejected : Bool := %v", bits)
	if maxVer < 0 {
		fail("%s: ReadCRL: `if version > N` not found", c.pos(rc))
	}
	if _, ok := flags["list"]; !ok {
		fail("%s: ReadCRL: revoked-list presence test not recognised", c.pos(rc))
	}
	if _, ok := flags["exts"]; !ok {
		fail("%s: ReadCRL: extensions presence test not recognised", c.pos(rc))
	}
	l.p("/-- crlreader.go:ReadCRL — `if version > %d` rejects. -/", maxVer)
	l.p("def maxVersion : Nat := %d", maxVer)
	l.p("/-- crlreader.go:ReadCRL — optional trailing fields are only looked for before the declared end of tbsCertList. -/")
	l.p("def listGuardedByTbsEnd : Bool := %v", flags["list"])
	l.p("def extsGuardedByTbsEnd : Bool := %v", flags["exts"])
	// entry loop: for reader.Position() < revokedCertListEnd { ReadStruct …; InsertRevokedCertificate … }
	pl := c.funcDecl(cr, "", "parseRevokedCertificateList")
	loopOK := false
	ast.Inspect(pl.Body, func(n ast.Node) bool {
		fs, ok := n.(*ast.ForStmt)
		if ok && fs.Init == nil && fs.Post == nil && exprStr(fs.Cond) == "reader.Position()<revokedCertListEnd" {
			loopOK = true
		}
		return true
	})
	if !loopOK {
		fail("%s: parseRevokedCertificateList: entry loop is not `for reader.Position() < revokedCertListEnd`", c.pos(pl))
	}
	l.p("def entryLoopBoundedByListEnd : Bool := true")

	// --- critical gate --------------------------------------------------------------------
	const es = "crl/crlreader/extensionsupport/extensionsupport.go"
	var handled []string
	for _, d := range c.file(es).Decls {
		gd, ok := d.(*ast.GenDecl)
		if !ok || gd.Tok != token.VAR {
			continue
		}
		for _, s := range gd.Specs {
			vs := s.(*ast.ValueSpec)
			if len(vs.Names) != 1 || vs.Names[0].Name != "handledCRLExtensions" {
				continue
			}
			cl, ok := vs.Values[0].(*ast.CompositeLit)
			if !ok {
				fail("handledCRLExtensions is not a composite literal")
			}
			for _, e := range cl.Elts {
				kv := e.(*ast.KeyValueExpr)
				if exprStr(kv.Value) != "true" {
					continue
				}
				name := exprStr(kv.Key)
				if v, ok := c.rdStrConst(es, name); ok {
					handled = append(handled, v)
				} else if bl, ok := kv.Key.(*ast.BasicLit); ok {
					handled = append(handled, unquote(bl.Value))
				} else {
					fail("handledCRLExtensions key %s not resolvable", name)
				}
			}
		}
	}
	sort.Strings(handled)
	var hl []string
	for _, h := range handled {
		hl = append(hl, rdOidLean(h))
	}
	l.p("/-- extensionsupport.go:handledCRLExtensions — critical extensions with these OIDs pass the gate. -/")
	l.p("def handledCriticalOids : List (List Nat) := [%s]", strings.Join(hl, ", "))
	if v, ok := c.rdStrConst(es, "OidCrlExtCrlNumber"); ok {
		l.p("def oidCrlNumberGen : List Nat := %s", rdOidLean(v))
	}
	if v, ok := c.rdStrConst(es, "OidCertExtAuthorityKeyId"); ok {
		l.p("def oidAuthorityKeyIdGen : List Nat := %s", rdOidLean(v))
	}

	// --- hash table -----------------------------------------------------------------------
	const hv = "core/signatureverify/hashandverifystrategieslookup.go"
	hashNames := map[string]string{"crypto.SHA1": "HashAlg.sha1", "crypto.SHA224": "HashAlg.sha224", "crypto.SHA256": "HashAlg.sha256", "crypto.SHA384": "HashAlg.sha384", "crypto.SHA512": "HashAlg.sha512"}
	var rows [][2]string
	var prefixes [][2]string
	for _, d := range c.file(hv).Decls {
		gd, ok := d.(*ast.GenDecl)
		if !ok || gd.Tok != token.VAR {
			continue
		}
		for _, s := range gd.Specs {
			vs := s.(*ast.ValueSpec)
			if len(vs.Names) != 1 || len(vs.Values) != 1 {
				continue
			}
			cl, ok := vs.Values[0].(*ast.CompositeLit)
			if !ok {
				continue
			}
			switch vs.Names[0].Name {
			case "oidToHashAlgorithmMap":
				for _, e := range cl.Elts {
					kv := e.(*ast.KeyValueExpr)
					h, ok := hashNames[exprStr(kv.Value)]
					if !ok {
						h = "unknownHash_" + strings.ReplaceAll(exprStr(kv.Value), ".", "_")
					}
					rows = append(rows, [2]string{unquote(kv.Key.(*ast.BasicLit).Value), h})
				}
			case "oidPrefixToVerifyStrategyMap":
				for _, e := range cl.Elts {
					kv := e.(*ast.KeyValueExpr)
					v := exprStr(kv.Value)
					k := ""
					switch v {
					case "new(RSASignatureVerifyStrategy)":
						k = "KeyAlg.rsa"
					case "new(ECDSASignatureVerifyStrategy)":
						k = "KeyAlg.ecdsa"
					default:
						fail("unknown verify strategy %s", v)
					}
					prefixes = append(prefixes, [2]string{unquote(kv.Key.(*ast.BasicLit).Value), k})
				}
			}
		}
	}
	if len(rows) == 0 || len(prefixes) == 0 {
		fail("hash / strategy tables not found in %s", hv)
	}
	sort.Slice(rows, func(i, j int) bool { return rows[i][0] < rows[j][0] })
	sort.Slice(prefixes, func(i, j int) bool { return prefixes[i][0] < prefixes[j][0] })
	l.p("/-- hashandverifystrategieslookup.go:oidToHashAlgorithmMap. -/")
	l.p("def hashTable : List (List Nat × HashAlg) := [")
	for i, r := range rows {
		sep := ","
		if i == len(rows)-1 {
			sep = ""
		}
		l.p("  (%s, %s)%s", rdOidLean(r[0]), r[1], sep)
	}
	l.p("]")
	l.p("def lookupHash (oid : List Nat) : Option HashAlg := (hashTable.find? (fun p => p.1 == oid)).map (·.2)")
	l.p("/-- hashandverifystrategieslookup.go:oidPrefixToVerifyStrategyMap (string prefix of the dotted form), default strategy. -/")
	l.p("def strategyPrefixes : List (String × KeyAlg) := [")
	for i, r := range prefixes {
		sep := ","
		if i == len(prefixes)-1 {
			sep = ""
		}
		l.p("  (%s, %s)%s", leanStr(r[0]), r[1], sep)
	}
	l.p("]")
	// default strategy: last statement of getVerifyStrategyFromOID
	gs := c.funcDecl(hv, "", "getVerifyStrategyFromOID")
	last := gs.Body.List[len(gs.Body.List)-1]
	r, ok := last.(*ast.ReturnStmt)
	if !ok || len(r.Results) != 1 {
		fail("getVerifyStrategyFromOID does not end in a return")
	}
	switch exprStr(r.Results[0]) {
	case "new(RSASignatureVerifyStrategy)":
		l.p("def defaultStrategy : KeyAlg := KeyAlg.rsa")
	case "new(ECDSASignatureVerifyStrategy)":
		l.p("def defaultStrategy : KeyAlg := KeyAlg.ecdsa")
	default:
		fail("unknown default strategy")
	}
	l.write(out)
	c.facts["reader"] = map[string]interface{}{"handledCritical": handled, "hashRows": len(rows), "maxVersion": maxVer, "flags": flags}
}
