package main

// Facts for the work_dir / lifecycle / crash models (C20, C12): the temp-name patterns, the operation order of
// LevelDbStore.Update, the programs of Repository.loadCRL and Repository.updateCrlEntry, the statement order of
// CRLRevocationChecker.Provision and Cleanup. Pattern based, fails closed: a statement that is not recognised in
// one of these functions is an error.

import (
	"fmt"
	"go/ast"
	"go/token"
	"strconv"
	"strings"
)

const (
	paRepo    = "crl/crlrepository/crlrepository.go"
	paLdb     = "crl/crlstore/leveldb.go"
	paChecker = "crl/crlrevocationchecker.go"
	paFactory = "crl/crlloader/crlloaderfactory.go"
)

func paBytes(s string) string {
	parts := make([]string, 0, len(s))
	for i := 0; i < len(s); i++ {
		parts = append(parts, fmt.Sprintf("%d", s[i]))
	}
	return "[" + strings.Join(parts, ", ") + "]"
}

func paGoString(c *ctx, e ast.Expr) string {
	bl, ok := e.(*ast.BasicLit)
	if !ok || bl.Kind != token.STRING {
		fail("%s: string literal expected, got %s", c.pos(e), exprStr(e))
	}
	s, err := strconv.Unquote(bl.Value)
	if err != nil {
		fail("%s: cannot unquote %s", c.pos(e), bl.Value)
	}
	return s
}

// paCalls returns all call expressions below n whose function prints as name.
func paCalls(n ast.Node, name string) []*ast.CallExpr {
	var out []*ast.CallExpr
	ast.Inspect(n, func(x ast.Node) bool {
		if ce, ok := x.(*ast.CallExpr); ok && exprStr(ce.Fun) == name {
			out = append(out, ce)
		}
		return true
	})
	return out
}

func paIsWord(b byte) bool {
	return b == '_' || (b >= '0' && b <= '9') || (b >= 'a' && b <= 'z') || (b >= 'A' && b <= 'Z')
}

// paRegexLiteral reads a run of literal characters of a Go regular expression starting at i: word characters stand
// for themselves, a backslash followed by a non-alphanumeric ASCII character is that character.
func paRegexLiteral(re string, i int) (string, int) {
	var b strings.Builder
	for i < len(re) {
		ch := re[i]
		if paIsWord(ch) {
			b.WriteByte(ch)
			i++
			continue
		}
		if ch == '\\' && i+1 < len(re) {
			n := re[i+1]
			if n < 0x80 && !(n >= '0' && n <= '9') && !(n >= 'a' && n <= 'z') && !(n >= 'A' && n <= 'Z') {
				b.WriteByte(n)
				i += 2
				continue
			}
		}
		break
	}
	return b.String(), i
}

// paSweepPattern recognises `^<literal>.*<literal>$`.
func paSweepPattern(c *ctx, at ast.Node, re string) (string, string) {
	if !strings.HasPrefix(re, "^") {
		fail("%s: temp pattern %q is not anchored at the start", c.pos(at), re)
	}
	pre, i := paRegexLiteral(re, 1)
	if !strings.HasPrefix(re[i:], ".*") {
		fail("%s: temp pattern %q: expected `.*` after the literal prefix", c.pos(at), re)
	}
	suf, j := paRegexLiteral(re, i+2)
	if re[j:] != "$" {
		fail("%s: temp pattern %q: expected `$` after the literal suffix", c.pos(at), re)
	}
	return pre, suf
}

func paIsErrCheck(s ast.Stmt) bool {
	ifs, ok := s.(*ast.IfStmt)
	return ok && ifs.Init == nil && exprStr(ifs.Cond) == "err!=nil"
}

func paIsLog(s ast.Stmt) bool {
	es, ok := s.(*ast.ExprStmt)
	if !ok {
		return false
	}
	ce, ok := es.X.(*ast.CallExpr)
	if !ok {
		return false
	}
	f := exprStr(ce.Fun)
	for _, p := range []string{"R.logger.", "logger.", "c.logger.", "S.Logger."} {
		if strings.HasPrefix(f, p) {
			return true
		}
	}
	return false
}

func paHit(c *ctx, s ast.Stmt) (string, bool) {
	es, ok := s.(*ast.ExprStmt)
	if !ok {
		return "", false
	}
	ce, ok := es.X.(*ast.CallExpr)
	if !ok || exprStr(ce.Fun) != "verifhook.Hit" {
		return "", false
	}
	if len(ce.Args) != 1 {
		fail("%s: verifhook.Hit with %d arguments", c.pos(ce), len(ce.Args))
	}
	return paGoString(c, ce.Args[0]), true
}

// paRhsCall returns the call on the right-hand side of `x, y := f(...)` / `err = f(...)`.
func paRhsCall(s ast.Stmt) (*ast.AssignStmt, *ast.CallExpr) {
	as, ok := s.(*ast.AssignStmt)
	if !ok || len(as.Rhs) != 1 {
		return nil, nil
	}
	ce, ok := as.Rhs[0].(*ast.CallExpr)
	if !ok {
		return as, nil
	}
	return as, ce
}

func paMustContainCall(c *ctx, fd *ast.FuncDecl, name string) {
	if len(paCalls(fd.Body, name)) == 0 {
		fail("%s: %s no longer calls %s", c.pos(fd), fd.Name.Name, name)
	}
}

// ---- LevelDbStore.Update -----------------------------------------------------------------------

func paUpdateOps(c *ctx) []string {
	fd := c.funcDecl(paLdb, "LevelDbStore", "Update")
	var ops []string
	asideVar, livePathVar, newVar := "", "", ""
	for _, s := range fd.Body.List {
		if h, ok := paHit(c, s); ok {
			ops = append(ops, "UpdOp.hit "+leanStr(h))
			continue
		}
		switch x := s.(type) {
		case *ast.DeclStmt:
			str := ""
			if gd, ok := x.Decl.(*ast.GenDecl); ok && len(gd.Specs) == 1 {
				vs := gd.Specs[0].(*ast.ValueSpec)
				if len(vs.Names) == 2 && len(vs.Values) == 1 {
					str = exprStr(vs.Values[0])
					newVar = vs.Names[0].Name
				}
			}
			if str != "store.(*LevelDbStore)" {
				fail("%s: Update: unexpected declaration", c.pos(s))
			}
			continue
		case *ast.IfStmt:
			cond := exprStr(x.Cond)
			if x.Init == nil && (cond == "err!=nil" || cond == "ok==false") {
				continue
			}
			fail("%s: Update: unexpected if %s", c.pos(s), cond)
		case *ast.ReturnStmt:
			continue
		}
		as, ce := paRhsCall(s)
		if as == nil {
			fail("%s: Update: statement not recognised", c.pos(s))
		}
		if ce == nil {
			if exprStr(as.Lhs[0]) == "S.Db" && exprStr(as.Rhs[0]) == "db" {
				continue
			}
			fail("%s: Update: assignment not recognised", c.pos(s))
		}
		call := exprStr(ce)
		switch exprStr(ce.Fun) {
		case "S.closeDbWithRetries":
			switch call {
			case "S.closeDbWithRetries(S.Db)":
				ops = append(ops, "UpdOp.closeOld")
			case "S.closeDbWithRetries(" + newVar + ".Db)":
				ops = append(ops, "UpdOp.closeNew")
			default:
				fail("%s: Update: %s", c.pos(s), call)
			}
		case "filepath.Join":
			if call != "filepath.Join(S.BasePath,S.Identifier)" {
				fail("%s: Update: live path is %s", c.pos(s), call)
			}
			livePathVar = exprStr(as.Lhs[0])
		case "S.renameWithRetriesToTempDir":
			if call != "S.renameWithRetriesToTempDir(S.LevelDBPath)" {
				fail("%s: Update: %s", c.pos(s), call)
			}
			asideVar = exprStr(as.Lhs[0])
			ops = append(ops, "UpdOp.moveOldAside")
		case "S.renameWithRetries":
			if livePathVar == "" || call != "S.renameWithRetries("+newVar+".LevelDBPath,"+livePathVar+")" {
				fail("%s: Update: %s", c.pos(s), call)
			}
			ops = append(ops, "UpdOp.moveNewIn")
		case "S.removeWithRetries":
			if asideVar == "" || call != "S.removeWithRetries("+asideVar+")" {
				fail("%s: Update: %s", c.pos(s), call)
			}
			ops = append(ops, "UpdOp.removeAside")
		case "openDbWithRetries":
			if livePathVar == "" || len(ce.Args) < 1 || exprStr(ce.Args[0]) != livePathVar {
				fail("%s: Update: %s", c.pos(s), call)
			}
			ops = append(ops, "UpdOp.reopen")
		default:
			fail("%s: Update: call %s not recognised", c.pos(s), call)
		}
	}
	// what the helpers do
	paMustContainCall(c, c.funcDecl(paLdb, "LevelDbStore", "closeDbWithRetries"), "db.Close")
	paMustContainCall(c, c.funcDecl(paLdb, "LevelDbStore", "removeWithRetries"), "os.RemoveAll")
	paMustContainCall(c, c.funcDecl(paLdb, "LevelDbStore", "renameWithRetries"), "os.Rename")
	rt := c.funcDecl(paLdb, "LevelDbStore", "renameWithRetriesToTempDir")
	paMustContainCall(c, rt, "os.Rename")
	paMustContainCall(c, rt, "createRandomFileName")
	paMustContainCall(c, c.funcDecl(paLdb, "", "openDbWithRetries"), "leveldb.OpenFile")
	// CreateStore(identifier, temporary): the temporary store lives in a random-name directory of BasePath
	cs := c.funcDecl(paLdb, "LevelDbStoreFactory", "CreateStore")
	paMustContainCall(c, cs, "createTempDirWithRetries")
	paMustContainCall(c, cs, "openDbWithRetries")
	td := c.funcDecl(paLdb, "", "createTempDirWithRetries")
	paMustContainCall(c, td, "createRandomFileName")
	paMustContainCall(c, td, "os.Mkdir")
	return ops
}

func paWriteHits(c *ctx, fn string) []string {
	fd := c.funcDecl(paLdb, "LevelDbStore", fn)
	puts := paCalls(fd.Body, "S.Db.Put")
	if len(puts) != 1 {
		fail("%s: %s: expected exactly one S.Db.Put, found %d", c.pos(fd), fn, len(puts))
	}
	var hits []string
	for _, s := range fd.Body.List {
		if h, ok := paHit(c, s); ok {
			if s.Pos() < puts[0].Pos() {
				fail("%s: %s: hook hit before the Put", c.pos(s), fn)
			}
			hits = append(hits, h)
		}
	}
	return hits
}

// ---- temp names --------------------------------------------------------------------------------

type paNames struct {
	sweepRaw, sweepPre, sweepSuf string
	walkDeleteGuard, walkSkipGuard string
	ctRaw, ctPre, ctSuf          string
	rndPre, rndSuf               string
	scheme                       string
	filePrefix                   string
}

func paTempNames(c *ctx) paNames {
	var n paNames
	// deleteIfTempFileOrDir
	fd := c.funcDecl(paRepo, "Repository", "deleteIfTempFileOrDir")
	ms := paCalls(fd.Body, "regexp.MatchString")
	if len(ms) != 1 || len(ms[0].Args) != 2 || exprStr(ms[0].Args[1]) != "info.Name()" {
		fail("%s: deleteIfTempFileOrDir: expected one regexp.MatchString(<pattern>, info.Name())", c.pos(fd))
	}
	n.sweepRaw = paGoString(c, ms[0].Args[0])
	n.sweepPre, n.sweepSuf = paSweepPattern(c, ms[0], n.sweepRaw)
	rm := paCalls(fd.Body, "os.RemoveAll")
	if len(rm) != 1 || exprStr(rm[0]) != "os.RemoveAll(path)" {
		fail("%s: deleteIfTempFileOrDir: expected os.RemoveAll(path)", c.pos(fd))
	}
	// DeleteTempFilesIfExist: direct children of WorkDir only
	dt := c.funcDecl(paRepo, "Repository", "DeleteTempFilesIfExist")
	w := paCalls(dt.Body, "filepath.Walk")
	if len(w) != 1 || len(w[0].Args) != 2 || exprStr(w[0].Args[0]) != "R.crlConfig.WorkDir" {
		fail("%s: DeleteTempFilesIfExist: expected filepath.Walk(R.crlConfig.WorkDir, …)", c.pos(dt))
	}
	paMustContainCall(c, dt, "R.deleteIfTempFileOrDir")
	skip := false
	ast.Inspect(dt.Body, func(x ast.Node) bool {
		if r, ok := x.(*ast.ReturnStmt); ok && len(r.Results) == 1 && exprStr(r.Results[0]) == "filepath.SkipDir" {
			skip = true
		}
		return true
	})
	if !skip {
		fail("%s: DeleteTempFilesIfExist no longer returns filepath.SkipDir for sub directories", c.pos(dt))
	}
	n.walkDeleteGuard, n.walkSkipGuard = paWalkCallback(c, dt, w[0])
	// createTempFile
	ct := c.funcDecl(paRepo, "Repository", "createTempFile")
	cc := paCalls(ct.Body, "os.CreateTemp")
	if len(cc) != 1 || len(cc[0].Args) != 2 || exprStr(cc[0].Args[0]) != "R.crlConfig.WorkDir" {
		fail("%s: createTempFile: expected os.CreateTemp(R.crlConfig.WorkDir, <pattern>)", c.pos(ct))
	}
	n.ctRaw = paGoString(c, cc[0].Args[1])
	if strings.ContainsAny(n.ctRaw, "/\n") {
		fail("%s: createTempFile: pattern %q contains a separator or newline", c.pos(ct), n.ctRaw)
	}
	if i := strings.LastIndex(n.ctRaw, "*"); i >= 0 {
		n.ctPre, n.ctSuf = n.ctRaw[:i], n.ctRaw[i+1:]
	} else {
		n.ctPre, n.ctSuf = n.ctRaw, ""
	}
	// createRandomFileName
	rf := c.funcDecl(paLdb, "", "createRandomFileName")
	j := paCalls(rf.Body, "filepath.Join")
	if len(j) != 1 || len(j[0].Args) != 2 || exprStr(j[0].Args[0]) != "basePath" {
		fail("%s: createRandomFileName: expected filepath.Join(basePath, <name>)", c.pos(rf))
	}
	b1, ok1 := j[0].Args[1].(*ast.BinaryExpr)
	if !ok1 || b1.Op != token.ADD {
		fail("%s: createRandomFileName: name is not <literal> + uuid + <literal>", c.pos(rf))
	}
	b2, ok2 := b1.X.(*ast.BinaryExpr)
	if !ok2 || b2.Op != token.ADD || exprStr(b2.Y) != "newUUID.String()" {
		fail("%s: createRandomFileName: name is not <literal> + newUUID.String() + <literal>", c.pos(rf))
	}
	n.rndPre, n.rndSuf = paGoString(c, b2.X), paGoString(c, b1.Y)
	if strings.ContainsAny(n.rndPre+n.rndSuf, "/\n") {
		fail("%s: createRandomFileName: literal contains a separator or newline", c.pos(rf))
	}
	paMustContainCall(c, rf, "uuid.NewUUID")
	// CreatePreferredCrlLoader
	cf := c.funcDecl(paFactory, "DefaultCRLLoaderFactory", "CreatePreferredCrlLoader")
	hp := paCalls(cf.Body, "strings.HasPrefix")
	if len(hp) != 1 || len(hp[0].Args) != 2 || exprStr(hp[0].Args[0]) != "strings.ToLower(cdp)" {
		fail("%s: CreatePreferredCrlLoader: expected strings.HasPrefix(strings.ToLower(cdp), <scheme>)", c.pos(cf))
	}
	n.scheme = paGoString(c, hp[0].Args[1])
	for i := 0; i < len(n.scheme); i++ {
		if n.scheme[i] < 'a' || n.scheme[i] > 'z' {
			fail("%s: CreatePreferredCrlLoader: scheme prefix %q is not lower-case ASCII", c.pos(cf), n.scheme)
		}
	}
	// identifiers: URL = hash of the normalised string, file = hash of <literal> + name (the literal may be absent)
	ul := c.funcDecl("crl/crlloader/urlcrlloader.go", "URLLoader", "GetCRLLocationIdentifier")
	uc := paCalls(ul.Body, "calculateHashHexString")
	if len(uc) != 1 || exprStr(uc[0]) != "calculateHashHexString(normalizedUrl)" {
		fail("%s: URLLoader.GetCRLLocationIdentifier: expected calculateHashHexString(normalizedUrl)", c.pos(ul))
	}
	fl := c.funcDecl("crl/crlloader/filecrlloader.go", "FileLoader", "GetCRLLocationIdentifier")
	fc := paCalls(fl.Body, "calculateHashHexString")
	if len(fc) != 1 || len(fc[0].Args) != 1 {
		fail("%s: FileLoader.GetCRLLocationIdentifier: expected one calculateHashHexString(…)", c.pos(fl))
	}
	switch a := fc[0].Args[0].(type) {
	case *ast.SelectorExpr:
		if exprStr(a) != "f.FileName" {
			fail("%s: FileLoader.GetCRLLocationIdentifier hashes %s", c.pos(fl), exprStr(a))
		}
	case *ast.BinaryExpr:
		if a.Op != token.ADD || exprStr(a.Y) != "f.FileName" {
			fail("%s: FileLoader.GetCRLLocationIdentifier hashes %s", c.pos(fl), exprStr(a))
		}
		n.filePrefix = paGoString(c, a.X)
	default:
		fail("%s: FileLoader.GetCRLLocationIdentifier hashes %s", c.pos(fl), exprStr(fc[0].Args[0]))
	}
	ml := c.funcDecl("crl/crlloader/multischemescrlloader.go", "MultiSchemesCRLLoader", "GetCRLLocationIdentifier")
	mc := paCalls(ml.Body, "calculateHashHexString")
	if len(mc) != 1 || exprStr(mc[0]) != "calculateHashHexString(builder.String())" || len(paCalls(ml.Body, "builder.WriteString")) != 1 {
		fail("%s: MultiSchemesCRLLoader.GetCRLLocationIdentifier: expected the hash of the concatenated loader identifiers", c.pos(ml))
	}
	return n
}

// ---- loadCRL / updateCrlEntry ------------------------------------------------------------------

func paVerifyBlock(c *ctx, fn string, ifs *ast.IfStmt) string {
	var hits []string
	seenVerify, retOnFail, storesSigner := false, false, false
	for _, s := range ifs.Body.List {
		if paIsLog(s) {
			continue
		}
		if h, ok := paHit(c, s); ok {
			if !seenVerify {
				fail("%s: %s: hook hit before verifyCRLSignature inside the verification block", c.pos(s), fn)
			}
			hits = append(hits, leanStr(h))
			continue
		}
		if as, ce := paRhsCall(s); as != nil && ce != nil && exprStr(ce.Fun) == "verifyCRLSignature" {
			if exprStr(ce) != "verifyCRLSignature(result,chains)" || len(as.Lhs) != 2 || exprStr(as.Lhs[1]) != "verifyErr" {
				fail("%s: %s: %s", c.pos(s), fn, exprStr(ce))
			}
			seenVerify = true
			continue
		}
		in, ok := s.(*ast.IfStmt)
		if !ok || exprStr(in.Cond) != "verifyErr!=nil" || !seenVerify {
			fail("%s: %s: statement not recognised in the verification block", c.pos(s), fn)
		}
		for _, t := range in.Body.List {
			if paIsLog(t) {
				continue
			}
			if es, ok := t.(*ast.ExprStmt); ok && strings.HasPrefix(exprStr(es.X), "R.setLastSignatureVerifyFailed(") {
				continue
			}
			ii, ok := t.(*ast.IfStmt)
			if !ok || exprStr(ii.Cond) != "R.crlConfig.SignatureValidationModeParsed==config.SignatureValidationModeVerify" ||
				len(ii.Body.List) != 1 {
				fail("%s: %s: statement not recognised in the failed-verification branch", c.pos(t), fn)
			}
			r, ok := ii.Body.List[0].(*ast.ReturnStmt)
			if !ok || len(r.Results) != 1 || exprStr(r.Results[0]) != "verifyErr" {
				fail("%s: %s: verify mode does not return verifyErr", c.pos(ii), fn)
			}
			retOnFail = true
		}
		el, ok := in.Else.(*ast.BlockStmt)
		if !ok {
			fail("%s: %s: no else branch after verifyErr != nil", c.pos(in), fn)
		}
		for _, t := range el.List {
			if paIsLog(t) || paIsErrCheck(t) {
				continue
			}
			if es, ok := t.(*ast.ExprStmt); ok && strings.HasPrefix(exprStr(es.X), "R.resetLastSignatureVerifyFailed(") {
				continue
			}
			if as, ce := paRhsCall(t); as != nil && ce != nil && exprStr(ce) == "processor.UpdateSignatureCertificate(signatureCert)" {
				storesSigner = true
				continue
			}
			fail("%s: %s: statement not recognised in the verified branch", c.pos(t), fn)
		}
	}
	if !seenVerify {
		fail("%s: %s: verification block without verifyCRLSignature", c.pos(ifs), fn)
	}
	return fmt.Sprintf("RepoOp.verify [%s] %v %v", strings.Join(hits, ", "), retOnFail, storesSigner)
}

func paRepoProgram(c *ctx, fn string) []string {
	fd := c.funcDecl(paRepo, "Repository", fn)
	var ops []string
	stagedVar := ""
	list := fd.Body.List
	for i := 0; i < len(list); i++ {
		s := list[i]
		if paIsLog(s) || paIsErrCheck(s) {
			// the error check after the swap of updateCrlEntry also drops the entry; nothing on disk
			continue
		}
		if h, ok := paHit(c, s); ok {
			ops = append(ops, "RepoOp.hit "+leanStr(h))
			continue
		}
		switch x := s.(type) {
		case *ast.DeclStmt:
			gd := x.Decl.(*ast.GenDecl)
			vs := gd.Specs[0].(*ast.ValueSpec)
			name := vs.Names[0].Name
			switch {
			case name == "store" && len(vs.Values) == 0:
			case name == "chains" && len(vs.Values) == 1 && exprStr(vs.Values[0]) == "newChains":
			case name == "processor" && len(vs.Values) == 1:
				v := exprStr(vs.Values[0])
				cl, ok := vs.Values[0].(*ast.CompositeLit)
				if !ok || exprStr(cl.Type) != "crlstore.CRLPersisterProcessor" || len(cl.Elts) != 1 {
					fail("%s: %s: processor is %s", c.pos(s), fn, v)
				}
				kv, ok := cl.Elts[0].(*ast.KeyValueExpr)
				if !ok || exprStr(kv.Key) != "CRLStore" {
					fail("%s: %s: processor literal not recognised", c.pos(s), fn)
				}
				switch exprStr(kv.Value) {
				case "store":
					if stagedVar != "store" {
						fail("%s: %s: processor writes to `store` before it is created as a temporary store", c.pos(s), fn)
					}
					ops = append(ops, "RepoOp.processorOn Target.staged")
				case "entry.CRLStore":
					ops = append(ops, "RepoOp.processorOn Target.live")
				default:
					fail("%s: %s: processor writes to %s", c.pos(s), fn, exprStr(kv.Value))
				}
			default:
				fail("%s: %s: declaration of %s not recognised", c.pos(s), fn, name)
			}
			continue
		case *ast.DeferStmt:
			call := exprStr(x.Call)
			switch {
			case call == "utils.CloseWithErrorHandling(func{...})":
				fl := x.Call.Args[0].(*ast.FuncLit)
				if len(fl.Body.List) != 1 {
					fail("%s: %s: deferred close function not recognised", c.pos(s), fn)
				}
				r, ok := fl.Body.List[0].(*ast.ReturnStmt)
				if !ok || len(r.Results) != 1 || exprStr(r.Results[0]) != "os.Remove(tempFileName)" {
					fail("%s: %s: deferred close function is not os.Remove(tempFileName)", c.pos(s), fn)
				}
				ops = append(ops, "RepoOp.deferRemoveTempFile")
			case call == "func{...}()":
				fl := x.Call.Fun.(*ast.FuncLit)
				if len(fl.Body.List) != 1 {
					fail("%s: %s: deferred function not recognised", c.pos(s), fn)
				}
				ifs, ok := fl.Body.List[0].(*ast.IfStmt)
				if !ok || exprStr(ifs.Cond) != "err!=nil&&store!=nil" || len(paCalls(ifs.Body, "store.Close")) != 1 ||
					len(paCalls(ifs.Body, "store.Delete")) != 1 {
					fail("%s: %s: deferred function is not `if err != nil && store != nil { store.Close(); store.Delete() }`", c.pos(s), fn)
				}
				ops = append(ops, "RepoOp.deferDeleteStoreOnError")
			default:
				fail("%s: %s: defer %s not recognised", c.pos(s), fn, call)
			}
			continue
		case *ast.IfStmt:
			cond := exprStr(x.Cond)
			switch cond {
			case "chains==nil":
				continue
			case "R.crlConfig.SignatureValidationModeParsed!=config.SignatureValidationModeNone":
				ops = append(ops, paVerifyBlock(c, fn, x))
				continue
			case "locationsErr==nil":
				fail("%s: %s: `if locationsErr == nil` without the preceding GetCRLLocations", c.pos(s), fn)
			}
			fail("%s: %s: if %s not recognised", c.pos(s), fn, cond)
		case *ast.ReturnStmt:
			continue
		}
		as, ce := paRhsCall(s)
		if as == nil {
			fail("%s: %s: statement not recognised", c.pos(s), fn)
		}
		if ce == nil {
			l, r := exprStr(as.Lhs[0]), exprStr(as.Rhs[0])
			switch {
			case l == "entry.Loaded" && r == "true":
				ops = append(ops, "RepoOp.markLoaded")
			case l == "entry.Chains" && r == "nil":
			default:
				fail("%s: %s: assignment %s = %s not recognised", c.pos(s), fn, l, r)
			}
			continue
		}
		call := exprStr(ce)
		switch {
		case call == "R.createTempFile()":
			ops = append(ops, "RepoOp.createTempFile")
		case call == "entry.CRLLoader.LoadCRL(tempFileName)" || call == "loader.LoadCRL(tempFileName)":
			ops = append(ops, "RepoOp.download")
		case strings.HasSuffix(exprStr(ce.Fun), ".GetCRLLocationIdentifier"):
		case call == "R.crlLoaderFactory.CreatePreferredCrlLoader(points,R.logger)":
		case call == "R.getCrlUpdateInformation(entry,err)":
			ops = append(ops, "RepoOp.readUpdateInfo")
		case exprStr(ce.Fun) == "R.Factory.CreateStore":
			if len(ce.Args) != 2 || exprStr(ce.Args[0]) != "identifier" {
				fail("%s: %s: %s", c.pos(s), fn, call)
			}
			switch exprStr(ce.Args[1]) {
			case "true":
				ops = append(ops, "RepoOp.createStore true")
				stagedVar = exprStr(as.Lhs[0])
			case "false":
				ops = append(ops, "RepoOp.createStore false")
			default:
				fail("%s: %s: %s", c.pos(s), fn, call)
			}
		case call == "entry.CRLStore.GetCRLLocations()":
			if exprStr(as.Lhs[1]) != "locationsErr" || i+1 >= len(list) {
				fail("%s: %s: %s", c.pos(s), fn, call)
			}
			nx, ok := list[i+1].(*ast.IfStmt)
			if !ok || exprStr(nx.Cond) != "locationsErr==nil" || len(paCalls(nx.Body, "processor.UpdateCRLLocations")) != 1 {
				fail("%s: %s: GetCRLLocations is not followed by the conditional UpdateCRLLocations", c.pos(s), fn)
			}
			ops = append(ops, "RepoOp.copyLocationsIfPresent")
			i++
		case call == "processor.UpdateCRLLocations(points)":
			ops = append(ops, "RepoOp.putLocations")
		case call == "R.crlReader.ReadCRL(processor,tempFileName)":
			ops = append(ops, "RepoOp.read")
		case call == "entry.CRLStore.Update(store)":
			ops = append(ops, "RepoOp.swap")
		case call == "R.updateEntry(entry,err,store)":
			ue := c.funcDecl(paRepo, "Repository", "updateEntry")
			if len(paCalls(ue.Body, "entry.CRLStore.Update")) != 1 || exprStr(paCalls(ue.Body, "entry.CRLStore.Update")[0]) != "entry.CRLStore.Update(store)" {
				fail("%s: updateEntry no longer swaps with entry.CRLStore.Update(store)", c.pos(ue))
			}
			ops = append(ops, "RepoOp.swap")
		default:
			fail("%s: %s: call %s not recognised", c.pos(s), fn, call)
		}
	}
	return ops
}

// ---- Provision / Cleanup -----------------------------------------------------------------------

func paProvisionOps(c *ctx) []string {
	fd := c.funcDecl(paChecker, "CRLRevocationChecker", "Provision")
	var ops []string
	for _, s := range fd.Body.List {
		if paIsLog(s) || paIsErrCheck(s) {
			continue
		}
		switch x := s.(type) {
		case *ast.ReturnStmt:
			continue
		case *ast.IfStmt:
			if exprStr(x.Cond) == "crlConfig.StorageTypeParsed==config.Disk" {
				continue
			}
			fail("%s: Provision: if %s not recognised", c.pos(s), exprStr(x.Cond))
		case *ast.ExprStmt:
			switch exprStr(x.X) {
			case "c.crlRepository.DeleteTempFilesIfExist()":
				ops = append(ops, "ProvisionOp.sweep")
			case "c.initCRLUpdateTicker()":
				ops = append(ops, "ProvisionOp.initTicker")
			default:
				fail("%s: Provision: %s not recognised", c.pos(s), exprStr(x.X))
			}
			continue
		}
		as, ce := paRhsCall(s)
		if as == nil {
			fail("%s: Provision: statement not recognised", c.pos(s))
		}
		if ce == nil {
			l, r := exprStr(as.Lhs[0]), exprStr(as.Rhs[0])
			switch {
			case l == "c.crlConfig" && r == "crlConfig":
				ops = append(ops, "ProvisionOp.setConfig")
			case l == "c.logger" && r == "logger":
			case l == "db" && r == "crlstore.Map":
			default:
				fail("%s: Provision: assignment %s = %s not recognised", c.pos(s), l, r)
			}
			continue
		}
		switch exprStr(ce.Fun) {
		case "RegisterCRLWorkDirUsage":
			ops = append(ops, "ProvisionOp.register")
		case "crlrepository.NewCRLRepository":
			if len(as.Lhs) != 2 || exprStr(as.Lhs[1]) != "c.crlRepository" {
				fail("%s: Provision: repository is not stored in c.crlRepository", c.pos(s))
			}
			ops = append(ops, "ProvisionOp.newRepository")
		case "core.NewCertificateChains":
		case "c.addCrlUrlsFromConfig":
			ops = append(ops, "ProvisionOp.addUrls")
		case "c.addCrlFilesFromConfig":
			ops = append(ops, "ProvisionOp.addFiles")
		default:
			fail("%s: Provision: call %s not recognised", c.pos(s), exprStr(ce))
		}
	}
	// registry semantics
	rg := c.funcDecl(paChecker, "", "RegisterCRLWorkDirUsage")
	okCheck, okSet := false, false
	ast.Inspect(rg.Body, func(n ast.Node) bool {
		switch x := n.(type) {
		case *ast.IfStmt:
			if exprStr(x.Cond) == "workDirsInUse[crlConfig.WorkDir]==1" && len(x.Body.List) == 1 {
				if r, ok := x.Body.List[0].(*ast.ReturnStmt); ok && len(r.Results) == 1 && exprStr(r.Results[0]) != "nil" {
					okCheck = true
				}
			}
		case *ast.AssignStmt:
			if exprStr(x.Lhs[0]) == "workDirsInUse[crlConfig.WorkDir]" && exprStr(x.Rhs[0]) == "1" {
				okSet = true
			}
		}
		return true
	})
	if !okCheck || !okSet {
		fail("%s: RegisterCRLWorkDirUsage: expected `if workDirsInUse[WorkDir] == 1 { return error }` and `workDirsInUse[WorkDir] = 1`", c.pos(rg))
	}
	// the ticker goroutine ends when crlUpdateStop is closed
	it := c.funcDecl(paChecker, "CRLRevocationChecker", "initCRLUpdateTicker")
	stops := false
	// the goroutine may wait on the field itself or on a local copy taken before it starts
	stopNames := map[string]bool{"<-c.crlUpdateStop": true}
	for _, s := range it.Body.List {
		if as, ok := s.(*ast.AssignStmt); ok && as.Tok == token.DEFINE && len(as.Lhs) == 1 && len(as.Rhs) == 1 &&
			exprStr(as.Rhs[0]) == "c.crlUpdateStop" {
			stopNames["<-"+exprStr(as.Lhs[0])] = true
		}
	}
	ast.Inspect(it.Body, func(n ast.Node) bool {
		if cc, ok := n.(*ast.CommClause); ok && cc.Comm != nil {
			if es, ok := cc.Comm.(*ast.ExprStmt); ok && stopNames[exprStr(es.X)] {
				for _, b := range cc.Body {
					if _, ok := b.(*ast.ReturnStmt); ok {
						stops = true
					}
				}
			}
		}
		return true
	})
	if !stops {
		fail("%s: initCRLUpdateTicker: the goroutine does not return on <-c.crlUpdateStop", c.pos(it))
	}
	mk := false
	ast.Inspect(it.Body, func(n ast.Node) bool {
		if as, ok := n.(*ast.AssignStmt); ok && exprStr(as.Lhs[0]) == "c.crlUpdateStop" && strings.HasPrefix(exprStr(as.Rhs[0]), "make(") {
			mk = true
		}
		return true
	})
	if !mk {
		fail("%s: initCRLUpdateTicker: crlUpdateStop is not created", c.pos(it))
	}
	return ops
}

func paCleanupOps(c *ctx) []string {
	fd := c.funcDecl(paChecker, "CRLRevocationChecker", "Cleanup")
	var ops []string
	for _, s := range fd.Body.List {
		switch x := s.(type) {
		case *ast.ReturnStmt:
			continue
		case *ast.IfStmt:
			body := []string{}
			for _, b := range x.Body.List {
				switch y := b.(type) {
				case *ast.ExprStmt:
					body = append(body, exprStr(y.X))
				case *ast.AssignStmt:
					body = append(body, exprStr(y.Lhs[0])+"="+exprStr(y.Rhs[0]))
				default:
					fail("%s: Cleanup: statement not recognised", c.pos(b))
				}
			}
			key := exprStr(x.Cond) + " => " + strings.Join(body, "; ")
			switch key {
			case "c.crlConfig!=nil => DeregisterCRLWorkDirUsage(c.crlConfig)":
				ops = append(ops, "CleanupOp.deregister")
			case "c.crlRepository!=nil => c.crlRepository.Close()":
				ops = append(ops, "CleanupOp.closeRepository")
			case "c.crlUpdateTicker!=nil => c.crlUpdateTicker.Stop()":
				ops = append(ops, "CleanupOp.stopTicker")
			case "c.crlUpdateStop!=nil => close(c.crlUpdateStop); c.crlUpdateStop=nil":
				ops = append(ops, "CleanupOp.closeStop")
			default:
				fail("%s: Cleanup: `%s` not recognised", c.pos(s), key)
			}
		default:
			fail("%s: Cleanup: statement not recognised", c.pos(s))
		}
	}
	dr := c.funcDecl(paChecker, "", "DeregisterCRLWorkDirUsage")
	okSet := false
	ast.Inspect(dr.Body, func(n ast.Node) bool {
		if as, ok := n.(*ast.AssignStmt); ok && exprStr(as.Lhs[0]) == "workDirsInUse[crlConfig.WorkDir]" && exprStr(as.Rhs[0]) == "0" {
			okSet = true
		}
		return true
	})
	if !okSet {
		fail("%s: DeregisterCRLWorkDirUsage: expected `workDirsInUse[WorkDir] = 0`", c.pos(dr))
	}
	// Repository.Close closes every entry's store
	cl := c.funcDecl(paRepo, "Repository", "Close")
	paMustContainCall(c, cl, "R.closeRepositoryEntry")
	paMustContainCall(c, c.funcDecl(paRepo, "Repository", "closeRepositoryEntry"), "entry.CRLStore.Close")
	// addNewEmptyEntry: Loaded is inferred from IsEmpty; IsEmpty looks at the meta key
	ae := c.funcDecl(paRepo, "Repository", "addNewEmptyEntry")
	c.loadedInference(ae)
	cs := paCalls(ae.Body, "R.Factory.CreateStore")
	if len(cs) != 1 || exprStr(cs[0]) != "R.Factory.CreateStore(identifier,false)" {
		fail("%s: addNewEmptyEntry: expected R.Factory.CreateStore(identifier, false)", c.pos(ae))
	}
	ie := c.funcDecl(paLdb, "LevelDbStore", "IsEmpty")
	hs := paCalls(ie.Body, "hashing.Sum64")
	if len(hs) != 1 || exprStr(hs[0]) != "hashing.Sum64(MetaInfoKey)" || len(paCalls(ie.Body, "S.Db.Has")) != 1 {
		fail("%s: LevelDbStore.IsEmpty: expected S.Db.Has(hashing.Sum64(MetaInfoKey))", c.pos(ie))
	}
	return ops
}

func paList(items []string, indent string) string {
	if len(items) == 0 {
		return "[]"
	}
	return "[" + strings.Join(items, ",\n"+indent) + "]"
}

func genPaths(c *ctx, out string) {
	n := paTempNames(c)
	upd := paUpdateOps(c)
	metaHits := paWriteHits(c, "StartUpdateCrl")
	entryHits := paWriteHits(c, "InsertRevokedCert")
	for _, fn := range []string{"UpdateExtendedMetaInfo", "UpdateSignatureCertificate", "UpdateCRLLocations"} {
		if h := paWriteHits(c, fn); len(h) != 0 {
			fail("LevelDbStore.%s carries hook hits %v; the model has none there", fn, h)
		}
	}
	load := paRepoProgram(c, "loadCRL")
	refresh := paRepoProgram(c, "updateCrlEntry")
	prov := paProvisionOps(c)
	clean := paCleanupOps(c)

	q := func(l []string) string {
		o := make([]string, len(l))
		for i, s := range l {
			o[i] = leanStr(s)
		}
		return "[" + strings.Join(o, ", ") + "]"
	}
	l := newLean("Paths", "Crv.Paths")
	l.p("open Crv.Paths")
	l.p("")
	l.p("/-- crlrepository.go:DeleteTempFilesIfExist — the filepath.Walk callback: for which entries `deleteIfTempFileOrDir` is called")
	l.p("and for which `filepath.SkipDir` is returned (\"nonroot\" = every entry but work_dir itself, \"dir-nonroot\" = every directory but")
	l.p("work_dir itself, \"never\"). SkipDir returned for a *file* makes Walk skip the rest of that file's directory. -/")
	l.p("def walkDeleteGuard : String := %s", leanStr(n.walkDeleteGuard))
	l.p("def walkSkipGuard : String := %s", leanStr(n.walkSkipGuard))
	l.p("/-- crlrepository.go:deleteIfTempFileOrDir — the pattern as written in the source -/")
	l.p("def tempPatternRaw : String := %s", leanStr(n.sweepRaw))
	l.p("/-- crlrepository.go:createTempFile — os.CreateTemp pattern -/")
	l.p("def createTempPatternRaw : String := %s", leanStr(n.ctRaw))
	l.p("")
	l.p("def pathFacts : Facts :=")
	l.p("  { tempPrefix := %s  -- %q", paBytes(n.sweepPre), n.sweepPre)
	l.p("    tempSuffix := %s  -- %q", paBytes(n.sweepSuf), n.sweepSuf)
	l.p("    createTempPrefix := %s", paBytes(n.ctPre))
	l.p("    createTempSuffix := %s", paBytes(n.ctSuf))
	l.p("    randomPrefix := %s", paBytes(n.rndPre))
	l.p("    randomSuffix := %s", paBytes(n.rndSuf))
	l.p("    cdpSchemePrefix := %s  -- %q", paBytes(n.scheme), n.scheme)
	l.p("    fileIdPrefix := %s  -- %q", paBytes(n.filePrefix), n.filePrefix)
	l.p("    updateOps := %s", paList(upd, "      "))
	l.p("    metaWriteHits := %s", q(metaHits))
	l.p("    entryWriteHits := %s", q(entryHits))
	l.p("    loadProgram := %s", paList(load, "      "))
	l.p("    refreshProgram := %s", paList(refresh, "      "))
	l.p("    provisionOps := %s", paList(prov, "      "))
	l.p("    cleanupOps := %s }", paList(clean, "      "))
	l.write(out)

	c.facts["paths"] = map[string]interface{}{
		"tempPattern": n.sweepRaw, "tempPrefix": n.sweepPre, "tempSuffix": n.sweepSuf,
		"createTempPattern": n.ctRaw, "randomPrefix": n.rndPre, "randomSuffix": n.rndSuf, "cdpSchemePrefix": n.scheme, "fileIdPrefix": n.filePrefix,
		"updateOps": upd, "loadProgram": load, "refreshProgram": refresh, "provisionOps": prov, "cleanupOps": clean,
		"metaWriteHits": metaHits, "entryWriteHits": entryHits,
	}
}

// loadedInference recognises how addNewEmptyEntry infers Loaded for a store found on disk and reports whether, under
// 'verify', a persisted list without stored signer certificate is left unloaded:
//
//	if store.IsEmpty() == false { newEntry.Loaded = true }                                   -> false
//	if store.IsEmpty() == false {
//	    _, signatureCertErr := store.GetCRLSignatureCert()
//	    if <mode> == config.SignatureValidationModeVerify && signatureCertErr != nil { <log> } else { newEntry.Loaded = true }
//	}                                                                                         -> true
func (c *ctx) loadedInference(ae *ast.FuncDecl) bool {
	res, found := false, false
	isSet := func(st ast.Stmt) bool {
		as, ok := st.(*ast.AssignStmt)
		return ok && exprStr(as.Lhs[0]) == "newEntry.Loaded" && exprStr(as.Rhs[0]) == "true"
	}
	ast.Inspect(ae.Body, func(n ast.Node) bool {
		ifs, ok := n.(*ast.IfStmt)
		if !ok || exprStr(ifs.Cond) != "store.IsEmpty()==false" {
			return true
		}
		switch {
		case len(ifs.Body.List) == 1 && isSet(ifs.Body.List[0]):
			found = true
		case len(ifs.Body.List) == 2:
			as, ok1 := ifs.Body.List[0].(*ast.AssignStmt)
			in, ok2 := ifs.Body.List[1].(*ast.IfStmt)
			if ok1 && ok2 && len(as.Lhs) == 2 && exprStr(as.Lhs[0]) == "_" && exprStr(as.Lhs[1]) == "signatureCertErr" && exprStr(as.Rhs[0]) == "store.GetCRLSignatureCert()" &&
				exprStr(in.Cond) == "R.crlConfig.SignatureValidationModeParsed==config.SignatureValidationModeVerify&&signatureCertErr!=nil" {
				eb, isBlock := in.Else.(*ast.BlockStmt)
				setInThen := false
				for _, st := range in.Body.List {
					if isSet(st) {
						setInThen = true
					}
				}
				if isBlock && len(eb.List) == 1 && isSet(eb.List[0]) && !setInThen {
					found, res = true, true
				}
			}
		}
		return false
	})
	if !found {
		fail("%s: addNewEmptyEntry: the inference of Loaded from the store found on disk is not recognised", c.pos(ae))
	}
	return res
}


// paWalkCallback reads the callback of the filepath.Walk in DeleteTempFilesIfExist statement by statement.
func paWalkCallback(c *ctx, dt *ast.FuncDecl, walk *ast.CallExpr) (del, skip string) {
	fl, ok := walk.Args[1].(*ast.FuncLit)
	if !ok {
		fail("%s: DeleteTempFilesIfExist: the walk callback is not a function literal", c.pos(walk))
	}
	const root = "os.SameFile(info, repoDirBasePath)"
	del, skip = "never", "never"
	rootGone := false // an earlier statement has returned nil for work_dir itself
	guard := func(cond string) string {
		switch cond {
		case "!" + root:
			return "nonroot"
		case "info.IsDir() && !" + root, "!" + root + " && info.IsDir()":
			return "dir-nonroot"
		case "info.IsDir()":
			if rootGone {
				return "dir-nonroot"
			}
			return "dir"
		case "":
			if rootGone {
				return "nonroot"
			}
			return "always"
		}
		fail("%s: DeleteTempFilesIfExist: unrecognised condition in the walk callback: %s", c.pos(fl), cond)
		return ""
	}
	for _, st := range fl.Body.List {
		src := c.src(st)
		switch {
		case src == "if err != nil { return err }":
		case src == "if "+root+" { return nil }":
			rootGone = true
		case src == "return nil":
		case src == "R.deleteIfTempFileOrDir(path, info)":
			del = guard("")
		case src == "return filepath.SkipDir":
			skip = guard("")
		default:
			ifs, isIf := st.(*ast.IfStmt)
			if !isIf || ifs.Else != nil || ifs.Init != nil || len(ifs.Body.List) != 1 {
				fail("%s: DeleteTempFilesIfExist: unrecognised statement in the walk callback: %s", c.pos(st), src)
			}
			switch c.src(ifs.Body.List[0]) {
			case "R.deleteIfTempFileOrDir(path, info)":
				del = guard(c.src(ifs.Cond))
			case "return filepath.SkipDir":
				skip = guard(c.src(ifs.Cond))
			default:
				fail("%s: DeleteTempFilesIfExist: unrecognised statement in the walk callback: %s", c.pos(st), src)
			}
		}
	}
	if del == "always" || del == "dir" || skip == "always" || skip == "dir" {
		fail("%s: DeleteTempFilesIfExist: the walk callback treats work_dir itself like its children (delete=%s skip=%s)", c.pos(fl), del, skip)
	}
	return del, skip
}
