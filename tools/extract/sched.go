package main

// Refresh scheduling facts (C15) from crl/crlrevocationchecker.go and crl/crlrepository/crlrepository.go:
// where the "last refresh finished" timestamp lives, the skip rule, the statement order of updateCRLs,
// the ticker goroutine, whether UpdateCRLs goes on after a failing location, and the statement order of
// Provision for configured CRLs. Pattern based, fails closed.

import (
	"go/ast"
	"go/token"
	"strings"
)

func genSched(c *ctx, out string) {
	l := newLean("Sched", "Crv.Sched")
	l.p("open Crv.Sched")
	l.p("")
	f := c.file(checkerFile)

	// 1. where lastCrlUpdateFinishTime is declared
	const stamp = "lastCrlUpdateFinishTime"
	asField, asGlobal := "", ""
	for _, d := range f.Decls {
		gd, ok := d.(*ast.GenDecl)
		if !ok {
			continue
		}
		for _, sp := range gd.Specs {
			switch s := sp.(type) {
			case *ast.TypeSpec:
				if st, ok := s.Type.(*ast.StructType); ok && s.Name.Name == "CRLRevocationChecker" {
					for _, fl := range st.Fields.List {
						for _, n := range fl.Names {
							if n.Name == stamp {
								asField = c.pos(n)
							}
						}
					}
				}
			case *ast.ValueSpec:
				if gd.Tok == token.VAR {
					for _, n := range s.Names {
						if n.Name == stamp {
							asGlobal = c.pos(n)
						}
					}
				}
			}
		}
	}
	if (asField == "") == (asGlobal == "") {
		fail("sched: %s must be declared exactly once, as a field of CRLRevocationChecker or as a package variable (field: %q, var: %q)", stamp, asField, asGlobal)
	}
	stampExpr := "c." + stamp
	if asGlobal != "" {
		stampExpr = stamp
	}
	l.p("/-- %s is declared at %s%s -/", stamp, asField, asGlobal)
	l.p("def schedLastFinishIsGlobal : Bool := %v", asGlobal != "")
	l.p("")

	// 2. updateWasRecentlyFinished: return !X.IsZero() && (time.Since(X) < c.crlConfig.UpdateIntervalParsed/N)
	fd := c.funcDecl(checkerFile, "CRLRevocationChecker", "updateWasRecentlyFinished")
	if len(fd.Body.List) != 1 {
		fail("%s: updateWasRecentlyFinished is not a single return", c.pos(fd))
	}
	ret, ok := fd.Body.List[0].(*ast.ReturnStmt)
	if !ok || len(ret.Results) != 1 {
		fail("%s: updateWasRecentlyFinished is not a single return", c.pos(fd))
	}
	and, ok := ret.Results[0].(*ast.BinaryExpr)
	if !ok || and.Op != token.LAND || exprStr(and.X) != "!"+stampExpr+".IsZero()" {
		fail("%s: expected `!%s.IsZero() && (...)`, got %s", c.pos(ret), stampExpr, exprStr(ret.Results[0]))
	}
	rhs := and.Y
	if p, ok := rhs.(*ast.ParenExpr); ok {
		rhs = p.X
	}
	cmp, ok := rhs.(*ast.BinaryExpr)
	if !ok || exprStr(cmp.X) != "time.Since("+stampExpr+")" {
		fail("%s: expected `time.Since(%s) < interval/N`, got %s", c.pos(ret), stampExpr, exprStr(rhs))
	}
	div, ok := cmp.Y.(*ast.BinaryExpr)
	if !ok || div.Op != token.QUO || exprStr(div.X) != "c.crlConfig.UpdateIntervalParsed" {
		fail("%s: expected `c.crlConfig.UpdateIntervalParsed/N`, got %s", c.pos(ret), exprStr(cmp.Y))
	}
	lit, ok := div.Y.(*ast.BasicLit)
	if !ok || lit.Kind != token.INT {
		fail("%s: divisor is not an integer literal", c.pos(ret))
	}
	leanCmp := map[token.Token]string{token.LSS: "<", token.LEQ: "≤"}[cmp.Op]
	if leanCmp == "" {
		fail("%s: unexpected comparison %s", c.pos(ret), cmp.Op)
	}
	l.p("/-- updateWasRecentlyFinished (%s): `%s`; times in one unit, 0 = the zero time -/", c.pos(fd), exprStr(ret.Results[0]))
	l.p("def schedRecentlyFinished (last now interval : Nat) : Bool := last != 0 && decide (now - last %s interval / %s)", leanCmp, lit.Value)
	l.p("def schedDivisor : Nat := %s", lit.Value)
	l.p("")

	// 3. updateCRLs statement order
	fd = c.funcDecl(checkerFile, "CRLRevocationChecker", "updateCRLs")
	var steps []string
	for _, s := range fd.Body.List {
		switch x := s.(type) {
		case *ast.ExprStmt:
			switch exprStr(x.X) {
			case "crlUpdateMutex.Lock()":
				steps = append(steps, "TickStmt.lock")
			case "c.crlRepository.UpdateCRLs()":
				steps = append(steps, "TickStmt.runAll")
			default:
				if strings.HasPrefix(exprStr(x.X), "verifhook.Hit(") {
					continue
				}
				fail("%s: updateCRLs: unexpected statement %s", c.pos(x), exprStr(x.X))
			}
		case *ast.DeferStmt:
			if exprStr(x.Call) == "crlUpdateMutex.Unlock()" {
				steps = append(steps, "TickStmt.deferUnlock")
				continue
			}
			fl, ok := x.Call.Fun.(*ast.FuncLit)
			if !ok || len(fl.Body.List) != 1 {
				fail("%s: updateCRLs: unexpected defer", c.pos(x))
			}
			as, ok := fl.Body.List[0].(*ast.AssignStmt)
			if !ok || len(as.Lhs) != 1 || exprStr(as.Lhs[0]) != stampExpr || exprStr(as.Rhs[0]) != "time.Now()" {
				fail("%s: updateCRLs: deferred function is not `%s = time.Now()`", c.pos(x), stampExpr)
			}
			steps = append(steps, "TickStmt.deferStamp")
		case *ast.IfStmt:
			if x.Init != nil || x.Else != nil || exprStr(x.Cond) != "!forceUpdate&&c.updateWasRecentlyFinished()" || len(x.Body.List) != 1 {
				fail("%s: updateCRLs: expected `if !forceUpdate && c.updateWasRecentlyFinished() { return }`, got %s", c.pos(x), exprStr(x.Cond))
			}
			if r, ok := x.Body.List[0].(*ast.ReturnStmt); !ok || len(r.Results) != 0 {
				fail("%s: updateCRLs: skip branch is not a plain return", c.pos(x))
			}
			steps = append(steps, "TickStmt.skipIfRecentUnlessForced")
		default:
			fail("%s: updateCRLs: unexpected statement shape %T", c.pos(s), s)
		}
	}
	l.p("/-- updateCRLs (%s), statement by statement -/", c.pos(fd))
	l.p("def schedTickProg : List TickStmt := [%s]", strings.Join(steps, ", "))
	l.p("")

	// 4. Repository.UpdateCRLs: every identifier is visited, an error is logged and the loop goes on
	fd = c.funcDecl(repoFile, "Repository", "UpdateCRLs")
	cont, found := true, false
	for _, s := range fd.Body.List {
		rs, ok := s.(*ast.RangeStmt)
		if !ok {
			if _, isRet := s.(*ast.ReturnStmt); isRet {
				fail("%s: UpdateCRLs returns early", c.pos(s))
			}
			continue
		}
		found = true
		if exprStr(rs.X) != "identifiers" {
			fail("%s: UpdateCRLs ranges over %s", c.pos(rs), exprStr(rs.X))
		}
		calls := 0
		ast.Inspect(rs.Body, func(n ast.Node) bool {
			switch x := n.(type) {
			case *ast.ReturnStmt:
				cont = false
			case *ast.BranchStmt:
				if x.Tok == token.BREAK || x.Tok == token.GOTO {
					cont = false
				}
			case *ast.CallExpr:
				if exprStr(x.Fun) == "R.updateCRL" {
					calls++
				}
				if exprStr(x.Fun) == "panic" {
					cont = false
				}
			}
			return true
		})
		if calls != 1 {
			fail("%s: UpdateCRLs loop does not call R.updateCRL exactly once", c.pos(rs))
		}
	}
	if !found {
		fail("%s: UpdateCRLs has no loop over the identifiers", c.pos(fd))
	}
	src := ""
	for _, s := range fd.Body.List {
		if as, ok := s.(*ast.AssignStmt); ok && exprStr(as.Lhs[0]) == "identifiers" {
			src = exprStr(as.Rhs[0])
		}
	}
	if src != "R.getCurrentIdentifiers()" {
		fail("%s: UpdateCRLs: identifiers come from %q", c.pos(fd), src)
	}
	l.p("/-- Repository.UpdateCRLs (%s): iterates R.getCurrentIdentifiers(); a failing location is logged and the loop continues -/", c.pos(fd))
	l.p("def schedLoopContinuesOnError : Bool := %v", cont)
	l.p("")

	// 5. ticker goroutine: initial updateCRLs(false); per tick `go updateCRLsRecovering(false)`; interval
	fd = c.funcDecl(checkerFile, "CRLRevocationChecker", "initCRLUpdateTicker")
	interval, initialForce, tickForce, tickAsync, stops := "", "", "", false, false
	var parsedFrom string
	ast.Inspect(fd.Body, func(n ast.Node) bool {
		switch x := n.(type) {
		case *ast.AssignStmt:
			if len(x.Lhs) == 1 && exprStr(x.Lhs[0]) == "parsed" {
				parsedFrom = exprStr(x.Rhs[0])
			}
			if len(x.Lhs) == 1 && exprStr(x.Lhs[0]) == "c.crlUpdateTicker" {
				interval = exprStr(x.Rhs[0])
			}
		case *ast.GoStmt:
			if fl, ok := x.Call.Fun.(*ast.FuncLit); ok {
				for _, s := range fl.Body.List {
					if es, ok := s.(*ast.ExprStmt); ok && strings.HasPrefix(exprStr(es.X), "c.updateCRLs(") {
						initialForce = exprStr(es.X.(*ast.CallExpr).Args[0])
					}
				}
			} else if strings.HasPrefix(exprStr(x.Call.Fun), "c.updateCRLs") {
				tickForce = exprStr(x.Call.Args[0])
				tickAsync = true
			}
		case *ast.CommClause:
			if es, ok := x.Comm.(*ast.ExprStmt); ok && (exprStr(es.X) == "<-c.crlUpdateStop" || exprStr(es.X) == "<-crlUpdateStop") {
				for _, s := range x.Body {
					if _, ok := s.(*ast.ReturnStmt); ok {
						stops = true
					}
				}
			}
		}
		return true
	})
	if interval != "time.NewTicker(parsed)" || parsedFrom != "c.crlConfig.UpdateIntervalParsed" {
		fail("%s: ticker interval is not c.crlConfig.UpdateIntervalParsed (%s / %s)", c.pos(fd), interval, parsedFrom)
	}
	if initialForce != "false" || tickForce != "false" || !tickAsync || !stops {
		fail("%s: ticker goroutine shape changed (initial force=%q, tick force=%q, async=%v, stops=%v)", c.pos(fd), initialForce, tickForce, tickAsync, stops)
	}
	l.p("/-- initCRLUpdateTicker (%s): a first non-forced run when the goroutine starts, then one non-forced run per tick of a ticker with period update_interval -/", c.pos(fd))
	l.p("def schedInitialRun : Bool := true")
	l.p("def schedTickForced : Bool := %s", tickForce)
	l.p("")

	// 6. forced refresh on first use in background mode
	fd = c.funcDecl(checkerFile, "CRLRevocationChecker", "IsRevoked")
	forced := false
	ast.Inspect(fd.Body, func(n ast.Node) bool {
		if ifs, ok := n.(*ast.IfStmt); ok && exprStr(ifs.Cond) == "added&&c.crlConfig.CDPConfig.CRLFetchModeParsed==config.CRLFetchModeBackground" {
			for _, s := range ifs.Body.List {
				if g, ok := s.(*ast.GoStmt); ok && exprStr(g.Call) == "c.updateCRLsRecovering(true)" {
					forced = true
				}
			}
		}
		return true
	})
	l.p("/-- CRLRevocationChecker.IsRevoked: a location added in fetch_background mode starts a forced refresh -/")
	l.p("def schedForcedOnBackgroundAdd : Bool := %v", forced)
	l.p("")

	// 7. Provision: configured CRLs
	fd = c.funcDecl(checkerFile, "CRLRevocationChecker", "Provision")
	var pcalls []string
	for _, s := range fd.Body.List {
		as, ok := s.(*ast.AssignStmt)
		if !ok || len(as.Rhs) != 1 {
			if es, ok := s.(*ast.ExprStmt); ok && exprStr(es.X) == "c.initCRLUpdateTicker()" {
				pcalls = append(pcalls, "ProvStmt.startTicker")
			}
			continue
		}
		switch exprStr(as.Rhs[0]) {
		case "c.addCrlUrlsFromConfig(chains)":
			pcalls = append(pcalls, "ProvStmt.addUrls")
		case "c.addCrlFilesFromConfig(chains)":
			pcalls = append(pcalls, "ProvStmt.addFiles")
		default:
			continue
		}
		// must be followed by `if err != nil { return err }`
		if !c.nextIsErrReturn(fd.Body.List, s) {
			fail("%s: Provision: error of %s is not returned", c.pos(s), exprStr(as.Rhs[0]))
		}
	}
	l.p("/-- CRLRevocationChecker.Provision (%s): configured CRLs are added (errors returned) before the ticker starts -/", c.pos(fd))
	l.p("def schedProvision : List ProvStmt := [%s]", strings.Join(pcalls, ", "))
	for _, fn := range [][2]string{{"addCrlUrlsFromConfig", "CRLUrl"}, {"addCrlFilesFromConfig", "CRLFile"}} {
		fd = c.funcDecl(checkerFile, "CRLRevocationChecker", fn[0])
		if len(fd.Body.List) != 2 {
			fail("%s: %s: expected a loop and a return", c.pos(fd), fn[0])
		}
		rs, ok := fd.Body.List[0].(*ast.RangeStmt)
		if !ok {
			fail("%s: %s: expected a range loop", c.pos(fd), fn[0])
		}
		var body []string
		for _, s := range rs.Body.List {
			switch x := s.(type) {
			case *ast.AssignStmt:
				r := exprStr(x.Rhs[0])
				switch {
				case c.isLocationsLiteral(x.Rhs[0], fn[1]):
				case r == "c.crlRepository.AddCRL(&crlLocations,chains)":
					body = append(body, "LocStmt.addCRL")
					if !c.nextIsErrReturn(rs.Body.List, s) {
						fail("%s: %s: error of AddCRL is not returned", c.pos(s), fn[0])
					}
				case r == "c.crlRepository.UpdateCRL(&crlLocations,chains)":
					body = append(body, "LocStmt.updateCRL")
					if !c.nextIsErrReturn(rs.Body.List, s) {
						fail("%s: %s: error of UpdateCRL is not returned", c.pos(s), fn[0])
					}
				default:
					fail("%s: %s: unexpected statement %s", c.pos(s), fn[0], r)
				}
			case *ast.IfStmt, *ast.ExprStmt:
			default:
				fail("%s: %s: unexpected statement shape %T", c.pos(s), fn[0], s)
			}
		}
		l.p("/-- %s (%s), per configured location -/", fn[0], c.pos(fd))
		l.p("def sched_%s : List LocStmt := [%s]", fn[0], strings.Join(body, ", "))
	}
	l.p("")

	// 8. repository facts the provisioning theorem needs
	fd = c.funcDecl(repoFile, "Repository", "updateEntry")
	setsLoaded := false
	for _, s := range fd.Body.List {
		if as, ok := s.(*ast.AssignStmt); ok && exprStr(as.Lhs[0]) == "entry.Loaded" && exprStr(as.Rhs[0]) == "true" {
			setsLoaded = true
		}
	}
	l.p("/-- Repository.updateEntry marks the entry loaded after a successful swap -/")
	l.p("def schedUpdateEntrySetsLoaded : Bool := %v", setsLoaded)
	fd = c.funcDecl(repoFile, "Repository", "AddCRL")
	stores, activeLoad := false, false
	ast.Inspect(fd.Body, func(n ast.Node) bool {
		if ifs, ok := n.(*ast.IfStmt); ok {
			if exprStr(ifs.Cond) == "crlAdded" {
				ast.Inspect(ifs.Body, func(m ast.Node) bool {
					if ce, ok := m.(*ast.CallExpr); ok && exprStr(ce.Fun) == "R.storeCRLLocationsIfNotLoaded" {
						stores = true
					}
					return true
				})
			}
			if exprStr(ifs.Cond) == "R.crlConfig.CDPConfig.CRLFetchModeParsed==config.CRLFetchModeActively" {
				ast.Inspect(ifs.Body, func(m ast.Node) bool {
					if r, ok := m.(*ast.ReturnStmt); ok && len(r.Results) == 2 && strings.HasPrefix(exprStr(r.Results[1]), "R.loadActively(") {
						activeLoad = true
					}
					return true
				})
			}
		}
		return true
	})
	l.p("/-- Repository.AddCRL stores the locations of a newly added entry (needed by every later refresh) -/")
	l.p("def schedAddStoresLocations : Bool := %v", stores)
	l.p("/-- Repository.AddCRL loads a not yet loaded entry synchronously in fetch_actively mode and returns its error -/")
	l.p("def schedAddLoadsActively : Bool := %v", activeLoad)
	fd = c.funcDecl(repoFile, "Repository", "UpdateCRL")
	retErr := false
	ast.Inspect(fd.Body, func(n ast.Node) bool {
		if ifs, ok := n.(*ast.IfStmt); ok && exprStr(ifs.Cond) == "entry!=nil" {
			ast.Inspect(ifs.Body, func(m ast.Node) bool {
				if as, ok := m.(*ast.AssignStmt); ok && strings.HasPrefix(exprStr(as.Rhs[0]), "R.updateCrlEntry(entry,") {
					retErr = c.nextIsErrReturn(ifs.Body.List, as)
				}
				return true
			})
		}
		return true
	})
	l.p("/-- Repository.UpdateCRL refreshes a present entry and returns the error of the refresh -/")
	l.p("def schedUpdateReturnsError : Bool := %v", retErr)
	l.write(out)
	c.facts["sched.lastFinishIsGlobal"] = asGlobal != ""
	c.facts["sched.divisor"] = lit.Value
}

// nextIsErrReturn: the statement after s in list is `if err != nil { return err }` (possibly `return x, err`)
func (c *ctx) nextIsErrReturn(list []ast.Stmt, s ast.Stmt) bool {
	for i, x := range list {
		if x != s || i+1 >= len(list) {
			continue
		}
		ifs, ok := list[i+1].(*ast.IfStmt)
		if !ok || exprStr(ifs.Cond) != "err!=nil" || len(ifs.Body.List) != 1 {
			return false
		}
		r, ok := ifs.Body.List[0].(*ast.ReturnStmt)
		return ok && len(r.Results) >= 1 && exprStr(r.Results[len(r.Results)-1]) == "err"
	}
	return false
}

func (c *ctx) isLocationsLiteral(e ast.Expr, field string) bool {
	cl, ok := e.(*ast.CompositeLit)
	if !ok || exprStr(cl.Type) != "core.CRLLocations" || len(cl.Elts) != 1 {
		return false
	}
	kv, ok := cl.Elts[0].(*ast.KeyValueExpr)
	return ok && exprStr(kv.Key) == field
}
