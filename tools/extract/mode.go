package main

import (
	"go/ast"
	"go/token"
	"strings"
)

// Go constant -> Lean constructor. A constant not listed is emitted as
// `unknownConst_<name>` so that the Lean build fails (broken obligation).
var constMap = map[string]string{
	"RevocationCheckModePreferOCSP":    "Mode.preferOCSP",
	"RevocationCheckModePreferCRL":     "Mode.preferCRL",
	"RevocationCheckModeCRLOnly":       "Mode.crlOnly",
	"RevocationCheckModeOCSPOnly":      "Mode.ocspOnly",
	"RevocationCheckModeDisabled":      "Mode.disabled",
	"SignatureValidationModeNone":      "SigMode.none",
	"SignatureValidationModeVerifyLog": "SigMode.verifyLog",
	"SignatureValidationModeVerify":    "SigMode.verify",
	"Memory":                           "Storage.memory",
	"Disk":                             "Storage.disk",
	"CRLFetchModeActively":             "FetchMode.actively",
	"CRLFetchModeBackground":           "FetchMode.background",
}

func leanConst(e ast.Expr) string {
	name := ""
	switch x := e.(type) {
	case *ast.SelectorExpr:
		name = x.Sel.Name
	case *ast.Ident:
		name = x.Name
	default:
		fail("constant expression expected, got %s", exprStr(e))
	}
	if l, ok := constMap[name]; ok {
		return l
	}
	return "unknownConst_" + name
}

// iotaConsts returns the names of the const block whose first entry has the given type, in order.
func (c *ctx) iotaConsts(rel, typ string) []string {
	for _, d := range c.file(rel).Decls {
		gd, ok := d.(*ast.GenDecl)
		if !ok || gd.Tok != token.CONST || len(gd.Specs) == 0 {
			continue
		}
		vs := gd.Specs[0].(*ast.ValueSpec)
		if id, ok := vs.Type.(*ast.Ident); !ok || id.Name != typ {
			continue
		}
		if len(vs.Values) != 1 || exprStr(vs.Values[0]) != "iota" {
			fail("%s: const block of %s does not start with iota", c.pos(vs), typ)
		}
		var names []string
		for i, s := range gd.Specs {
			v := s.(*ast.ValueSpec)
			if i > 0 && (v.Type != nil || len(v.Values) != 0) {
				fail("%s: const block of %s: entry %d is not a plain iota continuation", c.pos(v), typ, i)
			}
			for _, n := range v.Names {
				names = append(names, n.Name)
			}
		}
		return names
	}
	fail("const block for %s not found in %s", typ, rel)
	return nil
}

type enumParser struct {
	cases      [][2]string // literal, lean const
	hasDefault bool        // default: returns an error
	emptyConst string      // lean const assigned when the string is empty
	zeroConst  string
}

// recogniseEnumParser recognises
//
//	if len(X.<strField>) > 0 { switch X.<strField> { case "lit": X.<parsedField> = C ... default: return <err> } } else { X.<parsedField> = C0 }
//	return nil
func (c *ctx) recogniseEnumParser(fd *ast.FuncDecl, strField, parsedField string, zeroConst string) enumParser {
	var ep enumParser
	ep.zeroConst = zeroConst
	stmts := fd.Body.List
	if len(stmts) != 2 {
		fail("%s: %s: expected `if …; return nil`, got %d statements", c.pos(fd), fd.Name.Name, len(stmts))
	}
	ifs, ok := stmts[0].(*ast.IfStmt)
	if !ok || ifs.Init != nil {
		fail("%s: %s: first statement is not a plain if", c.pos(fd), fd.Name.Name)
	}
	cond := exprStr(ifs.Cond)
	if !(strings.HasPrefix(cond, "len(") && strings.HasSuffix(cond, "."+strField+")>0")) {
		fail("%s: %s: unexpected condition %s", c.pos(ifs), fd.Name.Name, cond)
	}
	if len(ifs.Body.List) != 1 {
		fail("%s: %s: then-branch is not a single switch", c.pos(ifs), fd.Name.Name)
	}
	sw, ok := ifs.Body.List[0].(*ast.SwitchStmt)
	if !ok || sw.Init != nil || !strings.HasSuffix(exprStr(sw.Tag), "."+strField) {
		fail("%s: %s: then-branch is not `switch X.%s`", c.pos(ifs), fd.Name.Name, strField)
	}
	assignedConst := func(body []ast.Stmt, where ast.Node) string {
		if len(body) != 1 {
			fail("%s: %s: branch is not a single assignment", c.pos(where), fd.Name.Name)
		}
		as, ok := body[0].(*ast.AssignStmt)
		if !ok || as.Tok != token.ASSIGN || len(as.Lhs) != 1 || len(as.Rhs) != 1 ||
			!strings.HasSuffix(exprStr(as.Lhs[0]), "."+parsedField) {
			fail("%s: %s: branch is not `X.%s = const`", c.pos(where), fd.Name.Name, parsedField)
		}
		return leanConst(as.Rhs[0])
	}
	for _, cl := range sw.Body.List {
		cc := cl.(*ast.CaseClause)
		if cc.List == nil {
			if len(cc.Body) != 1 {
				fail("%s: default branch is not a single return", c.pos(cc))
			}
			r, ok := cc.Body[0].(*ast.ReturnStmt)
			if !ok || len(r.Results) != 1 || exprStr(r.Results[0]) == "nil" {
				fail("%s: default branch does not return an error", c.pos(cc))
			}
			ep.hasDefault = true
			continue
		}
		k := assignedConst(cc.Body, cc)
		for _, l := range cc.List {
			bl, ok := l.(*ast.BasicLit)
			if !ok || bl.Kind != token.STRING {
				fail("%s: case label is not a string literal", c.pos(cc))
			}
			ep.cases = append(ep.cases, [2]string{unquote(bl.Value), k})
		}
	}
	eb, ok := ifs.Else.(*ast.BlockStmt)
	if !ok {
		fail("%s: %s: no else branch", c.pos(ifs), fd.Name.Name)
	}
	ep.emptyConst = assignedConst(eb.List, eb)
	r, ok := stmts[1].(*ast.ReturnStmt)
	if !ok || len(r.Results) != 1 || exprStr(r.Results[0]) != "nil" {
		fail("%s: %s: does not end in `return nil`", c.pos(fd), fd.Name.Name)
	}
	return ep
}

func (ep enumParser) emit(l *leanFile, name, typ string) {
	l.p("def %s (s : String) : Option %s :=", name, typ)
	l.p("  if s.length > 0 then")
	l.p("    match s with")
	for _, cs := range ep.cases {
		l.p("    | %s => some %s", leanStr(cs[0]), cs[1])
	}
	if ep.hasDefault {
		l.p("    | _ => none")
	} else {
		l.p("    | _ => some %s -- no default branch: parsed field keeps its zero value", ep.zeroConst)
	}
	l.p("  else some %s", ep.emptyConst)
	l.p("")
}

// boolExprOverMode translates an expression built from `c.ModeParsed == config.K`, `!=`, `||`, `&&`, `!`, parentheses.
func (c *ctx) boolExprOverMode(e ast.Expr) string {
	switch x := e.(type) {
	case *ast.ParenExpr:
		return "(" + c.boolExprOverMode(x.X) + ")"
	case *ast.UnaryExpr:
		if x.Op == token.NOT {
			return "(!" + c.boolExprOverMode(x.X) + ")"
		}
	case *ast.BinaryExpr:
		switch x.Op {
		case token.LOR:
			return "(" + c.boolExprOverMode(x.X) + " || " + c.boolExprOverMode(x.Y) + ")"
		case token.LAND:
			return "(" + c.boolExprOverMode(x.X) + " && " + c.boolExprOverMode(x.Y) + ")"
		case token.EQL, token.NEQ:
			lhs, rhs := x.X, x.Y
			if !strings.HasSuffix(exprStr(lhs), ".ModeParsed") {
				lhs, rhs = rhs, lhs
			}
			if !strings.HasSuffix(exprStr(lhs), ".ModeParsed") {
				break
			}
			op := "=="
			if x.Op == token.NEQ {
				op = "!="
			}
			return "(m " + op + " " + leanConst(rhs) + ")"
		}
	case *ast.Ident:
		if x.Name == "true" || x.Name == "false" {
			return x.Name
		}
	}
	fail("%s: unsupported boolean expression over the mode: %s", c.pos(e), exprStr(e))
	return ""
}

func (c *ctx) singleReturnExpr(fd *ast.FuncDecl) ast.Expr {
	if len(fd.Body.List) != 1 {
		fail("%s: %s is not a single return", c.pos(fd), fd.Name.Name)
	}
	r, ok := fd.Body.List[0].(*ast.ReturnStmt)
	if !ok || len(r.Results) != 1 {
		fail("%s: %s is not a single return", c.pos(fd), fd.Name.Name)
	}
	return r.Results[0]
}

var guardNames = map[string]string{"isOCSPCheckingEnabled": "ocspEnabled", "isCRLCheckingEnabled": "crlEnabled"}

func (c *ctx) condOf(e ast.Expr) string {
	s := exprStr(e)
	switch s {
	case "err!=nil":
		return "Cond.errNotNil"
	case "err==nil":
		return "Cond.errIsNil"
	case "revoked.Revoked", "revoked.Revoked==true", "revoked.Revoked!=false":
		return "Cond.revokedTrue"
	case "!revoked.Revoked", "revoked.Revoked==false", "revoked.Revoked!=true":
		return "Cond.revokedFalse"
	}
	fail("%s: unsupported condition in VerifyClientCertificate: %s", c.pos(e), s)
	return ""
}

func (c *ctx) retOf(r *ast.ReturnStmt) string {
	if len(r.Results) != 1 {
		fail("%s: return with %d results", c.pos(r), len(r.Results))
	}
	switch x := r.Results[0].(type) {
	case *ast.Ident:
		if x.Name == "nil" {
			return "Ret.nil"
		}
		if x.Name == "err" {
			return "Ret.err"
		}
	case *ast.CallExpr:
		f := exprStr(x.Fun)
		if f == "errors.New" || f == "fmt.Errorf" {
			return "Ret.newErr"
		}
	}
	fail("%s: unsupported return value %s", c.pos(r), exprStr(r.Results[0]))
	return ""
}

func (c *ctx) simpleStmts(list []ast.Stmt) []string {
	var out []string
	for _, s := range list {
		switch x := s.(type) {
		case *ast.AssignStmt:
			// revoked, err := c.<checker>.IsRevoked(clientCertificate, verifiedChains)
			if len(x.Lhs) == 2 && len(x.Rhs) == 1 && exprStr(x.Lhs[0]) == "revoked" && exprStr(x.Lhs[1]) == "err" {
				call := exprStr(x.Rhs[0])
				switch call {
				case "c.ocspRevocationChecker.IsRevoked(clientCertificate,verifiedChains)":
					out = append(out, "Simple.call Mech.ocsp")
					continue
				case "c.crlRevocationChecker.IsRevoked(clientCertificate,verifiedChains)":
					out = append(out, "Simple.call Mech.crl")
					continue
				}
			}
			fail("%s: unsupported assignment in VerifyClientCertificate: %s", c.pos(x), exprStr(x.Rhs[0]))
		case *ast.IfStmt:
			if x.Init != nil || x.Else != nil || len(x.Body.List) != 1 {
				fail("%s: unsupported if shape in VerifyClientCertificate", c.pos(x))
			}
			r, ok := x.Body.List[0].(*ast.ReturnStmt)
			if !ok {
				fail("%s: if body is not a return", c.pos(x))
			}
			out = append(out, "Simple.ifRet "+c.condOf(x.Cond)+" "+c.retOf(r))
		default:
			fail("%s: unsupported statement in VerifyClientCertificate", c.pos(s))
		}
	}
	return out
}

func genMode(c *ctx, out string) {
	l := newLean("Mode", "Crv.Mode")
	// 1. constant order
	modes := c.iotaConsts("config/config.go", "RevocationCheckMode")
	var ms []string
	for _, m := range modes {
		ms = append(ms, leanConst(&ast.Ident{Name: m}))
	}
	l.p("/-- config/config.go: iota order of RevocationCheckMode (the zero value is the head). -/")
	l.p("def modeConstOrder : List Mode := [%s]\n", strings.Join(ms, ", "))
	// 2. parseMode
	ep := c.recogniseEnumParser(c.funcDecl("configparser.go", "", "parseMode"), "Mode", "ModeParsed", ms[0])
	l.p("/-- configparser.go:parseMode -/")
	ep.emit(l, "parseMode", "Mode")
	// 3. predicates
	for _, fn := range []string{"isOCSPCheckingEnabled", "isCRLCheckingEnabled"} {
		fd := c.funcDecl("revocation.go", "", fn)
		l.p("/-- revocation.go:%s (%s) -/", fn, c.pos(fd))
		l.p("def %s (m : Mode) : Bool := %s\n", guardNames[fn], c.boolExprOverMode(c.singleReturnExpr(fd)))
	}
	// 4. VerifyClientCertificate
	fd := c.funcDecl("revocation.go", "CertRevocationValidator", "VerifyClientCertificate")
	body := fd.Body.List
	if len(body) != 2 {
		fail("%s: VerifyClientCertificate: expected `if len(verifiedChains) > 0 {…}; return …`", c.pos(fd))
	}
	top, ok := body[0].(*ast.IfStmt)
	if !ok || top.Init != nil || top.Else != nil || exprStr(top.Cond) != "len(verifiedChains)>0" {
		fail("%s: VerifyClientCertificate: first statement is not `if len(verifiedChains) > 0`", c.pos(fd))
	}
	fin, ok := body[1].(*ast.ReturnStmt)
	if !ok {
		fail("%s: VerifyClientCertificate: does not end in a return", c.pos(fd))
	}
	inner := top.Body.List
	if len(inner) < 1 {
		fail("%s: empty body", c.pos(top))
	}
	as, ok := inner[0].(*ast.AssignStmt)
	if !ok || exprStr(as.Lhs[0]) != "clientCertificate" || exprStr(as.Rhs[0]) != "verifiedChains[0][0]" {
		fail("%s: VerifyClientCertificate: clientCertificate is not verifiedChains[0][0]", c.pos(inner[0]))
	}
	var stmts []string
	for _, s := range inner[1:] {
		ifs, ok := s.(*ast.IfStmt)
		if ok && ifs.Init == nil && ifs.Else == nil {
			if call, ok := ifs.Cond.(*ast.CallExpr); ok {
				if g, ok := guardNames[exprStr(call.Fun)]; ok && len(call.Args) == 1 && exprStr(call.Args[0]) == "c" {
					ss := c.simpleStmts(ifs.Body.List)
					stmts = append(stmts, "Stmt.guarded "+g+" ["+strings.Join(ss, ", ")+"]")
					continue
				}
			}
		}
		ss := c.simpleStmts([]ast.Stmt{s})
		stmts = append(stmts, "Stmt.simple ("+ss[0]+")")
	}
	l.p("/-- revocation.go:VerifyClientCertificate (%s), statement by statement. -/", c.pos(fd))
	l.p("def verifyProg : VerifyProg :=")
	l.p("  { chainsGuard := true")
	l.p("    body := [")
	for i, s := range stmts {
		sep := ","
		if i == len(stmts)-1 {
			sep = ""
		}
		l.p("      %s%s", s, sep)
	}
	l.p("    ]")
	l.p("    final := %s }", c.retOf(fin))
	l.write(out)
	c.facts["mode"] = map[string]interface{}{"consts": modes, "parseModeCases": ep.cases, "parseModeHasDefault": ep.hasDefault, "verifyProg": stmts}
}
