package main

func genLocks(c *ctx, out string) {
}
