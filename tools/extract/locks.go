package main

// Lock programs (C13, C08). For every function of crl/crlrepository/crlrepository.go and
// crl/crlrevocationchecker.go: the ordered lock/field-access program
//   acq lock mode | rel lock mode | rd field | wr field | call fn | spawn fn | pick | alt | loop | ret
// with `defer` resolved to every function exit, then (entry points only) inlined along the call
// graph and lowered to a control-flow graph for Crv.Locks. Fails closed: a lock used in any way
// other than X.Lock()/RLock()/Unlock()/RUnlock() on a known lock expression, a TryLock, a lock
// passed around, a Lock without matching Unlock on some path, recursion, or an unknown statement
// shape is an extraction error.

import (
	"fmt"
	"go/ast"
	"go/token"
	"sort"
	"strings"
)

const (
	repoFile    = "crl/crlrepository/crlrepository.go"
	checkerFile = "crl/crlrevocationchecker.go"
)

// "lifecycle" is not a lock of the code base: it stands for Caddy's module lifecycle, which never runs
// Provision and Cleanup of one checker instance concurrently (nor two Cleanups); the translator wraps the
// `provision` and `cleanup` thread programs in it.
var lockNames = []string{"updateMutex", "workDirMutex", "repoLock", "entryLock", "lifecycle"}
var lockScopes = []string{".glob", ".glob", ".chk", ".ent", ".chk"}
var lifecyclePrograms = map[string]bool{"provision": true, "cleanup": true}
var fieldNames = []string{"repoMap", "entry.Loaded", "entry.CRLStore", "entry.storeContent", "entry.Chains",
	"entry.LastUpdateSignatureVerifyFailed", "entry.LastUpdateSignature", "entry.CRLLoader", "entry.loaderState",
	"checker.lastCrlUpdateFinishTime", "checker.crlUpdateStop", "checker.crlUpdateTicker", "workDirsInUse", "entry.Closed"}
var fieldScopes = []string{".chk", ".ent", ".ent", ".ent", ".ent", ".ent", ".ent", ".ent", ".ent", ".chk", ".chk", ".chk", ".glob", ".ent"}

// functions that only run before the checker is handed out (Caddy provisions a module before it
// serves, `go` orders them before the spawned goroutine): their writes to checker fields are
// initialisation, emitted as facts of kind "wrInit" and not as shared writes.
var initOnly = map[string]string{"CRLRevocationChecker.Provision": "", "CRLRevocationChecker.initCRLUpdateTicker": "CRLRevocationChecker.Provision",
	"NewCRLRepository": "CRLRevocationChecker.Provision"}

// parameters of type crlstore.CRLStore: is the argument the entry's live store or a thread-local temporary?
var storeParams = map[string]string{"Repository.getStoredCertAsChain/oldStore": "shared", "Repository.updateEntry/store": "temp"}

type ir struct {
	kind  string // acq rel rd wr wrInit call spawn pick alt loop ret break continue
	a, b  string // lock+mode | field | callee
	pos   string
	alts  [][]*ir
	body  []*ir
	entry bool // call: callee's entry parameter is bound to the caller's entry variable
}

type lfunc struct {
	name string
	fd   *ast.FuncDecl
	lit  *ast.FuncLit
	body []*ir
	recv string // receiver identifier
	typ  string // receiver type
	file string
}

type lockGen struct {
	c          *ctx
	funcs      map[string]*lfunc
	order      []string
	entryField map[string]bool
	storeMut   map[string]bool // store method name -> mutates S.Map / S.Db
	loaderMut  map[string]bool
	retEntry   map[string]bool // function returns *Entry first
	facts      []map[string]string
	lockUses   int
}

func idx(list []string, s string) int {
	for i, x := range list {
		if x == s {
			return i
		}
	}
	fail("locks: unknown name %s", s)
	return -1
}

func recvOf(fd *ast.FuncDecl) (id, typ string) {
	if fd.Recv == nil || len(fd.Recv.List) != 1 {
		return "", ""
	}
	t := fd.Recv.List[0].Type
	if s, ok := t.(*ast.StarExpr); ok {
		t = s.X
	}
	if len(fd.Recv.List[0].Names) == 1 {
		id = fd.Recv.List[0].Names[0].Name
	}
	return id, exprStr(t)
}

// mutators: methods of the given receiver types whose body assigns/put/closes one of the state selectors
func (g *lockGen) mutators(rel string, types []string, stateSel []string, mutCalls []string) map[string]bool {
	out := map[string]bool{}
	for _, d := range g.c.file(rel).Decls {
		fd, ok := d.(*ast.FuncDecl)
		if !ok || fd.Body == nil {
			continue
		}
		rid, rt := recvOf(fd)
		found := false
		for _, t := range types {
			found = found || t == rt
		}
		if !found {
			continue
		}
		mut := false
		ast.Inspect(fd.Body, func(n ast.Node) bool {
			switch x := n.(type) {
			case *ast.AssignStmt:
				for _, l := range x.Lhs {
					s := exprStr(l)
					for _, st := range stateSel {
						if s == rid+"."+st || strings.HasPrefix(s, rid+"."+st+"[") {
							mut = true
						}
					}
				}
			case *ast.CallExpr:
				s := exprStr(x.Fun)
				for _, mc := range mutCalls {
					if s == rid+"."+mc {
						mut = true
					}
				}
			}
			return true
		})
		out[fd.Name.Name] = out[fd.Name.Name] || mut
	}
	return out
}

func genLocks(c *ctx, out string) {
	g := &lockGen{c: c, funcs: map[string]*lfunc{}, entryField: map[string]bool{}, retEntry: map[string]bool{}}
	// Entry struct fields
	for _, d := range c.file(repoFile).Decls {
		gd, ok := d.(*ast.GenDecl)
		if !ok || gd.Tok != token.TYPE {
			continue
		}
		for _, s := range gd.Specs {
			ts := s.(*ast.TypeSpec)
			if st, ok := ts.Type.(*ast.StructType); ok && ts.Name.Name == "Entry" {
				for _, f := range st.Fields.List {
					for _, n := range f.Names {
						g.entryField[n.Name] = true
					}
				}
			}
		}
	}
	for _, f := range []string{"entryLock", "CRLLoader", "CRLStore", "LastUpdateSignatureVerifyFailed", "LastUpdateSignature", "Loaded", "Chains", "Closed"} {
		if !g.entryField[f] {
			fail("locks: Entry has no field %s", f)
		}
		delete(g.entryField, f)
	}
	if len(g.entryField) != 0 {
		fail("locks: Entry has fields the lock model does not know: %v", g.entryField)
	}
	for _, f := range []string{"entryLock", "CRLLoader", "CRLStore", "LastUpdateSignatureVerifyFailed", "LastUpdateSignature", "Loaded", "Chains", "Closed"} {
		g.entryField[f] = true
	}
	// which store / loader methods mutate the state the entry lock is supposed to protect
	m1 := g.mutators("crl/crlstore/map.go", []string{"MapStore"}, []string{"Map"}, []string{"set", "close"})
	m2 := g.mutators("crl/crlstore/leveldb.go", []string{"LevelDbStore"}, []string{"Db"},
		[]string{"Db.Put", "Db.Delete", "Db.Write", "Db.Close", "closeDbWithRetries", "removeWithRetries", "renameWithRetries", "renameWithRetriesToTempDir"})
	g.storeMut = map[string]bool{}
	for k, v := range m1 {
		g.storeMut[k] = v
	}
	for k, v := range m2 {
		if _, ok := m1[k]; !ok && ast.IsExported(k) {
			fail("locks: store method %s exists only for LevelDbStore", k)
		}
		g.storeMut[k] = g.storeMut[k] || v
	}
	g.loaderMut = g.mutators("crl/crlloader/multischemescrlloader.go", []string{"MultiSchemesCRLLoader"}, []string{"lastSuccessfulLoader"}, nil)
	for _, rel := range []string{"crl/crlloader/urlcrlloader.go", "crl/crlloader/filecrlloader.go"} {
		for k, v := range g.mutators(rel, []string{"URLLoader", "FileLoader"}, []string{"UrlString", "FileName", "Url", "Path", "Logger"}, nil) {
			g.loaderMut[k] = g.loaderMut[k] || v
		}
	}
	// collect functions
	for _, rel := range []string{repoFile, checkerFile} {
		for _, d := range c.file(rel).Decls {
			fd, ok := d.(*ast.FuncDecl)
			if !ok || fd.Body == nil {
				continue
			}
			rid, rt := recvOf(fd)
			name := fd.Name.Name
			if rt != "" {
				name = rt + "." + name
			}
			g.funcs[name] = &lfunc{name: name, fd: fd, recv: rid, typ: rt, file: rel}
			g.order = append(g.order, name)
			if fd.Type.Results != nil && len(fd.Type.Results.List) > 0 && exprStr(fd.Type.Results.List[0].Type) == "*Entry" {
				g.retEntry[name] = true
			}
		}
	}
	g.checkLockMentions()
	for _, name := range append([]string{}, g.order...) {
		f := g.funcs[name]
		t := &ftrans{g: g, f: f, entryVars: map[string]string{}, stores: map[string]string{}}
		t.params(f.fd.Type)
		f.body = t.funcBody(f.fd.Body)
	}
	g.checkInitOnly()
	// thread entry points
	progs := [][2]string{{"hs", "CRLRevocationChecker.IsRevoked"}, {"update", "CRLRevocationChecker.updateCRLsRecovering"},
		{"cfgUpdate", "Repository.UpdateCRL"}, {"cleanup", "CRLRevocationChecker.Cleanup"},
		{"ticker", "CRLRevocationChecker.initCRLUpdateTicker.func1"}, {"provision", "CRLRevocationChecker.Provision"},
		{"updateDirect", "CRLRevocationChecker.updateCRLs"}}
	progIndex := map[string]int{}
	for i, p := range progs {
		if g.funcs[p[1]] == nil {
			fail("locks: thread entry point %s not found", p[1])
		}
		progIndex[p[1]] = i
	}
	l := newLean("Locks", "Crv.Locks")
	l.p("open Crv.Locks")
	l.p("")
	l.p("/-- lock classes: index = id used in the programs -/")
	l.p("def lockNames : List String := [%s]", quoteList(lockNames))
	l.p("def fieldNames : List String := [%s]", quoteList(fieldNames))
	l.p("def progNames : List String := [%s]", quoteList(firsts(progs)))
	l.p("")
	l.p("/-! Per-function lock programs as extracted (documentation; the checked objects are the CFGs below).")
	for _, name := range g.order {
		f := g.funcs[name]
		if !g.hasFacts(name, map[string]bool{}) {
			continue
		}
		l.p("%s (%s)", name, c.pos(f.fd))
		dumpIR(l, f.body, "  ")
	}
	l.p("-/")
	l.p("")
	nest := map[[2]int]string{}
	var cfgs []*cfg
	for i, p := range progs {
		b := &cfg{g: g, progIndex: progIndex, name: p[0]}
		retNode := b.add("ret", "", nil)
		exit := retNode
		if lifecyclePrograms[p[0]] {
			exit = b.add(fmt.Sprintf(".rel %d .w", idx(lockNames, "lifecycle")), "(module lifecycle)", []int{retNode})
		}
		entry := b.seq(g.funcs[p[1]].body, exit, exit, -1, -1, []string{p[1]})
		if lifecyclePrograms[p[0]] {
			entry = b.add(fmt.Sprintf(".acq %d .w", idx(lockNames, "lifecycle")), "(module lifecycle)", []int{entry})
		}
		b.finish(entry, nest)
		cfgs = append(cfgs, b)
		l.p("/-- thread program %d `%s` = %s, calls inlined -/", i, p[0], p[1])
		l.p("def prog_%s : Prog := { name := %s, entry := %d, nodes := [", p[0], leanStr(p[0]), b.entry)
		for k, n := range b.nodes {
			sep := ","
			if k == len(b.nodes)-1 {
				sep = ""
			}
			l.p("  ⟨%s, %s, %s⟩%s -- %d %s", n.instr, natList(n.succ), heldList(n.held), sep, k, n.pos)
		}
		l.p("] }")
		l.p("def progPos_%s : List String := [%s]", p[0], quoteList(b.positions()))
		l.p("")
	}
	// ranks: longest path in the nesting graph (held before -> requested); a cycle leaves all ranks 0
	rank := make([]int, len(lockNames))
	for iter := 0; iter <= len(lockNames); iter++ {
		changed := false
		for e := range nest {
			if rank[e[1]] < rank[e[0]]+1 {
				rank[e[1]] = rank[e[0]] + 1
				changed = true
			}
		}
		if !changed {
			break
		}
		if iter == len(lockNames) {
			for i := range rank {
				rank[i] = 0
			}
		}
	}
	var nestKeys [][2]int
	for e := range nest {
		nestKeys = append(nestKeys, e)
	}
	sort.Slice(nestKeys, func(i, j int) bool {
		return nestKeys[i][0] < nestKeys[j][0] || (nestKeys[i][0] == nestKeys[j][0] && nestKeys[i][1] < nestKeys[j][1])
	})
	l.p("/-- nested acquisitions found: (held, requested), first site -/")
	var ns, nsDoc []string
	for _, e := range nestKeys {
		ns = append(ns, fmt.Sprintf("(%d, %d)", e[0], e[1]))
		nsDoc = append(nsDoc, fmt.Sprintf("%s -> %s at %s", lockNames[e[0]], lockNames[e[1]], nest[e]))
	}
	l.p("def lockNesting : List (Nat × Nat) := [%s] -- %s", strings.Join(ns, ", "), strings.Join(nsDoc, "; "))
	l.p("")
	var pn []string
	for _, p := range progs {
		pn = append(pn, "prog_"+p[0])
	}
	l.p("def sys : Sys := { lockScope := [%s], lockRank := %s, fieldScope := [%s], progs := [%s] }",
		strings.Join(lockScopes, ", "), natList(rank), strings.Join(fieldScopes, ", "), strings.Join(pn, ", "))
	// OCSP cache handle
	l.p("")
	l.p("/-- ocsp/ocsprevocationchecker.go: functions that assign `c.cache` -/")
	l.p("def ocspCacheAssignedIn : List String := [%s]", quoteList(g.ocspCacheWriters()))
	l.write(out)
	c.facts["locks.accesses"] = g.facts
	c.facts["locks.lockNames"] = lockNames
	c.facts["locks.fieldNames"] = fieldNames
	c.facts["locks.progNames"] = firsts(progs)
	var sizes []int
	for _, b := range cfgs {
		sizes = append(sizes, len(b.nodes))
	}
	c.facts["locks.progSizes"] = sizes
	c.facts["locks.rank"] = rank
}

func firsts(p [][2]string) []string {
	var o []string
	for _, x := range p {
		o = append(o, x[0])
	}
	return o
}

func quoteList(l []string) string {
	var o []string
	for _, s := range l {
		o = append(o, leanStr(s))
	}
	return strings.Join(o, ", ")
}

func natList(l []int) string {
	var o []string
	for _, s := range l {
		o = append(o, fmt.Sprint(s))
	}
	return "[" + strings.Join(o, ", ") + "]"
}

func heldList(h []string) string {
	var o []string
	for _, s := range h {
		p := strings.Split(s, "/")
		o = append(o, fmt.Sprintf("(%d, .%s)", idx(lockNames, p[0]), p[1]))
	}
	return "[" + strings.Join(o, ", ") + "]"
}

func dumpIR(l *leanFile, list []*ir, ind string) {
	for _, n := range list {
		switch n.kind {
		case "alt":
			l.p("%salt", ind)
			for _, a := range n.alts {
				l.p("%s |", ind)
				dumpIR(l, a, ind+"    ")
			}
		case "loop", "loop1":
			l.p("%s%s @%s", ind, map[string]string{"loop": "loop", "loop1": "deferred-literal"}[n.kind], n.pos)
			dumpIR(l, n.body, ind+"    ")
		default:
			l.p("%s%s %s %s @%s", ind, n.kind, n.a, n.b, n.pos)
		}
	}
}

func (g *lockGen) ocspCacheWriters() []string {
	var out []string
	for _, d := range g.c.file("ocsp/ocsprevocationchecker.go").Decls {
		fd, ok := d.(*ast.FuncDecl)
		if !ok || fd.Body == nil {
			continue
		}
		rid, _ := recvOf(fd)
		ast.Inspect(fd.Body, func(n ast.Node) bool {
			if as, ok := n.(*ast.AssignStmt); ok {
				for _, lh := range as.Lhs {
					if exprStr(lh) == rid+".cache" {
						out = append(out, fd.Name.Name)
					}
				}
			}
			return true
		})
	}
	return out
}

// every mention of a lock must be its declaration, its construction or the receiver of Lock/RLock/Unlock/RUnlock
func (g *lockGen) checkLockMentions() {
	lockIdents := map[string]bool{"entryLock": true, "crlRepositoryLock": true, "crlUpdateMutex": true, "workDirInUseMutex": true}
	for _, rel := range []string{repoFile, checkerFile} {
		f := g.c.file(rel)
		allowed := map[*ast.Ident]bool{}
		ast.Inspect(f, func(n ast.Node) bool {
			switch x := n.(type) {
			case *ast.Field:
				for _, nm := range x.Names {
					allowed[nm] = true
				}
			case *ast.ValueSpec:
				for _, nm := range x.Names {
					allowed[nm] = true
				}
			case *ast.KeyValueExpr:
				if id, ok := x.Key.(*ast.Ident); ok {
					allowed[id] = true
				}
			case *ast.CallExpr:
				if se, ok := x.Fun.(*ast.SelectorExpr); ok {
					switch se.Sel.Name {
					case "Lock", "RLock", "Unlock", "RUnlock":
						switch r := se.X.(type) {
						case *ast.Ident:
							allowed[r] = true
						case *ast.SelectorExpr:
							allowed[r.Sel] = true
						}
					case "TryLock", "TryRLock", "RLocker":
						fail("%s: %s is not a supported lock usage", g.c.pos(x), se.Sel.Name)
					}
				}
			}
			return true
		})
		ast.Inspect(f, func(n ast.Node) bool {
			if id, ok := n.(*ast.Ident); ok && lockIdents[id.Name] && !allowed[id] {
				fail("%s: lock %s is used other than by Lock/RLock/Unlock/RUnlock (passed around or aliased)", g.c.pos(id), id.Name)
			}
			return true
		})
		// sync types may only occur in the declarations/constructions checked above
		ast.Inspect(f, func(n ast.Node) bool {
			if se, ok := n.(*ast.SelectorExpr); ok && exprStr(se.X) == "sync" {
				switch se.Sel.Name {
				case "RWMutex", "Mutex":
				default:
					fail("%s: sync.%s is not modelled", g.c.pos(se), se.Sel.Name)
				}
			}
			return true
		})
	}
}

func (g *lockGen) checkInitOnly() {
	callers := map[string]map[string]bool{}
	var walk func(fn string, list []*ir)
	walk = func(fn string, list []*ir) {
		for _, n := range list {
			if n.kind == "call" || n.kind == "spawn" {
				if callers[n.a] == nil {
					callers[n.a] = map[string]bool{}
				}
				callers[n.a][fn] = true
			}
			for _, a := range n.alts {
				walk(fn, a)
			}
			walk(fn, n.body)
		}
	}
	for name, f := range g.funcs {
		walk(name, f.body)
	}
	for fn, only := range initOnly {
		if g.funcs[fn] == nil {
			fail("locks: initialisation function %s not found", fn)
		}
		for c := range callers[fn] {
			if c != only {
				fail("locks: %s is assumed to run only during Provision but is called from %s", fn, c)
			}
		}
	}
}

func (g *lockGen) hasFacts(fn string, seen map[string]bool) bool {
	if seen[fn] {
		return false
	}
	seen[fn] = true
	f := g.funcs[fn]
	if f == nil {
		return false
	}
	var any func(list []*ir) bool
	any = func(list []*ir) bool {
		for _, n := range list {
			switch n.kind {
			case "acq", "rel", "rd", "wr", "spawn", "pick":
				return true
			case "call":
				if g.hasFacts(n.a, seen) {
					return true
				}
			}
			for _, a := range n.alts {
				if any(a) {
					return true
				}
			}
			if any(n.body) {
				return true
			}
		}
		return false
	}
	return any(f.body)
}

// ---- per function translation -------------------------------------------------------------

type ftrans struct {
	g         *lockGen
	f         *lfunc
	entryVars map[string]string // ident -> "shared" | "fresh"
	stores    map[string]string // ident -> "shared" | "temp"
	usedEntry string            // the one shared entry variable used for locks / fields
	nlit      int
	inLoop    int
}

func (t *ftrans) pos(n ast.Node) string { return t.g.c.pos(n) }

func (t *ftrans) params(ft *ast.FuncType) {
	if ft.Params == nil {
		return
	}
	for _, p := range ft.Params.List {
		ty := exprStr(p.Type)
		for _, n := range p.Names {
			switch ty {
			case "*Entry":
				t.entryVars[n.Name] = "shared"
			case "crlstore.CRLStore":
				k, ok := storeParams[t.f.name+"/"+n.Name]
				if !ok {
					fail("%s: %s has a store parameter %s the lock model does not know", t.pos(p), t.f.name, n.Name)
				}
				t.stores[n.Name] = k
			case "*sync.RWMutex", "*sync.Mutex", "sync.Locker":
				fail("%s: lock passed as a parameter", t.pos(p))
			}
		}
	}
}

func (t *ftrans) fact(kind, a, b string, n ast.Node) *ir {
	p := t.pos(n)
	if kind == "wr" {
		if _, ok := initOnly[t.f.name]; ok && strings.HasPrefix(a, "checker.") {
			kind = "wrInit"
		}
	}
	if kind == "rd" || kind == "wr" || kind == "wrInit" {
		t.g.facts = append(t.g.facts, map[string]string{"kind": kind, "field": a, "fn": t.f.name, "pos": p})
	}
	return &ir{kind: kind, a: a, b: b, pos: p}
}

func (t *ftrans) useEntry(id *ast.Ident) bool {
	k, ok := t.entryVars[id.Name]
	if !ok {
		fail("%s: %s.%s: %s is not a known repository entry variable", t.pos(id), id.Name, "<field>", id.Name)
	}
	if k == "fresh" {
		return false
	}
	if t.usedEntry != "" && t.usedEntry != id.Name {
		fail("%s: %s uses two entry variables (%s, %s); the lock model binds one entry per function", t.pos(id), t.f.name, t.usedEntry, id.Name)
	}
	t.usedEntry = id.Name
	return true
}

// lockOf recognises the lock expressions of the code base.
func (t *ftrans) lockOf(e ast.Expr) (string, bool) {
	switch x := e.(type) {
	case *ast.Ident:
		switch x.Name {
		case "crlUpdateMutex":
			return "updateMutex", true
		case "workDirInUseMutex":
			return "workDirMutex", true
		}
	case *ast.SelectorExpr:
		if id, ok := x.X.(*ast.Ident); ok {
			if x.Sel.Name == "crlRepositoryLock" && id.Name == t.f.recv && t.f.typ == "Repository" {
				return "repoLock", true
			}
			if x.Sel.Name == "entryLock" {
				if !t.useEntry(id) {
					fail("%s: lock of a not yet published entry is taken", t.pos(x))
				}
				return "entryLock", true
			}
		}
	}
	return "", false
}

// lockCall recognises X.Lock() etc. as a statement.
func (t *ftrans) lockCall(e ast.Expr) *ir {
	call, ok := e.(*ast.CallExpr)
	if !ok {
		return nil
	}
	se, ok := call.Fun.(*ast.SelectorExpr)
	if !ok {
		return nil
	}
	var kind, mode string
	switch se.Sel.Name {
	case "Lock":
		kind, mode = "acq", "w"
	case "RLock":
		kind, mode = "acq", "r"
	case "Unlock":
		kind, mode = "rel", "w"
	case "RUnlock":
		kind, mode = "rel", "r"
	default:
		return nil
	}
	lk, ok := t.lockOf(se.X)
	if !ok {
		fail("%s: %s on an unknown lock expression %s", t.pos(call), se.Sel.Name, exprStr(se.X))
	}
	if lk == "updateMutex" || lk == "workDirMutex" {
		if mode == "r" {
			fail("%s: RLock on a plain mutex", t.pos(call))
		}
	}
	t.g.lockUses++
	return t.fact(kind, lk, mode, call)
}

// exit: the deferred actions in LIFO order, then ret
func (t *ftrans) exit(defers [][]*ir, pos string) []*ir {
	var out []*ir
	for i := len(defers) - 1; i >= 0; i-- {
		out = append(out, defers[i]...)
	}
	return append(out, &ir{kind: "ret", pos: pos})
}

func terminates(list []*ir) bool {
	if len(list) == 0 {
		return false
	}
	n := list[len(list)-1]
	switch n.kind {
	case "ret", "break", "continue":
		return true
	case "alt":
		for _, a := range n.alts {
			if !terminates(a) {
				return false
			}
		}
		return true
	}
	return false
}

func trivial(list []*ir) bool { return len(list) == 0 }

type deferStack struct{ items [][]*ir }

func (t *ftrans) stmts(stmts []ast.Stmt, ds *deferStack) []*ir {
	var out []*ir
	for i, s := range stmts {
		if ifs, ok := s.(*ast.IfStmt); ok {
			r, consumed := t.ifStmt(ifs, ds, stmts[i+1:])
			out = append(out, r...)
			if consumed {
				return out
			}
			continue
		}
		out = append(out, t.stmt(s, ds)...)
	}
	return out
}

// ifStmt: both arms as alternatives. A defer registered inside an arm that falls through makes the
// defer stack path dependent: then the rest of the enclosing block is translated once per arm
// (and every arm must leave the function by the end of it).
func (t *ftrans) ifStmt(x *ast.IfStmt, ds *deferStack, rest []ast.Stmt) ([]*ir, bool) {
	var out []*ir
	if x.Init != nil {
		out = append(out, t.stmt(x.Init, ds)...)
	}
	out = append(out, t.expr(x.Cond)...)
	before := len(ds.items)
	thenDs := &deferStack{items: append([][]*ir{}, ds.items...)}
	thenIR := t.stmts(x.Body.List, thenDs)
	var elseIR []*ir
	elseDs := &deferStack{items: append([][]*ir{}, ds.items...)}
	if x.Else != nil {
		switch e := x.Else.(type) {
		case *ast.BlockStmt:
			elseIR = t.stmts(e.List, elseDs)
		case *ast.IfStmt:
			elseIR = t.stmts([]ast.Stmt{e}, elseDs)
		}
	}
	thenLeaks := len(thenDs.items) != before && !terminates(thenIR)
	elseLeaks := len(elseDs.items) != before && !terminates(elseIR)
	if thenLeaks || elseLeaks {
		if !terminates(thenIR) {
			thenIR = append(thenIR, t.stmts(rest, thenDs)...)
		}
		if !terminates(elseIR) {
			elseIR = append(elseIR, t.stmts(rest, elseDs)...)
		}
		if !terminates(thenIR) || !terminates(elseIR) {
			fail("%s: conditional defer whose branch does not leave the function by the end of the enclosing block", t.pos(x))
		}
		return append(out, &ir{kind: "alt", alts: [][]*ir{thenIR, elseIR}, pos: t.pos(x)}), true
	}
	if trivial(thenIR) && trivial(elseIR) {
		return out, false
	}
	return append(out, &ir{kind: "alt", alts: [][]*ir{thenIR, elseIR}, pos: t.pos(x)}), false
}

func (t *ftrans) stmt(s ast.Stmt, ds *deferStack) []*ir {
	switch x := s.(type) {
	case *ast.ExprStmt:
		if exprStr(x.X) != "" && strings.HasPrefix(exprStr(x.X), "verifhook.Hit(") {
			return nil
		}
		if l := t.lockCall(x.X); l != nil {
			return []*ir{l}
		}
		return t.expr(x.X)
	case *ast.DeferStmt:
		if t.inLoop > 0 {
			fail("%s: defer inside a loop", t.pos(x))
		}
		if l := t.lockCall(x.Call); l != nil {
			if l.kind != "rel" {
				fail("%s: deferred lock acquisition", t.pos(x))
			}
			ds.items = append(ds.items, []*ir{l})
			return nil
		}
		if fl, ok := x.Call.Fun.(*ast.FuncLit); ok {
			if len(x.Call.Args) != 0 {
				fail("%s: deferred function literal with arguments", t.pos(x))
			}
			ds.items = append(ds.items, t.literal(fl))
			return nil
		}
		var out []*ir
		for _, a := range x.Call.Args {
			out = append(out, t.expr(a)...)
		}
		// the deferred callee itself: a known function is called at exit, anything else has no facts
		callee := t.expr(&ast.CallExpr{Fun: x.Call.Fun, Lparen: x.Call.Lparen, Rparen: x.Call.Rparen})
		ds.items = append(ds.items, callee)
		return out
	case *ast.GoStmt:
		var out []*ir
		for _, a := range x.Call.Args {
			out = append(out, t.expr(a)...)
		}
		if fl, ok := x.Call.Fun.(*ast.FuncLit); ok {
			t.nlit++
			name := fmt.Sprintf("%s.func%d", t.f.name, t.nlit)
			sub := &ftrans{g: t.g, f: &lfunc{name: name, recv: t.f.recv, typ: t.f.typ, file: t.f.file}, entryVars: map[string]string{}, stores: map[string]string{}}
			body := sub.literalNamed(fl)
			t.g.funcs[name] = &lfunc{name: name, lit: fl, body: body, recv: t.f.recv, typ: t.f.typ, file: t.f.file, fd: &ast.FuncDecl{Name: ast.NewIdent(name), Type: fl.Type, Body: fl.Body}}
			t.g.order = append(t.g.order, name)
			return append(out, &ir{kind: "spawn", a: name, pos: t.pos(x)})
		}
		callee := t.callee(x.Call)
		if callee == "" {
			fail("%s: go statement with an unknown callee %s", t.pos(x), exprStr(x.Call.Fun))
		}
		return append(out, &ir{kind: "spawn", a: callee, pos: t.pos(x)})
	case *ast.ReturnStmt:
		var out []*ir
		for _, r := range x.Results {
			out = append(out, t.expr(r)...)
		}
		return append(out, t.exit(ds.items, t.pos(x))...)
	case *ast.AssignStmt:
		return t.assign(x)
	case *ast.DeclStmt:
		gd := x.Decl.(*ast.GenDecl)
		var out []*ir
		for _, sp := range gd.Specs {
			vs, ok := sp.(*ast.ValueSpec)
			if !ok {
				fail("%s: unsupported declaration", t.pos(x))
			}
			if vs.Type != nil && exprStr(vs.Type) == "crlstore.CRLStore" && len(vs.Values) == 0 {
				for _, n := range vs.Names {
					t.stores[n.Name] = "temp"
				}
			}
			if len(vs.Values) > 0 {
				lhs := make([]ast.Expr, len(vs.Names))
				for i, n := range vs.Names {
					lhs[i] = n
				}
				out = append(out, t.assign(&ast.AssignStmt{Lhs: lhs, Tok: token.DEFINE, Rhs: vs.Values, TokPos: vs.Pos()})...)
			}
		}
		return out
	case *ast.IncDecStmt:
		return t.expr(x.X)
	case *ast.IfStmt:
		r, _ := t.ifStmt(x, ds, nil)
		return r
	case *ast.ForStmt:
		var out []*ir
		if x.Init != nil {
			out = append(out, t.stmt(x.Init, ds)...)
		}
		var body []*ir
		if x.Cond != nil {
			body = append(body, t.expr(x.Cond)...)
		}
		t.inLoop++
		body = append(body, t.stmts(x.Body.List, ds)...)
		if x.Post != nil {
			body = append(body, t.stmt(x.Post, ds)...)
		}
		t.inLoop--
		if trivial(body) {
			return out
		}
		return append(out, &ir{kind: "loop", body: body, pos: t.pos(x)})
	case *ast.RangeStmt:
		out := t.expr(x.X)
		var body []*ir
		if v, ok := x.Value.(*ast.Ident); ok && v != nil && strings.HasSuffix(exprStr(x.X), ".crlRepository") {
			t.entryVars[v.Name] = "shared"
			body = append(body, &ir{kind: "pick", pos: t.pos(x)})
		}
		t.inLoop++
		body = append(body, t.stmts(x.Body.List, ds)...)
		t.inLoop--
		if trivial(body) {
			return out
		}
		return append(out, &ir{kind: "loop", body: body, pos: t.pos(x)})
	case *ast.SelectStmt:
		// all channel operands are evaluated on entry, then one clause runs
		var out []*ir
		var alts [][]*ir
		for _, cl := range x.Body.List {
			cc := cl.(*ast.CommClause)
			switch c := cc.Comm.(type) {
			case nil:
			case *ast.ExprStmt:
				out = append(out, t.expr(c.X)...)
			case *ast.AssignStmt:
				for _, r := range c.Rhs {
					out = append(out, t.expr(r)...)
				}
			default:
				fail("%s: unsupported select clause", t.pos(cc))
			}
		}
		for _, cl := range x.Body.List {
			alts = append(alts, t.stmts(cl.(*ast.CommClause).Body, ds))
		}
		return append(out, &ir{kind: "alt", alts: alts, pos: t.pos(x)})
	case *ast.BranchStmt:
		if x.Label != nil || t.inLoop == 0 {
			fail("%s: unsupported branch statement", t.pos(x))
		}
		switch x.Tok {
		case token.BREAK:
			return []*ir{{kind: "break", pos: t.pos(x)}}
		case token.CONTINUE:
			return []*ir{{kind: "continue", pos: t.pos(x)}}
		}
		fail("%s: unsupported branch statement", t.pos(x))
	case *ast.BlockStmt:
		return t.stmts(x.List, ds)
	case *ast.EmptyStmt:
		return nil
	}
	fail("%s: %s: statement shape %T is not supported by the lock translator", t.pos(s), t.f.name, s)
	return nil
}

// literal translates a function literal that runs in place (deferred or passed as a callback):
// its own returns end the literal, so its body becomes alt[body-paths] with ret mapped to fallthrough.
func (t *ftrans) literal(fl *ast.FuncLit) []*ir {
	save := t.inLoop
	t.inLoop = 0
	ds := &deferStack{}
	body := t.stmts(fl.Body.List, ds)
	body = append(body, t.exit(ds.items, t.pos(fl.Body))...)
	t.inLoop = save
	if !containsFacts(body) {
		return nil
	}
	// a loop that runs the body once: `ret` inside becomes `break`
	return []*ir{{kind: "loop1", body: retToBreak(body), pos: t.pos(fl)}}
}

func (t *ftrans) literalNamed(fl *ast.FuncLit) []*ir { return t.funcBody(fl.Body) }

// funcBody: the statements, then the implicit exit with the defers registered on the fall-through path
func (t *ftrans) funcBody(b *ast.BlockStmt) []*ir {
	ds := &deferStack{}
	body := t.stmts(b.List, ds)
	if terminates(body) {
		return body
	}
	p := t.g.c.fset.Position(b.Rbrace)
	return append(body, t.exit(ds.items, fmt.Sprintf("%s:%d", t.f.file, p.Line))...)
}

func containsFacts(list []*ir) bool {
	for _, n := range list {
		switch n.kind {
		case "ret", "break", "continue":
		case "alt":
			for _, a := range n.alts {
				if containsFacts(a) {
					return true
				}
			}
		case "loop", "loop1":
			if containsFacts(n.body) {
				return true
			}
		default:
			return true
		}
	}
	return false
}

func retToBreak(list []*ir) []*ir {
	var out []*ir
	for _, n := range list {
		c := *n
		switch n.kind {
		case "ret":
			c.kind = "break"
		case "alt":
			c.alts = nil
			for _, a := range n.alts {
				c.alts = append(c.alts, retToBreak(a))
			}
		case "loop", "loop1":
			// an inner loop captures break; a ret inside it cannot be expressed
			if hasRet(n.body) {
				fail("%s: return inside a loop inside a function literal", n.pos)
			}
		}
		out = append(out, &c)
	}
	return out
}

func hasRet(list []*ir) bool {
	for _, n := range list {
		if n.kind == "ret" {
			return true
		}
		for _, a := range n.alts {
			if hasRet(a) {
				return true
			}
		}
		if hasRet(n.body) {
			return true
		}
	}
	return false
}

// callee resolves a call to one of the translated functions ("" = not one of them).
func (t *ftrans) callee(call *ast.CallExpr) string {
	switch f := call.Fun.(type) {
	case *ast.Ident:
		if _, ok := t.g.funcs[f.Name]; ok {
			return f.Name
		}
	case *ast.SelectorExpr:
		x := exprStr(f.X)
		if x == t.f.recv && t.f.typ != "" {
			if _, ok := t.g.funcs[t.f.typ+"."+f.Sel.Name]; ok {
				return t.f.typ + "." + f.Sel.Name
			}
		}
		if t.f.typ == "CRLRevocationChecker" && x == t.f.recv+".crlRepository" {
			if _, ok := t.g.funcs["Repository."+f.Sel.Name]; ok {
				return "Repository." + f.Sel.Name
			}
			fail("%s: call of unknown repository method %s", t.pos(call), f.Sel.Name)
		}
		if x == "crlrepository" && f.Sel.Name == "NewCRLRepository" {
			return "NewCRLRepository"
		}
	}
	return ""
}

func (t *ftrans) assign(x *ast.AssignStmt) []*ir {
	var out []*ir
	for _, r := range x.Rhs {
		out = append(out, t.exprCtx(r, "rhs")...)
	}
	// classify new variables
	if len(x.Rhs) == 1 {
		if id, ok := x.Lhs[0].(*ast.Ident); ok {
			switch r := x.Rhs[0].(type) {
			case *ast.CallExpr:
				if c := t.callee(r); c != "" && t.g.retEntry[c] {
					t.entryVars[id.Name] = "shared"
					out = append(out, &ir{kind: "pick", pos: t.pos(x)})
				}
				if strings.HasSuffix(exprStr(r.Fun), ".Factory.CreateStore") {
					t.stores[id.Name] = "temp"
				}
			case *ast.IndexExpr:
				if strings.HasSuffix(exprStr(r.X), ".crlRepository") {
					t.entryVars[id.Name] = "shared"
					out = append(out, &ir{kind: "pick", pos: t.pos(x)})
				}
			case *ast.CompositeLit:
				if exprStr(r.Type) == "Entry" {
					t.entryVars[id.Name] = "fresh"
				}
			case *ast.SelectorExpr:
				if eid, ok := r.X.(*ast.Ident); ok && r.Sel.Name == "CRLStore" && t.entryVars[eid.Name] != "" {
					t.stores[id.Name] = t.entryVars[eid.Name]
					if t.stores[id.Name] == "fresh" {
						t.stores[id.Name] = "temp"
					}
				}
			}
		}
	}
	for _, l := range x.Lhs {
		out = append(out, t.lhs(l)...)
	}
	return out
}

func (t *ftrans) lhs(l ast.Expr) []*ir {
	switch x := l.(type) {
	case *ast.Ident:
		if x.Name == "workDirsInUse" {
			return []*ir{t.fact("wr", "workDirsInUse", "", x)}
		}
		return nil
	case *ast.IndexExpr:
		out := t.expr(x.Index)
		if f := t.fieldOf(x.X); f != "" {
			return append(out, t.fact("wr", f, "", x))
		}
		return append(out, t.expr(x.X)...)
	case *ast.SelectorExpr:
		if f := t.fieldOf(x); f != "" {
			if f == "skip" {
				return nil
			}
			return []*ir{t.fact("wr", f, "", x)}
		}
		return t.expr(x.X)
	case *ast.StarExpr:
		return t.expr(x.X)
	}
	fail("%s: unsupported assignment target %s", t.pos(l), exprStr(l))
	return nil
}

// fieldOf maps a selector / identifier to a tracked field class ("" = untracked, "skip" = fresh object).
func (t *ftrans) fieldOf(e ast.Expr) string {
	switch x := e.(type) {
	case *ast.Ident:
		if x.Name == "workDirsInUse" {
			return "workDirsInUse"
		}
	case *ast.SelectorExpr:
		id, ok := x.X.(*ast.Ident)
		if !ok {
			if t.g.entryField[x.Sel.Name] && x.Sel.Name != "CRLStore" {
				fail("%s: entry field %s reached through %s", t.pos(x), x.Sel.Name, exprStr(x.X))
			}
			return ""
		}
		if id.Name == t.f.recv && t.f.typ == "Repository" && x.Sel.Name == "crlRepository" {
			return "repoMap"
		}
		if id.Name == t.f.recv && t.f.typ == "CRLRevocationChecker" {
			switch x.Sel.Name {
			case "lastCrlUpdateFinishTime", "crlUpdateStop", "crlUpdateTicker":
				return "checker." + x.Sel.Name
			}
		}
		if _, isEntry := t.entryVars[id.Name]; isEntry && t.g.entryField[x.Sel.Name] {
			if x.Sel.Name == "entryLock" {
				fail("%s: entry lock used as a value", t.pos(x))
			}
			if !t.useEntry(id) {
				return "skip"
			}
			return "entry." + x.Sel.Name
		}
		if t.g.entryField[x.Sel.Name] && id.Name != "processor" && id.Name != "newEntry" {
			// a selector named like an entry field on something that is not a known entry variable
			if x.Sel.Name != "CRLStore" {
				fail("%s: %s.%s: not a known entry variable", t.pos(x), id.Name, x.Sel.Name)
			}
		}
	}
	return ""
}

func (t *ftrans) expr(e ast.Expr) []*ir { return t.exprCtx(e, "") }

// exprCtx collects, in evaluation order, the tracked reads and the calls of translated functions.
func (t *ftrans) exprCtx(e ast.Expr, ctxKind string) []*ir {
	switch x := e.(type) {
	case nil:
		return nil
	case *ast.Ident:
		if x.Name == "workDirsInUse" {
			return []*ir{t.fact("rd", "workDirsInUse", "", x)}
		}
		return nil
	case *ast.BasicLit:
		return nil
	case *ast.ParenExpr:
		return t.expr(x.X)
	case *ast.StarExpr:
		return t.expr(x.X)
	case *ast.UnaryExpr:
		return t.expr(x.X)
	case *ast.BinaryExpr:
		// entry.CRLStore == nil is a plain read of the field
		return append(t.exprCtx(x.X, "cmp"), t.exprCtx(x.Y, "cmp")...)
	case *ast.IndexExpr:
		return append(t.expr(x.X), t.expr(x.Index)...)
	case *ast.SliceExpr:
		return append(append(append(t.expr(x.X), t.expr(x.Low)...), t.expr(x.High)...), t.expr(x.Max)...)
	case *ast.TypeAssertExpr:
		return t.expr(x.X)
	case *ast.KeyValueExpr:
		return t.expr(x.Value)
	case *ast.CompositeLit:
		var out []*ir
		for _, el := range x.Elts {
			out = append(out, t.expr(el)...)
		}
		return out
	case *ast.FuncLit:
		return t.literal(x)
	case *ast.SelectorExpr:
		if f := t.fieldOf(x); f != "" {
			if f == "skip" {
				return nil
			}
			if f == "entry.CRLStore" && ctxKind != "cmp" && ctxKind != "rhs" && ctxKind != "recv" {
				fail("%s: the entry's store escapes (%s)", t.pos(x), ctxKind)
			}
			if f == "entry.CRLLoader" && ctxKind != "recv" {
				fail("%s: the entry's loader escapes", t.pos(x))
			}
			return []*ir{t.fact("rd", f, "", x)}
		}
		return t.expr(x.X)
	case *ast.CallExpr:
		return t.call(x)
	case *ast.ArrayType, *ast.MapType, *ast.InterfaceType, *ast.ChanType, *ast.StructType, *ast.FuncType:
		return nil
	}
	fail("%s: expression shape %T is not supported by the lock translator", t.pos(e), e)
	return nil
}

func (t *ftrans) call(x *ast.CallExpr) []*ir {
	if se, ok := x.Fun.(*ast.SelectorExpr); ok {
		switch se.Sel.Name {
		case "Lock", "RLock", "Unlock", "RUnlock":
			if _, isLock := t.lockOf(se.X); isLock {
				fail("%s: lock operation inside an expression", t.pos(x))
			}
		}
	}
	if strings.HasPrefix(exprStr(x), "verifhook.Hit(") {
		return nil
	}
	var out []*ir
	// builtin delete(map, key) writes the map
	if id, ok := x.Fun.(*ast.Ident); ok && id.Name == "delete" && len(x.Args) == 2 {
		out = append(out, t.expr(x.Args[1])...)
		if f := t.fieldOf(x.Args[0]); f != "" {
			return append(out, t.fact("wr", f, "", x))
		}
		return append(out, t.expr(x.Args[0])...)
	}
	// method call on the entry's store / loader, or on an alias of the store
	if se, ok := x.Fun.(*ast.SelectorExpr); ok {
		kind := ""
		if inner, ok := se.X.(*ast.SelectorExpr); ok {
			if f := t.fieldOf(inner); f == "entry.CRLStore" || f == "entry.CRLLoader" {
				out = append(out, t.exprCtx(inner, "recv")...)
				kind = f
			} else if f == "skip" {
				kind = "fresh"
			}
		} else if id, ok := se.X.(*ast.Ident); ok && t.stores[id.Name] == "shared" {
			kind = "entry.CRLStore"
		}
		if kind == "entry.CRLStore" || kind == "entry.CRLLoader" {
			for _, a := range x.Args {
				out = append(out, t.expr(a)...)
			}
			if kind == "entry.CRLStore" {
				mut, known := t.g.storeMut[se.Sel.Name]
				if !known {
					fail("%s: unknown store method %s", t.pos(x), se.Sel.Name)
				}
				if mut {
					return append(out, t.fact("wr", "entry.storeContent", se.Sel.Name, x))
				}
				return append(out, t.fact("rd", "entry.storeContent", se.Sel.Name, x))
			}
			mut, known := t.g.loaderMut[se.Sel.Name]
			if !known {
				fail("%s: unknown loader method %s", t.pos(x), se.Sel.Name)
			}
			if mut {
				return append(out, t.fact("wr", "entry.loaderState", se.Sel.Name, x))
			}
			return out
		}
		if kind == "fresh" {
			for _, a := range x.Args {
				out = append(out, t.expr(a)...)
			}
			return out
		}
	}
	callee := t.callee(x)
	if callee == "" {
		out = append(out, t.expr(x.Fun)...)
	}
	for _, a := range x.Args {
		out = append(out, t.expr(a)...)
	}
	if callee == "" {
		return out
	}
	// bind the callee's entry / store parameters
	cf := t.g.funcs[callee]
	bound := false
	if cf.fd.Type.Params != nil {
		i := 0
		for _, p := range cf.fd.Type.Params.List {
			for _, n := range p.Names {
				if i < len(x.Args) {
					switch exprStr(p.Type) {
					case "*Entry":
						id, ok := x.Args[i].(*ast.Ident)
						if !ok || t.entryVars[id.Name] == "" {
							fail("%s: entry argument of %s is not an entry variable", t.pos(x), callee)
						}
						if t.entryVars[id.Name] == "fresh" {
							fail("%s: a not yet published entry is passed to %s", t.pos(x), callee)
						}
						t.useEntry(id)
						bound = true
					case "crlstore.CRLStore":
						want := storeParams[callee+"/"+n.Name]
						id, ok := x.Args[i].(*ast.Ident)
						if !ok || t.stores[id.Name] != want {
							fail("%s: store argument of %s must be a %s store", t.pos(x), callee, want)
						}
					}
				}
				i++
			}
		}
	}
	return append(out, &ir{kind: "call", a: callee, pos: t.pos(x), entry: bound})
}

// ---- inlining and lowering to a CFG ---------------------------------------------------------

type cnode struct {
	instr string
	succ  []int
	pos   string
	held  []string
	seen  bool
}

type cfg struct {
	g         *lockGen
	progIndex map[string]int
	name      string
	nodes     []*cnode
	entry     int
}

func (b *cfg) add(instr, pos string, succ []int) int {
	b.nodes = append(b.nodes, &cnode{instr: instr, pos: pos, succ: succ})
	return len(b.nodes) - 1
}

// seq lowers list so that control continues at next; ret jumps to retTo, break/continue to brk/cont.
func (b *cfg) seq(list []*ir, next, retTo, brk, cont int, stack []string) int {
	for i := len(list) - 1; i >= 0; i-- {
		n := list[i]
		switch n.kind {
		case "acq":
			next = b.add(fmt.Sprintf(".acq %d .%s", idx(lockNames, n.a), n.b), n.pos, []int{next})
		case "rel":
			next = b.add(fmt.Sprintf(".rel %d .%s", idx(lockNames, n.a), n.b), n.pos, []int{next})
		case "rd":
			next = b.add(fmt.Sprintf(".rd %d", idx(fieldNames, n.a)), n.pos, []int{next})
		case "wr":
			next = b.add(fmt.Sprintf(".wr %d", idx(fieldNames, n.a)), n.pos, []int{next})
		case "wrInit":
			// initialisation write: not a shared access (see initOnly)
		case "pick":
			next = b.add(".pick", n.pos, []int{next})
		case "spawn":
			pi, ok := b.progIndex[n.a]
			if !ok {
				fail("%s: goroutine %s is not one of the modelled thread programs", n.pos, n.a)
			}
			next = b.add(fmt.Sprintf(".spawn %d", pi), n.pos, []int{next})
		case "ret":
			next = retTo
		case "break":
			if brk < 0 {
				fail("%s: break outside a loop", n.pos)
			}
			next = brk
		case "continue":
			if cont < 0 {
				fail("%s: continue outside a loop", n.pos)
			}
			next = cont
		case "alt":
			var es []int
			for _, a := range n.alts {
				es = append(es, b.seq(a, next, retTo, brk, cont, stack))
			}
			next = b.add(".nop", n.pos, es)
		case "loop":
			head := b.add(".nop", n.pos, nil)
			body := b.seq(n.body, head, retTo, next, head, stack)
			b.nodes[head].succ = []int{body, next}
			next = head
		case "loop1":
			next = b.seq(n.body, next, retTo, next, -1, stack)
		case "call":
			for _, s := range stack {
				if s == n.a {
					fail("%s: recursion through %s", n.pos, n.a)
				}
			}
			if !b.g.hasFacts(n.a, map[string]bool{}) {
				continue
			}
			next = b.seq(b.g.funcs[n.a].body, next, next, -1, -1, append(append([]string{}, stack...), n.a))
		default:
			fail("locks: unknown ir kind %s", n.kind)
		}
	}
	return next
}

// finish computes the held annotation by forward dataflow, drops unreachable nodes, records nesting.
func (b *cfg) finish(entry int, nest map[[2]int]string) {
	type item struct {
		n    int
		held []string
	}
	work := []item{{entry, nil}}
	for len(work) > 0 {
		it := work[len(work)-1]
		work = work[:len(work)-1]
		n := b.nodes[it.n]
		if n.seen {
			if strings.Join(n.held, ",") != strings.Join(it.held, ",") {
				fail("%s: program %s reaches this point holding [%s] on one path and [%s] on another (Lock without matching Unlock on some path)",
					n.pos, b.name, strings.Join(n.held, ","), strings.Join(it.held, ","))
			}
			continue
		}
		n.seen = true
		n.held = it.held
		out := append([]string{}, it.held...)
		f := strings.Fields(n.instr)
		switch f[0] {
		case ".acq":
			var li int
			fmt.Sscan(f[1], &li)
			for _, h := range it.held {
				e := [2]int{idx(lockNames, strings.Split(h, "/")[0]), li}
				if _, ok := nest[e]; !ok {
					nest[e] = n.pos
				}
			}
			out = append([]string{lockNames[li] + "/" + f[2][1:]}, out...)
		case ".rel":
			var li int
			fmt.Sscan(f[1], &li)
			key := lockNames[li] + "/" + f[2][1:]
			found := false
			for k, h := range out {
				if h == key {
					out = append(out[:k], out[k+1:]...)
					found = true
					break
				}
			}
			if !found {
				fail("%s: program %s releases %s which is not held in that mode on this path (holding [%s])", n.pos, b.name, key, strings.Join(it.held, ","))
			}
		case "ret":
			if len(it.held) != 0 {
				fail("%s: program %s ends holding [%s] (Lock without matching Unlock on some path)", n.pos, b.name, strings.Join(it.held, ","))
			}
		}
		for _, s := range n.succ {
			work = append(work, item{s, out})
		}
	}
	// renumber reachable nodes
	remap := map[int]int{}
	var kept []*cnode
	for i, n := range b.nodes {
		if n.seen {
			remap[i] = len(kept)
			kept = append(kept, n)
		}
	}
	for _, n := range kept {
		for k, s := range n.succ {
			n.succ[k] = remap[s]
		}
		if n.instr == "ret" {
			n.instr = ".ret"
		}
	}
	b.nodes = kept
	b.entry = remap[entry]
}

func (b *cfg) positions() []string {
	var o []string
	for _, n := range b.nodes {
		o = append(o, n.pos)
	}
	return o
}
