#!/usr/bin/env python3
"""Regenerates /verif/MANIFEST.json from the table below (run after adding a property check)."""
import json, os
VERIF = os.path.dirname(os.path.dirname(os.path.abspath(__file__)))

BASE_NOTE = ("Trusted base: Lean 4.33.0 kernel, axioms propext/Classical.choice/Quot.sound only (audited per theorem on every run); "
             "translator tools/extract and correspondence harness (differential testing; generator quality bounds it); "
             "Go runtime, std-lib and third-party libraries are modelled, not verified (DESIGN.md §3).")

CLAIMED = {}
for _f in sorted(os.listdir(os.path.join(VERIF, "tools", "claims"))):
    if _f.endswith(".json"):
        _c = json.load(open(os.path.join(VERIF, "tools", "claims", _f)))
        _c["note"] = BASE_NOTE + " " + _c.get("note", "")
        CLAIMED[_f[:-5]] = _c

NOT_YET = "check not built yet in this round; planned (DESIGN.md §5)"

def main():
    props = [json.loads(l)["id"] for l in open(os.path.join(VERIF, "properties.jsonl"))]
    checks = []
    for pid in props:
        if pid not in CLAIMED:
            continue
        c = CLAIMED[pid]
        checks.append({
            "property_id": pid,
            "quick_cmd": "./check %s quick" % pid,
            "thorough_cmd": "./check %s thorough" % pid,
            "evidence_file": "/verif/evidence/%s.json" % pid,
            "replay_cmd_template": "./check %s quick --replay {path}" % pid,
            "engine": "lean4-proof+correspondence",
            "level_claimed": {"category": "proof", "text": c["text"], "design_ref": c["design_ref"]},
            "level_note": c["note"],
            "technique": c["technique"],
        })
    na = [{"property_id": p, "reason": NOT_YET} for p in props if p not in CLAIMED]
    m = {
        "version": 1,
        "setup_cmd": "./setup.sh",
        "hooks": {
            "guard": "verif",
            "enable": "go build -tags verif (harness module /verif/harness with `replace => /repo`)",
            "baseline_off_cmd": "cd /repo && go test -vet=off -count=1 ./...",
            "source_commits": [l.split()[0] for l in os.popen("git -C /repo log --format='%h %s' | grep ' verif:'").read().splitlines()],
            "add_only": True,
        },
        "engines": [
            {"name": "lean4-proof+correspondence", "path": "/verif/lean, /verif/tools/extract, /verif/harness, /verif/check",
             "serves_properties": [c["property_id"] for c in checks],
             "kind_free_text": "Lean 4 theorems over an executable model; model regenerated (translator) and differentially tied (line-protocol correspondence) to /repo on every run"},
        ],
        "checks": checks,
        "notes": "All checks go through ./check <id> <tier>; see DESIGN.md. known_findings.json lists genuine open defects (printed as KNOWN-FINDING).",
        "not_applicable": na,
    }
    json.dump(m, open(os.path.join(VERIF, "MANIFEST.json"), "w"), indent=1)

if __name__ == "__main__":
    main()
