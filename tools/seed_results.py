#!/usr/bin/env python3
"""Writes seeded/RESULTS.md from seeded/<id>/meta.json, seeded/<id>/result.json (outcome of the last `seed.py run`) and the
record of the FIRST run of each seeded defect against the checks as they were when the defect arrived (kept here by hand:
it is history, not something a later run can regenerate)."""
import json, os

VERIF = os.path.dirname(os.path.dirname(os.path.abspath(__file__)))

# outcome of the first run against the machinery as it was at that time:
#   input   = VIOLATION with a concrete failing input / history
#   oblig   = VIOLATION ... no-failing-input-found (translator / theorem / correspondence broke, search came back empty)
#   missed  = exit 0
FIRST = {
    "C01-a": "oblig", "C02-a": "input", "C03-a": "input", "C04-a": "oblig", "C05-a": "oblig", "C06-a": "input", "C07-a": "input",
    "C08-a": "oblig", "C09-a": "input", "C10-a": "input", "C11-a": "missed", "C12-a": "input", "C13-a": "input", "C14-a": "oblig",
    "C15-a": "oblig", "C16-a": "input", "C17-a": "oblig", "C18-a": "input", "C19-a": "input",
    "C01-b": "missed", "C02-b": "input", "C03-b": "input", "C04-b": "missed", "C05-b": "oblig", "C06-b": "input", "C07-b": "input",
    "C08-b": "oblig", "C09-b": "oblig", "C10-b": "input", "C11-b": "oblig", "C12-b": "input", "C13-b": "input", "C14-b": "input",
    "C15-b": "input", "C16-b": "missed", "C17-b": "input", "C18-b": "input", "C19-b": "input", "C20-b": "input",
    "C01-c": "input", "C02-c": "input", "C03-c": "oblig", "C04-c": "input", "C05-c": "input", "C06-c": "input", "C07-c": "oblig",
    "C08-c": "missed", "C09-c": "input", "C10-c": "oblig", "C11-c": "oblig", "C12-c": "input", "C13-c": "input", "C14-c": "input",
    "C15-c": "input", "C16-c": "missed", "C17-c": "missed", "C18-c": "input", "C19-c": "input", "C20-c": "input",
    # round d (generic flavour; first run against the machinery after rounds a-c, incl. the source fingerprints)
    "C01-d": "input", "C02-d": "oblig", "C03-d": "input", "C04-d": "oblig", "C05-d": "input", "C06-d": "input", "C07-d": "input",
    "C08-d": "input", "C09-d": "input", "C10-d": "input", "C11-d": "oblig", "C12-d": "input", "C13-d": "oblig", "C14-d": "input",
    "C15-d": "oblig", "C16-d": "oblig", "C17-d": "oblig", "C18-d": "input", "C19-d": "input", "C20-d": "oblig",
    # round e ("a second, less travelled place")
    "C02-e": "oblig", "C04-e": "input", "C11-e": "missed", "C13-e": "oblig", "C16-e": "input", "C17-e": "oblig", "C20-e": "input",
    "C03-e": "oblig", "C05-e": "oblig", "C07-e": "oblig", "C14-e": "input", "C18-e": "input", "C19-e": "input",
    # round f ("look at the glue")
    "C01-f": "oblig", "C02-f": "input", "C04-f": "oblig", "C08-f": "input", "C09-f": "input", "C11-f": "input", "C12-f": "input", "C16-f": "oblig",
    "C03-f": "oblig", "C05-f": "oblig", "C06-f": "oblig", "C10-f": "input", "C18-f": "input", "C19-f": "input",
    "C06-e": "input", "C09-e": "input", "C15-e": "oblig", "C01-e": "input", "C08-e": "input", "C10-e": "input", "C12-e": "input",
}

# what was strengthened because of the defect (empty = nothing needed)
STRENGTHENED = {
    "C01-a": "whole-validator stream in C01 (mode x OCSP scenario incl. cache x CRL source x list shape x encoding x serial width x backend)",
    "C04-a": "end-entity-as-signer constellations (single-certificate chains, issuer = leaf subject, AKI = leaf SKI); leaf re-issued without keyUsage and with the exact subject",
    "C05-a": "delegates without any EKU extension and with anyExtendedKeyUsage",
    "C08-a": "oracle: a known-but-unloaded location must load an acceptable document at the next run (C08/C16)",
    "C11-a": "directed history openings (refresh that drops serials, failed-then-good refresh, failing first loads, rejected-then-genuine, two issuers, foreign signer)",
    "C14-a": "issuer names made of the same attributes in another order / grouping / with a repeated attribute",
    "C15-a": "first-load failure histories for CDP-learned CRLs in both fetch modes",
    "C15-d": "(first run re-classified in session 5: the concrete-looking line it printed was the false alarm of DESIGN §10, last item; the change itself was only seen by the translator and the decision probe) stream of first-seen distribution points, one per interval/3, during which the lists in force must still be refreshed within the bound",
    "C17-a": "early abort on a live-heap ceiling and a wall-clock guard (the defect made the run take 46 min)",
    "C01-b": "negative serial numbers: C06 generator (entry serials with the high bit set), C01 whole-validator cells with a re-signed negative-serial certificate",
    "C04-b": "AKI naming the signer by serial only / with a URI issuer; oracle: the accepted signer must be identified by the CRL (name, key id or issuer+serial)",
    "C05-b": "responder id naming the issuer while an unauthorised embedded certificate signs (by name and by key hash)",
    "C08-b": "oracle: refresh after a failed verification once a connection presented the signer",
    "C09-b": "five CRLs in force with the fault on one of them, 24 handshakes per case (walk order)",
    "C11-b": "refresh scenarios with CRLs that carry no cRLNumber, the same thisUpdate or the same number (C01/C08/C11)",
    "C16-b": "provisioning step through the real checker code (hook VerifAddConfiguredUrls), restart + re-provision with other trusted signers, oracle on what a successful provisioning under verify means",
    "C03-c": "cells with a configuration that has no ocsp_config section",
    "C07-c": "structure-aware length lies: inner elements claiming 2^27..2^32 bytes inside honest outer lengths",
    "C08-c": "directed openings were aliased with the configuration rotation (kind 5 only ever met verify_log); the kind is drawn now",
    "C10-c": "distribution points whose http URL cannot be parsed (alone and next to a usable one)",
    "C11-c": "issuer names / serials that sloppy key construction confuses, through the real repository on both backends",
    "C16-c": "(same strengthening as C16-b)",
    "C17-c": "allocation volume (TotalAlloc) of the download phase on its own, per loader kind",
    "C02-d": "responder behaviour 'forged': a good answer signed by and embedding an EKU-less certificate of the same issuer",
    "C04-d": "directed history: verify_log, verified list, unverifiable list installed, restart under verify (disk)",
    "C16-d": "(same directed history as C04-d)",
    "C11-d": "confusable pairs with the separator inside the serial's octets",
    "C13-d": "the failed-verification state made to last (list signed by a key no chain contains) under 12 handshake goroutines and ticks",
    "C17-d": "a DER CRL without any 0x0A octet before its signature (1.2 million entries) and a fast HeapAlloc sampler without forced collections",
    "C20-d": "exclusivity scenario: refused Provision + Cleanup of the refused module must not release the holder's work_dir",
    "C02-e": "two issuers with rearranged names and one serial: the second certificate's revoked answer must not lose to the first one's cache entry",
    "C11-e": "issuer names of the same attributes in another order / grouping / with attributes crypto/x509 has no field for; fingerprints of ParseIssuerRDNSequence & co. (was outside every pattern)",
    "C13-e": "failed store swap vs Repository.Close vs lookup, 250 rounds with seeded microsecond jitter",
    "C03-e": "validators loaded from JSON whose configuration still lists crl_urls / crl_files, in every mode: in 'disabled' and 'ocsp_only' the location must see no request and the work directory must stay empty (at Provision, at a handshake, over two ticker periods)",
    "C05-e": "authority key identifier forms of the client certificate (key id, name+serial, URI+serial, serial alone, name alone, empty, wrong name) x a certificate that only shares the issuer's serial number (trusted responder certificate / second verified chain) signing the answer",
    "C07-e": "candidate search driven directly with hostile authority key identifiers (every subset of the three fields, every irregular GeneralName, wrong tags, truncations, garbage) x chain shapes; C04 matrix: name without serial, empty SEQUENCE",
    "C01-f": "issuer names that crypto/x509 would not write that way (CN first, one RDN, two OU RDNs, domainComponent, emailAddress, CN twice) x backend x CDP / crl_urls x DER / PEM on the whole validator",
    "C03-f": "the mode string parsed a second time on the same validator object (every ordered pair of documented modes): what it means must not depend on what the object meant before",
    "C05-f": "a non-strict validator that has seen an unauthentic / erroneous / malformed answer, then the issuer's genuine 'revoked' (same validator, within the cache lifetime) and a strict validator of the same process with the responder down",
    "C06-f": "unknown versions written as one content octet (0x02 0x03 0x7f 0x80 0xfe 0xff), with and without crlExtensions; the generator's 'version 255' was a two-octet INTEGER, which the reader does not take for a version field",
    "C04-f": "an end-entity that carries CA:TRUE and cRLSign (a sub-CA certificate presented as client certificate) signing the CRL fetched for it",
    "C16-f": "directed history + corpus: verify_log on disk, unverifiable first list, a genuine list no stored signer vouches for, a forged list, a connection presenting the genuine signer, restart under verify",
    "C15-e": "the run did not end (every refresh panicked or failed slowly, thousands of tick goroutines queued behind the refresh mutex and the harness waited behind them): bounded forced refresh before Close, a harness-wide deadline that writes out what was found and where the run is stuck",
    "C17-e": "heap peaks per phase: outside of the parsing phase (download, detection, first pass, fingerprinting, swap) the peak must not depend on N",
}

WORD = {"input": "caught, concrete input", "oblig": "caught, obligation only (no-failing-input-found)", "missed": "MISSED", None: "?"}


def main():
    rows = []
    sd = os.path.join(VERIF, "seeded")
    for name in sorted(os.listdir(sd)):
        d = os.path.join(sd, name)
        if not os.path.isdir(d):
            continue
        meta = json.load(open(os.path.join(d, "meta.json")))
        res = {}
        if os.path.exists(os.path.join(d, "result.json")):
            res = json.load(open(os.path.join(d, "result.json")))
        prop = meta["property"]
        final = {}
        for p, v in sorted(res.items()):
            if v["exit"] == 0:
                final[p] = "missed"
            elif any("no-failing-input-found" in l for l in v["lines"]):
                final[p] = "oblig"
            else:
                final[p] = "input"
        rows.append((name, prop, meta["summary"], meta["needs_to_manifest"], FIRST.get(name), final, STRENGTHENED.get(name, "")))
    out = ["# Seeded defects: which check catches which change", "",
           "Every row is a change to Gr33nbl00d/caddy-revocation-validator produced by a fresh sub-agent that saw only the text of one property and a",
           "scratch worktree, confirmed by the lead (`tools/seed.py confirm`: the demonstration passes on the unchanged tree, the baseline suite passes",
           "with the change, the demonstration fails with it) and run against the registered quick checks (`tools/seed.py run`: apply to /repo, run",
           "`./check <Cxx> quick`, undo). *First run* is the outcome against the machinery as it was when the change arrived; *now* is the outcome",
           "of the last run recorded in `seeded/<id>/result.json`. \"obligation only\" means the translator / a theorem / the correspondence broke",
           "but the search found no concrete failing input (VIOLATION … no-failing-input-found).", ""]
    n = len(rows)
    f_in = sum(1 for r in rows if r[4] == "input")
    f_ob = sum(1 for r in rows if r[4] == "oblig")
    f_mi = sum(1 for r in rows if r[4] == "missed")
    now_in = sum(1 for r in rows if r[5].get(r[1]) == "input")
    now_ob = sum(1 for r in rows if r[5].get(r[1]) == "oblig")
    now_mi = sum(1 for r in rows if r[5].get(r[1]) == "missed")
    out += ["%d seeded defects. First run: %d caught with a concrete input, %d caught by a broken obligation only, %d missed. Now (own property's check): %d / %d / %d."
            % (n, f_in, f_ob, f_mi, now_in, now_ob, now_mi), ""]
    out += ["| id | property | change (short) | first run | now (check: outcome) | strengthening it caused |", "|---|---|---|---|---|---|"]
    for name, prop, summ, needs, first, final, st in rows:
        short = summ.replace("|", "/").replace("\n", " ")
        if len(short) > 230:
            short = short[:227] + "..."
        fin = "; ".join("%s: %s" % (p, WORD[v]) for p, v in final.items()) or "not run"
        if json.load(open(os.path.join(sd, name, "meta.json"))).get("superseded"):
            fin = "superseded by a repair (see meta.json)"
        out.append("| %s | %s | %s | %s | %s | %s |" % (name, prop, short, WORD[first], fin, st))
    out += ["", "## What each change needs in order to manifest", ""]
    for name, prop, summ, needs, first, final, st in rows:
        out.append("* **%s** — %s" % (name, needs.replace("\n", " ")))
    open(os.path.join(sd, "RESULTS.md"), "w").write("\n".join(out) + "\n")
    print("wrote seeded/RESULTS.md:", n, "rows; now input/oblig/missed =", now_in, now_ob, now_mi)


if __name__ == "__main__":
    main()
