package main

// C12 — crash consistency of disk storage. A child process (this binary, see infra_disk.go) performs a first load or a
// refresh on the real validator and dies inside the k-th verifhook hit, for every k of the scenario; the parent then
// starts the real checker on what is left (origin unusable, crl_cdp_strict on), probes old-only / new-only / common /
// unlisted serials, lists work_dir, and compares with the Lean `disk` stream's prediction for that scenario and k.
// Implementation-side oracle: a location is treated as loaded only if what it answers is exactly one complete
// accepted CRL (old or new); nothing but the location's store is left in work_dir after startup.

import (
	"crypto/x509"
	"fmt"
	"math/big"
	"os"
	"path/filepath"
	"strings"
	"time"
)

func init() { register("C12", runC12) }

type c12Scenario struct {
	Op      string // first | refresh
	SigMode string // verify | verify_log | none
	Origin  string // doc | badsig | truncated
}

func (s c12Scenario) name() string { return s.Op + "/" + s.SigMode + "/" + s.Origin }

var (
	c12Old    = []int64{10, 11, 14}
	c12New    = []int64{11, 12, 15}
	c12Probes = []int64{10, 12, 11, 99} // old-only, new-only, common, unlisted
)

func c12Bigs(l []int64) []*big.Int {
	var o []*big.Int
	for _, x := range l {
		o = append(o, big.NewInt(x))
	}
	return o
}

func c12Csv(l []int64) string {
	var o []string
	for _, x := range l {
		o = append(o, fmt.Sprint(x))
	}
	return strings.Join(o, ",")
}

type c12Case struct {
	r      *Run
	sc     c12Scenario
	ca     *CA
	origin *Origin
	path   string
	leaf   *Leaf
	probes []*Leaf
	newDER []byte
	oldDER []byte
}

func c12NewCase(r *Run, ca *CA, origin *Origin, sc c12Scenario, id string) *c12Case {
	c := &c12Case{r: r, sc: sc, ca: ca, origin: origin, path: "/c12/" + id}
	cdp := []string{origin.URL(c.path)}
	c.leaf = ca.IssueLeaf(LeafOpts{CDP: cdp, Serial: big.NewInt(7777)})
	for _, p := range c12Probes {
		c.probes = append(c.probes, ca.IssueLeaf(LeafOpts{CDP: cdp, Serial: big.NewInt(p)}))
	}
	c.oldDER = ca.MakeCRL(CRLOpts{Serials: c12Bigs(c12Old), Number: 1})
	der := ca.MakeCRL(CRLOpts{Serials: c12Bigs(c12New), Number: 2})
	switch sc.Origin {
	case "badsig":
		der = append([]byte{}, der...)
		der[len(der)-1] ^= 1
	case "truncated":
		// damage the third revoked entry (its serial INTEGER becomes an ill-formed element, all lengths stay): the
		// reader fails there, after the meta record and two entries have been written to the staged store
		der = append([]byte{}, der...)
		der[c12CutPoint(der)] = 0x05
	}
	c.newDER = der
	return c
}

// c12CutPoint finds a position inside the third revoked entry (serial 15 = 0x0f encoded as INTEGER 02 01 0f).
func c12CutPoint(der []byte) int {
	// the entry is SEQUENCE { INTEGER serial, UTCTime … }: 30 xx 02 01 <serial> 17 0d
	for i := 2; i+5 <= len(der); i++ {
		if der[i-2] == 0x30 && der[i] == 0x02 && der[i+1] == 0x01 && der[i+2] == byte(c12New[2]) && der[i+3] == 0x17 {
			return i
		}
	}
	panic("c12: third entry not found in the CRL")
}

func (c *c12Case) spec(wd string, dieAt int) C12Spec {
	return C12Spec{WorkDir: wd, SigMode: c.sc.SigMode, LeafDER: fmt.Sprintf("%x", c.leaf.Cert.Raw), CADER: fmt.Sprintf("%x", c.ca.Cert.Raw),
		Op: c.sc.Op, DieAt: dieAt}
}

// prepare returns a fresh work_dir in the state the operation starts from, and points the origin at the new document.
func (c *c12Case) prepare() (string, error) {
	wd := scratchDir("c12wd")
	if c.sc.Op == "refresh" {
		c.origin.SetBytes(c.path, c.oldDER)
		v, err := Provision(VCfg{Mode: "crl_only", WorkDir: wd, Storage: "disk", SigMode: c.sc.SigMode, CDPStrict: true, NoOCSPConfig: true})
		if err != nil {
			return wd, err
		}
		st, e := v.V.VerifCRLChecker().IsRevoked(c.leaf.Cert, [][]*x509.Certificate{{c.leaf.Cert, c.ca.Cert}})
		v.Close()
		if e != nil || st == nil || st.Revoked {
			return wd, fmt.Errorf("preparing the old CRL: %v", e)
		}
	}
	c.origin.SetBytes(c.path, c.newDER)
	return wd, nil
}

type c12Obs struct {
	img     string
	loaded  bool
	probes  string
	ls      string
	listing []string
}

// observe: crash image, then restart of the real checker with the origin unusable and strict on, probes, listing.
func (c *c12Case) observe(wd string) c12Obs {
	var o c12Obs
	live, tmpf, tmpd := 0, 0, 0
	es, _ := os.ReadDir(wd)
	var id string
	for _, e := range es {
		switch {
		case diskHex64.MatchString(e.Name()) && e.IsDir():
			live++
			id = e.Name()
		case strings.HasPrefix(e.Name(), "crl_") && strings.HasSuffix(e.Name(), "_tmp") && e.IsDir():
			tmpd++
		case strings.HasPrefix(e.Name(), "crl_") && strings.HasSuffix(e.Name(), "_tmp"):
			tmpf++
		}
	}
	o.img = fmt.Sprintf("live:%d,tmpf:%d,tmpd:%d", live, tmpf, tmpd)
	// origin unusable: what it sends is no CRL (no retries are spent on it, unlike a refused connection)
	c.origin.Set(c.path, Behaviour{Kind: "status", Status: 404, Body: []byte("gone")})
	v, err := Provision(VCfg{Mode: "crl_only", WorkDir: wd, Storage: "disk", SigMode: c.sc.SigMode, CDPStrict: true, NoOCSPConfig: true})
	if err != nil {
		o.probes = "provision-failed:" + err.Error()
		return o
	}
	defer v.Close()
	checker := v.V.VerifCRLChecker()
	// barrier: the ticker goroutine's initial update pass is over before the probes add the entry, so that no
	// refresh of the restarted checker is in flight while work_dir is listed
	checker.VerifUpdateCRLs(false)
	var pr []string
	for _, p := range c.probes {
		st, e := checker.IsRevoked(p.Cert, [][]*x509.Certificate{{p.Cert, c.ca.Cert}})
		switch classify(st != nil && st.Revoked, e) {
		case "revoked":
			pr = append(pr, "R")
		case "good":
			pr = append(pr, "G")
		default:
			pr = append(pr, "N")
		}
	}
	o.probes = strings.Join(pr, "")
	for _, e := range checker.VerifRepository().VerifEntries() {
		if e.Loaded {
			o.loaded = true
		}
	}
	var names []string
	for _, n := range listDir(wd) {
		if id == "" && diskHex64.MatchString(n) {
			id = n
		}
		if n == id {
			names = append(names, "ID")
		} else {
			names = append(names, hexs([]byte(n)))
		}
	}
	o.listing = names
	o.ls = strings.Join(diskSortedCopy(names), ",")
	return o
}

func (o c12Obs) line() string {
	return fmt.Sprintf("img=%s loaded=%v probes=%s ls=%s", o.img, o.loaded, o.probes, o.ls)
}

// oracle: the statement of C12 on the implementation's observations alone.
func (c *c12Case) oracle(o c12Obs, where string) {
	oldAns, newAns := "RGRG", "GRRG"
	sig := fmt.Sprintf("C12 %s/%s", c.sc.Op, c.sc.Origin)
	accepts := c.sc.Origin == "doc" || (c.sc.Origin == "badsig" && c.sc.SigMode != "verify")
	replay := map[string]interface{}{"scenario": c.sc, "crash": where, "observation": o.line()}
	if strings.HasPrefix(o.probes, "provision-failed") {
		c.r.Violate(sig+" restart-failed", fmt.Sprintf("%s %s: %s", c.sc.name(), where, o.probes), replay)
		return
	}
	switch {
	case !o.loaded && o.probes == "NNNN":
	case o.loaded && c.sc.Op == "refresh" && o.probes == oldAns:
	case o.loaded && accepts && o.probes == newAns:
	default:
		what := "partial-or-unaccepted-data-consulted"
		if o.loaded && o.probes == newAns && !accepts {
			what = "rejected-crl-in-force-after-restart"
		}
		c.r.Violate(sig+" "+what, fmt.Sprintf("%s crash at %s: after restart loaded=%v, probes old-only/new-only/common/unlisted = %s "+
			"(complete old = %s, complete new = %s, not loaded = NNNN)", c.sc.name(), where, o.loaded, o.probes, oldAns, newAns), replay)
	}
	if o.ls != "ID" {
		c.r.Violate("C12 residue-after-startup", fmt.Sprintf("%s crash at %s: work_dir after startup holds %v", c.sc.name(), where, o.listing), replay)
	}
}

func (c *c12Case) modelScn(origin string) string {
	sig := "true"
	if c.sc.Origin == "badsig" {
		sig = "false"
	}
	old := "-"
	if c.sc.Op == "refresh" {
		old = c12Csv(c12Old)
	}
	return fmt.Sprintf("disk scn %s %s old=%s new=%s sig=%s origin=%s", c.sc.Op, c.sc.SigMode, old, c12Csv(c12New), sig, origin)
}

func runC12(r *Run) {
	r.rule = "every verifhook hit of {first load, refresh} x {accepted, bad signature under verify, bad signature under verify_log, " +
		"truncated CRL} is a crash point (child process dies inside the hit); non-trivial = crash strictly inside the operation " +
		"(after its first and before its last hit); thorough adds SIGKILL at random instants"
	ca := NewCA(CAOpts{CN: "C12 CA", EC: true})
	origin := NewOrigin()
	defer origin.Close()
	scs := []c12Scenario{
		{"first", "verify", "doc"}, {"first", "verify", "badsig"}, {"refresh", "verify", "doc"}, {"refresh", "verify", "badsig"},
		{"first", "verify", "truncated"}, {"refresh", "verify", "truncated"}, {"refresh", "verify_log", "badsig"}, {"first", "none", "doc"},
	}
	type job struct {
		sc  c12Scenario
		k   int // 0 = complete run
		n   int
		hit string
	}
	// pass 1: complete runs, one per scenario: hit sequence (compared with the model) and number of crash points
	hitsOf := make([][]string, len(scs))
	ran := make([]bool, len(scs))
	originOf := make([]string, len(scs))
	fullObs := make([]c12Obs, len(scs))
	parallel(len(scs), 8, func(i int) {
		c := c12NewCase(r, ca, origin, scs[i], fmt.Sprintf("full-%d", i))
		wd, err := c.prepare()
		if err != nil {
			r.Violate("C12 harness-prepare-failed", err.Error(), scs[i])
			return
		}
		res := c12RunChild(c.spec(wd, 0), 0)
		if res.Err != "" || res.Done == "" {
			r.Violate("C12 child-failed", fmt.Sprintf("%s: %s done=%q", scs[i].name(), res.Err, res.Done), scs[i])
			return
		}
		hitsOf[i] = res.Hits
		ran[i] = true
		originOf[i] = "doc"
		if scs[i].Origin == "truncated" {
			puts := 0
			for _, h := range res.Hits {
				if strings.HasPrefix(h, "ldb.put.") {
					puts++
				}
			}
			originOf[i] = fmt.Sprintf("broken:%d", puts)
		}
		fullObs[i] = c.observe(wd)
	})
	var jobs []job
	for i, sc := range scs {
		if !ran[i] {
			continue
		}
		c := c12NewCase(r, ca, origin, sc, "x")
		r.Op(c.modelScn(originOf[i]), "hits="+strings.Join(hitsOf[i], ","))
		r.Op("disk full p="+c12Csv(c12Probes), fullObs[i].line())
		c.oracle(fullObs[i], "end")
		r.Eval(sc.name()+"/full", true)
		r.Count("scenario:" + sc.name())
		r.Count("outcome:" + fullObs[i].probes)
		for k := 1; k <= len(hitsOf[i]); k++ {
			jobs = append(jobs, job{sc, k, len(hitsOf[i]), hitsOf[i][k-1]})
		}
	}
	// pass 2: every crash point
	obs := make([]c12Obs, len(jobs))
	okJob := make([]bool, len(jobs))
	parallel(len(jobs), 16, func(j int) {
		jb := jobs[j]
		c := c12NewCase(r, ca, origin, jb.sc, fmt.Sprintf("k-%d", j))
		wd, err := c.prepare()
		if err != nil {
			r.Violate("C12 harness-prepare-failed", err.Error(), jb.sc)
			return
		}
		res := c12RunChild(c.spec(wd, jb.k), 0)
		if res.Err != "" || res.Done != "" || len(res.Hits) != jb.k || res.Hits[jb.k-1] != jb.hit {
			r.Violate("C12 child-did-not-die-at-hit", fmt.Sprintf("%s k=%d: err=%q done=%q hits=%v", jb.sc.name(), jb.k, res.Err, res.Done, res.Hits), jb.sc)
			return
		}
		obs[j] = c.observe(wd)
		okJob[j] = true
		os.RemoveAll(wd)
	})
	// emit in a fixed order: the model keeps one scenario at a time
	for i, sc := range scs {
		if !ran[i] {
			continue
		}
		c := c12NewCase(r, ca, origin, sc, "y")
		r.Op(c.modelScn(originOf[i]), "hits="+strings.Join(hitsOf[i], ","))
		for j, jb := range jobs {
			if jb.sc != sc || !okJob[j] {
				continue
			}
			where := fmt.Sprintf("hit %d/%d %s", jb.k, jb.n, jb.hit)
			r.Op(fmt.Sprintf("disk crash %d p=%s", jb.k, c12Csv(c12Probes)), obs[j].line())
			c.oracle(obs[j], where)
			r.Eval(fmt.Sprintf("%s/%d", sc.name(), jb.k), jb.k > 1 && jb.k < jb.n)
			r.Count("crash-at:" + jb.hit)
			r.Count("outcome:" + obs[j].probes)
			if j%7 == 0 {
				r.Sample(map[string]interface{}{"scenario": sc.name(), "crash": where, "after_restart": obs[j].line()})
			}
		}
	}
	if r.Thorough() {
		c12RandomKills(r, ca, origin, scs, originOf, hitsOf)
	}
}

// c12RandomKills: SIGKILL at random instants while the child (slowed down at every hit) works.
func c12RandomKills(r *Run, ca *CA, origin *Origin, scs []c12Scenario, originOf []string, hitsOf [][]string) {
	const perScenario = 60
	type kill struct {
		i     int
		delay time.Duration
	}
	var ks []kill
	for i := range scs {
		if originOf[i] == "" {
			continue
		}
		for n := 0; n < perScenario; n++ {
			ks = append(ks, kill{i, time.Duration(r.Rng.Intn(60000)) * time.Microsecond})
		}
	}
	obs := make([]c12Obs, len(ks))
	done := make([]bool, len(ks))
	parallel(len(ks), 16, func(j int) {
		c := c12NewCase(r, ca, origin, scs[ks[j].i], fmt.Sprintf("kill-%d", j))
		wd, err := c.prepare()
		if err != nil {
			return
		}
		sp := c.spec(wd, 0)
		sp.SlowUS = 2000
		sp.Announce = true
		res := c12RunChild(sp, ks[j].delay)
		if res.Err != "" {
			return
		}
		obs[j] = c.observe(wd)
		done[j] = true
		os.RemoveAll(wd)
	})
	for i, sc := range scs {
		if originOf[i] == "" {
			continue
		}
		c := c12NewCase(r, ca, origin, sc, "z")
		first := true
		for j, k := range ks {
			if k.i != i || !done[j] {
				continue
			}
			if first {
				r.Op(c.modelScn(originOf[i]), "hits="+strings.Join(hitsOf[i], ","))
				first = false
			}
			where := fmt.Sprintf("SIGKILL after %v", k.delay)
			r.Op(fmt.Sprintf("disk allowed p=%s obs=%v:%s", c12Csv(c12Probes), obs[j].loaded, obs[j].probes), "true")
			c.oracle(obs[j], where)
			r.Eval(fmt.Sprintf("%s/kill/%d", sc.name(), j), true)
			r.Count("kill-outcome:" + obs[j].probes)
		}
	}
}

var _ = filepath.Join
