package main

// Stream `ct`: the cache2go table itself (the library the OCSP checker keeps its answers in) against Crv/Cache.lean —
// random sequences of Add / Value / Delete / Exists / Count / Flush on a real table, some with a real wait after which
// the expiration check must have removed exactly the items with a short life span. A difference breaks the
// correspondence of the cache model (the find_* / exec_table_uniq theorems of Props/C14.lean are about that model).

import (
	"fmt"
	"strings"
	"time"

	"github.com/muesli/cache2go"
)

const (
	ctShortLifeMs = 250     // items meant to expire during a wait
	ctLongLifeMs  = 3600000 // items that outlive every run
	ctWaitMs      = 600
)

var ctTableSeq int

func c14TableStream(r *Run) {
	nPlain, nWait := 200, 10
	if r.Thorough() {
		nPlain, nWait = 10000, 60
	}
	for i := 0; i < nPlain+nWait; i++ {
		withWait := i >= nPlain
		ctTableSeq++
		table := cache2go.Cache(fmt.Sprintf("verif-ct-%d-%d", r.Seed, ctTableSeq))
		nOps := 3 + r.Rng.Intn(14)
		var ops, obs []string
		stalled := false
		segStart := time.Now()
		lives := map[int]int{} // key -> life span of the item currently expected (harness-side bookkeeping for the wait only)
		for j := 0; j < nOps; j++ {
			k := r.Rng.Intn(5)
			switch c := r.Rng.Intn(20); {
			case c < 7:
				life := []int{0, ctLongLifeMs, ctShortLifeMs}[r.Rng.Intn(3)]
				if !withWait && life == ctShortLifeMs {
					life = ctLongLifeMs
				}
				d := r.Rng.Intn(1000)
				table.Add(k, time.Duration(life)*time.Millisecond, d)
				lives[k] = life
				ops, obs = append(ops, fmt.Sprintf("a:%d:%d:%d", k, life, d)), append(obs, "ok")
			case c < 12:
				it, err := table.Value(k)
				o := "-"
				if err == nil {
					o = fmt.Sprintf("%d/%d", it.Data().(int), it.LifeSpan().Milliseconds())
				}
				ops, obs = append(ops, fmt.Sprintf("v:%d", k)), append(obs, o)
			case c < 15:
				_, err := table.Delete(k)
				delete(lives, k)
				ops, obs = append(ops, fmt.Sprintf("d:%d", k)), append(obs, b01(err == nil))
			case c < 17:
				ops, obs = append(ops, fmt.Sprintf("e:%d", k)), append(obs, b01(table.Exists(k)))
			case c < 19:
				ops, obs = append(ops, "c"), append(obs, fmt.Sprint(table.Count()))
			default:
				if r.Rng.Intn(3) == 0 {
					table.Flush()
					lives = map[int]int{}
					ops, obs = append(ops, "f"), append(obs, "ok")
				} else {
					ops, obs = append(ops, "c"), append(obs, fmt.Sprint(table.Count()))
				}
			}
			if withWait && (j == nOps/2 || j == nOps-1) {
				// the segment of in-memory operations must have been short compared with the short life span, otherwise an
				// item may have expired by itself at a moment the model (no time passes between operations) does not have
				if time.Since(segStart) > time.Duration(ctShortLifeMs/3)*time.Millisecond {
					stalled = true
					break
				}
				expect := 0
				for _, l := range lives {
					if l != ctShortLifeMs {
						expect++
					}
				}
				time.Sleep(ctWaitMs * time.Millisecond)
				for dl := time.Now().Add(5 * time.Second); table.Count() != expect && time.Now().Before(dl); {
					time.Sleep(20 * time.Millisecond)
				}
				for k, l := range lives {
					if l == ctShortLifeMs {
						delete(lives, k)
					}
				}
				ops, obs = append(ops, fmt.Sprintf("w:%d", ctWaitMs)), append(obs, "ok")
				ops, obs = append(ops, "c"), append(obs, fmt.Sprint(table.Count()))
				for q := 0; q < 5; q++ {
					ops, obs = append(ops, fmt.Sprintf("e:%d", q)), append(obs, b01(table.Exists(q)))
				}
				segStart = time.Now()
			}
		}
		table.Flush()
		if stalled {
			r.Count("ct:discarded (machine stalled inside a sequence with short-lived items)")
			continue
		}
		r.Op("ct "+strings.Join(ops, ";"), strings.Join(obs, ";"))
		if withWait {
			r.Count("ct:sequence with expiry waits")
		} else {
			r.Count("ct:sequence")
		}
		r.Eval("ct:"+strings.Join(ops, ";"), len(ops) >= 4)
	}
}
