package main

// C02 — OCSP soundness and AIA-strict semantics: the real OCSPRevocationChecker (provisioned through the validator,
// mode ocsp_only) against n scriptable responders; the responder's request log and the verdict are compared with the
// Lean model's request sequence and verdict, and the property's implications are evaluated on the implementation alone.

import (
	"crypto/x509"
	"crypto/x509/pkix"
	"encoding/asn1"
	"fmt"
	"math/big"
	"strings"

	"golang.org/x/crypto/ocsp"
)

func init() { register("C02", runC02) }

type c02Env struct {
	r      *Run
	abs    *AbsCtx
	rsp    *Responder
	ca     *CA
	sib    *CA // same subject name and SKI as ca, other key
	forger *CA // an end-entity certificate issued by ca without any extended key usage
	vals   map[string]*Validator
}

func c02Validator(strict bool, cacheDur string) *Validator {
	v, err := Provision(VCfg{Mode: "ocsp_only", NoCRLConfig: true, OCSPStrict: strict, OCSPCacheDur: cacheDur})
	must(err)
	return v
}

var c02Behaviours = []string{"good", "revoked", "unknown", "http500", "garbage", "wrong", "refused", "forged"}

// c02Script installs behaviour b for path on the responder; returns the model behaviour and whether requests are observable.
func (e *c02Env) script(path, b string, leaf *x509.Certificate, known []*x509.Certificate, rng interface {
	Intn(int) int
	Read([]byte) (int, error)
}) (beh string, observable bool, authentic string) {
	switch b {
	case "good", "revoked", "unknown":
		st := map[string]int{"good": ocsp.Good, "revoked": ocsp.Revoked, "unknown": ocsp.Unknown}[b]
		body := e.ca.OCSPResponse(OCSPOpts{Status: st, Serial: leaf.SerialNumber})
		e.rsp.SetFixed(path, RespScript{Kind: "bytes", Body: body})
		return e.abs.Abstract(body, known), true, b
	case "http500":
		body := []byte("<html><body>500 internal server error</body></html>")
		e.rsp.SetFixed(path, RespScript{Kind: "status", Status: 500, Body: body})
		return e.abs.Abstract(body, known), true, ""
	case "garbage":
		body := make([]byte, 40+rng.Intn(200))
		rng.Read(body)
		e.rsp.SetFixed(path, RespScript{Kind: "bytes", Body: body})
		return e.abs.Abstract(body, known), true, ""
	case "wrong":
		body := e.ca.OCSPResponse(OCSPOpts{Status: ocsp.Revoked, Serial: new(big.Int).Add(leaf.SerialNumber, big.NewInt(1))})
		e.rsp.SetFixed(path, RespScript{Kind: "bytes", Body: body})
		return e.abs.Abstract(body, known), true, ""
	case "forged":
		// a "good" answer for the right serial, signed by (and embedding) an ordinary certificate of the same issuer that carries
		// no extended key usage at all: issued by the CA, but not authorised to speak for it
		body := e.ca.OCSPResponse(OCSPOpts{Status: ocsp.Good, Serial: leaf.SerialNumber, Responder: e.forger.Cert, ResponderKey: e.forger.Key, EmbedCert: e.forger.Cert})
		e.rsp.SetFixed(path, RespScript{Kind: "bytes", Body: body})
		return e.abs.Abstract(body, append(append([]*x509.Certificate{}, known...), e.forger.Cert)), true, ""
	case "drop":
		e.rsp.SetFixed(path, RespScript{Kind: "drop"})
		return "E", true, ""
	}
	panic("unknown behaviour " + b)
}

type c02Case struct {
	N       int      `json:"n"`
	Beh     []string `json:"behaviours"`
	Scheme  []string `json:"schemes"`
	Strict  bool     `json:"strict"`
	Cache   bool     `json:"cache"`
	Chains  string   `json:"chains"` // "1", "2same", "sibfirst", "siblast"
	PerCand bool     `json:"per_candidate"`
}

func (c c02Case) key() string {
	return fmt.Sprintf("%s|%s|%v|%v|%s|%v", strings.Join(c.Beh, ","), strings.Join(c.Scheme, ","), c.Strict, c.Cache, c.Chains, c.PerCand)
}

func runC02(r *Run) {
	r.rule = "real OCSPRevocationChecker.IsRevoked vs model: every tuple of responder behaviours {good, revoked, unknown, HTTP 500+html, garbage, " +
		"valid response for another serial, connection refused} of length 0..3 (thorough: 0..4) x strict x cache duration {0, 1h} (with a second call), plus URL " +
		"scheme mixes (http, HTTP://, https to a plain listener, ldap://, ftp://, httpx://, empty) and issuer-candidate shapes (one chain, the same chain twice, " +
		"a sibling CA with equal name and key id first/last, answers depending on the candidate the request was built for); non-trivial = at least one URL passes the filter"
	e := &c02Env{r: r, abs: NewAbsCtx(), rsp: NewResponder(), vals: map[string]*Validator{}}
	defer e.rsp.Close()
	e.ca = NewCA(CAOpts{CN: "C02 CA", EC: true})
	e.sib = NewCA(CAOpts{CN: "C02 CA", EC: true, SKI: e.ca.Cert.SubjectKeyId})
	e.forger = NewCA(CAOpts{CN: "C02 ordinary certificate", EC: true, Parent: e.ca, NotCA: true})
	for _, strict := range []bool{false, true} {
		for _, cd := range []string{"", "1h"} {
			e.vals[fmt.Sprintf("%v/%s", strict, cd)] = c02Validator(strict, cd)
		}
	}
	defer func() {
		for _, v := range e.vals {
			v.Close()
		}
	}()

	c02TwoIssuers(e)

	var cases []c02Case
	maxN := 3
	if r.Thorough() {
		maxN = 4
	}
	var tuples func(n int, cur []string)
	tuples = func(n int, cur []string) {
		if n == 0 {
			for _, strict := range []bool{false, true} {
				for _, cache := range []bool{false, true} {
					sch := make([]string, len(cur))
					for i := range sch {
						sch[i] = "http"
					}
					cases = append(cases, c02Case{N: len(cur), Beh: append([]string{}, cur...), Scheme: sch, Strict: strict, Cache: cache, Chains: "1"})
				}
			}
			return
		}
		for _, b := range c02Behaviours {
			tuples(n-1, append(cur, b))
		}
	}
	for n := 0; n <= maxN; n++ {
		tuples(n, nil)
	}
	// scheme mixes: behaviour applies when the URL reaches the responder
	schemeLists := [][]string{
		{"ldap"}, {"ldap", "ldap"}, {"ftp"}, {"empty"}, {"https"}, {"HTTP"}, {"Https"}, {"httpx"},
		{"ldap", "http"}, {"http", "ldap"}, {"https", "http"}, {"ldap", "https"}, {"HTTP", "ldap", "http"},
		{"ldap", "HTTP"}, {"httpx", "http"}, {"ftp", "ldap", "empty"}, {"https", "ldap", "HTTP"}, {"LDAP", "hTTp"},
	}
	for _, sl := range schemeLists {
		for _, b := range []string{"good", "revoked", "garbage", "refused"} {
			for _, strict := range []bool{false, true} {
				for _, cache := range []bool{false, true} {
					beh := make([]string, len(sl))
					for i := range beh {
						beh[i] = b
					}
					cases = append(cases, c02Case{N: len(sl), Beh: beh, Scheme: sl, Strict: strict, Cache: cache, Chains: "1"})
				}
			}
		}
	}
	// candidate shapes
	nShape := 150
	if r.Thorough() {
		nShape = 1500
	}
	for i := 0; i < nShape; i++ {
		n := 1 + r.Rng.Intn(3)
		c := c02Case{N: n, Strict: r.Rng.Intn(2) == 0, Cache: r.Rng.Intn(2) == 0,
			Chains: []string{"2same", "sibfirst", "siblast"}[r.Rng.Intn(3)], PerCand: r.Rng.Intn(2) == 0}
		for j := 0; j < n; j++ {
			bs := append([]string{"drop", "drop"}, c02Behaviours...) // "drop": a fetch failure the responder log shows
			c.Beh = append(c.Beh, bs[r.Rng.Intn(len(bs))])
			c.Scheme = append(c.Scheme, "http")
		}
		cases = append(cases, c)
	}
	parallel(len(cases), 16, func(i int) { e.runCase(i, cases[i]) })
}

func (e *c02Env) runCase(idx int, c c02Case) {
	r := e.r
	rng := ocspRng(r.Seed*1000003 + int64(idx))
	prefix := fmt.Sprintf("/c02/%d/", idx)
	// URLs first (the leaf carries them)
	srvs := make([]OSrv, c.N)
	var urls []string
	for i := 0; i < c.N; i++ {
		path := fmt.Sprintf("%ss%d", prefix, i)
		s := OSrv{Beh: map[string]string{}}
		switch c.Scheme[i] {
		case "http":
			s.URL, s.Path, s.Observable = e.rsp.URL(path), path, true
		case "HTTP":
			s.URL, s.Path, s.Observable = "HTTP://"+e.rsp.Host()+path, path, true
		case "hTTp":
			s.URL, s.Path, s.Observable = "hTTp://"+e.rsp.Host()+path, path, true
		case "https":
			s.URL = "https://" + e.rsp.Host() + path
		case "Https":
			s.URL = "Https://" + e.rsp.Host() + path
		case "httpx":
			s.URL = "httpx://" + e.rsp.Host() + path
		case "ldap":
			s.URL = "ldap://" + e.rsp.Host() + path
		case "LDAP":
			s.URL = "LDAP://" + e.rsp.Host() + path
		case "ftp":
			s.URL = "ftp://" + e.rsp.Host() + path
		case "empty":
			s.URL = ""
		}
		if c.Scheme[i] == "http" && c.Beh[i] == "refused" {
			s.URL, s.Path, s.Observable = refusedURL(path), "", false
		}
		srvs[i] = s
		urls = append(urls, s.URL)
	}
	leaf := e.ca.IssueLeaf(LeafOpts{OCSP: urls})
	var chains [][]*x509.Certificate
	switch c.Chains {
	case "1":
		chains = [][]*x509.Certificate{{leaf.Cert, e.ca.Cert}}
	case "2same":
		chains = [][]*x509.Certificate{{leaf.Cert, e.ca.Cert}, {leaf.Cert, e.ca.Cert}}
	case "sibfirst":
		chains = [][]*x509.Certificate{{leaf.Cert, e.sib.Cert}, {leaf.Cert, e.ca.Cert}}
	case "siblast":
		chains = [][]*x509.Certificate{{leaf.Cert, e.ca.Cert}, {leaf.Cert, e.sib.Cert}}
	}
	known := []*x509.Certificate{e.ca.Cert, e.sib.Cert}
	pool := []*x509.Certificate{e.ca.Cert, e.sib.Cert, leaf.Cert, e.forger.Cert}
	firstAuth := ""  // status of the first authentic answer in contact order, "" if none
	anyHTTP := false // some URL passes the filter
	for i := range srvs {
		lower := strings.ToLower(srvs[i].URL)
		passes := strings.HasPrefix(lower, "http")
		if passes {
			anyHTTP = true
		}
		if srvs[i].Path == "" {
			srvs[i].Beh["*"] = "X"
			continue
		}
		b := c.Beh[i]
		if b == "refused" {
			b = "drop" // a URL that does reach the responder: the connection is closed without an answer
		}
		beh, _, auth := e.script(srvs[i].Path, b, leaf.Cert, known, rng)
		if c.PerCand && auth != "" {
			// the authentic answer is only given to requests built for the real CA; requests for the sibling get garbage
			caHash := issuerKeyHashHex(e.ca.Cert)
			body := e.ca.OCSPResponse(OCSPOpts{Status: map[string]int{"good": ocsp.Good, "revoked": ocsp.Revoked, "unknown": ocsp.Unknown}[auth], Serial: leaf.Cert.SerialNumber})
			junk := []byte("not for you")
			e.rsp.Set(srvs[i].Path, func(kh string) RespScript {
				if kh == caHash {
					return RespScript{Kind: "bytes", Body: body}
				}
				return RespScript{Kind: "bytes", Body: junk}
			})
			srvs[i].PerCert = []OSrvRule{{e.ca.Cert, e.abs.Abstract(body, known)}}
			srvs[i].Beh["*"] = "G"
		} else {
			srvs[i].Beh["*"] = beh
		}
		if auth != "" && firstAuth == "" && passes {
			firstAuth = auth
		}
	}
	cd := ""
	defMs := int64(0)
	if c.Cache {
		cd, defMs = "1h", 3600000
	}
	val := e.vals[fmt.Sprintf("%v/%s", c.Strict, cd)]
	ch := val.V.VerifOCSPChecker()
	var srvFields []string
	for _, s := range srvs {
		srvFields = append(srvFields, s.field(e.abs))
	}
	srvField := "-"
	if len(srvFields) > 0 {
		srvField = strings.Join(srvFields, ";")
	}
	certField, chainField := e.abs.CertField(leaf.Cert), e.abs.ChainsField(chains, nil)
	calls := 1
	if c.Cache {
		calls = 2
	}
	var first LookObs
	for k := 0; k < calls; k++ {
		o := observeLookup(e.abs, ch, e.rsp, leaf.Cert, chains, srvs, pool, defMs, -1)
		r.Op(fmt.Sprintf("ocsp look %s %d %d %s %s %s", b01(c.Strict), defMs, o.T0, certField, chainField, srvField), o.line())
		r.Eval(fmt.Sprintf("%s#%d", c.key(), k), anyHTTP)
		r.Count("result:" + o.Result)
		r.Count(fmt.Sprintf("n=%d", c.N))
		if o.Hit {
			r.Count("cache-hit")
		}
		if k == 0 {
			first = o
			r.Sample(map[string]interface{}{"case": c, "result": o.Result, "requests": o.Reqs, "stored": o.Stored})
		}
		// ---- implementation-side oracle: the statement of C02 ----
		want := "good"
		switch {
		case firstAuth == "revoked":
			want = "revoked"
		case firstAuth == "" && c.Strict && anyHTTP:
			want = "error"
		}
		if k == 1 && first.Stored != "-" {
			// served from the cache: same verdict, no request
			if !o.Hit || len(o.Reqs) != 0 {
				r.Violate("C02 cached-answer-not-used", fmt.Sprintf("case %s: second call hit=%v requests=%v although the first call cached its answer", c.key(), o.Hit, o.Reqs), c)
			}
		}
		if firstAuth == "revoked" && o.Result != "revoked" {
			r.Violate("C02 authentic-revoked-not-rejected", fmt.Sprintf("case %s call %d: first authentic answer is revoked, result %s (%v)", c.key(), k, o.Result, o.Err), c)
		}
		if c.Strict && anyHTTP && o.Result != "error" && firstAuth == "" {
			r.Violate("C02 strict-accepted-without-answer", fmt.Sprintf("case %s call %d: strict, HTTP responders named, nobody answered authentically, result %s", c.key(), k, o.Result), c)
		}
		if !c.Strict && o.Result == "error" {
			r.Violate("C02 lenient-rejected-on-unavailability", fmt.Sprintf("case %s call %d: strict off, result error (%v)", c.key(), k, o.Err), c)
		}
		if !anyHTTP && o.Result == "error" {
			r.Violate("C02 rejected-without-http-responder", fmt.Sprintf("case %s call %d: no HTTP responder named, result error (%v)", c.key(), k, o.Err), c)
		}
		if firstAuth == "unknown" && o.Result == "revoked" {
			// the statement does not say how an authentic `unknown` is to be treated; the code accepts, rejecting would be the safe side
			want = "revoked"
		}
		if o.Result != want {
			r.Violate("C02 verdict", fmt.Sprintf("case %s call %d: result %s, statement gives %s", c.key(), k, o.Result, want), c)
		}
		if k == 0 && firstAuth == "" && o.Stored != "-" {
			r.Violate("C02 failure-cached", fmt.Sprintf("case %s: nothing authentic was received but an entry was stored (%s ms)", c.key(), o.Stored), c)
		}
	}
	// handshake level, only where no cache state is involved (the call repeats the requests)
	if !c.Cache && idx%3 == 0 {
		verdict, _ := val.Verify(chains)
		wantReject := first.Result != "good"
		if (verdict == "reject") != wantReject || verdict == "panic" {
			r.Violate("C02 handshake-verdict", fmt.Sprintf("case %s: IsRevoked gave %s, VerifyClientCertificate %s", c.key(), first.Result, verdict), c)
		}
		r.Count("handshake:" + verdict)
	}
}

// c02TwoIssuers: "served from a still-valid cache entry" must mean an entry of THIS certificate: two issuers whose names
// consist of the same attributes in another arrangement issue the same serial; the first certificate's good answer is cached,
// the second certificate's responder says revoked. The second certificate must be rejected, strict or not.
func c02TwoIssuers(e *c02Env) {
	r := e.r
	atv := func(oid asn1.ObjectIdentifier, v string) pkix.AttributeTypeAndValue {
		return pkix.AttributeTypeAndValue{Type: oid, Value: v}
	}
	oC, oO, oCN := asn1.ObjectIdentifier{2, 5, 4, 6}, asn1.ObjectIdentifier{2, 5, 4, 10}, asn1.ObjectIdentifier{2, 5, 4, 3}
	k := 0
	for _, strict := range []bool{false, true} {
		for shape := 0; shape < 3; shape++ {
			k++
			c, o, cn := atv(oC, "DE"), atv(oO, fmt.Sprintf("C02 rdn %d", k)), atv(oCN, "Issuing CA")
			na := pkix.RDNSequence{{c}, {o}, {cn}}
			nb := []pkix.RDNSequence{{{cn}, {o}, {c}}, {{c}, {cn, o}}, {{c}, {o}, {atv(oCN, "Other CA")}, {cn}}}[shape]
			caA := NewCA(CAOpts{EC: true, RawSubject: mustMarshal(na)})
			caB := NewCA(CAOpts{EC: true, RawSubject: mustMarshal(nb)})
			serial := big.NewInt(int64(770000 + k))
			pa, pb := fmt.Sprintf("/c02/ti/%d/a", k), fmt.Sprintf("/c02/ti/%d/b", k)
			la := caA.IssueLeaf(LeafOpts{CN: "client", Serial: serial, OCSP: []string{e.rsp.URL(pa)}})
			lb := caB.IssueLeaf(LeafOpts{CN: "client", Serial: serial, OCSP: []string{e.rsp.URL(pb)}})
			v := e.vals[fmt.Sprintf("%v/1h", strict)]
			set := func(ca *CA, path string, leaf *x509.Certificate, status int) OSrv {
				body := ca.OCSPResponse(OCSPOpts{Status: status, Serial: leaf.SerialNumber})
				e.rsp.SetFixed(path, RespScript{Kind: "bytes", Body: body})
				return OSrv{URL: e.rsp.URL(path), Path: path, Observable: true, Beh: map[string]string{"*": e.abs.Abstract(body, []*x509.Certificate{ca.Cert})}}
			}
			look := func(leaf *x509.Certificate, ca *CA, srv OSrv) LookObs {
				chains := [][]*x509.Certificate{{leaf, ca.Cert}}
				o := observeLookup(e.abs, v.V.VerifOCSPChecker(), e.rsp, leaf, chains, []OSrv{srv}, []*x509.Certificate{ca.Cert}, 3600000, -1)
				r.Op(fmt.Sprintf("ocsp look %s %d %d %s %s %s", b01(strict), 3600000, o.T0, e.abs.CertField(leaf), e.abs.ChainsField(chains, nil), srv.field(e.abs)), o.line())
				return o
			}
			o1 := look(la.Cert, caA, set(caA, pa, la.Cert, ocsp.Good))
			o2 := look(lb.Cert, caB, set(caB, pb, lb.Cert, ocsp.Revoked))
			r.Eval(fmt.Sprintf("two-issuers/%d", k), true)
			r.Count("two-issuers:" + o1.Result + "/" + o2.Result)
			if o1.Result != "good" || o2.Result != "revoked" || o2.Hit {
				r.Violate("C02 revoked-answer-lost-to-another-certificates-cache-entry", fmt.Sprintf("strict=%v shape %d: issuer A's certificate: %s; issuer B's certificate (same serial, its responder answers revoked): %s (cache hit: %v)",
					strict, shape, o1.Result, o2.Result, o2.Hit), nil)
			}
		}
	}
}
