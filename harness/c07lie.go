package main

import "math/rand"

// Structure-aware hostile documents: a valid CRL is parsed into its TLV tree and re-serialised with the length field of one
// constructed element inside tbsCertList (and optionally of its first child as well) replaced by a huge claim, while every
// enclosing element keeps an honest length — so the first pass, which skips tbsCertList by its declared length, still finds
// the signature algorithm and the second pass reaches the lying element with nothing but the claim to go by.

type tlvNode struct {
	tag      byte
	content  []byte     // primitive content
	children []*tlvNode // constructed
	claim    uint64     // != 0: emit this length instead of the real one
}

func parseTLV(b []byte, depth int) ([]*tlvNode, bool) {
	var out []*tlvNode
	for len(b) > 0 {
		if len(b) < 2 {
			return nil, false
		}
		tag := b[0]
		l := int(b[1])
		hdr := 2
		if b[1]&0x80 != 0 {
			k := int(b[1] & 0x7f)
			if k == 0 || k > 4 || len(b) < 2+k {
				return nil, false
			}
			l = 0
			for _, x := range b[2 : 2+k] {
				l = l<<8 | int(x)
			}
			hdr = 2 + k
		}
		if len(b) < hdr+l {
			return nil, false
		}
		n := &tlvNode{tag: tag}
		body := b[hdr : hdr+l]
		if tag&0x20 != 0 && depth < 8 {
			ch, ok := parseTLV(body, depth+1)
			if ok {
				n.children = ch
			} else {
				n.content = body
			}
		} else {
			n.content = body
		}
		out = append(out, n)
		b = b[hdr+l:]
	}
	return out, true
}

func (n *tlvNode) bytes() []byte {
	body := n.content
	if n.children != nil {
		body = nil
		for _, c := range n.children {
			body = append(body, c.bytes()...)
		}
	}
	l := uint64(len(body))
	if n.claim != 0 {
		l = n.claim
	}
	var hdr []byte
	switch {
	case l < 0x80 && n.claim == 0:
		hdr = []byte{n.tag, byte(l)}
	default:
		var lb []byte
		for x := l; x > 0; x >>= 8 {
			lb = append([]byte{byte(x)}, lb...)
		}
		if len(lb) == 0 {
			lb = []byte{0}
		}
		hdr = append([]byte{n.tag, 0x80 | byte(len(lb))}, lb...)
	}
	return append(hdr, body...)
}

func collectConstructed(n *tlvNode, depth int, out *[]*tlvNode) {
	if n.children == nil {
		return
	}
	if depth >= 2 {
		*out = append(*out, n)
	}
	for _, c := range n.children {
		collectConstructed(c, depth+1, out)
	}
}

// c07LengthLie returns a hostile variant of der (nil if der does not parse as a TLV tree).
func c07LengthLie(rng *rand.Rand, der []byte) []byte {
	roots, ok := parseTLV(der, 0)
	if !ok || len(roots) != 1 || len(roots[0].children) == 0 {
		return nil
	}
	var cands []*tlvNode
	collectConstructed(roots[0], 0, &cands) // depth 2 and deeper: elements inside tbsCertList (and inside the outer algorithm)
	if len(cands) == 0 {
		return nil
	}
	n := cands[rng.Intn(len(cands))]
	claims := []uint64{1 << 27, 1<<27 + 12345, 1 << 28, 1<<28 - 1, 1<<31 - 1, 1 << 31, 1<<32 - 1}
	n.claim = claims[rng.Intn(len(claims))]
	if rng.Intn(3) == 0 {
		n.claim = claims[rng.Intn(2)]
	}
	// the first constructed child claims (almost) as much: an entry inside a lying list, an extension inside a lying wrapper
	if rng.Intn(2) == 0 {
		for _, c := range n.children {
			if c.children != nil {
				c.claim = n.claim - uint64(8+rng.Intn(16))
				break
			}
		}
	}
	return roots[0].bytes()
}
