package main

// C20 — work-directory discipline and clean lifecycle.
//   A  names: location identifiers (URL / file / CDP list) of the real loaders vs the model (SHA-256 + hex + block
//      concatenation + scheme filter), filepath.Join vs the model's Clean/Join, sweep decisions of the real startup
//      sweep vs the model's pattern matcher.
//   B  placement: the real validator with hostile location strings; tree diff of a sandbox parent of work_dir.
//   C  histories: provision / first use / refresh (ok or failed: origin down, garbage, damaged entry, bad signature) /
//      foreign files / cleanup on both backends, state after every event vs the model's lifecycle machine.
//   D  k provision/cleanup cycles on one work_dir.
// Implementation-side oracle = the statement of C20 on the observations alone (see c20Oracle*).

import (
	"crypto/sha256"
	"crypto/x509"
	"fmt"
	"math/big"
	"net/url"
	"os"
	"path/filepath"
	"runtime"
	"sort"
	"strings"
	"time"
	"unicode/utf8"

	"github.com/gr33nbl00d/caddy-revocation-validator/core"
	"github.com/gr33nbl00d/caddy-revocation-validator/core/verifhook"
	"github.com/gr33nbl00d/caddy-revocation-validator/crl"
	"github.com/gr33nbl00d/caddy-revocation-validator/crl/crlloader"
	"go.uber.org/zap"
)

func init() { register("C20", runC20) }

func runC20(r *Run) {
	r.rule = "names: every location string / name / path pair compared with the model (non-trivial: hostile class other than plain); " +
		"placement: one real validator per hostile string class; histories: every event of every history is one evaluation " +
		"(non-trivial: failed load/refresh, foreign look-alike, restart, cleanup); cycles: every cycle"
	ca := NewCA(CAOpts{CN: "C20 CA", EC: true})
	other := NewCA(CAOpts{CN: "C20 CA", EC: true}) // same name, other key
	_ = other
	c20Names(r)
	c20Sweep(r, ca)
	c20Placement(r, ca)
	c20Histories(r, ca)
	c20Cycles(r, ca)
	c20Exclusive(r, ca)
}

// c20Exclusive: a work_dir belongs to one live validator. A second Provision on it is refused, and neither the refusal
// nor the Cleanup Caddy runs on the refused module releases the directory: a third Provision is refused as well, the holder
// keeps working, and only its own Cleanup frees the directory.
func c20Exclusive(r *Run, ca *CA) {
	for _, storage := range []string{"memory", "disk"} {
		wd := scratchDir("c20x")
		cfg := VCfg{Mode: "crl_only", WorkDir: wd, Storage: storage, UpdateInterval: "10h"}
		a, err := Provision(cfg)
		if err != nil {
			r.Violate("C20 provision-failed", "exclusive "+storage+": "+err.Error(), nil)
			continue
		}
		reg := func() int { return crl.VerifWorkDirsInUse()[wd] }
		obs := []string{fmt.Sprint(reg())}
		for k := 0; k < 3; k++ {
			b, errB := Provision(cfg) // (Provision of the harness runs Cleanup on a module whose Provision failed, as Caddy does)
			if errB == nil {
				r.Violate("C20 work-dir-shared-by-two-validators", fmt.Sprintf("%s: attempt %d: a second validator was provisioned on a work_dir whose holder is live", storage, k+1), nil)
				b.Close()
			}
			obs = append(obs, fmt.Sprintf("%v:%d", errB != nil, reg()))
			if reg() != 1 {
				r.Violate("C20 work-dir-released-by-refused-provision", fmt.Sprintf("%s: after refused attempt %d the registry holds %d for the live holder's work_dir", storage, k+1, reg()), nil)
			}
		}
		leaf := ca.IssueLeaf(LeafOpts{})
		vd, _ := a.Verify([][]*x509.Certificate{{leaf.Cert, ca.Cert}})
		a.Close()
		obs = append(obs, vd, fmt.Sprint(reg()))
		c, errC := Provision(cfg)
		if errC != nil {
			r.Violate("C20 work-dir-not-released-by-cleanup", storage+": "+errC.Error(), nil)
		} else {
			c.Close()
		}
		r.Eval("exclusive/"+storage, true)
		r.Count("exclusive:" + strings.Join(obs, ","))
		if d := reg(); d != 0 {
			r.Violate("C20 work-dir-still-registered", fmt.Sprintf("exclusive %s: %d", storage, d), nil)
		}
	}
}

// ---- A: names -----------------------------------------------------------------------------------

func c20Norm(u string) (string, bool) {
	p, err := url.Parse(u)
	if err != nil {
		return "", false
	}
	return p.String(), true
}

func c20HostileURLs(base string) map[string][]string {
	long := strings.Repeat("x", 5000)
	up := strings.Replace(base, "http://", "HTTP://", 1)
	return map[string][]string{
		"plain":      {base + "/crl/a.crl", base + "/crl/b.crl", base + "/crl/a.crl"},
		"case":       {up + "/crl/a.crl", strings.Replace(base, "127.0.0.1", "LOCALHOST", 1) + "/crl/a.crl", strings.Replace(base, "127.0.0.1", "localhost", 1) + "/crl/a.crl", "hTtP://Host/a", "http://host/a", "HTTP://HOST/A"},
		"traversal":  {base + "/crl/../crl/a.crl", base + "/../../../etc/passwd", base + "/./a", base + "//a//b", "../../etc/passwd", "/etc/passwd", base + "/..", base + "/a/.."},
		"encoded":    {base + "/crl/%2e%2e/%2e%2e/etc/passwd", base + "/a%2fb", base + "/a%2Fb", base + "/a%5cb", base + "/a%00b", base + "/%2F%2Fx"},
		"long":       {base + "/" + long, base + "/" + long + "y", base + "/?" + long},
		"unicode":    {base + "/crl/ünïcödé/列表.crl", base + "/crl/%C3%BCn%C3%AFc%C3%B6d%C3%A9/%E5%88%97%E8%A1%A8.crl", base + "/a b", base + "/a%20b", base + "/‮gnp.crl", base + "/\xff\xfe"},
		"control":    {base + "/a\x00b", base + "/a\nb", base + "/a\tb", "\x00", base + "/a\x7fb"},
		"malformed":  {"http://[::1", "%zz", "http://a b/", ":", "http://host:port/x", "http://%41/x"},
		"scheme":     {"file:///etc/passwd", "ldap://dir/cn=x", "https://host/a", "HTTPS://host/a", "httpx://host/a", "//host/a", "host/a"},
		"query-frag": {base + "/x?y=1", base + "/x?y=1#f", base + "/x#f", base + "/x?", base + "/x#"},
		"sep-like":   {base + "/crl_x_tmp", base + "/a/crl_1_tmp", base + "/" + strings.Repeat("ab", 32), base + "/."},
	}
}

func c20HostileFiles(dir string) map[string][]string {
	return map[string][]string{
		"plain":     {dir + "/a.crl", dir + "/b.crl", dir + "/a.crl"},
		"traversal": {dir + "/../" + filepath.Base(dir) + "/a.crl", "../../etc/passwd", dir + "/./a.crl", dir + "//a.crl", "..", ".", "/"},
		"unicode":   {dir + "/ünï 列表.crl", dir + "/a b.crl", dir + "/\xff\xfe.crl"},
		"control":   {dir + "/a\nb.crl", dir + "/a\x00b", dir + "/\t"},
		"long":      {dir + "/" + strings.Repeat("n", 255), strings.Repeat("/"+strings.Repeat("d", 200), 30)},
		"url-like":  {"http://host/a", "crl_x_tmp", strings.Repeat("ab", 32)},
	}
}

func c20ShapeOK(id string) bool { return diskHex64.MatchString(id) }

type c20IdRec struct {
	kind, class, pre, id string
}

func c20Names(r *Run) {
	logger := zap.NewNop()
	// the model's SHA-256 itself
	for i := 0; i < 24; i++ {
		n := []int{0, 1, 3, 55, 56, 57, 63, 64, 65, 119, 120, 128, 1000}[i%13]
		if i >= 13 {
			n = r.Rng.Intn(300)
		}
		b := make([]byte, n)
		r.Rng.Read(b)
		sum := sha256.Sum256(b)
		r.Op("path sha "+hexs(b), fmt.Sprintf("%x", sum[:]))
		r.Eval(fmt.Sprintf("sha/%d", i), n > 55)
	}
	var recs []c20IdRec
	base := "http://127.0.0.1:18080"
	classes := c20HostileURLs(base)
	var keys []string
	for k := range classes {
		keys = append(keys, k)
	}
	sort.Strings(keys)
	var allURLs []string
	for _, class := range keys {
		for _, u := range classes[class] {
			allURLs = append(allURLs, u)
			l := &crlloader.URLLoader{UrlString: u, Logger: logger}
			id, err := l.GetCRLLocationIdentifier()
			obs := id
			if err != nil {
				obs = "none"
			}
			nrm, ok := c20Norm(u)
			arg := "!"
			if ok {
				arg = hexs([]byte(nrm))
			}
			r.Op("path id url "+arg, obs)
			r.Eval("url/"+u, class != "plain")
			r.Count("id-url:" + class)
			if ok {
				// hypothesis of C20.file_and_url_never_share_a_store: the normaliser's output contains no byte below 0x20
				for k := 0; k < len(nrm); k++ {
					if nrm[k] < 0x20 {
						r.Violate("C20 normalised-url-contains-control-byte", fmt.Sprintf("url.Parse(%q).String() = %q", u, nrm), u)
						break
					}
				}
			}
			if err == nil {
				recs = append(recs, c20IdRec{"url", class, nrm, id})
			} else if ok {
				r.Violate("C20 identifier-error-for-parseable-url", fmt.Sprintf("%q: %v", u, err), u)
			}
		}
	}
	fclasses := c20HostileFiles("/sandbox/files")
	keys = keys[:0]
	for k := range fclasses {
		keys = append(keys, k)
	}
	sort.Strings(keys)
	for _, class := range keys {
		for _, f := range fclasses[class] {
			l := &crlloader.FileLoader{FileName: f, Logger: logger}
			id, err := l.GetCRLLocationIdentifier()
			if err != nil {
				r.Violate("C20 identifier-error-for-file", fmt.Sprintf("%q: %v", f, err), f)
				continue
			}
			r.Op("path id file "+hexs([]byte(f)), id)
			r.Eval("file/"+f, class != "plain")
			r.Count("id-file:" + class)
			recs = append(recs, c20IdRec{"file", class, f, id})
		}
	}
	// CDP lists: structured ones, then random sub-lists of the hostile URLs
	u1, u2, u3 := base+"/crl/a.crl", base+"/crl/b.crl", "HTTP://127.0.0.1:18080/crl/a.crl"
	lists := [][]string{{u1}, {u1, u2}, {u2, u1}, {u1, "ldap://dir/cn=x", u2}, {"ldap://dir/cn=x"}, {}, {u1, u1}, {u3}, {u3, u2},
		{"hTtP://Host/a"}, {"httpx://host/a"}, {" http://host/a"}, {"http://[::1"}, {u1, "http://[::1"}, {"HTTPS://host/a"}, {"ftp://h/x", "file:///x"},
		{u1 + u2}, {u1, u2, base + "/crl/c.crl"}, {u1 + "/crl", "/b.crl"}, {"http"}, {"HTTP"}, {"htt"}, {"ſhttp://x"}, {"Http://x/İ"}}
	nRand := 60
	if r.Thorough() {
		nRand = 2000
	}
	for i := 0; i < nRand; i++ {
		n := 1 + r.Rng.Intn(4)
		var l []string
		for j := 0; j < n; j++ {
			l = append(l, allURLs[r.Rng.Intn(len(allURLs))])
		}
		lists = append(lists, l)
	}
	factory := crlloader.DefaultCRLLoaderFactory{}
	for i, l := range lists {
		loader, err := factory.CreatePreferredCrlLoader(&core.CRLLocations{CRLDistributionPoints: l}, logger)
		obs := "none"
		var pre []string
		if err == nil {
			if id, e := loader.GetCRLLocationIdentifier(); e == nil {
				obs = id
			}
		}
		var items []string
		for _, u := range l {
			nrm, ok := c20Norm(u)
			a := "!"
			if ok {
				a = hexs([]byte(nrm))
			}
			items = append(items, hexs([]byte(u))+":"+a)
			if strings.HasPrefix(strings.ToLower(u), "http") {
				pre = append(pre, nrm)
			}
		}
		r.Op(strings.TrimSpace("path id cdp "+strings.Join(items, " ")), obs)
		r.Eval(fmt.Sprintf("cdp/%d", i), len(l) > 1)
		r.Count(fmt.Sprintf("id-cdp:len%d", len(l)))
		if obs != "none" {
			recs = append(recs, c20IdRec{"cdp", "list", strings.Join(pre, "\x00|"), obs})
		}
	}
	// oracle on the implementation: shape, direct child, same pre-image <=> same identifier (within one kind)
	byKey := map[string]c20IdRec{}
	byID := map[string]c20IdRec{}
	for _, rec := range recs {
		if !c20ShapeOK(rec.id) {
			r.Violate("C20 store-name-shape", fmt.Sprintf("%s %q -> %q is not 64 lower-case hex characters", rec.kind, rec.pre, rec.id), rec.pre)
			continue
		}
		for _, wd := range []string{"/srv/wd", "wd", "/", "/srv/wd/", "/srv/./wd/../wd"} {
			j := filepath.Join(wd, rec.id)
			if filepath.Dir(j) != filepath.Clean(wd) || filepath.Base(j) != rec.id {
				r.Violate("C20 store-path-not-direct-child", fmt.Sprintf("Join(%q,%q)=%q", wd, rec.id, j), rec.pre)
			}
		}
		k := rec.kind + "\x00" + rec.pre
		if p, ok := byKey[k]; ok && p.id != rec.id {
			r.Violate("C20 same-location-different-store", fmt.Sprintf("%s %q: %s vs %s", rec.kind, rec.pre, p.id, rec.id), rec.pre)
		}
		byKey[k] = rec
		if p, ok := byID[rec.kind+rec.id]; ok && p.pre != rec.pre {
			r.Violate("C20 distinct-locations-share-store", fmt.Sprintf("%s %q and %q -> %s", rec.kind, p.pre, rec.pre, rec.id), rec.pre)
		}
		byID[rec.kind+rec.id] = rec
	}
	// kinds are separated: a file *named* like a (normalised) URL, like a CDP pre-image or like an identifier must not get
	// the store of that URL / CDP list (every file name used above is also tried as the name of a file, and vice versa)
	anyID := map[string]c20IdRec{}
	for _, rec := range recs {
		if p, ok := anyID[rec.id]; ok && p.kind != rec.kind {
			r.Violate("C20 file-and-url-share-a-store", fmt.Sprintf("%s %q and %s %q -> %s", p.kind, p.pre, rec.kind, rec.pre, rec.id), rec.pre)
		}
		anyID[rec.id] = rec
	}
	for _, rec := range recs {
		if rec.kind == "file" || len(rec.pre) > 4096 {
			continue
		}
		for _, name := range []string{rec.pre, rec.id, "\x00file:" + rec.pre} {
			fid, _ := (&crlloader.FileLoader{FileName: name}).GetCRLLocationIdentifier()
			r.Op("path id file "+hexs([]byte(name)), fid)
			r.Eval("cross-kind/"+rec.kind+"/"+name, true)
			if p, ok := anyID[fid]; ok && p.kind != "file" {
				r.Violate("C20 file-and-url-share-a-store", fmt.Sprintf("crl_files entry %q gets the store %s of %s location %q", name, fid, p.kind, p.pre), name)
			}
		}
		r.Count("cross-kind:" + rec.kind)
	}
	// filepath.Join vs the model
	wds := []string{"/srv/wd", "/srv/wd/", "wd", "./wd", "../wd", "/", "//", "/a/../b", "/a/./b//c/", "a/../../b", "/..", "..", ".", "/a/b/../../..", "a//b", "/ü/列"}
	names := []string{strings.Repeat("0f", 32), "crl_123_tmp", "crl_" + "8f14e45f-ceea-11ee-8c90-0242ac120002" + "_tmp"}
	for _, wd := range wds {
		for _, n := range names {
			r.Op("path join "+hexs([]byte(wd))+" "+hexs([]byte(n)), hexs([]byte(filepath.Join(wd, n))))
			r.Eval("join/"+wd+"/"+n, strings.ContainsAny(wd, "."))
		}
	}
	nj := 100
	if r.Thorough() {
		nj = 5000
	}
	parts := []string{"a", "b", "..", ".", "", "wd", "ü", "x.y", "...", "a b"}
	for i := 0; i < nj; i++ {
		var p []string
		for j := 0; j < 1+r.Rng.Intn(6); j++ {
			p = append(p, parts[r.Rng.Intn(len(parts))])
		}
		wd := strings.Join(p, "/")
		if r.Rng.Intn(2) == 0 {
			wd = "/" + wd
		}
		if wd == "" {
			wd = "."
		}
		n := names[r.Rng.Intn(len(names))]
		r.Op("path join "+hexs([]byte(wd))+" "+hexs([]byte(n)), hexs([]byte(filepath.Join(wd, n))))
		r.Eval(fmt.Sprintf("joinr/%d", i), true)
	}
}

// ---- A': sweep decisions of the real startup sweep -----------------------------------------------------

func c20SweepNames() []string {
	return []string{"crl_x_tmp", "crl__tmp", "crl_tmp", "xcrl_a_tmp", "crl_a_tmp.bak", "crl_a_tmp ", " crl_a_tmp", "CRL_a_tmp", "crl_a_TMP",
		"crl_a\nb_tmp", "crl_\n_tmp", "crl_a_tmp\n", "\ncrl_a_tmp", "crl_\xff\xfe_tmp", "crl_ü列_tmp", "crl_\xc3_tmp", "crl_" + strings.Repeat("z", 200) + "_tmp",
		"crl_crl_a_tmp_tmp", "crl_a_tmp_tmp", "crl_.._tmp", "crl_._tmp", "crl_*_tmp", "crl_123456_tmp", "crl_8f14e45f-ceea-11ee-8c90-0242ac120002_tmp",
		strings.Repeat("0f", 32), strings.Repeat("c", 64), "crl", "_tmp", "crl_", "crl_tm", "rl_a_tmp", "crl-a-tmp", "crl_a_tmq", "LOCK", "crl_\r_tmp", "crl_\x00"[:4] + "a_tmp"}
}

func c20Sweep(r *Run, ca *CA) {
	for _, kind := range []string{"file", "dir"} {
		parent := scratchDir("c20sweep")
		wd := filepath.Join(parent, "wd")
		must(os.Mkdir(wd, 0700))
		names := c20SweepNames()
		for _, n := range names {
			p := filepath.Join(wd, n)
			if kind == "file" {
				must(os.WriteFile(p, []byte("foreign"), 0600))
			} else {
				must(os.Mkdir(p, 0700))
				must(os.WriteFile(filepath.Join(p, "crl_inner_tmp"), []byte("inner"), 0600))
			}
		}
		before := diskTreeSnapshot(parent, wd)
		v, err := Provision(VCfg{Mode: "crl_only", WorkDir: wd, Storage: "disk", NoOCSPConfig: true})
		if err != nil {
			r.Violate("C20 provision-failed", "sweep sandbox: "+err.Error(), nil)
			continue
		}
		left := map[string]bool{}
		for _, n := range listDir(wd) {
			left[n] = true
		}
		for _, n := range names {
			swept := !left[n]
			r.Op("path tmp? "+hexs([]byte(n)), fmt.Sprint(swept))
			r.Eval("sweep/"+kind+"/"+n, strings.HasPrefix(n, "crl_") || strings.HasSuffix(n, "_tmp"))
			r.Count(fmt.Sprintf("sweep:%s:%v", kind, swept))
			// oracle: what the documentation of the temp names promises — crl_<anything without newline>_tmp goes, everything else stays
			want := len(n) >= 8 && strings.HasPrefix(n, "crl_") && strings.HasSuffix(n, "_tmp") && !strings.Contains(n[4:len(n)-4], "\n")
			if swept != want {
				sig := "C20 foreign-file-deleted-by-sweep"
				if want {
					sig = "C20 temp-artefact-survives-sweep"
				}
				r.Violate(sig, fmt.Sprintf("%s %q: swept=%v", kind, n, swept), n)
			}
			if kind == "dir" && !swept {
				if _, err := os.Stat(filepath.Join(wd, n, "crl_inner_tmp")); err != nil {
					r.Violate("C20 sweep-descends-into-foreign-directory", fmt.Sprintf("%q: inner file gone", n), n)
				}
			}
		}
		v.Close()
		if d := diskDiffSnapshots(before, diskTreeSnapshot(parent, wd)); len(d) > 0 {
			r.Violate("C20 outside-work-dir", fmt.Sprintf("sweep: %v", d), nil)
		}
	}
}

// ---- B: placement -------------------------------------------------------------------------------------

type c20Box struct {
	parent, wd, wdSpelling string
	before                 map[string]string
}

func c20NewBox(spelling func(parent string) string) *c20Box {
	parent := scratchDir("c20box")
	wd := filepath.Join(parent, "wd")
	must(os.Mkdir(wd, 0700))
	must(os.Mkdir(filepath.Join(parent, "x"), 0700))
	must(os.WriteFile(filepath.Join(parent, "outside.txt"), []byte("outside"), 0600))
	must(os.WriteFile(filepath.Join(parent, "x", "crl_outside_tmp"), []byte("outside"), 0600))
	must(os.Mkdir(filepath.Join(parent, strings.Repeat("0a", 32)), 0700))
	b := &c20Box{parent: parent, wd: wd, wdSpelling: wd}
	if spelling != nil {
		b.wdSpelling = spelling(parent)
	}
	b.before = diskTreeSnapshot(parent, wd)
	return b
}

func (b *c20Box) outsideDiff() []string {
	return diskDiffSnapshots(b.before, diskTreeSnapshot(b.parent, b.wd))
}

// c20CheckListing: every entry of work_dir is an expected store directory or an expected foreign entry; no temp name.
func c20CheckListing(r *Run, where string, wd string, stores map[string]bool, foreign map[string]bool, needAll bool) {
	seen := map[string]bool{}
	for _, n := range listDir(wd) {
		seen[n] = true
		switch {
		case stores[n]:
			if fi, err := os.Stat(filepath.Join(wd, n)); err != nil || !fi.IsDir() {
				r.Violate("C20 store-is-not-a-directory", where+": "+n, nil)
			}
		case foreign[n]:
		case len(n) >= 8 && strings.HasPrefix(n, "crl_") && strings.HasSuffix(n, "_tmp"):
			r.Violate("C20 temp-artefact-left", fmt.Sprintf("%s: %q remains in work_dir", where, n), nil)
		default:
			r.Violate("C20 unexpected-entry-in-work-dir", fmt.Sprintf("%s: %q", where, n), nil)
		}
	}
	if needAll {
		for s := range stores {
			if !seen[s] {
				r.Violate("C20 live-store-missing", fmt.Sprintf("%s: store %s is gone", where, s), nil)
			}
		}
	}
}

// c20Signer writes the CA certificate where the configuration can name it as trusted CRL signer (configured CRLs have
// no handshake chain to take the signer from).
func c20Signer(ca *CA) string {
	return writeFile(scratchDir("c20signer"), "ca.pem", certPEM(ca.Cert))
}

func c20Placement(r *Run, ca *CA) {
	signer := c20Signer(ca)
	origin := NewDiskAnyOrigin()
	defer origin.Close()
	good := ca.MakeCRL(CRLOpts{Serials: []*big.Int{big.NewInt(5), big.NewInt(6)}})
	origin.Set(Behaviour{Kind: "bytes", Body: good})
	classes := c20HostileURLs(origin.Base())
	type job struct {
		kind, class string
		locs        []string
		spelling    func(string) string
	}
	var jobs []job
	spellings := []func(string) string{nil,
		func(p string) string { return p + "/wd/" },
		func(p string) string { return p + "/x/../wd" },
		func(p string) string { return p + "//wd/." }}
	i := 0
	for class, urls := range classes {
		var fetchable []string
		for _, u := range urls {
			if strings.HasPrefix(strings.ToLower(u), strings.ToLower(origin.Base())) || strings.HasPrefix(u, "HTTP://127.0.0.1") {
				if _, ok := c20Norm(u); ok && !strings.Contains(u, "#") {
					fetchable = append(fetchable, u)
				}
			}
		}
		if len(fetchable) > 0 {
			jobs = append(jobs, job{"url", class, fetchable, spellings[i%len(spellings)]})
			jobs = append(jobs, job{"cdp", class, fetchable, spellings[(i+1)%len(spellings)]})
			i++
		}
		// strings the configuration cannot use at all: Provision must fail without touching anything outside
		for _, u := range urls {
			if _, ok := c20Norm(u); !ok {
				jobs = append(jobs, job{"url-bad", class, []string{u}, nil})
			}
		}
	}
	jobs = append(jobs, job{"file", "hostile-names", nil, spellings[1]})
	jobs = append(jobs, job{"file", "hostile-names", nil, spellings[2]})
	sort.SliceStable(jobs, func(a, b int) bool { return jobs[a].class+jobs[a].kind < jobs[b].class+jobs[b].kind })
	logger := zap.NewNop()
	parallel(len(jobs), 8, func(j int) {
		jb := jobs[j]
		box := c20NewBox(jb.spelling)
		where := fmt.Sprintf("placement %s/%s wd=%q", jb.kind, jb.class, strings.TrimPrefix(box.wdSpelling, box.parent))
		stores := map[string]bool{}
		cfg := VCfg{Mode: "crl_only", WorkDir: box.wdSpelling, Storage: "disk", NoOCSPConfig: true, CDPStrict: true, TrustedSigners: []string{signer}}
		if jb.kind != "cdp" {
			// the configuration is JSON: strings that are not valid UTF-8 cannot be carried by it
			var l []string
			for _, u := range jb.locs {
				if utf8.ValidString(u) {
					l = append(l, u)
				}
			}
			jb.locs = l
		}
		switch jb.kind {
		case "url", "url-bad":
			cfg.CRLUrls = jb.locs
			for _, u := range jb.locs {
				if id, err := (&crlloader.URLLoader{UrlString: u, Logger: logger}).GetCRLLocationIdentifier(); err == nil {
					stores[id] = true
				}
			}
		case "file":
			fdir := filepath.Join(box.parent, "x", "files")
			must(os.Mkdir(fdir, 0700))
			for _, n := range []string{"a.crl", "ünï 列表.crl", "a b.crl", "a\nb.crl", "crl_x_tmp", strings.Repeat("n", 255), "..crl", "-rf"} {
				p := filepath.Join(fdir, n)
				must(os.WriteFile(p, good, 0600))
				for _, sp := range []string{p, fdir + "/./" + n, fdir + "/../files/" + n} {
					cfg.CRLFiles = append(cfg.CRLFiles, sp)
					id, _ := (&crlloader.FileLoader{FileName: sp}).GetCRLLocationIdentifier()
					stores[id] = true
				}
			}
			box.before = diskTreeSnapshot(box.parent, box.wd)
		}
		v, err := Provision(cfg)
		nontrivial := jb.class != "plain"
		if jb.kind == "url-bad" {
			if err == nil {
				r.Violate("C20 unusable-location-accepted", fmt.Sprintf("%s: %q", where, jb.locs), jb.locs)
				v.Close()
			}
			c20CheckListing(r, where, box.wd, map[string]bool{}, map[string]bool{}, false)
		} else if err != nil {
			r.Violate("C20 provision-failed", fmt.Sprintf("%s: %v", where, err), jb.locs)
		} else {
			v.V.VerifCRLChecker().VerifUpdateCRLs(false)
			if jb.kind == "cdp" {
				stores = map[string]bool{}
				// one certificate per distribution point, one with all of them, one with the reversed list
				lists := [][]string{jb.locs}
				for _, u := range jb.locs {
					lists = append(lists, []string{u})
				}
				if len(jb.locs) > 1 {
					rev := append([]string{}, jb.locs...)
					sort.Sort(sort.Reverse(sort.StringSlice(rev)))
					lists = append(lists, rev, append([]string{"ldap://dir/cn=x"}, jb.locs...))
				}
				for _, l := range lists {
					leaf := ca.IssueLeaf(LeafOpts{CDP: l})
					st, e := v.V.VerifCRLChecker().IsRevoked(leaf.Cert, [][]*x509.Certificate{{leaf.Cert, ca.Cert}})
					if e != nil {
						// refused (fail closed, strict mode) — e.g. a distribution point that is not valid UTF-8 cannot be
						// recorded in the store; what matters here is where things are put, checked below
						r.Count("placement:cdp-refused")
						if utf8.ValidString(strings.Join(l, "")) {
							r.Violate("C20 hostile-cdp-not-usable", fmt.Sprintf("%s: %v for %q", where, e, l), l)
						}
					} else if st.Revoked {
						r.Violate("C20 hostile-cdp-wrong-verdict", fmt.Sprintf("%s: revoked for %q", where, l), l)
					}
					if ld, err := (crlloader.DefaultCRLLoaderFactory{}).CreatePreferredCrlLoader(&core.CRLLocations{CRLDistributionPoints: l}, logger); err == nil {
						if id, err := ld.GetCRLLocationIdentifier(); err == nil {
							stores[id] = true
						}
					}
				}
			}
			c20CheckListing(r, where, box.wd, stores, map[string]bool{}, true)
			// same locations after a restart map to the same stores: nothing new appears
			v.Close()
			v2, err := Provision(cfg)
			if err != nil {
				r.Violate("C20 provision-failed", fmt.Sprintf("%s (restart): %v", where, err), jb.locs)
			} else {
				v2.V.VerifCRLChecker().VerifUpdateCRLs(false)
				if jb.kind != "cdp" {
					c20CheckListing(r, where+" (restart)", box.wd, stores, map[string]bool{}, true)
				}
				v2.Close()
			}
		}
		if d := box.outsideDiff(); len(d) > 0 {
			r.Violate("C20 outside-work-dir", fmt.Sprintf("%s: %v", where, d), jb.locs)
		}
		if crl.VerifWorkDirsInUse()[box.wdSpelling] != 0 {
			r.Violate("C20 work-dir-still-registered", where, nil)
		}
		if l := diskLockedStores(box.wd); len(l) > 0 {
			r.Violate("C20 store-still-locked-after-cleanup", fmt.Sprintf("%s: %v", where, l), nil)
		}
		r.Eval(fmt.Sprintf("place/%s/%s/%d", jb.kind, jb.class, j), nontrivial)
		r.Count("placement:" + jb.kind + ":" + jb.class)
		r.Sample(map[string]interface{}{"placement": jb.kind + "/" + jb.class, "locations": len(jb.locs), "stores": len(stores), "work_dir_spelling": strings.TrimPrefix(box.wdSpelling, box.parent)})
	})
}

// ---- C: histories ----------------------------------------------------------------------------------------

type c20Hist struct {
	r        *Run
	ca       *CA
	origin   *Origin
	storage  string
	verify   bool
	box      *c20Box
	v        *Validator
	confURL  string
	cdpURL   string
	confID   string
	cdpID    string
	state    map[string]diskOriginState // by id
	pathOf   map[string]string
	foreign  map[string]bool
	stores   map[string]bool
	leaf     *Leaf
	tag      int
	baseline int
	name     string
	signer   string
}

func (h *c20Hist) setOrigin(id string, s diskOriginState) {
	h.state[id] = s
	h.origin.Set(h.pathOf[id], diskBehaviourFor(h.ca, s))
}

func (h *c20Hist) observe(ok bool) string {
	want := 0
	if h.v != nil {
		want = 1
	}
	// quiescence first: the ticker goroutine runs its first update pass inline, so after Cleanup it may still be
	// working (or not even have started); update passes it spawned end by themselves
	var ticker, passes int
	tickerWait := 0
	for i := 0; i < 6000; i++ {
		ticker, passes = diskPluginGoroutines()
		if passes == 0 && (ticker-h.baseline == want || tickerWait > 300) {
			break
		}
		if passes == 0 {
			tickerWait++ // an idle ticker goroutine gets 3 s to end; update passes in flight get 60 s
		} else if h.v == nil && i == 100 {
			// not counted as a violation (it ends by itself), but reported
			h.r.Count("observation:update-pass-outlives-cleanup-by-more-than-1s")
		}
		time.Sleep(10 * time.Millisecond)
	}
	ls := diskListKinds(h.box.wd)
	handles := diskLockedStores(h.box.wd)
	reg := crl.VerifWorkDirsInUse()[h.box.wdSpelling] == 1
	upd := fmt.Sprint(ticker-h.baseline == 1)
	if n := ticker - h.baseline; n != 0 && n != 1 {
		upd = fmt.Sprintf("n=%d", n)
	}
	var loaded []string
	if h.v != nil {
		for _, e := range h.v.V.VerifCRLChecker().VerifRepository().VerifEntries() {
			if e.Loaded {
				loaded = append(loaded, hexs([]byte(e.Identifier)))
			}
		}
	}
	sort.Strings(loaded)
	return fmt.Sprintf("ok=%v ls=[%s] handles=[%s] reg=%v updater=%s loaded=[%s]", ok, strings.Join(ls, ","), strings.Join(handles, ","), reg, upd, strings.Join(loaded, ","))
}

// oracle after every event: the statement of C20 on what is observable
func (h *c20Hist) oracle(ev string) {
	where := h.name + " after " + ev
	if os.Getenv("VERIF_DEBUG_GOROUTINES") != "" {
		fmt.Printf("LDBG %d %s\n", strings.Count(diskAllStacks(), "leveldb.openDB"), where)
	}
	c20CheckListing(h.r, where, h.box.wd, h.stores, h.foreign, h.storage == "disk")
	if d := h.box.outsideDiff(); len(d) > 0 {
		h.r.Violate("C20 outside-work-dir", fmt.Sprintf("%s: %v", where, d), nil)
	}
	if h.v == nil {
		if crl.VerifWorkDirsInUse()[h.box.wdSpelling] != 0 {
			h.r.Violate("C20 work-dir-still-registered", where, nil)
		}
		if l := diskLockedStores(h.box.wd); len(l) > 0 {
			h.r.Violate("C20 store-still-locked-after-cleanup", fmt.Sprintf("%s: %v", where, l), nil)
		}
		if t, _ := diskPluginGoroutines(); t-h.baseline != 0 {
			h.r.Violate("C20 updater-goroutine-survives-cleanup", fmt.Sprintf("%s: %d ticker goroutines more than before", where, t-h.baseline), nil)
			h.baseline = t
		}
	}
}

func (h *c20Hist) vflag() string { return fmt.Sprint(h.verify) }

func (h *c20Hist) provision() {
	mode := "verify"
	if !h.verify {
		mode = "verify_log"
	}
	s := h.state[h.confID]
	v, err := Provision(VCfg{Mode: "crl_only", WorkDir: h.box.wdSpelling, Storage: h.storage, SigMode: mode, CDPStrict: true, NoOCSPConfig: true,
		CRLUrls: []string{h.confURL}, TrustedSigners: []string{h.signer}})
	if err == nil {
		// the ticker goroutine's first update pass (exactly one pass, whoever runs it) is over before anything is observed
		v.V.VerifCRLChecker().VerifUpdateCRLs(false)
	}
	// startup sweep: foreign look-alikes go
	for n := range h.foreign {
		if len(n) >= 8 && strings.HasPrefix(n, "crl_") && strings.HasSuffix(n, "_tmp") {
			delete(h.foreign, n)
		}
	}
	if h.storage == "disk" {
		h.stores[h.confID] = true
	}
	op := fmt.Sprintf("path life provision %s %s/%s/%s -", h.vflag(), hexs([]byte(h.confID)), s.model(), s.model())
	if err != nil {
		h.v = nil
		h.r.Op(op, h.observe(false))
		h.oracle("failed provision (" + s.Kind + ")")
		h.r.Eval(h.name+"/provision-failed", true)
		h.r.Count("event:provision-failed:" + s.Kind)
		return
	}
	h.v = v
	h.r.Op(op, h.observe(true))
	h.oracle("provision")
	h.r.Eval(h.name+"/provision", true)
	h.r.Count("event:provision")
	// the model's line for that first pass (it changes nothing that is printed, whether the pass succeeds or not)
	h.r.Op(fmt.Sprintf("path life refresh %s %s %s", h.vflag(), hexs([]byte(h.confID)), s.model()), h.observe(true))
	h.oracle("first update pass")
}

func (h *c20Hist) cleanup() {
	if h.v != nil {
		h.v.Close()
	}
	h.v = nil
	h.r.Op("path life cleanup", h.observe(true))
	h.oracle("cleanup")
	h.r.Eval(h.name+"/cleanup", true)
	h.r.Count("event:cleanup")
}

func (h *c20Hist) handshake(s diskOriginState) {
	if h.v == nil {
		return
	}
	h.setOrigin(h.cdpID, s)
	h.v.V.VerifCRLChecker().IsRevoked(h.leaf.Cert, [][]*x509.Certificate{{h.leaf.Cert, h.ca.Cert}})
	if h.storage == "disk" {
		h.stores[h.cdpID] = true
	}
	h.r.Op(fmt.Sprintf("path life hs %s %s %s", h.vflag(), hexs([]byte(h.cdpID)), s.model()), h.observe(true))
	h.oracle("handshake (" + s.Kind + ")")
	h.r.Eval(h.name+"/hs/"+s.Kind, s.Kind != "good")
	h.r.Count("event:handshake:" + s.Kind)
}

func (h *c20Hist) refresh(id string, s diskOriginState) {
	if h.v == nil {
		return
	}
	h.setOrigin(id, s)
	repo := h.v.V.VerifCRLChecker().VerifRepository()
	present := false
	for _, e := range repo.VerifEntries() {
		if e.Identifier == id {
			present = true
		}
	}
	repo.VerifUpdateCRL(id)
	_ = present
	h.r.Op(fmt.Sprintf("path life refresh %s %s %s", h.vflag(), hexs([]byte(id)), s.model()), h.observe(true))
	h.oracle("refresh (" + s.Kind + ")")
	h.r.Eval(h.name+"/refresh/"+s.Kind, s.Kind != "good")
	h.r.Count("event:refresh:" + s.Kind)
}

func (h *c20Hist) dropForeign(n string, dir bool) {
	p := filepath.Join(h.box.wd, n)
	if _, err := os.Lstat(p); err == nil {
		return
	}
	kind := "file"
	if dir {
		kind = "dir"
		must(os.Mkdir(p, 0700))
	} else {
		must(os.WriteFile(p, []byte("foreign"), 0600))
	}
	h.foreign[n] = true
	h.r.Op("path life foreign "+hexs([]byte(n))+" "+kind, h.observe(true))
	h.r.Eval(h.name+"/foreign/"+n, strings.HasPrefix(n, "crl_"))
	h.r.Count("event:foreign")
}

func (h *c20Hist) next(kind string) diskOriginState {
	h.tag++
	return diskOriginState{Kind: kind, Serial: 3 + h.tag%3, Tag: h.tag}
}

func c20Histories(r *Run, ca *CA) {
	origin := NewOrigin()
	defer origin.Close()
	logger := zap.NewNop()
	n := 10
	if r.Thorough() {
		n = 60
	}
	kinds := []string{"good", "garbage", "truncated", "badsig", "good", "down"}
	for i := 0; i < n; i++ {
		storage := []string{"disk", "memory"}[i%2]
		h := &c20Hist{r: r, ca: ca, origin: origin, storage: storage, verify: i%3 != 2, state: map[string]diskOriginState{}, pathOf: map[string]string{},
			foreign: map[string]bool{}, stores: map[string]bool{}, name: fmt.Sprintf("history %d (%s)", i, storage), signer: c20Signer(ca)}
		h.box = c20NewBox([]func(string) string{nil, func(p string) string { return p + "/x/../wd" }}[(i/2)%2])
		h.confURL = origin.URL(fmt.Sprintf("/h%d/conf.crl", i))
		h.cdpURL = origin.URL(fmt.Sprintf("/h%d/cdp.crl", i))
		h.confID, _ = (&crlloader.URLLoader{UrlString: h.confURL, Logger: logger}).GetCRLLocationIdentifier()
		ld, _ := (crlloader.DefaultCRLLoaderFactory{}).CreatePreferredCrlLoader(&core.CRLLocations{CRLDistributionPoints: []string{h.cdpURL}}, logger)
		h.cdpID, _ = ld.GetCRLLocationIdentifier()
		h.pathOf[h.confID] = fmt.Sprintf("/h%d/conf.crl", i)
		h.pathOf[h.cdpID] = fmt.Sprintf("/h%d/cdp.crl", i)
		h.leaf = ca.IssueLeaf(LeafOpts{CDP: []string{h.cdpURL}})
		h.baseline, _ = diskPluginGoroutines()
		r.Op(fmt.Sprintf("path life init %s %s", storage, hexs([]byte(h.box.wdSpelling))), h.observe(true))
		// foreign files present before startup
		for j, fn := range []string{"crl_x_tmp", "crl_tmp", "xcrl_a_tmp", "crl_a_tmp.bak", "crl_dir_tmp", "notes.txt"} {
			h.dropForeign(fn, j == 4)
		}
		// provisioning: sometimes the configured location is unusable at first
		first := "good"
		if i%5 == 3 {
			first = []string{"garbage", "badsig", "truncated"}[(i/5)%3]
		}
		if first == "badsig" && !h.verify {
			first = "garbage"
		}
		h.setOrigin(h.confID, h.next(first))
		h.provision()
		if h.v == nil {
			h.setOrigin(h.confID, h.next("good"))
			h.provision()
		}
		downs := 0
		steps := 7
		for s := 0; s < steps; s++ {
			k := kinds[r.Rng.Intn(len(kinds))]
			if k == "down" {
				if downs > 0 {
					k = "garbage"
				}
				downs++
			}
			switch r.Rng.Intn(6) {
			case 0, 1:
				h.handshake(h.next(k))
			case 2:
				h.refresh(h.confID, h.next(k))
			case 3:
				if h.stores[h.cdpID] || storage == "memory" {
					h.refresh(h.cdpID, h.next(k))
				} else {
					h.handshake(h.next(k))
				}
			case 4:
				h.dropForeign([]string{"crl_late_tmp", "crl_y_tmp", "zz", "crl_tmp2"}[s%4], false)
			case 5:
				// restart: cleanup, then provision on what is there
				h.cleanup()
				h.setOrigin(h.confID, h.next("good"))
				h.provision()
			}
		}
		h.cleanup()
		r.Sample(map[string]interface{}{"history": h.name, "verify": h.verify, "final_listing": listDir(h.box.wd)})
	}
}

// ---- D: cycles ----------------------------------------------------------------------------------------------

func c20Cycles(r *Run, ca *CA) {
	origin := NewOrigin()
	defer origin.Close()
	k := 50
	if r.Thorough() {
		k = 2000
	}
	box := c20NewBox(nil)
	u := origin.URL("/cycles/conf.crl")
	id, _ := (&crlloader.URLLoader{UrlString: u}).GetCRLLocationIdentifier()
	st := diskOriginState{Kind: "good", Serial: 4, Tag: 1}
	origin.Set("/cycles/conf.crl", diskBehaviourFor(ca, st))
	h := &c20Hist{r: r, ca: ca, origin: origin, storage: "disk", verify: true, box: box, state: map[string]diskOriginState{id: st},
		pathOf: map[string]string{id: "/cycles/conf.crl"}, foreign: map[string]bool{}, stores: map[string]bool{}, name: "cycles",
		confURL: u, confID: id, signer: c20Signer(ca)}
	h.baseline, _ = diskPluginGoroutines()
	r.Op(fmt.Sprintf("path life init disk %s", hexs([]byte(box.wdSpelling))), h.observe(true))
	// a closed goleveldb handle keeps one goroutine for up to a second (mpoolDrain): let those of earlier parts end
	settle := func() int {
		time.Sleep(1500 * time.Millisecond)
		runtime.GC()
		return runtime.NumGoroutine()
	}
	g0 := settle()
	gMid := 0
	var lingering time.Duration
	t0 := time.Now()
	for c := 0; c < k; c++ {
		h.name = fmt.Sprintf("cycle %d", c)
		racy := c%10 == 9
		if !racy {
			h.provision()
			h.cleanup()
		} else {
			// Cleanup immediately, while the ticker goroutine's first pass may be anywhere
			v, err := Provision(VCfg{Mode: "crl_only", WorkDir: box.wdSpelling, Storage: "disk", CDPStrict: true, NoOCSPConfig: true, CRLUrls: []string{u},
				TrustedSigners: []string{h.signer}})
			if err != nil {
				r.Violate("C20 provision-failed-in-cycle", fmt.Sprintf("cycle %d: %v", c, err), nil)
				break
			}
			h.stores[id] = true
			if c%100 == 19 {
				// once in a while make sure Cleanup arrives while the ticker goroutine's first pass is staging the new CRL
				staging := make(chan struct{}, 1)
				verifhook.SetCallback(func(name string) {
					if name == "ldb.put.meta" {
						select {
						case staging <- struct{}{}:
						default:
						}
						time.Sleep(300 * time.Millisecond)
					}
				})
				select {
				case <-staging:
					r.Count("event:cleanup-during-staging")
				case <-time.After(2 * time.Second):
				}
				v.Close()
				verifhook.SetCallback(nil)
			}
			v.Close()
			// settle: the pass that was in flight ends by itself (its store handles are closed; retries take seconds)
			closedAt := time.Now()
			deadline := closedAt.Add(60 * time.Second)
			for time.Now().Before(deadline) {
				_, upd := diskPluginGoroutines()
				if upd == 0 {
					break
				}
				time.Sleep(50 * time.Millisecond)
			}
			if _, upd := diskPluginGoroutines(); upd != 0 {
				r.Violate("C20 update-pass-survives-cleanup", fmt.Sprintf("cycle %d: %d update passes still running 60 s after Cleanup", c, upd), nil)
			}
			if d := time.Since(closedAt); d > lingering {
				lingering = d
			}
			if time.Since(closedAt) > time.Second {
				// not counted as a violation (it ends by itself and cannot touch a live store), but reported
				r.Count("observation:update-pass-outlives-cleanup-by-more-than-1s")
			}
			h.v = nil
			// one model line for "Provision, then Cleanup at once": only the settled state is compared
			r.Op(fmt.Sprintf("path life cycle true %s/%s/%s -", hexs([]byte(id)), st.model(), st.model()), h.observe(true))
			h.oracle("cleanup right after provision")
			r.Count("event:racy-cleanup")
		}
		r.Eval(fmt.Sprintf("cycle/%d", c), true)
		if c == k/2 {
			gMid = settle()
		}
	}
	g1 := settle()
	r.Count(fmt.Sprintf("cycles:%d", k))
	r.Note(fmt.Sprintf("cycles: k=%d in %.1fs, goroutines before=%d mid=%d after=%d; longest time an update pass that was in flight at Cleanup kept running (temp artefacts in the deregistered work_dir): %.1fs",
		k, time.Since(t0).Seconds(), g0, gMid, g1, lingering.Seconds()))
	if os.Getenv("VERIF_DEBUG_GOROUTINES") != "" {
		cnt := map[string]int{}
		for _, g := range strings.Split(diskAllStacks(), "\n\n") {
			lines := strings.Split(g, "\n")
			key := ""
			for i := len(lines) - 1; i >= 0; i-- {
				if strings.HasPrefix(lines[i], "created by ") {
					key = lines[i]
					break
				}
			}
			if key == "" && len(lines) > 1 {
				key = lines[1]
			}
			cnt[key]++
		}
		for k, v := range cnt {
			fmt.Printf("GOROUTINES %d %s\n", v, k)
		}
	}
	if g1-g0 > 8 || (gMid > 0 && g1-gMid > 2) {
		r.Violate("C20 goroutines-grow-with-cycles", fmt.Sprintf("goroutines before=%d after %d cycles=%d after %d cycles=%d", g0, k/2, gMid, k, g1), nil)
	}
	if d := box.outsideDiff(); len(d) > 0 {
		r.Violate("C20 outside-work-dir", fmt.Sprintf("cycles: %v", d), nil)
	}
}
