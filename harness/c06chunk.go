package main

// C06 (chunking): the real bufio.Reader + hashing.HashingReaderWrapper + asn1parser read loops over a scripted
// underlying reader that chops the stream into arbitrary chunks, against the Lean model `Crv/Chunk.lean`
// (stream name `chunk`), plus two implementation-side oracles:
//   * the same op sequence over the same bytes delivered as ONE chunk through a 4096-byte buffer gives the
//     same results (as long as no Peek exceeded the small buffer — that is outside the reader's envelope);
//   * the digest returned by FinishHashCalculation is SHA-256 over exactly the bytes consumed by reads
//     (not discards, not peeks) since StartHashCalculation.

import (
	"bufio"
	"bytes"
	"crypto"
	"crypto/sha256"
	"errors"
	"fmt"
	"io"
	"strings"

	"github.com/gr33nbl00d/caddy-revocation-validator/core/asn1parser"
	"github.com/gr33nbl00d/caddy-revocation-validator/core/hashing"
)

// chunkScript is an io.Reader delivering the given chunks: at most the head chunk per call, split when the
// caller's slice is shorter; (0, io.EOF) once exhausted; never (0, nil) for a non-empty slice.
type chunkScript struct {
	chunks [][]byte
	calls  int
}

func (s *chunkScript) Read(p []byte) (int, error) {
	s.calls++
	if len(s.chunks) == 0 {
		return 0, io.EOF
	}
	if len(p) == 0 {
		return 0, nil
	}
	c := s.chunks[0]
	n := copy(p, c)
	if n == len(c) {
		s.chunks = s.chunks[1:]
	} else {
		s.chunks[0] = c[n:]
	}
	return n, nil
}

func (s *chunkScript) rest() []byte {
	var out []byte
	for _, c := range s.chunks {
		out = append(out, c...)
	}
	return out
}

type chunkOp struct {
	Kind string // read peek discard hashon hashoff state buf
	A, B int
}

func (o chunkOp) String() string {
	switch o.Kind {
	case "read", "discard":
		return fmt.Sprintf("%s %d", o.Kind, o.A)
	case "peek":
		return fmt.Sprintf("peek %d %d", o.A, o.B)
	case "hashon":
		return "hash on"
	case "hashoff":
		return "hash off"
	}
	return o.Kind
}

func chunkErrClass(err error) string {
	switch {
	case err == io.EOF || strings.Contains(err.Error(), "end of file"):
		return "eof"
	case errors.Is(err, bufio.ErrBufferFull):
		return "bufferfull"
	case errors.Is(err, bufio.ErrNegativeCount):
		return "negative"
	}
	return "error:" + err.Error()
}

type chunkResult struct {
	obs     []string
	digests [][]byte // one per "hash off"
	calls   int      // Read calls on the underlying reader
}

// runChunkOps runs ops through the REAL code over the given chunking and buffer size. total = all bytes.
// wantDigest receives, per "hash off", the bytes the digest is expected to cover (computed from positions only).
func runChunkOps(size int, chunks [][]byte, total []byte, ops []chunkOp) (res chunkResult, wantDigest [][]byte, panicked string) {
	cp := make([][]byte, 0, len(chunks))
	for _, c := range chunks {
		if len(c) > 0 {
			cp = append(cp, append([]byte(nil), c...))
		}
	}
	src := &chunkScript{chunks: cp}
	br := bufio.NewReaderSize(src, size)
	w := hashing.NewHashingReaderWrapper(br)
	defer func() {
		if e := recover(); e != nil {
			panicked = fmt.Sprint(e)
		}
		res.calls = src.calls
	}()
	hashing_ := false
	var covered []byte
	for _, o := range ops {
		switch o.Kind {
		case "read":
			before := w.Position()
			bs, err := asn1parser.ReadExpectedBytes(&w, o.A)
			after := w.Position()
			if hashing_ && after <= int64(len(total)) {
				covered = append(covered, total[before:after]...)
			}
			if err != nil {
				res.obs = append(res.obs, fmt.Sprintf("%s pos=%d", chunkErrClass(err), after))
			} else {
				res.obs = append(res.obs, fmt.Sprintf("%s pos=%d", hexs(bs), after))
			}
		case "peek":
			bs, err := asn1parser.PeekExpectedBytes(&w, o.A, o.B)
			if err != nil {
				res.obs = append(res.obs, chunkErrClass(err))
			} else {
				res.obs = append(res.obs, hexs(bs))
			}
		case "discard":
			err := w.Discard(int64(o.A))
			if err != nil {
				res.obs = append(res.obs, fmt.Sprintf("%s pos=%d", chunkErrClass(err), w.Position()))
			} else {
				res.obs = append(res.obs, fmt.Sprintf("ok pos=%d", w.Position()))
			}
		case "hashon":
			w.StartHashCalculation(crypto.SHA256)
			hashing_ = true
			covered = nil
			res.obs = append(res.obs, "ok")
		case "hashoff":
			res.digests = append(res.digests, w.FinishHashCalculation())
			wantDigest = append(wantDigest, append([]byte(nil), covered...))
			hashing_ = false
			res.obs = append(res.obs, "ok")
		case "state":
			buffered, _ := br.Peek(br.Buffered()) // no fill: n <= Buffered()
			flat := append(append([]byte(nil), buffered...), src.rest()...)
			res.obs = append(res.obs, fmt.Sprintf("pos=%d flat=%s", w.Position(), hexs(flat)))
		case "buf": // chunk-dependent internals: only compared with the model, never with the reference run
			res.obs = append(res.obs, fmt.Sprintf("buffered=%d srcreads=%d", br.Buffered(), src.calls))
		}
	}
	return
}

func c06ChunkStream(r *Run) {
	seqs := 300
	if r.Thorough() {
		seqs = 8000
	}
	caps := []int{16, 17, 64, 4096}
	for i := 0; i < seqs; i++ {
		size := caps[r.Rng.Intn(len(caps))]
		if size == 4096 && r.Rng.Intn(3) != 0 {
			size = caps[r.Rng.Intn(3)]
		}
		// total length around multiples of the buffer size, or short
		var totalLen int
		switch r.Rng.Intn(5) {
		case 0:
			totalLen = r.Rng.Intn(8)
		case 1:
			totalLen = size*(1+r.Rng.Intn(3)) + r.Rng.Intn(5) - 2
		case 2:
			totalLen = r.Rng.Intn(3*size + 1)
		default:
			if size <= 64 {
				totalLen = 2*size + r.Rng.Intn(6*size)
			} else {
				totalLen = size + r.Rng.Intn(2*size)
			}
		}
		if totalLen < 0 {
			totalLen = 0
		}
		total := make([]byte, totalLen)
		r.Rng.Read(total)
		// chunking: a style per sequence
		var chunks [][]byte
		style := r.Rng.Intn(6)
		for rest := total; len(rest) > 0; {
			var n int
			switch style {
			case 0:
				n = 1
			case 1:
				n = 48 // the base64 decoder's habit
			case 2:
				n = size + r.Rng.Intn(3) - 1
			case 3:
				n = 1 + r.Rng.Intn(2*size)
			case 4:
				n = len(rest)
			default:
				n = 1 + r.Rng.Intn(7)
			}
			if n < 1 {
				n = 1
			}
			if n > len(rest) {
				n = len(rest)
			}
			chunks = append(chunks, rest[:n])
			rest = rest[n:]
		}
		// ops
		nops := 12
		var ops []chunkOp
		hashOn := false
		remain := totalLen     // generator-side estimate of what is left, only used to aim sizes at the end of input
		around := func() int { // sizes biased around chunk / buffer / end-of-input boundaries, mostly small
			switch r.Rng.Intn(16) {
			case 0:
				return 0
			case 1:
				return 1
			case 2:
				return size + r.Rng.Intn(3) - 1
			case 3:
				return r.Rng.Intn(3*size + 1)
			case 4:
				return remain + r.Rng.Intn(3) - 1
			case 5:
				return remain/2 + r.Rng.Intn(3)
			case 6, 7:
				if len(chunks) > 0 {
					return len(chunks[r.Rng.Intn(len(chunks))]) + r.Rng.Intn(3) - 1
				}
				return 2
			case 8, 9:
				return r.Rng.Intn(size/2 + 2)
			default:
				return r.Rng.Intn(9)
			}
		}
		consume := func(k int) {
			if k > remain {
				remain = 0
			} else if k > 0 {
				remain -= k
			}
		}
		for len(ops) < nops {
			if len(ops) > 0 && ops[len(ops)-1].Kind != "buf" && r.Rng.Intn(3) == 0 {
				ops = append(ops, chunkOp{Kind: "buf"})
				nops++
				continue
			}
			switch x := r.Rng.Intn(20); {
			case x < 8:
				k := around()
				if k < 0 {
					k = 0
				}
				ops = append(ops, chunkOp{Kind: "read", A: k})
				consume(k)
			case x < 13:
				var n, off int
				if r.Rng.Intn(6) == 0 { // beyond the buffer: ErrBufferFull
					n = size - r.Rng.Intn(3)
					off = 1 + r.Rng.Intn(size)
					if n+off <= size {
						off = size - n + 1
					}
				} else {
					sum := around()
					if sum > size {
						sum = size - r.Rng.Intn(3)
					}
					if sum < 0 {
						sum = 0
					}
					off = r.Rng.Intn(sum + 1)
					n = sum - off
				}
				ops = append(ops, chunkOp{Kind: "peek", A: n, B: off})
			case x < 17:
				k := around()
				if r.Rng.Intn(40) == 0 {
					k = -1 - r.Rng.Intn(3)
				}
				ops = append(ops, chunkOp{Kind: "discard", A: k})
				consume(k)
			case x < 19:
				if hashOn {
					ops = append(ops, chunkOp{Kind: "hashoff"})
				} else {
					ops = append(ops, chunkOp{Kind: "hashon"})
				}
				hashOn = !hashOn
			default:
				ops = append(ops, chunkOp{Kind: "state"})
			}
		}
		if hashOn {
			ops = append(ops, chunkOp{Kind: "hashoff"})
		}

		res, want, pan := runChunkOps(size, chunks, total, ops)
		replay := map[string]interface{}{"cap": size, "chunks": chunkHex(chunks), "ops": fmt.Sprint(ops)}
		if pan != "" {
			r.Violate("C06 chunk-panic", pan, replay)
			continue
		}
		// model stream
		mops := []string{"chunk open " + fmt.Sprint(size) + chunkWords(chunks)}
		mobs := []string{"ok"}
		for j, o := range ops {
			mops = append(mops, "chunk "+o.String())
			mobs = append(mobs, res.obs[j])
		}
		r.OpBlock(mops, mobs)

		// oracle: the digest covers exactly the bytes consumed by reads while hashing
		for j := range res.digests {
			sum := sha256.Sum256(want[j])
			if !bytes.Equal(sum[:], res.digests[j]) {
				r.Violate("C06 chunk-digest", fmt.Sprintf("digest #%d is not SHA-256 of the %d bytes consumed by reads", j, len(want[j])), replay)
			}
		}
		// oracle: chunking / buffer size do not matter (inside the envelope: no Peek beyond the buffer so far)
		ref, _, rpan := runChunkOps(4096, [][]byte{total}, total, ops)
		if rpan != "" {
			r.Violate("C06 chunk-panic", "reference run: "+rpan, replay)
			continue
		}
		inEnvelope := true
		nontrivial := false
		for j, o := range ops {
			if o.Kind == "peek" && o.A+o.B > size {
				inEnvelope = false // ErrBufferFull, and b.err may stay pending afterwards
				r.Count("peek-beyond-buffer")
			}
			if !inEnvelope {
				break
			}
			if o.Kind == "buf" {
				continue
			}
			if res.obs[j] != ref.obs[j] {
				r.Violate("C06 chunk-dependence", fmt.Sprintf("op %d (%s): chunked %q, single chunk %q", j, o, res.obs[j], ref.obs[j]), replay)
				break
			}
			if o.Kind == "read" && o.A > 0 && !strings.HasPrefix(res.obs[j], "eof") {
				nontrivial = true
			}
		}
		if inEnvelope {
			for j := range res.digests {
				if j < len(ref.digests) && !bytes.Equal(res.digests[j], ref.digests[j]) {
					r.Violate("C06 chunk-dependence", fmt.Sprintf("digest #%d differs between chunked and single-chunk run", j), replay)
				}
			}
		}
		for j, o := range ops {
			r.Count("chunk " + o.Kind + " " + chunkBucket(res.obs[j]))
		}
		r.Count(fmt.Sprintf("chunk cap=%d style=%d", size, style))
		if res.calls > 1 {
			r.Count("chunk multi-read")
		}
		r.Eval(fmt.Sprintf("chunk %d %s %v", size, chunkHex(chunks), ops), nontrivial && len(chunks) > 1)
	}
}

func chunkBucket(obs string) string {
	switch {
	case strings.HasPrefix(obs, "eof"):
		return "eof"
	case strings.HasPrefix(obs, "bufferfull"):
		return "bufferfull"
	case strings.HasPrefix(obs, "negative"):
		return "negative"
	}
	return "ok"
}

func chunkWords(chunks [][]byte) string {
	var sb strings.Builder
	for _, c := range chunks {
		sb.WriteString(" ")
		sb.WriteString(hexs(c))
	}
	return sb.String()
}

func chunkHex(chunks [][]byte) []string {
	out := make([]string, len(chunks))
	for i, c := range chunks {
		out[i] = hexs(c)
	}
	return out
}
