package main

// Helpers for the concurrency / scheduling clusters (C13, C15): watchdog around calls into the real code,
// child processes (normal and -race builds of this harness), race report parsing, access facts lookup,
// time-stamped origin fetch log.

import (
	"encoding/json"
	"fmt"
	"io"
	"net/http"
	"net/http/httptest"
	"os"
	"os/exec"
	"path/filepath"
	"regexp"
	"runtime/debug"
	"sort"
	"strings"
	"sync"
	"time"
)

const concModulePath = "github.com/gr33nbl00d/caddy-revocation-validator"

// ---- watchdog -------------------------------------------------------------------------------

type concOutcome struct {
	Returned bool
	Slow     bool
	Panic    string
	Took     time.Duration
}

// concGuard runs f on its own goroutine and waits at most timeout for it to return; a panic inside f is caught.
func concGuard(timeout time.Duration, f func()) concOutcome { return concGuardExt(timeout, 0, f) }

// concGuardExt: like concGuard, but a call that has not returned after timeout gets ext more time and is
// then reported as Slow (a long queue behind a mutex is not a deadlock; never returning is).
func concGuardExt(timeout, ext time.Duration, f func()) concOutcome {
	done := make(chan string, 1)
	t0 := time.Now()
	go func() {
		defer func() {
			if p := recover(); p != nil {
				done <- fmt.Sprintf("%v\n%s", p, debug.Stack())
				return
			}
			done <- ""
		}()
		f()
	}()
	select {
	case p := <-done:
		return concOutcome{Returned: true, Panic: p, Took: time.Since(t0)}
	case <-time.After(timeout):
	}
	if ext > 0 {
		select {
		case p := <-done:
			return concOutcome{Returned: true, Slow: true, Panic: p, Took: time.Since(t0)}
		case <-time.After(ext):
		}
	}
	return concOutcome{Returned: false, Took: time.Since(t0)}
}

// ---- child processes ------------------------------------------------------------------------

type concChildViolation struct {
	Signature string      `json:"signature"`
	Detail    string      `json:"detail"`
	Replay    interface{} `json:"replay"`
}

type concChildResult struct {
	Violations []concChildViolation `json:"violations"`
	Evals      []concChildEval      `json:"evals"`
	Dist       map[string]int       `json:"dist"`
	Samples    []interface{}        `json:"samples"`
	Notes      []string             `json:"notes"`
	Extra      map[string]string    `json:"extra"`
}

type concChildEval struct {
	Key        string `json:"key"`
	Nontrivial bool   `json:"nontrivial"`
	N          int    `json:"n"`
}

type concCollector struct {
	mu  sync.Mutex
	res concChildResult
	ev  map[string]*concChildEval
}

func newConcCollector() *concCollector {
	return &concCollector{res: concChildResult{Dist: map[string]int{}, Extra: map[string]string{}}, ev: map[string]*concChildEval{}}
}

func (c *concCollector) Violate(sig, detail string, replay interface{}) {
	c.mu.Lock()
	defer c.mu.Unlock()
	if len(c.res.Violations) < 100 {
		c.res.Violations = append(c.res.Violations, concChildViolation{sig, detail, replay})
	}
}

func (c *concCollector) Eval(key string, nontrivial bool) {
	c.mu.Lock()
	defer c.mu.Unlock()
	e := c.ev[key]
	if e == nil {
		e = &concChildEval{Key: key}
		c.ev[key] = e
	}
	e.N++
	e.Nontrivial = e.Nontrivial || nontrivial
}

func (c *concCollector) Count(b string) {
	c.mu.Lock()
	defer c.mu.Unlock()
	c.res.Dist[b]++
}

func (c *concCollector) Sample(s interface{}) {
	c.mu.Lock()
	defer c.mu.Unlock()
	if len(c.res.Samples) < 6 {
		c.res.Samples = append(c.res.Samples, s)
	}
}

func (c *concCollector) Note(s string) {
	c.mu.Lock()
	defer c.mu.Unlock()
	c.res.Notes = append(c.res.Notes, s)
}

func (c *concCollector) write(path string) {
	c.mu.Lock()
	defer c.mu.Unlock()
	keys := make([]string, 0, len(c.ev))
	for k := range c.ev {
		keys = append(keys, k)
	}
	sort.Strings(keys)
	c.res.Evals = nil
	for _, k := range keys {
		c.res.Evals = append(c.res.Evals, *c.ev[k])
	}
	b, err := json.Marshal(c.res)
	must(err)
	must(os.WriteFile(path, b, 0644))
}

// merge folds a child's result into the run.
func (r *Run) concMergeChild(prefix string, c *concChildResult) {
	for _, v := range c.Violations {
		r.Violate(v.Signature, prefix+v.Detail, v.Replay)
	}
	for _, e := range c.Evals {
		for i := 0; i < e.N; i++ {
			r.Eval(prefix+e.Key, e.Nontrivial)
		}
	}
	for k, n := range c.Dist {
		for i := 0; i < n; i++ {
			r.Count(prefix + k)
		}
	}
	for _, s := range c.Samples {
		r.Sample(s)
	}
	for _, n := range c.Notes {
		r.Note(prefix + n)
	}
}

// concRunChild starts bin (this harness or its -race build) with the child role and waits for it.
// Returns the parsed result (nil if the child did not produce one), its exit error and combined output tail.
func concRunChild(bin string, env []string, outFile string, timeout time.Duration) (*concChildResult, error, string) {
	cmd := exec.Command(bin)
	cmd.Env = append(os.Environ(), env...)
	logf, _ := os.CreateTemp(scratchRoot, "child-out-")
	cmd.Stdout = logf
	cmd.Stderr = logf
	if err := cmd.Start(); err != nil {
		return nil, err, ""
	}
	done := make(chan error, 1)
	go func() { done <- cmd.Wait() }()
	var err error
	select {
	case err = <-done:
	case <-time.After(timeout):
		cmd.Process.Kill()
		err = fmt.Errorf("child timed out after %s", timeout)
		<-done
	}
	logf.Close()
	tail := ""
	if b, e := os.ReadFile(logf.Name()); e == nil {
		if len(b) > 3000 {
			b = b[len(b)-3000:]
		}
		tail = string(b)
	}
	var res *concChildResult
	if b, e := os.ReadFile(outFile); e == nil {
		res = &concChildResult{}
		if json.Unmarshal(b, res) != nil {
			res = nil
		}
	}
	return res, err, tail
}

// concBuildRaceHarness builds this harness with the race detector; "" and the reason if that is impossible here.
func concBuildRaceHarness() (string, string) {
	if _, err := exec.LookPath("gcc"); err != nil {
		return "", "gcc not found (the race detector needs cgo)"
	}
	dir := ""
	for _, d := range []string{"harness", "/verif/harness", "."} {
		if _, err := os.Stat(filepath.Join(d, "infra_conc.go")); err == nil {
			dir = d
			break
		}
	}
	if dir == "" {
		return "", "harness sources not found"
	}
	out := filepath.Join(scratchRoot, "harness-race")
	cmd := exec.Command("go", "build", "-race", "-tags", "verif", "-o", out, ".")
	cmd.Dir = dir
	cmd.Env = append(os.Environ(), "GOFLAGS=-mod=mod", "GOPROXY=off", "GOSUMDB=off", "GOTOOLCHAIN=local", "CGO_ENABLED=1")
	b, err := cmd.CombinedOutput()
	if err != nil {
		s := string(b)
		if len(s) > 800 {
			s = s[len(s)-800:]
		}
		return "", "go build -race failed: " + strings.TrimSpace(s)
	}
	return out, ""
}

// ---- race reports ---------------------------------------------------------------------------

type concRaceFrame struct {
	Func string // short: Type.Method or func
	File string // path relative to the module root
	Line int
}

type concRaceReport struct {
	A, B    []concRaceFrame // module frames of the two accesses, innermost first
	Text    string
	InShims bool
}

var concReFuncLine = regexp.MustCompile(`^\s+(\S+)\(.*\)\s*$`)
var concReFileLine = regexp.MustCompile(`^\s+(\S+):(\d+)( \+0x[0-9a-f]+)?\s*$`)
var concReAccess = regexp.MustCompile(`^(Write|Read|Previous write|Previous read|Atomic write|Atomic read|Previous atomic write|Previous atomic read) at 0x[0-9a-f]+ by `)

func concShortFunc(f string) string {
	f = strings.TrimPrefix(f, concModulePath)
	f = strings.TrimPrefix(f, "/")
	if i := strings.LastIndex(f, "/"); i >= 0 {
		f = f[i+1:]
	}
	// pkg.(*T).M -> T.M ; pkg.F -> F
	if i := strings.Index(f, "."); i >= 0 {
		f = f[i+1:]
	}
	f = strings.NewReplacer("(*", "", ")", "").Replace(f)
	return f
}

// concParseRaceLogs reads every file matching prefix* and returns the data race reports with a frame in the module.
func concParseRaceLogs(prefix, repoRoot string) (reports []concRaceReport, total int) {
	files, _ := filepath.Glob(prefix + "*")
	for _, fn := range files {
		b, err := os.ReadFile(fn)
		if err != nil {
			continue
		}
		for _, block := range strings.Split(string(b), "==================") {
			if !strings.Contains(block, "WARNING: DATA RACE") {
				continue
			}
			total++
			var stacks [][]concRaceFrame
			var cur []concRaceFrame
			in := false
			lines := strings.Split(block, "\n")
			for i := 0; i < len(lines); i++ {
				l := lines[i]
				if concReAccess.MatchString(l) {
					if in {
						stacks = append(stacks, cur)
					}
					cur, in = nil, true
					continue
				}
				if strings.HasPrefix(l, "Goroutine ") {
					if in {
						stacks = append(stacks, cur)
					}
					in = false
					continue
				}
				if !in {
					continue
				}
				m := concReFuncLine.FindStringSubmatch(l)
				if m == nil || i+1 >= len(lines) {
					continue
				}
				fl := concReFileLine.FindStringSubmatch(lines[i+1])
				if fl == nil {
					continue
				}
				i++
				if !strings.HasPrefix(m[1], concModulePath) {
					continue
				}
				rel := fl[1]
				if r, err := filepath.Rel(repoRoot, fl[1]); err == nil {
					rel = r
				}
				var ln int
				fmt.Sscan(fl[2], &ln)
				cur = append(cur, concRaceFrame{Func: concShortFunc(m[1]), File: rel, Line: ln})
			}
			if in {
				stacks = append(stacks, cur)
			}
			if len(stacks) < 2 || (len(stacks[0]) == 0 && len(stacks[1]) == 0) {
				continue
			}
			rep := concRaceReport{A: stacks[0], B: stacks[1], Text: strings.TrimSpace(block)}
			if len(rep.Text) > 1800 {
				rep.Text = rep.Text[:1800]
			}
			reports = append(reports, rep)
		}
	}
	return
}

func (r concRaceReport) signature() string {
	f := func(s []concRaceFrame) string {
		if len(s) == 0 {
			return "(outside)"
		}
		return s[0].Func
	}
	a, b := f(r.A), f(r.B)
	if b < a {
		a, b = b, a
	}
	return "C13 data-race " + a + "/" + b
}

// ---- access facts ---------------------------------------------------------------------------

type concLockFacts struct {
	Accesses   []map[string]string `json:"locks.accesses"`
	FieldNames []string            `json:"locks.fieldNames"`
	LockNames  []string            `json:"locks.lockNames"`
	ProgNames  []string            `json:"locks.progNames"`
}

func concLoadLockFacts() (*concLockFacts, error) {
	var lastErr error
	for _, p := range []string{"lean/Crv/Generated/facts.json", "/verif/lean/Crv/Generated/facts.json"} {
		b, err := os.ReadFile(p)
		if err != nil {
			lastErr = err
			continue
		}
		var f concLockFacts
		if err := json.Unmarshal(b, &f); err != nil {
			return nil, err
		}
		if len(f.FieldNames) == 0 {
			return nil, fmt.Errorf("%s has no lock facts", p)
		}
		return &f, nil
	}
	return nil, lastErr
}

// fieldsAt: tracked fields accessed at file:line according to the translator.
func (f *concLockFacts) fieldsAt(file string, line int) []string {
	pos := fmt.Sprintf("%s:%d", file, line)
	seen := map[string]bool{}
	var out []string
	for _, a := range f.Accesses {
		if a["pos"] == pos && !seen[a["field"]] {
			seen[a["field"]] = true
			out = append(out, a["field"])
		}
	}
	return out
}

// ---- time-stamped fetch log -----------------------------------------------------------------

type concFetchLog struct {
	mu sync.Mutex
	at map[string][]time.Time
}

func newConcFetchLog() *concFetchLog { return &concFetchLog{at: map[string][]time.Time{}} }

func (l *concFetchLog) add(path string) {
	l.mu.Lock()
	l.at[path] = append(l.at[path], time.Now())
	l.mu.Unlock()
}

func (l *concFetchLog) times(path string) []time.Time {
	l.mu.Lock()
	defer l.mu.Unlock()
	return append([]time.Time{}, l.at[path]...)
}

func (l *concFetchLog) countBetween(path string, a, b time.Time) int {
	n := 0
	for _, t := range l.times(path) {
		if !t.Before(a) && !t.After(b) {
			n++
		}
	}
	return n
}

// ---- origin with time-stamped log and scripted answers ------------------------------------------

// ConcOrigin serves, per path, either a fixed behaviour or a script (the k-th request gets script[k],
// the last element repeats). Every request is logged with its arrival time.
type ConcOrigin struct {
	srv    *httptest.Server
	mu     sync.Mutex
	fixed  map[string]Behaviour
	script map[string][]Behaviour
	hits   map[string]int
	served map[string][]time.Time // per path: when the i-th scripted answer since SetScript was handed out
	dyn    map[string]func(body []byte) []byte
	Log    *concFetchLog
}

func NewConcOrigin() *ConcOrigin {
	o := &ConcOrigin{fixed: map[string]Behaviour{}, script: map[string][]Behaviour{}, hits: map[string]int{}, served: map[string][]time.Time{}, dyn: map[string]func([]byte) []byte{}, Log: newConcFetchLog()}
	o.srv = httptest.NewServer(http.HandlerFunc(o.handle))
	return o
}

func (o *ConcOrigin) handle(w http.ResponseWriter, r *http.Request) {
	p := r.URL.Path
	o.Log.add(p)
	o.mu.Lock()
	k := o.hits[p]
	o.hits[p] = k + 1
	b, ok := o.fixed[p]
	dyn := o.dyn[p]
	if s := o.script[p]; len(s) > 0 {
		if k >= len(s) {
			k = len(s) - 1
		}
		b, ok = s[k], true
		o.served[p] = append(o.served[p], time.Now())
	}
	o.mu.Unlock()
	if dyn != nil {
		body, _ := io.ReadAll(r.Body)
		w.Write(dyn(body))
		return
	}
	if !ok {
		w.WriteHeader(404)
		return
	}
	switch b.Kind {
	case "drop":
		if hj, ok := w.(http.Hijacker); ok {
			if c, _, err := hj.Hijack(); err == nil {
				c.Close()
				return
			}
		}
		w.WriteHeader(500)
	case "status":
		w.WriteHeader(b.Status)
		w.Write(b.Body)
	default:
		w.Write(b.Body)
	}
}

func (o *ConcOrigin) SetBytes(path string, body []byte) {
	o.mu.Lock()
	o.fixed[path] = Behaviour{Kind: "bytes", Body: body}
	delete(o.script, path)
	o.mu.Unlock()
}

func (o *ConcOrigin) Set(path string, b Behaviour) {
	o.mu.Lock()
	o.fixed[path] = b
	delete(o.script, path)
	o.mu.Unlock()
}

// SetScript: the next requests get s[0], s[1], … (the last one repeats); the hit counter restarts.
func (o *ConcOrigin) SetScript(path string, s []Behaviour) {
	o.mu.Lock()
	o.script[path] = s
	o.hits[path] = 0
	o.served[path] = nil
	o.mu.Unlock()
}

// ScriptServed: the instants at which the answers of the current script of path were handed out (the i-th element
// belongs to script[i], or to the last element once the script is used up). Taken under the same lock that picks the
// answer, so "the acceptable answer had been handed out before t" is a statement about the script, not about a
// request counter read at some other moment.
func (o *ConcOrigin) ScriptServed(path string) []time.Time {
	o.mu.Lock()
	defer o.mu.Unlock()
	return append([]time.Time{}, o.served[path]...)
}

func (o *ConcOrigin) Hits(path string) int   { return len(o.Log.times(path)) }
func (o *ConcOrigin) URL(path string) string { return o.srv.URL + path }
func (o *ConcOrigin) Close()                 { o.srv.Close() }

// SetDyn: answer computed from the request body (e.g. an OCSP responder).
func (o *ConcOrigin) SetDyn(path string, f func(body []byte) []byte) {
	o.mu.Lock()
	o.dyn[path] = f
	o.mu.Unlock()
}
