package main

import (
	"bufio"
	"crypto"
	"crypto/ecdsa"
	"crypto/rand"
	"crypto/rsa"
	_ "crypto/sha1"
	_ "crypto/sha256"
	_ "crypto/sha512"
	"crypto/x509/pkix"
	"encoding/asn1"
	"encoding/hex"
	"fmt"
	"io"
	"math/big"
	"os"
	"os/exec"
	"path/filepath"
	"strconv"
	"strings"
	"time"

	"github.com/gr33nbl00d/caddy-revocation-validator/core"
	"github.com/gr33nbl00d/caddy-revocation-validator/core/asn1parser"
	"github.com/gr33nbl00d/caddy-revocation-validator/crl/crlreader"
)

// ---- DER builder --------------------------------------------------------------

func derLen(n int) []byte {
	switch {
	case n < 0x80:
		return []byte{byte(n)}
	case n < 0x100:
		return []byte{0x81, byte(n)}
	case n < 0x10000:
		return []byte{0x82, byte(n >> 8), byte(n)}
	case n < 0x1000000:
		return []byte{0x83, byte(n >> 16), byte(n >> 8), byte(n)}
	default:
		return []byte{0x84, byte(n >> 24), byte(n >> 16), byte(n >> 8), byte(n)}
	}
}

func derTLV(tag byte, content ...[]byte) []byte {
	n := 0
	for _, c := range content {
		n += len(c)
	}
	out := make([]byte, 0, n+6)
	out = append(out, tag)
	out = append(out, derLen(n)...)
	for _, c := range content {
		out = append(out, c...)
	}
	return out
}

func derSeq(content ...[]byte) []byte { return derTLV(0x30, content...) }

func derInt(v *big.Int) []byte { return mustMarshal(v) }

func derOID(oid asn1.ObjectIdentifier) []byte { return mustMarshal(oid) }

func derUTC(t time.Time) []byte { return derTLV(0x17, []byte(t.UTC().Format("060102150405Z"))) }

func derGenTime(t time.Time) []byte { return derTLV(0x18, []byte(t.UTC().Format("20060102150405Z"))) }

func derBitString(b []byte) []byte { return derTLV(0x03, []byte{0}, b) }

func derOctets(b []byte) []byte { return derTLV(0x04, b) }

func derBool(b bool) []byte {
	if b {
		return []byte{0x01, 0x01, 0xff}
	}
	return []byte{0x01, 0x01, 0x00}
}

func derExt(oid asn1.ObjectIdentifier, critical bool, value []byte) []byte {
	if critical {
		return derSeq(derOID(oid), derBool(true), derOctets(value))
	}
	return derSeq(derOID(oid), derOctets(value))
}

// ---- CRL specification ----------------------------------------------------------

type sigAlgSpec struct {
	Name string
	OID  asn1.ObjectIdentifier
	Hash crypto.Hash
	EC   bool
	// unsupported by the plugin (PSS / Ed25519) when Hash == 0
}

var sigAlgs = []sigAlgSpec{
	{"sha1WithRSA", asn1.ObjectIdentifier{1, 2, 840, 113549, 1, 1, 5}, crypto.SHA1, false},
	{"sha224WithRSA", asn1.ObjectIdentifier{1, 2, 840, 113549, 1, 1, 14}, crypto.SHA224, false},
	{"sha256WithRSA", asn1.ObjectIdentifier{1, 2, 840, 113549, 1, 1, 11}, crypto.SHA256, false},
	{"sha384WithRSA", asn1.ObjectIdentifier{1, 2, 840, 113549, 1, 1, 12}, crypto.SHA384, false},
	{"sha512WithRSA", asn1.ObjectIdentifier{1, 2, 840, 113549, 1, 1, 13}, crypto.SHA512, false},
	{"ecdsaWithSHA1", asn1.ObjectIdentifier{1, 2, 840, 10045, 4, 1}, crypto.SHA1, true},
	{"ecdsaWithSHA224", asn1.ObjectIdentifier{1, 2, 840, 10045, 4, 3, 1}, crypto.SHA224, true},
	{"ecdsaWithSHA256", asn1.ObjectIdentifier{1, 2, 840, 10045, 4, 3, 2}, crypto.SHA256, true},
	{"ecdsaWithSHA384", asn1.ObjectIdentifier{1, 2, 840, 10045, 4, 3, 3}, crypto.SHA384, true},
	{"ecdsaWithSHA512", asn1.ObjectIdentifier{1, 2, 840, 10045, 4, 3, 4}, crypto.SHA512, true},
}

var oidRSAPSS = asn1.ObjectIdentifier{1, 2, 840, 113549, 1, 1, 10}
var oidEd25519 = asn1.ObjectIdentifier{1, 3, 101, 112}

type EntrySpec struct {
	Serial   *big.Int
	Time     time.Time
	GenTime  bool
	Exts     [][]byte // DER of each Extension
	RawExtra []byte
}

type CRLSpec struct {
	Version     int // 0 = field absent (v1); 1 = v2; n = INTEGER n
	VersionRaw  []byte // when set: the content octets of the version INTEGER as they are (e.g. the single octet 0xff)
	Alg         sigAlgSpec
	AlgParams   bool // NULL parameters (RSA)
	IssuerRaw   []byte
	ThisUpdate  time.Time
	NextUpdate  *time.Time
	Entries     []EntrySpec
	EmptyList   bool     // emit an empty revokedCertificates SEQUENCE
	Exts        [][]byte // crlExtensions (DER of each Extension); nil = absent
	Signer      crypto.Signer
	BadSig      bool
	OuterAlgOID asn1.ObjectIdentifier // override outer algorithm OID
}

func algIdDER(oid asn1.ObjectIdentifier, null bool) []byte {
	if null {
		return derSeq(derOID(oid), []byte{0x05, 0x00})
	}
	return derSeq(derOID(oid))
}

func (e EntrySpec) DER() []byte {
	t := derUTC(e.Time)
	if e.GenTime {
		t = derGenTime(e.Time)
	}
	parts := [][]byte{derInt(e.Serial), t}
	if len(e.Exts) > 0 {
		parts = append(parts, derSeq(e.Exts...))
	}
	return derSeq(parts...)
}

// Build returns the DER CRL and its tbsCertList bytes.
func (s CRLSpec) Build() (der, tbs []byte) {
	var parts [][]byte
	if s.VersionRaw != nil {
		parts = append(parts, derTLV(0x02, s.VersionRaw))
	} else if s.Version > 0 {
		parts = append(parts, derInt(big.NewInt(int64(s.Version))))
	}
	inner := algIdDER(s.Alg.OID, s.AlgParams)
	parts = append(parts, inner, s.IssuerRaw, derUTC(s.ThisUpdate))
	if s.NextUpdate != nil {
		parts = append(parts, derUTC(*s.NextUpdate))
	}
	if len(s.Entries) > 0 || s.EmptyList {
		var es [][]byte
		for _, e := range s.Entries {
			es = append(es, e.DER())
		}
		parts = append(parts, derSeq(es...))
	}
	if s.Exts != nil {
		parts = append(parts, derTLV(0xA0, derSeq(s.Exts...)))
	}
	tbs = derSeq(parts...)
	var sig []byte
	if s.Alg.Hash != 0 && s.Signer != nil {
		h := s.Alg.Hash.New()
		h.Write(tbs)
		digest := h.Sum(nil)
		var err error
		switch k := s.Signer.(type) {
		case *rsa.PrivateKey:
			sig, err = rsa.SignPKCS1v15(rand.Reader, k, s.Alg.Hash, digest)
		case *ecdsa.PrivateKey:
			sig, err = ecdsa.SignASN1(rand.Reader, k, digest)
		default:
			err = fmt.Errorf("unsupported signer %T", k)
		}
		must(err)
	} else {
		sig = make([]byte, 64)
		rand.Read(sig)
	}
	if s.BadSig {
		sig[len(sig)/2] ^= 0x40
	}
	outer := inner
	if s.OuterAlgOID != nil {
		outer = algIdDER(s.OuterAlgOID, s.AlgParams)
	}
	der = derSeq(tbs, outer, derBitString(sig))
	return der, tbs
}

func nameDER(cn string, extraRDNs int, pad int) []byte {
	var rdns [][]byte
	mk := func(oid asn1.ObjectIdentifier, tag byte, v string) []byte {
		return derTLV(0x31, derSeq(derOID(oid), derTLV(tag, []byte(v))))
	}
	rdns = append(rdns, mk(asn1.ObjectIdentifier{2, 5, 4, 6}, 0x13, "DE"))
	for i := 0; i < extraRDNs; i++ {
		rdns = append(rdns, mk(asn1.ObjectIdentifier{2, 5, 4, 11}, 0x0c, fmt.Sprintf("unit-%d-ü", i)))
	}
	if pad > 0 {
		// one or several OU values of the requested total padding size (each ≤ 200 bytes)
		for pad > 0 {
			n := pad
			if n > 200 {
				n = 200
			}
			rdns = append(rdns, mk(asn1.ObjectIdentifier{2, 5, 4, 11}, 0x13, strings.Repeat("p", n)))
			pad -= n
		}
	}
	rdns = append(rdns, mk(asn1.ObjectIdentifier{2, 5, 4, 3}, 0x0c, cn))
	return derSeq(rdns...)
}

// ---- recording processor / implementation run -----------------------------------

type recProcessor struct {
	meta    *crlreader.CRLMetaInfo
	entries []pkix.RevokedCertificate
	extMeta *crlreader.ExtendedCRLMetaInfo
	gotExt  bool
	sigCert bool
}

func (p *recProcessor) StartUpdateCrl(m *crlreader.CRLMetaInfo) error { p.meta = m; return nil }
func (p *recProcessor) InsertRevokedCertificate(e *crlreader.CRLEntry) error {
	p.entries = append(p.entries, *e.RevokedCertificate)
	return nil
}
func (p *recProcessor) UpdateExtendedMetaInfo(i *crlreader.ExtendedCRLMetaInfo) error {
	p.extMeta = i
	p.gotExt = true
	return nil
}
func (p *recProcessor) UpdateSignatureCertificate(*core.CertificateChainEntry) error {
	p.sigCert = true
	return nil
}

type implRead struct {
	class  string // ok err panic
	err    error
	proc   *recProcessor
	result *crlreader.CRLReadResult
	panicV interface{}
}

func implReadCRL(path string) (ir implRead) {
	ir.proc = &recProcessor{}
	defer func() {
		if p := recover(); p != nil {
			ir.class = "panic"
			ir.panicV = p
		}
	}()
	res, err := crlreader.StreamingCRLFileReader{}.ReadCRL(ir.proc, path)
	if err != nil {
		ir.class = "err"
		ir.err = err
		return
	}
	ir.class = "ok"
	ir.result = res
	return
}

// ---- Lean driver session (oracle completion) -------------------------------------

type Driver struct {
	cmd *exec.Cmd
	in  io.WriteCloser
	out *bufio.Reader
}

func driverPath() string {
	if p := os.Getenv("VERIF_DRIVER"); p != "" {
		return p
	}
	return "/verif/lean/.lake/build/bin/crvdriver"
}

func NewDriver() (*Driver, error) {
	p := driverPath()
	if _, err := os.Stat(p); err != nil {
		return nil, err
	}
	cmd := exec.Command(p)
	in, err := cmd.StdinPipe()
	if err != nil {
		return nil, err
	}
	out, err := cmd.StdoutPipe()
	if err != nil {
		return nil, err
	}
	if err := cmd.Start(); err != nil {
		return nil, err
	}
	return &Driver{cmd: cmd, in: in, out: bufio.NewReaderSize(out, 1<<20)}, nil
}

func (d *Driver) Ask(line string) (string, error) {
	if _, err := io.WriteString(d.in, line+"\n"); err != nil {
		return "", err
	}
	s, err := d.out.ReadString('\n')
	if err != nil {
		return "", err
	}
	return strings.TrimRight(s, "\n"), nil
}

func (d *Driver) Close() {
	d.in.Close()
	d.cmd.Wait()
}

type rdQuery struct {
	kind     string
	off, len int
}

func parseQueries(s string) []rdQuery {
	var qs []rdQuery
	for _, f := range strings.Fields(s) {
		p := strings.Split(f, ":")
		if len(p) != 3 {
			continue
		}
		o, _ := strconv.Atoi(p[1])
		l, _ := strconv.Atoi(p[2])
		qs = append(qs, rdQuery{p[0], o, l})
	}
	return qs
}

func oidString(o asn1.ObjectIdentifier) string { return o.String() }

// leafAnswer applies the real leaf decoder the plugin uses to the frame the model asks about.
func leafAnswer(kind string, b []byte) string {
	switch kind {
	case "alg":
		v := new(pkix.AlgorithmIdentifier)
		rest, err := asn1.Unmarshal(b, v)
		if err != nil || len(rest) != 0 {
			return "-"
		}
		return oidString(v.Algorithm)
	case "rdn":
		v := new(pkix.RDNSequence)
		rest, err := asn1.Unmarshal(b, v)
		if err != nil || len(rest) != 0 {
			return "0"
		}
		return "1"
	case "entry":
		v := new(pkix.RevokedCertificate)
		rest, err := asn1.Unmarshal(b, v)
		if err != nil || len(rest) != 0 {
			return "0"
		}
		return "1"
	case "utc":
		if _, err := asn1parser.ParseUTCTime(b); err != nil {
			return "0"
		}
		return "1"
	case "exts":
		v := new([]pkix.Extension)
		rest, err := asn1.Unmarshal(b, v)
		if err != nil || len(rest) != 0 {
			return "-"
		}
		if len(*v) == 0 {
			return "*"
		}
		var parts []string
		for _, e := range *v {
			c := "0"
			if e.Critical {
				c = "1"
			}
			parts = append(parts, fmt.Sprintf("%s/%s/%s", e.Id.String(), c, hexs(e.Value)))
		}
		return strings.Join(parts, ";")
	}
	return "?"
}

type modelRead struct {
	opLine  string
	answer  string
	class   string
	fields  map[string]string
	queries []rdQuery
}

// modelReadCRL runs the Lean model on the DER bytes with oracle completion: phase 1 asks which frames the
// leaf decoders would be consulted on, the real library answers, phase 2 runs the model with these answers.
func modelReadCRL(d *Driver, der []byte) (*modelRead, error) {
	h := hexs(der)
	fr, err := d.Ask("rd frames " + h)
	if err != nil {
		return nil, err
	}
	if !strings.HasPrefix(fr, "q") {
		return nil, fmt.Errorf("driver: %s", fr)
	}
	qs := parseQueries(strings.TrimPrefix(fr, "q"))
	var tab []string
	for _, q := range qs {
		if q.off+q.len > len(der) {
			continue
		}
		tab = append(tab, fmt.Sprintf("%s:%d:%d:%s", q.kind, q.off, q.len, leafAnswer(q.kind, der[q.off:q.off+q.len])))
	}
	spec := "-"
	if len(tab) > 0 {
		spec = strings.Join(tab, ",")
	}
	op := "rd run " + h + " " + spec
	ans, err := d.Ask(op)
	if err != nil {
		return nil, err
	}
	m := &modelRead{opLine: op, answer: ans, fields: map[string]string{}}
	fs := strings.Fields(ans)
	if len(fs) > 0 {
		m.class = strings.SplitN(fs[0], ":", 2)[0]
	}
	inQ := false
	for _, f := range fs[1:] {
		if kv := strings.SplitN(f, "=", 2); len(kv) == 2 {
			inQ = kv[0] == "q"
			m.fields[kv[0]] = kv[1]
			if inQ && kv[1] != "" {
				m.queries = append(m.queries, parseQueries(kv[1])...)
			}
			continue
		}
		if inQ {
			m.queries = append(m.queries, parseQueries(f)...)
		}
	}
	return m, nil
}

func (m *modelRead) pair(key string) (int, int, bool) {
	v, ok := m.fields[key]
	if !ok {
		return 0, 0, false
	}
	p := strings.Split(v, ",")
	if len(p) < 2 {
		return 0, 0, false
	}
	a, e1 := strconv.Atoi(p[0])
	b, e2 := strconv.Atoi(p[1])
	return a, b, e1 == nil && e2 == nil
}

func hashByName(n string) crypto.Hash {
	switch n {
	case "sha1":
		return crypto.SHA1
	case "sha224":
		return crypto.SHA224
	case "sha256":
		return crypto.SHA256
	case "sha384":
		return crypto.SHA384
	case "sha512":
		return crypto.SHA512
	}
	return 0
}

func digestOf(h crypto.Hash, b []byte) []byte {
	hh := h.New()
	hh.Write(b)
	return hh.Sum(nil)
}

func writeTemp(dir, name string, b []byte) string {
	p := filepath.Join(dir, name)
	must(os.WriteFile(p, b, 0600))
	return p
}

func hexDecode(s string) []byte {
	b, _ := hex.DecodeString(s)
	return b
}
