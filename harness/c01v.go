package main

import (
	"crypto/x509"
	"crypto/x509/pkix"
	"encoding/asn1"
	"fmt"
	"math/big"

	"golang.org/x/crypto/ocsp"
)

// C01 at the level of the whole validator ("whatever OCSP answered"): a certificate listed in a CRL in force —
// configured by URL or file or named by the certificate's distribution point — must be rejected in every mode that
// enables CRL checking, for every OCSP outcome (no responder, good, unknown, revoked, unavailable, answer served from
// the cache on the second handshake), list size and position, encoding, serial width, entry-extension content and
// backend. The verdict is compared with the regenerated statement list of VerifyClientCertificate (`mode v …`).

type c01vCell struct {
	Mode     string `json:"mode"`
	Ocsp     string `json:"ocsp"`   // noaia good unknown revoked unavailable
	Source   string `json:"source"` // cdp url file
	Size     int    `json:"size"`
	Pos      string `json:"pos"` // first middle last absent
	Enc      string `json:"enc"` // der pem pemcrlf
	SerialW  int    `json:"serial_bytes"`
	EntryExt bool   `json:"entry_ext"`
	Storage  string `json:"storage"`
	Negative bool   `json:"negative_serial"` // high bit set in the first serial octet (certificate and CRL entry)
}

func (c c01vCell) key() string {
	return fmt.Sprintf("%s/%s/%s/%d/%s/%s/%d/%v/%s/neg=%v", c.Mode, c.Ocsp, c.Source, c.Size, c.Pos, c.Enc, c.SerialW, c.EntryExt, c.Storage, c.Negative)
}

func c01Validator(r *Run) {
	origin := NewOrigin()
	defer origin.Close()
	dir := scratchDir("c01v")

	modes := []string{"", "prefer_ocsp", "prefer_crl", "crl_only"}
	ocsps := []string{"good", "noaia", "unknown", "unavailable", "revoked", "good"}
	sources := []string{"cdp", "url", "file"}
	sizes := []int{1, 3, 150, 2, 40}
	poss := []string{"first", "middle", "last", "last", "first", "middle", "absent"}
	encs := []string{"der", "pem", "pemcrlf"}
	widths := []int{1, 8, 20, 3, 16}
	var cells []c01vCell
	n := 96
	if r.Thorough() {
		n = 1500
	}
	for i := 0; i < n; i++ {
		// co-prime strides: every pair of coordinates meets in all combinations over the run
		cells = append(cells, c01vCell{Mode: modes[i%4], Ocsp: ocsps[(i/4+i)%6], Source: sources[(i/2+i/24)%3], Size: sizes[(i+i/5)%5], Pos: poss[(i+i/7)%7],
			Enc: encs[(i+i/3)%3], SerialW: widths[(i+i/11)%5], EntryExt: i%2 == 0, Storage: []string{"memory", "disk"}[(i/3)%2], Negative: i%5 == 3})
	}
	parallel(len(cells), 12, func(i int) {
		// one CA per cell: the OCSP cache is shared by all validators of the process and keyed by issuer and serial
		ca := NewCA(CAOpts{CN: fmt.Sprintf("C01 CA %d", i), EC: true})
		c01vRun(r, ca, origin, writeFile(dir, fmt.Sprintf("ca-%d.pem", i), certPEM(ca.Cert)), dir, i, cells[i])
	})
}

func c01vSerial(i, width int) *big.Int {
	b := make([]byte, width)
	for k := range b {
		b[k] = byte(0x11*(k+1) + i)
	}
	if width > 1 {
		b[len(b)-1] = byte(i)
		b[len(b)-2] = byte(i >> 8)
	}
	b[0] = byte(0x01 + i%0x7e) // positive, no leading zero
	return new(big.Int).SetBytes(b)
}

func c01vRun(r *Run, ca *CA, origin *Origin, caFile, dir string, idx int, c c01vCell) {
	ocspPath, crlPath := fmt.Sprintf("/c01v/ocsp/%d", idx), fmt.Sprintf("/c01v/crl/%d", idx)
	serial := c01vSerial(idx, c.SerialW)
	lo := LeafOpts{Serial: serial}
	if c.Ocsp != "noaia" {
		lo.OCSP = []string{origin.URL(ocspPath)}
	}
	if c.Source == "cdp" {
		lo.CDP = []string{origin.URL(crlPath)}
	}
	leaf := ca.IssueLeaf(lo)
	if c.Negative {
		leaf.Cert = reissueWithNegativeSerial(ca, leaf.Cert)
		serial = leaf.Cert.SerialNumber
	}
	switch c.Ocsp {
	case "good":
		origin.SetBytes(ocspPath, ca.OCSPResponse(OCSPOpts{Status: ocsp.Good, Serial: serial}))
	case "unknown":
		origin.SetBytes(ocspPath, ca.OCSPResponse(OCSPOpts{Status: ocsp.Unknown, Serial: serial}))
	case "revoked":
		origin.SetBytes(ocspPath, ca.OCSPResponse(OCSPOpts{Status: ocsp.Revoked, Serial: serial}))
	case "unavailable":
		origin.Set(ocspPath, Behaviour{Kind: "status", Status: 503, Body: []byte("unavailable")})
	}
	// the list: other serials of assorted widths around the subject's
	var serials []*big.Int
	for k := 0; k < c.Size; k++ {
		serials = append(serials, new(big.Int).Add(c01vSerial(idx+1, 1+(k%19)), big.NewInt(int64(7*k+1))))
	}
	listed := c.Pos != "absent"
	for k := range serials {
		if serials[k].Cmp(serial) == 0 {
			serials[k] = new(big.Int).Add(serials[k], big.NewInt(1))
		}
	}
	switch c.Pos {
	case "first":
		serials[0] = serial
	case "middle":
		serials[c.Size/2] = serial
	case "last":
		serials[c.Size-1] = serial
	}
	crl := ca.MakeCRL(CRLOpts{Serials: serials, Number: int64(idx + 1), PEM: c.Enc != "der", CRLF: c.Enc == "pemcrlf", EntryExts: c.EntryExt})
	cfg := VCfg{Mode: c.Mode, WorkDir: scratchDir("c01vw"), Storage: c.Storage, SigMode: "verify", TrustedSigners: []string{caFile},
		UpdateInterval: "10h", OCSPCacheDur: "1h"}
	switch c.Source {
	case "cdp", "url":
		origin.SetBytes(crlPath, crl)
		if c.Source == "url" {
			cfg.CRLUrls = []string{origin.URL(crlPath)}
		}
	case "file":
		cfg.CRLFiles = []string{writeFile(dir, fmt.Sprintf("crl-%d.crl", idx), crl)}
	}
	v, err := Provision(cfg)
	if err != nil {
		r.Violate("C01 provision-failed", fmt.Sprintf("cell %s: %v", c.key(), err), c)
		return
	}
	defer v.Close()
	chains := [][]*x509.Certificate{{leaf.Cert, ca.Cert}}
	// mechanism outcomes by construction (checked against the real checkers in C03/C02; here the CRL outcome is the point)
	oOut := map[string]string{"noaia": "good", "good": "good", "unknown": "good", "unavailable": "good", "revoked": "revoked"}[c.Ocsp]
	cOut := "good"
	if listed {
		cOut = "revoked"
	}
	mode := c.Mode
	if mode == "" {
		mode = "unset"
	}
	for round := 1; round <= 2; round++ { // the second handshake is answered from the OCSP cache where an answer was cached
		verdict, _ := v.Verify(chains)
		r.Op(fmt.Sprintf("mode v %s %s %s true false false", mode, oOut, cOut), verdict+" consulted=")
		r.Eval(fmt.Sprintf("c01v/%s/%d", c.key(), round), listed)
		r.Count("c01v-verdict:" + verdict)
		r.Count("c01v-ocsp:" + c.Ocsp)
		r.Count("c01v-source:" + c.Source)
		if listed && verdict != "reject" {
			r.Violate("C01 listed-but-accepted-by-validator",
				fmt.Sprintf("cell %s handshake #%d: the certificate (serial %x) is listed at position %s of a %d-entry CRL in force (%s, %s), OCSP scenario %q, verdict %s",
					c.key(), round, serial, c.Pos, c.Size, c.Source, c.Enc, c.Ocsp, verdict), c)
		}
	}
	if idx < 2 {
		r.Sample(map[string]interface{}{"cell": c, "listed": listed})
	}
}


// c01NameLayouts: "listed => rejected" for issuers whose distinguished name is not laid out the way crypto/x509 would write
// it (attribute order, several attributes in one RDN, repeated attribute types in separate RDNs, attribute types x509 has no
// field for): the CRL's entries are stored under the issuer name as encoded, so whatever derives the lookup key from the
// presented certificate has to keep the encoded name too.
func c01NameLayouts(r *Run) {
	origin := NewOrigin()
	defer origin.Close()
	atv := func(oid asn1.ObjectIdentifier, v string) pkix.AttributeTypeAndValue {
		return pkix.AttributeTypeAndValue{Type: oid, Value: v}
	}
	oC, oO, oOU, oCN := asn1.ObjectIdentifier{2, 5, 4, 6}, asn1.ObjectIdentifier{2, 5, 4, 10}, asn1.ObjectIdentifier{2, 5, 4, 11}, asn1.ObjectIdentifier{2, 5, 4, 3}
	oDC, oMail := asn1.ObjectIdentifier{0, 9, 2342, 19200300, 100, 1, 25}, asn1.ObjectIdentifier{1, 2, 840, 113549, 1, 9, 1}
	c, o, cn := atv(oC, "AT"), atv(oO, "C01 Example"), atv(oCN, "C01 Issuing CA")
	ia5 := func(oid asn1.ObjectIdentifier, v string) pkix.AttributeTypeAndValue {
		return pkix.AttributeTypeAndValue{Type: oid, Value: asn1.RawValue{Tag: asn1.TagIA5String, Bytes: []byte(v)}}
	}
	layouts := []struct {
		name string
		rdn  pkix.RDNSequence
	}{
		{"canonical", pkix.RDNSequence{{c}, {o}, {cn}}},
		{"cn-first", pkix.RDNSequence{{cn}, {o}, {c}}},
		{"one-rdn", pkix.RDNSequence{{c, o, cn}}},
		{"two-ou-rdns", pkix.RDNSequence{{c}, {o}, {atv(oOU, "Unit A")}, {atv(oOU, "Unit B")}, {cn}}},
		{"domain-components", pkix.RDNSequence{{ia5(oDC, "org")}, {ia5(oDC, "example")}, {cn}}},
		{"with-email", pkix.RDNSequence{{c}, {o}, {cn}, {ia5(oMail, "ca@example.org")}}},
		{"cn-twice", pkix.RDNSequence{{c}, {atv(oCN, "C01 Root")}, {cn}}},
	}
	type job struct {
		layout  int
		storage string
		src     string
		pem     bool
	}
	var jobs []job
	for l := range layouts {
		for i, st := range []string{"memory", "disk"} {
			for k, src := range []string{"cdp", "url"} {
				jobs = append(jobs, job{l, st, src, (l+i+k)%2 == 0})
			}
		}
	}
	parallel(len(jobs), 8, func(i int) {
		j := jobs[i]
		ca := NewCA(CAOpts{EC: true, RawSubject: mustMarshal(layouts[j.layout].rdn)})
		caFile := writeFile(scratchDir("c01n"), "ca.pem", certPEM(ca.Cert))
		path := fmt.Sprintf("/c01n/%d.crl", i)
		serial := big.NewInt(int64(88000 + i))
		lo := LeafOpts{Serial: serial}
		cfg := VCfg{Mode: "crl_only", WorkDir: scratchDir("c01nw"), Storage: j.storage, SigMode: "verify", TrustedSigners: []string{caFile}, UpdateInterval: "10h", CDPStrict: true}
		if j.src == "cdp" {
			lo.CDP = []string{origin.URL(path)}
		} else {
			cfg.CRLUrls = []string{origin.URL(path)}
		}
		listed := ca.IssueLeaf(lo)
		lo.Serial = big.NewInt(int64(99000 + i))
		free := ca.IssueLeaf(lo)
		origin.SetBytes(path, ca.MakeCRL(CRLOpts{Serials: []*big.Int{big.NewInt(5), serial, big.NewInt(7)}, Number: 2, PEM: j.pem}))
		v, err := Provision(cfg)
		if err != nil {
			r.Violate("C01 provision-failed", fmt.Sprintf("name layout %s: %v", layouts[j.layout].name, err), nil)
			return
		}
		defer v.Close()
		vl, _ := v.Verify([][]*x509.Certificate{{listed.Cert, ca.Cert}})
		vf, _ := v.Verify([][]*x509.Certificate{{free.Cert, ca.Cert}})
		key := fmt.Sprintf("issuer-name-layout=%s storage=%s source=%s pem=%v", layouts[j.layout].name, j.storage, j.src, j.pem)
		r.Eval(key, true)
		r.Count("name-layout:" + layouts[j.layout].name + ":" + vl + "/" + vf)
		if vl != "reject" {
			r.Violate("C01 listed-but-accepted name-layout="+layouts[j.layout].name, key+": the certificate listed in the CRL of its issuer (in force, verified) was "+vl, nil)
		}
		if vf != "accept" {
			r.Note("name layouts: the unlisted certificate was " + vf + " (" + key + ")")
		}
	})
}
