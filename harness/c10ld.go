package main

// Loader layer (stream `ld`): utils.Retry, DefaultCRLLoaderFactory.CreatePreferredCrlLoader and
// MultiSchemesCRLLoader.LoadCRL of the real code against Crv.Loader (theorems in Props/C10Loader.lean: which
// distribution points get a loader at all, that a failing loader is tried again at every later load, that retries
// are bounded).

import (
	"encoding/hex"
	"errors"
	"fmt"
	"net"
	"net/http"
	"os"
	"path/filepath"
	"strings"
	"sync"
	"time"

	"github.com/gr33nbl00d/caddy-revocation-validator/core"
	"github.com/gr33nbl00d/caddy-revocation-validator/core/utils"
	"github.com/gr33nbl00d/caddy-revocation-validator/crl/crlloader"
	"go.uber.org/zap"
)

type ldFake struct {
	idx   int
	out   *string // outcomes of the current LoadCRL call of the multi loader, one character per loader
	trace *[]int
}

func (f *ldFake) LoadCRL(string) error {
	*f.trace = append(*f.trace, f.idx)
	if f.idx < len(*f.out) && (*f.out)[f.idx] == '1' {
		return nil
	}
	return errors.New("scripted failure")
}
func (f *ldFake) GetCRLLocationIdentifier() (string, error) { return fmt.Sprintf("id%d", f.idx), nil }
func (f *ldFake) GetDescription() string                    { return fmt.Sprintf("fake%d", f.idx) }

func ldHexOrDash(s string) string {
	if s == "" {
		return "-"
	}
	return hex.EncodeToString([]byte(s))
}

func ldHexList(l []string) string {
	if len(l) == 0 {
		return "-"
	}
	p := make([]string, len(l))
	for i, s := range l {
		if s == "" {
			p[i] = "."
		} else {
			p[i] = hex.EncodeToString([]byte(s))
		}
	}
	return strings.Join(p, ",")
}

func ldRandScheme(r *Run) string {
	pre := []string{"http://", "https://", "HTTP://", "hTtPs://", "Http", "http", "htt", "htp://", "ldap://", "LDAP://", "ftp://", "file:///",
		"", " http://", "\thttp://", "hıttp://", "ĦTTP://", "Kttp://", "\xffhttp://", "htt\xf0://", "HTTℙ://", "ｈｔｔｐ://",
		"httpx", "HTTPS", "//", "x"}
	s := pre[r.Rng.Intn(len(pre))]
	if r.Rng.Intn(4) != 0 {
		s += []string{"crl.example/a.crl", "h/x", "[::1]/c", "%zz", "a b", "", "é"}[r.Rng.Intn(7)]
	}
	return s
}

// The observations at this layer are not by themselves violations of C10 (nothing is denied or accepted here): a difference
// between the real code and the model breaks the correspondence, the differences the property cares about are decided by the
// repository histories. Under C15 one of them *is* the property: a loader object that gives up on a distribution point which
// answers ("again after failed attempts") - there it is an oracle violation.
func c10LoaderStream(r *Run) {
	logger := zap.NewNop()
	flag := func(sig, detail string) {
		if r.Prop == "C15" && strings.HasPrefix(sig, "C15 ") {
			r.Violate(sig, detail, nil)
			return
		}
		r.Count("ld:remark:" + sig)
		r.Note("loader layer: " + sig + ": " + detail)
	}
	// ---- utils.Retry
	nRetry := 400
	if r.Thorough() {
		nRetry = 20000
	}
	for i := 0; i < nRetry; i++ {
		attempts := r.Rng.Intn(9) - 2
		if i < 12 {
			attempts = i - 3
		}
		ln := r.Rng.Intn(10)
		b := make([]byte, ln)
		for j := range b {
			b[j] = '0'
			if r.Rng.Intn(4) == 0 {
				b[j] = '1'
			}
		}
		script := string(b)
		calls := 0
		err := utils.Retry(attempts, 0, logger, func() error {
			k := calls
			calls++
			if k < len(script) && script[k] == '1' {
				return nil
			}
			return errors.New("scripted")
		})
		obs := fmt.Sprintf("ok calls=%d", calls)
		if err != nil {
			obs = fmt.Sprintf("err calls=%d", calls)
		}
		s := script
		if s == "" {
			s = "-"
		}
		r.Op(fmt.Sprintf("ld retry %d %s", attempts, s), obs)
		// oracle (the property's side of it): bounded, at least one call, success iff a success within the bound
		bound := attempts
		if bound < 1 {
			bound = 1
		}
		first := -1
		for k := 0; k < len(script) && k < bound; k++ {
			if script[k] == '1' {
				first = k
				break
			}
		}
		if calls < 1 || calls > bound || (first >= 0) != (err == nil) || (first >= 0 && calls != first+1) || (first < 0 && calls != bound) {
			flag("retry-contract", fmt.Sprintf("utils.Retry(%d) over outcomes %q: %s", attempts, script, obs))
		}
		r.Eval("ld-retry/"+fmt.Sprint(attempts)+"/"+script, true)
		r.Count("ld:retry")
	}
	// ---- the real URLLoader / FileLoader go through Retry with the package's count
	c10LoaderRealRetries(r, logger)

	// ---- factory
	nFac := 600
	if r.Thorough() {
		nFac = 30000
	}
	for i := 0; i < nFac; i++ {
		var loc core.CRLLocations
		switch r.Rng.Intn(6) {
		case 0:
			loc.CRLUrl = ldRandScheme(r)
		case 1:
			loc.CRLFile = ldRandScheme(r)
		case 2:
			loc.CRLUrl = ldRandScheme(r)
			loc.CRLFile = ldRandScheme(r)
		}
		nc := r.Rng.Intn(5)
		for j := 0; j < nc; j++ {
			loc.CRLDistributionPoints = append(loc.CRLDistributionPoints, ldRandScheme(r))
		}
		ld, err := crlloader.DefaultCRLLoaderFactory{}.CreatePreferredCrlLoader(&loc, logger)
		obs := ""
		var made []string
		switch {
		case err != nil:
			obs = "error"
		default:
			switch l := ld.(type) {
			case *crlloader.URLLoader:
				obs = "url " + ldHexOrDash(l.UrlString)
			case *crlloader.FileLoader:
				obs = "file " + ldHexOrDash(l.FileName)
			case *crlloader.MultiSchemesCRLLoader:
				for _, in := range l.Loaders {
					u, ok := in.(*crlloader.URLLoader)
					if !ok {
						made = append(made, "?")
						continue
					}
					made = append(made, u.UrlString)
				}
				obs = "multi " + ldHexList(made)
			default:
				obs = fmt.Sprintf("unknown %T", ld)
			}
		}
		r.Op(fmt.Sprintf("ld factory %s %s %s", ldHexOrDash(loc.CRLUrl), ldHexOrDash(loc.CRLFile), ldHexList(loc.CRLDistributionPoints)), obs)
		// oracle: only distribution points with an http(s) scheme get a loader; none usable => error (C10: unsupported
		// locations are "no CRL", never a CRL from somewhere else)
		if loc.CRLUrl == "" && loc.CRLFile == "" {
			usable := 0
			for _, c := range loc.CRLDistributionPoints {
				lc := strings.ToLower(c)
				if strings.HasPrefix(lc, "http://") || strings.HasPrefix(lc, "https://") {
					usable++
				}
			}
			for _, m := range made {
				if !strings.HasPrefix(strings.ToLower(m), "http") {
					flag("loader-for-unsupported-scheme", fmt.Sprintf("distribution points %q: a loader was created for %q", loc.CRLDistributionPoints, m))
				}
			}
			if usable > 0 && err != nil {
				flag("C15 usable-distribution-point-ignored", fmt.Sprintf("distribution points %q: no loader although %d are http(s)", loc.CRLDistributionPoints, usable))
			}
			if len(made) < usable {
				flag("C15 usable-distribution-point-ignored", fmt.Sprintf("distribution points %q: %d loaders for %d http(s) locations", loc.CRLDistributionPoints, len(made), usable))
			}
		}
		r.Eval("ld-factory/"+obs, obs != "error")
		r.Count("ld:factory:" + strings.SplitN(obs, " ", 2)[0])
	}

	// ---- multi loader: sequences of LoadCRL calls on one object
	nMulti := 500
	if r.Thorough() {
		nMulti = 25000
	}
	for i := 0; i < nMulti; i++ {
		n := r.Rng.Intn(5)
		if i < 3 {
			n = i
		}
		k := 1 + r.Rng.Intn(6)
		var cur string
		var trace []int
		m := &crlloader.MultiSchemesCRLLoader{Logger: logger}
		for j := 0; j < n; j++ {
			m.Loaders = append(m.Loaders, &ldFake{idx: j, out: &cur, trace: &trace})
		}
		var calls, outs []string
		for c := 0; c < k; c++ {
			b := make([]byte, n)
			p := r.Rng.Intn(4)
			for j := range b {
				b[j] = '0'
				if r.Rng.Intn(4) < p {
					b[j] = '1'
				}
			}
			cur = string(b)
			trace = nil
			err := m.LoadCRL("unused")
			ts := make([]string, len(trace))
			for x, t := range trace {
				ts[x] = fmt.Sprint(t)
			}
			seen := map[int]bool{}
			for _, t := range trace {
				if seen[t] {
					flag("loader-called-twice-in-one-load", fmt.Sprintf("n=%d call %q: trace %v", n, cur, trace))
				}
				seen[t] = true
			}
			anyOK := strings.Contains(cur, "1")
			if anyOK != (err == nil) {
				flag("C15 multi-loader-gave-up-although-a-location-answers", fmt.Sprintf("n=%d calls so far %v, now %q: err=%v trace=%v", n, calls, cur, err, trace))
			}
			tj := strings.Join(ts, ".")
			if tj == "" {
				tj = "-"
			}
			if err == nil && len(trace) > 0 {
				outs = append(outs, fmt.Sprintf("ok@%d:%s", trace[len(trace)-1], tj))
			} else if err == nil {
				outs = append(outs, "ok-without-loader:"+tj)
			} else {
				outs = append(outs, "fail:"+tj)
			}
			if cur == "" {
				cur = "-"
			}
			calls = append(calls, cur)
		}
		r.Op(fmt.Sprintf("ld multi %d %s", n, strings.Join(calls, ";")), strings.Join(outs, ";"))
		r.Eval(fmt.Sprintf("ld-multi/%d/%s", n, strings.Join(calls, ";")), n > 1)
		r.Count(fmt.Sprintf("ld:multi:n=%d", n))
	}
}

// c10LoaderRealRetries counts what the real URLLoader / FileLoader do against a location that fails a scripted number of
// times: requests seen by the server = calls of the model's retry with the package's CRLLoaderRetryCount.
func c10LoaderRealRetries(r *Run, logger *zap.Logger) {
	scripts := []string{"1", "01", "001", "00001", "00000", "000001"}
	if r.Thorough() {
		scripts = append(scripts, "0001", "0000000", "11")
	}
	var wg sync.WaitGroup
	obs := make([]string, len(scripts))
	for i, sc := range scripts {
		wg.Add(1)
		go func(i int, sc string) {
			defer wg.Done()
			var mu sync.Mutex
			hits := 0
			ln, err := net.Listen("tcp", "127.0.0.1:0")
			if err != nil {
				obs[i] = "listen-failed"
				return
			}
			srv := &http.Server{Handler: http.HandlerFunc(func(w http.ResponseWriter, q *http.Request) {
				mu.Lock()
				k := hits
				hits++
				mu.Unlock()
				if k < len(sc) && sc[k] == '1' {
					w.Write([]byte("crl bytes"))
					return
				}
				// no answer at all: http.Get returns an error (a status code would not be one)
				if hj, ok := w.(http.Hijacker); ok {
					if c, _, err := hj.Hijack(); err == nil {
						c.Close()
					}
				}
			})}
			go srv.Serve(ln)
			defer srv.Close()
			dir, _ := os.MkdirTemp(scratchRoot, "ld-")
			l := &crlloader.URLLoader{UrlString: "http://" + ln.Addr().String() + "/x.crl", Logger: logger}
			t0 := time.Now()
			e := l.LoadCRL(filepath.Join(dir, "out"))
			_ = t0
			mu.Lock()
			h := hits
			mu.Unlock()
			if e == nil {
				obs[i] = fmt.Sprintf("ok calls=%d", h)
			} else {
				obs[i] = fmt.Sprintf("err calls=%d", h)
			}
		}(i, sc)
	}
	wg.Wait()
	for i, sc := range scripts {
		r.Op(fmt.Sprintf("ld retry %d %s", crlloader.CRLLoaderRetryCount, sc), obs[i])
		r.Eval("ld-real-retry/"+sc, true)
		r.Count("ld:real-url-retry")
	}
	// file loader: a missing file fails every attempt; the file appears => success at once
	dir, _ := os.MkdirTemp(scratchRoot, "ldf-")
	fl := &crlloader.FileLoader{FileName: filepath.Join(dir, "in.crl"), Logger: logger}
	t0 := time.Now()
	e1 := fl.LoadCRL(filepath.Join(dir, "out1"))
	d := time.Since(t0)
	wantSleeps := time.Duration(crlloader.CRLLoaderRetryCount-1) * crlloader.CRLLoaderRetryDelay
	if e1 == nil || d < wantSleeps-50*time.Millisecond || d > wantSleeps+3*time.Second {
		r.Note(fmt.Sprintf("loader layer: file loader, missing file: err=%v after %v (expected an error after about %v)", e1, d, wantSleeps))
	}
	os.WriteFile(fl.FileName, []byte("x"), 0600)
	if e2 := fl.LoadCRL(filepath.Join(dir, "out2")); e2 != nil {
		r.Note("loader layer: file loader, present file: " + e2.Error())
	}
	r.Count("ld:real-file-retry")
}
