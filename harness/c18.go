package main

// C18 — both storage backends implement the same abstract map and lose nothing.
// Three-way: real MapStore vs real LevelDbStore vs Lean model (`kv` stream), plus the property's own
// statement as an oracle on the implementation's observations (reference = a plain Go map).

import (
	"crypto/x509/pkix"
	"fmt"
	"math/big"
	"os"
	"strings"
	"time"

	"github.com/gr33nbl00d/caddy-revocation-validator/core"
	"github.com/gr33nbl00d/caddy-revocation-validator/crl/crlreader"
)

func init() { register("C18", runC18) }

func runC18(r *Run) {
	r.rule = "op sequences over {start, insert, ext-meta, signer, locations, replace-with(filled temp store), close+reopen} on the real MapStore and " +
		"LevelDbStore, all getters read at the end (every prefix is itself an enumerated sequence); exhaustive to length 4 (thorough 5) over a 10-symbol " +
		"alphabet, random to length 60 in thorough; a sequence is non-trivial when its final abstract state holds at least one entry or slot; " +
		"plus one round trip per value shape (serial x date x extensions x issuer, meta, ext-meta, locations) and direct diffs of hashing.Sum64, " +
		"big.Int.String and the key string"
	c18Hashes(r)
	c18Shapes(r)
	c18Sequences(r)
}

// ---- direct correspondences of the key/hash functions ------------------------------------------------

func c18Hashes(r *Run) {
	b := &opBuf{}
	n := 400
	if r.Thorough() {
		n = 20000
	}
	strs := []string{"", "a", "#META#", "#META#_EXT", "#CRL_SIG_CERT#", "#CRL_LOCATIONS#", "CN=CA_1", strings.Repeat("x", 300), "\x00", "\xff\xfe"}
	for i := 0; i < n; i++ {
		l := r.Rng.Intn(40)
		bs := make([]byte, l)
		for j := range bs {
			bs[j] = byte(r.Rng.Intn(256))
		}
		strs = append(strs, string(bs))
	}
	for _, s := range strs {
		b.add("kv hash "+hexs([]byte(s)), hexs(sum64(s)))
		r.Eval("hash/"+s, true)
	}
	r.Count(fmt.Sprintf("hash-diffs:%d", len(strs)))
	ints := serialShapes()
	for i := 0; i < n; i++ {
		v := new(big.Int).Rand(r.Rng, new(big.Int).Lsh(big.NewInt(1), uint(1+r.Rng.Intn(200))))
		if r.Rng.Intn(4) == 0 {
			v.Neg(v)
		}
		ints = append(ints, v)
	}
	issuers := issuerShapes()
	for i, v := range ints {
		b.add("kv dec "+v.String(), hexs([]byte(v.String())))
		iss := issuers[i%len(issuers)]
		b.add("kv key "+hexs([]byte(iss.String()))+" "+v.String(), hexs([]byte(iss.String()+"_"+v.String())))
		r.Eval("dec/"+v.String(), true)
	}
	r.Count(fmt.Sprintf("decimal-diffs:%d", len(ints)))
	// the one value shape the serializer cannot read back (known finding): CRLMetaInfo.NextUpdate by year
	years := []int{0}
	for y := 1900; y <= 2110; y += 1 {
		years = append(years, y)
	}
	years = append(years, 1, 1000, 1949, 1950, 2049, 2050, 9999)
	for _, y := range years {
		m := crlreader.CRLMetaInfo{Issuer: cn("CA"), ThisUpdate: time.Date(2024, 1, 1, 0, 0, 0, 0, time.UTC)}
		line := "kv metart -"
		if y != 0 {
			m.NextUpdate = time.Date(y, 6, 15, 12, 0, 0, 0, time.UTC)
			line = fmt.Sprintf("kv metart %d", y)
		}
		obs := "unreadable"
		if raw, err := ser.SerializeMetaInfo(&m); err == nil {
			if back, err := ser.DeserializeMetaInfo(raw); err == nil && back.NextUpdate.Equal(m.NextUpdate) {
				obs = "readable"
			}
		} else {
			obs = "unserializable"
		}
		b.add(line, obs)
	}
	b.flush(r)
}

// ---- value shapes through the real serializer and both stores -----------------------------------------

func c18Shapes(r *Run) {
	issuers, serials, times, exts := issuerShapes(), serialShapes(), timeShapes(), extShapes()
	type shape struct {
		iss pkix.RDNSequence
		e   pkix.RevokedCertificate
	}
	var shapes []shape
	// every value of one dimension with rotating values of the others; thorough: full product of serial x time x ext
	for i, s := range serials {
		shapes = append(shapes, shape{issuers[i%len(issuers)], pkix.RevokedCertificate{SerialNumber: s, RevocationTime: times[i%len(times)], Extensions: exts[i%len(exts)]}})
	}
	for i, t := range times {
		shapes = append(shapes, shape{issuers[(i+3)%len(issuers)], pkix.RevokedCertificate{SerialNumber: serials[(i+5)%len(serials)], RevocationTime: t, Extensions: exts[(i+1)%len(exts)]}})
	}
	for i, x := range exts {
		shapes = append(shapes, shape{issuers[(i+7)%len(issuers)], pkix.RevokedCertificate{SerialNumber: serials[(i+2)%len(serials)], RevocationTime: times[(i+2)%len(times)], Extensions: x}})
	}
	for i, is := range issuers {
		shapes = append(shapes, shape{is, pkix.RevokedCertificate{SerialNumber: serials[i%len(serials)], RevocationTime: times[0], Extensions: exts[i%len(exts)]}})
	}
	if r.Thorough() {
		for i, s := range serials {
			for j, t := range times {
				for k, x := range exts {
					shapes = append(shapes, shape{issuers[(i+j+k)%len(issuers)], pkix.RevokedCertificate{SerialNumber: s, RevocationTime: t, Extensions: x}})
				}
			}
		}
	}
	metas := []crlreader.CRLMetaInfo{}
	for i, t := range times {
		metas = append(metas, crlreader.CRLMetaInfo{Issuer: issuers[i%len(issuers)], ThisUpdate: t, NextUpdate: times[(i+4)%len(times)]})
		metas = append(metas, crlreader.CRLMetaInfo{Issuer: issuers[(i+1)%len(issuers)], ThisUpdate: t}) // no nextUpdate
	}
	for _, is := range issuers {
		metas = append(metas, crlreader.CRLMetaInfo{Issuer: is, ThisUpdate: times[0], NextUpdate: times[5]})
	}
	extms := []crlreader.ExtendedCRLMetaInfo{{CRLNumber: nil}}
	for _, s := range serials {
		extms = append(extms, crlreader.ExtendedCRLMetaInfo{CRLNumber: s})
	}
	locs := []core.CRLLocations{
		{}, {CRLUrl: "http://crl.example.org/ca.crl"}, {CRLFile: "/etc/ssl/ca.crl"}, {CRLDistributionPoints: []string{}},
		{CRLDistributionPoints: []string{"http://a.example/x.crl"}},
		{CRLDistributionPoints: []string{"http://a.example/x.crl", "ldap://dir.example/cn=CA?certificateRevocationList", "https://b.example/y_z.crl?a=1&b=%20"}},
		{CRLDistributionPoints: []string{""}, CRLUrl: "", CRLFile: ""},
		{CRLUrl: "http://bücher.example/größe.crl", CRLFile: "/srv/证书/吊销.crl"},
		{CRLFile: "/srv/bad\xff\xfename.crl"},
		{CRLDistributionPoints: []string{"http://ok.example/a.crl", "http://bad.example/\xc3\x28.crl"}},
		{CRLFile: strings.Repeat("/long", 2000)},
	}

	type shapeCase struct {
		kind string
		i    int
	}
	var cases []shapeCase
	for i := range shapes {
		cases = append(cases, shapeCase{"entry", i})
	}
	for i := range metas {
		cases = append(cases, shapeCase{"meta", i})
	}
	for i := range extms {
		cases = append(cases, shapeCase{"ext", i})
	}
	for i := range locs {
		cases = append(cases, shapeCase{"loc", i})
	}
	base := scratchDir("c18shapes")
	defer os.RemoveAll(base)
	parallel(len(cases), 16, func(ci int) {
		c := cases[ci]
		b := &opBuf{}
		b.add("kv reset", "ok")
		dir := fmt.Sprintf("%s/%d", base, ci)
		must(os.MkdirAll(dir, 0700))
		stores := []*kvStore{
			newKvStore(b, "m", "map", storeFactory("map", dir), "id", false),
			newKvStore(b, "d", "ldb", storeFactory("ldb", dir), "id", false),
		}
		var obs [2]string
		for bi, st := range stores {
			if st == nil {
				r.Violate("C18 store-create-failed", fmt.Sprintf("backend %d", bi), nil)
				continue
			}
			desc := ""
			switch c.kind {
			case "entry":
				sh := shapes[c.i]
				e := sh.e
				desc = fmt.Sprintf("issuer=%q serial=%s time=%s exts=%d", sh.iss.String(), e.SerialNumber, e.RevocationTime.Format(time.RFC3339Nano), len(e.Extensions))
				_, serr := ser.SerializeRevokedCert(&e)
				st.ins(b, &sh.iss, &e)
				if bi == 1 {
					st.reopen(b)
				}
				o, got := st.get(b, &sh.iss, e.SerialNumber)
				obs[bi] = o
				if serr != nil {
					r.Count("shape-not-serializable:entry")
					if o != "absent" {
						r.Violate("C18 unserializable-entry-visible backend="+st.kind, desc+" -> "+o, nil)
					}
					break
				}
				if got == nil {
					r.Violate("C18 inserted-entry-not-returned backend="+st.kind+" obs="+strings.Fields(o)[0], desc+" -> "+o, desc)
					break
				}
				// "returns the stored entry unchanged (serial, date, extensions)"
				var lost []string
				if got.SerialNumber == nil || got.SerialNumber.Cmp(e.SerialNumber) != 0 {
					lost = append(lost, "serial")
				}
				if !got.RevocationTime.Equal(e.RevocationTime) {
					lost = append(lost, "date")
				}
				if !extsEqual(got.Extensions, e.Extensions) {
					lost = append(lost, "extensions")
				}
				if len(lost) > 0 {
					r.Violate("C18 entry-changed-by-store fields="+strings.Join(lost, ",")+" backend="+st.kind,
						fmt.Sprintf("%s; returned serial=%v time=%s exts=%d", desc, got.SerialNumber, got.RevocationTime.Format(time.RFC3339Nano), len(got.Extensions)), desc)
				}
			case "meta":
				m := metas[c.i]
				desc = fmt.Sprintf("meta issuer=%q this=%s next=%s", m.Issuer.String(), m.ThisUpdate.Format(time.RFC3339), m.NextUpdate.Format(time.RFC3339))
				_, serr := ser.SerializeMetaInfo(&m)
				st.start(b, &m)
				if bi == 1 {
					st.reopen(b)
				}
				sv := st.slots(b)
				obs[bi] = sv.obs[0]
				if serr != nil {
					r.Count("shape-not-serializable:meta")
					if bi == 0 {
						r.Note("write refused (serializer error, nothing stored): " + desc + ": " + serr.Error())
					}
					break
				}
				if sv.meta == nil {
					if raw, _ := ser.SerializeMetaInfo(&m); raw != nil {
						if _, derr := ser.DeserializeMetaInfo(raw); derr != nil {
							// the serializer itself cannot read its own output for this value, whatever the backend
							if bi == 0 {
								r.Violate("C18 serializer-cannot-read-back-own-output type=meta", fmt.Sprintf("%s: DeserializeMetaInfo(SerializeMetaInfo(v)) fails: %v; GetCRLMetaInfo returns an error on both backends", desc, derr), desc)
							}
							break
						}
					}
					r.Violate("C18 metadata-not-read-back type=meta backend="+st.kind, desc, desc)
					break
				}
				var lost []string
				if !rdnEqual(sv.meta.Issuer, m.Issuer) {
					lost = append(lost, "issuer")
				}
				if !sv.meta.ThisUpdate.Equal(m.ThisUpdate) {
					lost = append(lost, "thisUpdate")
				}
				if !sv.meta.NextUpdate.Equal(m.NextUpdate) {
					lost = append(lost, "nextUpdate")
				}
				if len(lost) > 0 {
					r.Violate("C18 metadata-changed-by-store type=meta fields="+strings.Join(lost, ",")+" backend="+st.kind,
						fmt.Sprintf("%s; returned this=%s next=%s", desc, sv.meta.ThisUpdate.Format(time.RFC3339), sv.meta.NextUpdate.Format(time.RFC3339)), desc)
				}
			case "ext":
				x := extms[c.i]
				desc = fmt.Sprintf("ext crlNumber=%v", x.CRLNumber)
				_, serr := ser.SerializeMetaInfoExt(&x)
				st.ext(b, &x)
				if bi == 1 {
					st.reopen(b)
				}
				sv := st.slots(b)
				obs[bi] = sv.obs[1]
				if serr != nil {
					r.Count("shape-not-serializable:ext")
					break
				}
				if sv.ext == nil {
					r.Violate("C18 metadata-not-read-back type=ext backend="+st.kind, desc, desc)
					break
				}
				same := (x.CRLNumber == nil && sv.ext.CRLNumber == nil) || (x.CRLNumber != nil && sv.ext.CRLNumber != nil && x.CRLNumber.Cmp(sv.ext.CRLNumber) == 0)
				if !same {
					r.Violate("C18 metadata-changed-by-store type=ext fields=crlNumber backend="+st.kind, fmt.Sprintf("%s; returned %v", desc, sv.ext.CRLNumber), desc)
				}
			case "loc":
				l := locs[c.i]
				desc = fmt.Sprintf("loc cdp=%q url=%q file=%.60q", l.CRLDistributionPoints, l.CRLUrl, l.CRLFile)
				_, serr := ser.SerializeCRLLocations(&l)
				st.loc(b, &l)
				if bi == 1 {
					st.reopen(b)
				}
				sv := st.slots(b)
				obs[bi] = sv.obs[3]
				if serr != nil {
					// the write is refused with an error; nothing is stored, nothing silently lost
					r.Count("shape-not-serializable:loc")
					if bi == 0 {
						r.Note(fmt.Sprintf("write refused (serializer error, nothing stored): %.150s: %v", desc, serr))
					}
					if sv.loc != nil {
						r.Violate("C18 unserializable-locations-visible backend="+st.kind, desc, desc)
					}
					break
				}
				if sv.loc == nil {
					r.Violate("C18 metadata-not-read-back type=loc backend="+st.kind, desc, desc)
					break
				}
				if !strsEqual(sv.loc.CRLDistributionPoints, l.CRLDistributionPoints) || sv.loc.CRLUrl != l.CRLUrl || sv.loc.CRLFile != l.CRLFile {
					r.Violate("C18 metadata-changed-by-store type=loc backend="+st.kind, fmt.Sprintf("%s; returned %q %q %.60q", desc, sv.loc.CRLDistributionPoints, sv.loc.CRLUrl, sv.loc.CRLFile), desc)
				}
			}
			st.close(b)
			if ci < 4 && bi == 0 {
				r.Sample(map[string]string{"shape": c.kind, "value": desc, "observed": obs[bi]})
			}
		}
		if obs[0] != obs[1] {
			r.Violate("C18 backends-differ kind="+c.kind, fmt.Sprintf("case %d: map=%.200s disk=%.200s", ci, obs[0], obs[1]), nil)
		}
		r.Eval(fmt.Sprintf("shape/%s/%d", c.kind, c.i), true)
		r.Count("shape:" + c.kind)
		b.flush(r)
		os.RemoveAll(dir)
	})
}

// ---- operation sequences -------------------------------------------------------------------------------

type c18Val struct {
	metas  []*crlreader.CRLMetaInfo
	exts   []*crlreader.ExtendedCRLMetaInfo
	sigs   [][]byte
	locs   []*core.CRLLocations
	iss    []pkix.RDNSequence
	serial []*big.Int
	ents   []*pkix.RevokedCertificate // index = variant
}

type c18W struct { // one write
	kind string // start ins ext sig loc
	iss  int
	ent  *pkix.RevokedCertificate
	meta *crlreader.CRLMetaInfo
	ext  *crlreader.ExtendedCRLMetaInfo
	sig  []byte
	loc  *core.CRLLocations
}

type c18Op struct {
	name    string
	w       *c18W
	replace []c18W
	reopen  bool
}

// refState is the property's reference: a plain map and four slots.
type refState struct {
	ent  map[string]*pkix.RevokedCertificate
	meta *crlreader.CRLMetaInfo
	ext  *crlreader.ExtendedCRLMetaInfo
	sig  []byte
	loc  *core.CRLLocations
}

func newRef() *refState { return &refState{ent: map[string]*pkix.RevokedCertificate{}} }

func refKey(iss pkix.RDNSequence, s *big.Int) string { return iss.String() + "\x00" + s.String() }

// serializable reports whether the serializer accepts the value (otherwise the write is refused with an error and
// nothing is stored, e.g. a name that is not valid UTF-8).
func (w c18W) serializable() bool {
	var err error
	switch w.kind {
	case "start":
		_, err = ser.SerializeMetaInfo(w.meta)
	case "ins":
		_, err = ser.SerializeRevokedCert(w.ent)
	case "ext":
		_, err = ser.SerializeMetaInfoExt(w.ext)
	case "loc":
		_, err = ser.SerializeCRLLocations(w.loc)
	}
	return err == nil
}

func (s *refState) write(v *c18Val, w c18W) {
	if !w.serializable() {
		return
	}
	switch w.kind {
	case "start":
		s.meta = w.meta
	case "ins":
		s.ent[refKey(v.iss[w.iss], w.ent.SerialNumber)] = w.ent
	case "ext":
		s.ext = w.ext
	case "sig":
		s.sig = w.sig
	case "loc":
		s.loc = w.loc
	}
}

func (s *refState) nonTrivial() bool {
	return len(s.ent) > 0 || s.meta != nil || s.ext != nil || s.sig != nil || s.loc != nil
}

func applyW(b *opBuf, st *kvStore, v *c18Val, w c18W) {
	switch w.kind {
	case "start":
		st.start(b, w.meta)
	case "ins":
		iss := v.iss[w.iss]
		st.ins(b, &iss, w.ent)
	case "ext":
		st.ext(b, w.ext)
	case "sig":
		st.sig(b, w.sig)
	case "loc":
		st.loc(b, w.loc)
	}
}

type c18Probe struct {
	iss    int
	serial *big.Int
}

// c18RunSeq performs one sequence on both backends and the reference, reads everything at the end, applies the oracle.
func c18RunSeq(r *Run, base string, id int, v *c18Val, seq []c18Op, probes []c18Probe, sample bool) {
	b := &opBuf{}
	b.add("kv reset", "ok")
	dir := fmt.Sprintf("%s/s%d", base, id)
	must(os.MkdirAll(dir, 0700))
	defer os.RemoveAll(dir)
	ref := newRef()
	for _, op := range seq {
		switch {
		case op.w != nil:
			ref.write(v, *op.w)
		case op.replace != nil:
			ref = newRef()
			for _, w := range op.replace {
				ref.write(v, w)
			}
		}
	}
	var names []string
	for _, op := range seq {
		names = append(names, op.name)
	}
	seqName := strings.Join(names, " ")
	var final [2][]string
	for bi, kind := range []string{"map", "ldb"} {
		sid := map[string]string{"map": "m", "ldb": "d"}[kind]
		f := storeFactory(kind, dir)
		st := newKvStore(b, sid, kind, f, "live", false)
		if st == nil {
			r.Violate("C18 store-create-failed backend="+kind, seqName, nil)
			continue
		}
		tmpN := 0
		for _, op := range seq {
			switch {
			case op.w != nil:
				applyW(b, st, v, *op.w)
			case op.replace != nil:
				tmpN++
				other := newKvStore(b, fmt.Sprintf("%st%d", sid, tmpN), kind, f, "live", true)
				if other == nil {
					r.Violate("C18 store-create-failed backend="+kind, seqName, nil)
					continue
				}
				for _, w := range op.replace {
					applyW(b, other, v, w)
				}
				if o := st.replace(b, other); o != "ok" {
					r.Violate("C18 replace-failed backend="+kind, seqName+" -> "+o, names)
				}
			case op.reopen:
				if kind == "ldb" {
					st.reopen(b)
				}
			}
		}
		// read everything
		for _, p := range probes {
			iss := v.iss[p.iss]
			o, got := st.get(b, &iss, p.serial)
			final[bi] = append(final[bi], o)
			want := ref.ent[refKey(iss, p.serial)]
			switch {
			case want == nil && o != "absent":
				r.Violate("C18 lookup-of-never-inserted-pair-not-absent backend="+kind, fmt.Sprintf("[%s] probe %s/%s -> %.80s", seqName, iss.String(), p.serial, o), names)
			case want != nil && got == nil:
				r.Violate("C18 inserted-entry-not-returned backend="+kind+" obs="+strings.Fields(o)[0], fmt.Sprintf("[%s] probe %s/%s -> %.80s", seqName, iss.String(), p.serial, o), names)
			case want != nil && (got.SerialNumber.Cmp(want.SerialNumber) != 0 || !got.RevocationTime.Equal(want.RevocationTime) || !extsEqual(got.Extensions, want.Extensions)):
				r.Violate("C18 lookup-returns-other-entry backend="+kind, fmt.Sprintf("[%s] probe %s/%s: stored time=%s exts=%d, returned time=%s exts=%d", seqName, iss.String(), p.serial,
					want.RevocationTime, len(want.Extensions), got.RevocationTime, len(got.Extensions)), names)
			}
		}
		sv := st.slots(b)
		final[bi] = append(final[bi], sv.obs[:]...)
		if (ref.meta == nil) != (sv.meta == nil) || (ref.meta != nil && !(rdnEqual(ref.meta.Issuer, sv.meta.Issuer) && ref.meta.ThisUpdate.Equal(sv.meta.ThisUpdate) && ref.meta.NextUpdate.Equal(sv.meta.NextUpdate))) {
			r.Violate("C18 metadata-mismatch type=meta backend="+kind, "["+seqName+"] "+sv.obs[0], names)
		}
		if (ref.ext == nil) != (sv.ext == nil) || (ref.ext != nil && ref.ext.CRLNumber.Cmp(sv.ext.CRLNumber) != 0) {
			r.Violate("C18 metadata-mismatch type=ext backend="+kind, "["+seqName+"] "+sv.obs[1], names)
		}
		if string(ref.sig) != string(sv.sig) {
			r.Violate("C18 metadata-mismatch type=sig backend="+kind, "["+seqName+"]", names)
		}
		if (ref.loc == nil) != (sv.loc == nil) || (ref.loc != nil && !(strsEqual(ref.loc.CRLDistributionPoints, sv.loc.CRLDistributionPoints) && ref.loc.CRLUrl == sv.loc.CRLUrl && ref.loc.CRLFile == sv.loc.CRLFile)) {
			r.Violate("C18 metadata-mismatch type=loc backend="+kind, "["+seqName+"] "+sv.obs[3], names)
		}
		// IsEmpty: compared with the model always; with the property only where the repository asks
		empty := st.empty(b)
		if !ref.nonTrivial() && !empty {
			r.Violate("C18 fresh-store-not-empty backend="+kind, "["+seqName+"]", names)
		}
		if ref.meta != nil && empty {
			r.Violate("C18 started-store-reported-empty backend="+kind, "["+seqName+"]", names)
		}
		st.close(b)
	}
	if strings.Join(final[0], "|") != strings.Join(final[1], "|") {
		r.Violate("C18 backends-differ kind=sequence", fmt.Sprintf("[%s] map=%.300s disk=%.300s", seqName, strings.Join(final[0], "|"), strings.Join(final[1], "|")), names)
	}
	r.Eval("seq/"+seqName, ref.nonTrivial())
	r.Count(fmt.Sprintf("seq-len:%02d", len(seq)))
	if sample {
		r.Sample(map[string]interface{}{"sequence": names, "final_map": final[0]})
	}
	b.flush(r)
}

func c18Sequences(r *Run) {
	ca1, ca2 := NewCA(CAOpts{CN: "C18 signer 1", EC: true}), NewCA(CAOpts{CN: "C18 signer 2", EC: true})
	t0 := time.Date(2024, 5, 17, 12, 30, 45, 0, time.UTC)
	v := &c18Val{
		iss: []pkix.RDNSequence{cn("CA_One"), cn("CA_One_5"), cn("Ünicode CA 認証局")},
		metas: []*crlreader.CRLMetaInfo{
			{Issuer: cn("CA_One"), ThisUpdate: t0, NextUpdate: t0.Add(24 * time.Hour)},
			{Issuer: cn("CA_One"), ThisUpdate: t0.Add(time.Hour)},
		},
		exts: []*crlreader.ExtendedCRLMetaInfo{{CRLNumber: big.NewInt(7)}, {CRLNumber: bigFromHex("ffeeddccbbaa99887766554433221100")}},
		sigs: [][]byte{ca1.Cert.Raw, ca2.Cert.Raw},
		locs: []*core.CRLLocations{{CRLDistributionPoints: []string{"http://a.example/x.crl"}}, {CRLUrl: "http://b.example/y.crl"}},
		ents: []*pkix.RevokedCertificate{
			{SerialNumber: big.NewInt(5), RevocationTime: t0},
			{SerialNumber: big.NewInt(5), RevocationTime: t0.Add(-time.Hour), Extensions: []pkix.Extension{{Id: stOidReason, Value: []byte{0x0a, 0x01, 0x01}}}},
			{SerialNumber: big.NewInt(5), RevocationTime: time.Date(2050, 1, 1, 0, 0, 0, 0, time.UTC)},
			{SerialNumber: big.NewInt(7), RevocationTime: t0},
		},
	}
	alphabet := []c18Op{
		{name: "start(M1)", w: &c18W{kind: "start", meta: v.metas[0]}},
		{name: "ins(A,5,E1)", w: &c18W{kind: "ins", iss: 0, ent: v.ents[0]}},
		{name: "ins(A,5,E2)", w: &c18W{kind: "ins", iss: 0, ent: v.ents[1]}},
		{name: "ins(B,5,E3)", w: &c18W{kind: "ins", iss: 1, ent: v.ents[2]}},
		{name: "ext(X1)", w: &c18W{kind: "ext", ext: v.exts[0]}},
		{name: "sig(S1)", w: &c18W{kind: "sig", sig: v.sigs[0]}},
		{name: "loc(L1)", w: &c18W{kind: "loc", loc: v.locs[0]}},
		{name: "replace{start(M2),ins(A,7,E4),loc(L2),sig(S2)}", replace: []c18W{{kind: "start", meta: v.metas[1]}, {kind: "ins", iss: 0, ent: v.ents[3]}, {kind: "loc", loc: v.locs[1]}, {kind: "sig", sig: v.sigs[1]}}},
		{name: "replace{}", replace: []c18W{}},
		{name: "reopen", reopen: true},
	}
	probes := []c18Probe{{0, big.NewInt(5)}, {1, big.NewInt(5)}, {0, big.NewInt(7)}, {0, big.NewInt(-5)}, {2, big.NewInt(5)}}
	maxLen := 4
	if r.Thorough() {
		maxLen = 5
	}
	var seqs [][]c18Op
	var gen func(prefix []c18Op)
	gen = func(prefix []c18Op) {
		seqs = append(seqs, append([]c18Op(nil), prefix...))
		if len(prefix) == maxLen {
			return
		}
		for _, a := range alphabet {
			gen(append(prefix, a))
		}
	}
	gen(nil)
	base := scratchDir("c18seq")
	defer os.RemoveAll(base)
	parallel(len(seqs), 16, func(i int) { c18RunSeq(r, base, i, v, seqs[i], probes, i == 4321 || i == 77) })

	if !r.Thorough() {
		return
	}
	// random long sequences over the value shapes
	issuers, serials, times, exts := issuerShapes(), serialShapes(), timeShapes(), extShapes()
	nRand := 3000
	type rcase struct {
		v      *c18Val
		seq    []c18Op
		probes []c18Probe
	}
	rcases := make([]rcase, nRand)
	for i := range rcases {
		rv := &c18Val{iss: []pkix.RDNSequence{issuers[r.Rng.Intn(len(issuers))], issuers[r.Rng.Intn(len(issuers))], issuers[r.Rng.Intn(len(issuers))]}}
		var used []c18Probe
		randW := func() c18W {
			switch r.Rng.Intn(8) {
			case 0:
				return c18W{kind: "start", meta: &crlreader.CRLMetaInfo{Issuer: rv.iss[r.Rng.Intn(3)], ThisUpdate: times[r.Rng.Intn(4)], NextUpdate: times[r.Rng.Intn(4)]}}
			case 1:
				return c18W{kind: "ext", ext: &crlreader.ExtendedCRLMetaInfo{CRLNumber: serials[r.Rng.Intn(len(serials))]}}
			case 2:
				return c18W{kind: "sig", sig: v.sigs[r.Rng.Intn(2)]}
			case 3:
				return c18W{kind: "loc", loc: v.locs[r.Rng.Intn(2)]}
			default:
				is := r.Rng.Intn(3)
				s := serials[r.Rng.Intn(len(serials))]
				if len(used) > 0 && r.Rng.Intn(3) == 0 {
					s = used[r.Rng.Intn(len(used))].serial // overwrite / same serial under another issuer
				}
				used = append(used, c18Probe{is, s})
				return c18W{kind: "ins", iss: is, ent: &pkix.RevokedCertificate{SerialNumber: s, RevocationTime: times[r.Rng.Intn(7)], Extensions: exts[r.Rng.Intn(len(exts))]}}
			}
		}
		n := 1 + r.Rng.Intn(60)
		var seq []c18Op
		for j := 0; j < n; j++ {
			switch x := r.Rng.Intn(20); {
			case x == 0:
				m := r.Rng.Intn(8)
				ws := make([]c18W, 0, m)
				for k := 0; k < m; k++ {
					ws = append(ws, randW())
				}
				seq = append(seq, c18Op{name: fmt.Sprintf("replace{%d writes}", m), replace: ws})
			case x == 1:
				seq = append(seq, c18Op{name: "reopen", reopen: true})
			default:
				w := randW()
				nm := w.kind
				if w.kind == "ins" {
					nm = fmt.Sprintf("ins(%d,%s)", w.iss, w.ent.SerialNumber)
				}
				seq = append(seq, c18Op{name: nm, w: &w})
			}
		}
		ps := append([]c18Probe(nil), used...)
		for k := 0; k < 4; k++ {
			ps = append(ps, c18Probe{r.Rng.Intn(3), serials[r.Rng.Intn(len(serials))]})
		}
		if len(ps) > 24 {
			ps = ps[len(ps)-24:]
		}
		rcases[i] = rcase{rv, seq, ps}
	}
	parallel(nRand, 16, func(i int) { c18RunSeq(r, base, 1000000+i, rcases[i].v, rcases[i].seq, rcases[i].probes, i < 2) })
}
