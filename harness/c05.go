package main

// C05 — OCSP authenticity. The real parseOcspResponse (through the verif shim) and the real IsRevoked (over HTTP,
// with the cache observed by a second call while the responder is down) against responses built for every
// combination of signer × serial shape × status × response status × malformation, and against byte-level mutations
// of authentic responses. Every body is also mapped to the model's abstract response record by the abstracter
// (infra_ocsp.go) and handed to the Lean driver.

import (
	"crypto"
	"crypto/x509"
	"crypto/x509/pkix"
	"encoding/asn1"
	"fmt"
	"math/big"
	"strconv"
	"strings"
	"time"

	"golang.org/x/crypto/ocsp"
)

func init() { register("C05", runC05) }

type c05Signer struct {
	Name      string
	Cert      *x509.Certificate
	Key       crypto.Signer
	Embed     []*x509.Certificate
	Authentic bool // entitled to speak for the leaf's issuer (by construction)
}

type c05Env struct {
	r                        *Run
	abs                      *AbsCtx
	rsp                      *Responder
	ca, sib, stranger, inter *CA
	delegEKU, delegNoEKU     *CA
	delegAbsentEKU, delegAny *CA
	sibDeleg                 *CA
	interDeleg               *CA
	val                      *Validator
}

type c05Case struct {
	Signer     string `json:"signer"`
	Serial     string `json:"serial"` // this other multi0 multi1 multi2 multiNone dupFirstGood
	Status     string `json:"status"`
	RespStatus int    `json:"resp_status"`
	Extra      string `json:"extra"`  // "", critical, md5hash, badrid, keyhash, wrongtype, trailing, sha256hash, nextupdate
	Issuer     string `json:"issuer"` // root | inter | leafski
}

func (c c05Case) key() string {
	return fmt.Sprintf("%s|%s|%s|%d|%s|%s", c.Signer, c.Serial, c.Status, c.RespStatus, c.Extra, c.Issuer)
}

func runC05(r *Run) {
	r.rule = "real parseOcspResponse / IsRevoked vs model on built responses: signer {issuer, issuer+own certificate embedded, delegate with OCSPSigning EKU " +
		"embedded / not embedded, delegate without EKU, client's own certificate and key (embedded or not), self-signed stranger (embedded or not), sibling CA with " +
		"equal name and key id, its delegate, authorised delegate's certificate with a stranger's signature} x serial {this, other, several single responses with this " +
		"first/middle/last, several without this, this twice with different status} x status x response status {successful, malformed, internalError, tryLater, " +
		"sigRequired, unauthorized} x malformations; issuer = root CA, intermediate CA, and a client certificate whose subject key id equals its authority key id; " +
		"then random bit flips / truncations / splices of authentic responses. Non-trivial = the body decodes as an OCSPResponse with status successful"
	e := &c05Env{r: r, abs: NewAbsCtx(), rsp: NewResponder()}
	defer e.rsp.Close()
	e.ca = NewCA(CAOpts{CN: "C05 Root", EC: true})
	e.sib = NewCA(CAOpts{CN: "C05 Root", EC: true, SKI: e.ca.Cert.SubjectKeyId})
	e.stranger = NewCA(CAOpts{CN: "C05 Stranger", EC: true, ExtKeyUsage: []x509.ExtKeyUsage{x509.ExtKeyUsageOCSPSigning}})
	e.inter = NewCA(CAOpts{CN: "C05 Intermediate", Parent: e.ca})
	e.delegEKU = NewCA(CAOpts{CN: "C05 responder", EC: true, Parent: e.ca, NotCA: true, ExtKeyUsage: []x509.ExtKeyUsage{x509.ExtKeyUsageOCSPSigning}})
	e.delegNoEKU = NewCA(CAOpts{CN: "C05 responder no eku", EC: true, Parent: e.ca, NotCA: true, ExtKeyUsage: []x509.ExtKeyUsage{x509.ExtKeyUsageServerAuth}})
	e.delegAbsentEKU = NewCA(CAOpts{CN: "C05 responder eku absent", EC: true, Parent: e.ca, NotCA: true})
	e.delegAny = NewCA(CAOpts{CN: "C05 responder any eku", EC: true, Parent: e.ca, NotCA: true, ExtKeyUsage: []x509.ExtKeyUsage{x509.ExtKeyUsageAny}})
	e.sibDeleg = NewCA(CAOpts{CN: "C05 sibling responder", EC: true, Parent: e.sib, NotCA: true, ExtKeyUsage: []x509.ExtKeyUsage{x509.ExtKeyUsageOCSPSigning}})
	e.interDeleg = NewCA(CAOpts{CN: "C05 inter responder", EC: true, Parent: e.inter, NotCA: true, ExtKeyUsage: []x509.ExtKeyUsage{x509.ExtKeyUsageOCSPSigning}})
	var err error
	e.val, err = Provision(VCfg{Mode: "ocsp_only", NoCRLConfig: true, OCSPStrict: true, OCSPCacheDur: "1h"})
	must(err)
	defer e.val.Close()

	signers := []string{"issuer", "issuer+self", "deleg", "deleg-noembed", "deleg-noeku", "deleg-absent-eku", "deleg-any-eku", "client+embed+rid-issuer", "absent-eku+embed+rid-issuer", "client", "client+embed", "stranger", "stranger+embed",
		"sibling", "sibling-deleg", "deleg-cert-stranger-sig", "deleg+issuer-embedded-second"}
	var cases []c05Case
	for _, iss := range []string{"root", "inter", "leafski"} {
		for _, sg := range signers {
			for _, ser := range []string{"this", "other", "multi0", "multi1", "multi2", "multiNone", "dupFirstGood"} {
				for _, st := range []string{"good", "revoked", "unknown"} {
					if iss != "root" && !(ser == "this" || ser == "multi1" || ser == "other") {
						continue
					}
					cases = append(cases, c05Case{Signer: sg, Serial: ser, Status: st, Issuer: iss})
				}
			}
		}
		for _, sg := range []string{"client+embed+rid-issuer", "absent-eku+embed+rid-issuer"} {
			for _, st := range []string{"good", "revoked"} {
				cases = append(cases, c05Case{Signer: sg, Serial: "this", Status: st, Extra: "keyhash", Issuer: iss})
			}
		}
		for _, sg := range []string{"issuer", "deleg", "stranger"} {
			for _, rs := range []int{1, 2, 3, 5, 6, 4, 7} {
				cases = append(cases, c05Case{Signer: sg, Serial: "this", Status: "good", RespStatus: rs, Issuer: iss})
			}
			for _, ex := range []string{"critical", "md5hash", "badrid", "keyhash", "wrongtype", "trailing", "sha256hash", "nextupdate"} {
				for _, st := range []string{"good", "revoked"} {
					cases = append(cases, c05Case{Signer: sg, Serial: "this", Status: st, Extra: ex, Issuer: iss})
				}
			}
		}
	}
	parallel(len(cases), 16, func(i int) { e.runBuilt(i, cases[i]) })

	// library-made error responses
	for i, body := range [][]byte{ocsp.MalformedRequestErrorResponse, ocsp.InternalErrorErrorResponse, ocsp.TryLaterErrorResponse,
		ocsp.SigRequredErrorResponse, ocsp.UnauthorizedErrorResponse, {}, {0x30}, {0x30, 0x00}, []byte("<html>")} {
		leaf := e.ca.IssueLeaf(LeafOpts{})
		e.checkBody(fmt.Sprintf("errresp/%d", i), leaf.Cert, []*x509.Certificate{e.ca.Cert}, []*x509.Certificate{e.ca.Cert}, body, false, nil, "")
	}

	c05AKIForms(e)
	c05NonStrictTrace(e)

	nMut := 2000
	if r.Thorough() {
		nMut = 50000
	}
	e.runMutations(nMut)
}

// c05NonStrictTrace: without ocsp_aia_strict an unauthentic / erroneous / malformed answer is "no answer" and the handshake
// goes on - but it must leave no trace: when the issuer's genuine answer (revoked) is available at the next handshake, that
// answer counts, also within the cache lifetime, and a strict validator of the same process is not served from what the first
// one left behind.
func c05NonStrictTrace(e *c05Env) {
	r := e.r
	lenient, err := Provision(VCfg{Mode: "ocsp_only", NoCRLConfig: true, OCSPStrict: false, OCSPCacheDur: "1h"})
	if err != nil {
		r.Violate("C05 provision-failed", "non-strict: "+err.Error(), nil)
		return
	}
	defer lenient.Close()
	kinds := []string{"stranger", "sibling", "trylater", "malformed", "other-serial", "down"}
	for i, kind := range kinds {
		path := fmt.Sprintf("/c05/trace/%d", i)
		leaf := e.ca.IssueLeaf(LeafOpts{OCSP: []string{e.rsp.URL(path)}})
		chains := [][]*x509.Certificate{{leaf.Cert, e.ca.Cert}}
		nu := time.Now().Add(time.Hour)
		var bad RespScript
		switch kind {
		case "stranger":
			bad = RespScript{Kind: "bytes", Body: e.stranger.OCSPResponse(OCSPOpts{Status: ocsp.Good, Serial: leaf.Cert.SerialNumber, NextUpdate: nu})}
		case "sibling":
			bad = RespScript{Kind: "bytes", Body: e.sib.OCSPResponse(OCSPOpts{Status: ocsp.Good, Serial: leaf.Cert.SerialNumber, NextUpdate: nu})}
		case "trylater":
			bad = RespScript{Kind: "bytes", Body: ocsp.TryLaterErrorResponse}
		case "malformed":
			bad = RespScript{Kind: "bytes", Body: []byte("<html>busy</html>")}
		case "other-serial":
			bad = RespScript{Kind: "bytes", Body: e.ca.OCSPResponse(OCSPOpts{Status: ocsp.Good, Serial: big.NewInt(424242), NextUpdate: nu})}
		case "down":
			bad = RespScript{Kind: "drop"}
		}
		look := func(v *Validator) string {
			res := "panic"
			func() {
				defer func() { recover() }()
				st, err := v.V.VerifOCSPChecker().IsRevoked(leaf.Cert, chains)
				res = classify(st != nil && st.Revoked, err)
			}()
			return res
		}
		e.rsp.SetFixed(path, bad)
		first := look(lenient)
		// the issuer's own answer becomes available: revoked
		e.rsp.SetFixed(path, RespScript{Kind: "bytes", Body: e.ca.OCSPResponse(OCSPOpts{Status: ocsp.Revoked, Serial: leaf.Cert.SerialNumber, NextUpdate: nu})})
		second := look(lenient)
		key := "non-strict then genuine revoked, first answer " + kind
		r.Eval(key, true)
		r.Count("non-strict-trace:" + kind + ":" + first + "/" + second)
		if first == "revoked" {
			r.Violate("C05 verdict-from-unentitled-signer non-strict "+kind, key+": first lookup returned revoked", nil)
		}
		if second != "revoked" {
			r.Violate("C05 unauthentic-response-cached non-strict "+kind, fmt.Sprintf("%s: the first lookup (%s) left something behind: with the issuer answering 'revoked' the second lookup returned %s", key, first, second), nil)
		}
		// a strict validator of the same process, responder unavailable: there is no authentic answer to serve
		path2 := fmt.Sprintf("/c05/trace2/%d", i)
		leaf2 := e.ca.IssueLeaf(LeafOpts{OCSP: []string{e.rsp.URL(path2)}})
		chains2 := [][]*x509.Certificate{{leaf2.Cert, e.ca.Cert}}
		e.rsp.SetFixed(path2, bad)
		func() {
			defer func() { recover() }()
			lenient.V.VerifOCSPChecker().IsRevoked(leaf2.Cert, chains2)
		}()
		e.rsp.SetFixed(path2, RespScript{Kind: "drop"})
		st, err := e.val.V.VerifOCSPChecker().IsRevoked(leaf2.Cert, chains2)
		if got := classify(st != nil && st.Revoked, err); got != "error" {
			r.Violate("C05 unauthentic-response-cached strict-after-non-strict "+kind, fmt.Sprintf("after a non-strict validator saw the answer %q, the strict validator (responder down) returned %s", kind, got), nil)
		}
	}
}

// c05AKIForms: the issuer candidates of the OCSP check are found through the client certificate's authority key identifier.
// Whatever form that extension has (key id, issuer name + serial, a URI instead of a name, a serial alone, a name alone,
// nothing at all), a certificate that merely shares the issuer's *serial number* — configured as a trusted responder
// certificate or present in another verified chain — does not speak for the issuer: its answers are no answer, and are not
// cached.
func c05AKIForms(e *c05Env) {
	r := e.r
	twin := NewCA(CAOpts{CN: "C05 serial twin", EC: true, Serial: e.ca.Cert.SerialNumber.Int64(), ExtKeyUsage: []x509.ExtKeyUsage{x509.ExtKeyUsageOCSPSigning}})
	twinFile := writeFile(scratchDir("c05twin"), "twin.pem", certPEM(twin.Cert))
	serial := e.ca.Cert.SerialNumber.Bytes()
	if len(serial) > 0 && serial[0]&0x80 != 0 {
		serial = append([]byte{0}, serial...)
	}
	kid := derTLV(0x80, e.ca.Cert.SubjectKeyId)
	dir := derTLV(0xA1, derTLV(0xA4, e.ca.Cert.RawIssuer))
	wrongDir := derTLV(0xA1, derTLV(0xA4, e.stranger.Cert.RawSubject))
	uri := derTLV(0xA1, derTLV(0x86, []byte("http://ca.example/issuer")))
	ser := derTLV(0x82, serial)
	forms := []struct {
		name  string
		parts [][]byte
	}{{"default", nil}, {"kid", [][]byte{kid}}, {"dir+serial", [][]byte{dir, ser}}, {"kid+dir+serial", [][]byte{kid, dir, ser}}, {"uri+serial", [][]byte{uri, ser}},
		{"kid+uri+serial", [][]byte{kid, uri, ser}}, {"serial", [][]byte{ser}}, {"dir", [][]byte{dir}}, {"uri", [][]byte{uri}}, {"empty", [][]byte{}},
		{"wrongdir+serial", [][]byte{wrongDir, ser}}}
	type cs struct {
		form    int
		trusted bool
		status  int
		signer  string // twin | issuer
	}
	var cases []cs
	for f := range forms {
		for _, tr := range []bool{true, false} {
			for _, st := range []int{ocsp.Good, ocsp.Revoked} {
				cases = append(cases, cs{f, tr, st, "twin"})
			}
		}
		cases = append(cases, cs{f, true, ocsp.Revoked, "issuer"})
	}
	parallel(len(cases), 8, func(i int) {
		c := cases[i]
		f := forms[c.form]
		cfg := VCfg{Mode: "ocsp_only", NoCRLConfig: true, OCSPStrict: true, OCSPCacheDur: "1h"}
		if c.trusted {
			cfg.OCSPTrusted = []string{twinFile}
		}
		v, err := Provision(cfg)
		if err != nil {
			r.Violate("C05 provision-failed", "aki forms: "+err.Error(), nil)
			return
		}
		defer v.Close()
		path := fmt.Sprintf("/c05/aki/%d", i)
		lo := LeafOpts{OCSP: []string{e.rsp.URL(path)}}
		if f.parts != nil {
			lo.Extra = []pkix.Extension{{Id: oidAKI, Value: derSeq(f.parts...)}}
		}
		leaf := e.ca.IssueLeaf(lo)
		chains := [][]*x509.Certificate{{leaf.Cert, e.ca.Cert}}
		if !c.trusted {
			chains = append(chains, []*x509.Certificate{leaf.Cert, twin.Cert})
		}
		signer := twin
		if c.signer == "issuer" {
			signer = e.ca
		}
		body := signer.OCSPResponse(OCSPOpts{Status: c.status, Serial: leaf.Cert.SerialNumber, NextUpdate: time.Now().Add(time.Hour)})
		e.rsp.SetFixed(path, RespScript{Kind: "bytes", Body: body})
		ch := v.V.VerifOCSPChecker()
		look := func() string {
			var res string
			func() {
				defer func() {
					if p := recover(); p != nil {
						res = "panic"
					}
				}()
				st, err := ch.IsRevoked(leaf.Cert, chains)
				res = classify(st != nil && st.Revoked, err)
			}()
			return res
		}
		o1 := look()
		e.rsp.SetFixed(path, RespScript{Kind: "drop"})
		o2 := look()
		key := fmt.Sprintf("aki-form=%s twin-%s status=%d signer=%s", f.name, map[bool]string{true: "trusted-responder", false: "in-second-chain"}[c.trusted], c.status, c.signer)
		r.Eval("aki/"+key, true)
		r.Count("aki-form:" + f.name + ":" + c.signer + ":" + o1)
		if c.signer == "twin" {
			if o1 != "error" {
				r.Violate("C05 verdict-from-unentitled-signer aki-form="+f.name, key+": IsRevoked returned "+o1+" on an answer signed by a certificate that only shares the issuer's serial number", nil)
			}
			if o2 != "error" {
				r.Violate("C05 unauthentic-response-cached aki-form="+f.name, key+": with the responder down the second call returned "+o2, nil)
			}
		} else if o1 == "panic" {
			r.Violate("C05 lookup-panicked aki-form="+f.name, key, nil)
		}
	})
}

const c05EndEntitySig = "C05 end-entity-is-issuer-candidate"

func c05Sig(base, shape string) string {
	if shape == "*end-entity" {
		return c05EndEntitySig
	}
	return base + shape
}

func statusOf(s string) int {
	switch s {
	case "good":
		return ocsp.Good
	case "revoked":
		return ocsp.Revoked
	}
	return ocsp.Unknown
}

// subject builds the leaf, its chain, the issuer CA and the signer table for one case.
func (e *c05Env) subject(c c05Case, ocspURL string) (leaf *Leaf, chains [][]*x509.Certificate, issuer *CA, deleg *CA) {
	lo := LeafOpts{}
	if ocspURL != "" {
		lo.OCSP = []string{ocspURL}
	}
	switch c.Issuer {
	case "inter":
		leaf = e.inter.IssueLeaf(lo)
		return leaf, [][]*x509.Certificate{{leaf.Cert, e.inter.Cert, e.ca.Cert}}, e.inter, e.interDeleg
	case "leafski":
		lo.SKI = e.ca.Cert.SubjectKeyId // the client certificate's subject key id equals its authority key id
		leaf = e.ca.IssueLeaf(lo)
		return leaf, [][]*x509.Certificate{{leaf.Cert, e.ca.Cert}}, e.ca, e.delegEKU
	}
	leaf = e.ca.IssueLeaf(lo)
	return leaf, [][]*x509.Certificate{{leaf.Cert, e.ca.Cert}}, e.ca, e.delegEKU
}

func (e *c05Env) signer(name string, leaf *Leaf, issuer, deleg *CA) c05Signer {
	switch name {
	case "issuer":
		return c05Signer{name, issuer.Cert, issuer.Key, nil, true}
	case "issuer+self":
		// the issuer embeds its own certificate: the library then wants that certificate signed by the issuer's key
		return c05Signer{name, issuer.Cert, issuer.Key, []*x509.Certificate{issuer.Cert}, true}
	case "deleg":
		return c05Signer{name, deleg.Cert, deleg.Key, []*x509.Certificate{deleg.Cert}, true}
	case "deleg+issuer-embedded-second":
		return c05Signer{name, deleg.Cert, deleg.Key, []*x509.Certificate{deleg.Cert, issuer.Cert}, true}
	case "deleg-noembed":
		return c05Signer{name, deleg.Cert, deleg.Key, nil, false}
	case "deleg-noeku":
		return c05Signer{name, e.delegNoEKU.Cert, e.delegNoEKU.Key, []*x509.Certificate{e.delegNoEKU.Cert}, false}
	case "deleg-absent-eku":
		return c05Signer{name, e.delegAbsentEKU.Cert, e.delegAbsentEKU.Key, []*x509.Certificate{e.delegAbsentEKU.Cert}, false}
	case "deleg-any-eku":
		return c05Signer{name, e.delegAny.Cert, e.delegAny.Key, []*x509.Certificate{e.delegAny.Cert}, false}
	case "client+embed+rid-issuer":
		// the responder id names the issuer, the signature is the client's, whose certificate is embedded first
		return c05Signer{name, issuer.Cert, leaf.Key, []*x509.Certificate{leaf.Cert}, false}
	case "absent-eku+embed+rid-issuer":
		return c05Signer{name, issuer.Cert, e.delegAbsentEKU.Key, []*x509.Certificate{e.delegAbsentEKU.Cert, issuer.Cert}, false}
	case "client":
		return c05Signer{name, leaf.Cert, leaf.Key, nil, false}
	case "client+embed":
		return c05Signer{name, leaf.Cert, leaf.Key, []*x509.Certificate{leaf.Cert}, false}
	case "stranger":
		return c05Signer{name, e.stranger.Cert, e.stranger.Key, nil, false}
	case "stranger+embed":
		return c05Signer{name, e.stranger.Cert, e.stranger.Key, []*x509.Certificate{e.stranger.Cert}, false}
	case "sibling":
		return c05Signer{name, e.sib.Cert, e.sib.Key, nil, false}
	case "sibling-deleg":
		return c05Signer{name, e.sibDeleg.Cert, e.sibDeleg.Key, []*x509.Certificate{e.sibDeleg.Cert}, false}
	case "deleg-cert-stranger-sig":
		return c05Signer{name, deleg.Cert, e.stranger.Key, []*x509.Certificate{deleg.Cert}, false}
	}
	panic("signer " + name)
}

func (e *c05Env) known(leaf *Leaf) []*x509.Certificate {
	return []*x509.Certificate{e.ca.Cert, e.inter.Cert, e.sib.Cert, e.stranger.Cert, e.delegEKU.Cert, e.delegNoEKU.Cert, e.sibDeleg.Cert, e.interDeleg.Cert, leaf.Cert, e.delegAbsentEKU.Cert, e.delegAny.Cert}
}

func (e *c05Env) build(c c05Case, leaf *Leaf, issuer, deleg *CA) (body []byte, sg c05Signer, wellFormed, hasThis bool, wantStatus string, nu time.Time) {
	sg = e.signer(c.Signer, leaf, issuer, deleg)
	this := leaf.Cert.SerialNumber
	oth := func(k int64) *big.Int { return new(big.Int).Add(this, big.NewInt(1000000+k)) }
	st := statusOf(c.Status)
	var singles []OSingle
	hasThis, wantStatus = true, c.Status
	switch c.Serial {
	case "this":
		singles = []OSingle{{Serial: this, Status: st}}
	case "other":
		singles, hasThis = []OSingle{{Serial: oth(1), Status: st}}, false
	case "multi0":
		singles = []OSingle{{Serial: this, Status: st}, {Serial: oth(1), Status: ocsp.Good}, {Serial: oth(2), Status: ocsp.Revoked}}
	case "multi1":
		singles = []OSingle{{Serial: oth(1), Status: ocsp.Revoked}, {Serial: this, Status: st}, {Serial: oth(2), Status: ocsp.Good}}
	case "multi2":
		singles = []OSingle{{Serial: oth(1), Status: ocsp.Good}, {Serial: oth(2), Status: ocsp.Revoked}, {Serial: this, Status: st}}
	case "multiNone":
		singles, hasThis = []OSingle{{Serial: oth(1), Status: st}, {Serial: oth(2), Status: st}}, false
	case "dupFirstGood":
		singles, wantStatus = []OSingle{{Serial: this, Status: ocsp.Good}, {Serial: this, Status: st}}, "good"
	}
	wellFormed = true
	o := OBuild{Issuer: issuer.Cert, ResponderCert: sg.Cert, Key: sg.Key, Embed: sg.Embed, RespStatus: c.RespStatus}
	switch c.Extra {
	case "critical":
		singles[0].Critical, wellFormed = true, false
	case "md5hash":
		singles[0].HashOID, wellFormed = oidMD5, false
	case "sha256hash":
		singles[0].HashOID = oidSHA256
	case "badrid":
		o.BadResponder, wellFormed = true, false
	case "keyhash":
		o.ByKeyHash = true
	case "wrongtype":
		o.TypeOID, wellFormed = asn1.ObjectIdentifier{1, 3, 6, 1, 5, 5, 7, 48, 1, 2}, false
	case "trailing":
		o.Trailing, wellFormed = []byte{0x05, 0x00}, false
	case "nextupdate":
		nu = time.Now().Add(2 * time.Hour).Truncate(time.Second)
		singles[0].NextUpdate = nu
	}
	o.Singles = singles
	return BuildOCSP(o), sg, wellFormed, hasThis, wantStatus, nu
}

// checkBody: direct parse through the shim + model `parse` op + the authenticity oracle. Returns the implementation's answer.
func (e *c05Env) checkBody(id string, leaf *x509.Certificate, cands, known []*x509.Certificate, body []byte, authenticByConstruction bool, replay interface{}, shape string) string {
	r := e.r
	ch := e.val.V.VerifOCSPChecker()
	obs := "none"
	resp, err := func() (resp *ocsp.Response, err error) {
		defer func() {
			if p := recover(); p != nil {
				err = fmt.Errorf("panic: %v", p)
				r.Violate("C05 parse-panic", fmt.Sprintf("%s: parseOcspResponse panicked: %v", id, p), replay)
			}
		}()
		return ch.VerifParseOcspResponse(leaf, cands, body)
	}()
	if err == nil && resp != nil {
		st := map[int]string{ocsp.Good: "g", ocsp.Revoked: "r", ocsp.Unknown: "u"}[resp.Status]
		nu := "n"
		if !resp.NextUpdate.IsZero() {
			nu = fmt.Sprint(e.abs.Ms(resp.NextUpdate))
		}
		obs = st + " nu=" + nu
	}
	rec := e.abs.Abstract(body, known)
	r.Op(fmt.Sprintf("ocsp parse %s %s %s", natOfBig(leaf.SerialNumber), e.abs.CandsField(cands), rec), obs)
	r.Eval(id, strings.HasPrefix(rec, "R0~"))
	// oracle 1: accepted ⇒ authentic, judged on the decoded facts (who verifies what), not on the model
	auth := absAuthentic(e.abs, rec, leaf, cands)
	if obs != "none" && !auth {
		r.Violate("C05 accepted-unauthentic", fmt.Sprintf("%s: accepted (%s) a response that is not an authentic answer for serial %s: %s", id, obs, leaf.SerialNumber, rec), replay)
	}
	// oracle 2: accepted ⇒ entitled signer by construction (catches an issuer-candidate set that is too wide)
	if obs != "none" && replay != nil && !authenticByConstruction {
		sig := "C05 accepted-unentitled-signer " + shape
		if shape == "*end-entity" {
			sig = c05EndEntitySig
		}
		r.Violate(sig, fmt.Sprintf("%s: accepted (%s) a response whose signer is not the issuer nor authorised by it: %s", id, obs, rec), replay)
	}
	return obs
}

// absAuthentic evaluates C05's statement on an abstract record: successful, contains the serial, signed by a candidate
// or by an embedded certificate a candidate signed which is that candidate or carries the OCSPSigning EKU.
func absAuthentic(a *AbsCtx, rec string, leaf *x509.Certificate, cands []*x509.Certificate) bool {
	if !strings.HasPrefix(rec, "R") {
		return false
	}
	f := strings.Split(rec[1:], "~")
	if len(f) != 7 || f[0] != "0" {
		return false
	}
	has := false
	if f[6] != "n" {
		for _, s := range strings.Split(f[6], "+") {
			if strings.Split(s, ".")[0] == leaf.SerialNumber.String() {
				has = true
			}
		}
	}
	if !has {
		return false
	}
	signed, _ := strconv.Atoi(f[4])
	if signed == 0 {
		return false
	}
	for _, c := range cands {
		k, id := a.KeyID(c), a.CertID(c)
		if f[5] == "n" {
			if signed == k {
				return true
			}
			continue
		}
		ef := strings.Split(f[5], ".")
		if len(ef) != 5 || ef[0] != "1" {
			continue
		}
		eid, _ := strconv.Atoi(ef[1])
		ekey, _ := strconv.Atoi(ef[2])
		ecs, _ := strconv.Atoi(ef[3])
		if ecs == k && (eid == id || ef[4] == "1") && signed == ekey {
			return true
		}
	}
	return false
}

func (e *c05Env) runBuilt(idx int, c c05Case) {
	r := e.r
	path := fmt.Sprintf("/c05/%d", idx)
	leaf, chains, issuer, deleg := e.subject(c, e.rsp.URL(path))
	body, sg, wellFormed, hasThis, wantStatus, nu := e.build(c, leaf, issuer, deleg)
	// direct parse: the candidates are the certificate's issuer (what the checker is meant to compute; what it does
	// compute is exercised by the lookups over HTTP below)
	cands := []*x509.Certificate{issuer.Cert}
	known := e.known(leaf)
	entitled := sg.Authentic
	if c.Signer == "issuer+self" && c.Issuer == "inter" {
		// an intermediate's own certificate is signed by the root, not by itself: the library's embedded-certificate branch refuses it
		wellFormed = false
	}
	shape := fmt.Sprintf("signer=%s issuer=%s", c.Signer, c.Issuer)
	// known shape (reported as one finding): the client certificate is itself an issuer candidate because its subject key
	// id equals its authority key id, and signs its own status
	endEntityShape := c.Issuer == "leafski" && c.Signer == "client"
	if endEntityShape {
		shape = "*end-entity"
	}
	obs := e.checkBody("built/"+c.key(), leaf.Cert, cands, known, body, entitled, c, shape)
	wantAccept := entitled && wellFormed && hasThis && c.RespStatus == 0
	r.Count("signer:" + c.Signer)
	if obs != "none" {
		r.Count("accepted")
		if obs[:1] != wantStatus[:1] {
			r.Violate("C05 wrong-single-response-used", fmt.Sprintf("case %s: reported status %s, the first single response for this serial says %s", c.key(), obs, wantStatus), c)
		}
	} else {
		r.Count("no-answer")
	}
	if wantAccept && obs == "none" {
		// not a violation of C05 (which only bounds what may be accepted); recorded so that the distribution shows it
		r.Count("authentic-but-refused")
		r.Note("authentic well-formed response refused: " + c.key())
	}
	// over HTTP, with the cache observed by a second call while the responder is down
	e.rsp.SetFixed(path, RespScript{Kind: "bytes", Body: body})
	ch := e.val.V.VerifOCSPChecker()
	srv := OSrv{URL: e.rsp.URL(path), Path: path, Observable: true, Beh: map[string]string{"*": e.abs.Abstract(body, known)}}
	nuMs := int64(-1)
	if !nu.IsZero() {
		nuMs = e.abs.Ms(nu)
	}
	certField, chainField := e.abs.CertField(leaf.Cert), e.abs.ChainsField(chains, nil)
	o1 := observeLookup(e.abs, ch, e.rsp, leaf.Cert, chains, []OSrv{srv}, known, 3600000, nuMs)
	r.Op(fmt.Sprintf("ocsp look 1 3600000 %d %s %s %s", o1.T0, certField, chainField, srv.field(e.abs)), o1.line())
	e.rsp.SetFixed(path, RespScript{Kind: "drop"})
	srv.Beh["*"] = "E"
	o2 := observeLookup(e.abs, ch, e.rsp, leaf.Cert, chains, []OSrv{srv}, known, 3600000, -1)
	r.Op(fmt.Sprintf("ocsp look 1 3600000 %d %s %s %s", o2.T0, certField, chainField, srv.field(e.abs)), o2.line())
	r.Eval("http/"+c.key(), true)
	r.Sample(map[string]interface{}{"case": c, "parse": obs, "first_call": o1.Result, "cached": o1.Stored != "-", "second_call_responder_down": o2.Result})
	influenced := o1.Result != "error" // strict: error = treated as no answer
	if influenced && !entitled {
		r.Violate(c05Sig("C05 verdict-from-unentitled-signer ", shape), fmt.Sprintf("case %s: IsRevoked returned %s on a response signed by %s", c.key(), o1.Result, c.Signer), c)
	}
	if influenced && (!hasThis || c.RespStatus != 0) {
		r.Violate("C05 verdict-from-wrong-response", fmt.Sprintf("case %s: IsRevoked returned %s on a response without a successful status for this serial", c.key(), o1.Result), c)
	}
	if (o1.Stored != "-" || o2.Hit || o2.Result != "error") && !(entitled && hasThis && c.RespStatus == 0) {
		r.Violate(c05Sig("C05 unauthentic-response-cached ", shape), fmt.Sprintf("case %s: after the call the cache answers for this certificate (stored=%s, second call %s hit=%v)", c.key(), o1.Stored, o2.Result, o2.Hit), c)
	}
	if (obs != "none") != influenced {
		r.Violate("C05 parse-and-lookup-disagree", fmt.Sprintf("case %s: parseOcspResponse says %s, IsRevoked %s", c.key(), obs, o1.Result), c)
	}
}

func (e *c05Env) runMutations(n int) {
	r := e.r
	type base struct {
		name  string
		leaf  *Leaf
		cands []*x509.Certificate
		known []*x509.Certificate
		body  []byte
	}
	var bases []base
	rsaCA := NewCA(CAOpts{CN: "C05 RSA Root"})
	for i, mk := range []func() base{
		func() base {
			l := e.ca.IssueLeaf(LeafOpts{})
			return base{"issuer-ec", l, []*x509.Certificate{e.ca.Cert}, e.known(l), e.ca.OCSPResponse(OCSPOpts{Status: ocsp.Good, Serial: l.Cert.SerialNumber})}
		},
		func() base {
			l := rsaCA.IssueLeaf(LeafOpts{})
			return base{"issuer-rsa", l, []*x509.Certificate{rsaCA.Cert}, append(e.known(l), rsaCA.Cert),
				rsaCA.OCSPResponse(OCSPOpts{Status: ocsp.Revoked, Serial: l.Cert.SerialNumber, NextUpdate: time.Now().Add(time.Hour)})}
		},
		func() base {
			l := e.ca.IssueLeaf(LeafOpts{})
			return base{"deleg-ec", l, []*x509.Certificate{e.ca.Cert}, e.known(l),
				BuildOCSP(OBuild{Issuer: e.ca.Cert, ResponderCert: e.delegEKU.Cert, Key: e.delegEKU.Key, Embed: []*x509.Certificate{e.delegEKU.Cert},
					Singles: []OSingle{{Serial: big.NewInt(7), Status: ocsp.Revoked}, {Serial: l.Cert.SerialNumber, Status: ocsp.Good}}})}
		},
	} {
		_ = i
		bases = append(bases, mk())
	}
	parallel(n, 16, func(i int) {
		b := bases[i%len(bases)]
		// per-case deterministic randomness derived from the run seed
		rng := ocspRng(r.Seed*1000003 + int64(i))
		m := append([]byte{}, b.body...)
		kind := rng.Intn(10)
		switch {
		case kind < 5: // 1..3 bit flips
			for k := 0; k <= rng.Intn(3); k++ {
				p := rng.Intn(len(m))
				m[p] ^= 1 << uint(rng.Intn(8))
			}
		case kind < 6: // truncation
			m = m[:rng.Intn(len(m))]
		case kind < 7: // byte overwrite
			m[rng.Intn(len(m))] = byte(rng.Intn(256))
		case kind < 8: // delete a run
			p := rng.Intn(len(m))
			q := p + 1 + rng.Intn(4)
			if q > len(m) {
				q = len(m)
			}
			m = append(m[:p], m[q:]...)
		case kind < 9: // insert bytes
			p := rng.Intn(len(m))
			ins := make([]byte, 1+rng.Intn(3))
			rng.Read(ins)
			m = append(m[:p], append(ins, m[p:]...)...)
		default: // splice: head of this response, tail of another base
			o := bases[(i+1)%len(bases)].body
			p := rng.Intn(len(m))
			if p < len(o) {
				m = append(m[:p], o[p:]...)
			}
		}
		same := string(m) == string(b.body)
		obs := e.checkBody(fmt.Sprintf("mut/%s/%d", b.name, i), b.leaf.Cert, b.cands, b.known, m, true, nil, "")
		r.Count("mutation:" + map[bool]string{true: "still-accepted", false: "no-answer"}[obs != "none"])
		if same {
			r.Count("mutation:identity")
		}
	})
}
