package main

import (
	"crypto"
	"crypto/ecdsa"
	"crypto/elliptic"
	"crypto/rand"
	"crypto/rsa"
	"crypto/x509"
	"crypto/x509/pkix"
	"encoding/asn1"
	"encoding/pem"
	"fmt"
	"math/big"
	"sync"
	"time"

	"golang.org/x/crypto/ocsp"
)

// ---- key pool -------------------------------------------------------------

var (
	keyMu    sync.Mutex
	rsaPool  []*rsa.PrivateKey
	ecPool   []*ecdsa.PrivateKey
	rsaNext  int
	ecNext   int
	poolSize = 6
)

func newRSAKey() *rsa.PrivateKey {
	keyMu.Lock()
	defer keyMu.Unlock()
	if len(rsaPool) < poolSize {
		k, err := rsa.GenerateKey(rand.Reader, 2048)
		must(err)
		rsaPool = append(rsaPool, k)
		return k
	}
	rsaNext++
	return rsaPool[rsaNext%len(rsaPool)]
}

// freshRSAKey always generates a new key (used where distinct keys matter).
func freshRSAKey() *rsa.PrivateKey {
	k, err := rsa.GenerateKey(rand.Reader, 2048)
	must(err)
	return k
}

func newECKey() *ecdsa.PrivateKey {
	k, err := ecdsa.GenerateKey(elliptic.P256(), rand.Reader)
	must(err)
	return k
}

func must(err error) {
	if err != nil {
		panic(err)
	}
}

// ---- CA / leaf ------------------------------------------------------------

type CA struct {
	Cert *x509.Certificate
	Key  crypto.Signer
	Name string
}

type CAOpts struct {
	CN          string
	EC          bool
	Parent      *CA
	NoCRLSign   bool   // key usage present without cRLSign
	NoKeyUsage  bool   // no key usage extension at all
	SKI         []byte // explicit subject key id
	Serial      int64
	Key         crypto.Signer
	NotCA       bool
	ExtKeyUsage []x509.ExtKeyUsage
	OCSPServers []string
	CDP         []string
	RawSubject  []byte // complete DER Name, used instead of CN (RDN order / grouping under the caller's control)
}

var serialCounter int64 = 1000
var serialMu sync.Mutex

func nextSerial() *big.Int {
	serialMu.Lock()
	defer serialMu.Unlock()
	serialCounter++
	return big.NewInt(serialCounter)
}

func NewCA(o CAOpts) *CA {
	var key crypto.Signer = o.Key
	if key == nil {
		if o.EC {
			key = newECKey()
		} else {
			key = freshRSAKey()
		}
	}
	serial := nextSerial()
	if o.Serial != 0 {
		serial = big.NewInt(o.Serial)
	}
	tmpl := &x509.Certificate{
		SerialNumber:          serial,
		Subject:               pkix.Name{CommonName: o.CN, Organization: []string{"verif"}},
		NotBefore:             time.Now().Add(-time.Hour),
		NotAfter:              time.Now().Add(24 * time.Hour),
		BasicConstraintsValid: true,
		IsCA:                  !o.NotCA,
		SubjectKeyId:          o.SKI,
		ExtKeyUsage:           o.ExtKeyUsage,
		OCSPServer:            o.OCSPServers,
		CRLDistributionPoints: o.CDP,
		RawSubject:            o.RawSubject,
	}
	if !o.NoKeyUsage {
		tmpl.KeyUsage = x509.KeyUsageCertSign | x509.KeyUsageDigitalSignature
		if !o.NoCRLSign {
			tmpl.KeyUsage |= x509.KeyUsageCRLSign
		}
	}
	parentCert := tmpl
	var signer crypto.Signer = key
	if o.Parent != nil {
		parentCert = o.Parent.Cert
		signer = o.Parent.Key
	}
	der, err := x509.CreateCertificate(rand.Reader, tmpl, parentCert, key.Public(), signer)
	must(err)
	cert, err := x509.ParseCertificate(der)
	must(err)
	return &CA{Cert: cert, Key: key, Name: o.CN}
}

type LeafOpts struct {
	CN     string
	Serial *big.Int
	CDP    []string
	OCSP   []string
	EC     bool
	Key    crypto.Signer
	SKI    []byte
	NoKU   bool   // no key usage extension at all
	RawSub []byte // complete DER subject name (instead of CN)
	IsCA   bool             // basicConstraints CA:TRUE and keyCertSign | cRLSign on an end-entity position certificate
	Extra  []pkix.Extension // raw extensions (override what the other fields would produce, e.g. the authority key identifier)
}

type Leaf struct {
	Cert *x509.Certificate
	Key  crypto.Signer
}

func (ca *CA) IssueLeaf(o LeafOpts) *Leaf {
	var key crypto.Signer = o.Key
	if key == nil {
		key = newECKey()
	}
	serial := o.Serial
	if serial == nil {
		serial = nextSerial()
	}
	cn := o.CN
	if cn == "" {
		cn = "leaf-" + serial.String()
	}
	tmpl := &x509.Certificate{
		SerialNumber:          serial,
		Subject:               pkix.Name{CommonName: cn},
		NotBefore:             time.Now().Add(-time.Hour),
		NotAfter:              time.Now().Add(24 * time.Hour),
		KeyUsage:              x509.KeyUsageDigitalSignature,
		ExtKeyUsage:           []x509.ExtKeyUsage{x509.ExtKeyUsageClientAuth},
		CRLDistributionPoints: o.CDP,
		OCSPServer:            o.OCSP,
		SubjectKeyId:          o.SKI,
	}
	if o.NoKU {
		tmpl.KeyUsage = 0
	}
	if o.RawSub != nil {
		tmpl.RawSubject = o.RawSub
	}
	if o.IsCA {
		tmpl.IsCA, tmpl.BasicConstraintsValid = true, true
		if !o.NoKU {
			tmpl.KeyUsage |= x509.KeyUsageCertSign | x509.KeyUsageCRLSign
		}
	}
	tmpl.ExtraExtensions = o.Extra
	der, err := x509.CreateCertificate(rand.Reader, tmpl, ca.Cert, key.Public(), ca.Key)
	must(err)
	cert, err := x509.ParseCertificate(der)
	must(err)
	return &Leaf{Cert: cert, Key: key}
}

// ---- CRLs -----------------------------------------------------------------

type CRLOpts struct {
	Serials    []*big.Int
	Number     int64
	ThisUpdate time.Time
	NextUpdate time.Time
	SigAlg     x509.SignatureAlgorithm
	ExtraExts  []pkix.Extension
	PEM        bool
	CRLF       bool
	EntryExts  bool // add reason codes to entries
}

func (ca *CA) MakeCRL(o CRLOpts) []byte {
	if o.ThisUpdate.IsZero() {
		o.ThisUpdate = time.Now().Add(-time.Minute)
	}
	if o.NextUpdate.IsZero() {
		o.NextUpdate = time.Now().Add(24 * time.Hour)
	}
	if o.Number == 0 {
		o.Number = 1
	}
	var entries []x509.RevocationListEntry
	for i, s := range o.Serials {
		e := x509.RevocationListEntry{SerialNumber: s, RevocationTime: o.ThisUpdate.Add(-time.Duration(i) * time.Second)}
		if o.EntryExts {
			e.ReasonCode = 1 + i%5
		}
		entries = append(entries, e)
	}
	tmpl := &x509.RevocationList{
		SignatureAlgorithm:        o.SigAlg,
		RevokedCertificateEntries: entries,
		Number:                    big.NewInt(o.Number),
		ThisUpdate:                o.ThisUpdate,
		NextUpdate:                o.NextUpdate,
		ExtraExtensions:           o.ExtraExts,
	}
	der, err := x509.CreateRevocationList(rand.Reader, tmpl, ca.Cert, ca.Key)
	must(err)
	if o.PEM {
		return pemEncode("X509 CRL", der, o.CRLF)
	}
	return der
}

func pemEncode(typ string, der []byte, crlf bool) []byte {
	p := pem.EncodeToMemory(&pem.Block{Type: typ, Bytes: der})
	if !crlf {
		return p
	}
	out := make([]byte, 0, len(p)+len(p)/64+2)
	for _, b := range p {
		if b == '\n' {
			out = append(out, '\r')
		}
		out = append(out, b)
	}
	return out
}

// ---- OCSP -----------------------------------------------------------------

type OCSPOpts struct {
	Status        int // ocsp.Good / Revoked / Unknown
	Serial        *big.Int
	NextUpdate    time.Time
	Responder     *x509.Certificate // signing certificate (defaults to ca)
	ResponderKey  crypto.Signer
	EmbedCert     *x509.Certificate
	ThisUpdate    time.Time
	RevokedAt     time.Time
	IssuerForHash *x509.Certificate
}

func (ca *CA) OCSPResponse(o OCSPOpts) []byte {
	if o.ThisUpdate.IsZero() {
		o.ThisUpdate = time.Now().Add(-time.Minute)
	}
	tmpl := ocsp.Response{
		Status:       o.Status,
		SerialNumber: o.Serial,
		ThisUpdate:   o.ThisUpdate,
		NextUpdate:   o.NextUpdate,
		Certificate:  o.EmbedCert,
	}
	if o.Status == ocsp.Revoked {
		tmpl.RevokedAt = o.ThisUpdate
		tmpl.RevocationReason = ocsp.KeyCompromise
	}
	issuer := ca.Cert
	if o.IssuerForHash != nil {
		issuer = o.IssuerForHash
	}
	responder := ca.Cert
	var key crypto.Signer = ca.Key
	if o.Responder != nil {
		responder = o.Responder
		key = o.ResponderKey
	}
	der, err := ocsp.CreateResponse(issuer, responder, tmpl, key)
	must(err)
	return der
}

// ---- misc -----------------------------------------------------------------

func certPEM(c *x509.Certificate) []byte {
	return pem.EncodeToMemory(&pem.Block{Type: "CERTIFICATE", Bytes: c.Raw})
}

func mustMarshal(v interface{}) []byte {
	b, err := asn1.Marshal(v)
	must(err)
	return b
}

func describeCert(c *x509.Certificate) string {
	return fmt.Sprintf("subject=%q issuer=%q serial=%s", c.Subject.String(), c.Issuer.String(), c.SerialNumber)
}

// reissueWithNegativeSerial returns a copy of leaf (issued by ca) whose serialNumber INTEGER has the high bit of its first
// content octet set — a negative number for every DER decoder — re-signed with the CA's key. This is what a 20-octet
// serial written without the leading zero octet looks like. The original first octet must be in 0x01..0x7f.
func reissueWithNegativeSerial(ca *CA, leaf *x509.Certificate) *x509.Certificate {
	tbs := append([]byte{}, leaf.RawTBSCertificate...)
	// tbs = 30 LL.. { a0 03 02 01 02 } 02 L <serial> ...
	i := 1
	if tbs[i]&0x80 != 0 {
		i += int(tbs[i]&0x7f) + 1
	} else {
		i++
	}
	if tbs[i] == 0xa0 {
		i += 2 + int(tbs[i+1])
	}
	if tbs[i] != 0x02 || tbs[i+1]&0x80 != 0 || tbs[i+2] == 0 || tbs[i+2]&0x80 != 0 {
		panic("reissueWithNegativeSerial: unexpected serial encoding")
	}
	tbs[i+2] |= 0x80
	// signatureAlgorithm: the bytes between tbs and the signature BIT STRING of the original certificate
	raw := leaf.Raw
	j := 1
	if raw[j]&0x80 != 0 {
		j += int(raw[j]&0x7f) + 1
	} else {
		j++
	}
	j += len(leaf.RawTBSCertificate)
	algLen := 2 + int(raw[j+1])
	alg := raw[j : j+algLen]
	var h crypto.Hash
	switch leaf.SignatureAlgorithm {
	case x509.ECDSAWithSHA256, x509.SHA256WithRSA:
		h = crypto.SHA256
	case x509.ECDSAWithSHA384, x509.SHA384WithRSA:
		h = crypto.SHA384
	case x509.ECDSAWithSHA512, x509.SHA512WithRSA:
		h = crypto.SHA512
	default:
		panic("reissueWithNegativeSerial: signature algorithm " + leaf.SignatureAlgorithm.String())
	}
	hh := h.New()
	hh.Write(tbs)
	sig, err := ca.Key.Sign(rand.Reader, hh.Sum(nil), h)
	must(err)
	body := append(append(append([]byte{}, tbs...), alg...), derTLVpki(0x03, append([]byte{0}, sig...))...)
	der := derTLVpki(0x30, body)
	c, err := x509.ParseCertificate(der)
	must(err)
	if c.SerialNumber.Sign() >= 0 {
		panic("reissueWithNegativeSerial: serial is not negative")
	}
	must(c.CheckSignatureFrom(ca.Cert))
	return c
}

func derTLVpki(tag byte, content []byte) []byte {
	n := len(content)
	var hdr []byte
	switch {
	case n < 0x80:
		hdr = []byte{tag, byte(n)}
	case n < 0x100:
		hdr = []byte{tag, 0x81, byte(n)}
	default:
		hdr = []byte{tag, 0x82, byte(n >> 8), byte(n)}
	}
	return append(hdr, content...)
}
