package main

import (
	"crypto/x509"
	"fmt"
	"math/big"
	"math/rand"
	"os"
	"sort"
	"strings"
	"sync"
	"time"

	"github.com/gr33nbl00d/caddy-revocation-validator/core"
	"github.com/gr33nbl00d/caddy-revocation-validator/crl"
	"github.com/gr33nbl00d/caddy-revocation-validator/crl/crlloader"
	"go.uber.org/zap"
)

// ---- the small universe of the repository histories -------------------------------------
//
// signers: 1 = genuine CA (name 7), 2 = sibling CA with the same name 7 but another key,
//          3 = another CA (name 8), 9 = a key nobody has a certificate for, claiming name 7.
// A document's issuer name is its signer's name (a CRL is issued under its signer's subject).

type repoPKI struct {
	cas map[int]*CA
}

var repoSignerName = map[int]int{1: 7, 2: 7, 3: 8, 9: 7}

var (
	repoPKIOnce sync.Once
	repoPKIVal  *repoPKI
)

func getRepoPKI() *repoPKI {
	repoPKIOnce.Do(func() {
		p := &repoPKI{cas: map[int]*CA{}}
		for _, id := range []int{1, 2, 3, 9} {
			p.cas[id] = NewCA(CAOpts{CN: fmt.Sprintf("Repo CA name-%d", repoSignerName[id]), EC: true})
		}
		repoPKIVal = p
	})
	return repoPKIVal
}

type repoDoc struct {
	Signer  int
	Number  int
	Serials []int64
}

func (d repoDoc) issuer() int { return repoSignerName[d.Signer] }

func (d repoDoc) opArg() string {
	var ss []string
	for _, s := range d.Serials {
		ss = append(ss, fmt.Sprint(s))
	}
	ser := "-"
	if len(ss) > 0 {
		ser = strings.Join(ss, ",")
	}
	return fmt.Sprintf("doc:%d:%d:%d:%s", d.issuer(), d.Signer, d.Number, ser)
}

func (d repoDoc) bytes(p *repoPKI, pemEnc bool) []byte {
	ca := p.cas[d.Signer]
	spec := CRLSpec{Version: 1, Alg: sigAlgs[7], IssuerRaw: ca.Cert.RawSubject, ThisUpdate: time.Now().Add(-time.Hour).UTC().Truncate(time.Second),
		Signer: ca.Key, Exts: [][]byte{derExt(oidCRLNumber, false, derInt(big.NewInt(int64(d.Number))))}}
	nu := time.Now().Add(24 * time.Hour).UTC().Truncate(time.Second)
	spec.NextUpdate = &nu
	for _, s := range d.Serials {
		spec.Entries = append(spec.Entries, EntrySpec{Serial: big.NewInt(s), Time: spec.ThisUpdate})
	}
	der, _ := spec.Build()
	if pemEnc {
		return pemEncode("X509 CRL", der, false)
	}
	return der
}

type repoCfg struct {
	Sig    string // none verify_log verify
	Fetch  string // actively background
	Strict bool
	Disk   bool
}

func (c repoCfg) opLine() string {
	return fmt.Sprintf("repo cfg %s %s %v %v", c.Sig, c.Fetch, c.Strict, c.Disk)
}

// one step of a history
type repoOp struct {
	Kind   string // serve hs tick provision restart close
	Loc    int
	Served string   // down garbage doc
	Doc    *repoDoc // for serve doc
	Issuer int      // hs: name id of the certificate's issuer (7 or 8)
	Serial int64
	CDP    int    // 0 = none
	Cands  []int  // signer ids above the end-entity in the presented chain / trusted signers for provision
	Sig    string // restartcfg: the signature_validation_mode of the configuration the process restarts with
}

func natList(l []int) string {
	if len(l) == 0 {
		return "-"
	}
	var s []string
	for _, x := range l {
		s = append(s, fmt.Sprint(x))
	}
	return strings.Join(s, ",")
}

func (o repoOp) line() string {
	switch o.Kind {
	case "restartcfg":
		return "repo restartcfg " + o.Sig
	case "serve":
		sv := o.Served
		if sv == "doc" {
			sv = o.Doc.opArg()
		}
		return fmt.Sprintf("repo serve %d %s", o.Loc, sv)
	case "hs":
		cdp := "-"
		if o.CDP != 0 {
			cdp = fmt.Sprint(o.CDP)
		}
		return fmt.Sprintf("repo hs %d %d %s %s", o.Issuer, o.Serial, cdp, natList(o.Cands))
	case "provision":
		return fmt.Sprintf("repo provision %d %s", o.Loc, natList(o.Cands))
	}
	return "repo " + o.Kind
}

// ---- the real side -----------------------------------------------------------------------------

type repoWorld struct {
	cfg     repoCfg
	pki     *repoPKI
	origin  *Origin
	workDir string
	v       *Validator
	ids     map[string]int // location identifier -> loc
	pem     bool
	// ground truth kept by the harness for the oracles
	served map[int]repoOp          // loc -> last serve
	docs   map[int]map[int]repoDoc // loc -> number -> document ever served there
}

// locations: 1..3 are CDP sets (http URL on the origin), 4 is a CDP set with only an ldap URL (no loader),
// 5 is a CDP set with two URLs (first unsupported scheme, second http), 11..12 are configured crl_urls.
func (w *repoWorld) locations(loc int) *core.CRLLocations {
	switch {
	case loc == 4:
		return &core.CRLLocations{CRLDistributionPoints: []string{"ldap://directory.example/cn=crl"}}
	case loc == 6: // an http URL that cannot be parsed: a loader exists, but no location identifier can be computed
		return &core.CRLLocations{CRLDistributionPoints: []string{"http://crl.example/list%zz6.crl"}}
	case loc == 7: // the same next to a usable one
		return &core.CRLLocations{CRLDistributionPoints: []string{"http://crl.example/list%zz7.crl", w.origin.URL("/loc7")}}
	case loc == 5:
		return &core.CRLLocations{CRLDistributionPoints: []string{"ldap://directory.example/cn=crl5", w.origin.URL("/loc5")}}
	case loc >= 11:
		return &core.CRLLocations{CRLUrl: w.origin.URL(fmt.Sprintf("/loc%d", loc))}
	default:
		return &core.CRLLocations{CRLDistributionPoints: []string{w.origin.URL(fmt.Sprintf("/loc%d", loc))}}
	}
}

func (w *repoWorld) identifier(loc int) string {
	l, err := crlloader.DefaultCRLLoaderFactory{}.CreatePreferredCrlLoader(w.locations(loc), zap.NewNop())
	if err != nil {
		return ""
	}
	id, _ := l.GetCRLLocationIdentifier()
	return id
}

func newRepoWorld(cfg repoCfg, pemEnc bool) (*repoWorld, error) {
	w := &repoWorld{cfg: cfg, pki: getRepoPKI(), origin: NewOrigin(), workDir: scratchDir("repo"), ids: map[string]int{}, pem: pemEnc,
		served: map[int]repoOp{}, docs: map[int]map[int]repoDoc{}}
	for _, loc := range []int{1, 2, 3, 5, 11, 12} {
		w.ids[w.identifier(loc)] = loc
		w.origin.Set(fmt.Sprintf("/loc%d", loc), Behaviour{Kind: "drop"})
	}
	return w, w.provision()
}

func (w *repoWorld) provision() error {
	st := "memory"
	if w.cfg.Disk {
		st = "disk"
	}
	fm := "fetch_actively"
	if w.cfg.Fetch == "background" {
		fm = "fetch_background"
	}
	v, err := Provision(VCfg{Mode: "crl_only", WorkDir: w.workDir, Storage: st, SigMode: w.cfg.Sig, FetchMode: fm, CDPStrict: w.cfg.Strict, UpdateInterval: "10h"})
	if err != nil {
		return err
	}
	w.v = v
	// let the ticker goroutine's initial run pass
	v.V.VerifCRLChecker().VerifUpdateCRLs(true)
	return nil
}

func (w *repoWorld) close() {
	if w.v != nil {
		w.v.Close()
	}
	w.origin.Close()
	os.RemoveAll(w.workDir)
}

func (w *repoWorld) snapshot() string {
	infos := w.v.V.VerifCRLChecker().VerifRepository().VerifEntries()
	type item struct {
		loc int
		s   string
	}
	var items []item
	for _, in := range infos {
		loc, ok := w.ids[in.Identifier]
		if !ok {
			loc = 99
		}
		if !in.Present {
			continue
		}
		num := "-"
		if in.Loaded && !in.Closed && !in.StoreNil {
			if em, err := in.Store.GetCRLExtMetaInfo(); err == nil && em != nil && em.CRLNumber != nil {
				num = em.CRLNumber.String()
			} else {
				num = "?"
			}
		}
		items = append(items, item{loc, fmt.Sprintf("%d:L%s:C%s:%s", loc, repoB01(in.Loaded), repoB01(in.Closed), num)})
	}
	sort.Slice(items, func(i, j int) bool { return items[i].loc < items[j].loc })
	var ss []string
	for _, it := range items {
		ss = append(ss, it.s)
	}
	return "E[" + strings.Join(ss, ",") + "]"
}

func repoB01(b bool) string {
	if b {
		return "1"
	}
	return "0"
}

func (w *repoWorld) chainFor(issuer int, serial int64, cdp int, cands []int) (*x509.Certificate, [][]*x509.Certificate) {
	// the certificate's issuer name is `issuer`; it is issued by the first CA carrying that name (1 for 7, 3 for 8)
	issuerCA := w.pki.cas[1]
	if issuer == 8 {
		issuerCA = w.pki.cas[3]
	}
	lo := LeafOpts{Serial: big.NewInt(serial)}
	if cdp != 0 {
		lo.CDP = w.locations(cdp).CRLDistributionPoints
	}
	leaf := issuerCA.IssueLeaf(lo)
	chain := []*x509.Certificate{leaf.Cert}
	for _, c := range cands {
		chain = append(chain, w.pki.cas[c].Cert)
	}
	return leaf.Cert, [][]*x509.Certificate{chain}
}

// apply performs the operation on the real code and returns the canonical observation.
func (w *repoWorld) apply(o repoOp) string {
	chk := w.v.V.VerifCRLChecker()
	switch o.Kind {
	case "serve":
		path := fmt.Sprintf("/loc%d", o.Loc)
		switch o.Served {
		case "down":
			w.origin.Set(path, Behaviour{Kind: "drop"})
		case "garbage":
			w.origin.Set(path, Behaviour{Kind: "status", Status: 404, Body: []byte("<html>not here</html>")})
		case "doc":
			delay := time.Duration(0)
			if w.cfg.Fetch == "background" {
				delay = 20 * time.Millisecond // (the spawning handshake's lookup is protected by Origin.Hold; a little slack for the awaited tick)
			}
			w.origin.Set(path, Behaviour{Kind: "bytes", Body: o.Doc.bytes(w.pki, w.pem), Delay: delay})
			if w.docs[o.Loc] == nil {
				w.docs[o.Loc] = map[int]repoDoc{}
			}
			w.docs[o.Loc][o.Doc.Number] = *o.Doc
		}
		w.served[o.Loc] = o
		return "ok"
	case "hs":
		cert, chains := w.chainFor(o.Issuer, o.Serial, o.CDP, o.Cands)
		before := w.spawnBaseline(o.CDP)
		hits := w.origin.TotalHits()
		// background mode: the load which this handshake may spawn must not overtake the handshake's own lookup. The real code
		// leaves that order open (the spawned refresh takes the entry's write lock for the whole first load; a lookup that comes
		// second waits for it and then sees the list in force), so the harness fixes it: it holds the process-wide refresh mutex,
		// which the spawned refresh needs before it touches any entry, until the lookup has answered. (Delaying or holding the
		// download at the origin was wrong: the load then sits on the entry lock and the lookup waits for it.)
		release := func() {}
		if w.cfg.Fetch == "background" && o.CDP != 0 {
			release = crl.VerifHoldUpdateMutex()
		}
		st, err := chk.IsRevoked(cert, chains)
		heldSnap := ""
		if before && w.cfg.Fetch == "background" {
			heldSnap = w.snapshot() // the spawned refresh is still waiting for the refresh mutex
		}
		release()
		status := "notRevoked"
		if err != nil {
			status = "error"
		} else if st != nil && st.Revoked {
			status = "revoked"
		}
		spawn := w.cfg.Fetch == "background" && before
		if spawn {
			// the spawned refresh fetches under the update mutex: once its request is seen, the following `tick` queues behind it
			for i := 0; i < 300 && w.origin.TotalHits() == hits; i++ {
				time.Sleep(10 * time.Millisecond)
			}
		}
		snap := w.snapshot0(spawn)
		if status != "notRevoked" {
			// map order: a closed entry and an open one that lists the certificate -> error or revoked, whichever comes first
			// (also when this handshake has just added its location: after a restart the entry is loaded from the work directory)
			look := snap
			if spawn {
				look = heldSnap
			}
			if es, ok := parseRepoSnapshot(look); ok {
				hasClosed, isListed := false, false
				for loc, e := range es {
					if e.closed {
						hasClosed = true
					} else if e.loaded && e.num >= 0 {
						if d, known := w.docs[loc][e.num]; known && d.issuer() == o.Issuer && containsInt64(d.Serials, o.Serial) {
							isListed = true
						}
					}
				}
				if hasClosed && isListed {
					status = "revoked|error"
				}
			}
		}
		return fmt.Sprintf("%s spawn=%v %s", status, spawn, snap)
	case "tick":
		chk.VerifUpdateCRLs(true)
		return w.snapshot()
	case "provision":
		var trusted []*x509.Certificate
		for _, c := range o.Cands {
			trusted = append(trusted, w.pki.cas[c].Cert)
		}
		chains := core.NewCertificateChains(nil, trusted)
		locs := w.locations(o.Loc)
		res := "ok"
		// the checker's own provisioning step for a configured crl_urls entry (real addCrlUrlsFromConfig)
		if err := chk.VerifAddConfiguredUrls([]string{locs.CRLUrl}, chains); err != nil {
			res = "err"
		}
		return res + " " + w.snapshot()
	case "restart":
		w.v.Close()
		if err := w.provision(); err != nil {
			return "provision-failed " + err.Error()
		}
		return w.snapshot()
	case "restartcfg":
		w.v.Close()
		w.cfg.Sig = o.Sig
		if err := w.provision(); err != nil {
			return "provision-failed " + err.Error()
		}
		return w.snapshot()
	case "close":
		chk.VerifRepository().Close()
		return w.snapshot()
	}
	return "?"
}

// spawnBaseline: would this handshake add a new entry (the background refresh is spawned only then)?
func (w *repoWorld) spawnBaseline(cdp int) bool {
	if cdp == 0 || cdp == 4 || cdp == 6 || cdp == 7 {
		return false
	}
	id := w.identifier(cdp)
	for _, in := range w.v.V.VerifCRLChecker().VerifRepository().VerifEntries() {
		if in.Identifier == id {
			return false
		}
	}
	return true
}

// snapshot0: the snapshot right after a handshake. When a background refresh was spawned it is racing with us;
// the protocol's next operation is then always `tick`, which waits for it (same mutex), so here we only report the part
// that cannot race: nothing.
func (w *repoWorld) snapshot0(spawned bool) string {
	if spawned {
		return "E[*]"
	}
	return w.snapshot()
}

// ---- history generation ------------------------------------------------------------------------

type repoGen struct {
	rng     *rand.Rand
	nextNum int
	hist    int
}

func (g *repoGen) doc(signers []int) *repoDoc {
	g.nextNum++
	d := &repoDoc{Signer: signers[g.rng.Intn(len(signers))], Number: g.nextNum}
	pool := []int64{10, 11, 12, 13, 255, 256, 65535}
	for _, s := range pool {
		if g.rng.Intn(2) == 0 {
			d.Serials = append(d.Serials, s)
		}
	}
	return d
}

// directed returns the opening of a history that steers into one of the multi-step situations the properties talk
// about (random continuation follows): a refresh that drops / exchanges serials, a failed refresh followed by a good one,
// a failing first load followed by a good one, a rejected list followed by a genuine one, two issuers sharing serials.
func (g *repoGen) directed(cfg repoCfg, kind int) []repoOp {
	rng := g.rng
	loc := []int{1, 2, 5}[rng.Intn(3)]
	num := func() int { g.nextNum++; return g.nextNum }
	hs := func(iss int, ser int64, cands ...int) repoOp {
		return repoOp{Kind: "hs", Issuer: iss, Serial: ser, CDP: loc, Cands: cands}
	}
	serve := func(signer int, serials ...int64) repoOp {
		return repoOp{Kind: "serve", Loc: loc, Served: "doc", Doc: &repoDoc{Signer: signer, Number: num(), Serials: serials}}
	}
	bad := func() repoOp {
		return repoOp{Kind: "serve", Loc: loc, Served: []string{"garbage", "down"}[(rng.Intn(16)+1)/16]} // rarely down: it costs the loader's 5 x 500 ms per attempt, under the process-wide refresh mutex
	}
	tick := repoOp{Kind: "tick"}
	var ops []repoOp
	first := func(o repoOp) { ops = append(ops, o) }
	switch kind % 10 {
	case 9: // verify_log: an unverifiable first list, a genuine one the refresh cannot verify (no signer stored yet), a forged one;
		// then a connection presents the genuine signer (the signer-certificate retry looks at the *last* refresh's signature),
		// a restart under 'verify', and the question what is in force
		ops = append(ops, repoOp{Kind: "restartcfg", Sig: "verify_log"}, serve(9, 13), hs(7, 13, 1), serve(1, 10), tick,
			serve([]int{9, 2}[rng.Intn(2)], 14), tick, hs(7, 14, 1), hs(7, 10, 1), repoOp{Kind: "restartcfg", Sig: "verify"},
			hs(7, 14, 1), hs(7, 10, 1), hs(7, 13, 1))
	case 8: // verify_log: a verified list, then an unverifiable one (installed), then a restart under 'verify' (disk: found again)
		ops = append(ops, repoOp{Kind: "restartcfg", Sig: "verify_log"}, serve(1, 10), hs(7, 10, 1),
			serve([]int{9, 2}[rng.Intn(2)], 13), tick, hs(7, 13, 1), repoOp{Kind: "restartcfg", Sig: "verify"},
			hs(7, 13, 1), hs(7, 10, 1), serve(1, 12), tick, hs(7, 12, 1), hs(7, 13, 1))
	case 7: // a list taken in while signatures were not enforced, then a restart under 'verify' (disk: the list is found again)
		ops = append(ops, repoOp{Kind: "restartcfg", Sig: []string{"none", "verify_log"}[rng.Intn(2)]},
			serve([]int{9, 2, 9}[rng.Intn(3)], 13, 14), hs(7, 13, 1), repoOp{Kind: "restartcfg", Sig: "verify"},
			hs(7, 13, 1), hs(7, 10, 1), serve(1, 10), tick, hs(7, 10, 1), hs(7, 13, 1))
	case 6: // a configured CRL, a restart, provisioning again with other trusted signers (disk: the persisted list is re-taken)
		pl := []int{11, 12}[rng.Intn(2)]
		t1 := []int{1, 3}[rng.Intn(2)]
		t2 := [][]int{{}, {3}, {1}, {2}}[rng.Intn(4)]
		ops = append(ops, repoOp{Kind: "serve", Loc: pl, Served: "doc", Doc: &repoDoc{Signer: t1, Number: num(), Serials: []int64{10, 12}}},
			repoOp{Kind: "provision", Loc: pl, Cands: []int{t1}}, repoOp{Kind: "hs", Issuer: repoSignerName[t1], Serial: 10, Cands: []int{t1}},
			repoOp{Kind: "restart"}, repoOp{Kind: "provision", Loc: pl, Cands: t2},
			repoOp{Kind: "hs", Issuer: repoSignerName[t1], Serial: 10, Cands: []int{t1}}, tick,
			repoOp{Kind: "hs", Issuer: repoSignerName[t1], Serial: 12, Cands: []int{t1}})
	case 0: // refresh with a list of the same or a smaller size that drops serials
		full := []int64{10, 11, 12, 13, 255}
		keep := full[:1+rng.Intn(2)]
		if rng.Intn(2) == 0 {
			keep = []int64{full[len(full)-1], 256}[:1+rng.Intn(2)]
		}
		ops = append(ops, serve(1, full...))
		first(hs(7, 11, 1))
		ops = append(ops, serve(1, keep...), tick)
		for _, s := range full {
			ops = append(ops, hs(7, s, 1))
		}
	case 1: // failed refresh(es), then a good one
		ops = append(ops, serve(1, 10, 12))
		first(hs(7, 10, 1))
		for k := 0; k <= rng.Intn(3); k++ {
			ops = append(ops, bad(), tick, hs(7, 10, 1), hs(7, 13, 1))
		}
		ops = append(ops, serve(1, 13), tick, hs(7, 13, 1), hs(7, 10, 1))
	case 2: // failing first load(s), then a good document: it must come into force
		ops = append(ops, bad())
		first(hs(7, 10, 1))
		for k := 0; k < rng.Intn(3); k++ {
			ops = append(ops, tick, hs(7, 10, 1))
		}
		ops = append(ops, serve(1, 10, 256), tick, hs(7, 10, 1), hs(7, 256, 1), hs(7, 12, 1))
	case 3: // a list nobody can vouch for, then the genuine one
		ops = append(ops, serve(9, 13, 14))
		first(hs(7, 13, 1))
		if rng.Intn(2) == 0 && cfg.Disk {
			ops = append(ops, repoOp{Kind: "restart"}, hs(7, 13, 1))
		}
		ops = append(ops, serve(1, 10), tick, hs(7, 13, 1), hs(7, 10, 1))
	case 4: // two issuers, the same serials, one location each
		other := map[int]int{1: 2, 2: 5, 5: 1}[loc]
		ops = append(ops, serve(1, 10, 11), repoOp{Kind: "serve", Loc: other, Served: "doc", Doc: &repoDoc{Signer: 3, Number: num(), Serials: []int64{11, 12}}})
		first(hs(7, 10, 1))
		o := repoOp{Kind: "hs", Issuer: 8, Serial: 12, CDP: other, Cands: []int{3}}
		first(o)
		ops = append(ops, hs(7, 12, 1), hs(8, 10, 3), hs(7, 11, 1), hs(8, 11, 3))
	case 5: // refresh signed by somebody else (sibling key / stranger), then by the right key again
		ops = append(ops, serve(1, 10))
		first(hs(7, 10, 1))
		ops = append(ops, serve([]int{2, 9}[rng.Intn(2)], 11), tick, hs(7, 10, 1), hs(7, 11, 1), serve(1, 12), tick, hs(7, 12, 1), hs(7, 10, 1))
	}
	if cfg.Fetch == "background" {
		// a handshake may spawn a background load: it is awaited by a tick (see snapshot0)
		var out []repoOp
		for i, o := range ops {
			out = append(out, o)
			if o.Kind == "hs" && o.CDP != 0 && !(i+1 < len(ops) && ops[i+1].Kind == "tick") {
				out = append(out, tick)
			}
		}
		ops = out
	}
	return ops
}

func (g *repoGen) history(cfg repoCfg, n int) []repoOp {
	var ops []repoOp
	rng := g.rng
	g.hist++
	if rng.Intn(3) != 0 { // (drawn, not counted: the configuration rotates with the history index)
		ops = g.directed(cfg, rng.Intn(10))
		n += len(ops) / 2
	}
	cdps := []int{1, 2, 5}
	for len(ops) < n {
		switch k := rng.Intn(20); {
		case k < 6: // serve
			loc := []int{1, 1, 2, 5, 11}[rng.Intn(5)]
			o := repoOp{Kind: "serve", Loc: loc}
			switch r := rng.Intn(20); {
			case r < 1:
				o.Served = "down"
			case r < 5:
				o.Served = "garbage"
			default:
				o.Served = "doc"
				o.Doc = g.doc([]int{1, 1, 1, 2, 3, 9})
			}
			ops = append(ops, o)
		case k < 14: // handshake
			o := repoOp{Kind: "hs", Issuer: []int{7, 7, 7, 8}[rng.Intn(4)], Serial: []int64{10, 11, 12, 13, 14, 255, 256, 65535, 5}[rng.Intn(9)]}
			switch r := rng.Intn(10); {
			case r < 1:
				o.CDP = 0
			case r < 2:
				o.CDP = []int{4, 4, 6, 7}[rng.Intn(4)]
			default:
				o.CDP = cdps[rng.Intn(len(cdps))]
			}
			o.Cands = [][]int{{1}, {1}, {1}, {2}, {3}, {1, 3}, {}}[rng.Intn(7)]
			ops = append(ops, o)
			// a spawned background load is awaited by a tick (see snapshot0)
			if cfg.Fetch == "background" && o.CDP != 0 {
				ops = append(ops, repoOp{Kind: "tick"})
			}
		case k < 17:
			ops = append(ops, repoOp{Kind: "tick"})
		case k < 18:
			ops = append(ops, repoOp{Kind: "provision", Loc: 11, Cands: [][]int{{1}, {1}, {3}, {}}[rng.Intn(4)]})
		case k < 19:
			if rng.Intn(2) == 0 {
				ops = append(ops, repoOp{Kind: "restart"})
			} else {
				ops = append(ops, repoOp{Kind: "restartcfg", Sig: []string{"verify", "verify", "verify_log", "none"}[rng.Intn(4)]})
			}
		default:
			if rng.Intn(3) == 0 {
				ops = append(ops, repoOp{Kind: "close"})
			}
		}
	}
	return ops
}

// runRepoHistory drives one history on the real code, emitting op lines and observations, and returns the trace.
type repoStep struct {
	Op  repoOp
	Obs string
}

func runRepoHistory(r *Run, cfg repoCfg, ops []repoOp, pemEnc bool, record func(string, string)) ([]repoStep, *repoWorld, error) {
	w, err := newRepoWorld(cfg, pemEnc)
	if err != nil {
		return nil, nil, err
	}
	record(cfg.opLine(), "ok")
	record("repo unsupported 4", "ok")
	record("repo unsupported 6", "ok") // no identifier can be computed: as unusable as a location without a loader
	record("repo unsupported 7", "ok")
	for _, loc := range []int{1, 2, 3, 5, 11, 12} {
		o := repoOp{Kind: "serve", Loc: loc, Served: "garbage"}
		record(o.line(), w.apply(o))
	}
	var steps []repoStep
	for _, o := range ops {
		tOp := time.Now()
		obs := w.apply(o)
		if os.Getenv("VERIF_TIMING") == "ops" && time.Since(tOp) > 500*time.Millisecond {
			fmt.Fprintf(os.Stdout, "TIMING op %.1fs cfg=%+v %s => %s\n", time.Since(tOp).Seconds(), cfg, o.line(), obs)
		}
		record(o.line(), obs)
		steps = append(steps, repoStep{o, obs})
	}
	return steps, w, nil
}
