package main

// Helpers of the OCSP cluster (C02, C05, C14): a scriptable OCSP responder that logs which (path, issuer candidate)
// each request was for, a builder for arbitrary BasicOCSPResponses (several single responses, critical extensions,
// unknown hash algorithms, embedded certificates, error statuses, trailing data), an *abstracter* that maps arbitrary
// response bytes to the abstract response record of the Lean model (decoding with encoding/asn1 and checking
// signatures with crypto/x509 only — no decision logic), and the encoders for the `ocsp` line protocol.

import (
	"bufio"
	"bytes"
	"crypto"
	"crypto/ecdsa"
	"crypto/rand"
	"crypto/rsa"
	"crypto/sha1"
	"crypto/sha256"
	"crypto/x509"
	"crypto/x509/pkix"
	"encoding/asn1"
	"encoding/hex"
	"fmt"
	"io"
	"math/big"
	mrand "math/rand"
	"net/http"
	"net/http/httptest"
	"sort"
	"strings"
	"sync"
	"time"

	"github.com/gr33nbl00d/caddy-revocation-validator/core/asn1parser"
	"github.com/gr33nbl00d/caddy-revocation-validator/crl/crlreader/extensionsupport"
	ocspchk "github.com/gr33nbl00d/caddy-revocation-validator/ocsp"
	"golang.org/x/crypto/ocsp"
)

// ---- ASN.1 structures of RFC 6960 (as in x/crypto/ocsp; decoding only) ----------------------

type oCertID struct {
	HashAlgorithm pkix.AlgorithmIdentifier
	NameHash      []byte
	IssuerKeyHash []byte
	SerialNumber  *big.Int
}

type oResponseASN1 struct {
	Status   asn1.Enumerated
	Response oResponseBytes `asn1:"explicit,tag:0,optional"`
}

type oResponseBytes struct {
	ResponseType asn1.ObjectIdentifier
	Response     []byte
}

type oBasicResponse struct {
	TBSResponseData    oResponseData
	SignatureAlgorithm pkix.AlgorithmIdentifier
	Signature          asn1.BitString
	Certificates       []asn1.RawValue `asn1:"explicit,tag:0,optional"`
}

type oResponseData struct {
	Raw            asn1.RawContent
	Version        int `asn1:"optional,default:0,explicit,tag:0"`
	RawResponderID asn1.RawValue
	ProducedAt     time.Time `asn1:"generalized"`
	Responses      []oSingleResponse
}

type oSingleResponse struct {
	CertID           oCertID
	Good             asn1.Flag        `asn1:"tag:0,optional"`
	Revoked          oRevokedInfo     `asn1:"tag:1,optional"`
	Unknown          asn1.Flag        `asn1:"tag:2,optional"`
	ThisUpdate       time.Time        `asn1:"generalized"`
	NextUpdate       time.Time        `asn1:"generalized,explicit,tag:0,optional"`
	SingleExtensions []pkix.Extension `asn1:"explicit,tag:1,optional"`
}

type oRevokedInfo struct {
	RevocationTime time.Time       `asn1:"generalized"`
	Reason         asn1.Enumerated `asn1:"explicit,tag:0,optional"`
}

var (
	oidOCSPBasic     = asn1.ObjectIdentifier{1, 3, 6, 1, 5, 5, 7, 48, 1, 1}
	oidSHA1          = asn1.ObjectIdentifier{1, 3, 14, 3, 2, 26}
	oidSHA256        = asn1.ObjectIdentifier{2, 16, 840, 1, 101, 3, 4, 2, 1}
	oidSHA384        = asn1.ObjectIdentifier{2, 16, 840, 1, 101, 3, 4, 2, 2}
	oidSHA512        = asn1.ObjectIdentifier{2, 16, 840, 1, 101, 3, 4, 2, 3}
	oidMD5           = asn1.ObjectIdentifier{1, 2, 840, 113549, 2, 5}
	oidSigECDSA256   = asn1.ObjectIdentifier{1, 2, 840, 10045, 4, 3, 2}
	oidSigRSA256     = asn1.ObjectIdentifier{1, 2, 840, 113549, 1, 1, 11}
	oidExtAKI        = asn1.ObjectIdentifier{2, 5, 29, 35}
	oidOCSPNonce     = asn1.ObjectIdentifier{1, 3, 6, 1, 5, 5, 7, 48, 1, 2}
	ocspSigAlgByOID  = map[string]x509.SignatureAlgorithm{}
	ocspSigAlgsKnown = []struct {
		oid asn1.ObjectIdentifier
		alg x509.SignatureAlgorithm
	}{
		{asn1.ObjectIdentifier{1, 2, 840, 113549, 1, 1, 2}, x509.MD2WithRSA},
		{asn1.ObjectIdentifier{1, 2, 840, 113549, 1, 1, 4}, x509.MD5WithRSA},
		{asn1.ObjectIdentifier{1, 2, 840, 113549, 1, 1, 5}, x509.SHA1WithRSA},
		{asn1.ObjectIdentifier{1, 2, 840, 113549, 1, 1, 11}, x509.SHA256WithRSA},
		{asn1.ObjectIdentifier{1, 2, 840, 113549, 1, 1, 12}, x509.SHA384WithRSA},
		{asn1.ObjectIdentifier{1, 2, 840, 113549, 1, 1, 13}, x509.SHA512WithRSA},
		{asn1.ObjectIdentifier{1, 2, 840, 10040, 4, 3}, x509.DSAWithSHA1},
		{asn1.ObjectIdentifier{2, 16, 840, 1, 101, 3, 4, 3, 2}, x509.DSAWithSHA256},
		{asn1.ObjectIdentifier{1, 2, 840, 10045, 4, 1}, x509.ECDSAWithSHA1},
		{asn1.ObjectIdentifier{1, 2, 840, 10045, 4, 3, 2}, x509.ECDSAWithSHA256},
		{asn1.ObjectIdentifier{1, 2, 840, 10045, 4, 3, 3}, x509.ECDSAWithSHA384},
		{asn1.ObjectIdentifier{1, 2, 840, 10045, 4, 3, 4}, x509.ECDSAWithSHA512},
	}
)

func ocspSigAlg(oid asn1.ObjectIdentifier) x509.SignatureAlgorithm {
	for _, d := range ocspSigAlgsKnown {
		if oid.Equal(d.oid) {
			return d.alg
		}
	}
	return x509.UnknownSignatureAlgorithm
}

// ---- response builder -------------------------------------------------------------------------

type OSingle struct {
	Serial     *big.Int
	Status     int // ocsp.Good / Revoked / Unknown
	NextUpdate time.Time
	Critical   bool                  // add a critical single extension
	HashOID    asn1.ObjectIdentifier // default SHA-1
}

type OBuild struct {
	Issuer        *x509.Certificate // CertID hashes
	ResponderCert *x509.Certificate // responder id (by name, or key hash)
	Key           crypto.Signer
	Singles       []OSingle
	Embed         []*x509.Certificate
	RespStatus    int                   // OCSPResponseStatus; 0 = successful
	TypeOID       asn1.ObjectIdentifier // default id-pkix-ocsp-basic
	ByKeyHash     bool
	BadResponder  bool // responder id with an unknown choice tag
	Trailing      []byte
	ThisUpdate    time.Time
}

func BuildOCSP(o OBuild) []byte {
	if o.RespStatus != 0 {
		der, err := asn1.Marshal(struct{ Status asn1.Enumerated }{asn1.Enumerated(o.RespStatus)})
		must(err)
		return append(der, o.Trailing...)
	}
	var spki struct {
		Algorithm pkix.AlgorithmIdentifier
		PublicKey asn1.BitString
	}
	_, err := asn1.Unmarshal(o.Issuer.RawSubjectPublicKeyInfo, &spki)
	must(err)
	if o.ThisUpdate.IsZero() {
		o.ThisUpdate = time.Now().Add(-time.Minute)
	}
	var singles []oSingleResponse
	for _, s := range o.Singles {
		hoid := s.HashOID
		if hoid == nil {
			hoid = oidSHA1
		}
		var nameHash, keyHash []byte
		if hoid.Equal(oidSHA256) {
			a, b := sha256.Sum256(o.Issuer.RawSubject), sha256.Sum256(spki.PublicKey.RightAlign())
			nameHash, keyHash = a[:], b[:]
		} else {
			a, b := sha1.Sum(o.Issuer.RawSubject), sha1.Sum(spki.PublicKey.RightAlign())
			nameHash, keyHash = a[:], b[:]
		}
		sr := oSingleResponse{
			CertID: oCertID{HashAlgorithm: pkix.AlgorithmIdentifier{Algorithm: hoid, Parameters: asn1.RawValue{Tag: 5}},
				NameHash: nameHash, IssuerKeyHash: keyHash, SerialNumber: s.Serial},
			ThisUpdate: o.ThisUpdate.UTC(),
		}
		if !s.NextUpdate.IsZero() {
			sr.NextUpdate = s.NextUpdate.UTC()
		}
		switch s.Status {
		case ocsp.Good:
			sr.Good = true
		case ocsp.Unknown:
			sr.Unknown = true
		default:
			sr.Revoked = oRevokedInfo{RevocationTime: o.ThisUpdate.UTC(), Reason: asn1.Enumerated(ocsp.KeyCompromise)}
		}
		if s.Critical {
			sr.SingleExtensions = []pkix.Extension{{Id: asn1.ObjectIdentifier{1, 3, 6, 1, 4, 1, 99999, 1}, Critical: true, Value: []byte{5, 0}}}
		}
		singles = append(singles, sr)
	}
	rid := asn1.RawValue{Class: 2, Tag: 1, IsCompound: true, Bytes: o.ResponderCert.RawSubject}
	if o.ByKeyHash {
		var rspki struct {
			Algorithm pkix.AlgorithmIdentifier
			PublicKey asn1.BitString
		}
		_, err := asn1.Unmarshal(o.ResponderCert.RawSubjectPublicKeyInfo, &rspki)
		must(err)
		h := sha1.Sum(rspki.PublicKey.RightAlign())
		rid = asn1.RawValue{Class: 2, Tag: 2, IsCompound: true, Bytes: mustMarshal(h[:])}
	}
	if o.BadResponder {
		rid = asn1.RawValue{Class: 2, Tag: 3, IsCompound: true, Bytes: mustMarshal([]byte{1, 2, 3})}
	}
	tbs := oResponseData{RawResponderID: rid, ProducedAt: time.Now().Truncate(time.Minute).UTC(), Responses: singles}
	if len(singles) == 0 {
		tbs.Responses = []oSingleResponse{}
	}
	tbsDER, err := asn1.Marshal(tbs)
	must(err)
	digest := sha256.Sum256(tbsDER)
	sig, err := o.Key.Sign(rand.Reader, digest[:], crypto.SHA256)
	must(err)
	var alg pkix.AlgorithmIdentifier
	switch o.Key.Public().(type) {
	case *ecdsa.PublicKey:
		alg = pkix.AlgorithmIdentifier{Algorithm: oidSigECDSA256}
	case *rsa.PublicKey:
		alg = pkix.AlgorithmIdentifier{Algorithm: oidSigRSA256, Parameters: asn1.RawValue{Tag: 5}}
	default:
		panic("BuildOCSP: unsupported key type")
	}
	basic := oBasicResponse{TBSResponseData: tbs, SignatureAlgorithm: alg, Signature: asn1.BitString{Bytes: sig, BitLength: 8 * len(sig)}}
	for _, e := range o.Embed {
		basic.Certificates = append(basic.Certificates, asn1.RawValue{FullBytes: e.Raw})
	}
	basicDER, err := asn1.Marshal(basic)
	must(err)
	typ := o.TypeOID
	if typ == nil {
		typ = oidOCSPBasic
	}
	der, err := asn1.Marshal(oResponseASN1{Status: 0, Response: oResponseBytes{ResponseType: typ, Response: basicDER}})
	must(err)
	return append(der, o.Trailing...)
}

// ---- identities and abstraction ----------------------------------------------------------------

// AbsCtx numbers public keys and certificates (the model's Key / certId) and fixes the time origin.
type AbsCtx struct {
	mu     sync.Mutex
	keys   map[string]int
	certs  map[string]int
	Epoch  time.Time
	keyOf  map[int]*x509.Certificate
	serial int64
}

func NewAbsCtx() *AbsCtx {
	return &AbsCtx{keys: map[string]int{}, certs: map[string]int{}, Epoch: time.Now(), keyOf: map[int]*x509.Certificate{}}
}

func (a *AbsCtx) KeyID(c *x509.Certificate) int {
	a.mu.Lock()
	defer a.mu.Unlock()
	k := string(c.RawSubjectPublicKeyInfo)
	id, ok := a.keys[k]
	if !ok {
		id = len(a.keys) + 1
		a.keys[k] = id
	}
	return id
}

func (a *AbsCtx) CertID(c *x509.Certificate) int {
	a.mu.Lock()
	defer a.mu.Unlock()
	k := string(c.Raw)
	id, ok := a.certs[k]
	if !ok {
		id = len(a.certs) + 1
		a.certs[k] = id
	}
	return id
}

// Ms converts a wall clock instant to the model's milliseconds (never negative).
func (a *AbsCtx) Ms(t time.Time) int64 {
	d := t.Sub(a.Epoch).Milliseconds()
	if d < 0 {
		return 0
	}
	return d
}

func b01(b bool) string {
	if b {
		return "1"
	}
	return "0"
}

// verifyingKey returns the model key id of the first certificate in `known` under whose key (alg, signed, sig) verifies, 0 if none.
func (a *AbsCtx) verifyingKey(known []*x509.Certificate, alg x509.SignatureAlgorithm, signed, sig []byte) int {
	for _, k := range known {
		if k.CheckSignature(alg, signed, sig) == nil {
			return a.KeyID(k)
		}
	}
	return 0
}

func natOfBig(n *big.Int) string {
	if n == nil {
		return "0"
	}
	if n.Sign() < 0 {
		// a negative serial never equals a certificate's (non-negative) serial: map it out of the way, injectively
		x := new(big.Int).Lsh(big.NewInt(1), 400)
		return x.Add(x, new(big.Int).Neg(n)).String()
	}
	return n.String()
}

// Abstract maps response bytes to the `<beh>` syntax of the line protocol: G (not an OCSPResponse) or R….
// known: certificates whose public keys are in play (issuer candidates and every other signer used by the case).
func (a *AbsCtx) Abstract(body []byte, known []*x509.Certificate) string {
	var resp oResponseASN1
	rest, err := asn1.Unmarshal(body, &resp)
	if err != nil || len(rest) > 0 {
		return "G"
	}
	st := int(resp.Status)
	if st < 0 {
		st = 1000 - st
	}
	if st != 0 {
		return fmt.Sprintf("R%d~0~0~0~0~n~n", st)
	}
	typeBasic := resp.Response.ResponseType.Equal(oidOCSPBasic)
	var basic oBasicResponse
	rest, err = asn1.Unmarshal(resp.Response.Response, &basic)
	if err != nil || len(rest) > 0 {
		return fmt.Sprintf("R0~%s~0~0~0~n~n", b01(typeBasic))
	}
	var singles []string
	for _, s := range basic.TBSResponseData.Responses {
		status := "r"
		if bool(s.Good) {
			status = "g"
		} else if bool(s.Unknown) {
			status = "u"
		}
		nu := "n"
		if !s.NextUpdate.IsZero() {
			nu = fmt.Sprint(a.Ms(s.NextUpdate))
		}
		crit := false
		for _, e := range s.SingleExtensions {
			if e.Critical {
				crit = true
			}
		}
		h := s.CertID.HashAlgorithm.Algorithm
		known := h.Equal(oidSHA1) || h.Equal(oidSHA256) || h.Equal(oidSHA384) || h.Equal(oidSHA512)
		singles = append(singles, fmt.Sprintf("%s.%s.%s.%s.%s", natOfBig(s.CertID.SerialNumber), status, nu, b01(crit), b01(known)))
	}
	singlesStr := "n"
	if len(singles) > 0 {
		singlesStr = strings.Join(singles, "+")
	}
	ridOk := false
	rid := basic.TBSResponseData.RawResponderID
	switch rid.Tag {
	case 1:
		var rdn pkix.RDNSequence
		r, err := asn1.Unmarshal(rid.Bytes, &rdn)
		ridOk = err == nil && len(r) == 0
	case 2:
		var kh []byte
		r, err := asn1.Unmarshal(rid.Bytes, &kh)
		ridOk = err == nil && len(r) == 0
	}
	alg := ocspSigAlg(basic.SignatureAlgorithm.Algorithm)
	tbs := []byte(basic.TBSResponseData.Raw)
	sig := basic.Signature.RightAlign()
	emb := "n"
	all := known
	if len(basic.Certificates) > 0 {
		ec, err := x509.ParseCertificate(basic.Certificates[0].FullBytes)
		if err != nil {
			emb = "0.0.0.0.0"
		} else {
			eku := false
			for _, u := range ec.ExtKeyUsage {
				if u == x509.ExtKeyUsageOCSPSigning {
					eku = true
				}
			}
			certSigned := a.verifyingKey(known, ec.SignatureAlgorithm, ec.RawTBSCertificate, ec.Signature)
			if certSigned == 0 && ec.CheckSignature(ec.SignatureAlgorithm, ec.RawTBSCertificate, ec.Signature) == nil {
				certSigned = a.KeyID(ec)
			}
			emb = fmt.Sprintf("1.%d.%d.%d.%s", a.CertID(ec), a.KeyID(ec), certSigned, b01(eku))
			all = append(append([]*x509.Certificate{}, known...), ec)
		}
	}
	signed := a.verifyingKey(all, alg, tbs, sig)
	return fmt.Sprintf("R0~%s~1~%s~%d~%s~%s", b01(typeBasic), b01(ridOk), signed, emb, singlesStr)
}

// ---- line protocol encoders --------------------------------------------------------------------

func hexStr(s string) string { return hexs([]byte(s)) }

func optHex(b []byte, present bool) string {
	if !present {
		return "n"
	}
	return hexs(b)
}

func rdnString(raw []byte) (string, bool) {
	rdn, err := asn1parser.ParseRDNSequence(raw)
	if err != nil {
		return "", false
	}
	return rdn.String(), true
}

// CertField encodes the client certificate (`<cert>`).
func (a *AbsCtx) CertField(c *x509.Certificate) string {
	iss, _ := rdnString(c.RawIssuer)
	aki := "n"
	for i := range c.Extensions {
		if !c.Extensions[i].Id.Equal(oidExtAKI) {
			continue
		}
		var k extensionsupport.AuthorityKeyIdentifier
		if _, err := asn1.Unmarshal(c.Extensions[i].Value, &k); err != nil {
			aki = "x"
			break
		}
		ser, issuer := "n", "n"
		if k.AuthorityCertSerialNumber != nil {
			ser = natOfBig(k.AuthorityCertSerialNumber)
			if len(k.AuthorityCertIssuer.DirectoryName.Bytes) > 0 {
				dn := new(pkix.RDNSequence)
				rd := bufio.NewReader(bytes.NewReader(k.AuthorityCertIssuer.DirectoryName.Bytes))
				if err := asn1parser.ReadStruct(rd, dn); err != nil {
					aki = "x" // the code returns an error: no candidates
					break
				}
				issuer = hexStr(dn.String())
			}
		}
		aki = fmt.Sprintf("a/%s/%s/%s", optHex(k.KeyIdentifier, k.KeyIdentifier != nil), ser, issuer)
		break
	}
	return fmt.Sprintf("%s,%s,%s,%d,%s", hexStr(iss), hexStr(c.Subject.String()), natOfBig(c.SerialNumber), int(c.PublicKeyAlgorithm), aki)
}

func (a *AbsCtx) chainEntry(c *x509.Certificate) string {
	subj, _ := rdnString(c.RawSubject)
	iss, _ := rdnString(c.RawIssuer)
	return fmt.Sprintf("%d,%d,%s,%s,%s,%s,%d", a.CertID(c), a.KeyID(c), hexStr(subj), hexStr(iss),
		natOfBig(c.SerialNumber), optHex(c.SubjectKeyId, len(c.SubjectKeyId) > 0), int(c.PublicKeyAlgorithm))
}

// ChainsField encodes the verified chains as presented (`<chains>`) and the trusted responder certificates (`<trusted>`).
func (a *AbsCtx) ChainsField(chains [][]*x509.Certificate, trusted []*x509.Certificate) string {
	var cs []string
	for _, ch := range chains {
		var es []string
		for _, c := range ch {
			es = append(es, a.chainEntry(c))
		}
		if len(es) > 0 {
			cs = append(cs, strings.Join(es, ";"))
		}
	}
	cf := "-"
	if len(cs) > 0 {
		cf = strings.Join(cs, "|")
	}
	var ts []string
	for _, c := range trusted {
		ts = append(ts, a.chainEntry(c))
	}
	tf := "-"
	if len(ts) > 0 {
		tf = strings.Join(ts, ";")
	}
	return cf + " " + tf
}

func (a *AbsCtx) CandsField(cands []*x509.Certificate) string {
	if len(cands) == 0 {
		return "-"
	}
	var es []string
	for _, c := range cands {
		es = append(es, fmt.Sprintf("%d:%d", a.CertID(c), a.KeyID(c)))
	}
	return strings.Join(es, ";")
}

// ---- scriptable OCSP responder -----------------------------------------------------------------

type RespScript struct {
	Kind   string // "bytes", "status" (HTTP status + body), "drop" (close the connection without answering)
	Body   []byte
	Status int
}

type ReqLog struct {
	Path    string
	KeyHash string // hex of the request's issuerKeyHash ("" when the request does not parse)
	Serial  string
}

type Responder struct {
	srv   *httptest.Server
	mu    sync.Mutex
	rules map[string]func(keyHash string) RespScript
	log   []ReqLog
}

func NewResponder() *Responder {
	r := &Responder{rules: map[string]func(string) RespScript{}}
	r.srv = httptest.NewServer(http.HandlerFunc(r.handle))
	return r
}

func (r *Responder) handle(w http.ResponseWriter, req *http.Request) {
	body, _ := io.ReadAll(req.Body)
	entry := ReqLog{Path: req.URL.Path}
	if pr, err := ocsp.ParseRequest(body); err == nil {
		entry.KeyHash = hex.EncodeToString(pr.IssuerKeyHash)
		entry.Serial = pr.SerialNumber.String()
	}
	r.mu.Lock()
	r.log = append(r.log, entry)
	rule := r.rules[req.URL.Path]
	r.mu.Unlock()
	if rule == nil {
		w.WriteHeader(404)
		return
	}
	s := rule(entry.KeyHash)
	switch s.Kind {
	case "drop":
		if hj, ok := w.(http.Hijacker); ok {
			if c, _, err := hj.Hijack(); err == nil {
				c.Close()
				return
			}
		}
		w.WriteHeader(500)
	case "status":
		w.WriteHeader(s.Status)
		w.Write(s.Body)
	default:
		w.Header().Set("Content-Type", "application/ocsp-response")
		w.Write(s.Body)
	}
}

func (r *Responder) Set(path string, f func(keyHash string) RespScript) {
	r.mu.Lock()
	defer r.mu.Unlock()
	r.rules[path] = f
}

func (r *Responder) SetFixed(path string, s RespScript) {
	r.Set(path, func(string) RespScript { return s })
}

func (r *Responder) URL(path string) string { return r.srv.URL + path }

// Host returns host:port of the responder.
func (r *Responder) Host() string { return strings.TrimPrefix(r.srv.URL, "http://") }

// Log returns the requests whose path starts with prefix, in arrival order.
func (r *Responder) Log(prefix string) []ReqLog {
	r.mu.Lock()
	defer r.mu.Unlock()
	var out []ReqLog
	for _, e := range r.log {
		if strings.HasPrefix(e.Path, prefix) {
			out = append(out, e)
		}
	}
	return out
}

func (r *Responder) Count(prefix string) int { return len(r.Log(prefix)) }

// CountExact counts the requests for exactly this path.
func (r *Responder) CountExact(path string) int {
	r.mu.Lock()
	defer r.mu.Unlock()
	n := 0
	for _, e := range r.log {
		if e.Path == path {
			n++
		}
	}
	return n
}

func (r *Responder) Close() { r.srv.Close() }

// issuerKeyHashHex is the SHA-1 issuerKeyHash an OCSP request built for issuer candidate c carries.
func issuerKeyHashHex(c *x509.Certificate) string {
	var spki struct {
		Algorithm pkix.AlgorithmIdentifier
		PublicKey asn1.BitString
	}
	_, err := asn1.Unmarshal(c.RawSubjectPublicKeyInfo, &spki)
	must(err)
	h := sha1.Sum(spki.PublicKey.RightAlign())
	return hex.EncodeToString(h[:])
}

// ocspRng returns a private PRNG for one parallel case (Run.Rng is not safe for concurrent use).
func ocspRng(seed int64) *mrand.Rand { return mrand.New(mrand.NewSource(seed)) }

// ---- cache observation ---------------------------------------------------------------------------

func cacheEntryFor(ch *ocspchk.OCSPRevocationChecker, key string) (ocspchk.VerifCacheEntry, bool) {
	for _, e := range ch.VerifCacheEntries() {
		if e.Key == key {
			return e, true
		}
	}
	return ocspchk.VerifCacheEntry{}, false
}

func ocspCacheKey(c *x509.Certificate) string {
	iss, _ := rdnString(c.RawIssuer)
	return iss + "_" + c.SerialNumber.String()
}

func sortedKeysInt(m map[string]int) []string {
	ks := make([]string, 0, len(m))
	for k := range m {
		ks = append(ks, k)
	}
	sort.Strings(ks)
	return ks
}

// ---- one observed lookup -------------------------------------------------------------------------

// OSrv describes one responder URL of a case: the URL in the certificate, the path prefix on the Responder (if it
// can reach it), and per candidate (by certificate) what comes back, as model behaviour string.
type OSrv struct {
	URL        string
	Path       string            // "" when requests to this URL cannot be observed (refused, TLS to a plain listener, other schemes)
	Beh        map[string]string // "*" → default <beh>
	PerCert    []OSrvRule        // behaviour for requests built for a particular candidate certificate (before the default)
	Observable bool
}

type OSrvRule struct {
	Cert *x509.Certificate
	Beh  string
}

func (s OSrv) field(a *AbsCtx) string {
	var rules []string
	for _, pc := range s.PerCert {
		rules = append(rules, fmt.Sprintf("%d:%s", a.CertID(pc.Cert), pc.Beh))
	}
	if b, ok := s.Beh["*"]; ok {
		rules = append(rules, "*:"+b)
	}
	if len(rules) == 0 {
		rules = []string{"*:X"}
	}
	return hexStr(s.URL) + "=" + strings.Join(rules, "|")
}

type LookObs struct {
	Result  string
	Reqs    []string // "s.c"
	Hit     bool
	Stored  string // life span in ms or "-"
	T0, T1  int64  // model time before / after the call
	Err     error
	Entry   ocspchk.VerifCacheEntry
	HasItem bool
}

// observeLookup runs the real IsRevoked and canonicalises what can be seen of it.
// pool: every certificate that may be an issuer candidate (used to translate the issuerKeyHash of a logged request
// to the model's key id).
// defMs: the instance's default duration; nuMs: the nextUpdate (model ms) of the response expected to be stored, -1 if none.
func observeLookup(a *AbsCtx, ch *ocspchk.OCSPRevocationChecker, rsp *Responder, leaf *x509.Certificate, chains [][]*x509.Certificate,
	srvs []OSrv, pool []*x509.Certificate, defMs int64, nuMs int64) LookObs {
	var o LookObs
	before := map[string]int{}
	for _, s := range srvs {
		if s.Path != "" {
			before[s.Path] = rsp.CountExact(s.Path)
		}
	}
	key := ocspCacheKey(leaf)
	w0 := time.Now()
	o.T0 = a.Ms(w0)
	st, err := func() (st bool, err error) {
		defer func() {
			if p := recover(); p != nil {
				err = fmt.Errorf("panic: %v", p)
				o.Result = "panic"
			}
		}()
		r, e := ch.IsRevoked(leaf, chains)
		return r != nil && r.Revoked, e
	}()
	w1 := time.Now()
	o.T1 = a.Ms(w1)
	o.Err = err
	if o.Result == "" {
		o.Result = classify(st, err)
	}
	// requests in arrival order; the checker is sequential, so per-path logs merged by global order are exact:
	// collect (global index) by scanning the whole log once
	type seen struct {
		idx  int
		s, c int
	}
	var all []seen
	rsp.mu.Lock()
	counts := map[string]int{}
	for gi, e := range rsp.log {
		for si, s := range srvs {
			if s.Path == "" || e.Path != s.Path {
				continue
			}
			counts[s.Path]++
			if counts[s.Path] <= before[s.Path] {
				continue
			}
			ci := 0
			for _, c := range pool {
				if issuerKeyHashHex(c) == e.KeyHash {
					ci = a.KeyID(c)
					break
				}
			}
			all = append(all, seen{gi, si, ci})
		}
	}
	rsp.mu.Unlock()
	for _, s := range all {
		o.Reqs = append(o.Reqs, fmt.Sprintf("%d.%d", s.s, s.c))
	}
	e, ok := cacheEntryFor(ch, key)
	o.Entry, o.HasItem = e, ok
	o.Stored = "-"
	if ok && !e.CreatedOn.Before(w0) {
		life := e.LifeSpan.Milliseconds()
		// canonical value: the default duration is exact; a nextUpdate-based life span is snapped to the value the
		// formula gives at T0 when it is within the duration of the call (+2 ms rounding)
		o.Stored = fmt.Sprint(life)
		if life != defMs && nuMs >= 0 {
			want := nuMs - o.T0 + ocspchk.VerifMaxClockSkew.Milliseconds()
			if d := life - want; d <= 2 && d >= -(o.T1-o.T0)-2 {
				o.Stored = fmt.Sprint(want)
			}
		}
	}
	o.Hit = ok && e.CreatedOn.Before(w0) && !e.AccessedOn.Before(w0) && err == nil && len(o.Reqs) == 0
	return o
}

func (o LookObs) line() string {
	req := "-"
	if len(o.Reqs) > 0 {
		req = strings.Join(o.Reqs, ",")
	}
	return fmt.Sprintf("%s req=%s hit=%s store=%s", o.Result, req, b01(o.Hit), o.Stored)
}
