package main

import (
	"bytes"
	"crypto"
	"crypto/x509"
	"crypto/x509/pkix"
	"encoding/asn1"
	"fmt"
	"math/big"
	"math/rand"
	"reflect"
	"sync"
	"time"
)

func init() { register("C06", runC06) }

type c06Case struct {
	Desc string
	Spec CRLSpec
	PEM  int    // 0 DER, 1 PEM LF, 2 PEM CRLF
	Neg  string // "" | "critical" | "version"
}

var (
	c06KeysOnce sync.Once
	c06RSA      crypto.Signer
	c06EC       crypto.Signer
)

func c06Keys() {
	c06KeysOnce.Do(func() {
		c06RSA = freshRSAKey()
		c06EC = newECKey()
	})
}

func randSerial(rng *rand.Rand, width int) *big.Int {
	b := make([]byte, width)
	rng.Read(b)
	if b[0] == 0 {
		b[0] = 1 + byte(rng.Intn(255))
	}
	x := new(big.Int).SetBytes(b)
	// one serial in six carries the high bit in its first content octet: a two's complement negative INTEGER, which is what a
	// 20-octet serial written without the leading zero octet decodes to (crypto/x509 and the reference decoder read it signed)
	if rng.Intn(6) == 0 {
		b[0] |= 0x80
		x = new(big.Int).SetBytes(b)
		x.Sub(x, new(big.Int).Lsh(big.NewInt(1), uint(8*width)))
	}
	return x
}

var oidReason = asn1.ObjectIdentifier{2, 5, 29, 21}
var oidInvalidity = asn1.ObjectIdentifier{2, 5, 29, 24}
var oidUnknown = asn1.ObjectIdentifier{1, 3, 6, 1, 4, 1, 99999, 1}
var oidAKI = asn1.ObjectIdentifier{2, 5, 29, 35}
var oidCRLNumber = asn1.ObjectIdentifier{2, 5, 29, 20}
var oidIDP = asn1.ObjectIdentifier{2, 5, 29, 28}

// genC06Spec draws one well-formed CRL of the supported profile.
func genC06Spec(rng *rand.Rand, nEntries int, pad int) CRLSpec {
	c06Keys()
	alg := sigAlgs[rng.Intn(len(sigAlgs))]
	s := CRLSpec{Alg: alg, AlgParams: !alg.EC}
	if alg.EC {
		s.Signer = c06EC
	} else {
		s.Signer = c06RSA
	}
	s.IssuerRaw = nameDER(fmt.Sprintf("CA %d", rng.Intn(1000)), rng.Intn(3), pad)
	base := time.Date(2024, 1, 1, 0, 0, 0, 0, time.UTC).Add(time.Duration(rng.Intn(1000000)) * time.Second)
	s.ThisUpdate = base
	if rng.Intn(4) != 0 {
		nu := base.Add(time.Duration(1+rng.Intn(1000)) * time.Hour)
		s.NextUpdate = &nu
	}
	v2 := rng.Intn(4) != 0
	if v2 {
		s.Version = 1
	}
	for i := 0; i < nEntries; i++ {
		w := 1 + rng.Intn(20)
		if rng.Intn(8) == 0 {
			w = 20
		}
		e := EntrySpec{Serial: randSerial(rng, w), Time: base.Add(-time.Duration(rng.Intn(100000)) * time.Second)}
		if rng.Intn(6) == 0 {
			e.GenTime = true
			e.Time = time.Date(2050+rng.Intn(30), 3, 4, 5, 6, 7, 0, time.UTC)
		}
		if v2 {
			switch rng.Intn(5) {
			case 0:
				e.Exts = [][]byte{derExt(oidReason, false, []byte{0x0a, 0x01, byte(1 + rng.Intn(6))})}
			case 1:
				e.Exts = [][]byte{derExt(oidInvalidity, false, derGenTime(base)), derExt(oidReason, false, []byte{0x0a, 0x01, 1})}
			case 2:
				v := make([]byte, rng.Intn(300))
				rng.Read(v)
				e.Exts = [][]byte{derExt(oidUnknown, rng.Intn(2) == 0, derOctets(v))}
			}
		}
		s.Entries = append(s.Entries, e)
	}
	if v2 && rng.Intn(5) != 0 {
		s.Exts = [][]byte{}
		if rng.Intn(3) != 0 {
			ski := make([]byte, 20)
			rng.Read(ski)
			s.Exts = append(s.Exts, derExt(oidAKI, false, derSeq(derTLV(0x80, ski))))
		}
		if rng.Intn(4) != 0 {
			s.Exts = append(s.Exts, derExt(oidCRLNumber, rng.Intn(6) == 0, derInt(new(big.Int).Abs(randSerial(rng, 1+rng.Intn(20)))))) // CRLNumber ::= INTEGER (0..MAX)
		}
		if rng.Intn(3) == 0 {
			s.Exts = append(s.Exts, derExt(oidUnknown, false, derOctets([]byte("x"))))
		}
		if rng.Intn(4) == 0 {
			s.Exts = append(s.Exts, derExt(oidIDP, false, derSeq()))
		}
		if len(s.Exts) == 0 {
			s.Exts = append(s.Exts, derExt(oidUnknown, false, derOctets([]byte("y"))))
		}
	}
	return s
}

type c06Stats struct {
	mu sync.Mutex
}

func runC06(r *Run) {
	r.rule = "generated CRLs of the supported profile (entries 0..N, serial widths 1..20, UTCTime/GeneralizedTime revocation dates, entry extensions, " +
		"optional nextUpdate, v1/v2, with/without crlExtensions, all ten algorithms, issuer padding placing element boundaries around 4096*k, DER/PEM LF/CRLF) " +
		"plus negative documents (unknown critical extension, version 3): real ReadCRL vs Lean model (oracle completion) vs x509.ParseRevocationList; " +
		"non-trivial = at least one entry or extension; distinct by document bytes digest"
	counts := []int{0, 0, 1, 1, 2, 3, 5, 8, 13, 40, 120, 400}
	nDocs := 700
	nBig := 0
	if r.Thorough() {
		nDocs = 20000
		nBig = 120 // documents with 1500 / 3000 entries: the model driver needs seconds for each (its hash log is a list)
	}
	var cases []c06Case
	rng := r.Rng
	for i := 0; i < nDocs; i++ {
		n := counts[rng.Intn(len(counts))]
		if i < nBig {
			n = []int{1500, 3000}[i%2]
		}
		pad := 0
		switch rng.Intn(4) {
		case 0:
			pad = rng.Intn(300)
		case 1:
			// aim the start of the entry list (≈ 80 + pad bytes in) at a 4096 boundary ± 40
			pad = 4096*(1+rng.Intn(2)) - 120 + rng.Intn(80)
		case 2:
			pad = rng.Intn(4300)
		}
		spec := genC06Spec(rand.New(rand.NewSource(rng.Int63())), n, pad)
		c := c06Case{Spec: spec, PEM: rng.Intn(3), Desc: fmt.Sprintf("n=%d pad=%d alg=%s v=%d", n, pad, spec.Alg.Name, spec.Version)}
		switch rng.Intn(14) {
		case 0:
			if spec.Version == 1 {
				c.Neg = "critical"
				c.Spec.Exts = append(append([][]byte{}, spec.Exts...), derExt(asn1.ObjectIdentifier{2, 5, 29, 27}, true, derInt(big.NewInt(3))))
			}
		case 1:
			c.Neg = "version"
			c.Spec.Version = 2 + rng.Intn(3)
			if c.Spec.Version == 4 {
				c.Spec.Version = 255
			}
		}
		cases = append(cases, c)
	}
	// unknown versions written as ONE content octet (what the reader takes for a version field), with and without crlExtensions:
	// every such list is rejected as a whole (an arithmetic slip on the octet - 0xff + 1 - must not turn it into a known one)
	for i, vb := range []byte{0x02, 0x03, 0x7f, 0x80, 0xfe, 0xff} {
		for _, exts := range []bool{true, false} {
			s := genC06Spec(rand.New(rand.NewSource(int64(900+i))), 3, 0)
			s.Version, s.VersionRaw = 1, []byte{vb}
			if !exts {
				s.Exts = nil
			}
			cases = append([]c06Case{{Spec: s, Neg: "version", PEM: i % 3, Desc: fmt.Sprintf("version octet %#02x exts=%v", vb, exts)}}, cases...)
		}
	}
	// fixed corner cases first (corpus)
	for _, n := range []int{0, 1, 3} {
		for _, v := range []int{0, 1} {
			s := genC06Spec(rand.New(rand.NewSource(int64(n*7+v))), n, 0)
			s.Version = v
			if v == 0 {
				s.Exts = nil
				for i := range s.Entries {
					s.Entries[i].Exts = nil
				}
			}
			cases = append([]c06Case{{Spec: s, Desc: fmt.Sprintf("corner n=%d v=%d", n, v)}}, cases...)
			s2 := s
			s2.Exts = nil
			cases = append([]c06Case{{Spec: s2, Desc: fmt.Sprintf("corner-noexts n=%d v=%d", n, v)}}, cases...)
		}
	}
	dir := scratchDir("c06")
	workers := 12
	drivers := make(chan *Driver, workers)
	haveDriver := true
	for i := 0; i < workers; i++ {
		d, err := NewDriver()
		if err != nil {
			haveDriver = false
			r.Note("model driver unavailable: " + err.Error())
			break
		}
		drivers <- d
	}
	parallel(len(cases), workers, func(i int) {
		var d *Driver
		if haveDriver {
			d = <-drivers
			defer func() { drivers <- d }()
		}
		c06One(r, d, dir, i, cases[i])
	})
	close(drivers)
	for d := range drivers {
		d.Close()
	}
	// the layers below the flat reader model: PEM armour / base64 stream (Crv.Pem) and bufio over a chunked source with
	// the repo's read loops (Crv.Chunk); both are compared line by line with the Lean driver
	r.rule += "; PEM stream: valid and malformed armour/base64 texts through the real PemReader + base64 decoder + bufio vs Crv.Pem; " +
		"chunk stream: ReadExpectedBytes/PeekExpectedBytes/Discard over scripted chunkings and buffer sizes vs Crv.Chunk and vs a single-chunk reference run"
	c06PemStream(r)
	c06ChunkStream(r)
}

func c06One(r *Run, d *Driver, dir string, idx int, c c06Case) {
	der, tbs := c.Spec.Build()
	file := der
	enc := "der"
	if c.PEM == 1 {
		file, enc = pemEncode("X509 CRL", der, false), "pem-lf"
	} else if c.PEM == 2 {
		file, enc = pemEncode("X509 CRL", der, true), "pem-crlf"
	}
	path := writeTemp(dir, fmt.Sprintf("c%d.crl", idx), file)
	ir := implReadCRL(path)
	key := fmt.Sprintf("%x", digestOf(crypto.SHA256, file)[:8])
	r.Eval(key, len(c.Spec.Entries) > 0 || len(c.Spec.Exts) > 0)
	r.Count("enc:" + enc)
	r.Count("alg:" + c.Spec.Alg.Name)
	r.Count("impl:" + ir.class)
	r.Count(fmt.Sprintf("entries:%s", bucket(len(c.Spec.Entries))))
	if c.Neg != "" {
		r.Count("neg:" + c.Neg)
	}
	replay := map[string]string{"desc": c.Desc, "enc": enc, "file_hex": hexs(file)}
	if len(file) > 20000 {
		replay["file_hex"] = hexs(file[:2000]) + "…(truncated)"
	}
	// ---- implementation-side oracle: the property statement against the reference decoder --------
	if c.Neg != "" {
		if ir.class == "ok" {
			r.Violate("C06 accepted-"+c.Neg, fmt.Sprintf("%s: CRL with %s was read without error", c.Desc, map[string]string{"critical": "an unimplemented critical extension", "version": "an unknown version"}[c.Neg]), replay)
		} else if ir.class == "panic" {
			r.Violate("C06 panic", fmt.Sprintf("%s: %v", c.Desc, ir.panicV), replay)
		}
	} else {
		ref, err := c06Reference(der)
		if err != nil {
			r.Note("reference decoder rejected a generated CRL: " + c.Desc + ": " + err.Error())
			r.Count("ref:rejected")
		} else if ir.class != "ok" {
			r.Violate("C06 wellformed-rejected "+c06Shape(c), fmt.Sprintf("%s (%s): well-formed CRL of the supported profile not read: %s %v %v", c.Desc, enc, ir.class, ir.err, ir.panicV), replay)
		} else if diff := c06CompareRef(ir, ref, tbs, c.Spec.Alg.Hash); diff != "" {
			r.Violate("C06 differs-from-reference "+diff, fmt.Sprintf("%s (%s): %s", c.Desc, enc, diff), replay)
		}
	}
	// ---- correspondence with the Lean model: the model decides itself whether the file is PEM and what the ASN.1 reader gets
	// (`rd file`), then reads that (oracle completion on the model's bytes) ---------------------------------------------------
	if d == nil {
		return
	}
	if len(der) > 400000 {
		r.Count("model:skipped-large")
		return
	}
	if c.PEM != 0 && len(file) > 48000 {
		// the PEM layer of the model is written for clarity, not speed (list appends: quadratic); large PEM files are read
		// through the model's DER path only, PEM framing of every size class is covered by the pem stream and small files here
		r.Count("model:pem-large-der-only")
		m, err := modelReadCRL(d, der)
		if err != nil {
			r.Violate("C06 driver-failed", err.Error(), nil)
			return
		}
		obs := m.answer
		if mm := c06CompareModel(ir, m, der); mm != "" {
			obs = "MISMATCH impl=" + ir.class + " " + mm
		}
		r.Op(m.opLine, obs)
		return
	}
	fileOp := "rd file " + hexs(file)
	fans, err := d.Ask(fileOp)
	if err != nil {
		r.Violate("C06 driver-failed", err.Error(), nil)
		return
	}
	wantFile := fmt.Sprintf("pem=%v der=%s", c.PEM != 0, hexs(der))
	r.Op(fileOp, wantFile) // what the real pipeline delivers for a well-formed file: the DER bytes (checked against the reference above)
	if fans != wantFile {
		return
	}
	m, err := modelReadCRL(d, der)
	if err != nil {
		r.Violate("C06 driver-failed", err.Error(), nil)
		return
	}
	obs := m.answer
	if mm := c06CompareModel(ir, m, der); mm != "" {
		obs = "MISMATCH impl=" + ir.class + " " + mm
	}
	r.Op(m.opLine, obs)
	if idx < 6 {
		r.Sample(map[string]interface{}{"desc": c.Desc, "enc": enc, "bytes": len(file), "impl": ir.class, "model": truncate(m.answer, 300)})
	}
}

func c06Shape(c c06Case) string {
	s := "v2"
	if c.Spec.Version == 0 {
		s = "v1"
	}
	if c.Spec.Exts == nil {
		s += " noexts"
	}
	if len(c.Spec.Entries) == 0 {
		s += " noentries"
	}
	if c.PEM > 0 {
		s += " pem"
	}
	return s
}

func truncate(s string, n int) string {
	if len(s) > n {
		return s[:n] + "…"
	}
	return s
}

func bucket(n int) string {
	switch {
	case n == 0:
		return "0"
	case n <= 3:
		return "1-3"
	case n <= 20:
		return "4-20"
	case n <= 200:
		return "21-200"
	default:
		return ">200"
	}
}

func normExts(e []pkix.Extension) []pkix.Extension {
	if len(e) == 0 {
		return nil
	}
	return e
}

// c06CompareRef: implementation vs whole-document reference decoder. Returns "" when equal, else a short structural label.
// c06Reference: whole-document reference decoder = encoding/asn1 into pkix.CertificateList (handles v1 and v2);
// for v2 documents x509.ParseRevocationList must agree with it.
type c06Ref struct {
	RevokedCertificateEntries []pkix.RevokedCertificate
	RawIssuer                 []byte
	ThisUpdate, NextUpdate    time.Time
	Number                    *big.Int
	RawTBSRevocationList      []byte
	Signature                 []byte
}

func c06Reference(der []byte) (*c06Ref, error) {
	var cl pkix.CertificateList
	rest, err := asn1.Unmarshal(der, &cl)
	if err != nil {
		return nil, err
	}
	if len(rest) != 0 {
		return nil, fmt.Errorf("trailing data")
	}
	iss, err := asn1.Marshal(cl.TBSCertList.Issuer)
	if err != nil {
		return nil, err
	}
	r := &c06Ref{RevokedCertificateEntries: cl.TBSCertList.RevokedCertificates, RawIssuer: iss,
		ThisUpdate: cl.TBSCertList.ThisUpdate, NextUpdate: cl.TBSCertList.NextUpdate,
		RawTBSRevocationList: cl.TBSCertList.Raw, Signature: cl.SignatureValue.RightAlign()}
	for _, e := range cl.TBSCertList.Extensions {
		if e.Id.Equal(oidCRLNumber) {
			n := new(big.Int)
			if _, err := asn1.Unmarshal(e.Value, &n); err != nil {
				return nil, err
			}
			r.Number = n
		}
	}
	if cl.TBSCertList.Version >= 1 {
		x, err := x509.ParseRevocationList(der)
		if err == nil {
			if len(x.RevokedCertificateEntries) != len(r.RevokedCertificateEntries) || !bytes.Equal(x.RawTBSRevocationList, r.RawTBSRevocationList) {
				return nil, fmt.Errorf("reference decoders disagree")
			}
		}
	}
	return r, nil
}

func c06CompareRef(ir implRead, ref *c06Ref, tbs []byte, h crypto.Hash) string {
	p := ir.proc
	if p.meta == nil || !p.gotExt {
		return "missing-events"
	}
	if len(p.entries) != len(ref.RevokedCertificateEntries) {
		return fmt.Sprintf("entry-count impl=%d ref=%d", len(p.entries), len(ref.RevokedCertificateEntries))
	}
	for i, e := range p.entries {
		re := ref.RevokedCertificateEntries[i]
		if e.SerialNumber.Cmp(re.SerialNumber) != 0 {
			return "entry-serial"
		}
		if !e.RevocationTime.Equal(re.RevocationTime) {
			return "entry-time"
		}
		if !reflect.DeepEqual(normExts(e.Extensions), normExts(re.Extensions)) {
			return "entry-extensions"
		}
	}
	if implIss, err := asn1.Marshal(p.meta.Issuer); err != nil || !bytes.Equal(implIss, ref.RawIssuer) {
		return "issuer"
	}
	if !p.meta.ThisUpdate.Equal(ref.ThisUpdate) {
		return "thisUpdate"
	}
	if !(p.meta.NextUpdate.IsZero() && ref.NextUpdate.IsZero()) && !p.meta.NextUpdate.Equal(ref.NextUpdate) {
		return "nextUpdate"
	}
	if (p.extMeta.CRLNumber == nil) != (ref.Number == nil) || (ref.Number != nil && p.extMeta.CRLNumber.Cmp(ref.Number) != 0) {
		return "crlNumber"
	}
	if !bytes.Equal(ref.RawTBSRevocationList, tbs) {
		return "harness-tbs"
	}
	if !bytes.Equal(ir.result.CalculatedSignature, digestOf(h, ref.RawTBSRevocationList)) {
		return "digest"
	}
	if !bytes.Equal(ir.result.Signature.Bytes, ref.Signature) {
		return "signature-bits"
	}
	return ""
}

// c06CompareModel: implementation vs Lean model answer (frames decoded with the real library).
func c06CompareModel(ir implRead, m *modelRead, der []byte) string {
	if m.class != ir.class {
		return "class model=" + m.class
	}
	// entries emitted before success or failure
	var frames []rdQuery
	for _, q := range m.queries {
		if q.kind == "entry" {
			frames = append(frames, q)
		}
	}
	ins := m.fields["ins"]
	if ins != fmt.Sprint(len(ir.proc.entries)) {
		return fmt.Sprintf("insert-count model=%s impl=%d", ins, len(ir.proc.entries))
	}
	for i, e := range ir.proc.entries {
		if i >= len(frames) {
			return "entry-frames-short"
		}
		q := frames[i]
		v := new(pkix.RevokedCertificate)
		if _, err := asn1.Unmarshal(der[q.off:q.off+q.len], v); err != nil {
			return "entry-frame-undecodable"
		}
		if v.SerialNumber.Cmp(e.SerialNumber) != 0 || !v.RevocationTime.Equal(e.RevocationTime) || !reflect.DeepEqual(normExts(v.Extensions), normExts(e.Extensions)) {
			return fmt.Sprintf("entry-%d-differs", i)
		}
	}
	if ir.class != "ok" {
		return ""
	}
	// digest over the model's hash region, signature bits, CRL number
	off, ln, ok := m.pair("region")
	if !ok || off+ln > len(der) {
		return "region-missing"
	}
	h := hashByName(m.fields["hash"])
	if h == 0 || !bytes.Equal(digestOf(h, der[off:off+ln]), ir.result.CalculatedSignature) {
		return "digest-region"
	}
	so, sl, ok := m.pair("sig")
	if !ok || so+sl > len(der) || !bytes.Equal(der[so:so+sl], ir.result.Signature.Bytes) {
		return "signature-bits"
	}
	num := "-"
	if ir.proc.extMeta != nil && ir.proc.extMeta.CRLNumber != nil {
		num = ir.proc.extMeta.CRLNumber.String()
	}
	if m.fields["num"] != num {
		return "crlNumber model=" + m.fields["num"] + " impl=" + num
	}
	ne := "-"
	if ir.result.CRLExtensions != nil {
		ne = fmt.Sprint(len(*ir.result.CRLExtensions))
	}
	if m.fields["exts"] != ne {
		return "exts-count"
	}
	return ""
}
