package main

// C09 — fail closed: a storage failure during lookup is never reported as "not revoked".
// Faults are injected into the real stores (store level) and underneath a real, provisioned validator
// (repository level); the abstract fault/lookup sequence goes to the Lean `kv` stream as well.

import (
	"crypto/x509"
	"crypto/x509/pkix"
	"fmt"
	"math/big"
	"os"
	"path/filepath"
	"strings"
	"sync"
	"time"

	"github.com/gr33nbl00d/caddy-revocation-validator/core/asn1parser"
	"github.com/gr33nbl00d/caddy-revocation-validator/core/hashing"
	"github.com/gr33nbl00d/caddy-revocation-validator/crl/crlstore"
	"github.com/syndtr/goleveldb/leveldb/util"
)

func init() { register("C09", runC09) }

func runC09(r *Run) {
	r.rule = "fault x backend x {listed, unlisted serial}; store level: real MapStore/LevelDbStore with the database closed, an undecodable " +
		"record (empty, truncated, random, wrong type) under the looked-up key, the table file overwritten/truncated/bit-flipped/removed " +
		"(while open after a forced compaction, and across close+reopen); repository level: the same faults underneath a provisioned " +
		"validator (crl_only; CRL from crl_urls or from the certificate's CDP), the store dropped by a failed swap (real updateEntry), " +
		"Repository.Close racing handshakes, a refresh whose directory swap really fails; a case is non-trivial when a fault was injected"
	c09StoreLevel(r)
	c09RepoLevel(r)
	r.rule += "; several loaded CRLs with the fault on one of them (every position of the walk order is hit over repeated handshakes)"
	c09MultiEntry(r)
}

// c09MultiEntry: five configured CRLs are in force, the store of ONE of them fails at lookup. A certificate that no
// list names can only be called "not revoked" when every store answered: each handshake must be denied, whatever the
// order in which the lists are consulted (map iteration order differs per lookup: 24 handshakes per case).
func c09MultiEntry(r *Run) {
	ca := NewCA(CAOpts{CN: "C09 CA_multi", EC: true})
	origin := NewOrigin()
	defer origin.Close()
	caFile := writeFile(scratchDir("c09mca"), "ca.pem", certPEM(ca.Cert))
	type mc struct {
		Storage string `json:"storage"`
		Fault   string `json:"fault"`
		At      int    `json:"faulty_entry"`
	}
	var cases []mc
	reps := 1
	if r.Thorough() {
		reps = 6
	}
	for rep := 0; rep < reps; rep++ {
		for _, st := range []string{"memory", "disk"} {
			for _, f := range []string{"store-closed", "garbage-probe", "nil-store", "none"} {
				for at := 0; at < 5; at += 2 {
					cases = append(cases, mc{st, f, (at + rep) % 5})
				}
			}
		}
	}
	const n = 5
	parallel(len(cases), 12, func(idx int) {
		c := cases[idx]
		b := &opBuf{}
		defer func() { b.flush(r) }()
		cfg := VCfg{Mode: "crl_only", WorkDir: scratchDir("c09m"), Storage: c.Storage, TrustedSigners: []string{caFile}, UpdateInterval: "1h"}
		var listed []*Leaf
		for k := 0; k < n; k++ {
			l := ca.IssueLeaf(LeafOpts{})
			listed = append(listed, l)
			path := fmt.Sprintf("/c09m/%d/%d.crl", idx, k)
			origin.SetBytes(path, ca.MakeCRL(CRLOpts{Serials: []*big.Int{l.Cert.SerialNumber}, Number: int64(k + 1)}))
			cfg.CRLUrls = append(cfg.CRLUrls, origin.URL(path))
		}
		probe := ca.IssueLeaf(LeafOpts{})
		v, err := Provision(cfg)
		if err != nil {
			r.Violate("C09 provision-failed", fmt.Sprintf("multi %+v: %v", c, err), c)
			return
		}
		defer v.Close()
		// let the ticker goroutine's initial run pass (a forced run stamps the finish time, the queued one then skips): a refresh
		// arriving later would replace the store the fault is injected into
		v.V.VerifCRLChecker().VerifUpdateCRLs(true)
		chainsOf := func(l *Leaf) [][]*x509.Certificate { return [][]*x509.Certificate{{l.Cert, ca.Cert}} }
		repo := v.V.VerifCRLChecker().VerifRepository()
		ents := repo.VerifEntries()
		iss, err := asn1parser.ParseIssuerRDNSequence(probe.Cert)
		must(err)
		issHex := hexs([]byte(iss.String()))
		kind := map[string]string{"memory": "map", "disk": "ldb"}[c.Storage]
		if len(ents) != n {
			r.Violate("C09 harness-unexpected-repository", fmt.Sprintf("multi %+v: %d entries", c, len(ents)), c)
			return
		}
		// which entry holds which list
		holder := make([]int, n) // list k -> entry index
		b.add("kv reset", "ok")
		var eids []string
		for ei, e := range ents {
			if e.Store == nil || !e.Loaded {
				r.Violate("C09 harness-unexpected-repository", fmt.Sprintf("multi %+v: entry %d not loaded", c, ei), c)
				return
			}
			sid, eid := fmt.Sprintf("s%d", ei), fmt.Sprintf("e%d", ei)
			if kind == "map" {
				b.add("kv new "+sid+" map", "ok")
			} else {
				b.add("kv new "+sid+" ldb live"+fmt.Sprint(ei)+" false", "ok")
			}
			for k, l := range listed {
				if lobs, _ := lookupObs(e.Store, iss, l.Cert.SerialNumber); strings.HasPrefix(lobs, "revoked ") {
					holder[k] = ei
					b.add(fmt.Sprintf("kv ins %s %s %s %s", sid, issHex, l.Cert.SerialNumber, strings.TrimPrefix(lobs, "revoked ")), "ok")
				}
			}
			b.add("kv entry "+eid+" "+sid+" true", "ok")
			eids = append(eids, eid)
		}
		fe := ents[holder[c.At]] // the entry holding list number c.At
		fsid, feid := fmt.Sprintf("s%d", holder[c.At]), fmt.Sprintf("e%d", holder[c.At])
		mustReject := false
		switch c.Fault {
		case "store-closed":
			fe.Store.Close()
			b.add("kv close "+fsid, "ok")
			mustReject = kind == "ldb"
		case "garbage-probe":
			raw := []byte{0x30, 0x03, 0x02, 0x01}
			markBadEntry(b, raw)
			must(rawPut(fe.Store, iss.String()+"_"+probe.Cert.SerialNumber.String(), raw))
			b.add(fmt.Sprintf("kv ins %s %s %s %s", fsid, issHex, probe.Cert.SerialNumber, hexs(raw)), "ok")
			mustReject = true
		case "nil-store":
			var wrong crlstore.CRLStore
			if kind == "map" {
				wrong, err = storeFactory("ldb", scratchDir("c09mw")).CreateStore("w", true)
			} else {
				wrong, err = storeFactory("map", "").CreateStore("w", true)
			}
			must(err)
			if e := repo.VerifUpdateEntry(fe.Identifier, wrong); e == nil {
				r.Violate("C09 harness-swap-did-not-fail", fmt.Sprint(c), c)
				return
			}
			wrong.Close()
			b.add("kv entry "+feid+" nil true", "ok")
			mustReject = true
		}
		accepted, rounds := 0, 24
		first := ""
		for i := 0; i < rounds; i++ {
			vd, _ := v.Verify(chainsOf(probe))
			if i == 0 {
				first = vd
			}
			if vd != "reject" {
				accepted++
			}
			if mustReject && vd != "reject" {
				first = vd
			}
		}
		b.add(fmt.Sprintf("kv verify crl_only good false %s %s %s", issHex, probe.Cert.SerialNumber, strings.Join(eids, " ")), first)
		r.Count(fmt.Sprintf("multi:%s:%s:accepted=%d/%d", c.Storage, c.Fault, accepted, rounds))
		r.Eval(fmt.Sprintf("multi/%d/%+v", idx, c), c.Fault != "none")
		if mustReject && accepted > 0 {
			r.Violate("C09 store-fault-on-one-of-several-crls-reported-not-revoked backend="+kind+" fault="+c.Fault,
				fmt.Sprintf("%+v: %d CRLs in force, the store of one fails at lookup; %d of %d handshakes with a certificate no list names were accepted", c, n, accepted, rounds), c)
		}
		if !mustReject && accepted != rounds {
			r.Violate("C09 healthy-verdict-wrong", fmt.Sprintf("multi %+v: unlisted certificate rejected %d of %d times without a failing store", c, rounds-accepted, rounds), c)
		}
		// a listed certificate stays rejected whatever fails elsewhere
		other := listed[(c.At+1)%n]
		if vd, _ := v.Verify(chainsOf(other)); vd != "reject" {
			r.Violate("C09 healthy-verdict-wrong", fmt.Sprintf("multi %+v: certificate listed in a healthy store -> %s", c, vd), c)
		}
	})
}

// rawPut writes bytes under the hashed key string, bypassing the serializer.
func rawPut(st crlstore.CRLStore, key string, raw []byte) error {
	switch s := st.(type) {
	case *crlstore.MapStore:
		s.Map[string(hashing.Sum64(key))] = raw
		return nil
	case *crlstore.LevelDbStore:
		return s.Db.Put(hashing.Sum64(key), raw, nil)
	}
	return fmt.Errorf("unknown store type %T", st)
}

func garbageVariants(valid []byte, rng func(int) int) map[string][]byte {
	rnd := make([]byte, 24)
	for i := range rnd {
		rnd[i] = byte(rng(256))
	}
	return map[string][]byte{
		"empty":     {},
		"truncated": valid[:len(valid)/2],
		"onebyte":   valid[:1],
		"random":    rnd,
		"wrongtype": {0x04, 0x03, 0x01, 0x02, 0x03},                               // an OCTET STRING
		"badlength": append([]byte{0x30, 0x84, 0xff, 0xff, 0xff, 0xff}, valid...), // length beyond the data
		"trailing":  append(append([]byte{}, valid...), 0xde, 0xad),               // valid record followed by junk: the deserializer accepts it
	}
}

// corruptTables damages every table file of a LevelDB directory; returns the number of files touched.
func corruptTables(dir, how string, rng func(int) int) int {
	n := 0
	es, _ := os.ReadDir(dir)
	for _, e := range es {
		if !strings.HasSuffix(e.Name(), ".ldb") {
			continue
		}
		p := filepath.Join(dir, e.Name())
		data, err := os.ReadFile(p)
		if err != nil {
			continue
		}
		n++
		switch how {
		case "overwrite":
			for i := range data {
				data[i] = byte(rng(256))
			}
			must(os.WriteFile(p, data, 0600))
		case "truncate":
			must(os.WriteFile(p, data[:len(data)/2], 0600))
		case "bitflip":
			data[len(data)/8] ^= 0x10 // inside the (only) data block
			must(os.WriteFile(p, data, 0600))
		case "remove":
			must(os.Remove(p))
		}
	}
	return n
}

type c09StoreCase struct {
	Backend string `json:"backend"`
	Fault   string `json:"fault"`
	Target  string `json:"target"` // which key carries the garbage: listed | unlisted | -
}

func c09StoreLevel(r *Run) {
	var cases []c09StoreCase
	garb := []string{"empty", "truncated", "onebyte", "random", "wrongtype", "badlength", "trailing"}
	for _, be := range []string{"map", "ldb"} {
		cases = append(cases, c09StoreCase{be, "none", "-"}, c09StoreCase{be, "closed", "-"}, c09StoreCase{be, "consumed-by-update", "-"})
		for _, g := range garb {
			cases = append(cases, c09StoreCase{be, "garbage:" + g, "listed"}, c09StoreCase{be, "garbage:" + g, "unlisted"})
		}
	}
	for _, how := range []string{"overwrite", "truncate", "bitflip", "remove"} {
		cases = append(cases, c09StoreCase{"ldb", "table-" + how + "-open", "-"}, c09StoreCase{"ldb", "table-" + how + "-reopen", "-"})
	}
	reps := 6
	if r.Thorough() {
		reps = 60
	}
	type job struct {
		c    c09StoreCase
		seed int64
	}
	var jobs []job
	for k := 0; k < reps; k++ {
		for _, c := range cases {
			jobs = append(jobs, job{c, r.Rng.Int63()})
		}
	}
	base := scratchDir("c09store")
	defer os.RemoveAll(base)
	issuers := issuerShapes()
	serials := serialShapes()
	parallel(len(jobs), 16, func(ji int) {
		c := jobs[ji].c
		rng := newRng(jobs[ji].seed)
		b := &opBuf{}
		defer func() { b.flush(r) }()
		b.add("kv reset", "ok")
		dir := fmt.Sprintf("%s/%d", base, ji)
		must(os.MkdirAll(dir, 0700))
		defer os.RemoveAll(dir)
		iss := issuers[rng.Intn(len(issuers))]
		if _, err := ser.SerializeRevokedCert(&pkix.RevokedCertificate{SerialNumber: big.NewInt(1), RevocationTime: time.Unix(0, 0)}); err != nil {
			panic(err)
		}
		listed := serials[rng.Intn(len(serials))]
		// the unlisted probe: a near miss (sign, +1, +2, ...) whose hashed key lies strictly inside the range of the stored
		// hashed keys, so that the database has to read the (damaged) table to answer and cannot decide from the key range alone
		var storedKeys []string
		storedKeys = append(storedKeys, iss.String()+"_"+listed.String())
		for k := 0; k < 3; k++ {
			storedKeys = append(storedKeys, iss.String()+"_"+new(big.Int).Add(listed, big.NewInt(int64(100+k))).String())
		}
		cands := []*big.Int{new(big.Int).Neg(listed)}
		for k := int64(1); k < 60; k++ {
			cands = append(cands, new(big.Int).Add(listed, big.NewInt(k)))
		}
		var unlisted *big.Int
		for _, cnd := range cands {
			if cnd.Cmp(listed) != 0 && hashInRange(iss.String()+"_"+cnd.String(), storedKeys) {
				unlisted = cnd
				break
			}
		}
		unlistedInRange := unlisted != nil
		if unlisted == nil {
			unlisted = new(big.Int).Add(listed, big.NewInt(1))
			r.Count("store:unlisted-probe-outside-key-range")
		}
		f := storeFactory(c.Backend, dir)
		st := newKvStore(b, "s", c.Backend, f, "live", false)
		if st == nil {
			r.Violate("C09 store-create-failed", fmt.Sprint(c), c)
			return
		}
		entry := &pkix.RevokedCertificate{SerialNumber: listed, RevocationTime: time.Date(2024, 1, 2, 3, 4, 5, 0, time.UTC)}
		valid, _ := ser.SerializeRevokedCert(entry)
		st.ins(b, &iss, entry)
		for k := 0; k < 3; k++ {
			o := new(big.Int).Add(listed, big.NewInt(int64(100+k)))
			st.ins(b, &iss, &pkix.RevokedCertificate{SerialNumber: o, RevocationTime: entry.RevocationTime})
		}
		faultEffective := map[string]bool{} // which probes must fail closed
		switch {
		case c.Fault == "none":
		case c.Fault == "closed":
			st.close(b)
			if c.Backend == "ldb" {
				faultEffective["listed"], faultEffective["unlisted"] = true, true
			}
		case c.Fault == "consumed-by-update":
			// the store is handed to another store's Update and thereby consumed (closed); nobody may trust it afterwards
			live := newKvStore(b, "l", c.Backend, f, "other", false)
			if live == nil {
				return
			}
			live.replace(b, st)
			defer live.st.Close()
			if c.Backend == "ldb" {
				faultEffective["listed"], faultEffective["unlisted"] = true, true
			}
		case strings.HasPrefix(c.Fault, "garbage:"):
			raw := garbageVariants(valid, rng.Intn)[strings.TrimPrefix(c.Fault, "garbage:")]
			s := listed
			if c.Target == "unlisted" {
				s = unlisted
			}
			bad := markBadEntry(b, raw)
			err := rawPut(st.st, iss.String()+"_"+s.String(), raw)
			shown := raw
			if e, derr := ser.DeserializeRevokedCert(raw); derr == nil {
				// the deserializer accepts it (ignoring trailing bytes): the model's opaque value is what it decodes to
				shown, _ = ser.SerializeRevokedCert(e)
			}
			b.add(fmt.Sprintf("kv ins s %s %s %s", hexs([]byte(iss.String())), s.String(), hexs(shown)), wobs(err))
			if bad {
				faultEffective[c.Target] = true
			}
		case strings.HasPrefix(c.Fault, "table-"):
			parts := strings.Split(c.Fault, "-")
			how, when := parts[1], parts[2]
			ldb := st.st.(*crlstore.LevelDbStore)
			must(ldb.Db.CompactRange(util.Range{}))
			if when == "reopen" {
				ldb.Db.Close()
			}
			if n := corruptTables(ldb.LevelDBPath, how, rng.Intn); n == 0 {
				r.Violate("C09 harness-no-table-file", c.Fault, c)
				return
			}
			if when == "reopen" {
				ns, err := f.CreateStore("live", false)
				if err != nil {
					// the database refuses to open: no lookup can take place, nothing is reported as not revoked
					r.Count("store:" + c.Fault + ":open-refused")
					r.Eval(fmt.Sprintf("store/%d", ji), true)
					return
				}
				st.st = ns
			}
			b.add("kv fault s corrupt", "ok")
			faultEffective["listed"], faultEffective["unlisted"] = true, true
		}
		lo, _ := st.get(b, &iss, listed)
		probes := []string{"listed", "unlisted"}
		uo := "-"
		if strings.HasPrefix(c.Fault, "table-") && !unlistedInRange {
			// the database may answer such a lookup from the table's key range without touching the damaged file: no failure, no claim
			probes = probes[:1]
		} else {
			uo, _ = st.get(b, &iss, unlisted)
		}
		obs := map[string]string{"listed": lo, "unlisted": uo}
		for _, which := range probes {
			o := strings.Fields(obs[which])[0]
			r.Count("store:" + c.Backend + ":" + strings.Split(c.Fault, ":")[0] + ":" + o)
			if faultEffective[which] {
				if o != "error" {
					sig := "C09 store-fault-reported-not-revoked"
					if o == "revoked" {
						sig = "C09 store-fault-not-reported"
					}
					r.Violate(sig+" backend="+c.Backend+" fault="+strings.Split(c.Fault, ":")[0], fmt.Sprintf("%+v issuer=%q %s serial -> %.60s", c, iss.String(), which, obs[which]), c)
				}
			} else {
				want := map[string]string{"listed": "revoked", "unlisted": "absent"}[which]
				if c.Fault == "consumed-by-update" && c.Backend == "map" {
					want = "absent" // the consumed MapStore has a nil map; it is never consulted again by the repository
				}
				if strings.HasSuffix(c.Fault, "trailing") && c.Target == which {
					want = "revoked"
				}
				if o != want {
					r.Violate("C09 healthy-lookup-wrong backend="+c.Backend, fmt.Sprintf("%+v %s serial -> %.60s, expected %s", c, which, obs[which], want), c)
				}
			}
		}
		func() {
			defer func() { recover() }()
			st.st.Close()
		}()
		r.Eval(fmt.Sprintf("store/%d", ji), c.Fault != "none")
		if ji < 3 {
			r.Sample(map[string]interface{}{"level": "store", "case": c, "listed": lo[:min(len(lo), 40)], "unlisted": uo})
		}
	})
}

// hashInRange reports whether Sum64(key) lies strictly between the smallest and the largest Sum64 of the stored key strings
// (LevelDB compares the 8-byte keys bytewise).
func hashInRange(key string, stored []string) bool {
	h := string(hashing.Sum64(key))
	lo, hi := "", ""
	for i, k := range stored {
		x := string(hashing.Sum64(k))
		if i == 0 || x < lo {
			lo = x
		}
		if i == 0 || x > hi {
			hi = x
		}
	}
	return lo < h && h < hi
}

// ---- repository level --------------------------------------------------------------------------------

type c09RepoCase struct {
	Storage string `json:"storage"` // memory | disk
	Source  string `json:"source"`  // cfg (crl_urls, certificate without CDP) | cdp
	Fault   string `json:"fault"`
}

func c09RepoLevel(r *Run) {
	ca := NewCA(CAOpts{CN: "C09 CA_1", EC: true})
	origin := NewOrigin()
	defer origin.Close()
	caFile := writeFile(scratchDir("c09ca"), "ca.pem", certPEM(ca.Cert))
	var cases []c09RepoCase
	for _, st := range []string{"memory", "disk"} {
		for _, src := range []string{"cfg", "cdp"} {
			for _, f := range []string{"none", "store-closed", "garbage-listed", "garbage-unlisted", "nil-store", "repo-closed", "repo-closed-concurrent"} {
				cases = append(cases, c09RepoCase{st, src, f})
			}
			if st == "disk" {
				for _, f := range []string{"table-overwrite-open", "table-bitflip-open", "table-remove-open"} {
					cases = append(cases, c09RepoCase{st, src, f})
				}
			}
		}
	}
	// a refresh whose directory swap really fails (costs the store's 5 x 1 s retry): one per source, in parallel with the rest
	cases = append(cases, c09RepoCase{"disk", "cfg", "failed-swap"}, c09RepoCase{"disk", "cdp", "failed-swap"})
	if r.Thorough() {
		cases = append(cases, cases...)
		cases = append(cases, cases...)
	}
	parallel(len(cases), 16, func(i int) { c09RunRepoCase(r, ca, origin, caFile, i, cases[i]) })
}

func c09RunRepoCase(r *Run, ca *CA, origin *Origin, caFile string, idx int, c c09RepoCase) {
	b := &opBuf{}
	defer func() { b.flush(r) }()
	crlPath := fmt.Sprintf("/c09/%d.crl", idx)
	lo := LeafOpts{}
	if c.Source == "cdp" {
		lo.CDP = []string{origin.URL(crlPath)}
	}
	listed := ca.IssueLeaf(lo)
	origin.SetBytes(crlPath, ca.MakeCRL(CRLOpts{Serials: []*big.Int{big.NewInt(5), listed.Cert.SerialNumber, big.NewInt(7)}}))
	cfg := VCfg{Mode: "crl_only", WorkDir: scratchDir("c09"), Storage: c.Storage, TrustedSigners: []string{caFile}, UpdateInterval: "1h"}
	if c.Source == "cfg" {
		cfg.CRLUrls = []string{origin.URL(crlPath)}
	}
	v, err := Provision(cfg)
	if err != nil {
		r.Violate("C09 provision-failed", fmt.Sprintf("%+v: %v", c, err), c)
		return
	}
	defer v.Close()
	v.V.VerifCRLChecker().VerifUpdateCRLs(true) // the initial run of the ticker goroutine must not arrive after the fault was injected
	chainsOf := func(l *Leaf) [][]*x509.Certificate { return [][]*x509.Certificate{{l.Cert, ca.Cert}} }
	v0l, _ := v.Verify(chainsOf(listed))
	// the unlisted certificate: on disk its hashed key must lie strictly inside the key range of the table, so that the
	// database has to read the (damaged) table to answer
	unlistedSerial := nextSerial()
	if c.Storage == "disk" {
		if es := v.V.VerifCRLChecker().VerifRepository().VerifEntries(); len(es) == 1 && es[0].Store != nil {
			if ldb, ok := es[0].Store.(*crlstore.LevelDbStore); ok {
				it := ldb.Db.NewIterator(nil, nil)
				var first, last string
				if it.First() {
					first = string(it.Key())
				}
				if it.Last() {
					last = string(it.Key())
				}
				it.Release()
				issS, _ := asn1parser.ParseIssuerRDNSequence(listed.Cert)
				for k := 0; k < 200; k++ {
					h := string(hashing.Sum64(issS.String() + "_" + unlistedSerial.String()))
					if first < h && h < last {
						break
					}
					unlistedSerial = nextSerial()
				}
			}
		}
	}
	lo.Serial = unlistedSerial
	unlisted := ca.IssueLeaf(lo)
	v0u, _ := v.Verify(chainsOf(unlisted))
	if v0l != "reject" || v0u != "accept" {
		r.Violate("C09 healthy-verdict-wrong", fmt.Sprintf("%+v: listed %s unlisted %s before any fault", c, v0l, v0u), c)
		return
	}
	repo := v.V.VerifCRLChecker().VerifRepository()
	ents := repo.VerifEntries()
	if len(ents) != 1 || ents[0].Store == nil || !ents[0].Loaded {
		r.Violate("C09 harness-unexpected-repository", fmt.Sprintf("%+v: %d entries", c, len(ents)), c)
		return
	}
	id, store := ents[0].Identifier, ents[0].Store
	iss, err := asn1parser.ParseIssuerRDNSequence(listed.Cert)
	must(err)
	// abstract image for the model: one loaded entry whose store lists the serial
	kind := map[string]string{"memory": "map", "disk": "ldb"}[c.Storage]
	b.add("kv reset", "ok")
	if kind == "map" {
		b.add("kv new s map", "ok")
	} else {
		b.add("kv new s ldb live false", "ok")
	}
	lobs, _ := lookupObs(store, iss, listed.Cert.SerialNumber)
	if !strings.HasPrefix(lobs, "revoked ") {
		r.Violate("C09 healthy-lookup-wrong backend="+kind, fmt.Sprintf("%+v: %s", c, lobs), c)
		return
	}
	issHex := hexs([]byte(iss.String()))
	b.add(fmt.Sprintf("kv ins s %s %s %s", issHex, listed.Cert.SerialNumber, strings.TrimPrefix(lobs, "revoked ")), "ok")
	b.add("kv entry e s true", "ok")

	mustReject := map[string]bool{}  // a store access fails for this probe: the handshake must be denied
	expectSig := map[string]string{} // signature to use if it is not
	modelVerify := true              // whether the abstract state after the fault is expressible for the model
	var concurrent []string          // verdicts of handshakes racing the fault
	switch c.Fault {
	case "none":
	case "store-closed":
		store.Close()
		b.add("kv close s", "ok")
		if kind == "ldb" {
			mustReject["listed"], mustReject["unlisted"] = true, true
		}
	case "garbage-listed", "garbage-unlisted":
		raw := []byte{0x30, 0x03, 0x02, 0x01} // truncated SEQUENCE
		leaf := listed
		if c.Fault == "garbage-unlisted" {
			leaf = unlisted
		}
		markBadEntry(b, raw)
		must(rawPut(store, iss.String()+"_"+leaf.Cert.SerialNumber.String(), raw))
		b.add(fmt.Sprintf("kv ins s %s %s %s", issHex, leaf.Cert.SerialNumber, hexs(raw)), "ok")
		mustReject[strings.TrimPrefix(c.Fault, "garbage-")] = true
	case "table-overwrite-open", "table-bitflip-open", "table-remove-open":
		ldb := store.(*crlstore.LevelDbStore)
		must(ldb.Db.CompactRange(util.Range{}))
		how := strings.Split(c.Fault, "-")[1]
		if corruptTables(ldb.LevelDBPath, how, r.rngIntn) == 0 {
			r.Violate("C09 harness-no-table-file", c.Fault, c)
			return
		}
		b.add("kv fault s corrupt", "ok")
		mustReject["listed"], mustReject["unlisted"] = true, true
	case "nil-store":
		// the swap step of a refresh fails (real updateEntry): the entry stays, its store is gone
		var wrong crlstore.CRLStore
		if kind == "map" {
			wrong, err = storeFactory("ldb", scratchDir("c09w")).CreateStore("w", true)
		} else {
			wrong, err = storeFactory("map", "").CreateStore("w", true)
		}
		must(err)
		if e := repo.VerifUpdateEntry(id, wrong); e == nil {
			r.Violate("C09 harness-swap-did-not-fail", fmt.Sprint(c), c)
			return
		}
		wrong.Close()
		b.add("kv entry e nil true", "ok")
		mustReject["listed"], mustReject["unlisted"] = true, true
	case "repo-closed":
		repo.Close()
		b.add("kv repoclose", "ok")
		// a second Close (Cleanup called again) must be harmless
		b.add("kv repoclose", guarded(func() string { repo.Close(); return "ok" }))
		expectSig["listed"] = "C09 lookup-after-repository-close-reports-not-revoked"
		expectSig["unlisted"] = "C09 lookup-after-repository-close-reports-not-revoked"
		mustReject["listed"], mustReject["unlisted"] = true, true
	case "repo-closed-concurrent":
		// handshakes race Repository.Close (what Cleanup does on shutdown / config reload)
		var wg sync.WaitGroup
		var mu sync.Mutex
		stop := make(chan struct{})
		for g := 0; g < 4; g++ {
			wg.Add(1)
			go func() {
				defer wg.Done()
				for {
					select {
					case <-stop:
						return
					default:
					}
					vd, _ := v.Verify(chainsOf(listed))
					mu.Lock()
					concurrent = append(concurrent, vd)
					mu.Unlock()
				}
			}()
		}
		time.Sleep(5 * time.Millisecond)
		repo.Close()
		time.Sleep(5 * time.Millisecond)
		close(stop)
		wg.Wait()
		b.add("kv repoclose", "ok")
		expectSig["listed"] = "C09 lookup-after-repository-close-reports-not-revoked"
		expectSig["unlisted"] = "C09 lookup-after-repository-close-reports-not-revoked"
		mustReject["listed"], mustReject["unlisted"] = true, true
	case "failed-swap":
		// remove the live directory underneath the open database, then refresh: the rename in LevelDbStore.Update fails
		ldb := store.(*crlstore.LevelDbStore)
		must(os.RemoveAll(ldb.LevelDBPath))
		uerr := repo.VerifUpdateCRL(id)
		if uerr == nil {
			r.Note("failed-swap: the refresh unexpectedly succeeded")
		}
		b.add("kv entry e none", "ok") // updateCrlEntry drops the entry after the failed swap
		if c.Source == "cdp" {
			modelVerify = false
		}
		expectSig["listed"] = "C09 failed-swap-drops-crl-lookup-reports-not-revoked"
		mustReject["listed"] = true
	}
	vl, _ := v.Verify(chainsOf(listed))
	vu, _ := v.Verify(chainsOf(unlisted))
	if modelVerify {
		b.add(fmt.Sprintf("kv verify crl_only good false %s %s e", issHex, listed.Cert.SerialNumber), vl)
		b.add(fmt.Sprintf("kv verify crl_only good false %s %s e", issHex, unlisted.Cert.SerialNumber), vu)
	}
	verdicts := map[string]string{"listed": vl, "unlisted": vu}
	for _, vd := range concurrent {
		r.Count("repo:concurrent:" + vd)
		if vd != "reject" && verdicts["listed"] == "reject" {
			verdicts["listed"] = vd // any accepted racing handshake counts
		}
	}
	for _, which := range []string{"listed", "unlisted"} {
		vd := verdicts[which]
		r.Count("repo:" + c.Storage + ":" + c.Source + ":" + c.Fault + ":" + which + ":" + vd)
		if vd == "panic" {
			r.Violate("C09 lookup-panics fault="+c.Fault+" backend="+kind, fmt.Sprintf("%+v %s", c, which), c)
			continue
		}
		if mustReject[which] && vd != "reject" {
			sig := expectSig[which]
			if sig == "" {
				sig = "C09 store-fault-reported-not-revoked backend=" + kind + " fault=" + c.Fault
			}
			r.Violate(sig, fmt.Sprintf("%+v: handshake with the %s certificate (serial %s) -> %s", c, which, map[string]*Leaf{"listed": listed, "unlisted": unlisted}[which].Cert.SerialNumber, vd), c)
		}
		if !mustReject[which] {
			want := map[string]string{"listed": "reject", "unlisted": "accept"}[which]
			if vd != want {
				r.Violate("C09 healthy-verdict-wrong", fmt.Sprintf("%+v: %s -> %s", c, which, vd), c)
			}
		}
	}
	r.Eval(fmt.Sprintf("repo/%d/%+v", idx, c), c.Fault != "none")
	if idx%9 == 1 {
		r.Sample(map[string]interface{}{"level": "repository", "case": c, "listed": vl, "unlisted": vu})
	}
}
