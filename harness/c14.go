package main

// C14 — OCSP cache soundness. The real checker with small default durations and real sleeps (read rates above and
// below the lifetime, responder flipping good → revoked), certificates of different issuers sharing subject and serial,
// issuers sharing a name, several validator instances on the process-global table, Cleanup of one instance, zero
// duration, failed queries, and the lifetime arithmetic of calculateEvictionTime through the export shim.

import (
	"crypto/x509"
	"crypto/x509/pkix"
	"encoding/asn1"
	"fmt"
	"math/big"
	"time"

	ocspchk "github.com/gr33nbl00d/caddy-revocation-validator/ocsp"
	"golang.org/x/crypto/ocsp"
)

func init() { register("C14", runC14) }

type c14Env struct {
	r    *Run
	abs  *AbsCtx
	rsp  *Responder
	vals map[string]*Validator
}

type c14Op struct{ op, obs string }

func (e *c14Env) val(strict bool, dur string) *Validator {
	k := fmt.Sprintf("%v/%s", strict, dur)
	if v, ok := e.vals[k]; ok {
		return v
	}
	panic("validator " + k + " not provisioned")
}

func durMs(d string) int64 {
	if d == "" {
		return 0
	}
	x, err := time.ParseDuration(d)
	must(err)
	return x.Milliseconds()
}

// look performs one observed lookup and returns the op pair (not yet recorded).
func (e *c14Env) look(v *Validator, strict bool, dur string, leaf *x509.Certificate, chains [][]*x509.Certificate, srv OSrv, pool []*x509.Certificate, nuMs int64) (LookObs, c14Op) {
	o := observeLookup(e.abs, v.V.VerifOCSPChecker(), e.rsp, leaf, chains, []OSrv{srv}, pool, durMs(dur), nuMs)
	op := fmt.Sprintf("ocsp look %s %d %d %s %s %s", b01(strict), durMs(dur), o.T0, e.abs.CertField(leaf), e.abs.ChainsField(chains, nil), srv.field(e.abs))
	return o, c14Op{op, o.line()}
}

func (e *c14Env) emit(ops []c14Op) {
	for _, p := range ops {
		e.r.Op(p.op, p.obs)
	}
}

func (e *c14Env) setStatus(ca *CA, path string, leaf *x509.Certificate, status int, nu time.Time) (OSrv, []byte) {
	body := ca.OCSPResponse(OCSPOpts{Status: status, Serial: leaf.SerialNumber, NextUpdate: nu})
	e.rsp.SetFixed(path, RespScript{Kind: "bytes", Body: body})
	return OSrv{URL: e.rsp.URL(path), Path: path, Observable: true, Beh: map[string]string{"*": e.abs.Abstract(body, []*x509.Certificate{ca.Cert})}}, body
}

func (e *c14Env) setDown(path string) OSrv {
	e.rsp.SetFixed(path, RespScript{Kind: "drop"})
	return OSrv{URL: e.rsp.URL(path), Path: path, Observable: true, Beh: map[string]string{"*": "E"}}
}

func runC14(r *Run) {
	r.rule = "histories on the real checker: (A) default 200/300 ms, entry read every 40-70 ms across its lifetime while the responder flips good->revoked, " +
		"and read only after the lifetime; (B) two CAs issuing the same subject+serial; (C) two CAs with the same name; (D) two validator instances sharing the " +
		"table, Cleanup of a third; (E) nextUpdate in the future / past / absent x default {0, 250 ms, 1 h} through calculateEvictionTime and through lookups; " +
		"(F) zero default; (H) random Add/Value/Delete/Exists/Count/Flush sequences and expiry waits on a real cache2go table vs the table model; (G) failed queries {garbage, HTTP 500, dropped connection, other serial, stranger-signed} followed by an authentic revoked. " +
		"Non-trivial = a history with at least one lookup after a store"
	e := &c14Env{r: r, abs: NewAbsCtx(), rsp: NewResponder(), vals: map[string]*Validator{}}
	defer e.rsp.Close()
	for _, strict := range []bool{true, false} {
		for _, d := range []string{"", "200ms", "300ms", "250ms", "1h"} {
			v, err := Provision(VCfg{Mode: "ocsp_only", NoCRLConfig: true, OCSPStrict: strict, OCSPCacheDur: d})
			must(err)
			e.vals[fmt.Sprintf("%v/%s", strict, d)] = v
		}
	}
	ca := NewCA(CAOpts{CN: "C14 CA", EC: true})

	// ---- (E1) lifetime arithmetic through the shim ----------------------------------------------
	e.evictionArithmetic()

	// ---- (A) sliding expiry vs absolute lifetime --------------------------------------------------
	type slide struct {
		dur      string
		interval int
		readers  bool
	}
	var slides []slide
	reps := 2
	if r.Thorough() {
		reps = 12
	}
	for k := 0; k < reps; k++ {
		for _, d := range []string{"200ms", "300ms"} {
			for _, iv := range []int{40, 70} {
				slides = append(slides, slide{d, iv, true})
			}
			slides = append(slides, slide{d, 0, false})
		}
	}
	parallel(len(slides), 8, func(i int) {
		s := slides[i]
		for attempt := 0; attempt < 4; attempt++ {
			if e.slidingScenario(ca, fmt.Sprintf("/c14/a/%d/%d", i, attempt), s.dur, s.interval, s.readers) {
				return
			}
			r.Count("timing-inconclusive-retry")
		}
		r.Note(fmt.Sprintf("sliding scenario %d (%s, every %d ms) stayed inconclusive after 4 attempts (machine too loaded); not compared", i, s.dur, s.interval))
	})

	// ---- (B) (C) (E2) (F) (G): independent histories, in parallel ----------------------------------
	var jobs []func()
	n := 6
	if r.Thorough() {
		n = 60
	}
	for k := 0; k < n; k++ {
		k := k
		jobs = append(jobs, func() { e.twoIssuers(k) })
		jobs = append(jobs, func() { e.sameIssuerName(k) })
		for shape := 0; shape < 3; shape++ {
			shape := shape
			jobs = append(jobs, func() { e.twoIssuersRDN(k, shape) })
		}
		jobs = append(jobs, func() { e.nextUpdateLookups(ca, k) })
		jobs = append(jobs, func() { e.zeroDefault(ca, k) })
		for _, f := range []string{"garbage", "http500", "drop", "wrong", "stranger"} {
			for _, strict := range []bool{true, false} {
				f, strict := f, strict
				jobs = append(jobs, func() { e.failedThenRevoked(ca, k, f, strict) })
			}
		}
	}
	parallel(len(jobs), 16, func(i int) { jobs[i]() })

	// ---- (D) instances: sequential, because Cleanup flushes the table of every instance ------------
	e.instances(ca)
	for _, v := range e.vals {
		v.Close()
	}

	// ---- (H) the cache2go table itself against the table model (stream `ct`) -----------------------
	c14TableStream(r)
}

// evictionArithmetic diffs calculateEvictionTime (real code, export shim) against the model's `evict`.
func (e *c14Env) evictionArithmetic() {
	r := e.r
	skew := ocspchk.VerifMaxClockSkew.Milliseconds()
	offsets := []time.Duration{-400 * 24 * time.Hour, -time.Hour, -2 * time.Second, 2 * time.Second, time.Minute, time.Hour, 7 * 24 * time.Hour, 400 * 24 * time.Hour}
	for _, d := range []string{"", "250ms", "1h"} {
		ch := e.val(true, d).V.VerifOCSPChecker()
		// absent nextUpdate
		got := ch.VerifCalculateEvictionTime(&ocsp.Response{}).Milliseconds()
		now := e.abs.Ms(time.Now())
		r.Op(fmt.Sprintf("ocsp evict %d %d n", durMs(d), now), fmt.Sprint(got))
		r.Eval("evict/absent/"+d, true)
		if got != durMs(d) {
			r.Violate("C14 lifetime-arithmetic", fmt.Sprintf("absent nextUpdate, default %s: life %d ms", d, got), nil)
		}
		for _, off := range offsets {
			w0 := time.Now()
			nu := w0.Add(off).Truncate(time.Second)
			got := ch.VerifCalculateEvictionTime(&ocsp.Response{NextUpdate: nu}).Milliseconds()
			w1 := time.Now()
			t0, nuMs := e.abs.Ms(w0), e.abs.Ms(nu)
			obs := fmt.Sprint(got)
			var want int64
			if nu.After(w1) {
				want = nu.Sub(e.abs.Epoch).Milliseconds() - t0 + skew
				if dlt := got - want; dlt <= 2 && dlt >= -(w1.Sub(w0).Milliseconds())-2 {
					obs = fmt.Sprint(want)
				}
			} else {
				want = durMs(d)
			}
			r.Op(fmt.Sprintf("ocsp evict %d %d %d", durMs(d), t0, nuMs), obs)
			r.Eval(fmt.Sprintf("evict/%v/%s", off, d), true)
			r.Count("evict")
			// oracle: no later than nextUpdate + skew, or the default
			if nu.After(w1) {
				if got > nu.Sub(w0).Milliseconds()+skew+2 || got <= 0 {
					r.Violate("C14 lifetime-arithmetic", fmt.Sprintf("nextUpdate in %v, default %s: life %d ms exceeds nextUpdate+skew", off, d, got), nil)
				}
			} else if got != durMs(d) {
				r.Violate("C14 lifetime-arithmetic", fmt.Sprintf("nextUpdate %v ago, default %s: life %d ms, want the default", -off, d, got), nil)
			}
		}
	}
}

// slidingScenario: store at s; (readers) read every `interval` ms until shortly before s+L while the responder flips to
// revoked; then read after s+L. Returns false when some lookup fell too close to the boundary to be classified.
func (e *c14Env) slidingScenario(ca *CA, path, dur string, interval int, readers bool) bool {
	r := e.r
	L := durMs(dur)
	const margin = 30
	leaf := ca.IssueLeaf(LeafOpts{OCSP: []string{e.rsp.URL(path)}})
	chains := [][]*x509.Certificate{{leaf.Cert, ca.Cert}}
	pool := []*x509.Certificate{ca.Cert}
	v := e.val(true, dur)
	srv, _ := e.setStatus(ca, path, leaf.Cert, ocsp.Good, time.Time{})
	var ops []c14Op
	first, p := e.look(v, true, dur, leaf.Cert, chains, srv, pool, -1)
	ops = append(ops, p)
	if first.Result != "good" || first.Stored == "-" {
		r.Violate("C14 not-cached", fmt.Sprintf("default %s: authentic good not stored (result %s stored %s)", dur, first.Result, first.Stored), nil)
		e.emit(ops)
		return true
	}
	// the responder flips
	srv, _ = e.setStatus(ca, path, leaf.Cert, ocsp.Revoked, time.Time{})
	hits := 0
	if readers {
		for {
			time.Sleep(time.Duration(interval) * time.Millisecond)
			if e.abs.Ms(time.Now()) > first.T0+L-margin-15 {
				break
			}
			o, p := e.look(v, true, dur, leaf.Cert, chains, srv, pool, -1)
			if o.T1 >= first.T0+L-margin {
				return false // too close to the boundary
			}
			ops = append(ops, p)
			hits++
			if !o.Hit || o.Result != "good" {
				// within the lifetime the entry must be served (not a violation of C14, but a model disagreement will show it)
				r.Count("early-miss")
			}
		}
	}
	// wait until clearly after the lifetime; keep reading faster than the lifetime if readers (the item stays in cache2go)
	for e.abs.Ms(time.Now()) <= first.T1+L+margin {
		time.Sleep(10 * time.Millisecond)
	}
	o, p := e.look(v, true, dur, leaf.Cert, chains, srv, pool, -1)
	ops = append(ops, p)
	e.emit(ops)
	r.Eval(fmt.Sprintf("slide/%s/%d/%v/%s", dur, interval, readers, path), true)
	r.Count(fmt.Sprintf("slide:%s/every%dms hits=%d", dur, interval, hits))
	r.Sample(map[string]interface{}{"scenario": "sliding", "default": dur, "read_every_ms": interval, "hits_within_lifetime": hits,
		"stored_at_ms": first.T0, "after_lifetime_at_ms": o.T0, "after_lifetime_result": o.Result, "after_lifetime_hit": o.Hit})
	// oracle (implementation only): after storedAt + lifetime the cache must not answer
	if o.Hit || o.Result != "revoked" {
		r.Violate("C14 served-after-lifetime", fmt.Sprintf("default %s, read every %d ms: lookup %d ms after the store returned %s (hit=%v) although the responder says revoked",
			dur, interval, o.T0-first.T1, o.Result, o.Hit), map[string]interface{}{"default": dur, "interval": interval})
	}
	return true
}

func (e *c14Env) twoIssuers(k int) {
	r := e.r
	caA := NewCA(CAOpts{CN: fmt.Sprintf("C14 Issuer A %d", k), EC: true})
	caB := NewCA(CAOpts{CN: fmt.Sprintf("C14 Issuer B %d", k), EC: true})
	serial := big.NewInt(int64(900000 + k))
	pa, pb := fmt.Sprintf("/c14/b/%d/a", k), fmt.Sprintf("/c14/b/%d/b", k)
	la := caA.IssueLeaf(LeafOpts{CN: "shared subject", Serial: serial, OCSP: []string{e.rsp.URL(pa)}})
	lb := caB.IssueLeaf(LeafOpts{CN: "shared subject", Serial: serial, OCSP: []string{e.rsp.URL(pb)}})
	v := e.val(true, "1h")
	sa, _ := e.setStatus(caA, pa, la.Cert, ocsp.Good, time.Time{})
	o1, p1 := e.look(v, true, "1h", la.Cert, [][]*x509.Certificate{{la.Cert, caA.Cert}}, sa, []*x509.Certificate{caA.Cert}, -1)
	sb := e.setDown(pb)
	o2, p2 := e.look(v, true, "1h", lb.Cert, [][]*x509.Certificate{{lb.Cert, caB.Cert}}, sb, []*x509.Certificate{caB.Cert}, -1)
	sb, _ = e.setStatus(caB, pb, lb.Cert, ocsp.Revoked, time.Time{})
	o3, p3 := e.look(v, true, "1h", lb.Cert, [][]*x509.Certificate{{lb.Cert, caB.Cert}}, sb, []*x509.Certificate{caB.Cert}, -1)
	sa = e.setDown(pa)
	o4, p4 := e.look(v, true, "1h", la.Cert, [][]*x509.Certificate{{la.Cert, caA.Cert}}, sa, []*x509.Certificate{caA.Cert}, -1)
	e.emit([]c14Op{p1, p2, p3, p4})
	r.Eval(fmt.Sprintf("two-issuers/%d", k), true)
	r.Count("two-issuers")
	if o2.Hit || o2.Result != "error" {
		r.Violate("C14 entry-shared-across-issuers", fmt.Sprintf("certificate of issuer B (same subject and serial as one of issuer A) answered %s hit=%v from A's entry", o2.Result, o2.Hit), nil)
	}
	if o3.Result != "revoked" || !o4.Hit || o4.Result != "good" || o1.Result != "good" {
		r.Violate("C14 two-issuers-history", fmt.Sprintf("A:%s B(down):%s B:%s A(down):%s hit=%v", o1.Result, o2.Result, o3.Result, o4.Result, o4.Hit), nil)
	}
}

// twoIssuersRDN: two CAs whose names consist of the same attributes and differ only in the order of the RDNs (shape 0), in
// their grouping into multi-valued RDNs (shape 1) or in a repeated attribute (shape 2): different issuers, the same serial.
func (e *c14Env) twoIssuersRDN(k, shape int) {
	r := e.r
	atv := func(oid asn1.ObjectIdentifier, v string) pkix.AttributeTypeAndValue {
		return pkix.AttributeTypeAndValue{Type: oid, Value: v}
	}
	oidC, oidO, oidCN := asn1.ObjectIdentifier{2, 5, 4, 6}, asn1.ObjectIdentifier{2, 5, 4, 10}, asn1.ObjectIdentifier{2, 5, 4, 3}
	c, o, cn := atv(oidC, "DE"), atv(oidO, fmt.Sprintf("C14 rdn %d-%d", k, shape)), atv(oidCN, "Issuing CA")
	var na, nb pkix.RDNSequence
	switch shape {
	case 0:
		na = pkix.RDNSequence{{c}, {o}, {cn}}
		nb = pkix.RDNSequence{{cn}, {o}, {c}}
	case 1:
		na = pkix.RDNSequence{{c}, {o}, {cn}}
		nb = pkix.RDNSequence{{c}, {cn, o}}
	default:
		na = pkix.RDNSequence{{c}, {o}, {cn}}
		nb = pkix.RDNSequence{{c}, {o}, {atv(oidCN, "Other CA")}, {cn}}
	}
	caA := NewCA(CAOpts{EC: true, RawSubject: mustMarshal(na)})
	caB := NewCA(CAOpts{EC: true, RawSubject: mustMarshal(nb)})
	serial := big.NewInt(int64(930000 + 10*k + shape))
	pa, pb := fmt.Sprintf("/c14/r/%d/%d/a", k, shape), fmt.Sprintf("/c14/r/%d/%d/b", k, shape)
	la := caA.IssueLeaf(LeafOpts{CN: "shared subject", Serial: serial, OCSP: []string{e.rsp.URL(pa)}})
	lb := caB.IssueLeaf(LeafOpts{CN: "shared subject", Serial: serial, OCSP: []string{e.rsp.URL(pb)}})
	v := e.val(true, "1h")
	sa, _ := e.setStatus(caA, pa, la.Cert, ocsp.Good, time.Time{})
	o1, p1 := e.look(v, true, "1h", la.Cert, [][]*x509.Certificate{{la.Cert, caA.Cert}}, sa, []*x509.Certificate{caA.Cert}, -1)
	sb := e.setDown(pb)
	o2, p2 := e.look(v, true, "1h", lb.Cert, [][]*x509.Certificate{{lb.Cert, caB.Cert}}, sb, []*x509.Certificate{caB.Cert}, -1)
	sb, _ = e.setStatus(caB, pb, lb.Cert, ocsp.Revoked, time.Time{})
	o3, p3 := e.look(v, true, "1h", lb.Cert, [][]*x509.Certificate{{lb.Cert, caB.Cert}}, sb, []*x509.Certificate{caB.Cert}, -1)
	e.emit([]c14Op{p1, p2, p3})
	r.Eval(fmt.Sprintf("two-issuers-rdn/%d/%d", k, shape), true)
	r.Count("two-issuers-rdn")
	if o2.Hit || o2.Result != "error" {
		r.Violate("C14 entry-shared-across-issuers", fmt.Sprintf("shape %d: certificate of issuer B (same serial, name made of the same attributes as issuer A's in another arrangement) answered %s hit=%v from A's entry", shape, o2.Result, o2.Hit), nil)
	}
	if o1.Result != "good" || o3.Result != "revoked" {
		r.Violate("C14 two-issuers-history", fmt.Sprintf("rdn shape %d: A:%s B(down):%s B:%s", shape, o1.Result, o2.Result, o3.Result), nil)
	}
}

// sameIssuerName: two CAs with the same distinguished name are the same issuer as far as the key (and RFC 5280
// certificate identity: issuer name + serial) goes; the entry is shared. Documented, not a violation.
func (e *c14Env) sameIssuerName(k int) {
	r := e.r
	cn := fmt.Sprintf("C14 Twin %d", k)
	t1 := NewCA(CAOpts{CN: cn, EC: true})
	t2 := NewCA(CAOpts{CN: cn, EC: true})
	serial := big.NewInt(int64(910000 + k))
	p1, p2 := fmt.Sprintf("/c14/c/%d/1", k), fmt.Sprintf("/c14/c/%d/2", k)
	l1 := t1.IssueLeaf(LeafOpts{Serial: serial, OCSP: []string{e.rsp.URL(p1)}})
	l2 := t2.IssueLeaf(LeafOpts{Serial: serial, OCSP: []string{e.rsp.URL(p2)}})
	v := e.val(true, "1h")
	s1, _ := e.setStatus(t1, p1, l1.Cert, ocsp.Revoked, time.Time{})
	_, a := e.look(v, true, "1h", l1.Cert, [][]*x509.Certificate{{l1.Cert, t1.Cert}}, s1, []*x509.Certificate{t1.Cert}, -1)
	s2 := e.setDown(p2)
	o2, b := e.look(v, true, "1h", l2.Cert, [][]*x509.Certificate{{l2.Cert, t2.Cert}}, s2, []*x509.Certificate{t2.Cert}, -1)
	e.emit([]c14Op{a, b})
	r.Eval(fmt.Sprintf("same-issuer-name/%d", k), true)
	if o2.Hit {
		r.Count("same-issuer-name:shared (issuer identity is the name; documented)")
	} else {
		r.Count("same-issuer-name:separate")
	}
}

func (e *c14Env) nextUpdateLookups(ca *CA, k int) {
	r := e.r
	for j, d := range []string{"", "250ms", "1h"} {
		for m, off := range []time.Duration{2 * time.Hour, -2 * time.Hour} {
			path := fmt.Sprintf("/c14/e/%d/%d/%d", k, j, m)
			leaf := ca.IssueLeaf(LeafOpts{OCSP: []string{e.rsp.URL(path)}})
			chains := [][]*x509.Certificate{{leaf.Cert, ca.Cert}}
			nu := time.Now().Add(off).Truncate(time.Second)
			srv, _ := e.setStatus(ca, path, leaf.Cert, ocsp.Good, nu)
			v := e.val(true, d)
			nuMs := int64(-1)
			if off > 0 {
				nuMs = e.abs.Ms(nu)
			}
			o1, p1 := e.look(v, true, d, leaf.Cert, chains, srv, []*x509.Certificate{ca.Cert}, nuMs)
			srv = e.setDown(path)
			o2, p2 := e.look(v, true, d, leaf.Cert, chains, srv, []*x509.Certificate{ca.Cert}, -1)
			e.emit([]c14Op{p1, p2})
			r.Eval(fmt.Sprintf("nextupdate/%s/%v/%d", d, off, k), true)
			r.Count(fmt.Sprintf("nextupdate:%v default=%q stored=%v", off > 0, d, o1.Stored != "-"))
			wantStore := off > 0 || durMs(d) > 0
			if (o1.Stored != "-") != wantStore || o2.Hit != wantStore {
				sig := "C14 nextupdate-caching"
				if !wantStore {
					sig = "C14 cached-with-zero-default"
				}
				r.Violate(sig, fmt.Sprintf("nextUpdate %v, default %q: stored=%s second call hit=%v", off, d, o1.Stored, o2.Hit), nil)
			}
			if o1.HasItem && off > 0 {
				if lim := nu.Sub(o1.Entry.CreatedOn) + ocspchk.VerifMaxClockSkew; o1.Entry.ValidUntil.Sub(o1.Entry.CreatedOn) > lim+5*time.Millisecond {
					r.Violate("C14 lifetime-exceeds-nextupdate-plus-skew", fmt.Sprintf("validUntil - storedAt = %v > %v", o1.Entry.ValidUntil.Sub(o1.Entry.CreatedOn), lim), nil)
				}
			}
		}
	}
}

func (e *c14Env) zeroDefault(ca *CA, k int) {
	r := e.r
	path := fmt.Sprintf("/c14/f/%d", k)
	leaf := ca.IssueLeaf(LeafOpts{OCSP: []string{e.rsp.URL(path)}})
	chains := [][]*x509.Certificate{{leaf.Cert, ca.Cert}}
	srv, _ := e.setStatus(ca, path, leaf.Cert, ocsp.Good, time.Time{})
	v := e.val(true, "")
	o1, p1 := e.look(v, true, "", leaf.Cert, chains, srv, []*x509.Certificate{ca.Cert}, -1)
	o2, p2 := e.look(v, true, "", leaf.Cert, chains, srv, []*x509.Certificate{ca.Cert}, -1)
	srv, _ = e.setStatus(ca, path, leaf.Cert, ocsp.Revoked, time.Time{})
	o3, p3 := e.look(v, true, "", leaf.Cert, chains, srv, []*x509.Certificate{ca.Cert}, -1)
	e.emit([]c14Op{p1, p2, p3})
	r.Eval(fmt.Sprintf("zero-default/%d", k), true)
	r.Count("zero-default")
	if o1.Stored != "-" || o2.Hit || len(o2.Reqs) != 1 || o3.Result != "revoked" || o1.HasItem {
		r.Violate("C14 cached-with-zero-default", fmt.Sprintf("default 0, no nextUpdate: stored=%s second hit=%v requests=%v third=%s", o1.Stored, o2.Hit, o2.Reqs, o3.Result), nil)
	}
}

func (e *c14Env) failedThenRevoked(ca *CA, k int, failure string, strict bool) {
	r := e.r
	path := fmt.Sprintf("/c14/g/%d/%s/%v", k, failure, strict)
	leaf := ca.IssueLeaf(LeafOpts{OCSP: []string{e.rsp.URL(path)}})
	chains := [][]*x509.Certificate{{leaf.Cert, ca.Cert}}
	known := []*x509.Certificate{ca.Cert}
	srv := OSrv{URL: e.rsp.URL(path), Path: path, Observable: true, Beh: map[string]string{}}
	switch failure {
	case "garbage":
		body := []byte{0x30, 0x82, 0x01, 0x00, 0xde, 0xad, 0xbe, 0xef}
		e.rsp.SetFixed(path, RespScript{Kind: "bytes", Body: body})
		srv.Beh["*"] = e.abs.Abstract(body, known)
	case "http500":
		body := []byte("<html>oops</html>")
		e.rsp.SetFixed(path, RespScript{Kind: "status", Status: 500, Body: body})
		srv.Beh["*"] = e.abs.Abstract(body, known)
	case "drop":
		srv = e.setDown(path)
	case "wrong":
		body := ca.OCSPResponse(OCSPOpts{Status: ocsp.Good, Serial: big.NewInt(5)})
		e.rsp.SetFixed(path, RespScript{Kind: "bytes", Body: body})
		srv.Beh["*"] = e.abs.Abstract(body, known)
	case "stranger":
		st := NewCA(CAOpts{CN: "C14 stranger", EC: true})
		body := st.OCSPResponse(OCSPOpts{Status: ocsp.Good, Serial: leaf.Cert.SerialNumber})
		e.rsp.SetFixed(path, RespScript{Kind: "bytes", Body: body})
		srv.Beh["*"] = e.abs.Abstract(body, append(known, st.Cert))
	}
	v := e.val(strict, "1h")
	o1, p1 := e.look(v, strict, "1h", leaf.Cert, chains, srv, known, -1)
	srv, _ = e.setStatus(ca, path, leaf.Cert, ocsp.Revoked, time.Time{})
	o2, p2 := e.look(v, strict, "1h", leaf.Cert, chains, srv, known, -1)
	e.emit([]c14Op{p1, p2})
	r.Eval(fmt.Sprintf("failed/%s/%v/%d", failure, strict, k), true)
	r.Count("failed-then-revoked:" + failure)
	if o1.Stored != "-" || o1.HasItem || o2.Hit || o2.Result != "revoked" {
		r.Violate("C14 failure-cached", fmt.Sprintf("%s (strict=%v): first call %s stored=%s; after the responder turned authentic-revoked: %s hit=%v", failure, strict, o1.Result, o1.Stored, o2.Result, o2.Hit), nil)
	}
}

// instances: the table is process-global (observation O2 of DESIGN): an entry stored through one validator instance is
// served to another one, with the lifetime of the instance that stored it; Cleanup of any instance flushes everything.
func (e *c14Env) instances(ca *CA) {
	r := e.r
	path := "/c14/d/0"
	leaf := ca.IssueLeaf(LeafOpts{OCSP: []string{e.rsp.URL(path)}})
	chains := [][]*x509.Certificate{{leaf.Cert, ca.Cert}}
	pool := []*x509.Certificate{ca.Cert}
	srv, _ := e.setStatus(ca, path, leaf.Cert, ocsp.Good, time.Time{})
	_, p1 := e.look(e.val(true, "1h"), true, "1h", leaf.Cert, chains, srv, pool, -1)
	srv = e.setDown(path)
	o2, p2 := e.look(e.val(true, ""), true, "", leaf.Cert, chains, srv, pool, -1) // other instance, zero default
	e.emit([]c14Op{p1, p2})
	if o2.Hit {
		r.Count("instances:entry of instance A served to instance B (process-global table; documented O2)")
	} else {
		r.Count("instances:separate tables")
	}
	// a third instance comes and goes
	third, err := Provision(VCfg{Mode: "ocsp_only", NoCRLConfig: true, OCSPStrict: true, OCSPCacheDur: "1h"})
	must(err)
	third.Close()
	r.Op("ocsp flush", "ok")
	o3, p3 := e.look(e.val(true, "1h"), true, "1h", leaf.Cert, chains, srv, pool, -1)
	e.emit([]c14Op{p3})
	if o3.Hit {
		r.Count("instances:entry survives Cleanup of another instance")
	} else {
		r.Count("instances:Cleanup of another instance flushes the shared table (fails safe)")
	}
	r.Eval("instances", true)
	// whichever way the table is organised, the property must hold: o2 is a hit only for the same certificate within
	// the storing instance's lifetime (1 h) — true here by construction; nothing to flag
}
