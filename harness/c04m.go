package main

import (
	"bytes"
	"crypto"
	"crypto/x509"
	"encoding/asn1"
	"fmt"
	"math/big"
	"strings"
	"sync"
	"time"
)

// c04Matrix: signer x AKI form x chain shape on the real verification path (handshake under verify + strict),
// compared with the Lean candidate model (`repo cand …`).

type c04Cert struct {
	Key     int // key id
	Subject int // name id
	Issuer  int
	SKI     int // 0 = absent
	EC      bool
	KU      string // "-" absent, "1" cRLSign, "0" present without cRLSign
	Cert    *x509.Certificate
	Signer  crypto.Signer
}

func (c c04Cert) arg() string {
	ski := "-"
	if c.SKI != 0 {
		ski = fmt.Sprint(c.SKI)
	}
	alg := "r"
	if c.EC {
		alg = "e"
	}
	return fmt.Sprintf("%d:%d:%d:%s:%s:%s:%s", c.Key, c.Subject, c.Issuer, c.Cert.SerialNumber.String(), ski, alg, c.KU)
}

var (
	c04Once  sync.Once
	c04Certs map[string]*c04Cert
	c04Names map[int][]byte
)

func c04SKI(n int) []byte { return []byte{0x5c, byte(n), byte(n >> 8), 0x11, 0x22} }

func c04Setup() {
	c04Once.Do(func() {
		c04Certs = map[string]*c04Cert{}
		c04Names = map[int][]byte{}
		mk := func(id string, key, subject, ski int, ec bool, ku string, parent *c04Cert, notCA bool) *c04Cert {
			o := CAOpts{CN: fmt.Sprintf("c04 name-%d", subject), EC: ec, NotCA: notCA}
			if ski != 0 {
				o.SKI = c04SKI(ski)
			}
			switch ku {
			case "-":
				o.NoKeyUsage = true
			case "0":
				o.NoCRLSign = true
			}
			issuer := subject
			if parent != nil {
				o.Parent = &CA{Cert: parent.Cert, Key: parent.Signer}
				issuer = parent.Subject
			}
			ca := NewCA(o)
			c := &c04Cert{Key: key, Subject: subject, Issuer: issuer, SKI: ski, EC: ec, KU: ku, Cert: ca.Cert, Signer: ca.Key}
			c04Certs[id] = c
			c04Names[subject] = ca.Cert.RawSubject
			return c
		}
		ca1 := mk("ca1", 1, 7, 71, true, "1", nil, false)
		mk("ca2", 2, 7, 72, true, "1", nil, false)        // sibling: same name, other key
		ca3 := mk("ca3", 3, 8, 73, true, "1", nil, false) // other name
		mk("canocrl", 4, 7, 74, true, "0", nil, false)
		mk("canoku", 5, 7, 75, true, "-", nil, false)
		mk("carsa", 8, 7, 78, false, "1", nil, false) // RSA key under the same name
		mk("t9", 7, 9, 77, true, "-", ca3, true)      // a non-CA certificate usable as configured trusted signer
		mk("t7", 10, 7, 0, true, "-", ca3, true)      // trusted signer carrying name 7, no SKI
		mk("name10", 11, 10, 0, true, "1", nil, false)
		// end-entities issued by ca1: one with an ordinary SKI, one whose SKI equals the issuer's (key-id confusion), one named like the issuer
		mk("leaf", 6, 100, 76, true, "-", ca1, true)
		mk("leafski", 12, 101, 71, true, "-", ca1, true)
		mk("leafname", 13, 7, 79, true, "-", ca1, true)
		// an end-entity that carries CA:TRUE and cRLSign (a sub-CA certificate presented as client certificate), named like the issuer
		mk("leafca", 14, 7, 80, true, "1", ca1, false)
		mk("stranger", 9, 7, 71, true, "1", nil, false) // a key nobody presents, claiming name 7 and ski 71
	})
}

type c04Case struct {
	Issuer  int    // CRL issuer name
	AKI     string // model argument
	AKIDer  []byte // AKI extension value, nil = no AKI
	Signer  string // who signs
	Chains  [][]string
	Trusted []string
	Leaf    string
}

// c04URIIssuer: when set, an AKI built without the directory name carries the issuer as a URI GeneralName instead of nothing
// (both mean: no directory name to compare with).
var c04URIIssuer = func() bool { return false }

// c04NoSerial: when set, an AKI that names the signer's issuer leaves the serial number out (RFC 5280 wants the two as a pair;
// a CRL is attacker-supplied input and need not comply)
var c04NoSerial = func() bool { return false }

func c04AKI(kid int, serFrom *c04Cert, emptyIssuer bool) (string, []byte) {
	var parts [][]byte
	k, s, i := "-", "-", "-"
	if kid != 0 {
		parts = append(parts, derTLV(0x80, c04SKI(kid)))
		k = fmt.Sprint(kid)
	}
	if serFrom != nil {
		if !emptyIssuer {
			parts = append(parts, derTLV(0xA1, derTLV(0xA4, c04Names[serFrom.Issuer])))
			i = fmt.Sprint(serFrom.Issuer)
		} else if c04URIIssuer() {
			parts = append(parts, derTLV(0xA1, derTLV(0x86, []byte("http://ca.example/issuer"))))
		}
		if !emptyIssuer && c04NoSerial() {
			return fmt.Sprintf("kid=%s;ser=%s;iss=%s", k, s, i), derSeq(parts...)
		}
		sb := serFrom.Cert.SerialNumber.Bytes()
		if len(sb) > 0 && sb[0]&0x80 != 0 {
			sb = append([]byte{0}, sb...)
		}
		parts = append(parts, derTLV(0x82, sb))
		s = serFrom.Cert.SerialNumber.String()
	}
	return fmt.Sprintf("kid=%s;ser=%s;iss=%s", k, s, i), derSeq(parts...)
}

func c04Matrix(r *Run) {
	c04Setup()
	rng := r.Rng
	c04URIIssuer = func() bool { return rng.Intn(2) == 0 }
	c04NoSerial = func() bool { return false }
	n := 260
	if r.Thorough() {
		n = 6000
	}
	signers := []string{"ca1", "ca1", "ca1", "ca2", "ca3", "canocrl", "canoku", "carsa", "t9", "t7", "leaf", "leafski", "leafname", "leafca", "stranger"}
	chainShapes := [][][]string{{{"L", "ca1"}}, {{"L", "ca1"}}, {{"L", "ca2"}}, {{"L", "canocrl"}}, {{"L", "canoku"}}, {{"L", "carsa"}},
		{{"L", "ca1"}, {"L", "ca2"}}, {{"L"}}, {{"L", "ca1", "ca3"}}, {{"L", "ca3"}}}
	trustedSets := [][]string{nil, nil, {"t9"}, {"t7"}, {"ca3"}, {"ca2"}, {"stranger"}}
	var cases []c04Case
	// corpus: the historical witness — CRL signed with the client's own key whose SKI equals the AKI
	kArg, kDer := c04AKI(71, nil, false)
	cases = append(cases, c04Case{Issuer: 7, AKI: kArg, AKIDer: kDer, Signer: "leafski", Chains: [][]string{{"L", "ca1"}}, Leaf: "leafski"})
	cases = append(cases, c04Case{Issuer: 7, AKI: "-", Signer: "leafname", Chains: [][]string{{"L", "ca1"}}, Leaf: "leafname"})
	cases = append(cases, c04Case{Issuer: 7, AKI: "-", Signer: "canocrl", Chains: [][]string{{"L", "canocrl"}}, Leaf: "leaf"})
	// AKI naming a certificate by serial number only (no directory name / a URI instead): no name to match, nobody is identified
	sArg, sDer := c04AKI(0, c04Certs["ca3"], true)
	cases = append(cases, c04Case{Issuer: 7, AKI: sArg, AKIDer: sDer, Signer: "ca3", Chains: [][]string{{"L", "ca1", "ca3"}}, Leaf: "leaf"})
	sArg, sDer = c04AKI(0, c04Certs["t9"], true)
	cases = append(cases, c04Case{Issuer: 7, AKI: sArg, AKIDer: sDer, Signer: "t9", Chains: [][]string{{"L", "ca1"}}, Trusted: []string{"t9"}, Leaf: "leaf"})
	// the end-entity as the only certificate of its chain (pinned in the trust pool) signing a CRL about itself
	// AKI forms outside the profile: issuer name without serial number (alone / next to a key id), an empty SEQUENCE
	c04NoSerial = func() bool { return true }
	nArg, nDer := c04AKI(0, c04Certs["ca1"], false)
	cases = append(cases, c04Case{Issuer: 7, AKI: nArg, AKIDer: nDer, Signer: "ca1", Chains: [][]string{{"L", "ca1"}}, Leaf: "leaf"})
	nArg, nDer = c04AKI(71, c04Certs["ca1"], false)
	cases = append(cases, c04Case{Issuer: 7, AKI: nArg, AKIDer: nDer, Signer: "ca1", Chains: [][]string{{"L", "ca1"}}, Leaf: "leaf"})
	nArg, nDer = c04AKI(0, c04Certs["t9"], false)
	cases = append(cases, c04Case{Issuer: 7, AKI: nArg, AKIDer: nDer, Signer: "t9", Chains: [][]string{{"L", "ca1"}}, Trusted: []string{"t9"}, Leaf: "leaf"})
	c04NoSerial = func() bool { return rng.Intn(6) == 0 }
	cases = append(cases, c04Case{Issuer: 7, AKI: "kid=-;ser=-;iss=-", AKIDer: derSeq(), Signer: "ca1", Chains: [][]string{{"L", "ca1"}}, Leaf: "leaf"})
	// the presented certificate is itself a CA certificate and signs the CRL fetched for it: still the end-entity of the chain
	k80, k80Der := c04AKI(80, nil, false)
	cases = append(cases, c04Case{Issuer: 7, AKI: "-", Signer: "leafca", Chains: [][]string{{"L", "ca1"}}, Leaf: "leafca"})
	cases = append(cases, c04Case{Issuer: 7, AKI: k80, AKIDer: k80Der, Signer: "leafca", Chains: [][]string{{"L", "ca1"}}, Leaf: "leafca"})
	cases = append(cases, c04Case{Issuer: 7, AKI: "-", Signer: "leafca", Chains: [][]string{{"L"}}, Leaf: "leafca"})
	k76, k76Der := c04AKI(76, nil, false)
	cases = append(cases, c04Case{Issuer: 100, AKI: k76, AKIDer: k76Der, Signer: "leaf", Chains: [][]string{{"L"}}, Leaf: "leaf"})
	cases = append(cases, c04Case{Issuer: 100, AKI: "-", Signer: "leaf", Chains: [][]string{{"L"}}, Leaf: "leaf"})
	cases = append(cases, c04Case{Issuer: 7, AKI: "-", Signer: "leafname", Chains: [][]string{{"L"}}, Leaf: "leafname"})
	cases = append(cases, c04Case{Issuer: 7, AKI: kArg, AKIDer: kDer, Signer: "leafski", Chains: [][]string{{"L"}, {"L", "ca2"}}, Leaf: "leafski"})
	for len(cases) < n {
		c := c04Case{Issuer: []int{7, 7, 7, 8, 9, 10}[rng.Intn(6)], Signer: signers[rng.Intn(len(signers))],
			Chains: chainShapes[rng.Intn(len(chainShapes))], Trusted: trustedSets[rng.Intn(len(trustedSets))],
			Leaf: []string{"leaf", "leaf", "leafski", "leafname", "leafca"}[rng.Intn(5)]}
		switch rng.Intn(6) {
		case 0, 1:
			c.AKI = "-"
		case 2, 3:
			kid := []int{71, 72, 73, 74, 75, 76, 77, 78, 79, 99}[rng.Intn(10)]
			c.AKI, c.AKIDer = c04AKI(kid, nil, false)
		case 4:
			from := c04Certs[[]string{"ca1", "ca2", "ca3", "leaf", "t9", "canoku"}[rng.Intn(6)]]
			c.AKI, c.AKIDer = c04AKI(0, from, rng.Intn(5) == 0)
		case 5:
			from := c04Certs[[]string{"ca1", "ca3", "t9"}[rng.Intn(3)]]
			c.AKI, c.AKIDer = c04AKI([]int{71, 73, 99}[rng.Intn(3)], from, false)
		}
		// one case in eight: the end-entity signs the CRL about itself, issued under its own name or pointing at its own key id
		if rng.Intn(8) == 0 {
			c.Signer = c.Leaf
			lc := c04Certs[c.Leaf]
			c.Issuer = lc.Subject
			if rng.Intn(2) == 0 {
				c.AKI, c.AKIDer = c04AKI(lc.SKI, nil, false)
			} else {
				c.AKI, c.AKIDer = "-", nil
			}
			if rng.Intn(2) == 0 {
				c.Chains = [][]string{{"L"}}
			}
			cases = append(cases, c)
			continue
		}
		// half of the cases: steer towards an acceptable constellation (signer presented above the end-entity or trusted,
		// CRL issued under the signer's name, AKI absent or pointing at the signer), then perturb one coordinate at random
		if rng.Intn(2) == 0 {
			var pool []string
			for _, ch := range c.Chains {
				for _, id := range ch[1:] {
					pool = append(pool, id)
				}
			}
			pool = append(pool, c.Trusted...)
			if len(pool) > 0 {
				c.Signer = pool[rng.Intn(len(pool))]
				sc := c04Certs[c.Signer]
				c.Issuer = sc.Subject
				switch rng.Intn(4) {
				case 0:
					c.AKI, c.AKIDer = "-", nil
				case 1:
					if sc.SKI != 0 {
						c.AKI, c.AKIDer = c04AKI(sc.SKI, nil, false)
					} else {
						c.AKI, c.AKIDer = "-", nil
					}
				case 2:
					c.AKI, c.AKIDer = c04AKI(0, sc, rng.Intn(3) == 0)
				case 3:
					c.AKI, c.AKIDer = c04AKI(sc.SKI, sc, rng.Intn(4) == 0)
				}
				switch rng.Intn(6) {
				case 0:
					c.Signer = signers[rng.Intn(len(signers))]
				case 1:
					c.Issuer = []int{7, 8, 9, 10}[rng.Intn(4)]
				}
			}
		}
		cases = append(cases, c)
	}
	origin := NewOrigin()
	defer origin.Close()
	dir := scratchDir("c04m")
	// written once, before the workers start: two workers writing the same file while a third one's Provision read it gave
	// "no CERTIFICATE pem block" once
	trustedFiles := map[string]string{}
	for id := range c04Certs {
		trustedFiles[id] = writeFile(dir, "t-"+id+".pem", certPEM(c04Certs[id].Cert))
	}
	trustedFile := func(id string) string { return trustedFiles[id] }
	parallel(len(cases), 16, func(i int) {
		c := cases[i]
		signer := c04Certs[c.Signer]
		alg := sigAlgs[7] // ecdsaWithSHA256
		if !signer.EC {
			alg = sigAlgs[2]
		}
		spec := CRLSpec{Version: 1, Alg: alg, AlgParams: !alg.EC, IssuerRaw: c04Names[c.Issuer], Signer: signer.Signer,
			ThisUpdate: time.Now().Add(-time.Hour).UTC().Truncate(time.Second),
			Entries:    []EntrySpec{{Serial: big.NewInt(4242), Time: time.Now().Add(-2 * time.Hour).UTC().Truncate(time.Second)}},
			Exts:       [][]byte{derExt(oidCRLNumber, false, derInt(big.NewInt(int64(i+1))))}}
		if c.AKIDer != nil {
			spec.Exts = append(spec.Exts, derExt(oidAKI, false, c.AKIDer))
		}
		der, _ := spec.Build()
		path := fmt.Sprintf("/c04/%d", i)
		origin.SetBytes(path, der)
		// presented chains: "L" is the end-entity of the case, re-issued with this case's CDP
		leafT := c04Certs[c.Leaf]
		leafCA := &CA{Cert: c04Certs["ca1"].Cert, Key: c04Certs["ca1"].Signer}
		lo := LeafOpts{CN: leafT.Cert.Subject.CommonName, CDP: []string{origin.URL(path)}, Key: leafT.Signer, Serial: big.NewInt(int64(900000 + i)), NoKU: leafT.KU == "-", RawSub: leafT.Cert.RawSubject, IsCA: leafT.Cert.IsCA}
		if leafT.SKI != 0 {
			lo.SKI = c04SKI(leafT.SKI)
		}
		leaf := leafCA.IssueLeaf(lo)
		leafModel := *leafT
		leafModel.Cert = leaf.Cert
		var chains [][]*x509.Certificate
		var chainArgs []string
		for _, ch := range c.Chains {
			var cc []*x509.Certificate
			var ca []string
			for _, id := range ch {
				if id == "L" {
					cc = append(cc, leaf.Cert)
					ca = append(ca, leafModel.arg())
				} else {
					cc = append(cc, c04Certs[id].Cert)
					ca = append(ca, c04Certs[id].arg())
				}
			}
			chains = append(chains, cc)
			chainArgs = append(chainArgs, strings.Join(ca, ","))
		}
		var tfiles, targs []string
		for _, id := range c.Trusted {
			tfiles = append(tfiles, trustedFile(id))
			targs = append(targs, c04Certs[id].arg())
		}
		tArg := "-"
		if len(targs) > 0 {
			tArg = strings.Join(targs, ",")
		}
		algArg := "e"
		if !signer.EC {
			algArg = "r"
		}
		// the key that verifies: the signer's — unless the signer is the end-entity of the case (then it is the leaf's key id)
		sigKey := signer.Key
		op := fmt.Sprintf("repo cand %d %s %s %d %s %s", c.Issuer, c.AKI, algArg, sigKey, strings.Join(chainArgs, "/"), tArg)
		v, err := Provision(VCfg{Mode: "crl_only", WorkDir: scratchDir("c04v"), Storage: "memory", SigMode: "verify", CDPStrict: true,
			TrustedSigners: tfiles, UpdateInterval: "10h"})
		if err != nil {
			r.Violate("C04 provision-failed", err.Error(), nil)
			return
		}
		defer v.Close()
		verdict, _ := v.Verify(chains)
		obs := "rejected"
		if verdict == "panic" {
			obs = "panic" // the candidate search dereferenced a field the authority key identifier does not carry (model: CandRes.panic)
		}
		var acceptedCert *x509.Certificate
		for _, in := range v.V.VerifCRLChecker().VerifRepository().VerifEntries() {
			if in.Present && in.Loaded && !in.StoreNil {
				if sc, err := in.Store.GetCRLSignatureCert(); err == nil && sc != nil {
					acceptedCert = sc.Certificate
				} else {
					obs = "accepted-without-signer"
				}
			}
		}
		if acceptedCert != nil {
			who, origin := "?", "?"
			if bytes.Equal(acceptedCert.Raw, leaf.Cert.Raw) {
				who, origin = fmt.Sprint(leafModel.Key), "chain0"
			}
			for _, cc := range c04Certs {
				if bytes.Equal(cc.Cert.Raw, acceptedCert.Raw) {
					who = fmt.Sprint(cc.Key)
				}
			}
			// origin: first position in the candidate enumeration order = chains (positions) then trusted
			found := false
			for _, ch := range chains {
				for p, cc := range ch {
					if !found && bytes.Equal(cc.Raw, acceptedCert.Raw) {
						origin = fmt.Sprintf("chain%d", p)
						found = true
					}
				}
			}
			if !found {
				origin = "trusted"
			}
			obs = fmt.Sprintf("accepted key=%s origin=%s", who, origin)
		}
		r.Op(op, obs)
		r.Eval(fmt.Sprintf("cand/%d", i), true)
		r.Count("cand:" + strings.Fields(obs)[0])
		if i < 4 {
			r.Sample(map[string]interface{}{"op": op, "impl": obs, "verdict": verdict})
		}
		// ---- implementation-side oracle: entitlement of whoever was accepted -------------------------------
		if acceptedCert != nil {
			entitled := false
			for _, ch := range chains {
				for p, cc := range ch {
					if p >= 1 && bytes.Equal(cc.Raw, acceptedCert.Raw) {
						entitled = true
					}
				}
			}
			for _, id := range c.Trusted {
				if bytes.Equal(c04Certs[id].Cert.Raw, acceptedCert.Raw) {
					entitled = true
				}
			}
			// ... and it must be identified by the CRL: its subject is the CRL's issuer name, or the AKI's key identifier is its
			// subject key id, or the AKI's issuer name + serial number are its issuer and serial
			matches := bytes.Equal(acceptedCert.RawSubject, c04Names[c.Issuer])
			if c.AKIDer != nil {
				var aki struct {
					KeyID  []byte        `asn1:"optional,tag:0"`
					Issuer asn1.RawValue `asn1:"optional,tag:1"`
					Serial *big.Int      `asn1:"optional,tag:2"`
				}
				if _, err := asn1.Unmarshal(c.AKIDer, &aki); err == nil {
					if len(aki.KeyID) > 0 && bytes.Equal(aki.KeyID, acceptedCert.SubjectKeyId) {
						matches = true
					}
					if aki.Serial != nil && aki.Serial.Cmp(acceptedCert.SerialNumber) == 0 && len(aki.Issuer.Bytes) > 2 &&
						aki.Issuer.Bytes[0] == 0xA4 && bytes.Contains(aki.Issuer.Bytes, acceptedCert.RawIssuer) {
						matches = true
					}
				}
			}
			if entitled && !matches {
				r.Violate("C04 signer-not-identified-by-crl-accepted", fmt.Sprintf("case %d: CRL issued under name %d with AKI %s accepted under %s, which carries neither that name nor that key identifier nor that issuer+serial",
					i, c.Issuer, c.AKI, describeCert(acceptedCert)), map[string]interface{}{"case": c, "op": op})
			}
			if !entitled {
				r.Violate("C04 unentitled-signer-accepted", fmt.Sprintf("case %d: CRL signed by %s accepted under a certificate that is neither above the end-entity nor a trusted signer (%s)", i, c.Signer, describeCert(acceptedCert)),
					map[string]interface{}{"case": c, "op": op})
			}
			if acceptedCert.KeyUsage != 0 && acceptedCert.KeyUsage&x509.KeyUsageCRLSign == 0 {
				r.Violate("C04 signer-without-crlsign-accepted", fmt.Sprintf("case %d: accepted signer lacks cRLSign", i), map[string]interface{}{"case": c, "op": op})
			}
			if acceptedCert.CheckSignature(x509.ECDSAWithSHA256, nil, nil) == nil {
				// unreachable; keeps the import honest
			}
		}
		if obs == "accepted-without-signer" {
			r.Violate("C04 accepted-without-verified-signer", fmt.Sprintf("case %d: CRL in force under verify without a stored signer", i), map[string]interface{}{"case": c, "op": op})
		}
		_ = verdict
	})
}
