module verif/harness

go 1.22

require (
	github.com/caddyserver/caddy/v2 v2.8.4
	github.com/gr33nbl00d/caddy-revocation-validator v0.0.0
	github.com/muesli/cache2go v0.0.0-20221011235721-518229cd8021
	github.com/syndtr/goleveldb v1.0.0
	go.uber.org/zap v1.27.0
	golang.org/x/crypto v0.23.0
)

require (
	filippo.io/edwards25519 v1.1.0 // indirect
	github.com/AndreasBriese/bbloom v0.0.0-20190825152654-46b345b51c96 // indirect
	github.com/Masterminds/goutils v1.1.1 // indirect
	github.com/Masterminds/semver/v3 v3.2.1 // indirect
	github.com/Masterminds/sprig/v3 v3.2.3 // indirect
	github.com/aryann/difflib v0.0.0-20210328193216-ff5ff6dc229b // indirect
	github.com/beorn7/perks v1.0.1 // indirect
	github.com/caddyserver/certmagic v0.21.3 // indirect
	github.com/caddyserver/zerossl v0.1.3 // indirect
	github.com/cespare/xxhash v1.1.0 // indirect
	github.com/cespare/xxhash/v2 v2.2.0 // indirect
	github.com/chzyer/readline v1.5.1 // indirect
	github.com/cpuguy83/go-md2man/v2 v2.0.3 // indirect
	github.com/dgraph-io/badger v1.6.2 // indirect
	github.com/dgraph-io/badger/v2 v2.2007.4 // indirect
	github.com/dgraph-io/ristretto v0.1.1 // indirect
	github.com/dgryski/go-farm v0.0.0-20200201041132-a6ae2369ad13 // indirect
	github.com/dustin/go-humanize v1.0.1 // indirect
	github.com/go-jose/go-jose/v3 v3.0.3 // indirect
	github.com/go-kit/kit v0.13.0 // indirect
	github.com/go-kit/log v0.2.1 // indirect
	github.com/go-logfmt/logfmt v0.6.0 // indirect
	github.com/go-sql-driver/mysql v1.7.1 // indirect
	github.com/golang/glog v1.2.4 // indirect
	github.com/golang/protobuf v1.5.4 // indirect
	github.com/golang/snappy v0.0.4 // indirect
	github.com/google/uuid v1.6.0 // indirect
	github.com/huandu/xstrings v1.4.0 // indirect
	github.com/imdario/mergo v0.3.15 // indirect
	github.com/jackc/chunkreader/v2 v2.0.1 // indirect
	github.com/jackc/pgconn v1.14.3 // indirect
	github.com/jackc/pgio v1.0.0 // indirect
	github.com/jackc/pgpassfile v1.0.0 // indirect
	github.com/jackc/pgproto3/v2 v2.3.3 // indirect
	github.com/jackc/pgservicefile v0.0.0-20221227161230-091c0ba34f0a // indirect
	github.com/jackc/pgtype v1.14.0 // indirect
	github.com/jackc/pgx/v4 v4.18.3 // indirect
	github.com/klauspost/compress v1.17.8 // indirect
	github.com/klauspost/cpuid/v2 v2.2.7 // indirect
	github.com/libdns/libdns v0.2.2 // indirect
	github.com/manifoldco/promptui v0.9.0 // indirect
	github.com/mattn/go-colorable v0.1.13 // indirect
	github.com/mattn/go-isatty v0.0.20 // indirect
	github.com/mgutz/ansi v0.0.0-20200706080929-d51e80ef957d // indirect
	github.com/mholt/acmez/v2 v2.0.1 // indirect
	github.com/miekg/dns v1.1.59 // indirect
	github.com/mitchellh/copystructure v1.2.0 // indirect
	github.com/mitchellh/go-ps v1.0.0 // indirect
	github.com/mitchellh/reflectwalk v1.0.2 // indirect
	github.com/pkg/errors v0.9.1 // indirect
	github.com/prometheus/client_golang v1.19.1 // indirect
	github.com/prometheus/client_model v0.5.0 // indirect
	github.com/prometheus/common v0.48.0 // indirect
	github.com/prometheus/procfs v0.12.0 // indirect
	github.com/quic-go/qpack v0.4.0 // indirect
	github.com/quic-go/quic-go v0.44.0 // indirect
	github.com/rs/xid v1.5.0 // indirect
	github.com/russross/blackfriday/v2 v2.1.0 // indirect
	github.com/shopspring/decimal v1.3.1 // indirect
	github.com/shurcooL/sanitized_anchor_name v1.0.0 // indirect
	github.com/slackhq/nebula v1.6.1 // indirect
	github.com/smallstep/certificates v0.26.1 // indirect
	github.com/smallstep/nosql v0.6.1 // indirect
	github.com/smallstep/pkcs7 v0.0.0-20231024181729-3b98ecc1ca81 // indirect
	github.com/smallstep/scep v0.0.0-20231024192529-aee96d7ad34d // indirect
	github.com/smallstep/truststore v0.13.0 // indirect
	github.com/spf13/cast v1.5.0 // indirect
	github.com/spf13/cobra v1.8.0 // indirect
	github.com/spf13/pflag v1.0.5 // indirect
	github.com/tailscale/tscert v0.0.0-20240517230440-bbccfbf48933 // indirect
	github.com/urfave/cli v1.22.14 // indirect
	github.com/zeebo/blake3 v0.2.3 // indirect
	go.etcd.io/bbolt v1.3.9 // indirect
	go.step.sm/cli-utils v0.9.0 // indirect
	go.step.sm/crypto v0.45.0 // indirect
	go.step.sm/linkedca v0.20.1 // indirect
	go.uber.org/automaxprocs v1.5.3 // indirect
	go.uber.org/multierr v1.11.0 // indirect
	go.uber.org/zap/exp v0.2.0 // indirect
	golang.org/x/crypto/x509roots/fallback v0.0.0-20240507223354-67b13616a595 // indirect
	golang.org/x/exp v0.0.0-20240506185415-9bf2ced13842 // indirect
	golang.org/x/net v0.25.0 // indirect
	golang.org/x/sys v0.20.0 // indirect
	golang.org/x/term v0.20.0 // indirect
	golang.org/x/text v0.15.0 // indirect
	golang.org/x/time v0.5.0 // indirect
	google.golang.org/genproto/googleapis/rpc v0.0.0-20240429193739-8cf5692501f6 // indirect
	google.golang.org/grpc v1.63.2 // indirect
	google.golang.org/protobuf v1.34.1 // indirect
	gopkg.in/yaml.v3 v3.0.1 // indirect
)

replace github.com/gr33nbl00d/caddy-revocation-validator => /repo
