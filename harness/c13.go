package main

// C13 — concurrency safety. Three parts:
//  (1) a concurrent stress of the REAL code run in child processes (this binary, and a `-race` build of it):
//      handshakes x first-use downloads x ticks x forced refresh x config-CRL update x another validator's
//      provision/cleanup cycles x Cleanup while everything still runs, on shared and distinct CDP locations,
//      both backends, both fetch modes, including "last refresh failed signature verification"; watchdog on
//      every call; every verdict must be one a sequential execution could produce; a crash of the child,
//      a panic, a call that does not return and every data race report touching the plugin are violations;
//  (2) lock probes: the harness holds one lock of the real code and observes which operations wait for it;
//      the Lean driver says whether the extracted lock program admits the observation (`lock admits`);
//  (3) `lock check` / `lock lockset` lines: the model's side conditions against what (1) observed.

import (
	"crypto/x509"
	"fmt"
	"math/big"
	"math/rand"
	"os"
	"runtime"
	"strconv"
	"strings"
	"sync"
	"sync/atomic"
	"syscall"
	"time"

	"github.com/gr33nbl00d/caddy-revocation-validator/core"
	"github.com/gr33nbl00d/caddy-revocation-validator/core/verifhook"
	"github.com/gr33nbl00d/caddy-revocation-validator/crl"
	"github.com/gr33nbl00d/caddy-revocation-validator/crl/crlrepository"
	"golang.org/x/crypto/ocsp"
)

func init() {
	register("C13", runC13)
	if os.Getenv("VERIF_C13_CHILD") == "1" {
		c13ChildMain()
	}
}

const c13CallTimeout = 25 * time.Second

// ---- child role --------------------------------------------------------------------------------

func c13ChildMain() {
	seed, _ := strconv.ParseInt(os.Getenv("VERIF_C13_SEED"), 10, 64)
	ms, _ := strconv.Atoi(os.Getenv("VERIF_C13_MS"))
	out := os.Getenv("VERIF_C13_OUT")
	if os.Getenv("VERIF_DEBUG") == "" {
		if null, err := os.OpenFile("/dev/null", os.O_WRONLY, 0); err == nil {
			syscall.Dup2(int(null.Fd()), 2)
		}
	}
	var err error
	scratchRoot, err = os.MkdirTemp("", "crv-verif-C13-child-")
	must(err)
	col := newConcCollector()
	func() {
		defer func() {
			if p := recover(); p != nil {
				col.Violate("C13 harness-panic", fmt.Sprint(p), nil)
			}
		}()
		c13Stress(col, seed, time.Duration(ms)*time.Millisecond, os.Getenv("VERIF_C13_CONFIGS"))
	}()
	col.write(out)
	os.RemoveAll(scratchRoot)
	os.Exit(0)
}

// ---- the stress ----------------------------------------------------------------------------------

type c13Loc struct {
	name      string
	path      string
	always    *Leaf
	never     *Leaf
	flip      *Leaf
	alt       *Leaf // issued by the roll-over CA (same name, other key), never listed
	version   int64
	confirmed atomic.Bool // the always-listed leaf has been seen rejected (the location is in force)
	roll      bool
}

type c13Env struct {
	col       *concCollector
	name      string
	storage   string
	fetch     string
	ocsp      bool
	rng       *rand.Rand
	rngMu     sync.Mutex
	ca, ca2   *CA
	origin    *ConcOrigin
	v         *Validator
	chk       *crl.CRLRevocationChecker
	workDir   string
	warm      []*c13Loc
	cfgPath   string
	stop      atomic.Bool
	stopR     atomic.Bool // refresh-type threads stop before Cleanup starts
	wgR       sync.WaitGroup
	cleanupAt atomic.Int64 // unix nanos when Cleanup was started (0 = not yet)
	inflight  [8]atomic.Int64
	firstN    atomic.Int64
	maxFirst  int64
	wg        sync.WaitGroup
	sigFailed atomic.Int64
	sigFixed  atomic.Int64
}

const (
	c13OpHS = iota
	c13OpTick
	c13OpForced
	c13OpCfg
	c13OpPublish
	c13OpOther
	c13OpCleanup
)

var c13OpNames = []string{"handshake", "tick", "forced", "cfgupdate", "publish", "other-instance", "cleanup"}

func (e *c13Env) intn(n int) int {
	e.rngMu.Lock()
	defer e.rngMu.Unlock()
	return e.rng.Intn(n)
}

func (e *c13Env) publish(l *c13Loc, version int64) {
	serials := []*big.Int{big.NewInt(3), l.always.Cert.SerialNumber}
	if version%2 == 1 {
		serials = append(serials, l.flip.Cert.SerialNumber)
	}
	signer := e.ca
	if l.roll && (version/2)%2 == 1 {
		signer = e.ca2
	}
	e.origin.SetBytes(l.path, signer.MakeCRL(CRLOpts{Serials: serials, Number: version + 1}))
	atomic.StoreInt64(&l.version, version)
}

func (e *c13Env) newLoc(name string, roll bool) *c13Loc {
	l := &c13Loc{name: name, path: "/crl/" + e.name + "/" + name, roll: roll}
	cdp := []string{e.origin.URL(l.path)}
	lo := LeafOpts{CDP: cdp}
	if e.ocsp {
		lo.OCSP = []string{e.origin.URL("/ocsp/" + e.name)}
	}
	l.always = e.ca.IssueLeaf(lo)
	l.never = e.ca.IssueLeaf(lo)
	l.flip = e.ca.IssueLeaf(lo)
	if roll {
		l.alt = e.ca2.IssueLeaf(lo)
	}
	e.publish(l, 0)
	return l
}

// call wraps one call into the real code: watchdog, panic capture, in-flight accounting.
func (e *c13Env) call(kind int, what string, f func()) bool {
	e.inflight[kind].Add(1)
	o := concGuardExt(c13CallTimeout, 3*c13CallTimeout, f)
	e.inflight[kind].Add(-1)
	e.col.Count("op:" + c13OpNames[kind])
	if o.Slow {
		e.col.Count("slow-call:" + c13OpNames[kind])
	}
	if !o.Returned {
		e.col.Violate("C13 deadlock "+c13OpNames[kind], fmt.Sprintf("config %s: %s did not return within %s (in flight: %s)", e.name, what, 4*c13CallTimeout, e.inflightString()),
			map[string]string{"config": e.name, "op": what})
		return false
	}
	if o.Panic != "" {
		first := strings.SplitN(o.Panic, "\n", 2)[0]
		e.col.Violate("C13 panic "+c13OpNames[kind], fmt.Sprintf("config %s: %s panicked: %s", e.name, what, first), map[string]string{"config": e.name, "op": what, "stack": o.Panic})
		return false
	}
	return true
}

func (e *c13Env) inflightString() string {
	var s []string
	for k, n := range c13OpNames {
		if v := e.inflight[k].Load(); v > 0 {
			s = append(s, fmt.Sprintf("%s=%d", n, v))
		}
	}
	return strings.Join(s, ",")
}

func (e *c13Env) overlapMask() int {
	m := 0
	for k := range c13OpNames {
		if k != c13OpHS && e.inflight[k].Load() > 0 {
			m |= 1 << k
		}
	}
	return m
}

// handshake performs one verification and applies the sequential-execution oracle.
func (e *c13Env) handshake(leaf *Leaf, issuer *CA, class string, l *c13Loc, firstUse bool) {
	chains := [][]*x509.Certificate{{leaf.Cert, issuer.Cert}}
	confirmedBefore := l != nil && l.confirmed.Load()
	start := time.Now()
	mask := e.overlapMask()
	var verdict string
	var verr error
	ok := e.call(c13OpHS, "VerifyClientCertificate("+class+")", func() { verdict, verr = e.v.Verify(chains) })
	if !ok {
		return
	}
	mask |= e.overlapMask()
	if verdict == "panic" {
		e.col.Violate("C13 panic handshake", fmt.Sprintf("config %s: handshake panicked: %v", e.name, verr), nil)
		return
	}
	cs := e.cleanupAt.Load()
	afterCleanup := cs != 0 && time.Now().UnixNano() >= cs
	_ = start
	locKind := "none"
	if l != nil {
		locKind = "warm"
		if firstUse {
			locKind = "first-use"
		}
		if l.roll {
			locKind = "rollover"
		}
	}
	key := fmt.Sprintf("%s/%s/%s/overlap=%d", e.name, class, locKind, mask)
	e.col.Eval(key, mask != 0)
	e.col.Count("verdict:" + verdict)
	if afterCleanup {
		e.col.Count("during-or-after-cleanup")
		return // Cleanup overlapped: closed entries make lookups fail; either verdict is sequentially possible
	}
	want := ""
	switch class {
	case "never", "nocdp":
		want = "accept"
	case "always":
		if confirmedBefore || (e.fetch == "fetch_actively" && !l.roll) {
			want = "reject"
		}
	}
	if class == "always" && verdict == "reject" && l != nil {
		l.confirmed.Store(true)
	}
	if want != "" && verdict != want {
		e.col.Violate(fmt.Sprintf("C13 verdict-not-sequential class=%s want=%s", class, want),
			fmt.Sprintf("config %s: leaf %s (location %s, %s, in force before the call: %v) got %s (%v); no sequential order of the operations yields that (in flight: %s)",
				e.name, class, locKind, e.fetch, confirmedBefore, verdict, verr, e.inflightString()),
			map[string]interface{}{"config": e.name, "class": class, "location": locKind, "verdict": verdict})
	}
}

func c13Configs() [][4]string {
	// name, storage, fetch mode, ocsp
	return [][4]string{
		{"mem-act", "memory", "fetch_actively", ""},
		{"mem-bg", "memory", "fetch_background", "ocsp"},
		{"disk-act", "disk", "fetch_actively", ""},
		{"disk-bg", "disk", "fetch_background", ""},
	}
}

func c13Stress(col *concCollector, seed int64, dur time.Duration, only string) {
	// seeded yields at the hook sites inside LevelDbStore.Update / loadCRL / updateCrlEntry
	var hookN atomic.Uint64
	verifhook.SetCallback(func(name string) {
		n := hookN.Add(1)
		h := (n*0x9E3779B97F4A7C15 + uint64(seed)*0xBF58476D1CE4E5B9) >> 33
		switch h % 5 {
		case 0:
			runtime.Gosched()
		case 1:
			time.Sleep(time.Duration(h%400) * time.Microsecond)
		}
	})
	defer verifhook.SetCallback(nil)
	var wg sync.WaitGroup
	for i, c := range c13Configs() {
		if only != "" && !strings.Contains(","+only+",", ","+c[0]+",") {
			continue
		}
		wg.Add(1)
		go func(i int, c [4]string) {
			defer wg.Done()
			defer func() {
				if p := recover(); p != nil {
					col.Violate("C13 harness-panic", fmt.Sprintf("config %s: %v", c[0], p), nil)
				}
			}()
			c13RunConfig(col, c, seed*131+int64(i), dur)
		}(i, c)
	}
	for _, st := range []string{"memory", "disk"} {
		if only != "" && !strings.Contains(","+only+",", ",cvr-"+st+",") {
			continue
		}
		wg.Add(1)
		go func(st string) {
			defer wg.Done()
			defer func() {
				if p := recover(); p != nil {
					col.Violate("C13 harness-panic", fmt.Sprintf("cleanup-vs-refresh %s: %v", st, p), nil)
				}
			}()
			n := 6
			if st == "disk" {
				n = 2
			}
			for i := 0; i < n; i++ {
				c13CleanupVsRefresh(col, st, seed*977+int64(i), i)
			}
			c13PersistentSigFailed(col, st, seed*613)
			if st == "memory" {
				c13FailedSwapVsClose(col, seed*389)
			}
		}(st)
	}
	wg.Wait()
}

// c13FailedSwapVsClose: the swap step of a refresh fails (real updateEntry, a store of the wrong backend) while shutdown
// (Repository.Close) and a lookup run: three calls with opposite lock needs — entry lock then repository lock on the failure
// path of the refresh would meet repository lock then entry lock of Close. Many short rounds with seeded microsecond jitter;
// everything must return.
func c13FailedSwapVsClose(col *concCollector, seed int64) {
	rng := rand.New(rand.NewSource(seed))
	ca := NewCA(CAOpts{CN: "C13 FS CA", EC: true})
	origin := NewConcOrigin()
	defer origin.Close()
	rounds, stuck := 250, 0
	for i := 0; i < rounds && stuck == 0; i++ {
		path := fmt.Sprintf("/crl/fs/%d", i)
		leaf := ca.IssueLeaf(LeafOpts{CDP: []string{origin.URL(path)}})
		origin.SetBytes(path, ca.MakeCRL(CRLOpts{Serials: []*big.Int{leaf.Cert.SerialNumber}}))
		v, err := Provision(VCfg{Mode: "crl_only", WorkDir: scratchDir("c13-fs"), Storage: "memory", UpdateInterval: "10h"})
		if err != nil {
			col.Violate("C13 provision-failed", "failed-swap-vs-close: "+err.Error(), nil)
			return
		}
		chains := [][]*x509.Certificate{{leaf.Cert, ca.Cert}}
		v.Verify(chains) // first use: loaded
		repo := v.V.VerifCRLChecker().VerifRepository()
		ents := repo.VerifEntries()
		if len(ents) != 1 {
			v.Close()
			continue
		}
		wrong, werr := storeFactory("ldb", scratchDir("c13-fsw")).CreateStore("w", true)
		if werr != nil {
			v.Close()
			continue
		}
		d1, d2, d3 := time.Duration(rng.Intn(30))*time.Microsecond, time.Duration(rng.Intn(30))*time.Microsecond, time.Duration(rng.Intn(30))*time.Microsecond
		var wg sync.WaitGroup
		start := make(chan struct{})
		run := func(d time.Duration, f func()) {
			wg.Add(1)
			go func() {
				defer wg.Done()
				defer func() { recover() }()
				<-start
				time.Sleep(d)
				f()
			}()
		}
		run(d1, func() { _ = repo.VerifUpdateEntry(ents[0].Identifier, wrong) })
		run(d2, func() { repo.Close() })
		run(d3, func() { v.Verify(chains) })
		close(start)
		done := make(chan struct{})
		go func() { wg.Wait(); close(done) }()
		select {
		case <-done:
		case <-time.After(5 * c13CallTimeout):
			stuck++
			col.Violate("C13 deadlock failed-swap-vs-close", fmt.Sprintf("round %d: a refresh whose store swap fails, Repository.Close and a lookup were started together; not all of them returned within %s", i, 5*c13CallTimeout), nil)
		}
		wrong.Close()
		if stuck == 0 {
			v.Close()
		}
		col.Count("failed-swap-vs-close-round")
	}
	col.Eval("failed-swap-vs-close", true)
}

// c13PersistentSigFailed: the state "last refresh failed signature verification" made to LAST — the location serves a list
// signed with a key no presented chain contains, so the flag is never cleared — while many handshakes for that location
// (each of which enters the signer-certificate retry and asks for the entry's write lock), lookups and ticks run
// concurrently. The old list stays in force: every call returns with the old list's verdict.
func c13PersistentSigFailed(col *concCollector, storage string, seed int64) {
	e := &c13Env{col: col, name: "sigfail-" + storage, storage: storage, fetch: "fetch_actively", rng: rand.New(rand.NewSource(seed))}
	e.ca = NewCA(CAOpts{CN: "C13 SF CA", EC: true})
	e.ca2 = e.ca
	e.origin = NewConcOrigin()
	defer e.origin.Close()
	e.workDir = scratchDir("c13-sf")
	v, err := Provision(VCfg{Mode: "crl_only", WorkDir: e.workDir, Storage: storage, UpdateInterval: "150ms", FetchMode: e.fetch})
	if err != nil {
		col.Violate("C13 provision-failed", fmt.Sprintf("sigfailed %s: %v", storage, err), nil)
		return
	}
	e.v = v
	e.chk = v.V.VerifCRLChecker()
	repo := e.chk.VerifRepository()
	l := e.newLoc("sf", false)
	e.handshake(l.always, e.ca, "always", l, true) // first use: the genuine list comes into force
	stranger := &CA{Cert: e.ca.Cert, Key: newECKey(), Name: e.ca.Name}
	e.origin.SetBytes(l.path, stranger.MakeCRL(CRLOpts{Serials: []*big.Int{l.never.Cert.SerialNumber}, Number: 99}))
	e.call(c13OpForced, "updateCRLsRecovering(true)", func() { e.chk.VerifUpdateCRLsRecovering(true) })
	flagged := false
	for _, en := range repo.VerifEntries() {
		if en.LastUpdateSignatureVerifyFailed {
			flagged = true
		}
	}
	col.Count(fmt.Sprintf("sigfailed-persistent-state-reached:%v", flagged))
	var wg sync.WaitGroup
	for g := 0; g < 12; g++ {
		wg.Add(1)
		go func(g int) {
			defer wg.Done()
			for i := 0; i < 150; i++ {
				if g%2 == 0 {
					e.handshake(l.always, e.ca, "always", l, false)
				} else {
					e.handshake(l.never, e.ca, "never", l, false)
				}
			}
		}(g)
	}
	for g := 0; g < 2; g++ {
		wg.Add(1)
		go func() {
			defer wg.Done()
			for i := 0; i < 6; i++ {
				e.call(c13OpTick, "updateCRLs(true) in the failed-verification state", func() { e.chk.VerifUpdateCRLs(true) })
				time.Sleep(time.Duration(2+e.intn(6)) * time.Millisecond)
			}
		}()
	}
	done := make(chan struct{})
	go func() { wg.Wait(); close(done) }()
	select {
	case <-done:
	case <-time.After(5 * c13CallTimeout):
		col.Violate("C13 deadlock sigfailed-state", fmt.Sprintf("%s: operations still in flight %s after they were started, in the state 'last refresh failed signature verification': %s",
			storage, 5*c13CallTimeout, e.inflightString()), nil)
	}
	col.Eval("sigfailed-persistent/"+storage, flagged)
	e.call(c13OpCleanup, "Cleanup", func() { e.v.Close() })
}

// c13CleanupVsRefresh: a small repository (one configured CRL, one CDP CRL); Cleanup races a forced refresh,
// a tick, a config-CRL update and handshakes that were started just before it. Everything must return and
// nothing may panic; how long the refresh takes once the stores are closed is recorded.
func c13CleanupVsRefresh(col *concCollector, storage string, seed int64, round int) {
	e := &c13Env{col: col, name: "cvr-" + storage, storage: storage, fetch: "fetch_actively", rng: rand.New(rand.NewSource(seed))}
	e.ca = NewCA(CAOpts{CN: "C13 CVR CA", EC: true})
	e.ca2 = e.ca
	e.origin = NewConcOrigin()
	defer e.origin.Close()
	e.workDir = scratchDir("c13-cvr")
	signers := writeFile(scratchDir("c13-signers"), "ca.pem", certPEM(e.ca.Cert))
	e.cfgPath = "/crl/cvr/cfg"
	e.origin.SetBytes(e.cfgPath, e.ca.MakeCRL(CRLOpts{Serials: []*big.Int{big.NewInt(9)}}))
	v, err := Provision(VCfg{Mode: "crl_only", WorkDir: e.workDir, Storage: storage, UpdateInterval: "100ms", FetchMode: e.fetch,
		CRLUrls: []string{e.origin.URL(e.cfgPath)}, TrustedSigners: []string{signers}})
	if err != nil {
		col.Violate("C13 provision-failed", fmt.Sprintf("cleanup-vs-refresh %s: %v", storage, err), nil)
		return
	}
	e.v = v
	e.chk = v.V.VerifCRLChecker()
	repo := e.chk.VerifRepository()
	l := e.newLoc(fmt.Sprintf("c%d", round), false)
	e.handshake(l.always, e.ca, "always", l, true)
	var wg sync.WaitGroup
	t0 := time.Now()
	var refreshTook atomic.Int64
	run := func(f func()) {
		wg.Add(1)
		go func() {
			defer wg.Done()
			time.Sleep(time.Duration(e.intn(4000)) * time.Microsecond)
			f()
		}()
	}
	run(func() {
		s := time.Now()
		e.call(c13OpForced, "updateCRLsRecovering(true) against Cleanup", func() { e.chk.VerifUpdateCRLsRecovering(true) })
		refreshTook.Store(int64(time.Since(s)))
	})
	run(func() {
		e.call(c13OpTick, "updateCRLs(false) against Cleanup", func() { e.chk.VerifUpdateCRLs(false) })
	})
	run(func() {
		chains := core.NewCertificateChains([][]*x509.Certificate{{e.ca.Cert}}, nil)
		e.call(c13OpCfg, "Repository.UpdateCRL against Cleanup", func() {
			_ = repo.UpdateCRL(&core.CRLLocations{CRLUrl: e.origin.URL(e.cfgPath)}, chains)
		})
	})
	for k := 0; k < 3; k++ {
		run(func() {
			e.cleanupAt.CompareAndSwap(0, 1) // verdicts of handshakes racing Cleanup are unconstrained
			e.handshake(l.never, e.ca, "never", l, false)
		})
	}
	run(func() { e.call(c13OpCleanup, "Cleanup", func() { e.v.Close() }) })
	done := make(chan struct{})
	go func() { wg.Wait(); close(done) }()
	select {
	case <-done:
	case <-time.After(5 * c13CallTimeout):
		col.Violate("C13 deadlock cleanup-vs-refresh", fmt.Sprintf("%s: operations still in flight after %s: %s", storage, 5*c13CallTimeout, e.inflightString()), nil)
	}
	col.Eval(fmt.Sprintf("cleanup-vs-refresh/%s", storage), true)
	col.Count(fmt.Sprintf("cleanup-vs-refresh:%s", storage))
	if round == 0 {
		col.Sample(map[string]interface{}{"scenario": "cleanup-vs-refresh", "storage": storage, "forced_refresh_ms": refreshTook.Load() / 1e6, "all_returned_ms": time.Since(t0).Milliseconds()})
	}
	// a second Cleanup must be harmless
	e.call(c13OpCleanup, "second Cleanup", func() { e.v.V.Cleanup() })
}

func c13RunConfig(col *concCollector, c [4]string, seed int64, dur time.Duration) {
	e := &c13Env{col: col, name: c[0], storage: c[1], fetch: c[2], ocsp: c[3] != "", rng: rand.New(rand.NewSource(seed))}
	// every known location is re-fetched by every refresh run, and all runs of the process share one mutex:
	// keep the number of first-use locations proportional to the run time
	e.maxFirst = 12 + int64(dur/(400*time.Millisecond))
	if e.storage == "disk" {
		e.maxFirst = 6 + int64(dur/(1000*time.Millisecond))
	}
	// ... and bounded: one refresh costs O(known locations), the calls queue behind one mutex, so with 160 locations (a
	// thorough run of 60 s under the race detector) a queued refresh waits for minutes without any dead-lock and the
	// watchdog (100 s) fired on the unchanged tree. A longer run adds interleavings, not state.
	if lim := int64(map[bool]int{true: 14, false: 30}[e.storage == "disk"]); e.maxFirst > lim {
		e.maxFirst = lim
	}
	e.ca = NewCA(CAOpts{CN: "C13 CA " + e.name, EC: true})
	e.ca2 = NewCA(CAOpts{CN: "C13 CA " + e.name, EC: true}) // same name, other key: a re-keyed CRL issuer
	e.origin = NewConcOrigin()
	defer e.origin.Close()
	e.workDir = scratchDir("c13-" + e.name)
	signers := writeFile(scratchDir("c13-signers"), "ca.pem", certPEM(e.ca.Cert))
	e.cfgPath = "/crl/" + e.name + "/cfg"
	cfgLeafListed := e.ca.IssueLeaf(LeafOpts{})
	cfgLeafClean := e.ca.IssueLeaf(LeafOpts{})
	e.origin.SetBytes(e.cfgPath, e.ca.MakeCRL(CRLOpts{Serials: []*big.Int{cfgLeafListed.Cert.SerialNumber}}))
	mode := "crl_only"
	if e.ocsp {
		mode = "prefer_crl"
	}
	cfg := VCfg{Mode: mode, WorkDir: e.workDir, Storage: e.storage, UpdateInterval: "300ms", FetchMode: e.fetch,
		CRLUrls: []string{e.origin.URL(e.cfgPath)}, TrustedSigners: []string{signers}, OCSPCacheDur: "40ms"}
	v, err := Provision(cfg)
	if err != nil {
		col.Violate("C13 provision-failed", fmt.Sprintf("config %s: %v", e.name, err), nil)
		return
	}
	e.v = v
	e.chk = v.V.VerifCRLChecker()
	repo := e.chk.VerifRepository()
	for _, n := range []string{"s0", "s1"} {
		e.warm = append(e.warm, e.newLoc(n, false))
	}
	e.warm = append(e.warm, e.newLoc("roll", true))
	if e.ocsp {
		// a responder answering "good" for whatever serial is asked (OCSP lookups run concurrently with cache expiry, 40ms)
		e.origin.SetDyn("/ocsp/"+e.name, func(body []byte) []byte {
			req, err := ocsp.ParseRequest(body)
			if err != nil {
				return ocsp.MalformedRequestErrorResponse
			}
			return e.ca.OCSPResponse(OCSPOpts{Status: ocsp.Good, Serial: req.SerialNumber})
		})
	}
	// warm-up: every shared location comes into force before the stress starts
	for _, l := range e.warm {
		deadline := time.Now().Add(15 * time.Second)
		for !l.confirmed.Load() && time.Now().Before(deadline) {
			verdict, _ := e.v.Verify([][]*x509.Certificate{{l.always.Cert, e.ca.Cert}})
			if verdict == "reject" {
				l.confirmed.Store(true)
			} else {
				time.Sleep(30 * time.Millisecond)
			}
		}
		if !l.confirmed.Load() {
			col.Violate("C13 warmup-never-in-force", fmt.Sprintf("config %s: location %s never came into force", e.name, l.name), nil)
			return
		}
	}
	// the configured CRL is in force since Provision
	cfgLoc := &c13Loc{name: "cfg"}
	cfgLoc.confirmed.Store(true)
	e.handshake(cfgLeafListed, e.ca, "always", cfgLoc, false)

	spawn := func(f func()) {
		e.wg.Add(1)
		go func() {
			defer e.wg.Done()
			defer func() {
				if p := recover(); p != nil {
					col.Violate("C13 harness-panic", fmt.Sprintf("config %s: %v", e.name, p), nil)
				}
			}()
			for !e.stop.Load() {
				f()
			}
		}()
	}
	spawnR := func(f func()) {
		e.wgR.Add(1)
		go func() {
			defer e.wgR.Done()
			defer func() {
				if p := recover(); p != nil {
					col.Violate("C13 harness-panic", fmt.Sprintf("config %s: %v", e.name, p), nil)
				}
			}()
			for !e.stopR.Load() {
				f()
			}
		}()
	}
	sleep := func(lo, hi int) { time.Sleep(time.Duration(lo+e.intn(hi-lo+1)) * time.Millisecond) }
	// handshakes
	for h := 0; h < 4; h++ {
		spawn(func() {
			time.Sleep(time.Duration(100+e.intn(900)) * time.Microsecond) // leave CPU to the refresh goroutines
			switch k := e.intn(100); {
			case k < 45:
				l := e.warm[e.intn(2)]
				switch e.intn(3) {
				case 0:
					e.handshake(l.always, e.ca, "always", l, false)
				case 1:
					e.handshake(l.never, e.ca, "never", l, false)
				default:
					e.handshake(l.flip, e.ca, "flip", l, false)
				}
			case k < 70:
				l := e.warm[2]
				switch e.intn(4) {
				case 0:
					e.handshake(l.always, e.ca, "always", l, false)
				case 1:
					e.handshake(l.never, e.ca, "never", l, false)
				case 2:
					e.handshake(l.flip, e.ca, "flip", l, false)
				default:
					// chain that contains the re-keyed issuer: repairs "last refresh failed signature verification"
					e.handshake(l.alt, e.ca2, "never", l, false)
				}
			case k < 85 && e.firstN.Load() < e.maxFirst:
				n := e.firstN.Add(1)
				l := e.newLoc(fmt.Sprintf("n%d", n), false)
				var wg sync.WaitGroup
				// two first uses of the same new location at once, then the never-listed one
				for _, lf := range []*Leaf{l.always, l.flip} {
					wg.Add(1)
					cls := "always"
					if lf == l.flip {
						cls = "flip"
					}
					go func(lf *Leaf, cls string) {
						defer wg.Done()
						e.handshake(lf, e.ca, cls, l, true)
					}(lf, cls)
				}
				wg.Wait()
				e.handshake(l.never, e.ca, "never", l, true)
			case k < 93:
				e.handshake(cfgLeafClean, e.ca, "nocdp", nil, false)
			default:
				e.handshake(cfgLeafListed, e.ca, "always", cfgLoc, false) // the config CRL is refreshed concurrently; listed in every version
			}
		})
	}
	// ticks, forced refreshes, config-CRL updates, publisher, another validator instance
	spawnR(func() {
		sleep(5, 40)
		e.call(c13OpTick, "updateCRLs(false)", func() { e.chk.VerifUpdateCRLs(false) })
	})
	spawnR(func() {
		sleep(20, 90)
		e.call(c13OpForced, "updateCRLsRecovering(true)", func() { e.chk.VerifUpdateCRLsRecovering(true) })
	})
	spawnR(func() {
		sleep(10, 60)
		chains := core.NewCertificateChains([][]*x509.Certificate{{e.ca.Cert}}, nil)
		if e.intn(2) == 0 {
			loc := &core.CRLLocations{CRLUrl: e.origin.URL(e.cfgPath)}
			e.call(c13OpCfg, "Repository.UpdateCRL(crl_url)", func() { _ = repo.UpdateCRL(loc, chains) })
		} else {
			l := e.warm[e.intn(3)]
			loc := &core.CRLLocations{CRLDistributionPoints: []string{e.origin.URL(l.path)}}
			e.call(c13OpCfg, "Repository.UpdateCRL(cdp)", func() { _ = repo.UpdateCRL(loc, chains) })
		}
	})
	spawnR(func() {
		sleep(30, 110)
		l := e.warm[e.intn(3)]
		e.inflight[c13OpPublish].Add(1)
		e.publish(l, atomic.LoadInt64(&l.version)+1)
		e.inflight[c13OpPublish].Add(-1)
		e.col.Count("op:publish")
	})
	spawnR(func() {
		sleep(40, 160)
		wd := scratchDir("c13-other")
		var ov *Validator
		var perr error
		e.call(c13OpOther, "other instance Provision", func() {
			ov, perr = Provision(VCfg{Mode: "crl_only", WorkDir: wd, Storage: e.storage, UpdateInterval: "200ms", FetchMode: e.fetch,
				CRLUrls: []string{e.origin.URL(e.cfgPath)}, TrustedSigners: []string{signers}})
		})
		if perr != nil || ov == nil {
			if perr != nil {
				e.col.Violate("C13 other-instance-provision-failed", fmt.Sprintf("config %s: %v", e.name, perr), nil)
			}
			return
		}
		e.call(c13OpOther, "other instance handshake", func() {
			vd, _ := ov.Verify([][]*x509.Certificate{{cfgLeafListed.Cert, e.ca.Cert}})
			if vd != "reject" {
				e.col.Violate("C13 verdict-not-sequential class=always want=reject", fmt.Sprintf("config %s: second validator accepted a certificate listed in its configured CRL (%s)", e.name, vd), nil)
			}
		})
		sleep(0, 120)
		e.call(c13OpOther, "other instance Cleanup", func() { ov.Close() })
		os.RemoveAll(wd)
	})
	// sample the "last refresh failed signature verification" state
	spawnR(func() {
		sleep(15, 40)
		for _, en := range repo.VerifEntries() {
			if en.LastUpdateSignatureVerifyFailed {
				e.sigFailed.Add(1)
			}
		}
	})

	time.Sleep(dur)
	// The refresh-type threads stop first: a refresh that meets a closed LevelDB store retries every step
	// 5 x 1 s while holding the process-wide refresh mutex, which would turn the end of the stress into minutes
	// (Cleanup against a refresh in flight is exercised on small repositories by c13CleanupVsRefresh).
	e.stopR.Store(true)
	drained := make(chan struct{})
	go func() { e.wgR.Wait(); close(drained) }()
	select {
	case <-drained:
	case <-time.After(5 * c13CallTimeout):
		col.Violate("C13 deadlock refresh-threads", fmt.Sprintf("config %s: refresh operations still in flight after %s: %s", e.name, 5*c13CallTimeout, e.inflightString()), nil)
	}
	// Cleanup while handshakes (and, in memory, one more forced refresh and config-CRL update) still run
	var tail sync.WaitGroup
	if e.storage == "memory" {
		tail.Add(2)
		go func() {
			defer tail.Done()
			e.call(c13OpForced, "updateCRLsRecovering(true) against Cleanup", func() { e.chk.VerifUpdateCRLsRecovering(true) })
		}()
		go func() {
			defer tail.Done()
			chains := core.NewCertificateChains([][]*x509.Certificate{{e.ca.Cert}}, nil)
			loc := &core.CRLLocations{CRLUrl: e.origin.URL(e.cfgPath)}
			e.call(c13OpCfg, "Repository.UpdateCRL against Cleanup", func() { _ = repo.UpdateCRL(loc, chains) })
		}()
		time.Sleep(time.Duration(e.intn(3)) * time.Millisecond)
	}
	e.cleanupAt.Store(time.Now().UnixNano())
	e.call(c13OpCleanup, "Cleanup", func() { e.v.Close() })
	time.Sleep(150 * time.Millisecond)
	e.stop.Store(true)
	allDone := make(chan struct{})
	go func() { e.wg.Wait(); tail.Wait(); close(allDone) }()
	select {
	case <-allDone:
	case <-time.After(5 * c13CallTimeout):
		col.Violate("C13 deadlock after-cleanup", fmt.Sprintf("config %s: operations still in flight %s after Cleanup: %s", e.name, 5*c13CallTimeout, e.inflightString()), nil)
	}
	if n := crl.VerifWorkDirsInUse()[e.workDir]; n != 0 {
		col.Violate("C13 workdir-still-registered", fmt.Sprintf("config %s: work_dir registered (%d) after Cleanup", e.name, n), nil)
	}
	col.Count(fmt.Sprintf("sigfailed-state-seen:%v", e.sigFailed.Load() > 0))
	col.Sample(map[string]interface{}{"config": e.name, "storage": e.storage, "fetch": e.fetch, "first_use_locations": e.firstN.Load(),
		"sig_failed_state_samples": e.sigFailed.Load(), "origin_fetches_roll": e.origin.Hits(e.warm[2].path), "origin_fetches_cfg": e.origin.Hits(e.cfgPath)})
	if e.sigFailed.Load() == 0 {
		col.Note("config " + e.name + ": the state 'last refresh failed signature verification' was not sampled in this run")
	}
}

// ---- parent --------------------------------------------------------------------------------------

func runC13(r *Run) {
	r.rule = "a checked handshake verdict (config x certificate class x location kind x set of operation kinds in flight) is non-trivial when at least one " +
		"tick / forced refresh / config-CRL update / publish / other-instance / cleanup operation was in flight during it; a lock probe is non-trivial when the operation waited for the held lock"
	ms := 3500
	raceMs := 4000
	if r.Thorough() {
		ms, raceMs = 40000, 60000
	}
	facts, ferr := concLoadLockFacts()
	if ferr != nil {
		r.Note("lock facts not readable: " + ferr.Error())
	}
	// (1a) stress in children built like this binary: a crash of a child is a violation
	noDeadlock, noPanic := true, true
	// the refresh mutex is process-wide and a LevelDB refresh is slow: memory and disk configurations run in
	// separate processes so that the memory ones are not queued behind the disk ones all the time
	groups := [][2]string{{"mem", "mem-act,mem-bg,cvr-memory"}, {"disk", "disk-act,disk-bg,cvr-disk"}}
	var vmu sync.Mutex
	runOne := func(label, bin string, env []string, ms int) *concChildResult {
		out := scratchRoot + "/c13-" + label + ".json"
		env = append(env, "VERIF_C13_CHILD=1", fmt.Sprintf("VERIF_C13_SEED=%d", r.Seed), fmt.Sprintf("VERIF_C13_MS=%d", ms), "VERIF_C13_OUT="+out)
		res, err, tail := concRunChild(bin, env, out, time.Duration(ms)*time.Millisecond*3+10*c13CallTimeout+120*time.Second)
		vmu.Lock()
		defer vmu.Unlock()
		if err != nil || res == nil {
			r.Violate("C13 process-crash "+strings.SplitN(label, "-", 2)[0], fmt.Sprintf("stress child (%s) ended abnormally: %v; output tail: %s", label, err, c13LastLines(tail, 25)), map[string]string{"child": label})
			noPanic = false
		}
		if res != nil {
			r.concMergeChild(label+"/", res)
			for _, v := range res.Violations {
				if strings.HasPrefix(v.Signature, "C13 deadlock") {
					noDeadlock = false
				}
				if strings.HasPrefix(v.Signature, "C13 panic") {
					noPanic = false
				}
			}
		}
		return res
	}
	self, _ := os.Executable()
	var cw sync.WaitGroup
	for _, g := range groups {
		cw.Add(1)
		go func(g [2]string) {
			defer cw.Done()
			runOne("plain-"+g[0], self, []string{"VERIF_C13_CONFIGS=" + g[1]}, ms)
		}(g)
	}

	// (1b) the same stress under the race detector (built while the plain children run)
	raceRan := false
	racyFields := map[string]bool{}
	bin, why := concBuildRaceHarness()
	cw.Wait()
	if bin == "" {
		r.Note("race detector run impossible here: " + why + "; C13 rests on the lockset theorem alone for data races")
	} else {
		logPrefix := scratchRoot + "/race"
		for _, g := range groups {
			cw.Add(1)
			go func(g [2]string) {
				defer cw.Done()
				runOne("race-"+g[0], bin, []string{"VERIF_C13_CONFIGS=" + g[1], "GORACE=halt_on_error=0 log_path=" + logPrefix}, raceMs)
			}(g)
		}
		cw.Wait()
		raceRan = true
		reports, total := concParseRaceLogs(logPrefix, "/repo")
		r.Count(fmt.Sprintf("race-reports-total:%d", total))
		seen := map[string]bool{}
		for _, rep := range reports {
			sig := rep.signature()
			if facts != nil {
				for _, st := range [][]concRaceFrame{rep.A, rep.B} {
					if len(st) > 0 {
						for _, f := range facts.fieldsAt(st[0].File, st[0].Line) {
							racyFields[f] = true
						}
					}
				}
			}
			if seen[sig] {
				continue
			}
			seen[sig] = true
			sites := []string{}
			for _, st := range [][]concRaceFrame{rep.A, rep.B} {
				if len(st) > 0 {
					sites = append(sites, fmt.Sprintf("%s:%d", st[0].File, st[0].Line))
				}
			}
			r.Violate(sig, "race detector: "+strings.Join(sites, " / ")+"\n"+rep.Text, map[string]interface{}{"sites": sites})
		}
		r.Count(fmt.Sprintf("race-reports-in-plugin:%d", len(reports)))
	}

	// (3) side conditions of the model against what the stress showed
	obs := func(b bool) string {
		if b {
			return "ok"
		}
		return "fail"
	}
	r.Op("lock check wf", "ok")
	r.Op("lock check consistent", obs(noPanic))
	r.Op("lock check ordered", obs(noDeadlock))
	r.Op("lock check noSelfAcquire", obs(noDeadlock))
	if raceRan && facts != nil {
		for _, f := range facts.FieldNames {
			r.Op("lock lockset "+f, obs(!racyFields[f]))
		}
	}

	// (2) lock probes
	if facts != nil {
		c13Probes(r)
	}
}

func c13LastLines(s string, n int) string {
	l := strings.Split(strings.TrimSpace(s), "\n")
	if len(l) > n {
		l = l[len(l)-n:]
	}
	return strings.Join(l, " | ")
}

// c13Probes: hold one lock of the real code, run one operation, observe whether it waits for the lock.
func c13Probes(r *Run) {
	type probeOp struct {
		prog string
		name string
		rel  string // same | otherEntry | otherChecker
		run  func(p *c13ProbeEnv)
	}
	for _, storage := range []string{"memory", "disk"} {
		p := newC13ProbeEnv(r, storage)
		if p == nil {
			continue
		}
		ops := []probeOp{
			{"hs", "handshake-cdp", "same", func(p *c13ProbeEnv) { p.v.Verify(p.chainsA) }},
			{"hs", "handshake-nocdp", "same", func(p *c13ProbeEnv) { p.v.Verify(p.chainsNoCDP) }},
			{"update", "forced-refresh", "same", func(p *c13ProbeEnv) { p.chk.VerifUpdateCRLsRecovering(true) }},
			{"updateDirect", "tick", "same", func(p *c13ProbeEnv) { p.chk.VerifUpdateCRLs(false) }},
			{"cfgUpdate", "update-crl-A", "same", func(p *c13ProbeEnv) { p.repo.UpdateCRL(p.locA, p.chains) }},
			{"cfgUpdate", "update-crl-B", "otherEntry", func(p *c13ProbeEnv) { p.repo.UpdateCRL(p.locB, p.chains) }},
			{"provision", "provision-other", "otherChecker", func(p *c13ProbeEnv) {
				if ov, err := Provision(VCfg{Mode: "crl_only", WorkDir: scratchDir("c13-probe-other"), Storage: p.storage, UpdateInterval: "1h"}); err == nil {
					p.others = append(p.others, ov)
				}
			}},
			{"cleanup", "cleanup-other", "otherChecker", func(p *c13ProbeEnv) {
				if len(p.others) > 0 {
					p.others[0].Close()
					p.others = p.others[1:]
				}
			}},
		}
		type held struct {
			lock, mode string
			take       func(p *c13ProbeEnv) func()
		}
		helds := []held{
			{"repoLock", "w", func(p *c13ProbeEnv) func() { return p.repo.VerifHoldRepoLock(true) }},
			{"repoLock", "r", func(p *c13ProbeEnv) func() { return p.repo.VerifHoldRepoLock(false) }},
			{"entryLock", "w", func(p *c13ProbeEnv) func() { f, _ := p.repo.VerifHoldEntryLock(p.idA, true); return f }},
			{"entryLock", "r", func(p *c13ProbeEnv) func() { f, _ := p.repo.VerifHoldEntryLock(p.idA, false); return f }},
			{"updateMutex", "w", func(p *c13ProbeEnv) func() { return crl.VerifHoldUpdateMutex() }},
			{"workDirMutex", "w", func(p *c13ProbeEnv) func() { return crl.VerifHoldWorkDirMutex() }},
		}
		for _, h := range helds {
			for _, op := range ops {
				// make sure there is something to clean up for the cleanup probe
				if op.name == "cleanup-other" && len(p.others) == 0 {
					if ov, err := Provision(VCfg{Mode: "crl_only", WorkDir: scratchDir("c13-probe-other"), Storage: p.storage, UpdateInterval: "1h"}); err == nil {
						p.others = append(p.others, ov)
						time.Sleep(50 * time.Millisecond)
					}
				}
				observed := p.probe(h.take, op.run, op.name+" under "+h.lock+"/"+h.mode)
				if observed == "" {
					continue
				}
				if observed == "blocks" {
					// re-measure once before calling it blocked (a slow machine is not a lock)
					if again := p.probe(h.take, op.run, op.name+" under "+h.lock+"/"+h.mode); again == "returns" {
						observed = "returns"
					}
				}
				r.Op(fmt.Sprintf("lock admits %s %s %s %s %s", op.prog, h.lock, h.mode, op.rel, observed), "yes")
				r.Eval(fmt.Sprintf("probe/%s/%s/%s/%s", storage, op.name, h.lock, h.mode), observed == "blocks")
				r.Count("probe:" + observed)
			}
		}
		p.close()
	}
}

type c13ProbeEnv struct {
	r                    *Run
	storage              string
	origin               *ConcOrigin
	ca                   *CA
	v                    *Validator
	chk                  *crl.CRLRevocationChecker
	repo                 *crlrepository.Repository
	chainsA, chainsNoCDP [][]*x509.Certificate
	locA, locB           *core.CRLLocations
	chains               *core.CertificateChains
	idA                  string
	others               []*Validator
}

func newC13ProbeEnv(r *Run, storage string) *c13ProbeEnv {
	p := &c13ProbeEnv{r: r, storage: storage}
	p.origin = NewConcOrigin()
	p.ca = NewCA(CAOpts{CN: "C13 probe CA " + storage, EC: true})
	leafA := p.ca.IssueLeaf(LeafOpts{CDP: []string{p.origin.URL("/crl/A")}})
	leafB := p.ca.IssueLeaf(LeafOpts{CDP: []string{p.origin.URL("/crl/B")}})
	leafN := p.ca.IssueLeaf(LeafOpts{})
	p.origin.SetBytes("/crl/A", p.ca.MakeCRL(CRLOpts{Serials: []*big.Int{big.NewInt(5)}}))
	p.origin.SetBytes("/crl/B", p.ca.MakeCRL(CRLOpts{Serials: []*big.Int{big.NewInt(6)}}))
	v, err := Provision(VCfg{Mode: "crl_only", WorkDir: scratchDir("c13-probe"), Storage: storage, UpdateInterval: "1h", FetchMode: "fetch_actively"})
	if err != nil {
		r.Violate("C13 provision-failed", "probe validator: "+err.Error(), nil)
		return nil
	}
	p.v = v
	p.chk = v.V.VerifCRLChecker()
	p.repo = p.chk.VerifRepository()
	p.chainsA = [][]*x509.Certificate{{leafA.Cert, p.ca.Cert}}
	p.chainsNoCDP = [][]*x509.Certificate{{leafN.Cert, p.ca.Cert}}
	p.locA = &core.CRLLocations{CRLDistributionPoints: []string{p.origin.URL("/crl/A")}}
	p.locB = &core.CRLLocations{CRLDistributionPoints: []string{p.origin.URL("/crl/B")}}
	p.chains = core.NewCertificateChains([][]*x509.Certificate{{p.ca.Cert}}, nil)
	time.Sleep(100 * time.Millisecond) // the ticker goroutine's initial run
	// load A alone, remember its identifier, then B
	p.v.Verify(p.chainsA)
	ids := p.repo.VerifIdentifiers()
	if len(ids) != 1 {
		r.Note(fmt.Sprintf("probe setup (%s): expected one entry after the first handshake, got %d", storage, len(ids)))
		p.close()
		return nil
	}
	p.idA = ids[0]
	p.v.Verify([][]*x509.Certificate{{leafB.Cert, p.ca.Cert}})
	return p
}

func (p *c13ProbeEnv) close() {
	for _, o := range p.others {
		o.Close()
	}
	p.v.Close()
	p.origin.Close()
}

// probe returns "blocks" or "returns" ("" if the probe could not be performed).
func (p *c13ProbeEnv) probe(take func(*c13ProbeEnv) func(), op func(*c13ProbeEnv), what string) string {
	release := take(p)
	if release == nil {
		return ""
	}
	done := make(chan string, 1)
	go func() {
		defer func() {
			if x := recover(); x != nil {
				done <- fmt.Sprint(x)
				return
			}
			done <- ""
		}()
		op(p)
	}()
	observed := ""
	select {
	case pn := <-done:
		observed = "returns"
		release()
		if pn != "" {
			p.r.Violate("C13 panic probe", what+": "+pn, nil)
		}
		return observed
	case <-time.After(500 * time.Millisecond):
		observed = "blocks"
	}
	release()
	select {
	case pn := <-done:
		if pn != "" {
			p.r.Violate("C13 panic probe", what+": "+pn, nil)
		}
	case <-time.After(c13CallTimeout):
		p.r.Violate("C13 deadlock probe", what+": the operation did not return within "+c13CallTimeout.String()+" after the held lock was released", nil)
	}
	return observed
}
