package main

import (
	"bufio"
	"bytes"
	"crypto"
	"crypto/x509"
	"crypto/x509/pkix"
	"encoding/asn1"
	"fmt"
	"math/rand"
	"os"
	"os/exec"
	"runtime"
	"strings"
	"time"

	"github.com/gr33nbl00d/caddy-revocation-validator/core"
	"github.com/gr33nbl00d/caddy-revocation-validator/core/asn1parser"
)

func init() {
	register("C07", runC07)
	if p := os.Getenv("VERIF_C07_CHILD"); p != "" {
		// child role: read one file with the real reader and report the class; a fatal runtime error
		// (stack exhaustion, out of memory) kills this process and is seen by the parent as a crash
		ir := implReadCRL(p)
		fmt.Println("C07CHILD", ir.class)
		os.Exit(0)
	}
}

type c07Input struct {
	kind string
	data []byte
}

// allocation a single read may legitimately cause: proportional to the input actually present plus a constant
func c07AllocBudget(n int) uint64 { return 96<<20 + uint64(n)*4096 }

func c07Valid(rng *rand.Rand, n int) []byte {
	s := genC06Spec(rng, n, rng.Intn(200))
	der, _ := s.Build()
	return der
}

func c07Mutate(rng *rand.Rand, der []byte) ([]byte, string) {
	b := append([]byte{}, der...)
	if len(b) == 0 {
		return b, "empty"
	}
	// positions of plausible length bytes: walk the top-level structure roughly
	pos := rng.Intn(len(b))
	switch rng.Intn(9) {
	case 0: // tag swap
		tags := []byte{0x30, 0x31, 0x02, 0x03, 0x04, 0x05, 0x06, 0x17, 0x18, 0xA0, 0xA1, 0x80, 0x00, 0xFF}
		b[pos] = tags[rng.Intn(len(tags))]
		return b, "tagswap"
	case 1: // long-form length header with k length bytes inserted at pos
		k := 1 + rng.Intn(15)
		hdr := []byte{0x80 | byte(k)}
		val := make([]byte, k)
		switch rng.Intn(4) {
		case 0:
			rng.Read(val)
		case 1: // 2^31
			if k >= 4 {
				val[k-4] = 0x80
			} else {
				val[0] = 0xff
			}
		case 2: // >= 2^63
			for i := range val {
				val[i] = 0xff
			}
		case 3: // small value, non-minimal
			val[k-1] = byte(rng.Intn(256))
		}
		hdr = append(hdr, val...)
		if pos+1 < len(b) {
			nb := append(append(append([]byte{}, b[:pos+1]...), hdr...), b[pos+2:]...)
			return nb, "lenform"
		}
		return b, "lenform"
	case 2: // 0x80..0x8f / 0x90..0xff first length byte
		b[pos] = 0x80 | byte(rng.Intn(128))
		return b, "lenbyte"
	case 3: // truncate
		return b[:pos], "truncate"
	case 4: // bit flip
		b[pos] ^= 1 << uint(rng.Intn(8))
		return b, "bitflip"
	case 5: // splice a huge-length primitive where a value is expected
		prim := []byte{[]byte{0x17, 0x03, 0x02, 0x04}[rng.Intn(4)], 0x84, 0x7f, 0xff, 0xff, 0xff}
		if rng.Intn(2) == 0 {
			prim = []byte{prim[0], 0x88, 0xff, 0xff, 0xff, 0xff, 0xff, 0xff, 0xff, 0xff}
		}
		nb := append(append(append([]byte{}, b[:pos]...), prim...), b[pos:]...)
		return nb, "hugeprim"
	case 6: // nesting: wrap a slice in SEQUENCEs many times
		inner := b[pos:]
		for i := 0; i < 1+rng.Intn(40); i++ {
			inner = derSeq(inner)
		}
		return append(append([]byte{}, b[:pos]...), inner...), "nest"
	case 7: // delete a byte range
		end := pos + rng.Intn(20)
		if end > len(b) {
			end = len(b)
		}
		return append(append([]byte{}, b[:pos]...), b[end:]...), "delete"
	default: // random overwrite of a few bytes
		for i := 0; i < 1+rng.Intn(6); i++ {
			b[rng.Intn(len(b))] = byte(rng.Intn(256))
		}
		return b, "overwrite"
	}
}

func c07PEMCases(rng *rand.Rand, der []byte) []c07Input {
	p := pemEncode("X509 CRL", der, false)
	lines := strings.Split(string(p), "\n")
	var out []c07Input
	out = append(out, c07Input{"pem-valid", p})
	out = append(out, c07Input{"pem-no-final-newline", bytes.TrimRight(p, "\n")})
	out = append(out, c07Input{"pem-only-begin", []byte("-----BEGIN X509 CRL-----\n")})
	out = append(out, c07Input{"pem-only-armour-lines", []byte(strings.Repeat("-----BEGIN X509 CRL-----\n", 2000))})
	out = append(out, c07Input{"pem-no-end", []byte(strings.Join(lines[:len(lines)-2], "\n") + "\n")})
	long := "-----BEGIN X509 CRL-----\n" + strings.Repeat("A", 5000) + "\n-----END X509 CRL-----\n"
	out = append(out, c07Input{"pem-long-line", []byte(long)})
	out = append(out, c07Input{"pem-long-line-no-newline", []byte("-----BEGIN X509 CRL-----\n" + strings.Repeat("QUJD", 3000))})
	bad := []byte(strings.Join(lines, "\n"))
	if len(bad) > 80 {
		bad[60] = '!'
	}
	out = append(out, c07Input{"pem-bad-base64-char", bad})
	out = append(out, c07Input{"pem-armour-lowercase", []byte(strings.Replace(string(p), "BEGIN X509 CRL", "begin x509 crl", 1))})
	out = append(out, c07Input{"pem-garbage-body", []byte("-----BEGIN X509 CRL-----\n" + strings.Repeat("////\n", 50) + "-----END X509 CRL-----\n")})
	out = append(out, c07Input{"pem-crlf-truncated", pemEncode("X509 CRL", der, true)[:len(p)/2]})
	for i := 0; i < 6; i++ {
		q := append([]byte{}, p...)
		q = q[:rng.Intn(len(q))]
		out = append(out, c07Input{"pem-truncate", q})
	}
	for i := 0; i < 6; i++ {
		q := append([]byte{}, p...)
		q[rng.Intn(len(q))] = byte(rng.Intn(256))
		out = append(out, c07Input{"pem-overwrite", q})
	}
	return out
}

func runC07(r *Run) {
	r.rule = "hostile byte strings offered as a CRL (random bytes, every truncation of valid CRLs, structure-aware mutations: tag swaps, " +
		"length edits incl. 0x80..0x8f forms, 1..15 length bytes, 2^31 and >=2^63 values, nesting, inner elements claiming 2^27..2^32 bytes inside honest outer lengths; PEM with broken armour/long lines/missing newline/" +
		"only armour lines; empty file) through the real ReadCRL under recover + allocation accounting + watchdog, class compared with the Lean model; " +
		"plus hostile values through ParseOctetString/ReadBigInt/ParseBitString/ReadUtcTime/ParseRDNSequence; non-trivial = the reader got past the outer header"
	rng := r.Rng
	var inputs []c07Input
	inputs = append(inputs, c07Input{"empty", nil}, c07Input{"one-byte", []byte{0x30}}, c07Input{"nul", []byte{0}})
	// the historical witnesses (corpus)
	inputs = append(inputs,
		c07Input{"corpus-hugeprim-utc", append(append([]byte{0x30, 0x82, 0x01, 0x00, 0x30, 0x81, 0x80, 0x30, 0x03, 0x06, 0x01, 0x2a, 0x30, 0x02, 0x31, 0x00}, []byte{0x17, 0x84, 0x7f, 0xff, 0xff, 0xff}...), make([]byte, 300)...)},
		c07Input{"corpus-negative-len", []byte{0x30, 0x10, 0x30, 0x0e, 0x30, 0x03, 0x06, 0x01, 0x2a, 0x30, 0x02, 0x31, 0x00, 0x17, 0x88, 0xff, 0xff, 0xff, 0xff, 0xff, 0xff, 0xff, 0xff}})
	nValid := 12
	nMut := 6000
	nRand := 1500
	if r.Thorough() {
		nValid, nMut, nRand = 60, 400000, 50000
	}
	var valids [][]byte
	for i := 0; i < nValid; i++ {
		n := []int{0, 1, 2, 5, 20}[rng.Intn(5)]
		v := c07Valid(rand.New(rand.NewSource(rng.Int63())), n)
		valids = append(valids, v)
		inputs = append(inputs, c07Input{"valid", v})
	}
	// every truncation of two small valid CRLs (one without extensions / v1)
	for k, v := range valids[:2] {
		_ = k
		for cut := 0; cut < len(v); cut++ {
			inputs = append(inputs, c07Input{"truncation", v[:cut]})
		}
	}
	s1 := genC06Spec(rand.New(rand.NewSource(99)), 2, 0)
	s1.Version, s1.Exts = 0, nil
	for i := range s1.Entries {
		s1.Entries[i].Exts = nil
	}
	v1, _ := s1.Build()
	for cut := 0; cut < len(v1); cut++ {
		inputs = append(inputs, c07Input{"truncation-v1", v1[:cut]})
	}
	for i := 0; i < nMut; i++ {
		m, kind := c07Mutate(rng, valids[rng.Intn(len(valids))])
		if rng.Intn(3) == 0 {
			m, _ = c07Mutate(rng, m)
			kind += "+2"
		}
		inputs = append(inputs, c07Input{"mut-" + kind, m})
	}
	nLie := 250
	if r.Thorough() {
		nLie = 6000
	}
	for i := 0; i < nLie; i++ {
		if m := c07LengthLie(rng, valids[rng.Intn(len(valids))]); m != nil {
			inputs = append(inputs, c07Input{"mut-lengthlie", m})
		}
	}
	for i := 0; i < nRand; i++ {
		b := make([]byte, rng.Intn(200))
		rng.Read(b)
		if rng.Intn(2) == 0 && len(b) > 2 {
			b[0] = 0x30
		}
		inputs = append(inputs, c07Input{"random", b})
	}
	inputs = append(inputs, c07PEMCases(rng, valids[0])...)

	dir := scratchDir("c07")
	d, derr := NewDriver()
	if derr != nil {
		r.Note("model driver unavailable: " + derr.Error())
	} else {
		defer d.Close()
	}
	path := writeTemp(dir, "in.crl", nil)
	var ms runtime.MemStats
	for i, in := range inputs {
		must(os.WriteFile(path, in.data, 0600))
		runtime.ReadMemStats(&ms)
		before := ms.TotalAlloc
		done := make(chan implRead, 1)
		go func() { done <- implReadCRL(path) }()
		var ir implRead
		select {
		case ir = <-done:
		case <-time.After(20 * time.Second):
			r.Violate("C07 hang", fmt.Sprintf("%s: reading did not return within 20 s", in.kind), map[string]string{"kind": in.kind, "file_hex": hexs(in.data)})
			r.Note("aborting C07 after a hang")
			return
		}
		runtime.ReadMemStats(&ms)
		delta := ms.TotalAlloc - before
		key := fmt.Sprintf("%x", digestOf(crypto.SHA256, in.data)[:8])
		r.Eval(key, len(ir.proc.entries) > 0 || ir.proc.meta != nil || ir.class == "ok")
		r.Count("kind:" + strings.SplitN(in.kind, "+", 2)[0])
		r.Count("impl:" + ir.class)
		replay := map[string]string{"kind": in.kind, "file_hex": truncate(hexs(in.data), 4000)}
		if ir.class == "panic" {
			r.Violate("C07 panic", fmt.Sprintf("%s: reading panicked: %v", in.kind, ir.panicV), replay)
		}
		if delta > c07AllocBudget(len(in.data)) {
			r.Violate("C07 unbacked-allocation", fmt.Sprintf("%s: %d bytes of input made the reader allocate %d bytes", in.kind, len(in.data), delta), replay)
		}
		// model: DER path only (the PEM layer is checked by the pem cases of C06 and the classes above)
		if d != nil && !looksPEM(in.data) && len(in.data) < 200000 {
			m, err := modelReadCRL(d, in.data)
			if err != nil {
				r.Violate("C07 driver-failed", err.Error(), nil)
				d = nil
				continue
			}
			obs := m.answer
			if mm := c06CompareModel(ir, m, in.data); mm != "" {
				obs = "MISMATCH impl=" + ir.class + " " + mm
			}
			r.Op(m.opLine, obs)
			r.Count("model:" + m.class)
		}
		if i < 4 {
			r.Sample(map[string]interface{}{"kind": in.kind, "bytes": len(in.data), "impl": ir.class, "alloc": delta})
		}
	}
	c07Values(r)
	c07Candidates(r)
	c07FatalChild(r, dir)
}

func looksPEM(b []byte) bool {
	line := b
	if i := bytes.IndexByte(b, '\n'); i >= 0 {
		line = b[:i]
	}
	return bytes.HasPrefix(line, []byte("-----"))
}

// c07Values: hostile values through the helper parsers that see attacker-influenced bytes outside ReadCRL
// (key identifiers, CRL number, names reaching the chain matcher).
func c07Values(r *Run) {
	rng := r.Rng
	n := 3000
	if r.Thorough() {
		n = 200000
	}
	var ms runtime.MemStats
	for i := 0; i < n; i++ {
		var v []byte
		tag := []byte{0x04, 0x02, 0x03, 0x17, 0x30}[rng.Intn(5)]
		switch rng.Intn(5) {
		case 0:
			v = derTLV(tag, make([]byte, rng.Intn(40)))
		case 1:
			v = []byte{tag, 0x84, 0x7f, 0xff, 0xff, 0xff, 1, 2, 3}
		case 2:
			v = append([]byte{tag, 0x80 | byte(8+rng.Intn(8))}, bytes.Repeat([]byte{0xff}, 15)...)
		case 3:
			v = make([]byte, rng.Intn(30))
			rng.Read(v)
		case 4:
			v = []byte{tag, 0x83, 0x01, 0x40, 0x01} // 81921: one over the cap
		}
		runtime.ReadMemStats(&ms)
		before := ms.TotalAlloc
		class := func() (c string) {
			defer func() {
				if p := recover(); p != nil {
					c = fmt.Sprintf("panic: %v", p)
				}
			}()
			rd := func() *bufio.Reader { return bufio.NewReader(bytes.NewReader(v)) }
			asn1parser.ParseOctetString(rd())
			asn1parser.ReadBigInt(rd())
			asn1parser.ParseBitString(rd())
			asn1parser.ReadUtcTime(rd())
			asn1parser.ParseRDNSequence(v)
			return "returned"
		}()
		runtime.ReadMemStats(&ms)
		delta := ms.TotalAlloc - before
		r.Eval("val/"+hexs(v), true)
		r.Count("value:" + strings.SplitN(class, ":", 2)[0])
		if class != "returned" {
			r.Violate("C07 panic value-parser", fmt.Sprintf("value %s: %s", hexs(v), class), map[string]string{"value_hex": hexs(v)})
		}
		if delta > c07AllocBudget(len(v)) {
			r.Violate("C07 unbacked-allocation value-parser", fmt.Sprintf("value %s allocated %d bytes", hexs(v), delta), map[string]string{"value_hex": hexs(v)})
		}
	}
}

// c07Candidates: the authority key identifier of a CRL is attacker-supplied and is parsed *after* the reader is done, when the
// signer is looked for (handshake path: IsRevoked -> AddCRL -> loadCRL -> verifyCRLSignature, which has no recover of its own).
// Every combination of the three optional fields (also the ones RFC 5280 rules out: a name without a serial, a serial without
// a name, nothing at all), every GeneralName kind, wrong tags, truncations and garbage, against chains with and without
// subject key identifiers: the search returns candidates or an error.
func c07Candidates(r *Run) {
	rng := r.Rng
	ca := NewCA(CAOpts{CN: "C07 cand CA", EC: true})
	noSki := NewCA(CAOpts{CN: "C07 cand no ski", EC: true, Parent: ca})
	leaf := ca.IssueLeaf(LeafOpts{})
	var issuer pkix.RDNSequence
	if _, err := asn1.Unmarshal(ca.Cert.RawSubject, &issuer); err != nil {
		panic(err)
	}
	chainSets := []*core.CertificateChains{
		core.NewCertificateChains([][]*x509.Certificate{{leaf.Cert, ca.Cert}}, nil),
		core.NewCertificateChains([][]*x509.Certificate{{leaf.Cert, noSki.Cert, ca.Cert}}, []*x509.Certificate{ca.Cert}),
		core.NewCertificateChains(nil, nil),
		core.NewCertificateChains([][]*x509.Certificate{{}}, nil),
	}
	serial := ca.Cert.SerialNumber.Bytes()
	part := func(kind int) []byte {
		switch kind {
		case 0:
			return derTLV(0x80, ca.Cert.SubjectKeyId)
		case 1:
			return derTLV(0xA1, derTLV(0xA4, ca.Cert.RawIssuer))
		case 2:
			return derTLV(0x82, serial)
		case 3:
			return derTLV(0xA1, derTLV(0x86, []byte("http://ca.example/")))
		case 4:
			return derTLV(0xA1) // empty GeneralNames
		case 5:
			return derTLV(0xA1, derTLV(0xA4)) // empty directoryName
		case 6:
			return derTLV(0xA1, derTLV(0xA4, []byte{0x31, 0x84, 0x7f, 0xff, 0xff, 0xff}))
		case 7:
			return derTLV(0x82) // empty INTEGER
		case 8:
			return derTLV(0x80) // empty key id
		case 9:
			return derTLV(0xA1, derTLV(0xA4, ca.Cert.RawIssuer), derTLV(0x86, []byte("x")))
		case 10:
			return derTLV(0x82, append([]byte{0xff}, serial...))
		}
		return derTLV(byte(0x80+rng.Intn(0x40)), make([]byte, rng.Intn(6)))
	}
	var values [][]byte
	// every subset of the three regular fields, in order
	for m := 0; m < 8; m++ {
		var ps [][]byte
		for b := 0; b < 3; b++ {
			if m&(1<<b) != 0 {
				ps = append(ps, part(b))
			}
		}
		values = append(values, derSeq(ps...))
	}
	// irregular fields alone and next to regular ones
	for k := 3; k <= 10; k++ {
		values = append(values, derSeq(part(k)), derSeq(part(0), part(k)), derSeq(part(k), part(2)), derSeq(part(0), part(k), part(2)))
	}
	n := 1500
	if r.Thorough() {
		n = 60000
	}
	for i := 0; i < n; i++ {
		var ps [][]byte
		for j, k := 0, rng.Intn(4); j < k; j++ {
			ps = append(ps, part(rng.Intn(12)))
		}
		v := derSeq(ps...)
		switch rng.Intn(6) {
		case 0:
			if len(v) > 2 {
				v = v[:2+rng.Intn(len(v)-2)]
			}
		case 1:
			v = append([]byte{}, v...)
			v[rng.Intn(len(v))] ^= byte(1 << uint(rng.Intn(8)))
		case 2:
			v = make([]byte, rng.Intn(24))
			rng.Read(v)
		}
		values = append(values, v)
	}
	for _, v := range values {
		for ci, chains := range chainSets {
			exts := []pkix.Extension{{Id: oidAKI, Value: v}}
			class := func() (c string) {
				defer func() {
					if p := recover(); p != nil {
						c = fmt.Sprintf("panic: %v", p)
					}
				}()
				cands, err := core.FindCertificateIssuerCandidates(&issuer, &exts, x509.ECDSA, chains)
				if err != nil {
					return "error"
				}
				for _, cd := range cands {
					if cd == nil || cd.Certificate == nil {
						return "panic: nil candidate returned"
					}
				}
				return fmt.Sprintf("candidates=%d", len(cands))
			}()
			r.Eval(fmt.Sprintf("cand/%d/%s", ci, hexs(v)), true)
			r.Count("candidate-search:" + strings.SplitN(class, ":", 2)[0])
			if strings.HasPrefix(class, "panic") {
				r.Violate("C07 panic candidate-search", fmt.Sprintf("authorityKeyIdentifier %s, chain set %d: %s", hexs(v), ci, class), map[string]string{"aki_hex": hexs(v)})
			}
		}
	}
}

// c07FatalChild: inputs whose failure mode would be a fatal runtime error (not recoverable) run in a child process.
func c07FatalChild(r *Run, dir string) {
	lines := 400000
	if r.Thorough() {
		lines = 6000000
	}
	cases := map[string][]byte{
		"pem-many-armour-lines": []byte(strings.Repeat("-----BEGIN X509 CRL-----\n", lines)),
	}
	for kind, data := range cases {
		p := writeTemp(dir, "fatal.crl", data)
		cmd := exec.Command(os.Args[0])
		cmd.Env = append(os.Environ(), "VERIF_C07_CHILD="+p, "GOMEMLIMIT=2GiB")
		out, err := cmd.CombinedOutput()
		r.Eval("fatal/"+kind, true)
		r.Count("child:" + kind)
		if err != nil || !bytes.Contains(out, []byte("C07CHILD")) {
			tail := string(out)
			if len(tail) > 400 {
				tail = tail[:400]
			}
			r.Violate("C07 process-killed "+kind, fmt.Sprintf("%s (%d bytes): the reading process died: %v %s", kind, len(data), err, tail), map[string]string{"kind": kind, "lines": fmt.Sprint(lines)})
		}
		os.Remove(p)
	}
}
