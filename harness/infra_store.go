package main

// Helpers for the storage properties (C18, C09): real stores through the real factories, canonical
// observations of the CRLStore getters, op lines of the Lean `kv` stream, value generators.

import (
	"crypto/x509/pkix"
	"encoding/asn1"
	"fmt"
	"math/big"
	"math/rand"
	"sync"
	"time"

	"github.com/gr33nbl00d/caddy-revocation-validator/core"
	"github.com/gr33nbl00d/caddy-revocation-validator/core/hashing"
	"github.com/gr33nbl00d/caddy-revocation-validator/crl/crlreader"
	"github.com/gr33nbl00d/caddy-revocation-validator/crl/crlstore"
	"go.uber.org/zap"
)

// opBuf collects the lines of one case; flush appends them to the run in one block so that cases running
// in parallel do not interleave on the (sequential, stateful) model driver.
type opBuf struct {
	ops, obs []string
}

func (b *opBuf) add(op, obs string) {
	b.ops = append(b.ops, op)
	b.obs = append(b.obs, obs)
}

func (b *opBuf) flush(r *Run) {
	r.mu.Lock()
	defer r.mu.Unlock()
	r.ops = append(r.ops, b.ops...)
	r.impl = append(r.impl, b.obs...)
	b.ops, b.obs = nil, nil
}

var ser = crlstore.ASN1Serializer{}

func storeFactory(kind string, dir string) crlstore.Factory {
	t := crlstore.Map
	if kind == "ldb" {
		t = crlstore.LevelDB
	}
	f, err := crlstore.CreateStoreFactory(t, dir, zap.NewNop())
	must(err)
	return f
}

// guarded runs f and turns a panic into the observation "panic".
func guarded(f func() string) (obs string) {
	defer func() {
		if p := recover(); p != nil {
			obs = "panic"
		}
	}()
	return f()
}

func wobs(err error) string {
	if err != nil {
		return "error"
	}
	return "ok"
}

func issuerStr(iss *pkix.RDNSequence) string { return iss.String() }

// kvStore is one real store plus its name in the model stream.
type kvStore struct {
	sid   string
	kind  string // map | ldb
	st    crlstore.CRLStore
	f     crlstore.Factory
	ident string
}

func newKvStore(b *opBuf, sid, kind string, f crlstore.Factory, ident string, temporary bool) *kvStore {
	st, err := f.CreateStore(ident, temporary)
	line := "kv new " + sid + " map"
	if kind == "ldb" {
		line = fmt.Sprintf("kv new %s ldb %s %v", sid, ident, temporary)
	}
	b.add(line, wobs(err))
	if err != nil {
		return nil
	}
	return &kvStore{sid: sid, kind: kind, st: st, f: f, ident: ident}
}

func (k *kvStore) start(b *opBuf, m *crlreader.CRLMetaInfo) {
	val, err := ser.SerializeMetaInfo(m)
	obs := guarded(func() string { return wobs(k.st.StartUpdateCrl(m)) })
	if err != nil {
		return // not serializable: nothing the model could be told; the caller's oracle looks at the error
	}
	markBad(b, "meta", val)
	b.add("kv start "+k.sid+" "+hexs(val), obs)
}

func (k *kvStore) ins(b *opBuf, iss *pkix.RDNSequence, e *pkix.RevokedCertificate) {
	val, err := ser.SerializeRevokedCert(e)
	obs := guarded(func() string {
		return wobs(k.st.InsertRevokedCert(&crlreader.CRLEntry{Issuer: iss, RevokedCertificate: e}))
	})
	if err != nil {
		return
	}
	markBad(b, "entry", val)
	b.add(fmt.Sprintf("kv ins %s %s %s %s", k.sid, hexs([]byte(issuerStr(iss))), e.SerialNumber.String(), hexs(val)), obs)
}

func (k *kvStore) ext(b *opBuf, x *crlreader.ExtendedCRLMetaInfo) {
	val, err := ser.SerializeMetaInfoExt(x)
	obs := guarded(func() string { return wobs(k.st.UpdateExtendedMetaInfo(x)) })
	if err != nil {
		return
	}
	markBad(b, "ext", val)
	b.add("kv ext "+k.sid+" "+hexs(val), obs)
}

func (k *kvStore) sig(b *opBuf, raw []byte) {
	obs := guarded(func() string {
		return wobs(k.st.UpdateSignatureCertificate(&core.CertificateChainEntry{RawCertificate: raw}))
	})
	markBad(b, "sig", raw)
	b.add("kv sig "+k.sid+" "+hexs(raw), obs)
}

func (k *kvStore) loc(b *opBuf, l *core.CRLLocations) {
	val, err := ser.SerializeCRLLocations(l)
	obs := guarded(func() string { return wobs(k.st.UpdateCRLLocations(l)) })
	if err != nil {
		return
	}
	markBad(b, "loc", val)
	b.add("kv loc "+k.sid+" "+hexs(val), obs)
}

// lookupObs canonicalises GetCertRevocationStatus: revoked <DER of the returned entry> | absent | error.
func lookupObs(st crlstore.CRLStore, iss *pkix.RDNSequence, serial *big.Int) (obs string, entry *pkix.RevokedCertificate) {
	obs = guarded(func() string {
		status, err := st.GetCertRevocationStatus(iss, serial)
		if err != nil {
			return "error"
		}
		if status == nil {
			return "nil-status"
		}
		if !status.Revoked {
			return "absent"
		}
		if status.CRLRevokedCertEntry == nil {
			return "revoked-without-entry"
		}
		entry = status.CRLRevokedCertEntry
		der, err := asn1.Marshal(*status.CRLRevokedCertEntry)
		if err != nil {
			return "revoked unmarshalable"
		}
		return "revoked " + hexs(der)
	})
	return
}

func (k *kvStore) get(b *opBuf, iss *pkix.RDNSequence, serial *big.Int) (string, *pkix.RevokedCertificate) {
	obs, e := lookupObs(k.st, iss, serial)
	b.add(fmt.Sprintf("kv get %s %s %s", k.sid, hexs([]byte(issuerStr(iss))), serial.String()), obs)
	return obs, e
}

type slotVals struct {
	meta *crlreader.CRLMetaInfo
	ext  *crlreader.ExtendedCRLMetaInfo
	sig  []byte
	loc  *core.CRLLocations
	obs  [4]string
}

func someHex(v interface{}) string {
	der, err := asn1.Marshal(v)
	if err != nil {
		return "some unmarshalable"
	}
	return "some " + hexs(der)
}

// slots reads the four metadata getters.
func (k *kvStore) slots(b *opBuf) slotVals {
	var sv slotVals
	sv.obs[0] = guarded(func() string {
		m, err := k.st.GetCRLMetaInfo()
		if err != nil {
			return "none"
		}
		sv.meta = m
		return someHex(*m)
	})
	b.add("kv meta? "+k.sid, sv.obs[0])
	sv.obs[1] = guarded(func() string {
		x, err := k.st.GetCRLExtMetaInfo()
		if err != nil {
			return "none"
		}
		sv.ext = x
		return someHex(*x)
	})
	b.add("kv ext? "+k.sid, sv.obs[1])
	sv.obs[2] = guarded(func() string {
		c, err := k.st.GetCRLSignatureCert()
		if err != nil {
			return "none"
		}
		sv.sig = c.RawCertificate
		return "some " + hexs(c.RawCertificate)
	})
	b.add("kv sig? "+k.sid, sv.obs[2])
	sv.obs[3] = guarded(func() string {
		l, err := k.st.GetCRLLocations()
		if err != nil {
			return "none"
		}
		sv.loc = l
		return someHex(*l)
	})
	b.add("kv loc? "+k.sid, sv.obs[3])
	return sv
}

func (k *kvStore) empty(b *opBuf) bool {
	var e bool
	obs := guarded(func() string { e = k.st.IsEmpty(); return fmt.Sprint(e) })
	b.add("kv empty? "+k.sid, obs)
	return e
}

func (k *kvStore) replace(b *opBuf, other *kvStore) string {
	obs := guarded(func() string { return wobs(k.st.Update(other.st)) })
	b.add("kv replace "+k.sid+" "+other.sid, obs)
	return obs
}

func (k *kvStore) close(b *opBuf) {
	b.add("kv close "+k.sid, guarded(func() string { k.st.Close(); return "ok" }))
}

func (k *kvStore) delete(b *opBuf) {
	b.add("kv delete "+k.sid, guarded(func() string { return wobs(k.st.Delete()) }))
}

// reopen = Close, then CreateStore on the same identifier (disk only).
func (k *kvStore) reopen(b *opBuf) {
	obs := guarded(func() string {
		k.st.Close()
		st, err := k.f.CreateStore(k.ident, false)
		if err != nil {
			return "error"
		}
		k.st = st
		return "ok"
	})
	b.add("kv reopen "+k.sid, obs)
}

// markBad tells the model's deserializer oracle when the real deserializer rejects the bytes about to be stored.
func markBad(b *opBuf, kind string, raw []byte) bool {
	var err error
	switch kind {
	case "entry":
		_, err = ser.DeserializeRevokedCert(raw)
	case "meta":
		_, err = ser.DeserializeMetaInfo(raw)
	case "ext":
		_, err = ser.DeserializeMetaInfoExt(raw)
	case "sig":
		_, err = ser.DeserializeSignatureCert(raw)
	case "loc":
		_, err = ser.DeserializeCRLLocations(raw)
	}
	if err != nil {
		b.add("kv bad "+kind+" "+hexs(raw), "ok")
		return true
	}
	return false
}

// markBadIfUndecodable tells the model's deserializer oracle what the real deserializer says about raw bytes.
func markBadEntry(b *opBuf, raw []byte) bool {
	_, err := ser.DeserializeRevokedCert(raw)
	if err != nil {
		b.add("kv bad entry "+hexs(raw), "ok")
		return true
	}
	return false
}

func sum64(key string) []byte { return hashing.Sum64(key) }

// ---- value generators ---------------------------------------------------------------------------

func rdn(attrs ...pkix.AttributeTypeAndValue) pkix.RDNSequence {
	var seq pkix.RDNSequence
	for _, a := range attrs {
		seq = append(seq, pkix.RelativeDistinguishedNameSET{a})
	}
	return seq
}

var (
	stOidCN = asn1.ObjectIdentifier{2, 5, 4, 3}
	stOidO  = asn1.ObjectIdentifier{2, 5, 4, 10}
	stOidC  = asn1.ObjectIdentifier{2, 5, 4, 6}
	stOidX  = asn1.ObjectIdentifier{1, 2, 3, 4, 5}
)

func cn(s string) pkix.RDNSequence {
	return rdn(pkix.AttributeTypeAndValue{Type: stOidCN, Value: s})
}

// issuerShapes: names whose String() form exercises the key construction: separators, reserved key look-alikes,
// non-ASCII, invalid UTF-8, empty, multi-valued, unknown attribute types.
func issuerShapes() []pkix.RDNSequence {
	return []pkix.RDNSequence{
		cn("CA One"),
		cn("CA_One"),
		cn("CA_One_5"),
		cn("_"),
		cn(""),
		{},
		cn("#META#"),
		cn("Zertifizierungsstelle Österreich ÄÖÜ"),
		cn("認証局"),
		cn("bad\xff\xfeutf8"),
		cn("a,b+c=d\\e\"f<g>h;i"),
		cn(" leading and trailing "),
		rdn(pkix.AttributeTypeAndValue{Type: stOidC, Value: "DE"}, pkix.AttributeTypeAndValue{Type: stOidO, Value: "Org_1"}, pkix.AttributeTypeAndValue{Type: stOidCN, Value: "Sub CA"}),
		rdn(pkix.AttributeTypeAndValue{Type: stOidX, Value: "unknown type"}),
		{pkix.RelativeDistinguishedNameSET{{Type: stOidCN, Value: "multi"}, {Type: stOidO, Value: "valued"}}},
		rdn(pkix.AttributeTypeAndValue{Type: stOidCN, Value: 12345}),
	}
}

func bigFromHex(s string) *big.Int {
	v, ok := new(big.Int).SetString(s, 16)
	if !ok {
		panic("bad hex " + s)
	}
	return v
}

func serialShapes() []*big.Int {
	neg := func(v *big.Int) *big.Int { return new(big.Int).Neg(v) }
	return []*big.Int{
		big.NewInt(0), big.NewInt(1), big.NewInt(127), big.NewInt(128), big.NewInt(255), big.NewInt(256), big.NewInt(65535),
		bigFromHex("7fffffffffffffff"), bigFromHex("8000000000000000"), bigFromHex("ffffffffffffffff"), bigFromHex("10000000000000000"),
		bigFromHex("7f" + "ab54a98ceb1f0ad2ab54a98ceb1f0ad2ab54a9"), // 20 bytes, high bit clear
		bigFromHex("ff" + "ab54a98ceb1f0ad2ab54a98ceb1f0ad2ab54a9"), // 20 bytes, high bit set (21 in DER)
		new(big.Int).Lsh(big.NewInt(1), 159), new(big.Int).Lsh(big.NewInt(1), 1024),
		big.NewInt(-1), big.NewInt(-127), big.NewInt(-128), big.NewInt(-129), big.NewInt(-256), neg(bigFromHex("10000000000000000")),
	}
}

func timeShapes() []time.Time {
	cet := time.FixedZone("CET", 3600)
	return []time.Time{
		time.Date(2024, 5, 17, 12, 30, 45, 0, time.UTC),
		time.Date(1950, 1, 1, 0, 0, 0, 0, time.UTC),
		time.Date(1970, 1, 1, 0, 0, 0, 0, time.UTC),
		time.Date(2049, 12, 31, 23, 59, 59, 0, time.UTC),
		time.Date(2050, 1, 1, 0, 0, 0, 0, time.UTC),
		time.Date(2051, 6, 1, 8, 0, 0, 0, time.UTC),
		time.Date(9999, 12, 31, 23, 59, 59, 0, time.UTC),
		time.Date(1949, 12, 31, 23, 59, 59, 0, time.UTC),
		time.Date(2024, 5, 17, 12, 30, 45, 0, cet),
		time.Date(2049, 12, 31, 23, 59, 59, 0, time.FixedZone("W", -3600)), // 2050-01-01T00:59:59Z
	}
}

var (
	stOidReason  = asn1.ObjectIdentifier{2, 5, 29, 21}
	stOidInvDate = asn1.ObjectIdentifier{2, 5, 29, 24}
)

func extShapes() [][]pkix.Extension {
	big1k := make([]byte, 1000)
	for i := range big1k {
		big1k[i] = byte(i)
	}
	return [][]pkix.Extension{
		nil,
		{},
		{{Id: stOidReason, Value: []byte{0x0a, 0x01, 0x01}}},
		{{Id: stOidReason, Critical: true, Value: []byte{0x0a, 0x01, 0x04}}},
		{{Id: stOidReason, Value: []byte{0x0a, 0x01, 0x01}}, {Id: stOidInvDate, Value: []byte{0x18, 0x0f, '2', '0', '2', '4', '0', '1', '0', '1', '0', '0', '0', '0', '0', '0', 'Z'}}},
		{{Id: stOidX, Critical: true, Value: big1k}},
		{{Id: stOidX, Value: []byte{}}},
		{{Id: stOidX, Value: nil}},
	}
}

func extsEqual(a, b []pkix.Extension) bool {
	if len(a) != len(b) {
		return false
	}
	for i := range a {
		if !a[i].Id.Equal(b[i].Id) || a[i].Critical != b[i].Critical || string(a[i].Value) != string(b[i].Value) {
			return false
		}
	}
	return true
}

func rdnEqual(a, b pkix.RDNSequence) bool { return a.String() == b.String() && len(a) == len(b) }

func strsEqual(a, b []string) bool {
	if len(a) != len(b) {
		return false
	}
	for i := range a {
		if a[i] != b[i] {
			return false
		}
	}
	return true
}

func newRng(seed int64) *rand.Rand { return rand.New(rand.NewSource(seed)) }

var rngMu sync.Mutex

// rngIntn draws from the run's seeded generator; safe for cases running in parallel.
func (r *Run) rngIntn(n int) int {
	rngMu.Lock()
	defer rngMu.Unlock()
	return r.Rng.Intn(n)
}
