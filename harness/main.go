// Command harness drives the real caddy-revocation-validator code (built from /repo's
// working tree with -tags verif) and records, per property, (a) operation lines for the
// Lean model driver, (b) the implementation's canonicalised observation for each line,
// (c) implementation-side oracle verdicts (the executable statement of the property).

//go:debug x509negativeserial=1

package main

import (
	"encoding/json"
	"flag"
	"fmt"
	"math/rand"
	"os"
	"path/filepath"
	"runtime"
	"sort"
	"strconv"
	"strings"
	"sync"
	"sync/atomic"
	"syscall"
	"time"
)

type Violation struct {
	Signature string      `json:"signature"` // structural; matched against known_findings.json
	Detail    string      `json:"detail"`
	Replay    interface{} `json:"replay"`
}

type Run struct {
	Prop    string
	Tier    string
	Seed    int64
	OutDir  string
	Rng     *rand.Rand
	mu      sync.Mutex
	ops     []string
	impl    []string
	viol    []Violation
	dist    map[string]int
	samples []interface{}
	evals   int
	nontriv map[string]bool
	rule    string
	notes   []string
	t0      time.Time
}

func (r *Run) Thorough() bool { return r.Tier == "thorough" }

// Op records one model operation and the implementation's observation for it.
func (r *Run) Op(op, implObs string) {
	r.mu.Lock()
	defer r.mu.Unlock()
	if strings.ContainsAny(op, "\n\r") || strings.ContainsAny(implObs, "\n\r") {
		panic("newline in op/obs: " + op + " / " + implObs)
	}
	r.ops = append(r.ops, op)
	r.impl = append(r.impl, implObs)
}

// OpBlock records a contiguous block of operations (one stateful history) atomically.
func (r *Run) OpBlock(ops, implObs []string) {
	r.mu.Lock()
	defer r.mu.Unlock()
	for i := range ops {
		if strings.ContainsAny(ops[i], "\n\r") || strings.ContainsAny(implObs[i], "\n\r") {
			panic("newline in op/obs: " + ops[i] + " / " + implObs[i])
		}
	}
	r.ops = append(r.ops, ops...)
	r.impl = append(r.impl, implObs...)
}

// Eval counts one evaluated case; key identifies it for distinctness, nontrivial by the stated rule.
func (r *Run) Eval(key string, nontrivial bool) {
	r.mu.Lock()
	defer r.mu.Unlock()
	r.evals++
	if nontrivial {
		r.nontriv[key] = true
	}
}

func (r *Run) Count(bucket string) {
	r.mu.Lock()
	defer r.mu.Unlock()
	r.dist[bucket]++
}

func (r *Run) Sample(s interface{}) {
	r.mu.Lock()
	defer r.mu.Unlock()
	if len(r.samples) < 8 {
		r.samples = append(r.samples, s)
	}
}

func (r *Run) Violate(sig, detail string, replay interface{}) {
	r.mu.Lock()
	defer r.mu.Unlock()
	if len(r.viol) < 200 {
		r.viol = append(r.viol, Violation{sig, detail, replay})
	}
}

func (r *Run) Note(s string) {
	r.mu.Lock()
	defer r.mu.Unlock()
	r.notes = append(r.notes, s)
}

// Abort writes the result as it stands and ends the process (used when a verdict is established and going on would only
// burn time, e.g. a reader that has started to thrash the collector).
func (r *Run) Abort() {
	r.Note("run aborted early after an established violation")
	r.finish(time.Since(r.t0).Seconds())
	os.RemoveAll(scratchRoot)
	os.Exit(0)
}

// harnessDeadline ends a run that does not come to an end by itself (a change to the code under test can make every
// refresh queue up behind a mutex, or dead-lock): what was observed so far is written out, together with the harness
// functions the run is stuck in, and the process exits non-zero, so the check reports the property as no longer shown
// (with the violations found until then as the failing inputs).
func harnessDeadline(r *Run) {
	limit := 1500
	if r.Thorough() {
		limit = 5 * 3600
	}
	if v, err := strconv.Atoi(os.Getenv("VERIF_HARNESS_DEADLINE_S")); err == nil && v > 0 {
		limit = v
	}
	time.Sleep(time.Duration(limit) * time.Second)
	buf := make([]byte, 64<<20)
	buf = buf[:runtime.Stack(buf, true)]
	seen := map[string]int{}
	for _, g := range strings.Split(string(buf), "\n\n") {
		var fr []string
		for _, l := range strings.Split(g, "\n") {
			if strings.HasPrefix(l, "main.") || strings.Contains(l, "caddy-revocation-validator") && !strings.HasPrefix(l, "\t") && !strings.HasPrefix(l, "created by") {
				if i := strings.Index(l, "("); i > 0 && !strings.HasPrefix(l, "main.") {
					l = l[:strings.LastIndex(l, "(")]
				} else if i := strings.LastIndex(l, "("); i > 0 {
					l = l[:i]
				}
				fr = append(fr, l[strings.LastIndex(l, "/")+1:])
			}
			if len(fr) == 4 {
				break
			}
		}
		if len(fr) > 0 {
			seen[strings.Join(fr, " < ")]++
		}
	}
	var where []string
	for k, n := range seen {
		where = append(where, fmt.Sprintf("%dx %s", n, k))
	}
	sort.Strings(where)
	if len(where) > 12 {
		where = where[:12]
	}
	r.Note(fmt.Sprintf("harness deadline of %d s reached; goroutines in: %s", limit, strings.Join(where, " | ")))
	fmt.Fprintf(os.Stdout, "HARNESS-DEADLINE %d s; stuck in: %s\n", limit, strings.Join(where, " | "))
	r.finish(time.Since(r.t0).Seconds())
	os.RemoveAll(scratchRoot)
	os.Exit(4)
}

func (r *Run) finish(wall float64) {
	r.mu.Lock()
	defer r.mu.Unlock()
	must(os.WriteFile(filepath.Join(r.OutDir, "ops.txt"), []byte(joinLines(r.ops)), 0644))
	must(os.WriteFile(filepath.Join(r.OutDir, "impl.txt"), []byte(joinLines(r.impl)), 0644))
	keys := make([]string, 0, len(r.dist))
	for k := range r.dist {
		keys = append(keys, k)
	}
	sort.Strings(keys)
	res := map[string]interface{}{
		"property":            r.Prop,
		"tier":                r.Tier,
		"seed":                r.Seed,
		"evaluations":         r.evals,
		"distinct_nontrivial": len(r.nontriv),
		"rule":                r.rule,
		"samples":             r.samples,
		"distribution":        r.dist,
		"oracle_violations":   r.viol,
		"ops":                 len(r.ops),
		"notes":               r.notes,
		"wall_s":              wall,
	}
	if r.viol == nil {
		res["oracle_violations"] = []Violation{}
	}
	if r.samples == nil {
		res["samples"] = []interface{}{}
	}
	b, err := json.MarshalIndent(res, "", " ")
	must(err)
	must(os.WriteFile(filepath.Join(r.OutDir, "result.json"), b, 0644))
}

func joinLines(l []string) string {
	if len(l) == 0 {
		return ""
	}
	return strings.Join(l, "\n") + "\n"
}

var props = map[string]func(*Run){}

var workerPanics atomic.Int64
var lastWorkerPanic atomic.Value

func register(id string, f func(*Run)) { props[id] = f }

// parallel runs f(i) for i in [0,n) on w workers.
func parallel(n, w int, f func(i int)) {
	if w < 1 {
		w = 1
	}
	var wg sync.WaitGroup
	ch := make(chan int)
	for k := 0; k < w; k++ {
		wg.Add(1)
		go func() {
			defer wg.Done()
			for i := range ch {
				func() {
					defer func() {
						if p := recover(); p != nil {
							workerPanics.Add(1)
							lastWorkerPanic.Store(fmt.Sprintf("case %d: %v", i, p))
						}
					}()
					f(i)
				}()
			}
		}()
	}
	for i := 0; i < n; i++ {
		ch <- i
	}
	close(ch)
	wg.Wait()
}

func hexs(b []byte) string {
	if len(b) == 0 {
		return "-"
	}
	return fmt.Sprintf("%x", b)
}

func main() {
	prop := flag.String("prop", "", "property id (C01..C20)")
	tier := flag.String("tier", "quick", "quick|thorough")
	seed := flag.Int64("seed", 1, "PRNG seed")
	out := flag.String("out", "", "output directory")
	replay := flag.String("replay", "", "replay file (property specific)")
	flag.Parse()
	_ = replay
	f, ok := props[*prop]
	if !ok {
		fmt.Fprintf(os.Stderr, "harness: unknown property %q\n", *prop)
		os.Exit(2)
	}
	if *out == "" {
		fmt.Fprintln(os.Stderr, "harness: -out required")
		os.Exit(2)
	}
	must(os.MkdirAll(*out, 0755))
	var err error
	scratchRoot, err = os.MkdirTemp("", "crv-verif-"+*prop+"-")
	must(err)
	defer os.RemoveAll(scratchRoot)
	if os.Getenv("VERIF_DEBUG") == "" {
		// the plugin logs through caddy's default logger on fd 2; keep our own channel on fd 3
		null, err := os.OpenFile("/dev/null", os.O_WRONLY, 0)
		if err == nil {
			syscall.Dup2(int(null.Fd()), 2)
		}
	}
	r := &Run{Prop: *prop, Tier: *tier, Seed: *seed, OutDir: *out, Rng: rand.New(rand.NewSource(*seed)),
		dist: map[string]int{}, nontriv: map[string]bool{}}
	t0 := time.Now()
	r.t0 = t0
	code := 0
	go harnessDeadline(r)
	func() {
		defer func() {
			if p := recover(); p != nil {
				r.Note(fmt.Sprintf("harness panic: %v", p))
				fmt.Fprintf(os.Stdout, "HARNESS-PANIC %v\n", p)
				code = 3
			}
		}()
		f(r)
		if n := workerPanics.Load(); n > 0 {
			r.Violate(r.Prop+" harness-case-panicked", fmt.Sprintf("%d harness cases panicked outside a guarded call; last: %v", n, lastWorkerPanic.Load()), nil)
		}
	}()
	r.finish(time.Since(t0).Seconds())
	os.RemoveAll(scratchRoot)
	os.Exit(code)
}
