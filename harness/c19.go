package main

// C19 — configuration faithfulness: Caddyfile = JSON, documented defaults, nothing ignored.
//
// Every case is a set of settings (abstract config) or a hand-shaped Caddyfile token tree. The real
// code is run on both syntaxes (UnmarshalCaddyfile+Provision, caddy.StrictUnmarshalJSON+Provision),
// the provisioned validator's parsed fields are dumped as one canonical line, the same input goes
// to the Lean driver (`conf caddyfile …` / `conf json …`), and the implementation-side oracle
// evaluates the property's statement on the implementation's observations alone.

import (
	"fmt"
	"math/rand"
	"strings"
)

func init() { register("C19", runC19) }

type c19Case struct {
	Name  string    // generator family
	Cfg   *c19ACfg  // settings (both syntaxes) …
	Toks  []c19Tok  // … or a hand-shaped Caddyfile tree (Caddyfile only)
	JSON  string    // … or a hand-shaped JSON text (JSON only, implementation-side oracle only)
	Env   *c19Env   // what exists on disk for this case
	Spell [2]string // spellings of true/false in the Caddyfile rendering
	Shuf  int64     // != 0: shuffle lines inside blocks (relative order of equal keys kept)
	// expectation of the hand-shaped cases: "reject" | "accept" | "" (from the settings)
	Expect string
	Why    string // which rule of the statement the expectation comes from (signature part)
}

func runC19(r *Run) {
	r.rule = "a case is one configuration (settings or hand-shaped token tree/JSON text) loaded by the real code in one or both syntaxes; " +
		"non-trivial when it sets at least one option or contains a malformed element; distinctness by the rendered texts with scratch paths normalised"
	fx := newC19Fixture()
	defer fx.Close()

	var cases []c19Case
	cases = append(cases, c19Sweeps(fx)...)
	cases = append(cases, c19TreeShapes(fx)...)
	cases = append(cases, c19JSONShapes(fx)...)
	nRandom, nReal := 4000, 160
	if r.Thorough() {
		nRandom, nReal = 60000, 1440
		cases = append(cases, c19Pairs(fx)...)
	}
	rng := rand.New(rand.NewSource(r.Seed*7919 + 19))
	for i := 0; i < nRandom; i++ {
		cases = append(cases, c19Random(fx, rng))
	}
	real := c19RealCRLMatrix(fx)
	rng.Shuffle(len(real), func(i, j int) { real[i], real[j] = real[j], real[i] })
	if len(real) > nReal {
		real = real[:nReal]
	}
	cases = append(cases, real...)

	results := make([]c19Result, len(cases))
	parallel(len(cases), 12, func(i int) { results[i] = c19Run(fx, cases[i]) })

	for i, cs := range cases {
		res := results[i]
		r.Count("family:" + cs.Name)
		for _, o := range res.Ops {
			r.Op(o[0], o[1])
			r.Count("outcome:" + strings.SplitN(o[1], " ", 2)[0])
			r.Count("outcome-by-family:" + strings.SplitN(cs.Name, ":", 2)[0] + ":" + strings.SplitN(o[1], " ", 2)[0])
		}
		r.Eval(res.Key, res.Nontrivial)
		if i%97 == 0 {
			r.Sample(map[string]string{"family": cs.Name, "caddyfile": res.CaddyText, "json": res.JSONText, "caddyfile_obs": res.CfObs, "json_obs": res.JsObs})
		}
		for _, v := range res.Viol {
			r.Violate(v.Signature, v.Detail, v.Replay)
		}
	}
}

// ---- settings, token trees -------------------------------------------------------------------

type c19ACdp struct {
	Fetch  *string
	Strict *bool
}
type c19ACrl struct {
	WorkDir, Storage, Interval, Sig *string
	Urls, Files, Signers            []string
	Cdp                             *c19ACdp
}
type c19AOcsp struct {
	Cache      *string
	Responders []string
	Strict     *bool
}
type c19ACfg struct {
	Mode *string
	Crl  *c19ACrl
	Ocsp *c19AOcsp
}

func c19Sp(s string) *string { return &s }
func c19Bp(b bool) *bool     { return &b }

type c19Tok struct {
	Key   string
	Args  []string
	Block *[]c19Tok
}

func c19Line(k, v string) c19Tok { return c19Tok{Key: k, Args: []string{v}} }
func c19BlockTok(k string, b []c19Tok) c19Tok {
	if b == nil {
		b = []c19Tok{}
	}
	return c19Tok{Key: k, Block: &b}
}

func (c *c19ACfg) toks(spell [2]string) []c19Tok {
	bs := func(b bool) string {
		if b {
			return spell[0]
		}
		return spell[1]
	}
	var top []c19Tok
	if c.Mode != nil {
		top = append(top, c19Line("mode", *c.Mode))
	}
	if c.Crl != nil {
		var b []c19Tok
		add := func(k string, v *string) {
			if v != nil {
				b = append(b, c19Line(k, *v))
			}
		}
		add("work_dir", c.Crl.WorkDir)
		add("storage_type", c.Crl.Storage)
		add("update_interval", c.Crl.Interval)
		add("signature_validation_mode", c.Crl.Sig)
		for _, u := range c.Crl.Urls {
			b = append(b, c19Line("crl_url", u))
		}
		for _, u := range c.Crl.Files {
			b = append(b, c19Line("crl_file", u))
		}
		for _, u := range c.Crl.Signers {
			b = append(b, c19Line("trusted_signature_cert_file", u))
		}
		if c.Crl.Cdp != nil {
			var d []c19Tok
			if c.Crl.Cdp.Fetch != nil {
				d = append(d, c19Line("crl_fetch_mode", *c.Crl.Cdp.Fetch))
			}
			if c.Crl.Cdp.Strict != nil {
				d = append(d, c19Line("crl_cdp_strict", bs(*c.Crl.Cdp.Strict)))
			}
			b = append(b, c19BlockTok("cdp_config", d))
		}
		top = append(top, c19BlockTok("crl_config", b))
	}
	if c.Ocsp != nil {
		var b []c19Tok
		if c.Ocsp.Cache != nil {
			b = append(b, c19Line("default_cache_duration", *c.Ocsp.Cache))
		}
		for _, u := range c.Ocsp.Responders {
			b = append(b, c19Line("trusted_responder_cert_file", u))
		}
		if c.Ocsp.Strict != nil {
			b = append(b, c19Line("ocsp_aia_strict", bs(*c.Ocsp.Strict)))
		}
		top = append(top, c19BlockTok("ocsp_config", b))
	}
	return top
}

// c19ShuffleToks permutes the lines of every block, keeping the relative order of lines with the same key.
func c19ShuffleToks(ts []c19Tok, rng *rand.Rand) []c19Tok {
	byKey := map[string][]c19Tok{}
	keys := make([]string, len(ts))
	for i, t := range ts {
		if t.Block != nil {
			nb := c19ShuffleToks(*t.Block, rng)
			t.Block = &nb
		}
		byKey[t.Key] = append(byKey[t.Key], t)
		keys[i] = t.Key
	}
	rng.Shuffle(len(keys), func(i, j int) { keys[i], keys[j] = keys[j], keys[i] })
	out := make([]c19Tok, 0, len(ts))
	for _, k := range keys {
		out = append(out, byKey[k][0])
		byKey[k] = byKey[k][1:]
	}
	return out
}

func c19QuoteTok(s string) string {
	plain := s != ""
	for _, ch := range s {
		if !(ch >= 'a' && ch <= 'z' || ch >= 'A' && ch <= 'Z' || ch >= '0' && ch <= '9' || strings.ContainsRune("_./:-+", ch)) {
			plain = false
		}
	}
	if plain {
		return s
	}
	return `"` + strings.ReplaceAll(s, `"`, `\"`) + `"`
}

func c19RenderToks(ts []c19Tok, indent string, b *strings.Builder) {
	for _, t := range ts {
		b.WriteString(indent + c19QuoteTok(t.Key))
		for _, a := range t.Args {
			b.WriteString(" " + c19QuoteTok(a))
		}
		if t.Block != nil {
			b.WriteString(" {\n")
			c19RenderToks(*t.Block, indent+"  ", b)
			b.WriteString(indent + "}")
		}
		b.WriteString("\n")
	}
}

func c19CaddyText(ts []c19Tok) string {
	var b strings.Builder
	b.WriteString("revocation {\n")
	c19RenderToks(ts, "  ", &b)
	b.WriteString("}\n")
	return b.String()
}

func c19EncToks(ts []c19Tok, b *strings.Builder) {
	fmt.Fprintf(b, " %d", len(ts))
	for _, t := range ts {
		fmt.Fprintf(b, " e %s %d", hexs([]byte(t.Key)), len(t.Args))
		for _, a := range t.Args {
			b.WriteString(" " + hexs([]byte(a)))
		}
		if t.Block == nil {
			b.WriteString(" n")
		} else {
			b.WriteString(" b")
			c19EncToks(*t.Block, b)
		}
	}
}

func (c *c19ACfg) json() string {
	m := map[string]interface{}{}
	if c.Mode != nil {
		m["mode"] = *c.Mode
	}
	if c.Crl != nil {
		o := map[string]interface{}{}
		set := func(k string, v *string) {
			if v != nil {
				o[k] = *v
			}
		}
		set("work_dir", c.Crl.WorkDir)
		set("storage_type", c.Crl.Storage)
		set("update_interval", c.Crl.Interval)
		set("signature_validation_mode", c.Crl.Sig)
		if len(c.Crl.Urls) > 0 {
			o["crl_urls"] = c.Crl.Urls
		}
		if len(c.Crl.Files) > 0 {
			o["crl_files"] = c.Crl.Files
		}
		if len(c.Crl.Signers) > 0 {
			o["trusted_signature_certs_files"] = c.Crl.Signers
		}
		if c.Crl.Cdp != nil {
			d := map[string]interface{}{}
			if c.Crl.Cdp.Fetch != nil {
				d["crl_fetch_mode"] = *c.Crl.Cdp.Fetch
			}
			if c.Crl.Cdp.Strict != nil {
				d["crl_cdp_strict"] = *c.Crl.Cdp.Strict
			}
			o["cdp_config"] = d
		}
		m["crl_config"] = o
	}
	if c.Ocsp != nil {
		o := map[string]interface{}{}
		if c.Ocsp.Cache != nil {
			o["default_cache_duration"] = *c.Ocsp.Cache
		}
		if len(c.Ocsp.Responders) > 0 {
			o["trusted_responder_certs_files"] = c.Ocsp.Responders
		}
		if c.Ocsp.Strict != nil {
			o["ocsp_aia_strict"] = *c.Ocsp.Strict
		}
		m["ocsp_config"] = o
	}
	return string(c19MustJSON(m))
}

// ---- generators ------------------------------------------------------------------------------

var (
	c19Modes     = []string{"prefer_ocsp", "prefer_crl", "ocsp_only", "crl_only", "disabled"}
	c19Storages  = []string{"memory", "disk"}
	c19Sigs      = []string{"none", "verify_log", "verify"}
	c19Fetches   = []string{"fetch_actively", "fetch_background"}
	c19Durations = []string{"30m", "1h", "45s", "1h30m", "250ms", "1.5h", "90m"}
	c19BadEnums  = []string{"bogus", "PREFER_OCSP", "prefer-ocsp", "Disk", "verify ", "fetch_activly", "true", "0"}
	c19BadDurs   = []string{"30", "abc", "30 m", "m", "1d", "-", "30mins"}
	c19OddDurs   = []string{"0s", "-5m", "0"}
	c19TrueSp    = []string{"1", "t", "T", "TRUE", "true", "True"}
	c19FalseSp   = []string{"0", "f", "F", "FALSE", "false", "False"}
	c19BadBools  = []string{"yes", "no", "on", "tRuE", "TRue", "2", "", "truee", "y", "enabled"}
)

// base: the smallest valid configuration for a CRL-enabled mode.
func c19Base(e *c19Env) *c19ACfg { return &c19ACfg{Crl: &c19ACrl{WorkDir: c19Sp(e.WorkDir)}} }

func c19Pick(rng *rand.Rand, l []string) string { return l[rng.Intn(len(l))] }

// c19Sweeps: every option alone over valid, empty, invalid values (both syntaxes), in a CRL-enabled and a CRL-disabled mode.
func c19Sweeps(fx *c19Fixture) []c19Case {
	var out []c19Case
	add := func(name string, f func(c *c19ACfg, e *c19Env)) {
		for _, mode := range []*string{nil, c19Sp("ocsp_only")} {
			e := fx.newEnv()
			c := c19Base(e)
			c.Mode = mode
			f(c, e)
			out = append(out, c19Case{Name: "sweep:" + name, Cfg: c, Env: e, Spell: [2]string{"true", "false"}})
		}
	}
	// nothing but the work dir; nothing at all; empty blocks
	add("minimal", func(c *c19ACfg, e *c19Env) {})
	add("empty", func(c *c19ACfg, e *c19Env) { c.Crl = nil })
	add("empty-blocks", func(c *c19ACfg, e *c19Env) { c.Crl.Cdp = &c19ACdp{}; c.Ocsp = &c19AOcsp{} })
	add("crl-block-without-workdir", func(c *c19ACfg, e *c19Env) { c.Crl.WorkDir = nil })
	for _, v := range append(append([]string{""}, c19Modes...), c19BadEnums...) {
		v := v
		e := fx.newEnv()
		c := c19Base(e)
		c.Mode = c19Sp(v)
		out = append(out, c19Case{Name: "sweep:mode", Cfg: c, Env: e, Spell: [2]string{"true", "false"}})
	}
	for _, v := range append(append([]string{""}, c19Storages...), c19BadEnums...) {
		v := v
		add("storage_type", func(c *c19ACfg, e *c19Env) { c.Crl.Storage = c19Sp(v) })
	}
	for _, v := range append(append([]string{""}, c19Sigs...), c19BadEnums...) {
		v := v
		add("signature_validation_mode", func(c *c19ACfg, e *c19Env) { c.Crl.Sig = c19Sp(v) })
	}
	for _, v := range append(append([]string{""}, c19Fetches...), c19BadEnums...) {
		v := v
		add("crl_fetch_mode", func(c *c19ACfg, e *c19Env) { c.Crl.Cdp = &c19ACdp{Fetch: c19Sp(v)} })
	}
	for _, v := range append(append(append([]string{""}, c19Durations...), c19BadDurs...), c19OddDurs...) {
		v := v
		add("update_interval", func(c *c19ACfg, e *c19Env) { c.Crl.Interval = c19Sp(v) })
		add("default_cache_duration", func(c *c19ACfg, e *c19Env) { c.Ocsp = &c19AOcsp{Cache: c19Sp(v)} })
	}
	for _, b := range []bool{true, false} {
		b := b
		add("crl_cdp_strict", func(c *c19ACfg, e *c19Env) { c.Crl.Cdp = &c19ACdp{Strict: c19Bp(b)} })
		add("ocsp_aia_strict", func(c *c19ACfg, e *c19Env) { c.Ocsp = &c19AOcsp{Strict: c19Bp(b)} })
	}
	// work_dir: existing dir, missing, a file, empty string
	for _, k := range []string{"missing", "file", "emptystring"} {
		k := k
		add("work_dir:"+k, func(c *c19ACfg, e *c19Env) {
			switch k {
			case "missing":
				c.Crl.WorkDir = c19Sp(e.WorkDir + "/does-not-exist")
			case "file":
				c.Crl.WorkDir = c19Sp(e.AFile)
			case "emptystring":
				c.Crl.WorkDir = c19Sp("")
			}
		})
	}
	// certificate lists 0..3, with a missing / non-certificate file
	for n := 0; n <= 3; n++ {
		n := n
		add(fmt.Sprintf("trusted_signature_certs_files:%d", n), func(c *c19ACfg, e *c19Env) { c.Crl.Signers = fx.certFiles(n) })
		add(fmt.Sprintf("trusted_responder_certs_files:%d", n), func(c *c19ACfg, e *c19Env) { c.Ocsp = &c19AOcsp{Responders: fx.certFiles(n)} })
	}
	add("trusted_signature_certs_files:missing", func(c *c19ACfg, e *c19Env) { c.Crl.Signers = []string{fx.CertFiles[0], fx.MissingFile} })
	add("trusted_signature_certs_files:garbage", func(c *c19ACfg, e *c19Env) { c.Crl.Signers = []string{fx.GarbageFile} })
	add("trusted_responder_certs_files:missing", func(c *c19ACfg, e *c19Env) { c.Ocsp = &c19AOcsp{Responders: []string{fx.MissingFile}} })
	add("trusted_responder_certs_files:garbage", func(c *c19ACfg, e *c19Env) { c.Ocsp = &c19AOcsp{Responders: []string{fx.CertFiles[1], fx.GarbageFile}} })
	// every bool spelling (Caddyfile rendering only differs; JSON carries the bool)
	for i := range c19TrueSp {
		i := i
		for _, b := range []bool{true, false} {
			b := b
			e := fx.newEnv()
			c := c19Base(e)
			c.Crl.Cdp = &c19ACdp{Strict: c19Bp(b)}
			c.Ocsp = &c19AOcsp{Strict: c19Bp(b)}
			out = append(out, c19Case{Name: "sweep:bool-spelling", Cfg: c, Env: e, Spell: [2]string{c19TrueSp[i], c19FalseSp[i]}})
		}
	}
	return out
}

// c19Pairs (thorough): every pair of (option, value) from small valid pools.
func c19Pairs(fx *c19Fixture) []c19Case {
	type setter func(c *c19ACfg)
	var opts [][]setter
	strs := func(vals []string, f func(c *c19ACfg, v string)) []setter {
		var s []setter
		for _, v := range vals {
			v := v
			s = append(s, func(c *c19ACfg) { f(c, v) })
		}
		return s
	}
	cdp := func(c *c19ACfg) *c19ACdp {
		if c.Crl.Cdp == nil {
			c.Crl.Cdp = &c19ACdp{}
		}
		return c.Crl.Cdp
	}
	oc := func(c *c19ACfg) *c19AOcsp {
		if c.Ocsp == nil {
			c.Ocsp = &c19AOcsp{}
		}
		return c.Ocsp
	}
	opts = append(opts, strs(c19Modes, func(c *c19ACfg, v string) { c.Mode = c19Sp(v) }))
	opts = append(opts, strs(c19Storages, func(c *c19ACfg, v string) { c.Crl.Storage = c19Sp(v) }))
	opts = append(opts, strs(c19Sigs, func(c *c19ACfg, v string) { c.Crl.Sig = c19Sp(v) }))
	opts = append(opts, strs(c19Fetches, func(c *c19ACfg, v string) { cdp(c).Fetch = c19Sp(v) }))
	opts = append(opts, strs([]string{"10m", "2h"}, func(c *c19ACfg, v string) { c.Crl.Interval = c19Sp(v) }))
	opts = append(opts, strs([]string{"0s", "5m"}, func(c *c19ACfg, v string) { oc(c).Cache = c19Sp(v) }))
	opts = append(opts, strs([]string{"t", "f"}, func(c *c19ACfg, v string) { cdp(c).Strict = c19Bp(v == "t") }))
	opts = append(opts, strs([]string{"t", "f"}, func(c *c19ACfg, v string) { oc(c).Strict = c19Bp(v == "t") }))
	opts = append(opts, strs([]string{"1", "2"}, func(c *c19ACfg, v string) { c.Crl.Signers = fx.certFiles(len(v) * int(v[0]-'0')) }))
	opts = append(opts, strs([]string{"1", "3"}, func(c *c19ACfg, v string) { oc(c).Responders = fx.certFiles(int(v[0] - '0')) }))
	var out []c19Case
	for i := 0; i < len(opts); i++ {
		for j := i + 1; j < len(opts); j++ {
			for _, a := range opts[i] {
				for _, b := range opts[j] {
					e := fx.newEnv()
					c := c19Base(e)
					a(c)
					b(c)
					out = append(out, c19Case{Name: "pairs", Cfg: c, Env: e, Spell: [2]string{"true", "false"}})
				}
			}
		}
	}
	return out
}

func c19Random(fx *c19Fixture, rng *rand.Rand) c19Case {
	e := fx.newEnv()
	c := &c19ACfg{}
	coin := func(p float64) bool { return rng.Float64() < p }
	val := func(valid, bad []string) *string {
		switch {
		case coin(0.08):
			return c19Sp(c19Pick(rng, bad))
		case coin(0.05):
			return c19Sp("")
		}
		return c19Sp(c19Pick(rng, valid))
	}
	if coin(0.6) {
		c.Mode = val(c19Modes, c19BadEnums)
	}
	if coin(0.9) {
		c.Crl = &c19ACrl{}
		if coin(0.93) {
			c.Crl.WorkDir = c19Sp(e.WorkDir)
			if coin(0.04) {
				c.Crl.WorkDir = c19Sp(e.AFile)
			}
		}
		if coin(0.5) {
			c.Crl.Storage = val(c19Storages, c19BadEnums)
		}
		if coin(0.5) {
			c.Crl.Interval = val(c19Durations, append(c19BadDurs, c19OddDurs...))
		}
		if coin(0.5) {
			c.Crl.Sig = val(c19Sigs, c19BadEnums)
		}
		if coin(0.4) {
			c.Crl.Signers = fx.certFiles(rng.Intn(4))
			if coin(0.06) {
				c.Crl.Signers = append(c.Crl.Signers, fx.MissingFile)
			}
		}
		if coin(0.5) {
			c.Crl.Cdp = &c19ACdp{}
			if coin(0.6) {
				c.Crl.Cdp.Fetch = val(c19Fetches, c19BadEnums)
			}
			if coin(0.6) {
				c.Crl.Cdp.Strict = c19Bp(coin(0.5))
			}
		}
	}
	if coin(0.6) {
		c.Ocsp = &c19AOcsp{}
		if coin(0.5) {
			c.Ocsp.Cache = val(append(c19Durations, "0s"), c19BadDurs)
		}
		if coin(0.4) {
			c.Ocsp.Responders = fx.certFiles(rng.Intn(4))
			if coin(0.06) {
				c.Ocsp.Responders = append(c.Ocsp.Responders, fx.GarbageFile)
			}
		}
		if coin(0.6) {
			c.Ocsp.Strict = c19Bp(coin(0.5))
		}
	}
	i := rng.Intn(len(c19TrueSp))
	cs := c19Case{Name: "random", Cfg: c, Env: e, Spell: [2]string{c19TrueSp[i], c19FalseSp[rng.Intn(len(c19FalseSp))]}}
	if coin(0.5) {
		cs.Shuf = rng.Int63() + 1
	}
	return cs
}

// c19TreeShapes: hand-shaped Caddyfile trees: misspelt keys at every level, missing/extra arguments,
// duplicates, blocks where none belongs, bool spellings.
func c19TreeShapes(fx *c19Fixture) []c19Case {
	var out []c19Case
	add := func(name, expect, why string, f func(e *c19Env) []c19Tok) {
		e := fx.newEnv()
		out = append(out, c19Case{Name: "tree:" + name, Toks: f(e), Env: e, Expect: expect, Why: why})
	}
	wd := func(e *c19Env) c19Tok { return c19Line("work_dir", e.WorkDir) }
	crl := func(ts ...c19Tok) c19Tok { return c19BlockTok("crl_config", ts) }
	// misspelt keys, every level, with and without argument / block
	for _, k := range []string{"mod", "modes", "crl_configs", "ocsp", "MODE", "work_dir", "crl_cdp_strict", "default_cache_duration", ""} {
		k := k
		add("unknown-key:top", "reject", "unknown-key level=top", func(e *c19Env) []c19Tok { return []c19Tok{crl(wd(e)), c19Line(k, "x")} })
		add("unknown-key:top-first", "reject", "unknown-key level=top", func(e *c19Env) []c19Tok { return []c19Tok{{Key: k}, crl(wd(e))} })
		add("unknown-key:top-block", "reject", "unknown-key level=top", func(e *c19Env) []c19Tok {
			return []c19Tok{c19BlockTok(k, []c19Tok{c19Line("mode", "crl_only")}), crl(wd(e))}
		})
	}
	for _, k := range []string{"workdir", "work-dir", "crl_urls", "crl_files", "trusted_signature_certs_files", "storage", "mode", "crl_fetch_mode", "crl_cdp_strict", "cdp", "WORK_DIR"} {
		k := k
		add("unknown-key:crl", "reject", "unknown-key level=crl_config", func(e *c19Env) []c19Tok { return []c19Tok{crl(wd(e), c19Line(k, "x"))} })
		add("unknown-key:crl-first", "reject", "unknown-key level=crl_config", func(e *c19Env) []c19Tok { return []c19Tok{crl(c19Tok{Key: k}, wd(e))} })
		add("unknown-key:crl-block", "reject", "unknown-key level=crl_config", func(e *c19Env) []c19Tok {
			return []c19Tok{crl(wd(e), c19BlockTok(k, []c19Tok{c19Line("crl_cdp_strict", "true")}))}
		})
	}
	for _, k := range []string{"crl_fetchmode", "fetch_mode", "crl_cdp_strikt", "strict", "work_dir", "ocsp_aia_strict", "CRL_CDP_STRICT"} {
		k := k
		add("unknown-key:cdp", "reject", "unknown-key level=cdp_config", func(e *c19Env) []c19Tok {
			return []c19Tok{crl(wd(e), c19BlockTok("cdp_config", []c19Tok{c19Line("crl_cdp_strict", "true"), c19Line(k, "true")}))}
		})
		add("unknown-key:cdp-only", "reject", "unknown-key level=cdp_config", func(e *c19Env) []c19Tok {
			return []c19Tok{crl(wd(e), c19BlockTok("cdp_config", []c19Tok{{Key: k}}))}
		})
	}
	for _, k := range []string{"cache_duration", "default_cache_durations", "trusted_responder_certs_files", "ocsp_aia_strikt", "aia_strict", "crl_cdp_strict", "OCSP_AIA_STRICT"} {
		k := k
		add("unknown-key:ocsp", "reject", "unknown-key level=ocsp_config", func(e *c19Env) []c19Tok {
			return []c19Tok{crl(wd(e)), c19BlockTok("ocsp_config", []c19Tok{c19Line("ocsp_aia_strict", "true"), c19Line(k, "true")})}
		})
		add("unknown-key:ocsp-only", "reject", "unknown-key level=ocsp_config", func(e *c19Env) []c19Tok {
			return []c19Tok{crl(wd(e)), c19BlockTok("ocsp_config", []c19Tok{{Key: k}})}
		})
	}
	// missing arguments
	for _, k := range []string{"work_dir", "storage_type", "update_interval", "signature_validation_mode", "crl_url", "crl_file", "trusted_signature_cert_file"} {
		k := k
		add("missing-arg:crl", "reject", "missing-argument", func(e *c19Env) []c19Tok { return []c19Tok{crl(wd(e), c19Tok{Key: k})} })
	}
	add("missing-arg:mode", "reject", "missing-argument", func(e *c19Env) []c19Tok { return []c19Tok{{Key: "mode"}, crl(wd(e))} })
	for _, k := range []string{"crl_fetch_mode", "crl_cdp_strict"} {
		k := k
		add("missing-arg:cdp", "reject", "missing-argument", func(e *c19Env) []c19Tok {
			return []c19Tok{crl(wd(e), c19BlockTok("cdp_config", []c19Tok{{Key: k}}))}
		})
	}
	for _, k := range []string{"default_cache_duration", "trusted_responder_cert_file", "ocsp_aia_strict"} {
		k := k
		add("missing-arg:ocsp", "reject", "missing-argument", func(e *c19Env) []c19Tok {
			return []c19Tok{crl(wd(e)), c19BlockTok("ocsp_config", []c19Tok{{Key: k}})}
		})
	}
	// argument followed by a block opening
	add("arg-then-block", "reject", "block-on-scalar", func(e *c19Env) []c19Tok {
		return []c19Tok{crl(c19Tok{Key: "work_dir", Args: []string{e.WorkDir}, Block: &[]c19Tok{}})}
	})
	add("missing-arg-then-block", "reject", "missing-argument", func(e *c19Env) []c19Tok {
		return []c19Tok{crl(wd(e), c19Tok{Key: "storage_type", Block: &[]c19Tok{c19Line("x", "y")}})}
	})
	// bool spellings: the 12 of strconv.ParseBool accepted with their value, everything else rejected
	for i, s := range append(append([]string{}, c19TrueSp...), c19FalseSp...) {
		s, want := s, i < len(c19TrueSp)
		add("bool:valid", "accept", fmt.Sprintf("bool-spelling value=%v", want), func(e *c19Env) []c19Tok {
			return []c19Tok{crl(wd(e), c19BlockTok("cdp_config", []c19Tok{c19Line("crl_cdp_strict", s)})), c19BlockTok("ocsp_config", []c19Tok{c19Line("ocsp_aia_strict", s)})}
		})
	}
	for _, s := range c19BadBools {
		s := s
		add("bool:invalid-cdp", "reject", "invalid-value option=crl_cdp_strict", func(e *c19Env) []c19Tok {
			return []c19Tok{crl(wd(e), c19BlockTok("cdp_config", []c19Tok{c19Line("crl_cdp_strict", s)}))}
		})
		add("bool:invalid-ocsp", "reject", "invalid-value option=ocsp_aia_strict", func(e *c19Env) []c19Tok {
			return []c19Tok{crl(wd(e)), c19BlockTok("ocsp_config", []c19Tok{c19Line("ocsp_aia_strict", s)})}
		})
	}
	// shapes whose meaning is defined by the dispenser (model/implementation agreement only; no oracle expectation)
	add("extra-arg:mode", "", "", func(e *c19Env) []c19Tok {
		return []c19Tok{{Key: "mode", Args: []string{"crl_only", "disabled"}}, crl(wd(e))}
	})
	add("same-c19Line:two-options", "", "", func(e *c19Env) []c19Tok {
		return []c19Tok{crl(c19Tok{Key: "work_dir", Args: []string{e.WorkDir, "storage_type", "memory"}})}
	})
	add("same-c19Line:option-then-block", "", "", func(e *c19Env) []c19Tok {
		return []c19Tok{crl(c19Tok{Key: "work_dir", Args: []string{e.WorkDir, "cdp_config"}, Block: &[]c19Tok{c19Line("crl_cdp_strict", "true")}})}
	})
	add("same-c19Line:url-url", "", "", func(e *c19Env) []c19Tok {
		return []c19Tok{{Key: "mode", Args: []string{"ocsp_only"}}, crl(c19Tok{Key: "crl_url", Args: []string{"http://a/1", "crl_url", "http://a/2"}})}
	})
	add("block-key-with-arg", "", "", func(e *c19Env) []c19Tok {
		return []c19Tok{{Key: "crl_config", Args: []string{"x"}, Block: &[]c19Tok{wd(e)}}}
	})
	add("block-key-with-key-arg", "", "", func(e *c19Env) []c19Tok {
		return []c19Tok{crl(wd(e)), {Key: "ocsp_config", Args: []string{"mode", "ocsp_only"}}}
	})
	add("block-key-without-block", "", "", func(e *c19Env) []c19Tok {
		return []c19Tok{{Key: "mode", Args: []string{"ocsp_only"}}, {Key: "crl_config"}, {Key: "ocsp_config"}}
	})
	add("cdp-key-without-block", "", "", func(e *c19Env) []c19Tok { return []c19Tok{crl(wd(e), c19Tok{Key: "cdp_config"})} })
	// duplicates: later scalar wins, lists append in order, a repeated block replaces the earlier one
	add("dup:mode", "", "", func(e *c19Env) []c19Tok {
		return []c19Tok{c19Line("mode", "disabled"), crl(wd(e)), c19Line("mode", "crl_only")}
	})
	add("dup:scalars", "", "", func(e *c19Env) []c19Tok {
		return []c19Tok{crl(c19Line("work_dir", e.WorkDir+"/nope"), c19Line("storage_type", "memory"), c19Line("update_interval", "1h"), wd(e),
			c19Line("storage_type", "disk"), c19Line("update_interval", "2h"), c19Line("signature_validation_mode", "none"), c19Line("signature_validation_mode", "verify_log"))}
	})
	add("dup:scalar-invalid-then-valid", "", "", func(e *c19Env) []c19Tok {
		return []c19Tok{crl(wd(e), c19Line("storage_type", "bogus"), c19Line("storage_type", "memory"))}
	})
	add("dup:lists-interleaved", "", "", func(e *c19Env) []c19Tok {
		return []c19Tok{c19Line("mode", "ocsp_only"), crl(c19Line("crl_url", "http://h/1"), c19Line("crl_file", "/f/1"), c19Line("crl_url", "http://h/2"),
			c19Line("trusted_signature_cert_file", fx.CertFiles[0]), c19Line("crl_file", "/f/2"), c19Line("crl_url", "http://h/3"),
			c19Line("trusted_signature_cert_file", fx.CertFiles[1]))}
	})
	add("dup:crl-block-replaces", "", "", func(e *c19Env) []c19Tok {
		return []c19Tok{crl(wd(e), c19Line("storage_type", "memory")), crl(c19Line("update_interval", "1h"))}
	})
	add("dup:crl-block-replaces-2", "", "", func(e *c19Env) []c19Tok {
		return []c19Tok{crl(c19Line("storage_type", "memory"), c19Line("crl_url", "http://h/1")), crl(wd(e))}
	})
	add("dup:cdp-block-replaces", "", "", func(e *c19Env) []c19Tok {
		return []c19Tok{crl(wd(e), c19BlockTok("cdp_config", []c19Tok{c19Line("crl_cdp_strict", "true"), c19Line("crl_fetch_mode", "fetch_background")}),
			c19BlockTok("cdp_config", []c19Tok{c19Line("crl_fetch_mode", "fetch_actively")}))}
	})
	add("dup:ocsp-block-replaces", "", "", func(e *c19Env) []c19Tok {
		return []c19Tok{crl(wd(e)), c19BlockTok("ocsp_config", []c19Tok{c19Line("ocsp_aia_strict", "true"), c19Line("default_cache_duration", "5m")}),
			c19BlockTok("ocsp_config", []c19Tok{c19Line("trusted_responder_cert_file", fx.CertFiles[0])})}
	})
	add("dup:bool", "", "", func(e *c19Env) []c19Tok {
		return []c19Tok{crl(wd(e), c19BlockTok("cdp_config", []c19Tok{c19Line("crl_cdp_strict", "true"), c19Line("crl_cdp_strict", "0")})),
			c19BlockTok("ocsp_config", []c19Tok{c19Line("ocsp_aia_strict", "F"), c19Line("ocsp_aia_strict", "T")})}
	})
	add("quoted-values", "", "", func(e *c19Env) []c19Tok {
		return []c19Tok{c19Line("mode", "ocsp_only"), crl(c19Line("work_dir", "/no such/dir with spaces"), c19Line("crl_url", "http://h/a b"), c19Line("crl_file", "it's"))}
	})
	add("empty-top", "", "", func(e *c19Env) []c19Tok { return nil })
	return out
}

// c19JSONShapes: JSON texts the settings renderer cannot produce (implementation-side oracle only).
func c19JSONShapes(fx *c19Fixture) []c19Case {
	var out []c19Case
	add := func(name, expect, why string, f func(e *c19Env) string) {
		e := fx.newEnv()
		out = append(out, c19Case{Name: "json:" + name, JSON: f(e), Env: e, Expect: expect, Why: why})
	}
	q := func(s string) string { return string(c19MustJSON(s)) }
	for _, k := range []string{"modes", "crl", "Mode2", "work_dir", "crl_cdp_strict"} {
		k := k
		add("unknown-key:top", "reject", "unknown-key level=top", func(e *c19Env) string {
			return `{"crl_config":{"work_dir":` + q(e.WorkDir) + `},` + q(k) + `:"x"}`
		})
	}
	for _, k := range []string{"workdir", "crl_url", "crl_file", "trusted_signature_cert_file", "storage", "mode", "crl_fetch_mode"} {
		k := k
		add("unknown-key:crl", "reject", "unknown-key level=crl_config", func(e *c19Env) string {
			return `{"crl_config":{"work_dir":` + q(e.WorkDir) + `,` + q(k) + `:"x"}}`
		})
	}
	for _, k := range []string{"crl_fetchmode", "strict", "work_dir", "ocsp_aia_strict"} {
		k := k
		add("unknown-key:cdp", "reject", "unknown-key level=cdp_config", func(e *c19Env) string {
			return `{"crl_config":{"work_dir":` + q(e.WorkDir) + `,"cdp_config":{` + q(k) + `:true}}}`
		})
	}
	for _, k := range []string{"cache_duration", "trusted_responder_cert_file", "aia_strict", "crl_cdp_strict"} {
		k := k
		add("unknown-key:ocsp", "reject", "unknown-key level=ocsp_config", func(e *c19Env) string {
			return `{"crl_config":{"work_dir":` + q(e.WorkDir) + `},"ocsp_config":{` + q(k) + `:true}}`
		})
	}
	for _, v := range []string{`"true"`, `1`, `"yes"`, `[true]`} {
		v := v
		add("bad-type:crl_cdp_strict", "reject", "invalid-value option=crl_cdp_strict", func(e *c19Env) string {
			return `{"crl_config":{"work_dir":` + q(e.WorkDir) + `,"cdp_config":{"crl_cdp_strict":` + v + `}}}`
		})
		add("bad-type:ocsp_aia_strict", "reject", "invalid-value option=ocsp_aia_strict", func(e *c19Env) string {
			return `{"crl_config":{"work_dir":` + q(e.WorkDir) + `},"ocsp_config":{"ocsp_aia_strict":` + v + `}}`
		})
	}
	add("bad-type:crl_urls-string", "reject", "invalid-value option=crl_urls", func(e *c19Env) string {
		return `{"crl_config":{"work_dir":` + q(e.WorkDir) + `,"crl_urls":"http://h/1"}}`
	})
	add("bad-type:mode-number", "reject", "invalid-value option=mode", func(e *c19Env) string {
		return `{"mode":3,"crl_config":{"work_dir":` + q(e.WorkDir) + `}}`
	})
	add("empty-lists", "accept", "empty-lists", func(e *c19Env) string {
		return `{"crl_config":{"work_dir":` + q(e.WorkDir) + `,"crl_urls":[],"crl_files":[],"trusted_signature_certs_files":[]},"ocsp_config":{"trusted_responder_certs_files":[]}}`
	})
	add("nulls", "accept", "nulls", func(e *c19Env) string {
		return `{"mode":null,"crl_config":{"work_dir":` + q(e.WorkDir) + `,"cdp_config":null,"crl_urls":null},"ocsp_config":null}`
	})
	return out
}

// c19RealCRLMatrix: configurations whose crl_files / crl_urls point at real CRLs.
func c19RealCRLMatrix(fx *c19Fixture) []c19Case {
	var out []c19Case
	for _, mode := range []*string{nil, c19Sp("prefer_crl"), c19Sp("crl_only"), c19Sp("ocsp_only"), c19Sp("disabled")} {
		for _, sig := range []*string{nil, c19Sp("none"), c19Sp("verify_log"), c19Sp("verify")} {
			for _, st := range []*string{nil, c19Sp("memory"), c19Sp("disk")} {
				for _, fm := range []*string{nil, c19Sp("fetch_actively"), c19Sp("fetch_background")} {
					for src := 0; src < 4; src++ { // 0 file, 1 url, 2 file+url, 3 two files + two urls (one PEM)
						for _, trusted := range []bool{true, false} {
							e := fx.newEnv()
							c := c19Base(e)
							c.Mode, c.Crl.Sig, c.Crl.Storage = mode, sig, st
							if fm != nil {
								c.Crl.Cdp = &c19ACdp{Fetch: fm}
							}
							switch src {
							case 0:
								c.Crl.Files = []string{fx.CRLFileDER}
							case 1:
								c.Crl.Urls = []string{fx.CRLUrlDER}
							case 2:
								c.Crl.Files = []string{fx.CRLFilePEM}
								c.Crl.Urls = []string{fx.CRLUrlDER}
							case 3:
								c.Crl.Files = []string{fx.CRLFileDER, fx.CRLFile2}
								c.Crl.Urls = []string{fx.CRLUrlPEM, fx.CRLUrl2}
							}
							if trusted {
								c.Crl.Signers = []string{fx.CACertFile}
								if src == 3 {
									c.Crl.Signers = []string{fx.CertFiles[0], fx.CACertFile, fx.CA2CertFile}
								}
							}
							out = append(out, c19Case{Name: "real-crl", Cfg: c, Env: e, Spell: [2]string{"true", "false"}})
						}
					}
				}
			}
		}
	}
	return out
}

// ---- running one case ------------------------------------------------------------------------

type c19Result struct {
	Ops        [][2]string
	Viol       []Violation
	Key        string
	Nontrivial bool
	CaddyText  string
	JSONText   string
	CfObs      string
	JsObs      string
}

func c19Run(fx *c19Fixture, cs c19Case) (res c19Result) {
	e := cs.Env
	norm := func(s string) string { return strings.ReplaceAll(s, e.Root, "$W") }
	viol := func(sig, detail string) {
		res.Viol = append(res.Viol, Violation{Signature: "C19 " + sig, Detail: detail,
			Replay: map[string]interface{}{"family": cs.Name, "caddyfile": res.CaddyText, "json": res.JSONText,
				"caddyfile_obs": res.CfObs, "json_obs": res.JsObs, "note": "scratch paths are per run; work_dir must be an existing empty directory"}})
	}
	var cf, js *c19Load
	switch {
	case cs.Cfg != nil:
		ts := cs.Cfg.toks(cs.Spell)
		if cs.Shuf != 0 {
			ts = c19ShuffleToks(ts, rand.New(rand.NewSource(cs.Shuf)))
		}
		res.CaddyText = c19CaddyText(ts)
		res.JSONText = cs.Cfg.json()
		cf = fx.loadCaddyfile(e, ts, res.CaddyText)
		js = fx.loadJSON(e, res.JSONText)
		res.Nontrivial = cs.Cfg.Mode != nil || cs.Cfg.Crl != nil || cs.Cfg.Ocsp != nil
	case cs.JSON != "":
		res.JSONText = cs.JSON
		js = fx.loadJSON(e, res.JSONText)
		res.Nontrivial = true
	default:
		res.CaddyText = c19CaddyText(cs.Toks)
		cf = fx.loadCaddyfile(e, cs.Toks, res.CaddyText)
		res.Nontrivial = true
	}
	res.Key = norm(res.CaddyText + "|" + res.JSONText)
	if cf != nil {
		res.CfObs = cf.Obs
		res.Ops = append(res.Ops, [2]string{cf.Op, cf.Obs})
	}
	if js != nil {
		res.JsObs = js.Obs
		if js.Op != "" {
			res.Ops = append(res.Ops, [2]string{js.Op, js.Obs})
		}
	}

	// ---- implementation-side oracle ----
	for _, l := range []*c19Load{cf, js} {
		if l == nil {
			continue
		}
		if l.Class == "panic" {
			what := "other"
			if strings.Contains(l.Err, "non-positive interval") {
				what = "update_interval-nonpositive"
			}
			viol("load-panics "+what, "loading the configuration ("+l.Syntax+") panicked instead of returning an error: "+l.Err)
		}
	}
	if cs.Cfg != nil {
		// (1) both syntaxes agree
		if cf.Class != js.Class {
			viol("caddyfile-json-differ outcome", fmt.Sprintf("caddyfile: %s (%s) / json: %s (%s)", cf.Obs, cf.Err, js.Obs, js.Err))
		} else if cf.Class == "ok" {
			if a, b := cf.Eff.masked().String(), js.Eff.masked().String(); a != b {
				viol("caddyfile-json-differ "+c19DiffField(cf.Eff.masked(), js.Eff.masked()), "caddyfile: "+a+" / json: "+b)
			}
		}
		// (2) documented semantics: defaults, values, rejection of invalid values, valid combinations provision
		want, invalid := fx.documented(cs.Cfg, e)
		for _, l := range []*c19Load{cf, js} {
			switch {
			case invalid != "" && l.Class == "ok":
				viol("invalid-value-accepted "+invalid+" syntax="+l.Syntax, "expected rejection ("+invalid+"), got "+l.Obs)
			case invalid == "" && l.Class == "error":
				viol("valid-config-rejected syntax="+l.Syntax, "every value is valid and referenced files exist, but loading failed: "+l.Err)
			case invalid == "" && l.Class == "ok":
				if a, b := l.Eff.masked().String(), want.masked().String(); a != b {
					viol("option-not-effective "+c19DiffField(l.Eff.masked(), want.masked())+" syntax="+l.Syntax, "got "+a+" / documented "+b)
				}
			}
		}
	} else {
		l := cf
		if l == nil {
			l = js
		}
		switch cs.Expect {
		case "reject":
			if l.Class == "ok" {
				kind, attrs, _ := strings.Cut(cs.Why, " ")
				viol(strings.TrimSpace(kind+"-accepted "+attrs)+" syntax="+l.Syntax, "expected rejection, got "+l.Obs)
			}
		case "accept":
			if l.Class != "ok" {
				viol("valid-config-rejected "+cs.Why+" syntax="+l.Syntax, "expected to load, got "+l.Obs+" "+l.Err)
			} else if strings.HasPrefix(cs.Why, "bool-spelling") {
				want := strings.HasSuffix(cs.Why, "true")
				if l.Eff.CRL == nil || l.Eff.CRL.CDP == nil || l.Eff.CRL.CDP.Strict != want || l.Eff.OCSP == nil || l.Eff.OCSP.Strict != want {
					viol("option-not-effective strict-flag syntax="+l.Syntax, "spelling parsed to the wrong value: "+l.Obs)
				}
			}
		}
	}
	return res
}

// ---- effective configuration -----------------------------------------------------------------

type c19EffCDP struct {
	Fetch  string
	Strict bool
}
type c19EffCRL struct {
	WorkDir, Storage, Sig string
	IntervalNs            int64
	Urls, Files, Signers  []string
	CDP                   *c19EffCDP
}
type c19EffOCSP struct {
	CacheNs    int64
	Responders []string
	Strict     bool
}
type c19EffCfg struct {
	Mode string
	CRL  *c19EffCRL
	OCSP *c19EffOCSP
}

func c19HexList(l []string) string {
	h := make([]string, len(l))
	for i, s := range l {
		h[i] = hexs([]byte(s))
	}
	return "[" + strings.Join(h, ",") + "]"
}

func (e c19EffCfg) String() string {
	crl, ocsp := "nil", "nil"
	if c := e.CRL; c != nil {
		cdp := "nil"
		if c.CDP != nil {
			cdp = fmt.Sprintf("{%s,%v}", c.CDP.Fetch, c.CDP.Strict)
		}
		crl = fmt.Sprintf("{wd=%s st=%s iv=%d sg=%s urls=%s files=%s sgn=%s cdp=%s}", hexs([]byte(c.WorkDir)), c.Storage, c.IntervalNs, c.Sig,
			c19HexList(c.Urls), c19HexList(c.Files), c19HexList(c.Signers), cdp)
	}
	if o := e.OCSP; o != nil {
		ocsp = fmt.Sprintf("{cd=%d rs=%s as=%v}", o.CacheNs, c19HexList(o.Responders), o.Strict)
	}
	return "ok mode=" + e.Mode + " crl=" + crl + " ocsp=" + ocsp
}

func c19CrlEnabledMode(m string) bool {
	return m == "prefer_ocsp" || m == "prefer_crl" || m == "crl_only"
}

// masked: the CRL part is compared only when the mode enables CRL checking (it is never consulted otherwise).
func (e c19EffCfg) masked() c19EffCfg {
	if !c19CrlEnabledMode(e.Mode) {
		e.CRL = nil
	}
	return e
}

func c19DiffField(a, b c19EffCfg) string {
	switch {
	case a.Mode != b.Mode:
		return "field=mode"
	case (a.CRL == nil) != (b.CRL == nil):
		return "field=crl_config"
	case (a.OCSP == nil) != (b.OCSP == nil):
		return "field=ocsp_config"
	}
	if a.CRL != nil {
		x, y := a.CRL, b.CRL
		switch {
		case x.WorkDir != y.WorkDir:
			return "field=work_dir"
		case x.Storage != y.Storage:
			return "field=storage_type"
		case x.IntervalNs != y.IntervalNs:
			return "field=update_interval"
		case x.Sig != y.Sig:
			return "field=signature_validation_mode"
		case c19HexList(x.Urls) != c19HexList(y.Urls):
			return "field=crl_urls"
		case c19HexList(x.Files) != c19HexList(y.Files):
			return "field=crl_files"
		case c19HexList(x.Signers) != c19HexList(y.Signers):
			return "field=trusted_signature_certs_files"
		case (x.CDP == nil) != (y.CDP == nil):
			return "field=cdp_config"
		case x.CDP != nil && x.CDP.Fetch != y.CDP.Fetch:
			return "field=crl_fetch_mode"
		case x.CDP != nil && x.CDP.Strict != y.CDP.Strict:
			return "field=crl_cdp_strict"
		}
	}
	if a.OCSP != nil {
		x, y := a.OCSP, b.OCSP
		switch {
		case x.CacheNs != y.CacheNs:
			return "field=default_cache_duration"
		case c19HexList(x.Responders) != c19HexList(y.Responders):
			return "field=trusted_responder_certs_files"
		case x.Strict != y.Strict:
			return "field=ocsp_aia_strict"
		}
	}
	return "field=?"
}

func c19InList(s string, l []string) bool {
	for _, x := range l {
		if x == s {
			return true
		}
	}
	return false
}
